#!/usr/bin/env python3
"""
Shared check driver (DESIGN §2.5).  `tools/check Cxx --tier quick|thorough [--replay f]`.

Per property the pipeline is
  1. build the Go harness for the property's component(s) from /repo's *current working tree*
     (build tag `verif` + `go build -overlay`, nothing is written into /repo);
  2. regenerate lean/Refinery/Gen/<Comp>.lean from the harness' `facts` (constants the theorems
     depend on), then `lake build` the property's theorem module and the oracle executable;
  3. audit: every theorem of Props/Cxx.lean, the axioms it uses, forbidden tokens;
  4. correspondence: corpus first, then generated cases: harness -> transcript -> oracle
     (model step equality + property monitor evaluated on the implementation's observations);
  5. decide, shrink, write evidence/Cxx.json and (on failure) evidence/replays/…;
     print VIOLATION / KNOWN-FINDING lines.
"""
import argparse, hashlib, importlib.util, json, os, re, shutil, subprocess, sys, time
from concurrent.futures import ThreadPoolExecutor

VERIF = os.path.dirname(os.path.dirname(os.path.abspath(__file__)))
REPO = os.environ.get("VERIF_REPO", "/repo")
CACHE = os.path.join(VERIF, ".cache")
LEAN = os.path.join(VERIF, "lean")
GOENV = dict(os.environ, GOFLAGS="-mod=mod", GOPROXY="off")
GOENV.pop("GOTOOLCHAIN", None) if os.environ.get("GOTOOLCHAIN") == "local" else None
GOENV.pop("GOSUMDB", None) if os.environ.get("GOSUMDB") == "off" else None
ALLOWED_AXIOMS = {"propext", "Classical.choice", "Quot.sound"}
FORBIDDEN = re.compile(r"\bsorry\b|\badmit\b|^axiom |native_decide|bv_decide|implemented_by|\bunsafe |maxHeartbeats 0")
NCPU = os.cpu_count() or 4


def log(*a):
    print(*a, file=sys.stderr, flush=True)


def sh(cmd, cwd=None, env=None, timeout=None, stdin=None, stdout=subprocess.PIPE):
    return subprocess.run(cmd, cwd=cwd, env=env, timeout=timeout, stdin=stdin, stdout=stdout,
                          stderr=subprocess.STDOUT, text=True, shell=isinstance(cmd, str))


# --------------------------------------------------------------------------- overlay + go build
def build_overlay():
    """harness/cmd/<n>/*.go -> /repo/cmd/vh_<n>/ ; harness/kit -> /repo/internal/verifkit ;
    harness/inject/<pkg path>/*.go -> /repo/<pkg path>/ (names must start with zz_verif_)."""
    repl = {}
    h = os.path.join(VERIF, "harness")
    for f in sorted(os.listdir(os.path.join(h, "kit"))):
        if f.endswith(".go"):
            repl[os.path.join(REPO, "internal/verifkit", f)] = os.path.join(h, "kit", f)
    for n in sorted(os.listdir(os.path.join(h, "cmd"))):
        d = os.path.join(h, "cmd", n)
        if os.path.isdir(d):
            for f in sorted(os.listdir(d)):
                if f.endswith(".go"):
                    repl[os.path.join(REPO, "cmd", "vh_" + n, f)] = os.path.join(d, f)
    inj = os.path.join(h, "inject")
    if os.path.isdir(inj):
        for root, _, files in os.walk(inj):
            for f in sorted(files):
                if f.endswith(".go") and f.startswith("zz_verif_"):
                    rel = os.path.relpath(os.path.join(root, f), inj)
                    repl[os.path.join(REPO, rel)] = os.path.join(root, f)
    os.makedirs(CACHE, exist_ok=True)
    # one file per target repo: the replacement paths depend on REPO, and several checks (some with
    # VERIF_REPO pointing at a scratch worktree) may run at the same time
    name = "overlay.json" if REPO == "/repo" else "overlay-%s.json" % hashlib.sha1(REPO.encode()).hexdigest()[:10]
    p = os.path.join(CACHE, name)
    tmp = p + ".%d" % os.getpid()
    with open(tmp, "w") as fh:
        json.dump({"Replace": repl}, fh, indent=1)
    os.replace(tmp, p)
    return p


def go_build(comp, race=False):
    ov = build_overlay()
    os.makedirs(os.path.join(CACHE, "bin"), exist_ok=True)
    suffix = "" if REPO == "/repo" else "-" + hashlib.sha1(REPO.encode()).hexdigest()[:10]
    out = os.path.join(CACHE, "bin", "vh_" + comp + ("_race" if race else "") + suffix)
    cmd = ["go", "build", "-tags", "verif", "-overlay", ov, "-o", out]
    if race:
        cmd.append("-race")
    cmd.append("./cmd/vh_" + comp)
    t = time.time()
    r = sh(cmd, cwd=REPO, env=GOENV, timeout=1500)
    log("[go build vh_%s] rc=%d %.1fs" % (comp, r.returncode, time.time() - t))
    return (out if r.returncode == 0 else None), r.stdout


# --------------------------------------------------------------------------- lean
def write_if_changed(path, content):
    try:
        if open(path).read() == content:
            return False
    except FileNotFoundError:
        pass
    os.makedirs(os.path.dirname(path), exist_ok=True)
    tmp = path + ".%d" % os.getpid()
    open(tmp, "w").write(content)
    os.replace(tmp, path)
    return True


def regen_facts(comp, binpath, spec):
    """Gen/<Comp>.lean: `def <name> : Int := <v>` / String facts printed by `vh_<comp> facts`."""
    gen = spec.get("gen_module")
    if not gen:
        return {}, None
    r = sh([binpath, "facts"], timeout=120)
    if r.returncode != 0:
        return None, r.stdout
    facts = {}
    for line in r.stdout.splitlines():
        parts = line.split(" ", 1)
        if len(parts) == 2:
            facts[parts[0]] = parts[1]
    lines = ["/- GENERATED on every run by tools/check from /repo's current tree (harness `facts`,",
             "   i.e. values computed by the compiled code itself).  Do not edit. -/",
             "namespace " + gen, ""]
    for k in sorted(facts):
        v = facts[k]
        if re.fullmatch(r"-?\d+", v):
            lines.append("def %s : Int := %s" % (k, v if not v.startswith("-") else "(%s)" % v))
        elif v.startswith("["):          # list of ints / strings, already in Lean syntax
            lines.append("def %s := %s" % (k, v))
        else:
            lines.append("def %s : String := %s" % (k, json.dumps(v)))
    lines += ["", "end " + gen, ""]
    path = os.path.join(LEAN, *gen.split(".")) + ".lean"
    changed = write_if_changed(path, "\n".join(lines))
    if changed:
        log("[facts] regenerated", path)
    return facts, None


def lake_build(targets):
    t = time.time()
    r = sh(["lake", "build"] + targets, cwd=LEAN, timeout=3000)
    log("[lake build %s] rc=%d %.1fs" % (" ".join(targets), r.returncode, time.time() - t))
    return r.returncode == 0, r.stdout


def lean_sources_of(module):
    """The property module and the Refinery.* modules it (transitively) imports."""
    seen, todo = [], [module]
    while todo:
        m = todo.pop()
        if m in seen:
            continue
        p = os.path.join(LEAN, *m.split(".")) + ".lean"
        if not os.path.exists(p):
            continue
        seen.append(m)
        for line in open(p):
            mm = re.match(r"\s*import\s+((Refinery|Oracle)\.[\w.]+)", line)
            if mm:
                todo.append(mm.group(1))
    return seen


def strip_comments(src):
    src = re.sub(r"/-.*?-/", "", src, flags=re.S)
    return "\n".join(l.split("--")[0] for l in src.splitlines())


def audit(module):
    """-> (theorems: {name: [axioms]}, problems: [str])"""
    problems = []
    for m in lean_sources_of(module):
        p = os.path.join(LEAN, *m.split(".")) + ".lean"
        for i, l in enumerate(strip_comments(open(p).read()).splitlines(), 1):
            if FORBIDDEN.search(l):
                problems.append("forbidden token in %s: %s" % (m, l.strip()[:80]))
    r = sh(["lake", "env", "lean", "--run", "Audit.lean", module], cwd=LEAN, timeout=900)
    thms = {}
    done = False
    for line in r.stdout.splitlines():
        mm = re.match(r"THEOREM (\S+) AXIOMS (\S+)", line)
        if mm:
            axs = [] if mm.group(2) == "-" else mm.group(2).split(",")
            thms[mm.group(1)] = axs
            bad = [a for a in axs if a not in ALLOWED_AXIOMS]
            if bad:
                problems.append("theorem %s depends on non-standard axioms %s" % (mm.group(1), bad))
        if line.startswith("AUDIT-DONE"):
            done = True
    if not done:
        problems.append("audit did not complete: " + r.stdout[-400:])
    return thms, problems


# --------------------------------------------------------------------------- transcripts
def parse_cases(text):
    """ops file or transcript -> list of dicts {id, header, lines:[raw lines incl. obs]}"""
    cases, cur = [], None
    for line in text.splitlines():
        if line.startswith("case "):
            parts = line.split(" ", 2)
            cur = {"id": parts[1], "header": parts[2] if len(parts) > 2 else "", "lines": []}
            cases.append(cur)
        elif line.startswith("end"):
            cur = None
        elif cur is not None:
            cur["lines"].append(line)
    return cases


def case_ops_text(case, cid=None, ops=None):
    ops = [l for l in case["lines"] if l.startswith("op ")] if ops is None else ops
    return "case %s %s\n%s\nend\n" % (cid or case["id"], case["header"], "\n".join(ops))


def run_pipeline(binpath, oracle, ops_text, workdir, tag, timeout=900, mem="4GiB"):
    """ops text -> (transcript text, verdict lines, error)"""
    os.makedirs(workdir, exist_ok=True)
    opsf = os.path.join(workdir, tag + ".ops")
    trf = os.path.join(workdir, tag + ".tr")
    open(opsf, "w").write(ops_text)
    env = dict(os.environ, GOMEMLIMIT=mem)
    with open(opsf) as i, open(trf, "w") as o:
        try:
            r = subprocess.run([binpath, "run"], stdin=i, stdout=o, stderr=subprocess.PIPE, text=True,
                               timeout=timeout, env=env)
        except subprocess.TimeoutExpired:
            return open(trf).read(), [], "harness timeout after %ds" % timeout
    err = None
    if r.returncode != 0:
        err = "harness exit %d: %s" % (r.returncode, (r.stderr or "")[-600:])
    with open(trf) as i:
        try:
            v = subprocess.run([oracle], stdin=i, stdout=subprocess.PIPE, stderr=subprocess.STDOUT, text=True,
                               timeout=timeout)
        except subprocess.TimeoutExpired:
            return open(trf).read(), [], "oracle timeout"
    if v.returncode != 0 and not err:
        err = "oracle exit %d: %s" % (v.returncode, v.stdout[-600:])
    return open(trf).read(), v.stdout.splitlines(), err


def classify(verdicts, prop):
    """-> (ok_ids, mismatches {id: line}, monfails {id: [(sig, line)]})  (monitor fails of `prop` only)"""
    ok, mis, mon = set(), {}, {}
    for l in verdicts:
        p = l.split(" ")
        if p[0] == "OK":
            ok.add(p[1])
        elif p[0] == "MISMATCH":
            mis[p[1]] = l
        elif p[0] == "MONITOR-FAIL" and len(p) > 2 and p[2] == prop:
            m = re.search(r"sig=(\S+)", l)
            mon.setdefault(p[1], []).append((m.group(1) if m else "?", l))
    return ok, mis, mon


def load_known():
    fs = {"finding": [], "fixed": []}
    paths = [os.path.join(VERIF, "known_findings.jsonl")]
    if os.environ.get("VERIF_KNOWN"):          # development aid only: an extra file in the same format
        paths.append(os.environ["VERIF_KNOWN"])
    for p in paths:
        if not os.path.exists(p):
            continue
        for l in open(p):
            l = l.strip()
            if l:
                j = json.loads(l)
                fs.setdefault(j.get("kind", "finding"), []).append(j)
    return fs


def shrink(binpath, oracle, case, prop, want, workdir, budget=120):
    """delta-debug the op lines of `case`; `want(mis, mon) -> bool` says the failure is still there."""
    ops = [l for l in case["lines"] if l.startswith("op ")]
    tries = 0

    def still(cand):
        nonlocal tries
        tries += 1
        _, v, err = run_pipeline(binpath, oracle, case_ops_text(case, "1", cand), workdir, "shrink", timeout=120)
        if err:
            return False
        _, mis, mon = classify(v, prop)
        return want(mis.get("1"), mon.get("1", []))

    n = 2
    while len(ops) >= 2 and tries < budget:
        chunk = max(1, len(ops) // n)
        removed = False
        for i in range(0, len(ops), chunk):
            cand = ops[:i] + ops[i + chunk:]
            if cand and still(cand):
                ops, removed = cand, True
                n = max(n - 1, 2)
                break
            if tries >= budget:
                break
        if not removed:
            if chunk == 1:
                break
            n = min(n * 2, len(ops))
    return ops


# --------------------------------------------------------------------------- main flow
def load_spec(prop):
    p = os.path.join(VERIF, "checks", prop + ".py")
    s = importlib.util.spec_from_file_location("check_" + prop, p)
    m = importlib.util.module_from_spec(s)
    s.loader.exec_module(m)
    return m.SPEC


def write_evidence(prop, ev):
    os.makedirs(os.path.join(VERIF, "evidence"), exist_ok=True)
    p = os.path.join(VERIF, "evidence", prop + ".json")
    tmp = p + ".tmp%d" % os.getpid()
    json.dump(ev, open(tmp, "w"), indent=1)
    os.replace(tmp, p)


def write_replay(prop, seed, payload):
    d = os.path.join(VERIF, "evidence", "replays")
    os.makedirs(d, exist_ok=True)
    p = os.path.join(d, "%s-%s.json" % (prop, seed))
    json.dump(payload, open(p, "w"), indent=1)
    return p


def main(argv=None):
    ap = argparse.ArgumentParser()
    ap.add_argument("prop")
    ap.add_argument("--tier", default=os.environ.get("VERIF_TIER", "quick"))
    ap.add_argument("--replay")
    a = ap.parse_args(argv)
    prop, tier = a.prop, a.tier if a.tier in ("quick", "thorough") else "quick"
    seed = int(os.environ.get("VERIF_SEED", "1") or 1)
    spec = load_spec(prop)
    if "custom" in spec:                       # a property with its own decision procedure
        return spec["custom"](sys.modules[__name__], spec, tier, seed, a.replay)
    return generic_check(spec, prop, tier, seed, a.replay)


def generic_check(spec, prop, tier, seed, replay):
    t0 = time.time()
    comp = spec["component"]
    module = spec["props_module"]
    workdir = os.path.join(CACHE, "run", prop + ("" if REPO == "/repo" else "-" + hashlib.sha1(REPO.encode()).hexdigest()[:10]))
    shutil.rmtree(workdir, ignore_errors=True)
    os.makedirs(workdir, exist_ok=True)
    known = load_known()
    known_sigs = {k["signature"]: k for k in known["finding"] if k.get("property") == prop}
    broken = []          # names of theorems / ties that no longer check
    violations = []      # (what, replay path)
    known_hit = {}
    cov = dict(spec.get("coverage_static", {}))

    # 1. harness from the current tree
    binpath, gout = go_build(comp)
    if not binpath:
        broken.append("correspondence:harness-build(vh_%s)" % comp)
        log(gout[-3000:])
    # 2. facts + lean
    if binpath:
        facts, ferr = regen_facts(comp, binpath, spec)
        if facts is None:
            broken.append("facts:vh_%s" % comp)
            log(ferr)
        else:
            cov["facts"] = facts
    sh([os.path.join(VERIF, "tools", "mklake")])
    ok_or, oout = lake_build(["oracle_" + spec.get("oracle", comp)])
    if not ok_or:
        broken.append("oracle-build:oracle_%s" % spec.get("oracle", comp))
        log(oout[-3000:])
    ok_pr, pout = lake_build([module])
    thms, problems = {}, []
    if not ok_pr:
        errs = [l for l in pout.splitlines() if l.startswith("error")]
        broken.append("proof:%s (%s)" % (module, "; ".join(errs[:3])[:300]))
        log(pout[-3000:])
    else:
        thms, problems = audit(module)
        for pr in problems:
            broken.append("audit:" + pr)
    oracle = os.path.join(LEAN, ".lake", "build", "bin", "oracle_" + spec.get("oracle", comp))

    # 3. correspondence
    params = dict(spec[tier])
    evaluations = 0
    validated = 0
    dist = {}
    nontrivial = set()
    samples = []
    fail_cases = []      # (kind, case dict, detail, shard tag)
    harness_errs = []
    if binpath and ok_or:
        jobs = []
        # corpus / replay first
        cdir = os.path.join(VERIF, "corpus", prop)
        corpus_text = ""
        if replay:
            rp = json.load(open(replay))
            corpus_text = rp.get("ops", "")
        elif os.path.isdir(cdir):
            n = 0
            for f in sorted(os.listdir(cdir)):
                if f.endswith(".ops"):
                    for c in parse_cases(open(os.path.join(cdir, f)).read()):
                        n += 1
                        corpus_text += case_ops_text(c, "c%d" % n)
        if corpus_text:
            jobs.append(("corpus", corpus_text))
        if not replay:
            shards = params.get("shards", 1)
            per = max(1, params["cases"] // shards)
            for i in range(shards):
                s = seed * 1000003 + i
                g = sh([binpath, "gen", "-seed", str(s), "-cases", str(per), "-len", str(params["len"]), "-tier", tier],
                       timeout=600)
                if g.returncode != 0:
                    harness_errs.append("gen failed: " + g.stdout[-300:])
                    continue
                jobs.append(("s%d" % i, g.stdout))

        def work(job):
            tag, text = job
            return tag, text, run_pipeline(binpath, oracle, text, workdir, tag, timeout=params.get("timeout", 1200))
        with ThreadPoolExecutor(max_workers=min(NCPU, max(1, len(jobs)))) as ex:
            results = list(ex.map(work, jobs))
        nt_rule = spec.get("nontrivial")
        for tag, text, (tr, verdicts, err) in results:
            if err:
                harness_errs.append("%s: %s" % (tag, err))
            cases = parse_cases(tr)
            okids, mis, mon = classify(verdicts, prop)
            evaluations += len(cases)
            validated += len(okids)
            byid = {c["id"]: c for c in cases}
            for c in cases:
                for l in c["lines"]:
                    if l.startswith("op "):
                        k = l.split(" ")[1]
                        dist[k] = dist.get(k, 0) + 1
                if nt_rule is None or nt_rule(c):
                    nontrivial.add(hashlib.sha1(("\n".join(c["lines"]) + c["header"]).encode()).hexdigest())
                if len(samples) < 2 and len(c["lines"]) > 4:
                    samples.append({"case": c["header"], "transcript": c["lines"][:40]})
            reported = set(okids) | set(mis)
            missing = [c["id"] for c in cases if c["id"] not in reported]
            if missing and not err:
                harness_errs.append("%s: oracle gave no verdict for cases %s" % (tag, missing[:5]))
            for cid, line in mis.items():
                fail_cases.append(("mismatch", byid.get(cid), line, tag))
            for cid, fl in mon.items():
                for sig, line in fl:
                    fail_cases.append(("monitor", byid.get(cid), (sig, line), tag))
    for e in harness_errs:
        broken.append("correspondence:run(%s)" % e[:300])

    # 4. decide
    mon_new = [(c, d) for k, c, d, _ in fail_cases if k == "monitor" and d[0] not in known_sigs]
    mon_known = [(c, d) for k, c, d, _ in fail_cases if k == "monitor" and d[0] in known_sigs]
    mism = [(c, d) for k, c, d, _ in fail_cases if k == "mismatch"]
    for c, (sig, line) in mon_known:
        known_hit.setdefault(sig, line)
    out_lines = []
    if mon_new:
        bysig = {}
        for c, (sig, line) in mon_new:
            bysig.setdefault(sig, (c, line))
        for sig, (c, line) in bysig.items():
            ops = shrink(binpath, oracle, c, prop, lambda m, mo, sig=sig: any(s == sig for s, _ in mo), workdir) if c else []
            text = case_ops_text(c, "1", ops) if c else ""
            tr, v, _ = run_pipeline(binpath, oracle, text, workdir, "final") if c else ("", [], None)
            rp = write_replay(prop, "%d-%s-%s" % (seed, re.sub(r"\W+", "_", sig)[:40], hashlib.sha1(sig.encode()).hexdigest()[:6]), {
                "property": prop, "kind": "monitor-failure", "signature": sig, "seed": seed, "tier": tier,
                "ops": text, "transcript": tr, "verdicts": v, "first_seen": line,
                "rerun": "tools/check %s --replay <this file>" % prop})
            violations.append(("monitor %s: %s" % (sig, line), rp, False))
    if mism and not mon_new:
        # model and implementation differ but no monitor fired on these cases: directed search =
        # shrink the mismatch and look for a monitor failure among the mismatching cases' variants
        c, line = mism[0]
        ops = shrink(binpath, oracle, c, prop, lambda m, mo: m is not None, workdir) if c else []
        text = case_ops_text(c, "1", ops) if c else ""
        tr, v, _ = run_pipeline(binpath, oracle, text, workdir, "final") if c else ("", [], None)
        rp = write_replay(prop, "%d-mismatch" % seed, {
            "property": prop, "kind": "correspondence-mismatch", "seed": seed, "tier": tier,
            "no_longer_checks": "correspondence oracle_%s vs vh_%s (%d mismatching cases)" % (spec.get("oracle", comp), comp, len(mism)),
            "ops": text, "transcript": tr, "verdicts": v, "first_seen": line,
            "rerun": "tools/check %s --replay <this file>" % prop})
        violations.append(("model/implementation mismatch: " + line, rp, True))
    if broken and not mon_new and not mism:
        rp = write_replay(prop, "%d-broken" % seed, {
            "property": prop, "kind": "broken-obligation", "seed": seed, "tier": tier,
            "no_longer_checks": broken, "rerun": "tools/check %s" % prop})
        violations.append(("no longer shown to hold: " + "; ".join(broken)[:400], rp, True))

    for sig, line in known_hit.items():
        print("KNOWN-FINDING: property=%s %s" % (prop, known_sigs[sig].get("what", sig)))
    # known findings that are listed but were not exercised still get their line (the finding is a
    # fact about the unchanged tree, reproduced by the corpus case when one exists)
    for sig, k in known_sigs.items():
        if sig not in known_hit and k.get("static"):
            print("KNOWN-FINDING: property=%s %s" % (prop, k.get("what", sig)))
    for what, rp, nofail in violations:
        log("violation:", what)
        print("VIOLATION property=%s replay=%s%s" % (prop, rp, " no-failing-input-found" if nofail else ""))

    obligations = len([t for t in thms if t.startswith(module + ".")]) if thms else 0
    discharged = obligations if ok_pr and not problems else 0
    if not ok_pr:
        obligations = max(obligations, 1)
    cov.update({
        "obligations": obligations,
        "discharged": discharged,
        "checker_cmd": "cd /verif/lean && lake build %s && lake env lean --run Audit.lean %s" % (module, module),
        "trusted_base": spec.get("trusted_base", []) + [
            "Lean 4.33.0 kernel", "axioms: " + ",".join(sorted({a for axs in thms.values() for a in axs}) or ["none"]),
            "correspondence check (Go harness vh_%s + oracle_%s): differential testing on generated cases" % (comp, spec.get("oracle", comp))],
        "theorems": {k: v for k, v in sorted(thms.items())},
        "evaluations": evaluations,
        "traces_validated_against_impl": validated,
        "distinct_nontrivial": len(nontrivial),
        "rule": spec.get("rule", "distinct (header, transcript) of generated cases"),
        "op_distribution": dist,
        "samples": samples or [{"note": "no case executed"}],
        "known_findings_reproduced": sorted(known_hit),
        "broken": broken,
    })
    ev = {"property_id": prop, "tier": tier, "seed": seed, "level": "proof", "coverage": cov,
          "assumptions": spec.get("assumptions", []), "wall_s": round(time.time() - t0, 2),
          "violations": len(violations)}
    write_evidence(prop, ev)
    log("[%s] tier=%s cases=%d validated=%d theorems=%d violations=%d known=%d %.1fs" % (
        prop, tier, evaluations, validated, obligations, len(violations), len(known_hit), time.time() - t0))
    return 1 if violations else 0


if __name__ == "__main__":
    sys.exit(main())
