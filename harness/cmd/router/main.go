//go:build verif

// Harness for route.Router.processEvent (property C19): one case = one node (an incoming and a
// peer Router sharing a recording collector stub, a recording upstream and peer transmission and a
// sharder: sharder.MockSharder or a real sharder.DeterministicSharder over peer.MockPeers), one
// op = one event pushed through the real processEvent of one of the two routers under a chosen
// stress state / queue state.
//
//	op  ev rt=in|peer st=off|skip|drop|keep fin=0|1 fpeer=0|1 enc=map|msgp|bad
//	       host= key= ds= env= rate= ts=<sec.nsec> f=<key;type;value,…|->
//	op  dsdecode <segment>   real getDatasetFromRequest, mux variable datasetName = <segment>
//	op  dsescape <dataset>   url.PathEscape (pins the model of the external function)
//	op  dshop <dataset>      real buildRequestURL -> HTTP request line -> mux with the router's
//	                         route template (UseEncodedPath) -> real getDatasetFromRequest
//	ext which <trace id> = <address>      every Sharder.WhichShard call made during the op
//	ext seg <dataset> = <segment>         the mux variable the receiving handler saw (dshop)
//	obs err=… imm=<ProcessSpanImmediately calls> n=<sink calls> <call>… final=<event at return>
package main

import (
	"context"
	"errors"
	"fmt"
	"net/http"
	"net/http/httptest"
	"net/url"
	"sort"
	"strconv"
	"strings"
	"time"

	"github.com/gorilla/mux"
	"github.com/honeycombio/refinery/collect"
	"github.com/honeycombio/refinery/config"
	"github.com/honeycombio/refinery/internal/peer"
	kit "github.com/honeycombio/refinery/internal/verifkit"
	"github.com/honeycombio/refinery/logger"
	"github.com/honeycombio/refinery/metrics"
	"github.com/honeycombio/refinery/route"
	"github.com/honeycombio/refinery/sharder"
	"github.com/honeycombio/refinery/transmit"
	"github.com/honeycombio/refinery/types"
	"github.com/tinylib/msgp/msgp"
)

type comp struct{}

// ------------------------------------------------------------------------------- field lists

type field struct{ k, t, v string } // t: s string, i int, b bool (v 0|1), n nil (v -)

func encFields(fs []field) string {
	if len(fs) == 0 {
		return "-"
	}
	parts := make([]string, len(fs))
	for i, f := range fs {
		v := f.v
		if f.t == "s" {
			v = kit.Enc(f.v)
		}
		parts[i] = kit.Enc(f.k) + ";" + f.t + ";" + v
	}
	return strings.Join(parts, ",")
}

func decFields(s string) []field {
	if s == "-" || s == "" {
		return nil
	}
	var out []field
	for _, p := range strings.Split(s, ",") {
		x := strings.Split(p, ";")
		if len(x) != 3 {
			continue
		}
		f := field{k: kit.Dec(x[0]), t: x[1], v: x[2]}
		if f.t == "s" {
			f.v = kit.Dec(x[2])
		}
		out = append(out, f)
	}
	return out
}

func encList(l []string) string {
	if len(l) == 0 {
		return "-"
	}
	e := make([]string, len(l))
	for i, s := range l {
		e[i] = kit.Enc(s)
	}
	return strings.Join(e, ",")
}

func decList(s string) []string {
	if s == "-" || s == "" {
		return nil
	}
	var out []string
	for _, p := range strings.Split(s, ",") {
		out = append(out, kit.Dec(p))
	}
	return out
}

// ------------------------------------------------------------------------------- generator

var addrs = []string{"http://n0:8081", "http://n1:8081", "http://n2:8081", "http://10.0.0.3:8081", "https://refinery-4.svc:8443"}

func contains(l []string, s string) bool {
	for _, x := range l {
		if x == s {
			return true
		}
	}
	return false
}

// mapSafe: extraction from a Go map iterates in random order; only inputs whose result does not
// depend on that order are sent through the map encoding (the others go through msgpack, whose
// byte order the model follows).  The trace id no longer depends on it (a non-empty meta.trace_id,
// else the first configured field); what remains is meta.refinery.root=true next to a parent id.
func mapSafe(fs []field, tn, pn []string) bool {
	seen := map[string]bool{}
	rootTrue, parent := false, false
	for _, f := range fs {
		if seen[f.k] {
			return false
		}
		seen[f.k] = true
		switch {
		case f.k == types.MetaRefineryRoot:
			if f.t == "b" && f.v == "1" {
				rootTrue = true
			}
		case contains(pn, f.k):
			if f.t == "s" && f.v != "" {
				parent = true
			}
		}
	}
	return !(rootTrue && parent)
}

func randVal(r *kit.Rng) (string, string) {
	switch r.Pick(5, 3, 2, 1) {
	case 0:
		vs := []string{"span", "GET /x", "", "a,b;c=d|e~f", "%", "true", "héllo"}
		return "s", vs[r.Intn(len(vs))]
	case 1:
		vs := []string{"0", "1", "-7", "250", "9007199254740993", "-9223372036854775808"}
		return "i", vs[r.Intn(len(vs))]
	case 2:
		return "b", strconv.Itoa(r.Intn(2))
	}
	return "n", "-"
}

func genEvent(r *kit.Rng, tn, pn, pool []string) string {
	tidv := pool[r.Intn(len(pool))]
	tid2 := pool[r.Intn(len(pool))]
	tname := func(i int) string {
		if len(tn) == 0 {
			return "trace.trace_id" // not configured: an ordinary field
		}
		return tn[i%len(tn)]
	}
	pname := func() string {
		if len(pn) == 0 {
			return "trace.parent_id"
		}
		return pn[r.Intn(len(pn))]
	}
	var fs []field
	add := func(k, t, v string) { fs = append(fs, field{k, t, v}) }
	switch r.Pick(12, 36, 11, 14, 3, 4, 4, 7, 5, 4) { // how (whether) the event carries a trace id
	case 0:
	case 1:
		add(tname(0), "s", tidv)
	case 2:
		add(tname(1), "s", tidv)
	case 3:
		add(types.MetaTraceID, "s", tidv)
	case 4:
		add(types.MetaTraceID, "s", "")
	case 5:
		add(tname(0), "s", "")
	case 6:
		add(tname(0), "i", "12345")
	case 7:
		add(types.MetaTraceID, "s", tidv)
		add(tname(0), "s", tid2)
	case 8:
		add(tname(0), "s", tidv)
		add(tname(1), "s", tid2)
	case 9:
		// a meta.trace_id that is empty or not a string, next to a usable field
		t := []string{"s", "i", "n"}[r.Intn(3)]
		add(types.MetaTraceID, t, map[string]string{"s": "", "i": "3", "n": "-"}[t])
		add(tname(r.Intn(2)), "s", tidv)
	}
	switch r.Pick(68, 14, 6, 4, 2, 2, 2, 2) { // probe flag
	case 1:
		add(types.MetaRefineryProbe, "b", "1")
	case 2:
		add(types.MetaRefineryProbe, "b", "0")
	case 3:
		add(types.MetaRefineryProbe, "s", "true")
	case 4:
		add(types.MetaRefineryProbe, "i", "1")
	case 5:
		add(types.MetaRefineryProbe, "n", "-")
	case 6:
		add(types.MetaRefineryProbe, "b", "1")
		add(types.MetaRefineryProbe, "b", "0")
	case 7:
		add(types.MetaRefineryProbe, "b", "0")
		add(types.MetaRefineryProbe, "b", "1")
	}
	switch r.Pick(45, 28, 5, 6, 6, 4, 6) { // root / parent id
	case 1:
		add(pname(), "s", "p1")
	case 2:
		add(pname(), "s", "")
	case 3:
		add(types.MetaRefineryRoot, "b", "1")
	case 4:
		add(types.MetaRefineryRoot, "b", "0")
	case 5:
		add(types.MetaRefineryRoot, "s", "yes")
	case 6:
		add(types.MetaRefineryRoot, "b", "1")
		add(pname(), "s", "p1")
	}
	if r.Chance(3) {
		add(types.MetaStressed, "b", strconv.Itoa(r.Intn(2)))
	}
	others := []string{"name", "duration_ms", "service.name", "meta.foo", "meta.trace_idx", "a b", "error", "meta.refinery.probes", "trace.span_id"}
	for n := r.Intn(5); n > 0; n-- {
		t, v := randVal(r)
		add(others[r.Intn(len(others))], t, v)
	}
	enc := []string{"map", "msgp", "bad"}[r.Pick(45, 51, 4)]
	if enc == "map" {
		if !mapSafe(fs, tn, pn) {
			// drop repeated keys; if the result still depends on the order use msgpack
			var ded []field
			seen := map[string]bool{}
			for _, f := range fs {
				if !seen[f.k] {
					seen[f.k] = true
					ded = append(ded, f)
				}
			}
			if mapSafe(ded, tn, pn) && r.Chance(50) {
				fs = ded
			} else {
				enc = "msgp"
			}
		}
	}
	if enc == "map" {
		sort.SliceStable(fs, func(i, j int) bool { return fs[i].k < fs[j].k })
	} else {
		for i := len(fs) - 1; i > 0; i-- {
			j := r.Intn(i + 1)
			fs[i], fs[j] = fs[j], fs[i]
		}
	}
	hosts := []string{"https://api.honeycomb.io", "https://api.honeycomb.io", "https://api.honeycomb.io", "http://n1:8081", "", "http://custom host/x"}
	keys := []string{"key1", "hcaik_01hxyz", "", "k ey=1"}
	dss := []string{"ds", "my dataset", "a/b,c"}
	envs := []string{"", "prod"}
	rates := []string{"1", "1", "1", "0", "2", "10", "4294967295", strconv.Itoa(r.Intn(1000))}
	secs := []int64{0, 1, 1700000000 + int64(r.Intn(1000000))}
	nsec := 0
	if r.Chance(60) {
		nsec = r.Intn(1000000000)
	}
	rt := []string{"in", "peer"}[r.Intn(2)]
	st := []string{"off", "skip", "drop", "keep"}[r.Pick(58, 6, 13, 23)]
	b2 := func(p int) string {
		if r.Chance(p) {
			return "1"
		}
		return "0"
	}
	return fmt.Sprintf("ev rt=%s st=%s fin=%s fpeer=%s enc=%s host=%s key=%s ds=%s env=%s rate=%s ts=%d.%d f=%s",
		rt, st, b2(25), b2(25), enc, kit.Enc(hosts[r.Intn(len(hosts))]), kit.Enc(keys[r.Intn(len(keys))]),
		kit.Enc(dss[r.Intn(len(dss))]), kit.Enc(envs[r.Intn(len(envs))]), rates[r.Intn(len(rates))],
		secs[r.Intn(len(secs))], nsec, encFields(fs))
}

func (comp) Gen(r *kit.Rng, maxLen int, tier string) kit.Case {
	self := addrs[0]
	pool := []string{"t0", "t1", "t2", "t3", "t4", "t5", "0af7651916cd43dd8448eb211c80319c", "id with space", "té"}
	tn := [][]string{{"trace.trace_id", "traceId"}, {"trace.trace_id", "traceId"}, {"trace.trace_id", "traceId"},
		{"traceId", "trace.trace_id"}, {"trace.trace_id"}, nil}[r.Pick(3, 3, 3, 3, 2, 1)]
	pn := [][]string{{"trace.parent_id", "parentId"}, {"trace.parent_id", "parentId"}, {"trace.parent_id"}, nil}[r.Intn(4)]
	var h string
	if r.Chance(50) {
		other := addrs[1+r.Intn(len(addrs)-1)]
		var remote []string
		for _, t := range pool {
			if r.Chance(50) {
				remote = append(remote, t)
			}
		}
		h = fmt.Sprintf("sh=mock self=%s other=%s remote=%s peers=-", kit.Enc(self), kit.Enc(other), encList(remote))
	} else {
		peers := []string{self}
		for _, a := range addrs[1:] {
			if r.Chance(55) {
				peers = append(peers, a)
			}
		}
		for i := len(peers) - 1; i > 0; i-- {
			j := r.Intn(i + 1)
			peers[i], peers[j] = peers[j], peers[i]
		}
		h = fmt.Sprintf("sh=det self=%s other=- remote=- peers=%s", kit.Enc(self), encList(peers))
	}
	h += fmt.Sprintf(" tn=%s pn=%s", encList(tn), encList(pn))
	n := 4 + r.Intn(maxLen)
	ops := make([]string, n)
	for i := range ops {
		ops[i] = genEvent(r, tn, pn, pool)
	}
	for k := 2 + r.Intn(3); k > 0; k-- {
		ops = append(ops, genDatasetOp(r))
	}
	return kit.Case{Header: h, Ops: ops}
}

// dataset names / path segments: everything the escaping rules distinguish
func genDatasetOp(r *kit.Rng) string {
	pieces := []string{"team", "env", "prod", "a", "Z9", "+", "+", " ", "%", "/", "?", "#", "é", "日本", "%2B", "%20", "%2F",
		"-", "_", ".", "~", "$", "&", ":", "=", "@", ";", ",", "!", "*", "(", ")", "'", "\"", "<", "\\", "\x00", "\n", "\x7f", "\xff"}
	mk := func() string {
		var b strings.Builder
		for n := 1 + r.Intn(4); n > 0; n-- {
			b.WriteString(pieces[r.Intn(len(pieces))])
		}
		return b.String()
	}
	switch r.Pick(5, 2, 3) {
	case 0:
		ds := mk()
		return "dshop " + kit.Enc(ds)
	case 1:
		return "dsescape " + kit.Enc(mk())
	}
	segs := []string{"", "%", "%2", "%zz", "a%2Fb", "team+env", "a+b%2Bc", "%2B", "%41%e9", "%E9", "x%", "%%20", "a%20b", "+", "%2b+%2B"}
	if r.Chance(50) {
		return "dsdecode " + kit.Enc(segs[r.Intn(len(segs))])
	}
	return "dsdecode " + kit.Enc(mk())
}

// ------------------------------------------------------------------------------- runner

type call struct {
	sink   string
	acc    bool
	stid   string // span trace id, "-" when the sink got a bare event
	isRoot string
	desc   string // state of the event when the call was made
}

type runner struct {
	mux      *mux.Router
	hopSeen  bool
	hopSeg   string
	hopDs    string
	hopErr   error
	cfg      *config.MockConfig
	incoming *route.Router
	peerRt   *route.Router
	up, ptx  *recTx
	// per op
	enc        string
	st         string
	fin, fpeer bool
	imm        int
	calls      []call
}

// recTx is a transmit.Transmission that records what it is handed and the state of the event at
// that moment (the repo's MockTransmission keeps only the pointer).
type recTx struct {
	r    *runner
	name string
}

func (t *recTx) EnqueueEvent(ev *types.Event) {
	t.r.calls = append(t.r.calls, call{sink: t.name, acc: true, stid: "-", isRoot: "-", desc: t.r.desc(ev)})
}

func (t *recTx) EnqueueSpan(sp *types.Span) {
	t.r.calls = append(t.r.calls, call{sink: t.name + "coll", acc: true, stid: kit.Enc(sp.TraceID), isRoot: b01(sp.IsRoot), desc: t.r.desc(sp.Event)})
}

// stubColl implements collect.Collector: queues that are full or not as the op says, and the
// stress-relief interface of InMemCollector (a kept span is marked meta.stressed and handed to the
// upstream transmission by the collector itself, as InMemCollector.ProcessSpanImmediately does).
type stubColl struct{ r *runner }

func (c *stubColl) add(sink string, full bool, sp *types.Span) error {
	c.r.calls = append(c.r.calls, call{sink: sink, acc: !full, stid: kit.Enc(sp.TraceID), isRoot: b01(sp.IsRoot), desc: c.r.desc(sp.Event)})
	if full {
		return collect.ErrWouldBlock
	}
	return nil
}
func (c *stubColl) AddSpan(sp *types.Span) error         { return c.add("cin", c.r.fin, sp) }
func (c *stubColl) AddSpanFromPeer(sp *types.Span) error { return c.add("cpeer", c.r.fpeer, sp) }
func (c *stubColl) Stressed() bool                       { return c.r.st != "off" }
func (c *stubColl) GetStressedSampleRate(string) (uint, bool, string) {
	return 1, c.r.st == "keep", "verif"
}
func (c *stubColl) ProcessSpanImmediately(sp *types.Span) (bool, bool) {
	c.r.imm++
	switch c.r.st {
	case "drop":
		return true, false
	case "keep":
		sp.Data.Set(types.MetaStressed, true)
		c.r.up.EnqueueSpan(sp)
		return true, true
	}
	return false, false
}

// recSharder passes every question to the real sharder and records the graph of WhichShard.
type recSharder struct{ inner sharder.Sharder }

func (s recSharder) MyShard() sharder.Shard { return s.inner.MyShard() }
func (s recSharder) WhichShard(tid string) sharder.Shard {
	sh := s.inner.WhichShard(tid)
	kit.Ext("which %s = %s", kit.Enc(tid), kit.Enc(sh.GetAddress()))
	return sh
}

func b01(b bool) string {
	if b {
		return "1"
	}
	return "0"
}

func (comp) NewCase(h []string) kit.Runner {
	r := &runner{}
	r.cfg = &config.MockConfig{TraceIdFieldNames: decList(kit.KV(h, "tn")), ParentIdFieldNames: decList(kit.KV(h, "pn"))}
	lg := &logger.NullLogger{}
	self := kit.Dec(kit.KV(h, "self"))
	var sh sharder.Sharder
	if kit.KV(h, "sh") == "det" {
		d := &sharder.DeterministicSharder{Config: r.cfg, Logger: lg, Peers: peer.NewMockPeers(decList(kit.KV(h, "peers")), self)}
		if !contains(decList(kit.KV(h, "peers")), self) {
			panic("self must be a peer (Start would sleep 25 s)")
		}
		if err := d.Start(); err != nil {
			panic(err)
		}
		sh = d
	} else {
		sh = &sharder.MockSharder{
			Self:  &sharder.TestShard{Addr: self},
			Other: &sharder.TestShard{Addr: kit.Dec(kit.KV(h, "other")), TraceIDs: decList(kit.KV(h, "remote"))},
		}
	}
	rs := recSharder{inner: sh}
	r.up = &recTx{r: r, name: "up"}
	r.ptx = &recTx{r: r, name: "peer"}
	coll := &stubColl{r: r}
	met := &metrics.NullMetrics{}
	r.incoming = route.VerifRouterNew(r.cfg, lg, met, r.up, r.ptx, coll, rs, types.RouterTypeIncoming)
	r.peerRt = route.VerifRouterNew(r.cfg, lg, met, r.up, r.ptx, coll, rs, types.RouterTypePeer)
	// the route template of Router.LnS for events and batches (subrouter with UseEncodedPath)
	r.mux = mux.NewRouter()
	authed := r.mux.PathPrefix("/1/").Methods("POST").Subrouter()
	authed.UseEncodedPath()
	h2 := func(w http.ResponseWriter, req *http.Request) {
		r.hopSeen = true
		r.hopSeg = mux.Vars(req)["datasetName"]
		r.hopDs, r.hopErr = route.VerifRouterDataset(req)
	}
	authed.HandleFunc("/events/{datasetName}", h2)
	authed.HandleFunc("/batch/{datasetName}", h2)
	return r
}

func okDs(ds string, err error) string {
	if err != nil {
		return "err"
	}
	return "ok " + kit.Enc(ds)
}

func (r *runner) dataset(op []string) (string, bool) {
	if len(op) != 2 {
		return "bad-op", true
	}
	arg := kit.Dec(op[1])
	switch op[0] {
	case "dsdecode":
		req := httptest.NewRequest("POST", "/1/batch/x", nil)
		req = mux.SetURLVars(req, map[string]string{"datasetName": arg})
		return okDs(route.VerifRouterDataset(req)), true
	case "dsescape":
		return kit.Enc(url.PathEscape(arg)), true
	case "dshop":
		u, err := transmit.VerifRouterBuildURL("http://n1:8081", arg)
		if err != nil {
			kit.Ext("seg %s = !nomatch", op[1])
			return "nomatch", true
		}
		r.hopSeen = false
		func() {
			defer func() { recover() }() // httptest.NewRequest panics on an unparsable request line
			r.mux.ServeHTTP(httptest.NewRecorder(), httptest.NewRequest("POST", u, nil))
		}()
		if !r.hopSeen {
			kit.Ext("seg %s = !nomatch", op[1])
			return "nomatch", true
		}
		kit.Ext("seg %s = %s", op[1], kit.Enc(r.hopSeg))
		return okDs(r.hopDs, r.hopErr), true
	}
	return "bad-op", true
}

func appendVal(b []byte, f field) []byte {
	switch f.t {
	case "s":
		return msgp.AppendString(b, f.v)
	case "i":
		n, _ := strconv.ParseInt(f.v, 10, 64)
		return msgp.AppendInt64(b, n)
	case "b":
		return msgp.AppendBool(b, f.v == "1")
	}
	return msgp.AppendNil(b)
}

func goVal(f field) any {
	switch f.t {
	case "s":
		return f.v
	case "i":
		n, _ := strconv.ParseInt(f.v, 10, 64)
		return n
	case "b":
		return f.v == "1"
	}
	return nil
}

// payload builds the event's Data the way the handlers do: NewPayload over a Go map (single
// event, OTLP) or NewPayload(cfg, nil) + UnmarshalMsgpFirstEvent (batch); `bad` is a payload whose
// bytes do not parse and whose metadata has therefore not been extracted.
func (r *runner) payload(enc string, fs []field, key, env, ds string) types.Payload {
	if enc == "map" {
		m := make(map[string]any, len(fs))
		for _, f := range fs {
			m[f.k] = goVal(f)
		}
		return types.NewPayload(r.cfg, m)
	}
	n := uint32(len(fs))
	if enc == "bad" {
		n++
	}
	b := msgp.AppendMapHeader(nil, n)
	for _, f := range fs {
		b = msgp.AppendString(b, f.k)
		b = appendVal(b, f)
	}
	p := types.NewPayload(r.cfg, nil)
	if enc == "bad" {
		_ = p.UnmarshalMsgpack(b)
		return p
	}
	cu := types.NewCoreFieldsUnmarshaler(types.CoreFieldsUnmarshalerOptions{Config: r.cfg, APIKey: key, Env: env, Dataset: ds})
	if _, err := cu.UnmarshalMsgpFirstEvent(b, &p); err != nil {
		panic("harness: generated msgpack does not parse: " + err.Error())
	}
	return p
}

// desc decodes what the payload marshals to right now: the four dedicated metadata fields the
// model knows are shown as attributes, everything else as the field list (sorted by key for
// map-built payloads, whose marshal order is Go's map order; in byte order otherwise).
func (r *runner) desc(ev *types.Event) string {
	tid, probe, root, stressed := "%", "-", "-", "-"
	var fs []field
	b, err := ev.Data.MarshalMsg(nil)
	if err != nil {
		fs = append(fs, field{"!marshal-error", "n", "-"})
	} else {
		n, rest, err := msgp.ReadMapHeaderBytes(b)
		for i := uint32(0); err == nil && i < n; i++ {
			var kb []byte
			kb, rest, err = msgp.ReadMapKeyZC(rest)
			if err != nil {
				break
			}
			k := string(kb)
			var f field
			switch msgp.NextType(rest) {
			case msgp.StrType:
				var s string
				s, rest, err = msgp.ReadStringBytes(rest)
				f = field{k, "s", s}
			case msgp.IntType:
				var x int64
				x, rest, err = msgp.ReadInt64Bytes(rest)
				f = field{k, "i", strconv.FormatInt(x, 10)}
			case msgp.UintType:
				var x uint64
				x, rest, err = msgp.ReadUint64Bytes(rest)
				f = field{k, "i", strconv.FormatUint(x, 10)}
			case msgp.BoolType:
				var x bool
				x, rest, err = msgp.ReadBoolBytes(rest)
				f = field{k, "b", b01(x)}
			case msgp.NilType:
				rest, err = msgp.ReadNilBytes(rest)
				f = field{k, "n", "-"}
			default:
				rest, err = msgp.Skip(rest)
				f = field{k, "o", "-"}
			}
			switch {
			case k == types.MetaTraceID && f.t == "s" && tid == "%":
				tid = kit.Enc(f.v)
			case k == types.MetaRefineryProbe && f.t == "b" && probe == "-":
				probe = f.v
			case k == types.MetaRefineryRoot && f.t == "b" && root == "-":
				root = f.v
			case k == types.MetaStressed && f.t == "b" && stressed == "-":
				stressed = f.v
			default:
				fs = append(fs, f)
			}
		}
		if err != nil {
			fs = append(fs, field{"!decode-error", "n", "-"})
		}
	}
	if r.enc == "map" {
		sort.SliceStable(fs, func(i, j int) bool { return fs[i].k < fs[j].k })
	}
	return strings.Join([]string{kit.Enc(ev.APIHost), kit.Enc(ev.APIKey), kit.Enc(ev.Dataset), kit.Enc(ev.Environment),
		strconv.FormatUint(uint64(ev.SampleRate), 10), fmt.Sprintf("%d.%d", ev.Timestamp.Unix(), ev.Timestamp.Nanosecond()),
		tid, probe, root, stressed, encFields(fs)}, "|")
}

func (r *runner) Do(op []string) (string, bool) {
	if op[0] != "ev" {
		return r.dataset(op)
	}
	a := op[1:]
	r.enc = kit.KV(a, "enc")
	r.st = kit.KV(a, "st")
	r.fin = kit.KV(a, "fin") == "1"
	r.fpeer = kit.KV(a, "fpeer") == "1"
	r.imm = 0
	r.calls = nil
	rate, err := strconv.ParseUint(kit.KV(a, "rate"), 10, 64)
	tsp := strings.SplitN(kit.KV(a, "ts"), ".", 2)
	if err != nil || len(tsp) != 2 {
		return "bad-op", true
	}
	sec, _ := strconv.ParseInt(tsp[0], 10, 64)
	nsec, _ := strconv.ParseInt(tsp[1], 10, 64)
	key, ds, env := kit.Dec(kit.KV(a, "key")), kit.Dec(kit.KV(a, "ds")), kit.Dec(kit.KV(a, "env"))
	ev := &types.Event{
		Context:     context.Background(),
		APIHost:     kit.Dec(kit.KV(a, "host")),
		APIKey:      key,
		Dataset:     ds,
		Environment: env,
		SampleRate:  uint(rate),
		Timestamp:   time.Unix(sec, nsec).UTC(),
		Data:        r.payload(r.enc, decFields(kit.KV(a, "f")), key, env, ds),
	}
	rt := r.incoming
	switch kit.KV(a, "rt") {
	case "in":
	case "peer":
		rt = r.peerRt
	default:
		return "bad-op", true
	}
	perr := rt.VerifRouterProcessEvent(ev)
	es := "none"
	switch {
	case perr == nil:
	case errors.Is(perr, collect.ErrWouldBlock):
		es = "wouldblock"
	case len(r.calls) == 0:
		es = "invalid" // returned before anything was routed: the payload did not parse
	default:
		es = "other"
	}
	out := []string{"err=" + es, fmt.Sprintf("imm=%d", r.imm), fmt.Sprintf("n=%d", len(r.calls))}
	for _, c := range r.calls {
		out = append(out, strings.Join([]string{c.sink, b01(c.acc), c.stid, c.isRoot, c.desc}, "~"))
	}
	if es == "invalid" {
		out = append(out, "final=-")
	} else {
		out = append(out, "final="+r.desc(ev))
	}
	return strings.Join(out, " "), true
}

func (r *runner) Close() {}

func facts() map[string]string {
	return map[string]string{
		"metaTraceID":  types.MetaTraceID,
		"metaProbe":    types.MetaRefineryProbe,
		"metaRoot":     types.MetaRefineryRoot,
		"metaStressed": types.MetaStressed,
	}
}

func main() { kit.Main(comp{}, facts) }
