//go:build verif

// Harness for the trace collector (properties C01, C02, C05): drives a real InMemCollector
// deterministically (DESIGN §2.3).
//
// The collector is assembled from the repository's own mocks and started with the real Start().
// Every worker is parked with the code's own `pause` channel; an operation releases exactly the
// worker it concerns, lets the real collect() loop take one input (a span through the exported
// AddSpan, a reload signal produced by Config.Reload() -> monitor() -> reloadConfigs(), a sendEarly
// signal) and parks it again.  Ticks call the real sendExpiredTracesInCache on the parked worker
// (the loop's own ticker interval is far beyond anything the fake clock reaches).  Decided traces
// are held between send() and the real sendTraces goroutine by a gate (see zz_verif_collector.go)
// so that "sendTraces consumes one trace" is a step of its own; a one-span sentinel synchronises
// with that goroutine.  Everything handed to the recording transmit.MockTransmission is reported.
//
// case header: workers=<1..4> cap=<kept records per worker> dry=<0|1> max=<MaxExpiredTraces> u=<trace universe>
//              tt=<TraceTimeout ms> sd=<SendDelay ms>   (independent: tt < sd, tt = sd and tt >> sd all occur)
// ops:
//   span <t> <root> <client rate> <bytes>    ext owner, filt        obs  buf n=<k> | late <sid>:<rate>:<marker> | dropped
//   tick <t>        tick the owner of t at t's deadline               obs  w=<w> took=<…> left=<ids>   ext took, dec
//   tickw <w>       advance past every deadline, tick worker w        (same)
//   eject <w> <bytes>   memory-overrun signal to worker w             (same)
//   drain           sendTraces consumes one decided trace             obs  <t> <sid>:<rate>:<marker>,… | empty
//   flush           drain until tracesToSend is empty                obs  <t> <…>;<t> <…>;… | empty
//   reload <gen> <dry>  swap the rules (generation) and DryRun        (no obs)
//   resize <k>      reload with SampleCache.KeptSize = k per worker (cuckooSentCache.Resize)   (no obs)
//   stress <0|1>    the controllable StressReliever reports stressed / not stressed             (no obs)
//                   while stressed a span takes the router's path: ProcessSpanImmediately
//                   ext owner, filt, sdec    obs  skept <sid>:<rate>:<marker>:s | sdrop
//   check           obs buf=<buffered trace ids> pending=<len tracesToSend>
package main

import (
	"fmt"
	"runtime"
	"sort"
	"strconv"
	"strings"
	"time"

	"github.com/jonboulle/clockwork"
	"go.opentelemetry.io/otel/trace/noop"

	"github.com/honeycombio/refinery/collect"
	"github.com/honeycombio/refinery/config"
	"github.com/honeycombio/refinery/internal/peer"
	kit "github.com/honeycombio/refinery/internal/verifkit"
	"github.com/honeycombio/refinery/logger"
	"github.com/honeycombio/refinery/metrics"
	"github.com/honeycombio/refinery/pubsub"
	"github.com/honeycombio/refinery/sample"
	"github.com/honeycombio/refinery/sharder"
	"github.com/honeycombio/refinery/transmit"
	"github.com/honeycombio/refinery/types"
)

const (
	defTraceTimeoutMs = 10000 // used when the case header does not give tt= / sd=
	defSendDelayMs    = 2000
	sentinelSid  = int64(-1)
	nEnvs        = 3
	stuck        = 30 * time.Second
)

// sampler of environment e under rules generation g: a deterministic sampler with one of these rates
var genRates = []int{1, 2, 5, 1000000}

func rateFor(gen, env int) int { return genRates[(gen+env)%len(genRates)] }

func samplersFor(gen int) map[string]*config.V2SamplerChoice {
	m := map[string]*config.V2SamplerChoice{}
	for e := 0; e < nEnvs; e++ {
		m[envOf(e)] = &config.V2SamplerChoice{DeterministicSampler: &config.DeterministicSamplerConfig{SampleRate: rateFor(gen, e)}}
	}
	m["__default__"] = &config.V2SamplerChoice{DeterministicSampler: &config.DeterministicSamplerConfig{SampleRate: 1}}
	return m
}

func envOf(e int) string   { return fmt.Sprintf("e%d", e%nEnvs) }
func tidOf(t int) string   { return fmt.Sprintf("t%d", t) }
func envOfTrace(t int) int { return t % nEnvs }
func idOf(tid string) int {
	n, err := strconv.Atoi(strings.TrimPrefix(tid, "t"))
	if err != nil {
		return -1
	}
	return n
}

type nullHealth struct{}

func (nullHealth) Register(string, time.Duration) {}
func (nullHealth) Unregister(string)              {}
func (nullHealth) Ready(string, bool)             {}

// ctlStress is the controllable StressReliever: whether the node is stressed is set by the op file
// (the level computation is C15's); the keep/drop answer is the real StressRelief.GetSampleRate
// (wyhash of the trace id against SamplingRate from the configuration).
type ctlStress struct {
	real *collect.StressRelief
	on   bool
}

func (c *ctlStress) Start() error      { return nil }
func (c *ctlStress) UpdateFromConfig() { c.real.UpdateFromConfig() }
func (c *ctlStress) Recalc() uint      { return 0 }
func (c *ctlStress) Stressed() bool    { return c.on }
func (c *ctlStress) GetSampleRate(traceID string) (uint, bool, string) {
	return c.real.GetSampleRate(traceID)
}

type comp struct{}

// ---------------------------------------------------------------------------- generator

func (comp) Gen(r *kit.Rng, maxLen int, tier string) kit.Case {
	workers := 1 + r.Intn(4)
	cap := []int{1, 1, 2, 2, 3, 50}[r.Intn(6)]
	dry := 0
	if r.Chance(35) {
		dry = 1
	}
	max := []int{0, 0, 0, 1, 2}[r.Intn(5)]
	u := 2 + r.Intn(7)
	n := 8 + r.Intn(maxLen)
	// TraceTimeout and SendDelay are validated separately (>= 1 s, >= 100 ms) and nothing relates them:
	// the usual tt >> sd, but also tt = sd and tt < sd, where a root's "send soon" deadline is not
	// earlier than the trace's own timeout and processSpan's re-prioritisation guard stays false
	timing := [][2]int{{10000, 2000}, {10000, 2000}, {10000, 2000}, {60000, 100}, {1000, 1000}, {2000, 2000}, {1000, 3000}, {1000, 60000}}[r.Intn(8)]
	tt, sd := timing[0], timing[1]
	rootPct := 25
	if tt <= sd { // root-first and single-span traces are frequent here
		rootPct = 60
	}
	reloads := r.Chance(45) // cases without any reload keep DryRun constant (C01 / C05 conclusions apply)
	resizes := r.Chance(35) // reloads that change the kept-decision capacity
	stressy := r.Chance(30) // stress relief switches on and off
	var ops []string
	last := -1
	span := func(t int) {
		root := 0
		if r.Chance(rootPct) {
			root = 1
		}
		client := []int{0, 0, 1, 1, 2, 3, 10}[r.Intn(7)]
		ops = append(ops, fmt.Sprintf("span %d %d %d %d", t, root, client, 1+r.Intn(40)))
		last = t
	}
	for len(ops) < n {
		wResize, wStress := 0, 0
		if resizes {
			wResize = 5
		}
		if stressy {
			wStress = 5
		}
		switch r.Pick(46, 14, 5, 5, 18, 6, 3, 3, wResize, wStress) {
		case 0:
			t := r.Intn(u)
			if last >= 0 && r.Chance(35) {
				t = last
			}
			span(t)
		case 1:
			t := r.Intn(u)
			if last >= 0 && r.Chance(50) {
				t = last
			}
			ops = append(ops, fmt.Sprintf("tick %d", t))
			// a late span racing the decision (before sendTraces has run), re-arrival after it
			if r.Chance(45) {
				span(t)
			}
		case 2:
			ops = append(ops, fmt.Sprintf("tickw %d", r.Intn(workers)))
			if last >= 0 && r.Chance(40) {
				span(last)
			}
		case 3:
			ops = append(ops, fmt.Sprintf("eject %d %d", r.Intn(workers), []int{0, 0, 10, 50, 100000}[r.Intn(5)]))
			if r.Chance(50) { // ejection between expiry and tick
				ops = append(ops, fmt.Sprintf("tickw %d", r.Intn(workers)))
			}
		case 4:
			ops = append(ops, "drain")
		case 5:
			if reloads {
				d := dry
				if r.Chance(40) {
					d = r.Intn(2)
				}
				ops = append(ops, fmt.Sprintf("reload %d %d", r.Intn(4), d))
			} else {
				ops = append(ops, "drain")
			}
		case 6:
			if r.Chance(30) {
				ops = append(ops, "flush")
			}
			ops = append(ops, "check")
		case 8: // shrink or grow the kept capacity (0 = refused by lru.New), often followed by a late span
			ops = append(ops, fmt.Sprintf("resize %d", []int{1, 1, 2, 2, 3, 4, 0}[r.Intn(7)]))
			if r.Chance(60) {
				span(r.Intn(u))
			}
		case 9: // a stress episode: spans take ProcessSpanImmediately, some of them of buffered traces
			ops = append(ops, "stress 1")
			for k := 0; k < 1+r.Intn(4); k++ {
				t := r.Intn(u)
				if last >= 0 && r.Chance(30) {
					t = last
				}
				span(t)
				if r.Chance(15) {
					ops = append(ops, "drain")
				}
			}
			if r.Chance(80) {
				ops = append(ops, "stress 0")
			}
		case 7: // burst: several spans of one trace, then its decision
			t := r.Intn(u)
			for k := 0; k < 2+r.Intn(3); k++ {
				span(t)
			}
			ops = append(ops, fmt.Sprintf("tick %d", t))
		}
	}
	if stressy {
		ops = append(ops, "stress 0")
	}
	// run to quiescence: every worker ticks until its buffer is empty, sendTraces drains everything
	rounds := 1
	if max > 0 {
		rounds = (u + max - 1) / max
	}
	for k := 0; k < rounds; k++ {
		for w := 0; w < workers; w++ {
			ops = append(ops, fmt.Sprintf("tickw %d", w))
		}
	}
	ops = append(ops, "flush", "check")
	return kit.Case{Header: fmt.Sprintf("workers=%d cap=%d dry=%d max=%d u=%d tt=%d sd=%d", workers, cap, dry, max, u, tt, sd), Ops: ops}
}

// ---------------------------------------------------------------------------- rig

type fwd struct {
	sid    int64
	tid    string
	rate   uint
	marker string
	stress bool
}

type runner struct {
	conf  *config.MockConfig
	clock *clockwork.FakeClock
	tx    *transmit.MockTransmission
	ptx   *transmit.MockTransmission
	sf    *sample.SamplerFactory
	ps    *pubsub.LocalPubSub
	coll  *collect.InMemCollector
	gate  *collect.VerifCollectorGate
	n     int
	rel   []chan struct{}
	sid   int64
	sr    *ctlStress
	tt    time.Duration // TraceTimeout
	sd    time.Duration // SendDelay
}

func (comp) NewCase(h []string) kit.Runner {
	atoi := func(k string, d int) int {
		v, err := strconv.Atoi(kit.KV(h, k))
		if err != nil {
			return d
		}
		return v
	}
	workers, capv, dry, max := atoi("workers", 1), atoi("cap", 1), atoi("dry", 0), atoi("max", 0)
	if workers < 1 {
		workers = 1
	}
	if capv < 1 {
		capv = 1
	}
	traceTimeout := time.Duration(atoi("tt", defTraceTimeoutMs)) * time.Millisecond
	sendDelay := time.Duration(atoi("sd", defSendDelayMs)) * time.Millisecond
	conf := &config.MockConfig{
		GetTracesConfigVal: config.TracesConfig{
			SendTicker:       config.Duration(1000000 * time.Hour), // the harness owns the tick schedule
			SendDelay:        config.Duration(sendDelay),
			TraceTimeout:     config.Duration(traceTimeout),
			MaxBatchSize:     500,
			MaxExpiredTraces: uint(max),
		},
		SampleCache: config.SampleCacheConfig{
			KeptSize:          uint(capv * workers),
			DroppedSize:       uint(2000 * workers),
			SizeCheckInterval: config.Duration(time.Hour),
			WorkerCount:       uint(workers),
		},
		GetCollectionConfigVal: config.CollectionConfig{
			WorkerCount:       workers,
			IncomingQueueSize: 64 * workers,
			PeerQueueSize:     64 * workers,
		},
		Samplers:           samplersFor(0),
		StressRelief:       config.StressReliefConfig{Mode: "never", ActivationLevel: 90, DeactivationLevel: 75, SamplingRate: 3},
		DryRun:             dry == 1,
		TraceIdFieldNames:  []string{"trace.trace_id"},
		ParentIdFieldNames: []string{"trace.parent_id"},
	}
	clock := clockwork.NewFakeClock()
	tx := &transmit.MockTransmission{Capacity: 1 << 16}
	tx.Start()
	ptx := &transmit.MockTransmission{Capacity: 16}
	ptx.Start()
	met := &metrics.NullMetrics{}
	sf := &sample.SamplerFactory{Config: conf, Metrics: met, Logger: &logger.NullLogger{}}
	if err := sf.Start(); err != nil {
		panic(err)
	}
	ps := &pubsub.LocalPubSub{Config: conf, Metrics: met}
	ps.Start()
	sr := &ctlStress{real: &collect.StressRelief{Config: conf, Logger: &logger.NullLogger{}, RefineryMetrics: met, Clock: clock}}
	c := &collect.InMemCollector{
		TestMode:         true,
		Config:           conf,
		Clock:            clock,
		Logger:           &logger.NullLogger{},
		Tracer:           noop.NewTracerProvider().Tracer("verif"),
		Health:           nullHealth{},
		Transmission:     tx,
		PeerTransmission: ptx,
		PubSub:           ps,
		Metrics:          met,
		StressRelief:     sr,
		SamplerFactory:   sf,
		Peers:            peer.NewMockPeers([]string{"api1"}, "api1"),
		Sharder:          &sharder.MockSharder{Self: &sharder.TestShard{Addr: "api1"}},
	}
	if err := c.Start(); err != nil {
		panic(err)
	}
	r := &runner{conf: conf, clock: clock, tx: tx, ptx: ptx, sf: sf, ps: ps, coll: c, n: collect.VerifCollectorNumWorkers(c), sr: sr, tt: traceTimeout, sd: sendDelay}
	r.rel = make([]chan struct{}, r.n)
	for w := 0; w < r.n; w++ {
		r.park(w)
	}
	// make sure the sendTraces goroutine is ranging over the collector's own channel, then gate it
	collect.VerifCollectorBarrier(c, nil, r.sentinel())
	r.untilSentinel()
	r.gate = collect.VerifCollectorNewGate(c)
	return r
}

func (r *runner) Close() {
	r.gate.Restore()
	for w := 0; w < r.n; w++ {
		r.unpark(w)
	}
	r.coll.Stop()
	r.sf.Stop()
	r.ps.Stop()
	r.tx.Stop()
	r.ptx.Stop()
}

func (r *runner) park(w int)   { r.rel[w] = collect.VerifCollectorPark(r.coll, w) }
func (r *runner) unpark(w int) { close(r.rel[w]) }

func waitFor(what string, cond func() bool) {
	deadline := time.Now().Add(stuck)
	for i := 0; !cond(); i++ {
		if i < 16 {
			runtime.Gosched()
		} else {
			time.Sleep(20 * time.Microsecond)
		}
		if time.Now().After(deadline) {
			panic("stuck waiting for " + what)
		}
	}
}

func (r *runner) sentinel() *types.Span {
	return &types.Span{TraceID: "sentinel", Event: &types.Event{Data: types.NewPayload(r.conf, map[string]any{"sid": sentinelSid, "tid": "sentinel"})}}
}

func describe(ev *types.Event) fwd {
	f := fwd{sid: -2, marker: "-", rate: ev.SampleRate}
	if v, ok := ev.Data.Get("sid").(int64); ok {
		f.sid = v
	}
	if v, ok := ev.Data.Get("tid").(string); ok {
		f.tid = v
	}
	if v, ok := ev.Data.Get(types.MetaStressed).(bool); ok && v {
		f.stress = true
	}
	switch v := ev.Data.Get(config.DryRunFieldName).(type) {
	case nil:
	case bool:
		if v {
			f.marker = "1"
		} else {
			f.marker = "0"
		}
	default:
		f.marker = "?"
	}
	return f
}

// take returns what reached the transmission so far (late spans are forwarded synchronously).
func (r *runner) take() []fwd {
	var out []fwd
	for {
		select {
		case ev := <-r.tx.Events:
			out = append(out, describe(ev))
		default:
			return out
		}
	}
}

func (r *runner) untilSentinel() []fwd {
	var out []fwd
	to := time.After(stuck)
	for {
		select {
		case ev := <-r.tx.Events:
			f := describe(ev)
			if f.sid == sentinelSid {
				return out
			}
			out = append(out, f)
		case <-to:
			panic("sendTraces goroutine did not forward the sentinel")
		}
	}
}

func fwdStr(fs []fwd) string {
	if len(fs) == 0 {
		return "-"
	}
	s := make([]string, len(fs))
	for i, f := range fs {
		s[i] = fmt.Sprintf("%d:%d:%s", f.sid, f.rate, f.marker)
		if f.stress {
			s[i] += ":s"
		}
	}
	return strings.Join(s, ",")
}

func intList(xs []int) string {
	if len(xs) == 0 {
		return "-"
	}
	s := make([]string, len(xs))
	for i, x := range xs {
		s[i] = strconv.Itoa(x)
	}
	return strings.Join(s, ",")
}

func (r *runner) bufferedIDs(w int) []int {
	var ids []int
	for _, t := range collect.VerifCollectorBuffered(r.coll, w) {
		ids = append(ids, idOf(t.TraceID))
	}
	sort.Ints(ids)
	return ids
}

// the sampler's answer for trace t under the configuration in force (the graph of the model's
// `decide` parameter): a fresh sampler from the real factory, asked about a stub trace.
func (r *runner) decisionOf(t int) string {
	s := r.sf.GetSamplerImplementationForKey(envOf(envOfTrace(t)))
	rate, keep, reason, _ := s.GetSampleRate(&types.Trace{TraceID: tidOf(t)})
	k := 0
	if keep {
		k = 1
	}
	return fmt.Sprintf("%d %d %s", k, rate, kit.Enc(reason))
}

func (r *runner) afterDecide(w int, before []int) (string, bool) {
	after := r.bufferedIDs(w)
	sent := r.gate.Collect()
	still := map[int]bool{}
	for _, t := range after {
		still[t] = true
	}
	seen := map[int]bool{}
	var took []int
	var entries []string
	for _, s := range sent {
		t := idOf(s.TraceID)
		k := "d"
		if s.ShouldSend {
			k = "k"
		}
		entries = append(entries, fmt.Sprintf("%d:%s:%d:%s", t, k, s.TraceRate, kit.Enc(s.Reason)))
		if !seen[t] {
			seen[t] = true
			took = append(took, t)
		}
	}
	for _, t := range before { // sorted
		if !still[t] && !seen[t] {
			seen[t] = true
			took = append(took, t)
			entries = append(entries, fmt.Sprintf("%d:x", t))
		}
	}
	kit.Ext("worker = %d", w)
	kit.Ext("took = %s", intList(took))
	for _, t := range took {
		kit.Ext("dec %d = %s", t, r.decisionOf(t))
	}
	e := "-"
	if len(entries) > 0 {
		e = strings.Join(entries, ",")
	}
	return fmt.Sprintf("w=%d took=%s left=%s", w, e, intList(after)), true
}

// reload: Config.Reload() -> sendReloadSignal -> monitor() -> reloadConfigs() -> worker.reload, then
// every worker runs the reload branch of its loop (samplers cleared, sampleCache.Resize).
func (r *runner) reload() {
	r.conf.Reload()
	for w := 0; w < r.n; w++ {
		w := w
		waitFor("reload signal to reach the worker", func() bool { return collect.VerifCollectorReloadLen(r.coll, w) == 1 })
	}
	for w := 0; w < r.n; w++ {
		w := w
		r.unpark(w)
		waitFor("reload signal to be taken", func() bool { return collect.VerifCollectorReloadLen(r.coll, w) == 0 })
		r.park(w)
	}
}

func (r *runner) tick(w int) (string, bool) {
	before := r.bufferedIDs(w)
	collect.VerifCollectorTick(r.coll, w, r.clock.Now())
	return r.afterDecide(w, before)
}

func (r *runner) Do(op []string) (string, bool) {
	arg := func(i int) int {
		if i >= len(op) {
			return 0
		}
		n, _ := strconv.Atoi(op[i])
		return n
	}
	switch op[0] {
	case "span":
		t, root, client, bytes := arg(1), arg(2) == 1, arg(3), arg(4)
		if t < 0 || client < 0 || bytes < 0 {
			return "bad-op", true
		}
		r.clock.Advance(time.Millisecond)
		tid := tidOf(t)
		sid := r.sid
		r.sid++
		sp := &types.Span{
			TraceID: tid,
			IsRoot:  root,
			Event: &types.Event{
				APIHost:     "http://api",
				APIKey:      "key",
				Dataset:     "ds",
				Environment: envOf(envOfTrace(t)),
				SampleRate:  uint(client),
				Data:        types.NewPayload(r.conf, map[string]any{"sid": sid, "tid": tid, "p": strings.Repeat("x", bytes)}),
			},
		}
		wExp := collect.VerifCollectorOwner(tid, r.n)
		filt := 0
		if collect.VerifCollectorDroppedLookup(r.coll, wExp, tid) {
			filt = 1
		}
		if r.coll.Stressed() {
			// route.go processEvent: while stressed the span goes to ProcessSpanImmediately and,
			// being this node's own trace, never reaches AddSpan.
			rate, keep, _ := r.coll.GetStressedSampleRate(tid)
			k := 0
			if keep {
				k = 1
			}
			kit.Ext("owner %d = %d", t, wExp)
			kit.Ext("filt %d = %d", t, filt)
			kit.Ext("sdec %d = %d %d", t, k, rate)
			before := len(r.bufferedIDs(wExp))
			processed, kept := r.coll.ProcessSpanImmediately(sp)
			fw := r.take()
			switch {
			case !processed:
				return "unprocessed", true
			case len(r.bufferedIDs(wExp)) != before:
				return "confused stress path changed the buffer", true
			case kept && len(fw) >= 1:
				return "skept " + fwdStr(fw), true
			case !kept && len(fw) == 0:
				return "sdrop", true
			default:
				return fmt.Sprintf("confused kept=%v fwd=%s", kept, fwdStr(fw)), true
			}
		}
		if err := r.coll.AddSpan(sp); err != nil {
			return "rejected", true
		}
		w := -1
		for k := 0; k < r.n; k++ {
			if collect.VerifCollectorIncomingLen(r.coll, k) > 0 {
				w = k
			}
		}
		if w < 0 {
			return "vanished", true
		}
		kit.Ext("owner %d = %d", t, w)
		kit.Ext("filt %d = %d", t, filt)
		r.unpark(w)
		waitFor("span to be taken", func() bool { return collect.VerifCollectorIncomingLen(r.coll, w) == 0 })
		r.park(w)
		if w != wExp {
			return fmt.Sprintf("misrouted got=%d want=%d", w, wExp), true
		}
		fw := r.take()
		tr := collect.VerifCollectorGet(r.coll, w, tid)
		inBuf := false
		if tr != nil {
			ss := tr.GetSpans()
			inBuf = len(ss) > 0 && ss[len(ss)-1] == sp
		}
		switch {
		case len(fw) == 0 && inBuf:
			return fmt.Sprintf("buf n=%d", len(tr.GetSpans())), true
		case len(fw) >= 1 && !inBuf:
			// whatever reached the transmission during this step (normally exactly this span)
			return "late " + fwdStr(fw), true
		case len(fw) == 0 && !inBuf:
			return "dropped", true
		default:
			return fmt.Sprintf("confused buffered=%v fwd=%s", inBuf, fwdStr(fw)), true
		}
	case "tick":
		t := arg(1)
		tid := tidOf(t)
		w := collect.VerifCollectorOwner(tid, r.n)
		if tr := collect.VerifCollectorGet(r.coll, w, tid); tr != nil {
			if now := r.clock.Now(); tr.SendBy.After(now) {
				r.clock.Advance(tr.SendBy.Sub(now))
			}
		}
		return r.tick(w)
	case "tickw":
		w := arg(1)
		if w < 0 {
			return "bad-op", true
		}
		w %= r.n
		adv := r.tt // past every deadline processSpan can have set: now+TraceTimeout or now+SendDelay
		if r.sd > adv {
			adv = r.sd
		}
		r.clock.Advance(adv + time.Second)
		return r.tick(w)
	case "eject":
		w, bytes := arg(1), arg(2)
		if w < 0 {
			return "bad-op", true
		}
		w %= r.n
		before := r.bufferedIDs(w)
		wg := collect.VerifCollectorSendEarly(r.coll, w, bytes)
		r.unpark(w)
		wg.Wait()
		r.park(w)
		return r.afterDecide(w, before)
	case "drain":
		s, ok := r.gate.ReleaseOne()
		if !ok {
			return "empty", true
		}
		r.gate.Barrier(r.sentinel())
		fw := r.untilSentinel()
		return fmt.Sprintf("%d %s", idOf(s.TraceID), fwdStr(fw)), true
	case "flush":
		var parts []string
		for {
			s, ok := r.gate.ReleaseOne()
			if !ok {
				break
			}
			r.gate.Barrier(r.sentinel())
			fw := r.untilSentinel()
			parts = append(parts, fmt.Sprintf("%d %s", idOf(s.TraceID), fwdStr(fw)))
		}
		if len(parts) == 0 {
			return "empty", true
		}
		return strings.Join(parts, ";"), true
	case "reload":
		gen, dry := arg(1), arg(2) == 1
		if gen < 0 {
			return "bad-op", true
		}
		r.conf.Mux.Lock()
		r.conf.Samplers = samplersFor(gen)
		r.conf.DryRun = dry
		r.conf.Mux.Unlock()
		r.reload()
		return "", false
	case "resize":
		k := arg(1)
		if k < 0 {
			return "bad-op", true
		}
		r.conf.Mux.Lock()
		r.conf.SampleCache.KeptSize = uint(k * r.n)
		r.conf.Mux.Unlock()
		r.reload()
		return "", false
	case "stress":
		r.sr.on = arg(1) == 1
		return "", false
	case "check":
		var ids []int
		for w := 0; w < r.n; w++ {
			ids = append(ids, r.bufferedIDs(w)...)
		}
		sort.Ints(ids)
		r.gate.Collect()
		return fmt.Sprintf("buf=%s pending=%d", intList(ids), r.gate.Pending()), true
	}
	return "bad-op", true
}

func main() { kit.Main(comp{}, nil) }
