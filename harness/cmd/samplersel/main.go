//go:build verif

// Harness for sampler selection (property C14): config.IsLegacyAPIKey, fileConfig.DetermineSamplerKey,
// fileConfig.GetSamplerConfigForDestName / GetSamplingKeyFieldsForDestName (with __default__),
// the ingestion-time field selection of types.NewCoreFieldsUnmarshaler as route.batch and the OTLP
// msgpack path call it, and the sampler the collector worker's makeDecision uses.
//
// Everything runs on a real *fileConfig loaded from generated YAML (main + rules file), a real
// Router (handlers called directly, no listener), a real SamplerFactory and a real CollectorWorker
// whose loop is not started (processSpan / makeDecision are called in the order of the op file).
package main

import (
	"bytes"
	"encoding/json"
	"fmt"
	"net/http"
	"net/http/httptest"
	"net/url"
	"os"
	"path/filepath"
	"sort"
	"strconv"
	"strings"
	"sync"
	"time"

	"github.com/gorilla/mux"
	huskyotlp "github.com/honeycombio/husky/otlp"
	"github.com/jonboulle/clockwork"
	"github.com/tinylib/msgp/msgp"
	"go.opentelemetry.io/otel/trace/noop"

	"github.com/honeycombio/refinery/collect"
	"github.com/honeycombio/refinery/config"
	kit "github.com/honeycombio/refinery/internal/verifkit"
	"github.com/honeycombio/refinery/logger"
	"github.com/honeycombio/refinery/metrics"
	"github.com/honeycombio/refinery/route"
	"github.com/honeycombio/refinery/sample"
	"github.com/honeycombio/refinery/sharder"
	"github.com/honeycombio/refinery/transmit"
	"github.com/honeycombio/refinery/types"
)

type comp struct{}

// ---------------------------------------------------------------------------------------------
// case description (header)

type samplerSpec struct {
	name   string
	kind   string // det | dyn | rules
	rate   int
	fields []string
}

type caseCfg struct {
	prefix   string
	tids     []string
	pids     []string
	validate bool
	samplers []samplerSpec
}

func encList(xs []string) string {
	if len(xs) == 0 {
		return "-"
	}
	e := make([]string, len(xs))
	for i, x := range xs {
		e[i] = kit.Enc(x)
	}
	return strings.Join(e, ",")
}

func decList(s string) []string {
	if s == "-" || s == "" {
		return nil
	}
	p := strings.Split(s, ",")
	for i := range p {
		p[i] = kit.Dec(p[i])
	}
	return p
}

func encSamplers(ss0 []samplerSpec) string {
	ss := make([]string, len(ss0))
	for i, s := range ss0 {
		ss[i] = fmt.Sprintf("%s~%s~%d~%s", kit.Enc(s.name), s.kind, s.rate, encList(s.fields))
	}
	sj := strings.Join(ss, ";")
	if sj == "" {
		sj = "-"
	}
	return sj
}

func decSamplers(s string) []samplerSpec {
	var out []samplerSpec
	if s == "-" || s == "" {
		return nil
	}
	for _, one := range strings.Split(s, ";") {
		p := strings.Split(one, "~")
		if len(p) != 4 {
			panic("bad sampler spec " + one)
		}
		r, _ := strconv.Atoi(p[2])
		out = append(out, samplerSpec{name: kit.Dec(p[0]), kind: p[1], rate: r, fields: decList(p[3])})
	}
	return out
}

func (c caseCfg) header() string {
	v := 0
	if c.validate {
		v = 1
	}
	return fmt.Sprintf("prefix=%s tid=%s pid=%s validate=%d samplers=%s", kit.Enc(c.prefix), encList(c.tids), encList(c.pids), v, encSamplers(c.samplers))
}

func parseHeader(h []string) caseCfg {
	return caseCfg{prefix: kit.Dec(kit.KV(h, "prefix")), tids: decList(kit.KV(h, "tid")), pids: decList(kit.KV(h, "pid")),
		validate: kit.KV(h, "validate") == "1", samplers: decSamplers(kit.KV(h, "samplers"))}
}

func jq(s string) string { b, _ := json.Marshal(s); return string(b) }

func jqList(xs []string) string {
	q := make([]string, len(xs))
	for i, x := range xs {
		q[i] = jq(x)
	}
	return "[" + strings.Join(q, ", ") + "]"
}

func (c caseCfg) mainYAML() []byte {
	var b strings.Builder
	fmt.Fprintf(&b, "General:\n  ConfigurationVersion: 2\n  DatasetPrefix: %s\n", jq(c.prefix))
	fmt.Fprintf(&b, "IDFields:\n  TraceNames: %s\n  ParentNames: %s\n", jqList(c.tids), jqList(c.pids))
	b.WriteString("SampleCache:\n  KeptSize: 200\n  DroppedSize: 2000\n") // keeps the worker's decision record small
	return []byte(b.String())
}

func (c caseCfg) rulesYAML() []byte { return rulesYAMLOf(c.samplers) }

func rulesYAMLOf(samplers []samplerSpec) []byte {
	var b strings.Builder
	b.WriteString("RulesVersion: 2\nSamplers:\n")
	for _, s := range samplers {
		fmt.Fprintf(&b, "  %s:\n", jq(s.name))
		switch s.kind {
		case "det":
			fmt.Fprintf(&b, "    DeterministicSampler:\n      SampleRate: %d\n", s.rate)
		case "dyn":
			fmt.Fprintf(&b, "    DynamicSampler:\n      SampleRate: %d\n      FieldList: %s\n", s.rate, jqList(s.fields))
		case "rules":
			fmt.Fprintf(&b, "    RulesBasedSampler:\n      Rules:\n        - Name: %s\n          SampleRate: %d\n", jq(fmt.Sprintf("s%d-has", s.rate)), s.rate)
			if len(s.fields) > 0 {
				b.WriteString("          Conditions:\n")
				for _, f := range s.fields {
					fmt.Fprintf(&b, "            - Field: %s\n              Operator: exists\n", jq(f))
				}
			}
			fmt.Fprintf(&b, "        - Name: %s\n          SampleRate: %d\n", jq(fmt.Sprintf("s%d-else", s.rate)), s.rate+100)
		}
	}
	if len(samplers) == 0 {
		b.WriteString("  {}\n")
	}
	return []byte(b.String())
}

// ---------------------------------------------------------------------------------------------
// generator

const hexLower = "0123456789abcdef"
const alnumLower = "0123456789abcdefghijklmnopqrstuvwxyz"
const alnumMixed = "0123456789abcdefghijklmnopqrstuvwxyzABCDEFGHIJKLMNOPQRSTUVWXYZ"

func randStr(r *kit.Rng, alphabet string, n int) string {
	b := make([]byte, n)
	for i := range b {
		b[i] = alphabet[r.Intn(len(alphabet))]
	}
	return string(b)
}

func classicKey(r *kit.Rng) string { return randStr(r, hexLower, 32) }
func ingestClassicKey(r *kit.Rng) string {
	return "hc" + string(rune('a'+r.Intn(26))) + "ic_" + randStr(r, alnumLower, 58)
}

// boundary bytes around the accepted ranges '0'-'9', 'a'-'f', 'a'-'z', plus a few others
var edgeBytes = []byte{'/', ':', '`', 'g', '{', 'G', 'A', 'F', 'Z', '@', '_', '-', ' ', 0x80, 0xff, 0x00, '9', '0', 'a', 'f', 'z'}

func genKey(r *kit.Rng) string {
	switch r.Pick(18, 18, 10, 8, 26, 6, 14) {
	case 0:
		return classicKey(r)
	case 1:
		return ingestClassicKey(r)
	case 2: // environment-scoped configuration key (22 mixed-case alphanumerics)
		return randStr(r, alnumMixed, 22)
	case 3: // environment-scoped ingest key: hc?ik_ + 58
		return "hc" + string(rune('a'+r.Intn(26))) + "ik_" + randStr(r, alnumLower, 58)
	case 4: // near misses of the two classic shapes: one byte changed at a random or structural position
		var k []byte
		if r.Chance(50) {
			k = []byte(classicKey(r))
		} else {
			k = []byte(ingestClassicKey(r))
		}
		pos := r.Intn(len(k))
		if len(k) == 64 && r.Chance(50) {
			pos = r.Intn(7) // the structured prefix hc?ic_ and the first body byte
		}
		if r.Chance(15) {
			pos = len(k) - 1
		}
		k[pos] = edgeBytes[r.Intn(len(edgeBytes))]
		return string(k)
	case 5: // upper-case variants
		if r.Chance(50) {
			return strings.ToUpper(classicKey(r))
		}
		return strings.ToUpper(ingestClassicKey(r))
	default: // wrong lengths, with the right alphabet
		lens := []int{0, 1, 31, 33, 63, 65, 16, 64, 32, 6, 5}
		n := lens[r.Intn(len(lens))]
		switch r.Intn(3) {
		case 0:
			return randStr(r, hexLower, n)
		case 1:
			k := ingestClassicKey(r) + randStr(r, alnumLower, 8)
			return k[:n]
		default:
			k := ingestClassicKey(r) + randStr(r, alnumLower, 8)
			return k[len(k)-n:] // right alphabet, right length possibly, no prefix
		}
	}
}

var envPool = []string{"prod", "staging", "dev", "my env", "ünï", "ds1", "", "Production East"}

// slugFor draws the slug the auth API reports next to an environment name: usually the lower-case,
// dashed form (different from the name when it has capitals, spaces or non-ASCII letters),
// sometimes the name itself, sometimes another environment's name, sometimes empty.
func slugFor(r *kit.Rng, name string) string {
	switch r.Pick(55, 15, 15, 15) {
	case 0:
		var b strings.Builder
		for _, c := range strings.ToLower(name) {
			switch {
			case c >= 'a' && c <= 'z' || c >= '0' && c <= '9':
				b.WriteRune(c)
			case c == ' ' || c == '.':
				b.WriteByte('-')
			default:
				b.WriteByte('x')
			}
		}
		return b.String()
	case 1:
		return name
	case 2:
		return pick(r, []string{"prod", "dev", "ds1", "staging"})
	}
	return ""
}

func hasCtl(k string) bool {
	for i := 0; i < len(k); i++ {
		if k[i] < 0x20 || k[i] == 0x7f {
			return true
		}
	}
	return false
}
var dsPool = []string{"ds1", "ds2", "a.b", "prod", "b", "my ds", "\xff\xfe", "dev"}
var prefixPool = []string{"", "", "pfx", "a", "P2", "prod", "ds1"} // validation: purely alphanumeric
var plainFields = []string{"f1", "f2", "f3", "http.status", "meta.custom", "r", "rootx", "é"}
var idish = []string{"trace.parent_id", "trace.trace_id", "parentId", "traceId"}

func pick(r *kit.Rng, xs []string) string { return xs[r.Intn(len(xs))] }

func genFieldList(r *kit.Rng, kind string, ids []string) []string {
	n := r.Pick(1, 4, 4, 2, 1)
	if kind == "dyn" && n == 0 {
		n = 1
	}
	var out []string
	for i := 0; i < n; i++ {
		var f string
		switch r.Pick(10, 4, 5, 2, 1) {
		case 0:
			f = pick(r, plainFields)
		case 1:
			f = "root." + pick(r, plainFields)
		case 2: // a field the router treats as a trace / parent id field
			f = pick(r, ids)
		case 3:
			f = "root." + pick(r, ids)
		default:
			if kind == "dyn" {
				f = "?.NUM_DESCENDANTS"
			} else {
				f = pick(r, plainFields)
			}
		}
		out = append(out, f)
	}
	return out
}

func genCfg(r *kit.Rng) caseCfg {
	// full validation re-parses refinery's configuration metadata (~20 ms), so only a part of the cases
	// goes through it; the others are loaded by the same loader with validation switched off
	c := caseCfg{prefix: pick(r, prefixPool), validate: r.Chance(20)}
	switch r.Pick(7, 2, 1) {
	case 0:
		c.tids, c.pids = []string{"trace.trace_id", "traceId"}, []string{"trace.parent_id", "parentId"}
	case 1:
		c.tids, c.pids = []string{"tr.id"}, []string{"span.parent"}
	default:
		c.tids, c.pids = []string{"traceId", "f1"}, []string{"parentId", "f2"}
	}
	ids := append(append([]string{}, c.tids...), c.pids...)
	ids = append(ids, idish...)
	// candidate destination names: environments, datasets, prefixed datasets
	var names []string
	names = append(names, "__default__")
	cands := []string{}
	for _, e := range envPool {
		if e != "" {
			cands = append(cands, e)
		}
	}
	for _, d := range dsPool {
		if d != "\xff\xfe" {
			cands = append(cands, d)
			if c.prefix != "" {
				cands = append(cands, c.prefix+"."+d)
			}
		}
	}
	seen := map[string]bool{"__default__": true}
	k := 1 + r.Intn(7)
	for i := 0; i < k; i++ {
		n := pick(r, cands)
		if !seen[n] {
			seen[n] = true
			names = append(names, n)
		}
	}
	if r.Chance(8) { // a rules file without __default__ (loaded without validation): only the pure lookups run
		names = names[1:]
		c.validate = false
	}
	rate := 2
	for _, n := range names {
		kind := []string{"det", "dyn", "dyn", "rules", "rules"}[r.Intn(5)]
		s := samplerSpec{name: n, kind: kind, rate: rate}
		if kind != "det" {
			s.fields = genFieldList(r, kind, ids)
		}
		rate += 1 + r.Intn(3)
		c.samplers = append(c.samplers, s)
	}
	return c
}

type payEntry struct {
	k   string
	str bool
	s   string
	n   int64
}

func encPayload(p []payEntry) string {
	if len(p) == 0 {
		return "-"
	}
	e := make([]string, len(p))
	for i, x := range p {
		if x.str {
			e[i] = kit.Enc(x.k) + "~s~" + kit.Enc(x.s)
		} else {
			e[i] = kit.Enc(x.k) + "~i~" + strconv.FormatInt(x.n, 10)
		}
	}
	return strings.Join(e, ",")
}

func decPayload(s string) []payEntry {
	if s == "-" {
		return nil
	}
	var out []payEntry
	for _, one := range strings.Split(s, ",") {
		p := strings.Split(one, "~")
		if len(p) != 3 {
			panic("bad payload entry " + one)
		}
		if p[1] == "s" {
			out = append(out, payEntry{k: kit.Dec(p[0]), str: true, s: kit.Dec(p[2])})
		} else {
			n, _ := strconv.ParseInt(p[2], 10, 64)
			out = append(out, payEntry{k: kit.Dec(p[0]), n: n})
		}
	}
	return out
}

var strVals = []string{"a", "b", "x y", "", "ü", "200"}

func genPayload(r *kit.Rng, c caseCfg, tid string, fieldsOfInterest []string) []payEntry {
	var p []payEntry
	val := func(k string) payEntry {
		if r.Chance(65) {
			return payEntry{k: k, str: true, s: pick(r, strVals)}
		}
		return payEntry{k: k, n: int64([]int{0, 1, 7, 127, 128, 200, 255, 256, 70000}[r.Intn(9)])}
	}
	n := r.Intn(5)
	for i := 0; i < n; i++ {
		var k string
		if len(fieldsOfInterest) > 0 && r.Chance(70) {
			k = strings.TrimPrefix(pick(r, fieldsOfInterest), "root.")
		} else {
			k = pick(r, plainFields)
		}
		dup := false
		for _, e := range p {
			if e.k == k {
				dup = true
			}
		}
		isID := false
		for _, x := range append(append([]string{}, c.tids...), c.pids...) {
			if x == k {
				isID = true
			}
		}
		if isID || (dup && !r.Chance(6)) {
			continue // id fields are added below; duplicate keys only rarely
		}
		p = append(p, val(k))
	}
	// trace id (almost always), sometimes under the second configured name, sometimes twice
	if r.Chance(94) {
		name := c.tids[0]
		if len(c.tids) > 1 && r.Chance(25) {
			name = c.tids[1]
		}
		e := payEntry{k: name, str: true, s: tid}
		if r.Chance(3) {
			e = payEntry{k: name, n: 5} // wrong type: not taken as the trace id
		} else if r.Chance(3) {
			e = payEntry{k: name, str: true, s: ""} // empty: consumed, but no trace id
		}
		p = append(p, e)
		if len(c.tids) > 1 && r.Chance(8) {
			other := c.tids[0]
			if other == name {
				other = c.tids[1]
			}
			p = append(p, payEntry{k: other, str: true, s: "other-" + tid})
		}
	}
	// parent id
	switch r.Pick(45, 40, 5, 5, 5) {
	case 1:
		p = append(p, payEntry{k: c.pids[0], str: true, s: "p1"})
	case 2:
		p = append(p, payEntry{k: c.pids[len(c.pids)-1], str: true, s: "p2"})
	case 3:
		p = append(p, payEntry{k: c.pids[0], str: true, s: ""}) // empty parent id: still a root span
	case 4:
		p = append(p, payEntry{k: c.pids[0], n: 9}) // not a string: not a parent id
	}
	// shuffle
	for i := len(p) - 1; i > 0; i-- {
		j := r.Intn(i + 1)
		p[i], p[j] = p[j], p[i]
	}
	return p
}

func (comp) Gen(r *kit.Rng, maxLen int, tier string) kit.Case {
	c := genCfg(r)
	header := c.header() // the rules the process starts with (c.samplers follows the reloads below)
	hasDefault := false
	var allFields []string
	for _, s := range c.samplers {
		if s.name == "__default__" {
			hasDefault = true
		}
		allFields = append(allFields, s.fields...)
	}
	n := 6 + r.Intn(maxLen)
	var ops []string
	ids := append(append(append([]string{}, c.tids...), c.pids...), idish...)
	nextRate := 30
	reloadW := 0
	if r.Chance(55) {
		reloadW = 5 // cases with rules reloads
	}
	hasEntry := func(nm string) bool {
		for _, x := range c.samplers {
			if x.name == nm {
				return true
			}
		}
		return false
	}
	newSampler := func(nm string) samplerSpec {
		kind := []string{"det", "dyn", "dyn", "rules", "rules"}[r.Intn(5)]
		x := samplerSpec{name: nm, kind: kind, rate: nextRate}
		if nextRate < 95 {
			nextRate += 1 + r.Intn(2)
		}
		if kind != "det" {
			x.fields = genFieldList(r, kind, ids)
		}
		return x
	}
	// keys of a case: a small pool so that spans of one trace usually share a key, each with a fixed environment
	type kenv struct{ key, env string }
	var keys []kenv
	for i := 0; i < 2+r.Intn(3); i++ {
		k := genKey(r)
		for hasCtl(k) { // the key travels in an HTTP header to the auth API
			k = genKey(r)
		}
		keys = append(keys, kenv{k, pick(r, envPool)})
	}
	name := func() string { // destination names: mostly ones that exist in the rules file
		if len(c.samplers) > 0 && r.Chance(60) {
			return c.samplers[r.Intn(len(c.samplers))].name
		}
		if r.Chance(50) {
			return pick(r, envPool)
		}
		return pick(r, dsPool)
	}
	dataset := func() string {
		if len(c.samplers) > 0 && r.Chance(55) {
			nm := c.samplers[r.Intn(len(c.samplers))].name
			if c.prefix != "" && strings.HasPrefix(nm, c.prefix+".") && r.Chance(80) {
				return nm[len(c.prefix)+1:]
			}
			if nm != "__default__" {
				return nm
			}
		}
		return pick(r, dsPool)
	}
	envFor := func() string {
		if len(c.samplers) > 0 && r.Chance(55) {
			nm := c.samplers[r.Intn(len(c.samplers))].name
			if nm != "__default__" {
				return nm
			}
		}
		return pick(r, envPool)
	}
	type openT struct {
		key, env, ds string
	}
	open := map[string]openT{}
	var openOrder []string
	nextTid := 0
	for i := 0; i < n; i++ {
		switch r.Pick(24, 14, 10, 38, 14, reloadW) {
		case 5:
			// the rules file is rewritten and reloaded: __default__ and/or named entries change
			ns := append([]samplerSpec{}, c.samplers...)
			changed := false
			for j := range ns {
				if ns[j].name == "__default__" && r.Chance(70) {
					ns[j] = newSampler("__default__")
					changed = true
				} else if ns[j].name != "__default__" && r.Chance(25) {
					ns[j] = newSampler(ns[j].name)
					changed = true
				}
			}
			if r.Chance(25) {
				nm := pick(r, []string{"prod", "staging", "dev", "ds1", "ds2", "b", "my ds"})
				if c.prefix != "" && r.Chance(40) {
					nm = c.prefix + "." + nm
				}
				if !hasEntry(nm) {
					ns = append(ns, newSampler(nm))
					changed = true
				}
			}
			if len(ns) > 1 && r.Chance(20) {
				j := 1 + r.Intn(len(ns)-1)
				if ns[j].name != "__default__" {
					ns = append(ns[:j], ns[j+1:]...)
					changed = true
				}
			}
			if r.Chance(6) && len(ns) > 0 && ns[0].name == "__default__" {
				ns = ns[1:] // no __default__: rejected by validation, accepted without
				changed = true
			}
			if !changed && len(ns) > 0 {
				ns[0] = newSampler(ns[0].name)
			}
			ops = append(ops, "reload "+encSamplers(ns))
			nd := false
			for _, x := range ns {
				if x.name == "__default__" {
					nd = true
				}
			}
			if !c.validate || nd {
				c.samplers = ns
				hasDefault = nd
				for _, x := range ns {
					allFields = append(allFields, x.fields...)
				}
			}
			// ask right away for destinations with and without their own entry
			for _, nm := range []string{pick(r, envPool), pick(r, dsPool), name()} {
				ops = append(ops, "lookup "+kit.Enc(nm))
			}
		case 0:
			ops = append(ops, "classify "+kit.Enc(genKey(r)))
		case 1:
			ops = append(ops, fmt.Sprintf("selkey %s %s %s", kit.Enc(genKey(r)), kit.Enc(envFor()), kit.Enc(dataset())))
		case 2:
			ops = append(ops, "lookup "+kit.Enc(name()))
		case 3:
			if !hasDefault {
				ops = append(ops, "lookup "+kit.Enc(name()))
				continue
			}
			// a span of an open trace, or the first span of a new one (ids are never reused: a span
			// for an already decided trace is a late span, which is not part of this property)
			var tid string
			if len(openOrder) > 0 && r.Chance(60) {
				tid = openOrder[r.Intn(len(openOrder))]
			} else {
				nextTid++
				tid = fmt.Sprintf("t%d", nextTid)
			}
			var key, env, ds string
			if o, ok := open[tid]; ok && r.Chance(92) {
				key, env, ds = o.key, o.env, o.ds // spans of one trace normally come with one key / dataset
				if r.Chance(4) {
					ds = dataset()
				}
			} else {
				ke := keys[r.Intn(len(keys))]
				key, env, ds = ke.key, ke.env, dataset()
				if r.Chance(50) {
					env = envFor()
					for j := range keys {
						if keys[j].key == key {
							env = keys[j].env
						}
					}
				}
			}
			if _, ok := open[tid]; !ok {
				open[tid] = openT{key, env, ds}
				openOrder = append(openOrder, tid)
			}
			envTok := kit.Enc(env)
			if r.Chance(4) {
				envTok = "!" // the environment lookup fails for this request
			}
			path := []string{"msgp", "msgp", "json", "otlp"}[r.Intn(4)]
			pl := genPayload(r, c, tid, allFields)
			ops = append(ops, fmt.Sprintf("span %s %s %s %s %s %s", path, kit.Enc(key), envTok, kit.Enc(ds), encPayload(pl), kit.Enc(slugFor(r, env))))
		default:
			if len(openOrder) == 0 {
				if r.Chance(10) {
					ops = append(ops, "decide t0") // no such trace
				} else {
					ops = append(ops, "classify "+kit.Enc(genKey(r)))
				}
				continue
			}
			j := r.Intn(len(openOrder))
			tid := openOrder[j]
			openOrder = append(openOrder[:j], openOrder[j+1:]...)
			delete(open, tid)
			ops = append(ops, "decide "+kit.Enc(tid))
		}
	}
	for _, tid := range openOrder {
		ops = append(ops, "decide "+kit.Enc(tid))
	}
	return kit.Case{Header: header, Ops: ops}
}

// ---------------------------------------------------------------------------------------------
// runner

type runner struct {
	c       caseCfg
	cfg     config.Config
	cfgErr  string
	router  *route.Router
	mc      *collect.MockCollector
	up      *transmit.MockTransmission
	peer    *transmit.MockTransmission
	sf      *sample.SamplerFactory
	worker  *collect.CollectorWorker
	decided map[string]bool
	dir     string
}

func (comp) NewCase(h []string) kit.Runner {
	c := parseHeader(h)
	r := &runner{c: c, decided: map[string]bool{}}
	// configuration and rules are real files, loaded the way cmd/refinery does (config.NewConfig)
	dir, err := os.MkdirTemp("", "vh_samplersel")
	if err != nil {
		panic(err)
	}
	r.dir = dir
	mainY := append(c.mainYAML(), []byte("Network:\n  HoneycombAPI: "+jq(authStubURL())+"\n")...)
	if err := os.WriteFile(filepath.Join(dir, "config.yaml"), mainY, 0o600); err != nil {
		panic(err)
	}
	if err := os.WriteFile(filepath.Join(dir, "rules.yaml"), c.rulesYAML(), 0o600); err != nil {
		panic(err)
	}
	cfg, err := config.NewConfig(&config.CmdEnv{
		ConfigLocations: []string{filepath.Join(dir, "config.yaml")},
		RulesLocations:  []string{filepath.Join(dir, "rules.yaml")},
		NoValidate:      !c.validate,
	})
	if cfg == nil {
		r.cfgErr = "cfgerror " + kit.Enc(fmt.Sprint(err))
		return r
	}
	r.cfg = cfg
	lg := &logger.NullLogger{}
	met := &metrics.NullMetrics{}
	r.mc = collect.NewMockCollector()
	r.up = &transmit.MockTransmission{Capacity: 64}
	r.up.Start()
	r.peer = &transmit.MockTransmission{Capacity: 64}
	r.peer.Start()
	r.router = &route.Router{
		Config: cfg, Logger: lg, Metrics: met, HTTPTransport: &http.Transport{},
		UpstreamTransmission: r.up, PeerTransmission: r.peer,
		Sharder:   &sharder.MockSharder{Self: &sharder.TestShard{Addr: "self"}},
		Collector: r.mc,
		Tracer:    noop.NewTracerProvider().Tracer("verif"),
	}
	r.router.SetType(types.RouterTypeIncoming)
	if err := route.VerifSamplerselInit(r.router); err != nil {
		panic(err)
	}
	r.sf = &sample.SamplerFactory{Config: cfg, Logger: lg, Metrics: met}
	if err := r.sf.Start(); err != nil {
		panic(err)
	}
	coll := &collect.InMemCollector{
		Config: cfg, Logger: lg, Metrics: met, Clock: clockwork.NewFakeClock(),
		Tracer: noop.NewTracerProvider().Tracer("verif"), SamplerFactory: r.sf,
	}
	w, err := collect.NewCollectorWorker(0, coll, 16, 16)
	if err != nil {
		panic(err)
	}
	r.worker = w
	return r
}

func (r *runner) Close() {
	if r.router != nil && r.router.HTTPTransport != nil {
		r.router.HTTPTransport.CloseIdleConnections()
	}
	if r.dir != "" {
		os.RemoveAll(r.dir)
	}
	if r.worker != nil {
		r.worker.Stop() // the decision record's maintenance goroutine
	}
	if r.sf != nil {
		r.sf.Stop() // dynsampler goroutines
	}
}

func shortType(name string) string {
	switch name {
	case "DeterministicSampler":
		return "det"
	case "DynamicSampler":
		return "dyn"
	case "RulesBasedSampler":
		return "rules"
	case "not found":
		return "none"
	}
	return "other:" + kit.Enc(name)
}

func rateOf(c any) int {
	switch s := c.(type) {
	case *config.DeterministicSamplerConfig:
		return s.SampleRate
	case *config.DynamicSamplerConfig:
		return int(s.SampleRate)
	case *config.RulesBasedSamplerConfig:
		if len(s.Rules) > 0 {
			return s.Rules[0].SampleRate
		}
	}
	return 0
}

func sortedUnique(xs []string) []string {
	s := append([]string{}, xs...)
	sort.Strings(s)
	out := s[:0]
	for i, x := range s {
		if i == 0 || x != s[i-1] {
			out = append(out, x)
		}
	}
	return out
}

func msgpMap(p []payEntry) []byte {
	b := msgp.AppendMapHeader(nil, uint32(len(p)))
	for _, e := range p {
		b = msgp.AppendString(b, e.k)
		if e.str {
			b = msgp.AppendString(b, e.s)
		} else {
			b = msgp.AppendInt64(b, e.n)
		}
	}
	return b
}

func jsonObj(p []payEntry) []byte {
	var b bytes.Buffer
	b.WriteByte('{')
	for i, e := range p {
		if i > 0 {
			b.WriteByte(',')
		}
		b.WriteString(jq(e.k))
		b.WriteByte(':')
		if e.str {
			b.WriteString(jq(e.s))
		} else {
			b.WriteString(strconv.FormatInt(e.n, 10))
		}
	}
	b.WriteByte('}')
	return b.Bytes()
}

func fmtVal(v any) string {
	switch x := v.(type) {
	case nil:
		return "n~"
	case string:
		return "s~" + kit.Enc(x)
	case []byte:
		return "s~" + kit.Enc(string(x))
	case int64:
		return "i~" + strconv.FormatInt(x, 10)
	case uint64:
		return "i~" + strconv.FormatUint(x, 10)
	case int:
		return "i~" + strconv.Itoa(x)
	case float64:
		if x == float64(int64(x)) {
			return "i~" + strconv.FormatInt(int64(x), 10)
		}
		return "o~" + kit.Enc(fmt.Sprint(x))
	}
	return "o~" + kit.Enc(fmt.Sprintf("%T:%v", v, v))
}

func b01(b bool) string {
	if b {
		return "1"
	}
	return "0"
}

// authStub is a stand-in for the Honeycomb API: GET /1/auth answers with the team, the environment
// NAME and SLUG and the key id set for the current operation (or 401).
var authStub struct {
	sync.Mutex
	srv        *httptest.Server
	name, slug string
	fail       bool
}

func authStubURL() string {
	authStub.Lock()
	defer authStub.Unlock()
	if authStub.srv == nil {
		authStub.srv = httptest.NewServer(http.HandlerFunc(func(w http.ResponseWriter, req *http.Request) {
			authStub.Lock()
			name, slug, fail := authStub.name, authStub.slug, authStub.fail
			authStub.Unlock()
			if req.URL.Path != "/1/auth" || fail {
				w.WriteHeader(http.StatusUnauthorized)
				return
			}
			b, _ := json.Marshal(map[string]any{
				"api_key_access": map[string]bool{"events": true},
				"team":           map[string]string{"slug": "the-team", "name": "The Team"},
				"environment":    map[string]string{"slug": slug, "name": name},
				"id":             "hcxik_keyid",
			})
			w.Header().Set("Content-Type", "application/json")
			w.Write(b)
		}))
	}
	return authStub.srv.URL
}

// ingest sends one event through a real ingestion path and returns the span the router handed to
// the collector (nil if none), or a word describing what happened instead.
func (r *runner) ingest(path, key, env, slug string, envFails bool, ds string, pl []payEntry) (*types.Span, string) {
	// the environment comes from the router's own /1/auth lookup against the stub API
	authStub.Lock()
	authStub.name, authStub.slug, authStub.fail = env, slug, envFails
	authStub.Unlock()
	route.VerifSamplerselResetEnvCache(r.router) // no answers cached from earlier operations
	r.mc.Flush()
	switch path {
	case "msgp", "json":
		var body []byte
		ct := "application/msgpack"
		if path == "msgp" {
			body = msgp.AppendArrayHeader(nil, 1)
			body = msgp.AppendMapHeader(body, 2)
			body = msgp.AppendString(body, "samplerate")
			body = msgp.AppendInt64(body, 1)
			body = msgp.AppendString(body, "data")
			body = append(body, msgpMap(pl)...)
		} else {
			ct = "application/json"
			body = []byte(`[{"samplerate":1,"data":` + string(jsonObj(pl)) + `}]`)
		}
		req := httptest.NewRequest("POST", "/1/batch/x", bytes.NewReader(body))
		req.Header["X-Honeycomb-Team"] = []string{key}
		req.Header.Set("Content-Type", ct)
		req = mux.SetURLVars(req, map[string]string{"datasetName": url.PathEscape(ds)})
		w := httptest.NewRecorder()
		route.VerifSamplerselBatch(r.router, w, req)
	case "otlp":
		err := route.VerifSamplerselOTLP(r.router, []huskyotlp.BatchMsgp{{Dataset: ds, Events: []huskyotlp.EventMsgp{{Attributes: msgpMap(pl), SampleRate: 1, Timestamp: time.Unix(1700000000, 0)}}}}, key)
		_ = err // a refused request (failed environment lookup) shows as "nothing" below: no span, no event
	default:
		return nil, "bad-op"
	}
	select {
	case sp := <-r.mc.Spans:
		return sp, ""
	default:
	}
	select {
	case <-r.up.Events:
		return nil, "event"
	default:
	}
	return nil, "nothing"
}

func (r *runner) Do(op []string) (string, bool) {
	if r.cfg == nil {
		return r.cfgErr, true
	}
	switch op[0] {
	case "classify":
		return b01(config.IsLegacyAPIKey(kit.Dec(op[1]))), true
	case "selkey":
		return kit.Enc(r.cfg.DetermineSamplerKey(kit.Dec(op[1]), kit.Dec(op[2]), kit.Dec(op[3]))), true
	case "lookup":
		c, name := r.cfg.GetSamplerConfigForDestName(kit.Dec(op[1]))
		kf := r.cfg.GetSamplingKeyFieldsForDestName(kit.Dec(op[1]))
		return fmt.Sprintf("%s:%d kf=%s", shortType(name), rateOf(c), encList(sortedUnique(kf))), true
	case "span":
		if c, _ := r.cfg.GetSamplerConfigForDestName("\x00no-such-name"); c == nil {
			return "nosampler", true // the sampler factory exits the process on a nil config
		}
		envFails := op[3] == "!"
		slug := ""
		if len(op) > 6 {
			slug = kit.Dec(op[6])
		}
		sp, what := r.ingest(op[1], kit.Dec(op[2]), kit.Dec(op[3]), slug, envFails, kit.Dec(op[4]), decPayload(op[5]))
		if sp == nil {
			return what, true
		}
		memo, missing := types.VerifSamplerselMemo(&sp.Data)
		late := r.decided[sp.TraceID]
		obs := fmt.Sprintf("span tid=%s root=%s key=%s env=%s ds=%s memo=%s missing=%s late=%s", kit.Enc(sp.TraceID), b01(sp.IsRoot),
			kit.Enc(sp.APIKey), kit.Enc(sp.Environment), kit.Enc(sp.Dataset), encList(memo), encList(sortedUnique(missing)), b01(late))
		if !late { // late spans go to the sent-trace path, which is not exercised here
			collect.VerifSamplerselProcess(r.worker, sp)
		}
		return obs, true
	case "reload":
		if err := os.WriteFile(filepath.Join(r.dir, "rules.yaml"), rulesYAMLOf(decSamplers(op[1])), 0o600); err != nil {
			panic(err)
		}
		if err := r.cfg.Reload(); err != nil {
			return "reloaded 0", true
		}
		// what the collector does when the reload callback fires (reloadConfigs + the worker's reload branch)
		r.sf.ClearDynsamplers()
		collect.VerifSamplerselReloadWorker(r.worker)
		return "reloaded 1", true
	case "decide":
		if c, _ := r.cfg.GetSamplerConfigForDestName("\x00no-such-name"); c == nil {
			return "nosampler", true // no __default__ in force: the sampler factory may exit the process
		}
		d := collect.VerifSamplerselDecide(r.worker, kit.Dec(op[1]))
		if !d.Found {
			return "notrace", true
		}
		r.decided[kit.Dec(op[1])] = true
		kit.Ext("samplekey = %s", kit.Enc(d.SampleKey))
		var per []string
		for _, sp := range d.Trace.GetSpans() {
			fs := d.NonRootFields
			if sp.IsRoot {
				fs = d.AllFields
			}
			var g []string
			for _, f := range sortedUnique(fs) {
				g = append(g, kit.Enc(f)+"~"+fmtVal(sp.Data.Get(f)))
			}
			if len(g) == 0 {
				per = append(per, "-")
			} else {
				per = append(per, strings.Join(g, ","))
			}
		}
		return fmt.Sprintf("sel=%s rate=%d reason=%s kf=%s|%s get=%s", kit.Enc(d.Selector), d.Rate, kit.Enc(d.Reason),
			encList(sortedUnique(d.AllFields)), encList(sortedUnique(d.NonRootFields)), strings.Join(per, ";")), true
	}
	return "bad-op", true
}

var _ = http.StatusOK

func facts() map[string]string {
	return map[string]string{
		"rootPrefix":     config.RootPrefix,
		"computedPrefix": config.ComputedFieldPrefix,
	}
}

func main() { kit.Main(comp{}, facts) }
