//go:build verif

// Harness for internal/health.Health (property C30).
//
// The real Health is started with its real ticker goroutine.  Its clock is a
// clockwork.FakeClock wrapped so that (a) the period the code asks its ticker for is
// recorded and (b) every evaluation of `tick.Chan()` — which the goroutine does each time it
// re-enters its select, i.e. after the body of the previous tick has completed and released
// the mutex — is counted.  An `adv d` operation advances the fake clock from tick instant to
// tick instant (never across two in one call, the fake ticker's channel holds one tick) and
// after each instant waits (bounded) for that count to increase, so every tick's effect is
// complete before the next operation runs: the op sequence is the interleaving.
//
// ops:  reg <s> <timeout ns> | unreg <s> | rep <s> <0|1> | adv <ns>
// obs:  [n=<ticks delivered> ]a=<IsAlive> r=<IsReady> tl=<s:timeLeft,…> rd=<s:ready,…>
package main

import (
	"fmt"
	"runtime"
	"sort"
	"strconv"
	"strings"
	"sync/atomic"
	"time"

	"github.com/honeycombio/refinery/internal/health"
	kit "github.com/honeycombio/refinery/internal/verifkit"
	"github.com/jonboulle/clockwork"
)

type comp struct{}

// ---------------------------------------------------------------------------- clock wrapper

type vclock struct {
	*clockwork.FakeClock
	period    atomic.Int64 // duration passed to NewTicker by the code
	tickers   atomic.Int64
	chanCalls atomic.Int64
}

type vticker struct {
	clockwork.Ticker
	c *vclock
}

func (c *vclock) NewTicker(d time.Duration) clockwork.Ticker {
	t := c.FakeClock.NewTicker(d)
	c.period.Store(int64(d))
	c.tickers.Add(1)
	return &vticker{Ticker: t, c: c}
}

func (t *vticker) Chan() <-chan time.Time {
	ch := t.Ticker.Chan()
	t.c.chanCalls.Add(1)
	return ch
}

// after the first synchronisation failure later waits are short: every case would fail the same way
var syncFailed bool

// waitChan waits (bounded, real time) until Chan() has been evaluated at least n times.
func (c *vclock) waitChan(n int64) bool {
	limit := 3 * time.Second
	if syncFailed {
		limit = 20 * time.Millisecond
	}
	deadline := time.Now().Add(limit)
	for i := 0; c.chanCalls.Load() < n; i++ {
		if time.Now().After(deadline) {
			syncFailed = true
			return false
		}
		if i < 2000 {
			runtime.Gosched()
		} else {
			time.Sleep(20 * time.Microsecond)
		}
	}
	return true
}

// ---------------------------------------------------------------------------- generator

var palette = []int64{ // registration timeouts, ns
	600e6, 1000e6, 1500e6, 1700e6, 2000e6, 2500e6, 3000e6, 5000e6, // the usual ones (> tick)
	1000e6 + 1, 1500e6 - 1, 501e6, // just off a multiple of the tick
	500e6, 499999999, 300e6, 1, // not above the tick
	0, -1, -2000e6, // degenerate: zero, equal to the "no report yet" sentinel, negative
}

type gsub struct {
	reg bool
	t   int64
	rep bool
	at  int64
}

func (comp) Gen(r *kit.Rng, maxLen int, tier string) kit.Case {
	T := int64(health.TickerTime)
	if T <= 0 {
		T = 1
	}
	u := 1 + r.Intn(4)
	mode := r.Pick(40, 30, 30) // 0 mixed, 1 keep-alive reporters, 2 silences
	n := 6 + r.Intn(maxLen)
	now := int64(0)
	subs := make([]gsub, u)
	var ops []string
	adv := func(d int64) {
		if d < 0 {
			d = 0
		}
		if d > 10e9 {
			d = 10e9
		}
		now += d
		ops = append(ops, fmt.Sprintf("adv %d", d))
	}
	timeout := func() int64 {
		if mode == 1 || r.Chance(70) {
			return palette[r.Intn(11)]
		}
		return palette[r.Intn(len(palette))]
	}
	jitter := func(d int64) int64 {
		switch r.Pick(50, 25, 25) {
		case 1:
			return d - 1
		case 2:
			return d + 1
		}
		return d
	}
	if r.Chance(60) { // phase of the first registration relative to the ticker
		adv(jitter(int64(r.Intn(int(T)))))
	}
	// most cases start by registering something
	for s := 0; s < u; s++ {
		if r.Chance(70) {
			subs[s] = gsub{reg: true, t: timeout()}
			ops = append(ops, fmt.Sprintf("reg %d %d", s, subs[s].t))
		}
	}
	w := [][]int{{34, 36, 14, 8, 8}, {30, 50, 10, 4, 6}, {48, 26, 12, 7, 7}}[mode]
	for i := 0; i < n; i++ {
		switch r.Pick(w...) {
		case 0: // advance
			var cand []int64
			cand = append(cand, T-now%T) // the next tick instant
			for _, s := range subs {
				if s.reg && s.rep {
					for _, c := range []int64{s.at + s.t - T - now, s.at + s.t - now, s.at + s.t + T - now} {
						if c > 0 {
							cand = append(cand, c)
						}
					}
				}
			}
			var d int64
			switch r.Pick(45, 20, 20, 15) {
			case 0:
				d = jitter(cand[r.Intn(len(cand))])
			case 1:
				d = jitter(int64(1+r.Intn(6)) * T)
			case 2:
				d = int64(r.Intn(int(T)))
			default:
				d = int64(r.Intn(8000)) * 1e6
			}
			if mode == 1 {
				// keep-alive: everybody with a sensible timeout reports first, and the advance stays
				// strictly inside the shortest "timeout - tick" window
				lim := int64(-1)
				for s := range subs {
					if subs[s].reg && subs[s].t > T {
						if r.Chance(85) {
							rd := 1
							if r.Chance(10) {
								rd = 0
							}
							subs[s].rep, subs[s].at = true, now
							ops = append(ops, fmt.Sprintf("rep %d %d", s, rd))
						}
						if subs[s].rep {
							l := subs[s].at + subs[s].t - T - 1 - now
							if lim < 0 || l < lim {
								lim = l
							}
						}
					}
				}
				if lim >= 0 && d > lim && r.Chance(92) {
					d = lim
					if r.Chance(30) && d > 0 {
						d = int64(r.Intn(int(min64(d, 1<<30)) + 1))
					}
				}
			}
			adv(d)
		case 1: // report
			s := r.Intn(u)
			if !subs[s].reg && r.Chance(70) { // prefer registered ones
				s = r.Intn(u)
			}
			rd := 1
			if r.Chance(22) {
				rd = 0
			}
			if subs[s].reg {
				subs[s].rep, subs[s].at = true, now
			}
			ops = append(ops, fmt.Sprintf("rep %d %d", s, rd))
		case 2: // register / re-register
			s := r.Intn(u)
			subs[s] = gsub{reg: true, t: timeout()}
			ops = append(ops, fmt.Sprintf("reg %d %d", s, subs[s].t))
		case 3: // unregister
			s := r.Intn(u)
			subs[s] = gsub{}
			ops = append(ops, fmt.Sprintf("unreg %d", s))
		case 4: // register + immediate report (the common start-up sequence)
			s := r.Intn(u)
			subs[s] = gsub{reg: true, t: timeout(), rep: true, at: now}
			ops = append(ops, fmt.Sprintf("reg %d %d", s, subs[s].t), fmt.Sprintf("rep %d 1", s))
		}
	}
	return kit.Case{Header: fmt.Sprintf("subs=%d mode=%d", u, mode), Ops: ops}
}

func min64(a, b int64) int64 {
	if a < b {
		return a
	}
	return b
}

// ---------------------------------------------------------------------------- runner

type runner struct {
	clk     *vclock
	h       *health.Health
	elapsed int64 // ns since the ticker was created
	seen    int64 // Chan() evaluations accounted for
	broken  string
}

func name(s string) string { return "s" + s }

func (comp) NewCase(h []string) kit.Runner {
	r := &runner{clk: &vclock{FakeClock: clockwork.NewFakeClock()}}
	r.h = &health.Health{Clock: r.clk}
	r.h.Start()
	// the goroutine creates its ticker and enters the select: first Chan() evaluation
	if !r.clk.waitChan(1) {
		r.broken = "ticker-not-started"
	}
	r.seen = 1
	return r
}

func (r *runner) state() string {
	a, rd := r.h.IsAlive(), r.h.IsReady()
	tl, rds := r.h.VerifDump()
	var ks []int
	for k := range tl {
		n, _ := strconv.Atoi(strings.TrimPrefix(k, "s"))
		ks = append(ks, n)
	}
	sort.Ints(ks)
	var a1 []string
	for _, k := range ks {
		a1 = append(a1, fmt.Sprintf("%d:%d", k, int64(tl["s"+strconv.Itoa(k)])))
	}
	ks = ks[:0]
	for k := range rds {
		n, _ := strconv.Atoi(strings.TrimPrefix(k, "s"))
		ks = append(ks, n)
	}
	sort.Ints(ks)
	var a2 []string
	for _, k := range ks {
		a2 = append(a2, fmt.Sprintf("%d:%d", k, b2i(rds["s"+strconv.Itoa(k)])))
	}
	j := func(x []string) string {
		if len(x) == 0 {
			return "-"
		}
		return strings.Join(x, ",")
	}
	return fmt.Sprintf("a=%d r=%d tl=%s rd=%s", b2i(a), b2i(rd), j(a1), j(a2))
}

func b2i(b bool) int {
	if b {
		return 1
	}
	return 0
}

func (r *runner) Do(op []string) (string, bool) {
	if r.broken != "" {
		return r.broken, true
	}
	switch op[0] {
	case "reg":
		t, _ := strconv.ParseInt(op[2], 10, 64)
		r.h.Register(name(op[1]), time.Duration(t))
		return r.state(), true
	case "unreg":
		r.h.Unregister(name(op[1]))
		return r.state(), true
	case "rep":
		r.h.Ready(name(op[1]), op[2] == "1")
		return r.state(), true
	case "adv":
		d, _ := strconv.ParseInt(op[1], 10, 64)
		p := r.clk.period.Load()
		if p <= 0 || r.clk.tickers.Load() != 1 {
			return "bad-ticker", true
		}
		ticks := 0
		for d > 0 {
			next := (r.elapsed/p+1)*p - r.elapsed // distance to the next tick instant
			if next > d {
				r.clk.Advance(time.Duration(d))
				r.elapsed += d
				break
			}
			r.clk.Advance(time.Duration(next))
			r.elapsed += next
			d -= next
			ticks++
			r.seen++
			if !r.clk.waitChan(r.seen) {
				r.broken = "tick-sync-timeout"
				return r.broken, true
			}
		}
		return fmt.Sprintf("n=%d %s", ticks, r.state()), true
	}
	return "bad-op", true
}

func (r *runner) Close() { r.h.Stop() }

func facts() map[string]string {
	return map[string]string{
		"tickerTime": strconv.FormatInt(int64(health.TickerTime), 10),
	}
}

func main() { kit.Main(comp{}, facts) }
