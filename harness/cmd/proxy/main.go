//go:build verif

// Harness for the pass-through proxy (property C37): route/proxy.go as mounted by Router.LnS.
//
// One real route.Router is built per process with the repo's own mocks and started with LnS.  The
// handler LnS installed (the real gorilla mux + middleware chain, last route = Router.proxy) is
// served by an httptest server ("front"); Config.GetHoneycombAPI points at a second httptest server
// ("upstream") that records every request it receives and answers as the operation scripts.
// The client side is a raw TCP connection: the request line, header lines (repeated names as
// repeated lines) and body framing are written byte for byte as generated, the response is parsed
// with http.ReadResponse.
//
// case header: base=<enc path prefix appended to the upstream address, % = none>
// op:  req m=<method> t=<enc request-target> h=<hlist> b=<body> fr=<cl|ch>
//          s=<status> rh=<hlist> rb=<body> rfr=<cl|ch>
//      hlist = - | Name~<enc v>|<enc v>;Name~…      (canonical names; values in line order)
//      body  = lit:<enc bytes> | gen:<seed>:<len>   (gen = deterministic pseudo-random bytes)
//              | gz:<seed>:<len> | zs:<seed>:<len>  (request only: the gzip / zstd encoding of gen:<seed>:<len>)
//      received bodies are named by comparing bytes with the op's token: the token itself when equal,
//      trunc:<len>:<sha1> when a strict prefix of it, else lit:… (≤ 96 B) or raw:<len>:<sha1>
// ext: unescape <enc path> = <enc decoded path>     (net/url, external function for the model)
// obs: n=<requests upstream received> um=<method> uu=<enc RequestURI> uh=<hlist> ub=<body>
//      cs=<status> ch=<hlist> cb=<body>             (u* = the first upstream request; - when n=0)
//
// Canonicalised away (net/http's own per-hop handling, not the proxy's doing):
//   upstream request : Host (always the upstream's address), Content-Length / Transfer-Encoding
//                      (the transport frames the body itself), Accept-Encoding: gzip and
//                      User-Agent: Go-http-client/* when the client sent no such header (transport
//                      defaults); the client's socket address inside X-Forwarded-For is printed @R;
//                      header names are compared in canonical MIME form.
//   client response  : Connection and Transfer-Encoding (per-hop); Content-Length ONLY when the upstream
//                      sent none (rfr=ch: then the length the client sees is the front server's own
//                      framing choice).  With rfr=cl the upstream sends Content-Length and the client must
//                      see the same one; Date is compared too (the upstream sends a fixed Date).
//   204/304 responses: net/http's *server* deletes Content-Length (204, 304) and Content-Type (304) from
//                      whatever the handler put into the header map, so the server in front of the proxy
//                      never lets them through; they are not expected at the client.  The fake upstream
//                      really sends them (hijacked connection, raw bytes) when rfr=cl.
//   upstream response: the fake upstream suppresses net/http's Content-Type sniffing when the
//                      script has no Content-Type, so "no Content-Type" really is sent.
package main

import (
	"bufio"
	"bytes"
	"compress/gzip"
	"crypto/sha1"
	"fmt"
	"io"
	"net"
	"net/http"
	"net/http/httptest"
	"net/url"
	"sort"
	"strconv"
	"strings"
	"sync"
	"time"

	"github.com/honeycombio/refinery/collect"
	"github.com/honeycombio/refinery/config"
	kit "github.com/honeycombio/refinery/internal/verifkit"
	"github.com/klauspost/compress/zstd"
	"github.com/honeycombio/refinery/logger"
	"github.com/honeycombio/refinery/metrics"
	"github.com/honeycombio/refinery/route"
	"github.com/honeycombio/refinery/sharder"
	"github.com/honeycombio/refinery/transmit"
	"github.com/honeycombio/refinery/types"
	"go.opentelemetry.io/otel/trace/noop"
)

type comp struct{}

const followPath = "/__verif_followed"
const followBody = "followed"

// upstreamDate is the Date header of every upstream response (set by the handler, so that net/http
// does not stamp its own and the client-side value can be compared).
const upstreamDate = "Tue, 15 Nov 1994 08:12:31 GMT"

// ---------------------------------------------------------------------------------------------
// header lists and body tokens

type hdr struct {
	name string
	vals []string
}

func encHList(hs []hdr) string {
	if len(hs) == 0 {
		return "-"
	}
	parts := make([]string, len(hs))
	for i, h := range hs {
		vs := make([]string, len(h.vals))
		for j, v := range h.vals {
			vs[j] = kit.Enc(v)
		}
		parts[i] = h.name + "~" + strings.Join(vs, "|")
	}
	return strings.Join(parts, ";")
}

func decHList(s string) []hdr {
	if s == "-" || s == "" {
		return nil
	}
	var out []hdr
	for _, p := range strings.Split(s, ";") {
		i := strings.IndexByte(p, '~')
		if i < 0 {
			continue
		}
		h := hdr{name: p[:i]}
		for _, v := range strings.Split(p[i+1:], "|") {
			h.vals = append(h.vals, kit.Dec(v))
		}
		out = append(out, h)
	}
	return out
}

func fromHTTPHeader(h http.Header) []hdr {
	var out []hdr
	for k, vs := range h {
		out = append(out, hdr{name: http.CanonicalHeaderKey(k), vals: append([]string(nil), vs...)})
	}
	sort.Slice(out, func(i, j int) bool { return out[i].name < out[j].name })
	return out
}

func has(hs []hdr, name string) bool {
	for _, h := range hs {
		if h.name == name {
			return true
		}
	}
	return false
}

var zstdEnc, _ = zstd.NewWriter(nil, zstd.WithEncoderConcurrency(1))

func genBytes(seedS, lenS string) []byte {
	seed, _ := strconv.ParseUint(seedS, 10, 64)
	n, _ := strconv.Atoi(lenS)
	r := kit.NewRng(seed)
	b := make([]byte, 0, n+8)
	for len(b) < n {
		x := r.Next()
		for i := 0; i < 8; i++ {
			b = append(b, byte(x>>(8*i)))
		}
	}
	return b[:n]
}

func expandBody(tok string) []byte {
	f := strings.Split(tok, ":")
	switch {
	case strings.HasPrefix(tok, "lit:"):
		return []byte(kit.Dec(tok[4:]))
	case len(f) == 3 && f[0] == "gen":
		return genBytes(f[1], f[2])
	case len(f) == 3 && f[0] == "gz":
		var out bytes.Buffer
		zw := gzip.NewWriter(&out)
		zw.Write(genBytes(f[1], f[2]))
		zw.Close()
		return out.Bytes()
	case len(f) == 3 && f[0] == "zs":
		return zstdEnc.EncodeAll(genBytes(f[1], f[2]), nil)
	}
	return nil
}

// nameBody gives received bytes a canonical token by comparing them with what the op's token stands
// for: the token itself when equal, trunc:… when a strict prefix of it, else a literal (short) or
// length+digest (long).  Bodies are never printed beyond 96 bytes.
func nameBody(b []byte, candidates ...string) string {
	for _, c := range candidates {
		if strings.HasPrefix(c, "lit:") {
			continue
		}
		e := expandBody(c)
		if bytes.Equal(e, b) {
			return c
		}
		if len(b) > 0 && len(b) < len(e) && bytes.HasPrefix(e, b) {
			return fmt.Sprintf("trunc:%d:%x", len(b), sha1.Sum(b))[:40]
		}
	}
	if len(b) <= 96 {
		return "lit:" + kit.Enc(string(b))
	}
	return fmt.Sprintf("raw:%d:%x", len(b), sha1.Sum(b))[:40]
}

// ---------------------------------------------------------------------------------------------
// the world: one real router between a front server and a scripted upstream

type script struct {
	status int
	hdrs   []hdr
	body   []byte
	chunks bool
}

type hit struct {
	method string
	uri    string
	header http.Header
	body   []byte
}

type world struct {
	conf   *config.MockConfig
	router *route.Router
	front  *httptest.Server
	up     *httptest.Server
	mu     sync.Mutex
	script script
	hits   []hit
}

var (
	theWorld *world
	once     sync.Once
)

func getWorld() *world {
	once.Do(func() {
		w := &world{}
		w.up = httptest.NewServer(http.HandlerFunc(w.upstream))
		w.conf = &config.MockConfig{
			GetListenAddrVal:     "127.0.0.1:0",
			GetPeerListenAddrVal: "127.0.0.1:0",
			GetGRPCEnabledVal:    false,
			GetHoneycombAPIVal:   w.up.URL,
			TraceIdFieldNames:    []string{"trace.trace_id", "traceId"},
			ParentIdFieldNames:   []string{"trace.parent_id", "parentId"},
		}
		upT := &transmit.MockTransmission{Capacity: 10}
		upT.Start()
		peerT := &transmit.MockTransmission{Capacity: 10}
		peerT.Start()
		w.router = &route.Router{
			Config: w.conf,
			Logger: &logger.NullLogger{},
			// the settings of cmd/refinery/main.go's upstreamTransport, minus the environment proxy
			HTTPTransport: &http.Transport{
				Dial:                (&net.Dialer{Timeout: 10 * time.Second}).Dial,
				TLSHandshakeTimeout: 15 * time.Second,
				ForceAttemptHTTP2:   true,
			},
			UpstreamTransmission: upT,
			PeerTransmission:     peerT,
			Sharder:              &sharder.MockSharder{Self: &sharder.TestShard{Addr: "http://self:8081"}},
			Collector:            collect.NewMockCollector(),
			Metrics:              &metrics.NullMetrics{},
			Tracer:               noop.Tracer{},
		}
		w.router.SetType(types.RouterTypeIncoming)
		w.router.LnS()
		w.front = httptest.NewServer(route.VerifProxyHandler(w.router))
		theWorld = w
	})
	return theWorld
}

func (w *world) setBase(base string) {
	w.conf.Mux.Lock()
	w.conf.GetHoneycombAPIVal = w.up.URL + base
	w.conf.Mux.Unlock()
}

func bodyAllowed(method string, status int) bool {
	return method != "HEAD" && status != 204 && status != 304 && status >= 200
}

func (w *world) upstream(rw http.ResponseWriter, req *http.Request) {
	body, _ := io.ReadAll(req.Body)
	w.mu.Lock()
	sc := w.script
	w.hits = append(w.hits, hit{method: req.Method, uri: req.RequestURI, header: req.Header.Clone(), body: body})
	w.mu.Unlock()
	h := rw.Header()
	h.Set("Date", upstreamDate)
	if req.URL.Path == followPath {
		h.Set("Content-Type", "text/plain")
		h.Set("X-Followed", "1")
		if !sc.chunks {
			h.Set("Content-Length", strconv.Itoa(len(followBody)))
		}
		rw.WriteHeader(200)
		io.WriteString(rw, followBody)
		if f, ok := rw.(http.Flusher); ok && sc.chunks {
			f.Flush()
		}
		return
	}
	if !sc.chunks && (sc.status == 204 || sc.status == 304) {
		// net/http's server would delete Content-Length (and Content-Type on 304) from a bodyless
		// reply; write the bytes ourselves so that the upstream really sends them
		if hj, ok := rw.(http.Hijacker); ok {
			conn, buf, err := hj.Hijack()
			if err == nil {
				fmt.Fprintf(buf, "HTTP/1.1 %d Scripted\r\nDate: %s\r\n", sc.status, upstreamDate)
				for _, x := range sc.hdrs {
					for _, v := range x.vals {
						fmt.Fprintf(buf, "%s: %s\r\n", x.name, v)
					}
				}
				fmt.Fprintf(buf, "Content-Length: %d\r\nConnection: close\r\n\r\n", len(sc.body))
				buf.Flush()
				conn.Close()
				return
			}
		}
	}
	for _, x := range sc.hdrs {
		for _, v := range x.vals {
			h.Add(x.name, v)
		}
	}
	if !has(sc.hdrs, "Content-Type") {
		h["Content-Type"] = nil // no sniffing: the script decides what is sent
	}
	allowed := bodyAllowed(req.Method, sc.status)
	if !sc.chunks {
		h.Set("Content-Length", strconv.Itoa(len(sc.body)))
	}
	rw.WriteHeader(sc.status)
	if !allowed {
		return
	}
	if sc.chunks {
		b := sc.body
		for len(b) > 0 {
			n := len(b)/3 + 1
			rw.Write(b[:n])
			if f, ok := rw.(http.Flusher); ok {
				f.Flush()
			}
			b = b[n:]
		}
		return
	}
	rw.Write(sc.body)
}

// lowerSome writes some header names in lower case on the wire (field names are case-insensitive).
func wireName(name string, i int) string {
	if (len(name)+i)%3 == 0 {
		return strings.ToLower(name)
	}
	return name
}

// roundTrip sends the raw request to the front server and reads the response.
func (w *world) roundTrip(method, target string, hs []hdr, body []byte, chunked bool) (st int, rh http.Header, rb []byte, local string, err error) {
	conn, err := net.Dial("tcp", w.front.Listener.Addr().String())
	if err != nil {
		return 0, nil, nil, "", err
	}
	defer conn.Close()
	conn.SetDeadline(time.Now().Add(60 * time.Second))
	local = conn.LocalAddr().String()
	var b bytes.Buffer
	fmt.Fprintf(&b, "%s %s HTTP/1.1\r\nHost: refinery.test\r\n", method, target)
	for i, h := range hs {
		for _, v := range h.vals {
			fmt.Fprintf(&b, "%s: %s\r\n", wireName(h.name, i), v)
		}
	}
	switch {
	case chunked:
		b.WriteString("Transfer-Encoding: chunked\r\n\r\n")
		rest := body
		for len(rest) > 0 {
			n := len(rest)/2 + 1
			fmt.Fprintf(&b, "%x\r\n", n)
			b.Write(rest[:n])
			b.WriteString("\r\n")
			rest = rest[n:]
		}
		b.WriteString("0\r\n\r\n")
	case len(body) == 0 && (method == "GET" || method == "HEAD" || method == "DELETE" || method == "OPTIONS"):
		b.WriteString("\r\n")
	default:
		fmt.Fprintf(&b, "Content-Length: %d\r\n\r\n", len(body))
		b.Write(body)
	}
	go func() { conn.Write(b.Bytes()) }()
	resp, err := http.ReadResponse(bufio.NewReaderSize(conn, 1<<16), &http.Request{Method: method})
	if err != nil {
		return 0, nil, nil, local, err
	}
	rb, err = io.ReadAll(resp.Body)
	resp.Body.Close()
	return resp.StatusCode, resp.Header, rb, local, err
}

// ---------------------------------------------------------------------------------------------
// runner

type runner struct {
	w *world
}

func (comp) NewCase(h []string) kit.Runner {
	w := getWorld()
	base := kit.KV(h, "base")
	if base == "" {
		base = "%"
	}
	w.setBase(kit.Dec(base))
	return &runner{w: w}
}

func (r *runner) Close() {}

func (r *runner) Do(op []string) (string, bool) {
	if op[0] != "req" {
		return "bad-op", true
	}
	a := op[1:]
	method := kit.KV(a, "m")
	target := kit.Dec(kit.KV(a, "t"))
	hs := decHList(kit.KV(a, "h"))
	btok := kit.KV(a, "b")
	status, _ := strconv.Atoi(kit.KV(a, "s"))
	rhs := decHList(kit.KV(a, "rh"))
	rbtok := kit.KV(a, "rb")
	w := r.w

	path := target
	if i := strings.IndexByte(path, '?'); i >= 0 {
		path = path[:i]
	}
	dpath, err := url.PathUnescape(path)
	if err != nil {
		dpath = "!invalid"
	}
	kit.Ext("unescape %s = %s", kit.Enc(path), kit.Enc(dpath))

	w.mu.Lock()
	w.script = script{status: status, hdrs: rhs, body: expandBody(rbtok), chunks: kit.KV(a, "rfr") == "ch"}
	w.hits = nil
	w.mu.Unlock()

	cs, ch, cb, local, err := w.roundTrip(method, target, hs, expandBody(btok), kit.KV(a, "fr") == "ch")
	if err != nil {
		return "err client-" + kit.Enc(classify(err)), true
	}
	w.mu.Lock()
	hits := w.hits
	w.hits = nil
	w.mu.Unlock()

	var sb strings.Builder
	fmt.Fprintf(&sb, "n=%d ", len(hits))
	if len(hits) == 0 {
		sb.WriteString("um=- uu=- uh=- ub=-")
	} else {
		h := hits[0]
		uh := h.header
		uh.Del("Content-Length")
		uh.Del("Transfer-Encoding")
		if !has(hs, "Accept-Encoding") && len(uh["Accept-Encoding"]) == 1 && uh.Get("Accept-Encoding") == "gzip" {
			uh.Del("Accept-Encoding")
		}
		if !has(hs, "User-Agent") && len(uh["User-Agent"]) == 1 && strings.HasPrefix(uh.Get("User-Agent"), "Go-http-client/") {
			uh.Del("User-Agent")
		}
		for i, v := range uh["X-Forwarded-For"] {
			uh["X-Forwarded-For"][i] = strings.ReplaceAll(v, local, "@R")
		}
		fmt.Fprintf(&sb, "um=%s uu=%s uh=%s ub=%s", kit.Enc(h.method), kit.Enc(h.uri), encHList(fromHTTPHeader(uh)), nameBody(h.body, btok))
	}
	for _, k := range []string{"Transfer-Encoding", "Connection"} {
		ch.Del(k)
	}
	if kit.KV(a, "rfr") == "ch" { // the upstream sent no Content-Length: the front server's own framing
		ch.Del("Content-Length")
	}
	fmt.Fprintf(&sb, " cs=%d ch=%s cb=%s", cs, encHList(fromHTTPHeader(ch)), nameBody(cb, rbtok))
	return sb.String(), true
}

func classify(err error) string {
	s := err.Error()
	switch {
	case strings.Contains(s, "timeout"):
		return "timeout"
	case strings.Contains(s, "EOF"):
		return "eof"
	case strings.Contains(s, "malformed"):
		return "malformed-response"
	}
	return "other"
}

// ---------------------------------------------------------------------------------------------
// generator

var methods = []string{"GET", "POST", "PUT", "DELETE", "PATCH", "HEAD", "OPTIONS", "PROPFIND", "PURGE", "M-SEARCH", "get", "TRACE"}

// path segments: Honeycomb API vocabulary plus every kind of character RFC 3986 allows in a
// segment, raw and percent-encoded (upper and lower case hex, encoded slash, encoded '?', '#', '%').
var segPool = []string{"1", "2", "auth", "markers", "boards", "triggers", "slos", "columns", "query_results",
	"events", "batch", "teams", "my-dataset", "ds%20name", "a%2Fb", "a%2fb", "%E2%9C%93", "~user", "x.y_z",
	"a+b", "a,b;c=d", "(paren)", "!$&'*", "@:", "caf%C3%A9", "100%25", "q%3Fx", "h%23y", "...", ".hidden", "v1x", "alive2"}

var uncleanSegs = []string{"", ".", "..", "%2e%2e", "%2E", "x%2F%2Fy", "%2F"}

var queryPool = []string{"a=1&b=2", "q=a%20b", "x=%3D%26", "a[]=1&a[]=2", "k=v;k2=v2", "ts=2024-01-01T00:00:00Z",
	"a=b?c", "empty=", "=", "&&", "q=%2F..%2F", "a=1/2", "q=a+b", "flag", "x=%e2%9c%93", "limit=100&offset=0", "q=//x/../y"}

var reqHeaderPool = []string{"X-Honeycomb-Team", "X-Honeycomb-Dataset", "X-Hny-Team", "Authorization", "Accept",
	"Accept-Language", "Content-Type", "Cookie", "User-Agent", "Accept-Encoding", "X-Forwarded-Proto", "X-Request-Id",
	"Cache-Control", "If-None-Match", "Via", "X-Custom-A", "Forwarded", "Origin", "Referer", "Traceparent", "Range"}

var respHeaderPool = []string{"Cache-Control", "Etag", "Vary", "Link", "Www-Authenticate", "X-Honeycomb-Request-Id",
	"X-Ratelimit-Remaining", "Retry-After", "Access-Control-Allow-Origin", "Access-Control-Expose-Headers", "X-Custom-R",
	"Content-Language", "Last-Modified", "Ratelimit-Policy"}

var valuePool = map[string][]string{
	"Accept":                      {"application/json", "*/*", "text/html;q=0.9, */*;q=0.1", "application/msgpack"},
	"Accept-Encoding":             {"gzip", "identity", "zstd, gzip;q=0.5", "br"},
	"User-Agent":                  {"libhoney-go/1.20.0", "curl/8.1.2", "Mozilla/5.0 (X11; Linux x86_64)"},
	"Content-Type":                {"application/json", "application/json; charset=utf-8", "text/plain", "application/x-www-form-urlencoded"},
	"Cookie":                      {"a=1; b=2", "session=abc", "k=\"quoted,value\""},
	"Authorization":               {"Bearer abc.def.ghi", "Basic dXNlcjpwYXNz"},
	"Range":                       {"bytes=0-99"},
	"Cache-Control":               {"no-cache", "max-age=0", "no-store, private"},
	"Vary":                        {"Accept", "Origin", "Accept-Encoding, Origin"},
	"Access-Control-Allow-Origin": {"https://ui.honeycomb.io", "null", "*"},
	"Www-Authenticate":            {"Basic realm=\"api\"", "Bearer error=\"invalid_token\", error_description=\"x, y\""},
	"Link":                        {"</1/boards?page=2>; rel=\"next\"", "</1/boards?page=9>; rel=\"last\""},
	"Last-Modified":               {"Tue, 15 Nov 1994 12:45:26 GMT"},
	"Retry-After":                 {"120", "Fri, 31 Dec 1999 23:59:59 GMT"},
}

const valueChars = "abcdefghijklmnopqrstuvwxyzABCDEFGHIJKLMNOPQRSTUVWXYZ0123456789 ,;=:\"/()<>@[]{}?!#$%&'*+-.^_`|~\\"

func genValue(r *kit.Rng, name string) string {
	if p, ok := valuePool[name]; ok && r.Chance(75) {
		return p[r.Intn(len(p))]
	}
	if r.Chance(4) && name != "User-Agent" && name != "Accept-Encoding" {
		return ""
	}
	n := 1 + r.Intn(24)
	b := make([]byte, n)
	for i := range b {
		b[i] = valueChars[r.Intn(len(valueChars))]
	}
	return strings.Trim(string(b), " ") + "x"
}

func genVals(r *kit.Rng, name string) []string {
	n := 1 + r.Pick(75, 18, 7)
	vs := make([]string, n)
	for i := range vs {
		vs[i] = genValue(r, name)
	}
	return vs
}

var addrPool = []string{"203.0.113.7", "10.1.2.3", "2001:db8::1", "198.51.100.23, 10.0.0.1", "unknown", "192.0.2.1:4711"}

func pickDistinct(r *kit.Rng, pool []string, n int) []string {
	idx := map[int]bool{}
	var out []string
	for len(out) < n && len(out) < len(pool) {
		i := r.Intn(len(pool))
		if !idx[i] {
			idx[i] = true
			out = append(out, pool[i])
		}
	}
	return out
}

func genBody(r *kit.Rng, likelyEmpty bool) string {
	if likelyEmpty && r.Chance(85) {
		return "lit:%"
	}
	switch r.Pick(10, 50, 22, 12, 6) {
	case 0:
		return "lit:%"
	case 1:
		js := []string{`{"message":"deploy","type":"deploy","start_time":1700000000}`, `{"name":"b","queries":[]}`, `[]`, `{"a":"é\n"}`, `null`}
		return "lit:" + kit.Enc(js[r.Intn(len(js))])
	case 2:
		n := 1 + r.Intn(48)
		b := make([]byte, n)
		for i := range b {
			b[i] = byte(r.Intn(256))
		}
		return "lit:" + kit.Enc(string(b))
	case 3:
		return fmt.Sprintf("gen:%d:%d", r.Intn(1<<30), 1024+r.Intn(63*1024))
	default:
		sizes := []int{64 * 1024, 256*1024 + 1, 1<<20 - 1, 1 << 20}
		return fmt.Sprintf("gen:%d:%d", r.Intn(1<<30), sizes[r.Intn(len(sizes))])
	}
}

var statuses = []int{200, 200, 200, 200, 201, 202, 204, 206, 299, 300, 304, 400, 401, 403, 404, 405, 409, 410, 418, 422, 429, 500, 502, 503, 504, 599, 600, 999}
var redirects = []int{301, 302, 303, 307, 308}

func genOp(r *kit.Rng) string {
	method := methods[r.Pick(30, 18, 10, 8, 6, 8, 4, 3, 3, 2, 3, 3)]
	// request target
	var segs []string
	if !r.Chance(3) {
		n := 1 + r.Intn(4)
		if r.Chance(55) {
			segs = append(segs, "1")
			n--
		}
		for i := 0; i < n; i++ {
			segs = append(segs, segPool[r.Intn(len(segPool))])
		}
	}
	if r.Chance(5) { // a path the mux considers unclean
		i := r.Intn(len(segs) + 1)
		u := uncleanSegs[r.Intn(len(uncleanSegs))]
		segs = append(segs[:i], append([]string{u}, segs[i:]...)...)
		if i == len(segs)-1 && u == "" {
			segs = append(segs, "tail")
		}
	}
	path := "/" + strings.Join(segs, "/")
	if len(segs) > 0 && r.Chance(10) {
		path += "/"
	}
	// Refinery handles POST /1/events/{ds} and /1/batch/{ds} itself: not this property's paths
	if method == "POST" && len(segs) == 3 && segs[0] == "1" && (segs[1] == "events" || segs[1] == "batch") {
		method = "PUT"
	}
	target := path
	switch r.Pick(45, 5, 35, 15) {
	case 1:
		target += "?"
	case 2:
		target += "?" + queryPool[r.Intn(len(queryPool))]
	case 3:
		n := 1 + r.Intn(3)
		var kv []string
		for i := 0; i < n; i++ {
			kv = append(kv, fmt.Sprintf("k%d=%s", r.Intn(9), url.QueryEscape(genValue(r, ""))))
		}
		target += "?" + strings.Join(kv, "&")
	}
	// request headers
	var hs []hdr
	for _, name := range pickDistinct(r, reqHeaderPool, r.Pick(10, 20, 25, 20, 12, 8, 5)) {
		hs = append(hs, hdr{name, genVals(r, name)})
	}
	if r.Chance(28) {
		n := 1 + r.Pick(65, 25, 10)
		vs := make([]string, n)
		for i := range vs {
			vs[i] = addrPool[r.Intn(len(addrPool))]
		}
		if r.Chance(4) {
			vs[0] = ""
		}
		hs = append(hs, hdr{"X-Forwarded-For", vs})
	}
	body := genBody(r, method == "GET" || method == "HEAD" || method == "DELETE" || method == "OPTIONS" || method == "get")
	// Content-Encoding on the request: the proxy must relay the bytes as they are, whatever the label says
	if body != "lit:%" && r.Chance(22) {
		ce := ""
		switch r.Pick(28, 24, 16, 10, 12, 10) {
		case 0:
			ce, body = "gzip", fmt.Sprintf("gz:%d:%d", r.Intn(1<<30), 1+r.Intn(96*1024))
		case 1:
			ce, body = "zstd", fmt.Sprintf("zs:%d:%d", r.Intn(1<<30), 1+r.Intn(96*1024))
		case 2:
			ce = "gzip" // label on bytes that are not gzip
		case 3:
			ce = "zstd" // label on bytes that are not zstd
		case 4:
			ce = "deflate"
		case 5:
			ce = "identity"
		}
		hs = append(hs, hdr{"Content-Encoding", []string{ce}})
	} else if method != "GET" && method != "HEAD" && r.Chance(2) {
		// around the 5,000,000-byte cap of the router's pooled body reader (event/batch handlers)
		sizes := []int{4_999_999, 5_000_000, 5_000_001, 6 << 20}
		body = fmt.Sprintf("gen:%d:%d", r.Intn(1<<30), sizes[r.Intn(len(sizes))])
	}
	fr := "cl"
	if r.Chance(20) {
		fr = "ch"
	}
	// upstream response
	status := statuses[r.Intn(len(statuses))]
	var rhs []hdr
	if status != 304 && r.Chance(85) { // net/http servers never send Content-Type with a 304
		rhs = append(rhs, hdr{"Content-Type", genVals(r, "Content-Type")[:1]})
	}
	for _, name := range pickDistinct(r, respHeaderPool, r.Pick(25, 30, 25, 12, 8)) {
		rhs = append(rhs, hdr{name, genVals(r, name)})
	}
	if r.Chance(16) {
		n := 1 + r.Pick(50, 35, 15)
		vs := make([]string, n)
		for i := range vs {
			vs[i] = fmt.Sprintf("c%d=%d; Path=/; Expires=Wed, 21 Oct 2037 07:28:00 GMT", i, r.Intn(1000))
		}
		rhs = append(rhs, hdr{"Set-Cookie", vs})
	}
	if r.Chance(9) {
		status = redirects[r.Intn(len(redirects))]
		if r.Chance(75) {
			rhs = append(rhs, hdr{"Location", []string{followPath}})
		}
	} else if status == 201 || r.Chance(3) {
		rhs = append(rhs, hdr{"Location", []string{"https://api.honeycomb.io/1/boards/abc123"}})
	}
	rbody := genBody(r, false)
	if r.Chance(35) { // sizes around net/http's 2048-byte response buffer, where its framing decisions change
		sizes := []int{0, 1, 2047, 2048, 2049, 8 << 10, 100 << 10}
		if n := sizes[r.Intn(len(sizes))]; n == 0 {
			rbody = "lit:%"
		} else {
			rbody = fmt.Sprintf("gen:%d:%d", r.Intn(1<<30), n)
		}
	}
	if status == 204 {
		rbody = "lit:%"
	}
	if status == 304 && !strings.HasPrefix(rbody, "gen:") { // never sent; its length is the Content-Length of the 304
		rbody = "lit:%"
	}
	rfr := "cl"
	if r.Chance(25) {
		rfr = "ch"
	}
	return fmt.Sprintf("req m=%s t=%s h=%s b=%s fr=%s s=%d rh=%s rb=%s rfr=%s",
		method, kit.Enc(target), encHList(hs), body, fr, status, encHList(rhs), rbody, rfr)
}

func (comp) Gen(r *kit.Rng, maxLen int, tier string) kit.Case {
	base := "%"
	if r.Chance(30) {
		base = kit.Enc([]string{"/hny", "/api/v9"}[r.Intn(2)])
	}
	n := 2 + r.Intn(maxLen)
	ops := make([]string, n)
	for i := range ops {
		ops[i] = genOp(r)
	}
	return kit.Case{Header: "base=" + base, Ops: ops}
}

func facts() map[string]string {
	w := getWorld()
	m := map[string]string{"proxyFollowsRedirects": "0"}
	if route.VerifProxyFollowsRedirects(w.router) {
		m["proxyFollowsRedirects"] = "1"
	}
	var parts []string
	for _, h := range fromHTTPHeader(route.VerifProxyMountDefaults(w.router)) {
		vs := make([]string, len(h.vals))
		for i, v := range h.vals {
			vs[i] = strconv.Quote(v)
		}
		parts = append(parts, fmt.Sprintf("(%s, [%s])", strconv.Quote(h.name), strings.Join(vs, ", ")))
	}
	m["mountDefaults"] = "[" + strings.Join(parts, ", ") + "]"
	return m
}

func main() { kit.Main(comp{}, facts) }
