//go:build verif

// Harness for collect.StressRelief (property C15): a real StressRelief with a fake clock, real
// Start() with the periodic loop switched off, Recalc / UpdateFromConfig / the pubsub callback
// called directly in the order the op file dictates.
//
// case args: incap=<n> peercap=<n> memmax=<n>
// ops:  adv <ns>
//       local <peerq> <inq> <heap>                       set the three numerator gauges (may exceed the capacities, may be negative)
//       caps <peercap> <incap> <memmax>                  set the three denominator constants (may be 0)
//       peer <id> <level>                                deliver the message peer p<id> publishes
//       junk <k>                                         deliver malformed message number k
//       reload <mode> <act> <deact> <minNs>              MockConfig + UpdateFromConfig
//       recalc                                           Recalc()
package main

import (
	"fmt"
	"reflect"
	"sort"
	"strconv"
	"strings"
	"time"

	"github.com/honeycombio/refinery/collect"
	"github.com/honeycombio/refinery/config"
	"github.com/honeycombio/refinery/internal/peer"
	kit "github.com/honeycombio/refinery/internal/verifkit"
	"github.com/honeycombio/refinery/logger"
	"github.com/honeycombio/refinery/metrics"
	"github.com/honeycombio/refinery/pubsub"
	"github.com/jonboulle/clockwork"
)

type comp struct{}

var junkMsgs = []string{"", "a", "abc", "p1|", "p1|x", "p1|1.5", "p2|9|9", "|", "p3| 7"}

var modeNames = map[string]string{"never": "never", "monitor": "monitor", "always": "always", "empty": "", "bogus": "sometimes"}

func clampI(x, lo, hi int) int {
	if x < lo {
		return lo
	}
	if x > hi {
		return hi
	}
	return x
}

type gen struct {
	r          *kit.Rng
	now        int64
	act, deact int
	min        int64
	timeout    int64
	reports    map[int]int64
	lastRecalc int64
	ops        []string
}

func (g *gen) level() int {
	switch g.r.Pick(35, 15, 10, 40) {
	case 0:
		b := []int{g.act - 1, g.act, g.act + 1, g.deact - 1, g.deact, g.deact + 1}
		return clampI(b[g.r.Intn(len(b))], 0, 100)
	case 1:
		return 0
	case 2:
		return 100
	}
	return g.r.Intn(101)
}

func (g *gen) emit(f string, a ...any) { g.ops = append(g.ops, fmt.Sprintf(f, a...)) }

func (g *gen) reload() {
	modes := []string{"monitor", "never", "always", "empty", "bogus"}
	mode := modes[g.r.Pick(64, 13, 13, 5, 5)]
	acts := []int{90, 80, 50, 100, 0, 1, g.r.Intn(101)}
	act := acts[g.r.Intn(len(acts))]
	var deact int
	switch g.r.Pick(25, 25, 15, 10, 10, 15) {
	case 0:
		deact = clampI(act-15, 0, 100)
	case 1:
		deact = g.r.Intn(act + 1)
	case 2:
		deact = act
	case 3:
		deact = 0
	case 4:
		deact = clampI(act-1, 0, 100)
	case 5: // the order the documentation forbids and validation accepts
		deact = clampI(act+1+g.r.Intn(30), 0, 100)
	}
	mins := []int64{0, 1, 100e6, 1e9, 5e9, 10e9, 15e9}
	min := mins[g.r.Intn(len(mins))]
	if g.r.Chance(3) {
		min = -1e9
	}
	g.act, g.deact, g.min = act, deact, min
	g.emit("reload %s %d %d %d", mode, act, deact, min)
}

func (g *gen) local() {
	l := g.level()
	q := l*l + l // sqrt(q/10000)*100 lands inside [l, l+1)
	if l >= 100 {
		q = 10000 + g.r.Intn(3)*5000
	}
	if g.r.Chance(14) { // readings outside [0, capacity]: above by 1 %, 50 %, 10x; negative; zero capacity
		over := []int{10100, 15000, 100000, 10000, -5, 0}
		pick := func(scale int) int { return over[g.r.Intn(len(over))] * scale }
		switch g.r.Pick(30, 20, 20, 20, 10) {
		case 0:
			g.emit("local 0 0 %d", pick(100)) // memory_heap_allocation vs MaxAlloc (1000000)
		case 1:
			g.emit("local 0 %d 0", pick(1))
		case 2:
			g.emit("local %d 0 0", pick(1))
		case 3:
			g.emit("local %d %d %d", pick(1), pick(1), pick(100))
		case 4:
			caps := []int{0, 10000, 1000000, -10000}
			g.emit("caps %d %d %d", caps[g.r.Intn(2)], caps[g.r.Intn(2)], caps[g.r.Pick(40, 0, 50, 10)])
			g.emit("local %d %d %d", g.r.Intn(20000), g.r.Intn(20000), g.r.Intn(2000000))
			g.recalc()
			g.emit("caps 10000 10000 1000000")
			return
		}
		return
	}
	switch g.r.Pick(70, 15, 15) {
	case 0:
		g.emit("local 0 %d 0", q)
	case 1:
		g.emit("local %d %d 0", q, g.r.Intn(q+1))
	case 2:
		g.emit("local 0 %d %d", g.r.Intn(q+1)/2, g.r.Intn(1200001))
	}
}

func (g *gen) adv() {
	var d int64 = -1
	switch g.r.Pick(30, 30, 40) {
	case 0:
		var pend []int64
		for _, ts := range g.reports {
			if ts+g.timeout >= g.now {
				pend = append(pend, ts+g.timeout-g.now)
			}
		}
		sort.Slice(pend, func(i, j int) bool { return pend[i] < pend[j] })
		if len(pend) > 0 {
			d = pend[g.r.Intn(len(pend))]
		}
	case 1:
		if g.lastRecalc+g.min >= g.now {
			d = g.lastRecalc + g.min - g.now
		}
	}
	if d >= 0 {
		switch g.r.Pick(50, 30, 20) {
		case 1:
			d++
		case 2:
			if d > 0 {
				d--
			}
		}
	} else {
		ds := []int64{100e6, 100e6, 1e9, 3e9, g.timeout, int64(g.r.Intn(12000)) * 1e6, 1}
		d = ds[g.r.Intn(len(ds))]
		if g.min > 0 && g.r.Chance(25) {
			d = g.min
		}
	}
	g.now += d
	g.emit("adv %d", d)
}

func (g *gen) recalc() {
	g.reports[0] = g.now
	g.lastRecalc = g.now
	g.emit("recalc")
}

func (comp) Gen(r *kit.Rng, maxLen int, tier string) kit.Case {
	g := &gen{r: r, timeout: int64(peer.PeerEntryTimeout), reports: map[int]int64{}, act: 90, deact: 75, min: 10e9}
	n := 6 + r.Intn(maxLen)
	if !r.Chance(5) {
		g.reload()
	}
	for len(g.ops) < n {
		switch r.Pick(24, 20, 18, 22, 7, 2, 7) {
		case 0:
			g.adv()
		case 1:
			g.local()
			if r.Chance(70) {
				g.recalc()
			}
		case 2:
			id := 1 + r.Intn(3)
			if r.Chance(8) {
				id = 0 // a message carrying this node's own id
			}
			l := g.level()
			if r.Chance(6) {
				big := []int{101, 150, 250, 1000}
				l = big[r.Intn(len(big))]
			}
			g.reports[id] = g.now
			g.emit("peer %d %d", id, l)
		case 3:
			g.recalc()
		case 4:
			g.reload()
		case 5:
			g.emit("junk %d", r.Intn(len(junkMsgs)))
		case 6: // a tick of the real loop: 100 ms, recalc
			g.now += 100e6
			g.emit("adv %d", int64(100e6))
			g.recalc()
		}
	}
	g.recalc()
	return kit.Case{Header: "incap=10000 peercap=10000 memmax=1000000", Ops: g.ops}
}

type nopHealth struct{}

func (nopHealth) Register(string, time.Duration) {}
func (nopHealth) Unregister(string)              {}
func (nopHealth) Ready(string, bool)             {}

type runner struct {
	clock *clockwork.FakeClock
	t0    time.Time
	met   *metrics.MockMetrics
	cfg   *config.MockConfig
	ps    *pubsub.LocalPubSub
	sr    *collect.StressRelief
}

var meta *config.Metadata

func (comp) NewCase(h []string) kit.Runner {
	f := func(k string) float64 { v, _ := strconv.ParseFloat(kit.KV(h, k), 64); return v }
	t0 := time.Date(2024, 1, 1, 0, 0, 0, 0, time.UTC)
	r := &runner{clock: clockwork.NewFakeClockAt(t0), t0: t0, met: &metrics.MockMetrics{}, cfg: &config.MockConfig{}}
	r.met.Start()
	r.met.Store(collect.DENOMINATOR_INCOMING_CAP, f("incap"))
	r.met.Store(collect.DENOMINATOR_PEER_CAP, f("peercap"))
	r.met.Store(collect.DENOMINATOR_MEMORY_MAX_ALLOC, f("memmax"))
	r.ps = &pubsub.LocalPubSub{Metrics: r.met}
	r.ps.Start()
	r.sr = &collect.StressRelief{
		RefineryMetrics: r.met, Config: r.cfg, Logger: &logger.NullLogger{}, Health: nopHealth{},
		PubSub: r.ps, Peer: peer.NewMockPeers(nil, "p0"), Clock: r.clock, Done: make(chan struct{}),
	}
	r.sr.VerifDisableLoop()
	if err := r.sr.Start(); err != nil {
		panic(err)
	}
	return r
}

func (r *runner) ns(t time.Time) string {
	if t.IsZero() {
		return "zero"
	}
	return strconv.FormatInt(int64(t.Sub(r.t0)), 10)
}

func (r *runner) reports() string {
	rs := r.sr.VerifReports()
	type ent struct {
		id int
		s  string
	}
	var es []ent
	for _, x := range rs {
		if x.MapKey != x.Key || !strings.HasPrefix(x.Key, "p") {
			return "badkey:" + kit.Enc(x.MapKey) + "/" + kit.Enc(x.Key)
		}
		id, err := strconv.Atoi(x.Key[1:])
		if err != nil {
			return "badkey:" + kit.Enc(x.Key)
		}
		es = append(es, ent{id, fmt.Sprintf("%d:%d:%s", id, x.Level, r.ns(x.Timestamp))})
	}
	if len(es) == 0 {
		return "-"
	}
	sort.Slice(es, func(i, j int) bool { return es[i].id < es[j].id })
	ss := make([]string, len(es))
	for i, e := range es {
		ss[i] = e.s
	}
	return strings.Join(ss, ",")
}

func b01(b bool) int {
	if b {
		return 1
	}
	return 0
}

func modeName(m int) string {
	switch collect.StressReliefMode(m) {
	case collect.Never:
		return "never"
	case collect.Monitor:
		return "monitor"
	case collect.Always:
		return "always"
	}
	return "mode" + strconv.Itoa(m)
}

func gaugeStr(m *metrics.MockMetrics, name string) string {
	v, ok := m.Get(name)
	if !ok {
		return "unset"
	}
	return strconv.FormatFloat(v, 'f', -1, 64)
}

func validate(mode string, act, deact uint64, min time.Duration) string {
	if meta == nil {
		m, err := config.LoadConfigMetadata()
		if err != nil {
			return "nometa"
		}
		meta = m
	}
	res := meta.Validate(map[string]any{"General": map[string]any{"ConfigurationVersion": 2}, "StressRelief": map[string]any{
		"Mode": mode, "ActivationLevel": int(act), "DeactivationLevel": int(deact),
		"MinimumActivationDuration": min.String()}})
	if res.HasErrors() {
		return "err"
	}
	return "ok"
}

func (r *runner) Do(op []string) (string, bool) {
	i64 := func(i int) int64 { n, _ := strconv.ParseInt(op[i], 10, 64); return n }
	switch op[0] {
	case "adv":
		r.clock.Advance(time.Duration(i64(1)))
		return "", false
	case "local":
		r.met.Gauge(collect.NUMERATOR_PEER_QUEUE, float64(i64(1)))
		r.met.Gauge(collect.NUMERATOR_INCOMING_QUEUE, float64(i64(2)))
		r.met.Gauge(collect.NUMERATOR_MEMORY_HEAP_ALLOC, float64(i64(3)))
		return "", false
	case "caps":
		r.met.Store(collect.DENOMINATOR_PEER_CAP, float64(i64(1)))
		r.met.Store(collect.DENOMINATOR_INCOMING_CAP, float64(i64(2)))
		r.met.Store(collect.DENOMINATOR_MEMORY_MAX_ALLOC, float64(i64(3)))
		return "", false
	case "peer":
		r.sr.VerifOnMessage(collect.VerifStressMessage(uint(i64(2)), "p"+op[1]))
		return "reports=" + r.reports(), true
	case "junk":
		k := int(i64(1))
		if k < 0 || k >= len(junkMsgs) {
			return "bad-op", true
		}
		r.sr.VerifOnMessage(junkMsgs[k])
		return "reports=" + r.reports(), true
	case "reload":
		mode, ok := modeNames[op[1]]
		if !ok {
			return "bad-op", true
		}
		act, deact, min := uint64(i64(2)), uint64(i64(3)), time.Duration(i64(4))
		r.cfg.Mux.Lock()
		r.cfg.StressRelief = config.StressReliefConfig{Mode: mode, ActivationLevel: uint(act), DeactivationLevel: uint(deact),
			SamplingRate: 100, MinimumActivationDuration: config.Duration(min)}
		r.cfg.Mux.Unlock()
		kit.Ext("validate %s %d %d %d = %s", op[1], act, deact, int64(min), validate(mode, act, deact, min))
		r.sr.UpdateFromConfig()
		st := r.sr.VerifState()
		return fmt.Sprintf("mode=%s act=%d deact=%d min=%d on=%d", modeName(st.Mode), st.Activate, st.Deactivate,
			int64(st.MinDuration), b01(r.sr.Stressed())), true
	case "recalc":
		loc := r.sr.Recalc()
		kit.Ext("local = %d", loc)
		st := r.sr.VerifState()
		lvl := gaugeStr(r.met, "stress_level")
		if lvl != strconv.FormatUint(uint64(st.Overall), 10) {
			lvl += "/field:" + strconv.FormatUint(uint64(st.Overall), 10)
		}
		return fmt.Sprintf("local=%d cluster=%s level=%s on=%d g=%s until=%s reports=%s", loc,
			gaugeStr(r.met, "cluster_stress_level"), lvl, b01(r.sr.Stressed()),
			gaugeStr(r.met, "stress_relief_activated"), r.ns(st.StayOnUntil), r.reports()), true
	}
	return "bad-op", true
}

func (r *runner) Close() {
	close(r.sr.Done)
	r.ps.Stop()
}

func facts() map[string]string {
	m := map[string]string{"peerEntryTimeoutNs": strconv.FormatInt(int64(peer.PeerEntryTimeout), 10)}
	t := reflect.TypeOf(config.StressReliefConfig{})
	for _, p := range [][2]string{{"ActivationLevel", "defaultActivationLevel"}, {"DeactivationLevel", "defaultDeactivationLevel"}} {
		if f, ok := t.FieldByName(p[0]); ok {
			if d := f.Tag.Get("default"); d != "" {
				m[p[1]] = d
			}
		}
	}
	return m
}

func main() { kit.Main(comp{}, facts) }
