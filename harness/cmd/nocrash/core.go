//go:build verif

package main

import (
	"errors"
	"fmt"
	"strings"

	"github.com/honeycombio/refinery/config"
	"github.com/honeycombio/refinery/logger"
	"github.com/honeycombio/refinery/metrics"
	"github.com/honeycombio/refinery/sample"
	"github.com/honeycombio/refinery/types"
)

// ---------------------------------------------------------------- logger that makes os.Exit visible

// exitSentinel is what exitLogger panics with when the code under test announces that it is about
// to call os.Exit ("… Exiting.").  Every os.Exit(1) in sample/sample.go is preceded by such an
// Error().Logf, so the harness observes the termination as an outcome instead of dying.
type exitSentinel struct{ msg string }

type exitLogger struct{}
type exitEntry struct{ isErr bool }

var quietEntry = &exitEntry{}
var errEntry = &exitEntry{isErr: true}

func (exitLogger) Debug() logger.Entry       { return quietEntry }
func (exitLogger) Info() logger.Entry        { return quietEntry }
func (exitLogger) Warn() logger.Entry        { return quietEntry }
func (exitLogger) Error() logger.Entry       { return errEntry }
func (exitLogger) SetLevel(string) error     { return nil }
func (e *exitEntry) WithField(string, interface{}) logger.Entry     { return e }
func (e *exitEntry) WithString(string, string) logger.Entry         { return e }
func (e *exitEntry) WithFields(map[string]interface{}) logger.Entry { return e }
func (e *exitEntry) Logf(f string, a ...interface{}) {
	if e.isErr && strings.HasSuffix(strings.TrimSpace(f), "Exiting.") {
		panic(exitSentinel{fmt.Sprintf(f, a...)})
	}
}

// ---------------------------------------------------------------- loading

const mainYAML = "General:\n  ConfigurationVersion: 2\n"

// loadRules runs the real loader + validator on a rules file.
// verdict: accept | reject (validation errors) | loaderr (accepted by validation, refused by the decoder)
func loadRules(rules []byte) (cfg config.Config, verdict string, detail string) {
	defer func() {
		if e := recover(); e != nil {
			cfg, verdict, detail = nil, "panic", fmt.Sprint(e)
		}
	}()
	c, err := config.VerifNocrashLoad([]byte(mainYAML), rules)
	if c != nil {
		return c, "accept", ""
	}
	return nil, classifyLoadErr(err), fmt.Sprint(err)
}

// classifyLoadErr: reject = the validator reported errors; loaderr = anything else the loader refuses
func classifyLoadErr(err error) string {
	var fe *config.FileConfigError
	if errors.As(err, &fe) {
		return "reject"
	}
	return "loaderr"
}

// ---------------------------------------------------------------- outcome classification

// classify maps a recovered panic value to the small enum the model speaks.
func classify(e any) string {
	if s, ok := e.(exitSentinel); ok {
		_ = s
		return "exit"
	}
	msg := fmt.Sprint(e)
	switch {
	case strings.Contains(msg, "index out of range"):
		return "panic:index"
	case strings.Contains(msg, "integer divide by zero"):
		return "panic:divzero"
	case strings.Contains(msg, "invalid argument to Intn"):
		return "panic:intn"
	case strings.Contains(msg, "assignment to entry in nil map"):
		return "panic:nilmap"
	case strings.Contains(msg, "nil pointer dereference"):
		return "panic:nilptr"
	case strings.Contains(msg, "non-positive interval"):
		return "panic:ticker"
	case strings.Contains(msg, "makeslice") || strings.Contains(msg, "makemap") || strings.Contains(msg, "out of memory"):
		return "panic:alloc"
	}
	return "panic:other"
}

func guarded(f func()) (out string, detail string) {
	defer func() {
		if e := recover(); e != nil {
			out = classify(e)
			detail = fmt.Sprint(e)
			if len(detail) > 160 {
				detail = detail[:160]
			}
		}
	}()
	f()
	return "ok", ""
}

// ---------------------------------------------------------------- factory / sampler

type world struct {
	cfg     config.Config
	factory *sample.SamplerFactory
	sampler sample.Sampler
}

func newWorld(cfg config.Config) *world {
	f := &sample.SamplerFactory{Config: cfg, Logger: exitLogger{}, Metrics: &metrics.NullMetrics{}}
	f.Start()
	return &world{cfg: cfg, factory: f}
}

func (w *world) stop() {
	if w.factory != nil {
		w.factory.Stop()
	}
}

// start is what CollectorWorker.makeDecision does the first time it sees a sampler key.
func (w *world) start(key string) (string, string) {
	return guarded(func() {
		w.sampler = w.factory.GetSamplerImplementationForKey(key)
		w.sampler.GetKeyFields()
	})
}

// requestKeyFields is what types.newCoreFieldsUnmarshaler does for every incoming request.
func (w *world) requestKeyFields(key string) (string, string) {
	return guarded(func() {
		types.NewCoreFieldsUnmarshaler(types.CoreFieldsUnmarshalerOptions{Config: w.cfg, APIKey: "abcdefghij0123456789ab", Env: key, Dataset: "ds"})
	})
}

func mkTrace(cfg config.Config, id string, spans []map[string]any, rootIdx int) *types.Trace {
	tr := &types.Trace{TraceID: id}
	for i, m := range spans {
		sp := &types.Span{TraceID: id, Event: &types.Event{Data: types.NewPayload(cfg, m)}, IsRoot: i == rootIdx}
		tr.AddSpan(sp)
		if i == rootIdx {
			tr.RootSpan = sp
		}
	}
	return tr
}

type evalResult struct {
	out, detail string
	rate        uint
	keep        bool
	reason, key string
}

func (w *world) eval(tr *types.Trace) evalResult {
	var r evalResult
	r.out, r.detail = guarded(func() {
		r.rate, r.keep, r.reason, r.key = w.sampler.GetSampleRate(tr)
	})
	return r
}
