//go:build verif

package main

import (
	"fmt"
	"strconv"
	"strings"

	kit "github.com/honeycombio/refinery/internal/verifkit"
)

// ---------------------------------------------------------------- raw configuration (mirror of Model/Startup.lean)

// val is one scalar-or-sequence YAML value, written in op lines as
//
//	i:<int> | f:<thousandths> | s:<enc> | d:<ns> | b:0|1 | n: | l:<elem>,<elem>…   elem = s.<enc> | i.<int> | n.
type val struct {
	tag   byte // i f s d b n l
	num   string
	str   string
	elems []elem
}

type elem struct {
	tag byte // s i n
	num string
	str string
}

func vInt(s string) val    { return val{tag: 'i', num: s} }
func vFlt(m int) val       { return val{tag: 'f', num: strconv.Itoa(m)} }
func vStr(s string) val    { return val{tag: 's', str: s} }
func vDur(ns int64) val    { return val{tag: 'd', num: strconv.FormatInt(ns, 10)} }
func vBool(b bool) val     { return val{tag: 'b', num: map[bool]string{false: "0", true: "1"}[b]} }
func vNull() val           { return val{tag: 'n'} }
func vStrs(ss ...string) val {
	v := val{tag: 'l'}
	for _, s := range ss {
		v.elems = append(v.elems, elem{tag: 's', str: s})
	}
	return v
}

func (v val) token() string {
	switch v.tag {
	case 'i', 'f', 'd', 'b':
		return string(v.tag) + ":" + v.num
	case 's':
		return "s:" + kit.Enc(v.str)
	case 'n':
		return "n:"
	case 'l':
		parts := make([]string, len(v.elems))
		for i, e := range v.elems {
			switch e.tag {
			case 's':
				parts[i] = "s." + kit.Enc(e.str)
			case 'i':
				parts[i] = "i." + e.num
			default:
				parts[i] = "n."
			}
		}
		return "l:" + strings.Join(parts, ",")
	}
	return "n:"
}

func parseVal(t string) (val, bool) {
	if len(t) < 2 || t[1] != ':' {
		return val{}, false
	}
	rest := t[2:]
	switch t[0] {
	case 'i', 'f', 'd', 'b':
		return val{tag: t[0], num: rest}, true
	case 's':
		return val{tag: 's', str: kit.Dec(rest)}, true
	case 'n':
		return val{tag: 'n'}, true
	case 'l':
		v := val{tag: 'l'}
		if rest == "" {
			return v, true
		}
		for _, p := range strings.Split(rest, ",") {
			if len(p) < 2 || p[1] != '.' {
				return val{}, false
			}
			switch p[0] {
			case 's':
				v.elems = append(v.elems, elem{tag: 's', str: kit.Dec(p[2:])})
			case 'i':
				v.elems = append(v.elems, elem{tag: 'i', num: p[2:]})
			default:
				v.elems = append(v.elems, elem{tag: 'n'})
			}
		}
		return v, true
	}
	return val{}, false
}

func yamlStr(s string) string { return strconv.Quote(s) } // a Go-quoted string is a valid YAML double-quoted scalar for the alphabets used here

func fltText(milliStr string) string {
	m, _ := strconv.Atoi(milliStr)
	sign := ""
	if m < 0 {
		sign, m = "-", -m
	}
	return fmt.Sprintf("%s%d.%03d", sign, m/1000, m%1000)
}

func (v val) yaml() string {
	switch v.tag {
	case 'i':
		return v.num
	case 'f':
		return fltText(v.num)
	case 's':
		return yamlStr(v.str)
	case 'd':
		return yamlStr(v.num + "ns")
	case 'b':
		if v.num == "1" {
			return "true"
		}
		return "false"
	case 'n':
		return "null"
	case 'l':
		parts := make([]string, len(v.elems))
		for i, e := range v.elems {
			switch e.tag {
			case 's':
				parts[i] = yamlStr(e.str)
			case 'i':
				parts[i] = e.num
			default:
				parts[i] = "null"
			}
		}
		return "[" + strings.Join(parts, ", ") + "]"
	}
	return "null"
}

type field struct {
	name string
	v    val
}

type fields []field

func (f fields) tokens() string {
	parts := make([]string, len(f))
	for i, x := range f {
		parts[i] = x.name + "=" + x.v.token()
	}
	return strings.Join(parts, " ")
}

func parseFields(toks []string) (fields, map[string]string) {
	var f fields
	flags := map[string]string{}
	for _, t := range toks {
		i := strings.IndexByte(t, '=')
		if i < 0 {
			continue
		}
		k, vs := t[:i], t[i+1:]
		if v, ok := parseVal(vs); ok {
			f = append(f, field{k, v})
		} else {
			flags[k] = vs
		}
	}
	return f, flags
}

// a mapping-valued node: obj (with fields) | null | scalar
type node struct {
	shape string
	f     fields
}

type rawDown struct {
	group string
	n     node
}

type rawRule struct {
	n          node // Rules element; n.f are its scalar keys
	condsGiven bool
	conds      []node
	sampGiven  bool
	samp       []rawDown
}

type rawCfg struct {
	version    val
	hasEntry   bool
	isRules    bool
	group      string // leaf: sampler name
	n          node   // value of the entry (for rules: n.f are the RulesBasedSampler scalar keys)
	rulesGiven bool
	rules      []rawRule
}

func newRaw() *rawCfg { return &rawCfg{version: vInt("2")} }

func indent(n int) string { return strings.Repeat("  ", n) }

func writeFields(b *strings.Builder, f fields, ind int) {
	for _, x := range f {
		fmt.Fprintf(b, "%s%s: %s\n", indent(ind), x.name, x.v.yaml())
	}
}

// writeNode writes `<key>: <node>`; extra writes further keys inside an obj node (true: wrote something).
func writeNode(b *strings.Builder, key string, n node, ind int, extra func(w *strings.Builder, ind int) bool) {
	switch n.shape {
	case "null":
		fmt.Fprintf(b, "%s%s: null\n", indent(ind), key)
	case "scalar":
		fmt.Fprintf(b, "%s%s: 5\n", indent(ind), key)
	default:
		var inner strings.Builder
		writeFields(&inner, n.f, ind+1)
		wrote := len(n.f) > 0
		if extra != nil && extra(&inner, ind+1) {
			wrote = true
		}
		if !wrote {
			fmt.Fprintf(b, "%s%s: {}\n", indent(ind), key)
			return
		}
		fmt.Fprintf(b, "%s%s:\n%s", indent(ind), key, inner.String())
	}
}

// writeSeqNode writes one sequence element that is a node
func writeSeqNode(b *strings.Builder, n node, ind int, extra func(w *strings.Builder, ind int) bool) {
	switch n.shape {
	case "null":
		fmt.Fprintf(b, "%s- null\n", indent(ind))
	case "scalar":
		fmt.Fprintf(b, "%s- 5\n", indent(ind))
	default:
		var inner strings.Builder
		writeFields(&inner, n.f, ind+1)
		wrote := len(n.f) > 0
		if extra != nil && extra(&inner, ind+1) {
			wrote = true
		}
		if !wrote {
			fmt.Fprintf(b, "%s- {}\n", indent(ind))
			return
		}
		// turn the first line's indentation into "- "
		b.WriteString(indent(ind) + "- " + strings.TrimPrefix(inner.String(), indent(ind+1)))
	}
}

func (c *rawCfg) yaml() []byte {
	var b strings.Builder
	fmt.Fprintf(&b, "RulesVersion: %s\nSamplers:\n", c.version.yaml())
	if !c.hasEntry {
		b.WriteString("  __default__: {}\n")
		return []byte(b.String())
	}
	b.WriteString("  __default__:\n")
	if !c.isRules {
		writeNode(&b, c.group, c.n, 2, nil)
		return []byte(b.String())
	}
	writeNode(&b, "RulesBasedSampler", c.n, 2, func(w *strings.Builder, ind int) bool {
		if !c.rulesGiven {
			return false
		}
		if len(c.rules) == 0 {
			fmt.Fprintf(w, "%sRules: []\n", indent(ind))
			return true
		}
		fmt.Fprintf(w, "%sRules:\n", indent(ind))
		for i := range c.rules {
			r := &c.rules[i]
			writeSeqNode(w, r.n, ind+1, func(w2 *strings.Builder, ind2 int) bool {
				wrote := false
				if r.condsGiven {
					wrote = true
					if len(r.conds) == 0 {
						fmt.Fprintf(w2, "%sConditions: []\n", indent(ind2))
					} else {
						fmt.Fprintf(w2, "%sConditions:\n", indent(ind2))
						for _, cn := range r.conds {
							writeSeqNode(w2, cn, ind2+1, nil)
						}
					}
				}
				if r.sampGiven {
					wrote = true
					if len(r.samp) == 0 {
						fmt.Fprintf(w2, "%sSampler: {}\n", indent(ind2))
					} else {
						fmt.Fprintf(w2, "%sSampler:\n", indent(ind2))
						for _, d := range r.samp {
							writeNode(w2, d.group, d.n, ind2+1, nil)
						}
					}
				}
				return wrote
			})
		}
		return true
	})
	return []byte(b.String())
}

// ops that build the configuration (one line each; the oracle parses the same lines):
//
//	ver <val>
//	leaf <group> <shape> k=v …
//	rules <shape> [list=1] k=v …            list=1: the `Rules:` key is present
//	rule <shape> [conds=1] [sampler=1] k=v …
//	cond <shape> k=v …                      appended to the last rule (implies conds=1)
//	down <group> <shape> k=v …              appended to the last rule's Sampler mapping (implies sampler=1)
func (c *rawCfg) ops() []string {
	var out []string
	if c.version.token() != "i:2" {
		out = append(out, "ver "+c.version.token())
	}
	if !c.hasEntry {
		return out
	}
	join := func(parts ...string) string {
		var p []string
		for _, x := range parts {
			if x != "" {
				p = append(p, x)
			}
		}
		return strings.Join(p, " ")
	}
	if !c.isRules {
		return append(out, join("leaf", c.group, c.n.shape, c.n.f.tokens()))
	}
	lst := ""
	if c.rulesGiven {
		lst = "list=1"
	}
	out = append(out, join("rules", c.n.shape, lst, c.n.f.tokens()))
	for _, r := range c.rules {
		cg, sg := "", ""
		if r.condsGiven {
			cg = "conds=1"
		}
		if r.sampGiven {
			sg = "sampler=1"
		}
		out = append(out, join("rule", r.n.shape, cg, sg, r.n.f.tokens()))
		for _, cn := range r.conds {
			out = append(out, join("cond", cn.shape, cn.f.tokens()))
		}
		for _, d := range r.samp {
			out = append(out, join("down", d.group, d.n.shape, d.n.f.tokens()))
		}
	}
	return out
}

// apply executes one builder op; false: not a builder op
func (c *rawCfg) apply(op []string) bool {
	switch op[0] {
	case "ver":
		if len(op) > 1 {
			if v, ok := parseVal(op[1]); ok {
				c.version = v
			}
		}
	case "leaf":
		if len(op) < 3 {
			return true
		}
		f, _ := parseFields(op[3:])
		c.hasEntry, c.isRules, c.group, c.n = true, false, op[1], node{op[2], f}
	case "rules":
		if len(op) < 2 {
			return true
		}
		f, fl := parseFields(op[2:])
		c.hasEntry, c.isRules, c.n = true, true, node{op[1], f}
		c.rulesGiven = fl["list"] == "1"
		c.rules = nil
	case "rule":
		if len(op) < 2 {
			return true
		}
		f, fl := parseFields(op[2:])
		c.rulesGiven = true
		c.rules = append(c.rules, rawRule{n: node{op[1], f}, condsGiven: fl["conds"] == "1", sampGiven: fl["sampler"] == "1"})
	case "cond":
		if len(op) < 2 || len(c.rules) == 0 {
			return true
		}
		f, _ := parseFields(op[2:])
		r := &c.rules[len(c.rules)-1]
		r.condsGiven = true
		r.conds = append(r.conds, node{op[1], f})
	case "down":
		if len(op) < 3 || len(c.rules) == 0 {
			return true
		}
		f, _ := parseFields(op[3:])
		r := &c.rules[len(c.rules)-1]
		r.sampGiven = true
		r.samp = append(r.samp, rawDown{op[1], node{op[2], f}})
	default:
		return false
	}
	return true
}

// negDuration: some duration value of the document is negative.  Such a configuration is started
// in a child process: a non-positive interval reaches time.NewTicker inside a goroutine of
// dynsampler-go, which nobody can recover.
func (c *rawCfg) negDuration() bool {
	neg := func(f fields) bool {
		for _, x := range f {
			if x.v.tag == 'd' && strings.HasPrefix(x.v.num, "-") {
				return true
			}
		}
		return false
	}
	if neg(c.n.f) {
		return true
	}
	for _, r := range c.rules {
		for _, d := range r.samp {
			if neg(d.n.f) {
				return true
			}
		}
	}
	return false
}
