//go:build verif

package main

import (
	"bytes"
	"fmt"
	"os"
	"os/exec"
	"path/filepath"
	"strconv"
	"strings"
	"sync/atomic"
	"time"

	"github.com/honeycombio/refinery/config"
	kit "github.com/honeycombio/refinery/internal/verifkit"
	"github.com/honeycombio/refinery/sample"
)

// ---------------------------------------------------------------- metadata (the real rulesMeta.yaml)

var rulesMeta = func() *config.Metadata {
	m, err := config.LoadRulesMetadata()
	if err != nil {
		panic(err)
	}
	return m
}()

func metaGroup(name string) *config.Group {
	for i := range rulesMeta.Groups {
		if rulesMeta.Groups[i].Name == name {
			return &rulesMeta.Groups[i]
		}
	}
	return nil
}

// milli renders a validation argument in thousandths when it is a number
func milli(a any) int64 {
	switch x := a.(type) {
	case int:
		return int64(x) * 1000
	case int64:
		return x * 1000
	case float64:
		return int64(x * 1000)
	}
	return 0
}

func leanStrList(ss []string) string {
	q := make([]string, len(ss))
	for i, s := range ss {
		q[i] = strconv.Quote(s)
	}
	return "([" + strings.Join(q, ", ") + "] : List String)"
}

// factsA renders the metadata table as a Lean literal of type
// List (String × List (String × String × List (String × Int × List String))).
func factsA() map[string]string {
	var groups []string
	for _, g := range rulesMeta.Groups {
		var frows []string
		for _, f := range g.Fields {
			var vrows []string
			for _, v := range f.Validations {
				var sargs []string
				switch a := v.Arg.(type) {
				case string:
					sargs = []string{a}
				case []any:
					for _, x := range a {
						sargs = append(sargs, fmt.Sprint(x))
					}
				}
				if v.Type == "choice" {
					sargs = append(sargs, f.Choices...)
				}
				vrows = append(vrows, fmt.Sprintf("(%s, ((%d : Int), %s))", strconv.Quote(v.Type), milli(v.Arg), leanStrList(sargs)))
			}
			frows = append(frows, fmt.Sprintf("(%s, (%s, ([%s] : List (String × Int × List String))))",
				strconv.Quote(f.Name), strconv.Quote(f.Type), strings.Join(vrows, ", ")))
		}
		groups = append(groups, fmt.Sprintf("(%s, ([%s] : List (String × String × List (String × Int × List String))))",
			strconv.Quote(g.Name), strings.Join(frows, ", ")))
	}
	return map[string]string{"rulesMeta": "[" + strings.Join(groups, ", ") + "]"}
}

// ---------------------------------------------------------------- generator (type-directed over the metadata)

var intMenu = []string{"0", "1", "-1", "2", "10", "100", "-5", "2147483648", "4294967295", "4294967296", "4294967297",
	"-4294967296", "8589934592", "9223372036854775807", "-9223372036854775808"}
var fltMenu = []int{0, 500, 1000, 1001, -1, -500, 1500, 250}
var durMenu = []int64{0, 1, 1000, 999999, 1000000, 1000001, 1000000000, 30000000000, 15000000000, 3600000000000}
var negDurMenu = []int64{-1, -999999, -1000000, -1000000000, -300000000000}
var nameMenu = []string{"", "a", "b", "root.a", "root.", "?.NUM_DESCENDANTS", "?.", "r", "?", "http.status", "x y", "root"}

func genNames(r *kit.Rng) val {
	switch r.Pick(10, 25, 25, 10, 8, 5, 5, 4, 4, 4) {
	case 0:
		return vStrs()
	case 1:
		return vStrs(nameMenu[1+r.Intn(len(nameMenu)-1)])
	case 2:
		n := 2 + r.Intn(3)
		ss := make([]string, n)
		for i := range ss {
			ss[i] = nameMenu[1+r.Intn(len(nameMenu)-1)]
		}
		return vStrs(ss...)
	case 3:
		return vStrs("")
	case 4:
		ss := []string{"a", "b", "root.c"}
		ss[r.Intn(3)] = ""
		return vStrs(ss...)
	case 5:
		return vStrs("", "")
	case 6: // huge list
		n := 200 + r.Intn(300)
		ss := make([]string, n)
		for i := range ss {
			ss[i] = fmt.Sprintf("f%d", i)
		}
		if r.Chance(30) {
			ss[r.Intn(n)] = ""
		}
		return vStrs(ss...)
	case 7: // a non-string element
		v := vStrs("a")
		v.elems = append(v.elems, elem{tag: 'i', num: "5"})
		return v
	case 8:
		v := vStrs("a")
		v.elems = append(v.elems, elem{tag: 'n'})
		return v
	default:
		return vStrs(nameMenu[r.Intn(len(nameMenu))], nameMenu[r.Intn(len(nameMenu))])
	}
}

func wrongTyped(r *kit.Rng, ty string) val {
	cands := []val{vNull(), vStr("x"), vInt("3"), vFlt(2500), vBool(true), vStrs("a"), vDur(1000000000)}
	for tries := 0; tries < 20; tries++ {
		v := cands[r.Intn(len(cands))]
		switch {
		case ty == "int" && v.tag == 'i', ty == "float" && (v.tag == 'f' || v.tag == 'i'), ty == "string" && (v.tag == 's' || v.tag == 'd'),
			ty == "duration" && v.tag == 'd', ty == "bool" && v.tag == 'b', ty == "stringarray" && v.tag == 'l', ty == "sliceorscalar" && v.tag != 'n':
			continue
		}
		return v
	}
	return vNull()
}

// genValue picks a value for one metadata field: mostly of the right type, from the boundary menus
func genValue(r *kit.Rng, f *config.Field) (val, bool) {
	if r.Chance(2) {
		return wrongTyped(r, f.Type), true
	}
	switch f.Type {
	case "int":
		if r.Chance(40) {
			return vInt(strconv.Itoa(1 + r.Intn(50))), true
		}
		if r.Chance(6) { // not an int64: refused by every type
			return vInt([]string{"9223372036854775808", "18446744073709551615"}[r.Intn(2)]), true
		}
		return vInt(intMenu[r.Intn(len(intMenu))]), true
	case "float":
		if r.Chance(15) {
			return vInt(strconv.Itoa(r.Intn(3) - 1)), true
		}
		return vFlt(fltMenu[r.Intn(len(fltMenu))]), true
	case "duration":
		if r.Chance(60) {
			return vDur(int64(1+r.Intn(120)) * 1000000000), true
		}
		if r.Chance(12) { // negative: started in a child process (slow), so kept rare
			return vDur(negDurMenu[r.Intn(len(negDurMenu))]), true
		}
		return vDur(durMenu[r.Intn(len(durMenu))]), true
	case "bool":
		return vBool(r.Chance(50)), true
	case "stringarray":
		return genNames(r), true
	case "string":
		if len(f.Choices) > 0 {
			if r.Chance(96) {
				return vStr(f.Choices[r.Intn(len(f.Choices))]), true
			}
			return vStr("bogus"), true
		}
		return vStr(nameMenu[r.Intn(len(nameMenu))]), true
	case "sliceorscalar":
		switch r.Pick(30, 20, 10, 10, 15, 8, 7) {
		case 0:
			return vStr("v"), true
		case 1:
			return vInt(strconv.Itoa(r.Intn(600))), true
		case 2:
			return vFlt(1500), true
		case 3:
			return vBool(true), true
		case 4:
			return vStrs("a", "b"), true
		case 5:
			v := vStrs("a")
			v.elems = append(v.elems, elem{tag: 'i', num: "5"})
			return v, true
		default:
			return vStrs(), true
		}
	}
	return val{}, false // object / objectarray keys are generated structurally
}

func isRequired(f *config.Field) bool {
	for _, v := range f.Validations {
		if v.Type == "requiredInGroup" || v.Type == "required" {
			return true
		}
	}
	return false
}

func genFields(r *kit.Rng, group string) fields {
	g := metaGroup(group)
	var out fields
	if g == nil {
		return out
	}
	for i := range g.Fields {
		f := &g.Fields[i]
		if f.Name == "Field" || f.Name == "Fields" {
			continue // chosen together by genCond
		}
		if f.Type == "object" || f.Type == "objectarray" {
			continue // generated structurally (Rules, Conditions, Sampler)
		}
		present := r.Chance(45)
		if isRequired(f) {
			present = r.Chance(96)
		}
		if !present {
			continue
		}
		if v, ok := genValue(r, f); ok {
			out = append(out, field{f.Name, v})
		}
	}
	if r.Chance(1) {
		out = append(out, field{"NoSuchKey", vInt("1")})
	}
	return out
}

func genShape(r *kit.Rng, pNull, pScalar int) string {
	switch r.Pick(100-pNull-pScalar, pNull, pScalar) {
	case 1:
		return "null"
	case 2:
		return "scalar"
	}
	return "obj"
}

var dynGroups = []string{"DynamicSampler", "EMADynamicSampler", "EMAThroughputSampler", "WindowedThroughputSampler", "TotalThroughputSampler"}

func genCond(r *kit.Rng) node {
	n := node{shape: genShape(r, 6, 2)}
	if n.shape != "obj" {
		return n
	}
	n.f = genFields(r, "Conditions")
	switch r.Pick(48, 38, 4, 10) {
	case 0:
		n.f = append(fields{{"Field", vStr(nameMenu[r.Intn(len(nameMenu))])}}, n.f...)
	case 1:
		n.f = append(fields{{"Fields", genNames(r)}}, n.f...)
	case 2:
		n.f = append(fields{{"Field", vStr("a")}, {"Fields", vStrs("b")}}, n.f...)
	}
	return n
}

func genDown(r *kit.Rng) rawDown {
	g := dynGroups[r.Intn(len(dynGroups))]
	if r.Chance(5) {
		g = "DeterministicSampler"
	} else if r.Chance(3) {
		g = "NoSuchSampler"
	}
	d := rawDown{group: g, n: node{shape: genShape(r, 3, 2)}}
	if d.n.shape == "obj" {
		d.n.f = genFields(r, g)
	}
	return d
}

func genRaw(r *kit.Rng) *rawCfg {
	c := newRaw()
	if r.Chance(3) {
		c.version = []val{vInt("1"), vInt("3"), vStr("2"), vNull()}[r.Intn(4)]
	}
	switch r.Pick(4, 12, 56, 28) {
	case 0: // `__default__: {}`
		return c
	case 1:
		c.hasEntry, c.group = true, "DeterministicSampler"
		c.n = node{shape: genShape(r, 4, 2)}
		if c.n.shape == "obj" {
			c.n.f = genFields(r, c.group)
		}
	case 2:
		c.hasEntry, c.group = true, dynGroups[r.Intn(len(dynGroups))]
		if r.Chance(2) {
			c.group = "NoSuchSampler"
		} else if r.Chance(2) {
			c.group = []string{"Rules", "Conditions", "Samplers"}[r.Intn(3)] // groups of the metadata that are not sampler types
		}
		c.n = node{shape: genShape(r, 3, 2)}
		if c.n.shape == "obj" {
			c.n.f = genFields(r, c.group)
		}
	default:
		c.hasEntry, c.isRules = true, true
		c.n = node{shape: genShape(r, 5, 2)}
		if c.n.shape != "obj" {
			return c
		}
		c.n.f = genFields(r, "RulesBasedSampler")
		if r.Chance(8) {
			return c // no `Rules:` key
		}
		c.rulesGiven = true
		nr := r.Pick(8, 40, 32, 20)
		for i := 0; i < nr; i++ {
			rr := rawRule{n: node{shape: genShape(r, 6, 2)}}
			if rr.n.shape == "obj" {
				rr.n.f = genFields(r, "Rules")
				if r.Chance(55) {
					rr.condsGiven = true
					nc := r.Pick(15, 55, 30)
					for j := 0; j < nc; j++ {
						rr.conds = append(rr.conds, genCond(r))
					}
				}
				if r.Chance(50) {
					rr.sampGiven = true
					if !r.Chance(12) {
						rr.samp = append(rr.samp, genDown(r))
					}
				}
			}
			c.rules = append(c.rules, rr)
		}
	}
	return c
}

// traces the eval ops use (index into this menu)
var traceMenu = [][]map[string]any{
	{{"a": "x", "b": int64(1)}},
	{{"a": "x", "http.status": int64(500)}, {"a": "y", "b": 2.5}, {"r": true}},
	{{}},
	{},
}

func genPartA(r *kit.Rng, maxLen int) kit.Case {
	c := genRaw(r)
	ops := c.ops()
	if r.Chance(4) {
		ops = append(ops, "loadfile")
	} else {
		ops = append(ops, "load")
	}
	ops = append(ops, "reqkeys", "start")
	n := 1 + r.Intn(3)
	for i := 0; i < n; i++ {
		ops = append(ops, fmt.Sprintf("eval %d", r.Intn(len(traceMenu))))
	}
	return kit.Case{Header: "part=A", Ops: ops}
}

// ---------------------------------------------------------------- runner

var tmpRoot = func() string {
	d := os.Getenv("VERIF_TMP")
	if d == "" {
		d = "/verif/.cache/run/nocrash-tmp"
	}
	return d
}()

var caseSeq int64

type runnerA struct {
	raw     *rawCfg
	loaded  bool
	cfg     config.Config
	w       *world
	started bool
}

func (r *runnerA) Close() {
	if r.w != nil {
		sample.VerifNocrashStopAll(r.w.factory)
		r.w.stop()
	}
}

func (r *runnerA) loadFromFiles(rules []byte) (config.Config, string) {
	id := atomic.AddInt64(&caseSeq, 1)
	dir := filepath.Join(tmpRoot, fmt.Sprintf("%d-%d", os.Getpid(), id))
	os.MkdirAll(dir, 0o755)
	defer os.RemoveAll(dir)
	cp, rp := filepath.Join(dir, "config.yaml"), filepath.Join(dir, "rules.yaml")
	os.WriteFile(cp, []byte(mainYAML), 0o644)
	os.WriteFile(rp, rules, 0o644)
	var cfg config.Config
	var err error
	out, _ := guarded(func() {
		cfg, err = config.NewConfig(&config.CmdEnv{ConfigLocations: []string{cp}, RulesLocations: []string{rp}})
	})
	if out != "ok" {
		return nil, out
	}
	if cfg != nil {
		return cfg, "accept"
	}
	return nil, classifyLoadErr(err)
}

// childStart runs "load + start" in a child process (see rawCfg.negDuration)
func childStart(rules []byte) string {
	cmd := exec.Command(os.Args[0], "child")
	cmd.Stdin = bytes.NewReader(rules)
	var so, se bytes.Buffer
	cmd.Stdout, cmd.Stderr = &so, &se
	done := make(chan error, 1)
	if err := cmd.Start(); err != nil {
		return "child-error"
	}
	go func() { done <- cmd.Wait() }()
	select {
	case err := <-done:
		if err == nil {
			f := strings.Fields(so.String())
			if len(f) == 2 && f[0] == "alive" {
				return f[1]
			}
			return "child-error"
		}
		if strings.Contains(se.String(), "non-positive interval for NewTicker") {
			return "crash:ticker"
		}
		return "crash:other"
	case <-time.After(20 * time.Second):
		cmd.Process.Kill()
		return "child-hang"
	}
}

func (r *runnerA) Do(op []string) (string, bool) {
	if r.raw.apply(op) {
		return "", false
	}
	switch op[0] {
	case "load", "loadfile":
		if r.w != nil {
			sample.VerifNocrashStopAll(r.w.factory)
			r.w.stop()
			r.w = nil
		}
		r.started = false
		y := r.raw.yaml()
		if os.Getenv("VERIF_DEBUG") != "" {
			fmt.Fprintf(os.Stderr, "---- rules.yaml\n%s", y)
		}
		var verdict string
		if op[0] == "loadfile" {
			r.cfg, verdict = r.loadFromFiles(y)
		} else {
			r.cfg, verdict, _ = loadRules(y)
		}
		r.loaded = r.cfg != nil
		if r.loaded {
			r.w = newWorld(r.cfg)
		}
		return verdict, true
	case "reqkeys":
		if !r.loaded {
			return "noload", true
		}
		o, _ := r.w.requestKeyFields("env")
		return o, true
	case "start":
		if !r.loaded {
			return "noload", true
		}
		if r.raw.negDuration() {
			// first in a child: a goroutine of the third-party sampler may take the process down
			if co := childStart(r.raw.yaml()); co != "ok" {
				return co, true
			}
		}
		o, _ := r.w.start("env")
		r.started = o == "ok"
		return o, true
	case "eval":
		if !r.started {
			return "nostart", true
		}
		ti := 0
		if len(op) > 1 {
			ti, _ = strconv.Atoi(op[1])
		}
		if ti < 0 || ti >= len(traceMenu) {
			ti = 0
		}
		tr := mkTrace(r.cfg, "verif-trace", traceMenu[ti], 0)
		// which rules match is an input of the model
		if rb, ok := rulesConfigOf(r.cfg); ok {
			bits := make([]byte, len(rb.Rules))
			mo, _ := guarded(func() {
				for i, rule := range rb.Rules {
					bits[i] = '0'
					if sample.VerifNocrashRuleMatches(tr, rule, rb.CheckNestedFields) {
						bits[i] = '1'
					}
				}
			})
			if mo == "ok" {
				s := string(bits)
				if s == "" {
					s = "-"
				}
				kit.Ext("match = %s", s)
			}
		}
		res := r.w.eval(tr)
		if res.out != "ok" {
			return res.out, true
		}
		return fmt.Sprintf("ok rate=%d", res.rate), true
	}
	return "bad-op", true
}

func rulesConfigOf(cfg config.Config) (*config.RulesBasedSamplerConfig, bool) {
	c, _ := cfg.GetSamplerConfigForDestName("env")
	rb, ok := c.(*config.RulesBasedSamplerConfig)
	return rb, ok && rb != nil
}
