//go:build verif

// Harness for property C28 (no accepted configuration or request input can crash Refinery).
package main

import (
	"fmt"
	"io"
	"os"
	"time"

	kit "github.com/honeycombio/refinery/internal/verifkit"
)

type comp struct{}

// Gen: four cases in five are part A (one rules file: build, load, reqkeys, start, evals), one in
// five is part B (a stream of up to maxLen+8 malformed requests).
func (comp) Gen(r *kit.Rng, maxLen int, tier string) kit.Case {
	if r.Chance(20) {
		return genPartB(r, maxLen)
	}
	return genPartA(r, maxLen)
}

type nullRunner struct{}

func (nullRunner) Do([]string) (string, bool) { return "bad-op", true }
func (nullRunner) Close()                    {}

func (comp) NewCase(h []string) kit.Runner {
	switch kit.KV(h, "part") {
	case "A":
		return &runnerA{raw: newRaw()}
	case "B":
		return &runnerB{}
	}
	return nullRunner{}
}


// probe (debugging aid): `vh_nocrash probe < rules.yaml` prints what the real loader, the request
// path, the sampler factory and three decisions do with one rules file.
func probe() {
	data, _ := io.ReadAll(os.Stdin)
	cfg, verdict, detail := loadRules(data)
	fmt.Printf("load: %s %s\n", verdict, detail)
	if cfg == nil {
		return
	}
	w := newWorld(cfg)
	o, d := w.requestKeyFields("env")
	fmt.Printf("reqkeyfields: %s %s\n", o, d)
	o, d = w.start("env")
	fmt.Printf("start: %s %s\n", o, d)
	if o != "ok" {
		return
	}
	time.Sleep(50 * time.Millisecond)
	tr := mkTrace(cfg, "t1", []map[string]any{{"a": "x", "b": 1}}, 0)
	for i := 0; i < 3; i++ {
		r := w.eval(tr)
		fmt.Printf("eval: %s %s rate=%d keep=%v reason=%s key=%s\n", r.out, r.detail, r.rate, r.keep, r.reason, r.key)
	}
}

// child: load the rules file on stdin, start the sampler for key "env", give the goroutines the
// third-party samplers spawn time to run, say "alive".  A panic in such a goroutine cannot be
// recovered by anybody: the process dies with exit status 2 and the parent reads the reason.
func child() {
	data, _ := io.ReadAll(os.Stdin)
	cfg, verdict, _ := loadRules(data)
	if cfg == nil {
		fmt.Println("notloaded " + verdict)
		return
	}
	w := newWorld(cfg)
	o, _ := w.start("env")
	time.Sleep(150 * time.Millisecond)
	fmt.Println("alive " + o)
}

func main() {
	if len(os.Args) > 1 && os.Args[1] == "probe" {
		probe()
		return
	}
	if len(os.Args) > 1 && os.Args[1] == "child" {
		child()
		return
	}
	if len(os.Args) > 1 && os.Args[1] == "reqworker" {
		reqWorker()
		return
	}
	kit.Main(comp{}, factsA)
}
