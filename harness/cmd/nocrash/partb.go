//go:build verif

package main

// Part B of C28: a stream of malformed requests against a real route.Router built from the repo's
// mocks.  This is FUZZING in support of the search for crashing inputs, not a theorem: the oracle
// has no model of the request path (it answers `*`), its monitor only flags a panic (caught by
// panicCatcher or not) or a request that does not return within the per-request timeout.
//
//	op  req <endpoint> ct=<enc> ce=<enc> key=<none|classic|es> [sr=<enc>] [et=<enc>] body=<hex|->
//	obs st=<status> | grpc=<code> | caught-panic <msg> | panic <msg> | hang
//
// endpoints: events batch otlp-traces otlp-logs (HTTP, through the real mux and middleware chain),
// grpc-traces (customTraceExportHandler with the raw bytes, as grpc-go calls it) and grpc-logs
// (proto.Unmarshal of the bytes as grpc-go does, then LogsServer.Export).

import (
	"bufio"
	"bytes"
	"compress/gzip"
	"context"
	"encoding/binary"
	"encoding/hex"
	"encoding/json"
	"fmt"
	"io"
	"net/http"
	"net/http/httptest"
	"os"
	"os/exec"
	"runtime"
	"strconv"
	"strings"
	"sync"
	"syscall"
	"time"

	"github.com/honeycombio/refinery/collect"
	"github.com/honeycombio/refinery/config"
	kit "github.com/honeycombio/refinery/internal/verifkit"
	"github.com/honeycombio/refinery/logger"
	"github.com/honeycombio/refinery/metrics"
	"github.com/honeycombio/refinery/route"
	"github.com/honeycombio/refinery/sharder"
	"github.com/honeycombio/refinery/transmit"
	"github.com/honeycombio/refinery/types"
	"github.com/klauspost/compress/zstd"
	"github.com/vmihailenco/msgpack/v5"
	"go.opentelemetry.io/otel/trace/noop"
	collectorlogs "go.opentelemetry.io/proto/otlp/collector/logs/v1"
	collectortrace "go.opentelemetry.io/proto/otlp/collector/trace/v1"
	common "go.opentelemetry.io/proto/otlp/common/v1"
	logspb "go.opentelemetry.io/proto/otlp/logs/v1"
	resource "go.opentelemetry.io/proto/otlp/resource/v1"
	tracepb "go.opentelemetry.io/proto/otlp/trace/v1"
	"google.golang.org/grpc/metadata"
	"google.golang.org/grpc/status"
	"google.golang.org/protobuf/proto"
)

const (
	classicKey = "0123456789abcdef0123456789abcdef"
	esKey      = "abcDEFghiJKLmnoPQRstuV"
)

// ---------------------------------------------------------------- logger that notices panicCatcher

type catchLogger struct {
	mu     sync.Mutex
	caught string
}
type catchEntry struct {
	l      *catchLogger
	isErr  bool
	caught string
}

func (l *catchLogger) Debug() logger.Entry   { return &catchEntry{l: l} }
func (l *catchLogger) Info() logger.Entry    { return &catchEntry{l: l} }
func (l *catchLogger) Warn() logger.Entry    { return &catchEntry{l: l} }
func (l *catchLogger) Error() logger.Entry   { return &catchEntry{l: l, isErr: true} }
func (l *catchLogger) SetLevel(string) error { return nil }
func (e *catchEntry) WithField(k string, v interface{}) logger.Entry {
	return e.WithFields(map[string]interface{}{k: v})
}
func (e *catchEntry) WithString(k string, v string) logger.Entry { return e.WithField(k, v) }
func (e *catchEntry) WithFields(f map[string]interface{}) logger.Entry {
	if e.isErr && fmt.Sprint(f["error.msg"]) == "caught panic" {
		e.caught = fmt.Sprint(f["error.err"])
	}
	return e
}
func (e *catchEntry) Logf(string, ...interface{}) {
	if e.caught != "" {
		e.l.mu.Lock()
		e.l.caught = e.caught
		e.l.mu.Unlock()
	}
}
func (l *catchLogger) take() string {
	l.mu.Lock()
	defer l.mu.Unlock()
	c := l.caught
	l.caught = ""
	return c
}

// ---------------------------------------------------------------- collector stub (accepts everything)

type nullCollector struct{}

func (nullCollector) AddSpan(*types.Span) error                         { return nil }
func (nullCollector) AddSpanFromPeer(*types.Span) error                 { return nil }
func (nullCollector) Stressed() bool                                    { return false }
func (nullCollector) GetStressedSampleRate(string) (uint, bool, string) { return 0, false, "" }
func (nullCollector) ProcessSpanImmediately(*types.Span) (bool, bool)   { return false, false }

var _ collect.Collector = nullCollector{}

// ---------------------------------------------------------------- the world: one real router per process

type worldB struct {
	router   *route.Router
	handler  http.Handler
	up, peer *transmit.MockTransmission
	traceSrv *route.TraceServer
	logsSrv  *route.LogsServer
	log      *catchLogger
}

var (
	theWorldB *worldB
	onceB     sync.Once
)

func getWorldB() *worldB {
	onceB.Do(func() {
		w := &worldB{log: &catchLogger{}}
		conf := &config.MockConfig{
			GetListenAddrVal:     "127.0.0.1:0",
			GetPeerListenAddrVal: "127.0.0.1:0",
			GetGRPCEnabledVal:    false,
			GetHoneycombAPIVal:   "http://127.0.0.1:1",
			TraceIdFieldNames:    []string{"trace.trace_id", "traceId"},
			ParentIdFieldNames:   []string{"trace.parent_id", "parentId"},
		}
		w.up = &transmit.MockTransmission{Capacity: 1 << 18}
		w.up.Start()
		w.peer = &transmit.MockTransmission{Capacity: 1 << 18}
		w.peer.Start()
		w.router = &route.Router{
			Config:               conf,
			Logger:               w.log,
			HTTPTransport:        &http.Transport{},
			UpstreamTransmission: w.up,
			PeerTransmission:     w.peer,
			Sharder: &sharder.MockSharder{
				Self:  &sharder.TestShard{Addr: "http://self:8081"},
				Other: &sharder.TestShard{Addr: "http://other:8081"},
			},
			Collector: nullCollector{},
			Metrics:   &metrics.NullMetrics{},
			Tracer:    noop.Tracer{},
		}
		w.router.SetType(types.RouterTypeIncoming)
		w.router.LnS()
		w.router.SetEnvironmentCache(time.Hour, func(string) (string, error) { return "env1", nil })
		w.handler = route.VerifNocrashHandler(w.router)
		w.traceSrv = route.NewTraceServer(w.router)
		w.logsSrv = route.NewLogsServer(w.router)
		theWorldB = w
	})
	return theWorldB
}

func drain(ch chan *types.Event) {
	for {
		select {
		case <-ch:
		default:
			return
		}
	}
}

// ---------------------------------------------------------------- well-formed bodies to mutate

func goodEvent() map[string]any {
	return map[string]any{"trace.trace_id": "t1", "trace.parent_id": "p1", "name": "span", "n": 5, "f": 1.5, "ok": true,
		"nested": map[string]any{"a": []any{1, "x", nil}}}
}

func goodBatch(n int) []map[string]any {
	out := make([]map[string]any, n)
	for i := range out {
		out[i] = map[string]any{"time": "2024-01-02T03:04:05Z", "samplerate": 2, "data": goodEvent()}
	}
	return out
}

func encJSON(v any) []byte { b, _ := json.Marshal(v); return b }
func encMsgp(v any) []byte { b, _ := msgpack.Marshal(v); return b }

var otlpRes = &resource.Resource{Attributes: []*common.KeyValue{{Key: "service.name", Value: &common.AnyValue{Value: &common.AnyValue_StringValue{StringValue: "svc"}}}}}

func goodTraceReq(n int) *collectortrace.ExportTraceServiceRequest {
	var spans []*tracepb.Span
	for i := 0; i < n; i++ {
		spans = append(spans, &tracepb.Span{
			TraceId: []byte{1, 2, 3, 4, 5, 6, 7, 8, 9, 10, 11, 12, 13, 14, 15, byte(i)}, SpanId: []byte{1, 2, 3, 4, 5, 6, 7, byte(i + 1)}, Name: "span",
			Attributes: []*common.KeyValue{
				{Key: "k", Value: &common.AnyValue{Value: &common.AnyValue_IntValue{IntValue: int64(i)}}},
				{Key: "arr", Value: &common.AnyValue{Value: &common.AnyValue_ArrayValue{ArrayValue: &common.ArrayValue{Values: []*common.AnyValue{{Value: &common.AnyValue_StringValue{StringValue: "x"}}}}}}},
				{Key: "kv", Value: &common.AnyValue{Value: &common.AnyValue_KvlistValue{KvlistValue: &common.KeyValueList{Values: []*common.KeyValue{{Key: "in", Value: &common.AnyValue{Value: &common.AnyValue_BoolValue{BoolValue: true}}}}}}}},
			},
			Events: []*tracepb.Span_Event{{Name: "ev", TimeUnixNano: 5}},
			Links:  []*tracepb.Span_Link{{TraceId: []byte{9, 9, 9, 9, 9, 9, 9, 9, 9, 9, 9, 9, 9, 9, 9, 9}, SpanId: []byte{1, 1, 1, 1, 1, 1, 1, 1}}},
		})
	}
	return &collectortrace.ExportTraceServiceRequest{ResourceSpans: []*tracepb.ResourceSpans{{Resource: otlpRes, ScopeSpans: []*tracepb.ScopeSpans{{Spans: spans}}}}}
}

func goodLogsReq(n int) *collectorlogs.ExportLogsServiceRequest {
	var recs []*logspb.LogRecord
	for i := 0; i < n; i++ {
		recs = append(recs, &logspb.LogRecord{SeverityText: "info",
			Body:    &common.AnyValue{Value: &common.AnyValue_StringValue{StringValue: "line"}},
			TraceId: []byte{1, 2, 3, 4, 5, 6, 7, 8, 9, 10, 11, 12, 13, 14, 15, byte(i)}, SpanId: []byte{1, 2, 3, 4, 5, 6, 7, byte(i + 1)}})
	}
	return &collectorlogs.ExportLogsServiceRequest{ResourceLogs: []*logspb.ResourceLogs{{Resource: otlpRes, ScopeLogs: []*logspb.ScopeLogs{{LogRecords: recs}}}}}
}

func mustProto(m proto.Message) []byte { b, _ := proto.Marshal(m); return b }
func mustProtoJSON(m proto.Message) []byte {
	// protojson is what OTLP/HTTP JSON uses; a plain JSON rendering is close enough as a mutation seed
	b, _ := json.Marshal(m)
	return b
}

func gz(b []byte) []byte {
	var buf bytes.Buffer
	zw := gzip.NewWriter(&buf)
	zw.Write(b)
	zw.Close()
	return buf.Bytes()
}

var zenc, _ = zstd.NewWriter(nil)

func zs(b []byte) []byte { return zenc.EncodeAll(b, nil) }

// ---------------------------------------------------------------- generator

var endpointsB = []string{"events", "batch", "otlp-traces", "otlp-logs", "grpc-traces", "grpc-logs"}
var ctMenu = []string{"application/json", "application/msgpack", "application/x-msgpack", "application/protobuf", "application/x-protobuf",
	"text/plain", "", "application/json; charset=utf-8", "application/JSON", "multipart/form-data; boundary=x", "application/protobuf; foo"}
var hdrMenu = []string{"", "0", "-1", "abc", "18446744073709551616", "1e400", "NaN", " 5 ", "4294967296", "2024-13-45T99:99:99Z", "1535589382641", "-1535589382.5", "9999999999999999999999"}

func seedBody(r *kit.Rng, ep, ct string) []byte {
	n := 1 + r.Intn(3)
	switch ep {
	case "events":
		if strings.Contains(ct, "msgpack") {
			return encMsgp(goodEvent())
		}
		return encJSON(goodEvent())
	case "batch":
		if strings.Contains(ct, "msgpack") {
			return encMsgp(goodBatch(n))
		}
		return encJSON(goodBatch(n))
	case "otlp-traces", "grpc-traces":
		if strings.Contains(strings.ToLower(ct), "json") && ep == "otlp-traces" {
			return mustProtoJSON(goodTraceReq(n))
		}
		return mustProto(goodTraceReq(n))
	default:
		if strings.Contains(strings.ToLower(ct), "json") && ep == "otlp-logs" {
			return mustProtoJSON(goodLogsReq(n))
		}
		return mustProto(goodLogsReq(n))
	}
}

func be32(n uint32) []byte { b := make([]byte, 4); binary.BigEndian.PutUint32(b, n); return b }

// hostile fragments: huge msgpack / protobuf length prefixes, deep nesting, odd markers
func hostile(r *kit.Rng) []byte {
	switch r.Intn(14) {
	case 0: // msgpack array32 / map32 / str32 / bin32 / ext32 announcing 4 GiB
		return append([]byte{[]byte{0xdd, 0xdf, 0xdb, 0xc6, 0xc9}[r.Intn(5)]}, be32(0xffffffff)...)
	case 1: // msgpack array16/map16 announcing 65535 members
		return []byte{[]byte{0xdc, 0xde}[r.Intn(2)], 0xff, 0xff}
	case 2: // deeply nested msgpack arrays / maps
		d := 2000 + r.Intn(20000)
		if r.Chance(50) {
			return bytes.Repeat([]byte{0x91}, d)
		}
		return bytes.Repeat([]byte{0x81, 0xa1, 'k'}, d)
	case 3: // deeply nested JSON
		d := 2000 + r.Intn(20000)
		if r.Chance(50) {
			return bytes.Repeat([]byte{'['}, d)
		}
		return bytes.Repeat([]byte(`{"a":`), d)
	case 4: // protobuf: length-delimited field 1 with a 2^63 length varint
		return []byte{0x0a, 0xff, 0xff, 0xff, 0xff, 0xff, 0xff, 0xff, 0xff, 0x7f}
	case 5: // protobuf: nested length-delimited field 1 (ResourceSpans in ResourceSpans …) many levels
		d := 500 + r.Intn(3000)
		var b []byte
		for i := 0; i < d; i++ {
			b = append(b, 0x0a, 0x7f)
		}
		return b
	case 6: // protobuf: unterminated varint / groups
		return [][]byte{{0xff, 0xff, 0xff, 0xff, 0xff, 0xff, 0xff, 0xff, 0xff, 0xff, 0xff}, {0x0b}, {0x0c}, {0x0f, 0x01}}[r.Intn(4)]
	case 7: // msgpack never-used byte, ext types, timestamps
		return [][]byte{{0xc1}, {0xd6, 0xff, 0, 0, 0, 0}, {0xd7, 0xff, 0xff, 0xff, 0xff, 0xff, 0xff, 0xff, 0xff, 0xff}, {0xc7, 12, 0xff, 1, 2, 3, 4, 5, 6, 7, 8, 9, 10, 11, 12}, {0xd4, 5, 1}}[r.Intn(5)]
	case 8: // JSON oddities
		return [][]byte{[]byte(`{"a":1e999999}`), []byte(`{"a":"\ud800"}`), []byte(`[{"data":null}]`), []byte(`[null]`), []byte(`[[]]`), []byte(`{"data":5}`),
			[]byte(`[{"time":5,"samplerate":"x","data":{}}]`), []byte(`[{"samplerate":-1,"data":{"a":1}}]`), []byte(`[{"samplerate":18446744073709551616,"data":{}}]`),
			[]byte("\xef\xbb\xbf[]"), []byte(`nul`), []byte(`"str"`), []byte(`5`), []byte(`{"":{"":{"":[]}}}`), []byte(`{"a":1}{"b":2}`)}[r.Intn(15)]
	case 9: // msgpack batch oddities: members that are not maps, keys that are not strings
		return [][]byte{{0x91, 0xc0}, {0x91, 0x05}, {0x91, 0x81, 0x05, 0x05}, {0x91, 0x81, 0xa4, 'd', 'a', 't', 'a', 0xc0}, {0x91, 0x81, 0xa4, 'd', 'a', 't', 'a', 0x91, 0x01},
			{0x91, 0x81, 0xa4, 't', 'i', 'm', 'e', 0xcb, 0x7f, 0xf0, 0, 0, 0, 0, 0, 0}, {0x81, 0xc0, 0xc0}, {0x91, 0x81, 0xaa, 's', 'a', 'm', 'p', 'l', 'e', 'r', 'a', 't', 'e', 0xd3, 0x80, 0, 0, 0, 0, 0, 0, 0}}[r.Intn(8)]
	case 10:
		n := 1 + r.Intn(64)
		b := make([]byte, n)
		for i := range b {
			b[i] = byte(r.Intn(256))
		}
		return b
	case 11: // long run of one byte
		return bytes.Repeat([]byte{byte(r.Intn(256))}, 1000+r.Intn(30000))
	case 12: // msgpack str8/bin8 with a length longer than what follows
		return []byte{[]byte{0xd9, 0xc4}[r.Intn(2)], 0xff, 'a', 'b'}
	default: // protobuf AnyValue recursion: kvlist in kvlist …
		d := 100 + r.Intn(2000)
		var b []byte
		for i := 0; i < d; i++ {
			b = append(b, 0x32, 0x7f, 0x0a, 0x7d)
		}
		return b
	}
}

func mutate(r *kit.Rng, good []byte) []byte {
	b := append([]byte{}, good...)
	switch r.Pick(10, 18, 16, 14, 12, 10, 8, 6, 6) {
	case 0: // well-formed
	case 1: // truncated
		if len(b) > 0 {
			b = b[:r.Intn(len(b))]
		}
	case 2: // flipped bytes
		for k := 1 + r.Intn(6); k > 0 && len(b) > 0; k-- {
			b[r.Intn(len(b))] = byte(r.Intn(256))
		}
	case 3: // hostile fragment spliced in
		h := hostile(r)
		at := 0
		if len(b) > 0 {
			at = r.Intn(len(b) + 1)
		}
		b = append(append(append([]byte{}, b[:at]...), h...), b[at:]...)
	case 4: // hostile fragment alone
		b = hostile(r)
	case 5: // hostile fragment overwriting
		h := hostile(r)
		if len(b) > 0 {
			at := r.Intn(len(b))
			b = append(b[:at], h...)
		} else {
			b = h
		}
	case 6:
		b = nil
	case 7: // duplicated
		b = append(b, b...)
	default: // a region removed
		if len(b) > 2 {
			i := r.Intn(len(b) - 1)
			j := i + 1 + r.Intn(len(b)-i-1)
			b = append(b[:i], b[j:]...)
		}
	}
	return b
}

// wire applies the compression class; returns body and Content-Encoding
func wire(r *kit.Rng, b []byte) ([]byte, string) {
	switch r.Pick(40, 10, 10, 6, 6, 5, 5, 5, 4, 4, 5) {
	case 0:
		return b, ""
	case 1:
		return gz(b), "gzip"
	case 2:
		return zs(b), "zstd"
	case 3: // truncated gzip stream
		z := gz(append(append([]byte{}, b...), bytes.Repeat([]byte("padding "), 20)...))
		return z[:len(z)-1-r.Intn(len(z)/2)], "gzip"
	case 4: // truncated zstd frame
		z := zs(append(append([]byte{}, b...), bytes.Repeat([]byte("padding "), 20)...))
		return z[:len(z)-1-r.Intn(len(z)/2)], "zstd"
	case 5: // announced gzip, body plain
		return b, "gzip"
	case 6: // announced zstd, body plain
		return b, "zstd"
	case 7: // gzip header then garbage
		return append([]byte{0x1f, 0x8b, 8, 0, 0, 0, 0, 0, 0, 0xff}, hostile(r)...), "gzip"
	case 8: // zstd magic then garbage
		return append([]byte{0x28, 0xb5, 0x2f, 0xfd}, hostile(r)...), "zstd"
	case 9: // unknown / odd encodings
		return b, []string{"br", "GZIP", "deflate", "gzip, zstd", "identity"}[r.Intn(5)]
	default: // corrupted compressed stream
		z := gz(b)
		if r.Chance(50) {
			z = zs(b)
			for k := 0; k < 3; k++ {
				z[r.Intn(len(z))] ^= byte(1 + r.Intn(255))
			}
			return z, "zstd"
		}
		for k := 0; k < 3; k++ {
			z[r.Intn(len(z))] ^= byte(1 + r.Intn(255))
		}
		return z, "gzip"
	}
}

func genPartB(r *kit.Rng, maxLen int) kit.Case {
	n := 8 + r.Intn(maxLen+1)
	ops := make([]string, 0, n)
	for i := 0; i < n; i++ {
		ep := endpointsB[r.Intn(len(endpointsB))]
		var ct string
		switch {
		case r.Chance(70) && (ep == "events" || ep == "batch"):
			ct = ctMenu[r.Intn(3)]
		case r.Chance(70) && (ep == "otlp-traces" || ep == "otlp-logs"):
			ct = []string{"application/protobuf", "application/x-protobuf", "application/json"}[r.Intn(3)]
		default:
			ct = ctMenu[r.Intn(len(ctMenu))]
		}
		body := mutate(r, seedBody(r, ep, ct))
		ce := ""
		if !strings.HasPrefix(ep, "grpc") {
			body, ce = wire(r, body)
		}
		key := []string{"es", "es", "es", "classic", "none"}[r.Intn(5)]
		hx := "-"
		if len(body) > 0 {
			hx = hex.EncodeToString(body)
		}
		op := fmt.Sprintf("req %s ct=%s ce=%s key=%s", ep, kit.Enc(ct), kit.Enc(ce), key)
		if r.Chance(15) {
			op += " sr=" + kit.Enc(hdrMenu[r.Intn(len(hdrMenu))])
		}
		if r.Chance(15) {
			op += " et=" + kit.Enc(hdrMenu[r.Intn(len(hdrMenu))])
		}
		ops = append(ops, op+" body="+hx)
	}
	return kit.Case{Header: "part=B", Ops: ops}
}

// ---------------------------------------------------------------- runner

// Requests are executed in a long-lived worker process (`vh_nocrash reqworker`): some failures a
// request can provoke are not panics and cannot be recovered in process (Go's "fatal error: out of
// memory" for an absurd allocation, "fatal error: stack overflow").  The parent hands the worker one
// op line at a time; when the worker dies the op's observation is `fatal <class> <site>` and a new
// worker is started for the next op.

type worker struct {
	cmd    *exec.Cmd
	in     io.WriteCloser
	out    *bufio.Reader
	errBuf *tailBuffer
	lines  chan string
}

type tailBuffer struct {
	mu sync.Mutex
	b  []byte
}

func (t *tailBuffer) Write(p []byte) (int, error) {
	t.mu.Lock()
	defer t.mu.Unlock()
	if len(t.b) < 1<<23 {
		t.b = append(t.b, p...)
	}
	return len(p), nil
}
func (t *tailBuffer) String() string { t.mu.Lock(); defer t.mu.Unlock(); return string(t.b) }

var theWorker *worker

func startWorker() *worker {
	cmd := exec.Command(os.Args[0], "reqworker")
	in, _ := cmd.StdinPipe()
	outp, _ := cmd.StdoutPipe()
	w := &worker{cmd: cmd, in: in, errBuf: &tailBuffer{}, lines: make(chan string, 1)}
	cmd.Stderr = w.errBuf
	if err := cmd.Start(); err != nil {
		return nil
	}
	w.out = bufio.NewReaderSize(outp, 1<<16)
	go func() {
		for {
			l, err := w.out.ReadString('\n')
			if err != nil {
				close(w.lines)
				return
			}
			w.lines <- strings.TrimRight(l, "\n")
		}
	}()
	return w
}

func (w *worker) kill() {
	w.in.Close()
	w.cmd.Process.Kill()
	w.cmd.Wait()
}

// fatalClass reads the dead worker's stderr: the kind of failure and where (see hangSite)
func fatalClass(stderr string) string {
	class := "other"
	switch {
	case strings.Contains(stderr, "out of memory") || strings.Contains(stderr, "cannot allocate"):
		class = "out-of-memory"
	case strings.Contains(stderr, "stack overflow") || strings.Contains(stderr, "goroutine stack exceeds"):
		class = "stack-overflow"
	case strings.Contains(stderr, "concurrent map"):
		class = "concurrent-map"
	case strings.HasPrefix(stderr, "panic:") || strings.Contains(stderr, "\npanic:"):
		class = "panic"
	}
	return class + " " + hangSite(stderr)
}

// hangSite: in the SIGQUIT dump, the goroutine that serves the request (created by main.serve):
// its topmost frame outside the Go runtime, and its first frame inside Refinery
func hangSite(dump string) string {
	top, ref := "unknown", "unknown"
	for _, blk := range strings.Split(dump, "\n\n") {
		if !strings.Contains(blk, "main.serve.func1") {
			continue
		}
		clean := func(l string) string {
			if j := strings.LastIndex(l, "("); j > 0 {
				l = l[:j]
			}
			l = strings.TrimPrefix(l, "github.com/")
			return strings.NewReplacer("(*", "", ")", "").Replace(l)
		}
		for _, l := range strings.Split(blk, "\n") {
			if l == "" || l[0] == '\t' || l[0] == ' ' || strings.HasPrefix(l, "goroutine ") {
				continue
			}
			if strings.HasPrefix(l, "runtime.") || strings.HasPrefix(l, "internal/") || strings.HasPrefix(l, "main.") {
				continue
			}
			if top == "unknown" {
				top = clean(l)
			}
			if ref == "unknown" && strings.HasPrefix(l, "github.com/honeycombio/refinery/") {
				ref = clean(strings.TrimPrefix(l, "github.com/honeycombio/refinery/"))
			}
		}
		break
	}
	return kit.Enc(top) + " " + kit.Enc(ref)
}

type runnerB struct{}

func (r *runnerB) Close() {}

// per-request timeout (VERIF_REQ_TIMEOUT seconds; default 6)
var reqTimeout = func() time.Duration {
	if n, err := strconv.Atoi(os.Getenv("VERIF_REQ_TIMEOUT")); err == nil && n > 0 {
		return time.Duration(n) * time.Second
	}
	return 6 * time.Second
}()

func (r *runnerB) Do(op []string) (string, bool) {
	if op[0] != "req" || len(op) < 2 {
		return "bad-op", true
	}
	if theWorker == nil {
		theWorker = startWorker()
		if theWorker == nil {
			return "worker-error", true
		}
	}
	w := theWorker
	if _, err := io.WriteString(w.in, strings.Join(op, " ")+"\n"); err != nil {
		w.kill()
		theWorker = nil
		return "worker-error", true
	}
	select {
	case l, ok := <-w.lines:
		if !ok { // the worker died while serving this request
			w.cmd.Wait()
			theWorker = nil
			return "fatal " + fatalClass(w.errBuf.String()), true
		}
		if strings.HasPrefix(l, "hang ") { // the worker gave up on this request and is exiting
			w.kill()
			theWorker = nil
		}
		return l, true
	case <-time.After(reqTimeout + 20*time.Second):
		// the worker's own watchdog (see serve) did not answer either
		w.kill()
		theWorker = nil
		return "hang unknown unknown", true
	}
}

var stackBuf []byte

// reqWorker: the child side
func reqWorker() {
	stackBuf = make([]byte, 16<<20)
	// safety net on a shared machine: an allocation a request talks the code into must fail rather than be served
	var lim syscall.Rlimit
	if syscall.Getrlimit(syscall.RLIMIT_AS, &lim) == nil {
		lim.Cur = 3 << 30
		if lim.Max != 0 && lim.Cur > lim.Max {
			lim.Cur = lim.Max
		}
		syscall.Setrlimit(syscall.RLIMIT_AS, &lim)
	}
	w := getWorldB()
	sc := bufio.NewScanner(os.Stdin)
	sc.Buffer(make([]byte, 1<<20), 1<<28)
	out := bufio.NewWriter(os.Stdout)
	for sc.Scan() {
		op := strings.Fields(sc.Text())
		if len(op) == 0 {
			continue
		}
		fmt.Fprintln(out, serve(w, op))
		out.Flush()
	}
}

func serve(w *worldB, op []string) string {
	ep := op[1]
	ct, ce, key := kit.Dec(kit.KV(op, "ct")), kit.Dec(kit.KV(op, "ce")), kit.KV(op, "key")
	var body []byte
	if hx := kit.KV(op, "body"); hx != "" && hx != "-" {
		body, _ = hex.DecodeString(hx)
	}
	apiKey := ""
	switch key {
	case "classic":
		apiKey = classicKey
	case "es":
		apiKey = esKey
	}
	w.log.take()
	type result struct{ obs string }
	done := make(chan result, 1)
	go func() {
		defer func() {
			if e := recover(); e != nil {
				msg := fmt.Sprint(e)
				if len(msg) > 100 {
					msg = msg[:100]
				}
				done <- result{"panic " + kit.Enc(msg)}
			}
		}()
		switch ep {
		case "events", "batch", "otlp-traces", "otlp-logs", "selftest-panic":
			// selftest-panic (never generated): the router's own /panic endpoint, to check that a
			// panic recovered by panicCatcher is reported as such
			path := map[string]string{"events": "/1/events/ds1", "batch": "/1/batch/ds1", "otlp-traces": "/v1/traces", "otlp-logs": "/v1/logs", "selftest-panic": "/panic"}[ep]
			req := httptest.NewRequest("POST", path, bytes.NewReader(body))
			if ct != "" {
				req.Header.Set("Content-Type", ct)
			}
			if ce != "" {
				req.Header.Set("Content-Encoding", ce)
			}
			req.Header.Set("X-Honeycomb-Dataset", "ds1")
			if apiKey != "" {
				req.Header.Set(types.APIKeyHeader, apiKey)
			}
			if v := kit.KV(op, "sr"); v != "" {
				req.Header.Set(types.SampleRateHeader, kit.Dec(v))
			}
			if v := kit.KV(op, "et"); v != "" {
				req.Header.Set(types.TimestampHeader, kit.Dec(v))
			}
			rec := httptest.NewRecorder()
			w.handler.ServeHTTP(rec, req)
			done <- result{fmt.Sprintf("st=%d", rec.Code)}
		case "grpc-traces", "grpc-logs":
			md := metadata.MD{}
			md.Set("x-honeycomb-dataset", "ds1")
			if apiKey != "" {
				md.Set("x-honeycomb-team", apiKey)
			}
			if ct != "" {
				md.Set("content-type", ct)
			}
			ctx := metadata.NewIncomingContext(context.Background(), md)
			var err error
			if ep == "grpc-traces" {
				_, err = route.VerifNocrashTraceExport(w.traceSrv, ctx, body)
			} else {
				var m collectorlogs.ExportLogsServiceRequest
				if err = proto.Unmarshal(body, &m); err == nil {
					_, err = w.logsSrv.Export(ctx, &m)
				}
			}
			done <- result{fmt.Sprintf("grpc=%d", int(status.Code(err)))}
		default:
			done <- result{"bad-op"}
		}
	}()
	var obs string
	select {
	case res := <-done:
		obs = res.obs
	case <-time.After(reqTimeout):
		// Watchdog: the request did not return.  runtime.Stack(all) stops the world, so the stack of
		// the serving goroutine is available even while it is running; report where it is busy.  The
		// goroutine cannot be stopped: the parent replaces this worker.
		n := runtime.Stack(stackBuf, true)
		return "hang " + hangSite(string(stackBuf[:n]))
	}
	drain(w.up.Events)
	drain(w.peer.Events)
	if c := w.log.take(); c != "" {
		if len(c) > 100 {
			c = c[:100]
		}
		obs = "caught-panic " + kit.Enc(c) + " " + obs
	}
	return obs
}
