//go:build verif

// Harness for the shared dynsampler registry of sample.SamplerFactory (properties C12, C13).
//
// A case is a list of rules configurations (environment -> sampler definition, top-level or
// rules-based with downstream samplers), a number of simulated collector workers and a history of
//
//	get <w> <env>   worker w handles a trace for sampler key env: uses its cached sampler or asks the
//	                real SamplerFactory.GetSamplerImplementationForKey and caches it (collector_worker.go makeDecision)
//	peers <n>       the peer list now has n members, the peers callback fires
//	peersfail       the peer query now fails, the callback fires
//	setcfg <j>      the rules configuration is replaced by configuration j (config swap of a reload)
//	clear           SamplerFactory.ClearDynsamplers (first half of InMemCollector.reloadConfigs)
//	wreload <w>     worker w processes its reload signal: clears its sampler cache
//	peerset <n> / peersetfail   the peer source changes its answer, the callback has NOT run yet
//	peercb          the registered peers callback runs
//	peercb2 <n2>    two overlapping callbacks around a membership change: callback A reads the membership
//	                and is parked inside GetPeers; the source changes to n2; callback B runs (started in a
//	                goroutine, given 5 ms); A is released; both finish.  The code reads the list under the
//	                factory mutex, so B cannot commit before A: model = peercb; peerset n2; peercb.
//	reload <w> <env>  the real InMemCollector.reloadConfigs runs on a collector shell whose workers' reload
//	                channels feed the simulated worker caches; in the middle of it (StressRelief.UpdateFromConfig)
//	                worker w runs one loop iteration: handles its reload signal if it already has one, then makes
//	                a decision for env.  Afterwards every worker handles its pending signal and asks for env.
//	                ext order = the observed order of {clear, stress, signal}; obs m=<w's slots mid-reload>
//	                r=<slot ids of worker 0>/<worker 1>/…
//	feed <w> <env> <n>  worker w looks its sampler up as in `get` and asks every dynsampler behind it about n
//	                traces (GetSampleRateMulti(key,1), keys k0 k1 k2 in turn): the shared rate-tracking state counts them
//	cget <env> <k>  k fresh workers (empty caches) released by a barrier ask the real factory for the
//	                sampler of key env at the same moment; obs r=<slot ids>/<slot ids>/… one list per worker.
//	                While they run, Metrics.Register() yields and sleeps briefly (the creation path registers
//	                metrics while it builds a dynsampler) so that the goroutines really overlap.
//
// Observation of every op:  [s=<ids> k=<keys>] p=<peerCount> c=<id/cfg,…> g=<id:goal,…>
// s: per sampler slot the identity of the dynsampler instance behind the worker's sampler (small
// integers in first-seen order, '-' = no dynsampler); k: the registry key that instance is stored
// under right now ('x' = not in the registry any more); c: goal bookkeeping of the factory by
// instance; g: GoalThroughputPerSec in force for every registered instance ('-' = not a throughput sampler);
// f: events every registered instance holds in its current counting window (sum of its per-key counters, read
// from the dynsampler-go structs: currentCounts, or countList.AggregateCounts for the windowed sampler).
package main

import (
	"errors"
	"fmt"
	"reflect"
	"runtime"
	"sort"
	"strconv"
	"strings"
	"sync"
	"sync/atomic"
	"time"
	"unsafe"

	"github.com/honeycombio/refinery/collect"
	"github.com/honeycombio/refinery/config"
	kit "github.com/honeycombio/refinery/internal/verifkit"
	"github.com/honeycombio/refinery/logger"
	"github.com/honeycombio/refinery/metrics"
	"github.com/honeycombio/refinery/sample"

	dynsampler "github.com/honeycombio/dynsampler-go"
)

type comp struct{}

// ---------------------------------------------------------------- definitions and their encoding

type def struct {
	kind   string // dyn ema tot emt win det
	rate   int
	uc     bool
	tuning int
	fields []string
}

type envCfg struct {
	rules bool
	defs  []def
}

type cfgT struct {
	envs []string
	m    map[string]envCfg
}

func (d def) enc() string {
	fs := "*"
	if len(d.fields) > 0 {
		p := make([]string, len(d.fields))
		for i, f := range d.fields {
			p[i] = kit.Enc(f)
		}
		fs = strings.Join(p, "~")
	}
	uc := 0
	if d.uc {
		uc = 1
	}
	return fmt.Sprintf("%s!%d!%d!%d!%s", d.kind, d.rate, uc, d.tuning, fs)
}

func decDef(s string) def {
	p := strings.Split(s, "!")
	d := def{kind: p[0]}
	d.rate, _ = strconv.Atoi(p[1])
	d.uc = p[2] == "1"
	d.tuning, _ = strconv.Atoi(p[3])
	if p[4] != "*" {
		for _, f := range strings.Split(p[4], "~") {
			d.fields = append(d.fields, kit.Dec(f))
		}
	}
	return d
}

func (c cfgT) enc() string {
	var parts []string
	for _, e := range c.envs {
		ec := c.m[e]
		ds := make([]string, len(ec.defs))
		for i, d := range ec.defs {
			ds[i] = d.enc()
		}
		tag := "L"
		if ec.rules {
			tag = "R"
		}
		parts = append(parts, kit.Enc(e)+"|"+tag+strings.Join(ds, "^"))
	}
	return strings.Join(parts, ";")
}

func decCfg(s string) cfgT {
	c := cfgT{m: map[string]envCfg{}}
	if s == "" {
		return c
	}
	for _, part := range strings.Split(s, ";") {
		i := strings.Index(part, "|")
		e := kit.Dec(part[:i])
		body := part[i+1:]
		ec := envCfg{rules: body[0] == 'R'}
		if len(body) > 1 {
			for _, ds := range strings.Split(body[1:], "^") {
				ec.defs = append(ec.defs, decDef(ds))
			}
		}
		c.envs = append(c.envs, e)
		c.m[e] = ec
	}
	return c
}

func sec(n int) config.Duration { return config.Duration(time.Duration(n) * time.Second) }

// build turns a definition into the real configuration struct.  `tuning` selects one of six
// settings of the parameters that are not part of the registry key; different numbers give
// different configurations of the same sampler type.
func (d def) build() any {
	fl := append([]string{}, d.fields...)
	t := d.tuning
	switch d.kind {
	case "det":
		return &config.DeterministicSamplerConfig{SampleRate: d.rate}
	case "dyn":
		c := &config.DynamicSamplerConfig{SampleRate: int64(d.rate), FieldList: fl}
		switch t {
		case 1:
			c.MaxKeys = 100
		case 2:
			c.ClearFrequency = sec(10)
		case 3:
			c.UseTraceLength = true
		case 4:
			c.MaxKeys = 50
		case 5:
			c.ClearFrequency = sec(60)
			c.UseTraceLength = true
		}
		return c
	case "ema":
		c := &config.EMADynamicSamplerConfig{GoalSampleRate: d.rate, FieldList: fl}
		switch t {
		case 1:
			c.MaxKeys = 100
		case 2:
			c.AdjustmentInterval = sec(20)
		case 3:
			c.UseTraceLength = true
		case 4:
			c.Weight = 0.3
		case 5:
			c.BurstMultiple = 3
			c.BurstDetectionDelay = 5
		}
		return c
	case "tot":
		c := &config.TotalThroughputSamplerConfig{GoalThroughputPerSec: d.rate, UseClusterSize: d.uc, FieldList: fl}
		switch t {
		case 1:
			c.MaxKeys = 100
		case 2:
			c.ClearFrequency = sec(10)
		case 3:
			c.UseTraceLength = true
		case 4:
			c.MaxKeys = 50
		case 5:
			c.ClearFrequency = sec(60)
			c.UseTraceLength = true
		}
		return c
	case "emt":
		c := &config.EMAThroughputSamplerConfig{GoalThroughputPerSec: d.rate, UseClusterSize: d.uc, FieldList: fl}
		switch t {
		case 1:
			c.MaxKeys = 100
		case 2:
			c.AdjustmentInterval = sec(20)
		case 3:
			c.UseTraceLength = true
		case 4:
			c.Weight = 0.3
		case 5:
			c.InitialSampleRate = 20
			c.BurstMultiple = 3
		}
		return c
	case "win":
		c := &config.WindowedThroughputSamplerConfig{GoalThroughputPerSec: d.rate, UseClusterSize: d.uc, FieldList: fl}
		switch t {
		case 1:
			c.MaxKeys = 100
		case 2:
			c.UpdateFrequency = sec(2)
		case 3:
			c.UseTraceLength = true
		case 4:
			c.LookbackFrequency = sec(60)
		case 5:
			c.MaxKeys = 50
		}
		return c
	}
	panic("unknown kind " + d.kind)
}

func (ec envCfg) build() *config.V2SamplerChoice {
	ch := &config.V2SamplerChoice{}
	if ec.rules {
		rb := &config.RulesBasedSamplerConfig{}
		for i, d := range ec.defs {
			ds := &config.RulesBasedDownstreamSampler{}
			switch c := d.build().(type) {
			case *config.DeterministicSamplerConfig:
				ds.DeterministicSampler = c
			case *config.DynamicSamplerConfig:
				ds.DynamicSampler = c
			case *config.EMADynamicSamplerConfig:
				ds.EMADynamicSampler = c
			case *config.TotalThroughputSamplerConfig:
				ds.TotalThroughputSampler = c
			case *config.EMAThroughputSamplerConfig:
				ds.EMAThroughputSampler = c
			case *config.WindowedThroughputSamplerConfig:
				ds.WindowedThroughputSampler = c
			}
			rb.Rules = append(rb.Rules, &config.RulesBasedSamplerRule{Name: fmt.Sprintf("r%d", i), Sampler: ds})
		}
		ch.RulesBasedSampler = rb
		return ch
	}
	switch c := ec.defs[0].build().(type) {
	case *config.DeterministicSamplerConfig:
		ch.DeterministicSampler = c
	case *config.DynamicSamplerConfig:
		ch.DynamicSampler = c
	case *config.EMADynamicSamplerConfig:
		ch.EMADynamicSampler = c
	case *config.TotalThroughputSamplerConfig:
		ch.TotalThroughputSampler = c
	case *config.EMAThroughputSamplerConfig:
		ch.EMAThroughputSampler = c
	case *config.WindowedThroughputSamplerConfig:
		ch.WindowedThroughputSampler = c
	}
	return ch
}

func (c cfgT) build() map[string]*config.V2SamplerChoice {
	m := map[string]*config.V2SamplerChoice{}
	for e, ec := range c.m {
		m[e] = ec.build()
	}
	return m
}

// ---------------------------------------------------------------- generator

var kinds = []string{"dyn", "ema", "tot", "emt", "win"}
var tputKinds = []string{"tot", "emt", "win"}

func isTput(k string) bool { return k == "tot" || k == "emt" || k == "win" }

var cleanFields = []string{"http.status_code", "service.name", "a", "b", "c", "request.method"}
var cleanEnvs = []string{"prod", "dev", "x", "my env", "staging 2", "rules", "dynamic"}

func pickRate(r *kit.Rng, kind string) int {
	if isTput(kind) {
		switch r.Pick(70, 20, 4, 3, 3) {
		case 0:
			return []int{100, 50, 10, 7, 1000, 3}[r.Intn(6)]
		case 1:
			return 1 + r.Intn(20)
		case 2:
			return 1
		case 3:
			return 0 // library default (100) at creation
		default:
			return -3 // no validation on EMAThroughput / WindowedThroughput goals
		}
	}
	return []int{1, 2, 5, 10, 50, 100}[r.Intn(6)]
}

func pickFields(r *kit.Rng) []string {
	n := 1 + r.Intn(3)
	perm := []int{0, 1, 2, 3, 4, 5}
	for i := range perm {
		j := i + r.Intn(len(perm)-i)
		perm[i], perm[j] = perm[j], perm[i]
	}
	fs := make([]string, n)
	for i := range fs {
		fs[i] = cleanFields[perm[i]]
	}
	return fs
}

func randDef(r *kit.Rng) def {
	var k string
	if r.Chance(60) {
		k = tputKinds[r.Intn(3)]
	} else {
		k = kinds[r.Intn(len(kinds))]
	}
	d := def{kind: k, rate: pickRate(r, k), fields: pickFields(r), tuning: 0}
	if r.Chance(40) {
		d.tuning = r.Intn(6)
	}
	if isTput(k) {
		d.uc = r.Chance(55)
	}
	return d
}

// variant changes exactly one parameter of d.  what: 0 tuning, 1 useClusterSize, 2 rate, 3 kind,
// 4 extra field, 5 field order only (same configuration as far as sampling goes),
// 6 two fields joined with a space (collides), 8 root. prefixes toggled, 9 computed / empty names added.
func variant(r *kit.Rng, d def, what int) def {
	v := d
	v.fields = append([]string{}, d.fields...)
	switch what {
	case 0:
		v.tuning = (d.tuning + 1 + r.Intn(5)) % 6
	case 1:
		if isTput(d.kind) {
			v.uc = !d.uc
		} else {
			v.tuning = (d.tuning + 1 + r.Intn(5)) % 6
		}
	case 2:
		v.rate = d.rate + 1 + r.Intn(3)
	case 3:
		if isTput(d.kind) {
			for v.kind == d.kind {
				v.kind = tputKinds[r.Intn(3)]
			}
		} else if d.kind == "dyn" {
			v.kind = "ema"
		} else {
			v.kind = "dyn"
		}
	case 4:
		v.fields = append(v.fields, "extra.field")
	case 5:
		for i, j := 0, len(v.fields)-1; i < j; i, j = i+1, j-1 {
			v.fields[i], v.fields[j] = v.fields[j], v.fields[i]
		}
	case 8: // `root.` prefix on one or more names: a different definition (root-span value vs any span's)
		k := 1 + r.Intn(len(v.fields))
		for i := 0; i < k; i++ {
			j := r.Intn(len(v.fields))
			if strings.HasPrefix(v.fields[j], "root.") {
				v.fields[j] = strings.TrimPrefix(v.fields[j], "root.")
			} else {
				v.fields[j] = "root." + v.fields[j]
			}
		}
	case 9: // extra names that are not span fields: computed (?.) fields, an empty name
		extra := []string{"?.NUM_DESCENDANTS", "", "?.x"}
		v.fields = append(v.fields, extra[r.Intn(len(extra))])
		if r.Chance(30) {
			v.fields = append([]string{extra[r.Intn(len(extra))]}, v.fields...)
		}
	case 6:
		if len(v.fields) >= 2 {
			sort.Strings(v.fields)
			v.fields = append([]string{v.fields[0] + " " + v.fields[1]}, v.fields[2:]...)
		}
	}
	return v
}

func (comp) Gen(r *kit.Rng, maxLen int, tier string) kit.Case {
	workers := 1 + r.Intn(4)
	if workers == 1 && r.Chance(70) {
		workers = 2
	}
	// which collision classes this case may contain (none: every distinct definition has its own key)
	tuningVar := r.Chance(35)  // (a) definitions differing only in tuning / UseClusterSize
	envColl := r.Chance(20)    // (b) environment "rules:x:" vs downstream sampler of environment "x"
	fieldJoin := r.Chance(15)  // (c) FieldList ["a b"] vs ["a","b"], [""] vs []
	kindColl := r.Chance(4)    // (d) names containing ":<type>:<rate>:[" (cross-type key collision)
	base := []def{randDef(r), randDef(r)}
	if r.Chance(50) {
		base = append(base, randDef(r))
	}
	pool := append([]def{}, base...)
	for _, b := range base {
		// harmless variants: differ in a parameter that is part of the key, or only in field order
		if r.Chance(60) {
			pool = append(pool, variant(r, b, 2+r.Intn(4)))
		}
		if tuningVar {
			pool = append(pool, variant(r, b, r.Intn(2)))
			if r.Chance(40) {
				pool = append(pool, variant(r, b, r.Intn(2)))
			}
		}
		if fieldJoin && r.Chance(70) {
			if len(b.fields) >= 2 {
				pool = append(pool, variant(r, b, 6))
			} else {
				e := b
				e.fields = []string{b.fields[0], "z"}
				pool = append(pool, e, variant(r, e, 6))
				if r.Chance(40) {
					// FieldList [""] and an empty FieldList both print as "[]"
					e0, e1 := b, b
					e0.fields = nil
					e1.fields = []string{""}
					pool = append(pool, e0, e1)
				}
			}
		}
	}
	if r.Chance(35) {
		// same type and rate, field lists that differ only in `root.` prefixes or in names that are no span fields
		for _, b := range base {
			pool = append(pool, variant(r, b, 8))
			if r.Chance(50) {
				pool = append(pool, variant(r, variant(r, b, 8), 8))
			}
			if r.Chance(50) {
				pool = append(pool, variant(r, b, 9))
			}
		}
	}
	pick := func() def { return pool[r.Intn(len(pool))] }
	mkEnv := func() envCfg {
		if r.Chance(50) {
			n := 1 + r.Intn(4)
			ec := envCfg{rules: true}
			for i := 0; i < n; i++ {
				if r.Chance(8) {
					ec.defs = append(ec.defs, def{kind: "det", rate: 1 + r.Intn(10)})
				} else {
					ec.defs = append(ec.defs, pick())
				}
			}
			return ec
		}
		if r.Chance(6) {
			return envCfg{defs: []def{{kind: "det", rate: 1 + r.Intn(10)}}}
		}
		return envCfg{defs: []def{pick()}}
	}
	mkCfg := func() cfgT {
		c := cfgT{m: map[string]envCfg{}}
		add := func(e string, ec envCfg) {
			if _, ok := c.m[e]; !ok {
				c.envs = append(c.envs, e)
			}
			c.m[e] = ec
		}
		add("__default__", mkEnv())
		n := 1 + r.Intn(3)
		for i := 0; i < n; i++ {
			add(cleanEnvs[r.Intn(len(cleanEnvs))], mkEnv())
		}
		if envColl {
			d := pick()
			ec := envCfg{rules: true, defs: []def{d}}
			if r.Chance(50) {
				ec.defs = append(ec.defs, pick())
			}
			add("x", ec)
			if r.Chance(70) {
				add("rules:x:", envCfg{defs: []def{d}})
			} else {
				// the unconfigured environment "rules:x:" falls back to __default__
				add("__default__", envCfg{defs: []def{d}})
			}
		}
		if kindColl {
			// "e:dynamic:1:[x:emadynamic:2:[y]]" is the key of both of these
			add("e", envCfg{defs: []def{{kind: "dyn", rate: 1, fields: []string{"x:emadynamic:2:[y]"}}}})
			add("e:dynamic:1:[x", envCfg{defs: []def{{kind: "ema", rate: 2, fields: []string{"y]"}}}})
			if r.Chance(50) {
				// same type, different goals: "e2:totalthroughput:50:[x:totalthroughput:70:[a]" twice
				add("e2", envCfg{defs: []def{{kind: "tot", rate: 50, uc: r.Chance(70), fields: []string{"x:totalthroughput:70:[a"}}}})
				add("e2:totalthroughput:50:[x", envCfg{defs: []def{{kind: "tot", rate: 70, uc: r.Chance(70), fields: []string{"a"}}}})
			}
		}
		return c
	}
	cfgs := []cfgT{mkCfg()}
	ncfg := 1 + r.Pick(50, 35, 15)
	for len(cfgs) < ncfg {
		if r.Chance(60) {
			// same environments, one definition changed in one parameter (what a config edit looks like)
			prev := cfgs[len(cfgs)-1]
			c := cfgT{envs: append([]string{}, prev.envs...), m: map[string]envCfg{}}
			for e, ec := range prev.m {
				c.m[e] = envCfg{rules: ec.rules, defs: append([]def{}, ec.defs...)}
			}
			e := c.envs[r.Intn(len(c.envs))]
			ec := c.m[e]
			i := r.Intn(len(ec.defs))
			if ec.defs[i].kind != "det" {
				ec.defs[i] = variant(r, ec.defs[i], r.Intn(5))
			}
			c.m[e] = ec
			cfgs = append(cfgs, c)
		} else {
			cfgs = append(cfgs, mkCfg())
		}
	}
	var opEnvs []string
	seen := map[string]bool{}
	for _, c := range cfgs {
		for _, e := range c.envs {
			if e != "__default__" && !seen[e] {
				seen[e] = true
				opEnvs = append(opEnvs, e)
			}
		}
	}
	extra := []string{"other", "no such env"}
	if envColl {
		extra = append(extra, "rules:x:", "x")
	}
	for _, e := range extra {
		if !seen[e] && (r.Chance(50) || e == "rules:x:" || e == "x") {
			seen[e] = true
			opEnvs = append(opEnvs, e)
		}
	}
	peers0 := []string{"1", "1", "3", "5", "0", "f"}[r.Intn(6)]
	var ops []string
	n := 6 + r.Intn(maxLen)
	get := func() string {
		return fmt.Sprintf("get %d %s", r.Intn(workers), kit.Enc(opEnvs[r.Intn(len(opEnvs))]))
	}
	// concurrent lazy creation: k fresh workers at once, on a registry that has just been emptied
	// (start of the case, or after a reload).  Not in cases with cross-type key collisions, where the
	// outcome legitimately depends on the order of creation.
	cget := func() string {
		return fmt.Sprintf("cget %s %d", kit.Enc(opEnvs[r.Intn(len(opEnvs))]), 2+r.Intn(7))
	}
	if !kindColl && r.Chance(60) {
		ops = append(ops, cget())
	}
	for len(ops) < n {
		if !kindColl && r.Chance(7) {
			if r.Chance(80) {
				if r.Chance(50) {
					ops = append(ops, fmt.Sprintf("setcfg %d", r.Intn(len(cfgs))))
				}
				ops = append(ops, "clear")
				for w := 0; w < workers; w++ {
					ops = append(ops, fmt.Sprintf("wreload %d", w))
				}
			}
			ops = append(ops, cget())
			if r.Chance(50) {
				ops = append(ops, get())
			}
			continue
		}
		if r.Chance(4) {
			// two callbacks overlapping around a membership change
			if r.Chance(50) {
				ops = append(ops, fmt.Sprintf("peers %d", []int{1, 2, 3, 4, 7, 10}[r.Intn(6)]))
			}
			ops = append(ops, fmt.Sprintf("peercb2 %d", []int{1, 2, 3, 4, 5, 7, 10, 100, 0}[r.Intn(9)]))
			if r.Chance(50) {
				ops = append(ops, get())
			}
			continue
		}
		if r.Chance(6) {
			// a membership change whose callback is late: work happens in between
			if r.Chance(88) {
				ops = append(ops, fmt.Sprintf("peerset %d", []int{1, 2, 3, 4, 7, 10, 100}[r.Intn(7)]))
			} else if r.Chance(50) {
				ops = append(ops, "peersetfail")
			} else {
				ops = append(ops, "peerset 0")
			}
			for k := r.Intn(3); k >= 0; k-- {
				if r.Chance(50) {
					ops = append(ops, fmt.Sprintf("wreload %d", r.Intn(workers)))
				}
				ops = append(ops, get())
			}
			if r.Chance(15) {
				ops = append(ops, fmt.Sprintf("peerset %d", 1+r.Intn(5)))
			}
			ops = append(ops, "peercb")
			continue
		}
		if r.Chance(9) {
			// traffic: a worker feeds its sampler; often another worker then builds its own sampler for the same key
			w := r.Intn(workers)
			e := kit.Enc(opEnvs[r.Intn(len(opEnvs))])
			ops = append(ops, fmt.Sprintf("feed %d %s %d", w, e, 1+r.Intn(6)))
			if workers > 1 && r.Chance(60) {
				w2 := (w + 1 + r.Intn(workers-1)) % workers
				if r.Chance(30) {
					ops = append(ops, fmt.Sprintf("wreload %d", w2))
				}
				ops = append(ops, fmt.Sprintf("get %d %s", w2, e))
				if r.Chance(40) {
					ops = append(ops, fmt.Sprintf("feed %d %s %d", w2, e, 1+r.Intn(3)))
				}
			}
			continue
		}
		if r.Chance(5) {
			// a reload through the real InMemCollector.reloadConfigs
			if r.Chance(60) {
				ops = append(ops, fmt.Sprintf("setcfg %d", r.Intn(len(cfgs))))
			}
			ops = append(ops, fmt.Sprintf("reload %d %s", r.Intn(workers), kit.Enc(opEnvs[r.Intn(len(opEnvs))])))
			continue
		}
		switch r.Pick(58, 15, 3, 10, 4, 3, 3, 4) {
		case 0:
			ops = append(ops, get())
		case 1:
			ops = append(ops, fmt.Sprintf("peers %d", []int{1, 2, 3, 4, 7, 10, 100, 1000, 2000}[r.Intn(9)]))
		case 2:
			if r.Chance(50) {
				ops = append(ops, "peersfail")
			} else {
				ops = append(ops, "peers 0")
			}
		case 3: // a whole reload: [config swap,] registry clear, every worker eventually clears its cache
			if r.Chance(70) {
				ops = append(ops, fmt.Sprintf("setcfg %d", r.Intn(len(cfgs))))
				if r.Chance(25) {
					ops = append(ops, get())
				}
			}
			ops = append(ops, "clear")
			perm := make([]int, workers)
			for i := range perm {
				perm[i] = i
			}
			for i := range perm {
				j := i + r.Intn(len(perm)-i)
				perm[i], perm[j] = perm[j], perm[i]
			}
			for _, w := range perm {
				if r.Chance(30) {
					ops = append(ops, get())
				}
				if r.Chance(10) {
					ops = append(ops, fmt.Sprintf("peers %d", 1+r.Intn(5)))
				}
				ops = append(ops, fmt.Sprintf("wreload %d", w))
			}
		case 4:
			ops = append(ops, fmt.Sprintf("wreload %d", r.Intn(workers)))
		case 5:
			ops = append(ops, "clear")
		case 6:
			ops = append(ops, fmt.Sprintf("setcfg %d", r.Intn(len(cfgs))))
		case 7: // every worker asks for the same environment, in random order
			e := kit.Enc(opEnvs[r.Intn(len(opEnvs))])
			for i := 0; i < workers; i++ {
				ops = append(ops, fmt.Sprintf("get %d %s", r.Intn(workers), e))
			}
		}
	}
	h := fmt.Sprintf("workers=%d peers0=%s ncfg=%d", workers, peers0, len(cfgs))
	for i, c := range cfgs {
		h += fmt.Sprintf(" c%d=%s", i, c.enc())
	}
	return kit.Case{Header: h, Ops: ops}
}

// ---------------------------------------------------------------- runner

type fakePeers struct {
	mu        sync.Mutex
	park      bool
	parked    chan struct{}
	release   chan struct{}
	n         int
	fail      bool
	callbacks []func()
}

func (p *fakePeers) GetPeers() ([]string, error) {
	p.mu.Lock()
	fail, n := p.fail, p.n
	park := p.park
	p.park = false
	p.mu.Unlock()
	if park {
		// "park after snapshot": this caller has read the membership and is held before it returns
		close(p.parked)
		<-p.release
	}
	if fail {
		return nil, errors.New("peer query failed")
	}
	out := make([]string, n)
	for i := range out {
		out[i] = fmt.Sprintf("http://peer%d:8081", i)
	}
	return out, nil
}
func (p *fakePeers) set(n int, fail bool) {
	p.mu.Lock()
	p.n, p.fail = n, fail
	p.mu.Unlock()
}
func (p *fakePeers) GetInstanceID() (string, error)         { return "http://peer0:8081", nil }
func (p *fakePeers) RegisterUpdatedPeersCallback(cb func()) { p.callbacks = append(p.callbacks, cb) }
func (p *fakePeers) Ready() error                           { return nil }
func (p *fakePeers) Start() error                           { return nil }
func (p *fakePeers) fire() {
	for _, cb := range p.callbacks {
		cb()
	}
}

// slowMetrics is NullMetrics whose Register() yields and pauses while `slow` is set: scheduling
// noise of the environment, placed where the real creation path calls out while building a dynsampler.
type slowMetrics struct {
	metrics.NullMetrics
	slow atomic.Bool
}

func (m *slowMetrics) Register(md metrics.Metadata) {
	if m.slow.Load() {
		runtime.Gosched()
		time.Sleep(200 * time.Microsecond)
	}
}

type runner struct {
	col     *collect.VerifSamplerregCollector
	met     *slowMetrics
	cfgs    []cfgT
	mock    *config.MockConfig
	f       *sample.SamplerFactory
	peers   *fakePeers
	workers []map[string]sample.Sampler
	ids     map[any]int
	seen    []any
}

func newFactory(samplers map[string]*config.V2SamplerChoice, p *fakePeers) (*sample.SamplerFactory, *config.MockConfig, *slowMetrics) {
	mock := &config.MockConfig{Samplers: samplers}
	met := &slowMetrics{}
	f := &sample.SamplerFactory{Config: mock, Logger: &logger.NullLogger{}, Metrics: met, Peers: p}
	f.Start()
	return f, mock, met
}

func (comp) NewCase(h []string) kit.Runner {
	r := &runner{ids: map[any]int{}}
	nw, _ := strconv.Atoi(kit.KV(h, "workers"))
	nc, _ := strconv.Atoi(kit.KV(h, "ncfg"))
	for i := 0; i < nc; i++ {
		r.cfgs = append(r.cfgs, decCfg(kit.KV(h, fmt.Sprintf("c%d", i))))
	}
	if len(r.cfgs) == 0 {
		r.cfgs = []cfgT{{m: map[string]envCfg{}}}
	}
	r.peers = &fakePeers{}
	r.f, r.mock, r.met = newFactory(r.cfgs[0].build(), r.peers)
	for i := 0; i < nw; i++ {
		r.workers = append(r.workers, map[string]sample.Sampler{})
	}
	r.col = collect.VerifSamplerregNewCollector(r.f, nw)
	// start-up: the peer implementation announces the initial membership
	switch p0 := kit.KV(h, "peers0"); p0 {
	case "f":
		r.peers.fail = true
	default:
		r.peers.n, _ = strconv.Atoi(p0)
	}
	r.peers.fire()
	return r
}

func (r *runner) id(inst any) int {
	if n, ok := r.ids[inst]; ok {
		return n
	}
	n := len(r.seen)
	r.ids[inst] = n
	r.seen = append(r.seen, inst)
	return n
}

// countedEvents reads the rate-tracking state of a dynsampler: the events it has counted in its
// current window, summed over keys.  The fields are unexported in dynsampler-go; they are read (under
// the sampler's own lock) through reflect/unsafe, nothing is written.
func countedEvents(inst any) (n int, ok bool) {
	defer func() {
		if recover() != nil {
			n, ok = -1, true
		}
	}()
	v := reflect.ValueOf(inst)
	if v.Kind() != reflect.Ptr || v.IsNil() {
		return 0, false
	}
	e := v.Elem()
	if lk := e.FieldByName("lock"); lk.IsValid() && lk.Type() == reflect.TypeOf(sync.Mutex{}) {
		mu := (*sync.Mutex)(unsafe.Pointer(lk.UnsafeAddr()))
		mu.Lock()
		defer mu.Unlock()
	}
	if f := e.FieldByName("currentCounts"); f.IsValid() && f.Kind() == reflect.Map {
		sum := 0.0
		it := f.MapRange()
		for it.Next() {
			if val := it.Value(); val.Kind() == reflect.Float64 {
				sum += val.Float()
			} else {
				sum += float64(val.Int())
			}
		}
		return int(sum), true
	}
	if f := e.FieldByName("countList"); f.IsValid() {
		bl := *(*dynsampler.BlockList)(unsafe.Pointer(f.UnsafeAddr()))
		if bl == nil {
			return 0, true
		}
		sum := 0
		for _, c := range bl.AggregateCounts(1<<62, 1<<62) { // every block, nothing dropped
			sum += c
		}
		return sum, true
	}
	return 0, false
}

func goalOf(inst any) (int, bool) {
	switch t := inst.(type) {
	case *dynsampler.TotalThroughput:
		return t.GoalThroughputPerSec, true
	case *dynsampler.EMAThroughput:
		return t.GoalThroughputPerSec, true
	case *dynsampler.WindowedThroughput:
		g := t.GoalThroughputPerSec
		if g != float64(int(g)) {
			return -999999, true
		}
		return int(g), true
	}
	return 0, false
}

func join(xs []string) string {
	if len(xs) == 0 {
		return "-"
	}
	return strings.Join(xs, ",")
}

// tail prints the factory's state; slots (may be nil) are numbered first so that instance numbers
// follow first-seen order of the sampler slots.
func (r *runner) tail(slots []any) string {
	reg, goals, pc := sample.VerifSamplerregRegistry(r.f)
	var s, k []string
	for _, in := range slots {
		if in == nil {
			s = append(s, "-")
			k = append(k, "-")
			continue
		}
		s = append(s, strconv.Itoa(r.id(in)))
		key := "x"
		for rk, ri := range reg {
			if ri == in {
				key = kit.Enc(rk)
			}
		}
		k = append(k, key)
	}
	keys := make([]string, 0, len(reg))
	for rk := range reg {
		keys = append(keys, rk)
	}
	sort.Strings(keys)
	type row struct {
		id   int
		text string
	}
	var g, c, fe []row
	for _, rk := range keys {
		in := reg[rk]
		id := r.id(in)
		if n, ok := countedEvents(in); ok {
			fe = append(fe, row{id, fmt.Sprintf("%d:%d", id, n)})
		}
		if gv, ok := goalOf(in); ok {
			g = append(g, row{id, fmt.Sprintf("%d:%d", id, gv)})
		} else {
			g = append(g, row{id, fmt.Sprintf("%d:-", id)})
		}
	}
	for gk, gv := range goals {
		if in, ok := reg[gk]; ok {
			id := r.id(in)
			c = append(c, row{id, fmt.Sprintf("%d/%d", id, gv)})
		} else {
			c = append(c, row{1 << 30, fmt.Sprintf("?/%d", gv)})
		}
	}
	sort.Slice(g, func(i, j int) bool { return g[i].id < g[j].id })
	sort.Slice(c, func(i, j int) bool { return c[i].id < c[j].id || c[i].id == c[j].id && c[i].text < c[j].text })
	gs := make([]string, len(g))
	for i := range g {
		gs[i] = g[i].text
	}
	cs := make([]string, len(c))
	for i := range c {
		cs[i] = c[i].text
	}
	sort.Slice(fe, func(i, j int) bool { return fe[i].id < fe[j].id })
	fs := make([]string, len(fe))
	for i := range fe {
		fs[i] = fe[i].text
	}
	out := fmt.Sprintf("p=%d c=%s g=%s f=%s", pc, join(cs), join(gs), join(fs))
	if slots != nil {
		out = fmt.Sprintf("s=%s k=%s ", join(s), join(k)) + out
	}
	return out
}

// workerGet is collector_worker.go makeDecision's sampler lookup: cached sampler, else create and cache.
func (r *runner) workerGet(w int, env string) sample.Sampler {
	s, found := r.workers[w][env]
	if !found {
		s = r.f.GetSamplerImplementationForKey(env)
		r.workers[w][env] = s
	}
	return s
}

func (r *runner) slotIDs(s sample.Sampler) string {
	if s == nil {
		return "nil"
	}
	var ids []string
	for _, x := range sample.VerifSamplerregInstances(s) {
		if x == nil {
			ids = append(ids, "-")
		} else {
			ids = append(ids, strconv.Itoa(r.id(x)))
		}
	}
	return join(ids)
}

func (r *runner) Do(op []string) (string, bool) {
	switch op[0] {
	case "feed":
		w, _ := strconv.Atoi(op[1])
		env := kit.Dec(op[2])
		n, _ := strconv.Atoi(op[3])
		if w < 0 || w >= len(r.workers) {
			return "bad-op", true
		}
		if _, found := r.workers[w][env]; !found {
			if c, _ := r.mock.GetSamplerConfigForDestName(env); c == nil {
				return "exit", true
			}
		}
		sm := r.workerGet(w, env)
		if sm == nil {
			return "nil-sampler", true
		}
		insts := sample.VerifSamplerregInstances(sm)
		for _, in := range insts {
			if ds, ok := in.(dynsampler.Sampler); ok && in != nil {
				for i := 0; i < n; i++ {
					ds.GetSampleRateMulti(fmt.Sprintf("k%d", i%3), 1)
				}
			}
		}
		return r.tail(insts), true
	case "peerset":
		n, _ := strconv.Atoi(op[1])
		r.peers.set(n, false)
		return r.tail(nil), true
	case "peersetfail":
		r.peers.set(0, true)
		return r.tail(nil), true
	case "peercb":
		r.peers.fire()
		return r.tail(nil), true
	case "peercb2":
		n2, _ := strconv.Atoi(op[1])
		p := r.peers
		p.mu.Lock()
		p.park, p.parked, p.release = true, make(chan struct{}), make(chan struct{})
		p.mu.Unlock()
		doneA, doneB := make(chan struct{}), make(chan struct{})
		go func() { defer close(doneA); p.fire() }()
		select {
		case <-p.parked:
		case <-time.After(5 * time.Second):
			return "callback-did-not-query-peers", true
		}
		p.set(n2, false)
		go func() { defer close(doneB); p.fire() }()
		select {
		case <-doneB:
		case <-time.After(5 * time.Millisecond): // B is waiting for the factory mutex
		}
		close(p.release)
		<-doneA
		<-doneB
		return r.tail(nil), true
	case "reload":
		w, _ := strconv.Atoi(op[1])
		env := kit.Dec(op[2])
		if w < 0 || w >= len(r.workers) {
			return "bad-op", true
		}
		if c, _ := r.mock.GetSamplerConfigForDestName(env); c == nil {
			return "exit", true
		}
		sample.VerifSamplerregSentinel(r.f, true)
		var order []string
		anyPending := func() bool {
			for i := range r.workers {
				if r.col.Pending(i) {
					return true
				}
			}
			return false
		}
		mid := ""
		r.col.Reload(func() {
			if !sample.VerifSamplerregHasSentinel(r.f) {
				order = append(order, "clear")
			}
			if anyPending() {
				order = append(order, "signal")
			}
			order = append(order, "stress")
			// one iteration of worker w's loop: the reload signal if there is one, then a decision
			if r.col.TakeSignal(w) {
				clear(r.workers[w])
			}
			mid = r.slotIDs(r.workerGet(w, env))
		})
		has := func(x string) bool {
			for _, o := range order {
				if o == x {
					return true
				}
			}
			return false
		}
		if !has("clear") && !sample.VerifSamplerregHasSentinel(r.f) {
			order = append(order, "clear")
		}
		if !has("signal") && anyPending() {
			order = append(order, "signal")
		}
		sample.VerifSamplerregSentinel(r.f, false)
		kit.Ext("order = %s", strings.Join(order, ","))
		// the reload is over: every worker gets round to its signal, then to a decision for env
		for i := range r.workers {
			if r.col.TakeSignal(i) {
				clear(r.workers[i])
			}
		}
		var lists []string
		for i := range r.workers {
			lists = append(lists, r.slotIDs(r.workerGet(i, env)))
		}
		return "m=" + mid + " r=" + strings.Join(lists, "/") + " " + r.tail(nil), true
	case "get":
		w, _ := strconv.Atoi(op[1])
		env := kit.Dec(op[2])
		if w < 0 || w >= len(r.workers) {
			return "bad-op", true
		}
		// collector_worker.go makeDecision: use the cached sampler, else create and cache it
		s, found := r.workers[w][env]
		if !found {
			if c, _ := r.mock.GetSamplerConfigForDestName(env); c == nil {
				return "exit", true // createSampler(nil) logs and calls os.Exit(1)
			}
			s = r.f.GetSamplerImplementationForKey(env)
			r.workers[w][env] = s
		}
		if s == nil {
			return "nil-sampler", true
		}
		return r.tail(sample.VerifSamplerregInstances(s)), true
	case "cget":
		env := kit.Dec(op[1])
		k, _ := strconv.Atoi(op[2])
		if k < 1 || k > 16 {
			return "bad-op", true
		}
		if c, _ := r.mock.GetSamplerConfigForDestName(env); c == nil {
			return "exit", true
		}
		res := make([]sample.Sampler, k)
		start := make(chan struct{})
		var wg sync.WaitGroup
		r.met.slow.Store(true)
		for i := 0; i < k; i++ {
			wg.Add(1)
			go func(i int) {
				defer wg.Done()
				<-start
				// a worker with an empty cache: makeDecision goes straight to the factory
				res[i] = r.f.GetSamplerImplementationForKey(env)
			}(i)
		}
		close(start)
		wg.Wait()
		r.met.slow.Store(false)
		var lists []string
		var first []any
		for i := 0; i < k; i++ {
			if res[i] == nil {
				lists = append(lists, "nil")
				continue
			}
			in := sample.VerifSamplerregInstances(res[i])
			if i == 0 {
				first = in
			}
			var ids []string
			for _, x := range in {
				if x == nil {
					ids = append(ids, "-")
				} else {
					ids = append(ids, strconv.Itoa(r.id(x)))
				}
			}
			lists = append(lists, join(ids))
		}
		_ = first
		return "r=" + strings.Join(lists, "/") + " " + r.tail(nil), true
	case "peers":
		n, _ := strconv.Atoi(op[1])
		r.peers.fail = false
		r.peers.n = n
		r.peers.fire()
		return r.tail(nil), true
	case "peersfail":
		r.peers.fail = true
		r.peers.fire()
		return r.tail(nil), true
	case "setcfg":
		j, _ := strconv.Atoi(op[1])
		if j < 0 || j >= len(r.cfgs) {
			return "bad-op", true
		}
		m := r.cfgs[j].build()
		r.mock.Mux.Lock()
		r.mock.Samplers = m
		r.mock.Mux.Unlock()
		return r.tail(nil), true
	case "clear":
		r.f.ClearDynsamplers()
		return r.tail(nil), true
	case "wreload":
		w, _ := strconv.Atoi(op[1])
		if w < 0 || w >= len(r.workers) {
			return "bad-op", true
		}
		clear(r.workers[w])
		return r.tail(nil), true
	}
	return "bad-op", true
}

func (r *runner) Close() {
	// the tickers of the dynsamplers would otherwise outlive the case
	for _, in := range r.seen {
		if st, ok := in.(interface{ Stop() error }); ok {
			func() {
				defer func() { recover() }()
				st.Stop()
			}()
		}
	}
}

// ---------------------------------------------------------------- facts (constants of the key format, read off the real code)

func facts() map[string]string {
	out := map[string]string{}
	p := &fakePeers{n: 1}
	probe := func(d def, rules bool, env string) (string, any) {
		ec := envCfg{rules: rules, defs: []def{d}}
		f, _, _ := newFactory(map[string]*config.V2SamplerChoice{env: ec.build()}, p)
		s := f.GetSamplerImplementationForKey(env)
		in := sample.VerifSamplerregInstances(s)[0]
		reg, _, _ := sample.VerifSamplerregRegistry(f)
		for k := range reg {
			if st, ok := in.(interface{ Stop() error }); ok {
				st.Stop()
			}
			return k, in
		}
		return "", in
	}
	names := map[string]string{"dyn": "nameDynamic", "ema": "nameEMADynamic", "tot": "nameTotalThroughput", "emt": "nameEMAThroughput", "win": "nameWindowedThroughput"}
	for k, fact := range names {
		key, _ := probe(def{kind: k, rate: 7, fields: []string{"f"}}, false, "P")
		v := "?"
		if strings.HasPrefix(key, "P:") && strings.HasSuffix(key, ":7:[f]") {
			v = key[2 : len(key)-len(":7:[f]")]
		}
		out[fact] = v
	}
	// downstream prefix: key = <L>E<R>:dynamic:7:[f]
	key, _ := probe(def{kind: "dyn", rate: 7, fields: []string{"f"}}, true, "E")
	l, rr := "?", "?"
	suffix := ":" + out["nameDynamic"] + ":7:[f]"
	if strings.HasSuffix(key, suffix) {
		pre := key[:len(key)-len(suffix)]
		if i := strings.Index(pre, "E"); i >= 0 {
			l, rr = pre[:i], pre[i+1:]
		}
	}
	out["rulesPrefixL"] = l
	out["rulesPrefixR"] = rr
	// goal the dynsampler library substitutes for a configured goal of 0
	dg := -1
	for _, k := range tputKinds {
		_, in := probe(def{kind: k, rate: 0, fields: []string{"f"}}, false, "P")
		g, _ := goalOf(in)
		if dg == -1 {
			dg = g
		} else if dg != g {
			dg = -2
		}
	}
	out["defaultGoal"] = strconv.Itoa(dg)
	// name of the fallback entry of the rules file
	mock := &config.MockConfig{Samplers: map[string]*config.V2SamplerChoice{"__default__": {DeterministicSampler: &config.DeterministicSamplerConfig{SampleRate: 7}}}}
	de := "?"
	if c, _ := mock.GetSamplerConfigForDestName("no such environment"); c != nil {
		de = "__default__"
	}
	out["defaultEnv"] = de
	return out
}

func main() {
	if runtime.GOMAXPROCS(0) < 8 {
		runtime.GOMAXPROCS(8)
	}
	kit.Main(comp{}, facts)
}
