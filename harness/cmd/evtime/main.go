//go:build verif

// Harness for event-time handling (property C22): route.getEventTime via header and JSON batch,
// msgpack batch timestamps, and the outgoing msgpack timestamp of transmit.batchedEvent.
package main

import (
	"context"
	"encoding/hex"
	"fmt"
	"io"
	"net/http"
	"net/http/httptest"
	"strconv"
	"strings"
	"sync"
	"time"

	"github.com/honeycombio/refinery/logger"
	"github.com/honeycombio/refinery/metrics"

	"github.com/honeycombio/refinery/config"
	kit "github.com/honeycombio/refinery/internal/verifkit"
	"github.com/honeycombio/refinery/route"
	"github.com/honeycombio/refinery/transmit"
	"github.com/honeycombio/refinery/types"
)

type comp struct{}

const (
	minSec = 978307200  // 2001-01-01
	maxSec = 9999999999 // 2286-11-20
)

func randSec(r *kit.Rng) int64 {
	switch r.Pick(6, 1, 1, 1, 1) {
	case 0:
		return minSec + int64(r.Next()%uint64(maxSec-minSec+1))
	case 1:
		return minSec
	case 2:
		return maxSec
	case 3:
		return 4294967295 + int64(r.Intn(3)) - 1 // around 2^32
	default:
		return (1 << 34) + int64(r.Intn(3)) - 1 // around 2^34 (ts64 / ts96 boundary, year 2514 is out of range → clamp)
	}
}

func clampSec(s int64) int64 {
	if s > maxSec {
		return maxSec
	}
	return s
}

func randNsec(r *kit.Rng) int64 {
	switch r.Pick(5, 1, 1, 2, 2) {
	case 0:
		return int64(r.Intn(1_000_000_000))
	case 1:
		return 0
	case 2:
		return 999_999_999
	case 3:
		return int64(r.Intn(1000)) * 1_000_000 // whole milliseconds
	default:
		return int64(r.Intn(1_000_000)) * 1000 // whole microseconds
	}
}

func tsBytes(form int, sec, nsec int64) []byte {
	switch form {
	case 32:
		return []byte{0xd6, 0xff, byte(sec >> 24), byte(sec >> 16), byte(sec >> 8), byte(sec)}
	case 64:
		v := uint64(sec) | uint64(nsec)<<34
		b := []byte{0xd7, 0xff, 0, 0, 0, 0, 0, 0, 0, 0}
		for i := 0; i < 8; i++ {
			b[2+i] = byte(v >> (56 - 8*i))
		}
		return b
	default:
		b := []byte{0xc7, 12, 0xff, byte(nsec >> 24), byte(nsec >> 16), byte(nsec >> 8), byte(nsec), 0, 0, 0, 0, 0, 0, 0, 0}
		for i := 0; i < 8; i++ {
			b[7+i] = byte(uint64(sec) >> (56 - 8*i))
		}
		return b
	}
}

func (comp) Gen(r *kit.Rng, maxLen int, tier string) kit.Case {
	n := 8 + r.Intn(maxLen)
	var ops []string
	paths := []string{"hdr", "json", "jsoni"}
	for i := 0; i < n; i++ {
		sec, nsec := clampSec(randSec(r)), randNsec(r)
		path := paths[r.Intn(3)]
		switch r.Pick(40, 15, 15, 15, 5) {
		case 0: // integer epoch with 10..19 digits (10/13/16/19 most often)
			lens := []int{10, 13, 16, 19, 10 + r.Intn(10)}
			l := lens[r.Intn(len(lens))]
			ds := fmt.Sprintf("%010d%09d", sec, nsec)[:l]
			ops = append(ops, fmt.Sprintf("epoch %s %s", path, ds))
		case 1: // RFC 3339 with a zone offset
			zones := []int{0, 3600, -5 * 3600, 5*3600 + 1800, -8 * 3600}
			loc := time.FixedZone("z", zones[r.Intn(len(zones))])
			s := time.Unix(sec, nsec).In(loc).Format(time.RFC3339Nano)
			ops = append(ops, fmt.Sprintf("rfc %s %d %d %s", path, sec, nsec, kit.Enc(s)))
		case 2: // msgpack timestamp in
			form := []int{32, 64, 96}[r.Intn(3)]
			if form == 32 {
				nsec = 0
				if sec > 4294967295 {
					form = 64
				}
			}
			if form == 64 && sec >= 1<<34 {
				form = 96
			}
			ops = append(ops, "mp "+hex.EncodeToString(tsBytes(form, sec, nsec)))
		case 3:
			ops = append(ops, fmt.Sprintf("enc %d %d", sec, nsec))
		default: // out-of-scope strings: must not crash, model leaves them unspecified
			junk := []string{"", "12345", "0x1f", "1535589382.641", "-1535589382641", "15355893826411231234567", "yesterday", "1_535_589_382"}
			ops = append(ops, fmt.Sprintf("raw %s %s", path, kit.Enc(junk[r.Intn(len(junk))])))
		}
	}
	return kit.Case{Header: "evtime", Ops: ops}
}

type runner struct{ cfg *config.MockConfig }

// The outgoing side is observed as the upstream API observes it: one real DirectTransmission
// (batch size 1, so every event is sent at once) in front of an httptest server that keeps the
// request bodies.  No unexported identifier of package transmit is named.
var (
	outOnce sync.Once
	outDT   *transmit.DirectTransmission
	outSrv  *httptest.Server
	outBody = make(chan []byte, 16)
)

func outgoing(cfg *config.MockConfig) *transmit.DirectTransmission {
	outOnce.Do(func() {
		outSrv = httptest.NewServer(http.HandlerFunc(func(w http.ResponseWriter, r *http.Request) {
			b, _ := io.ReadAll(r.Body)
			outBody <- b
			w.Header().Set("Content-Type", "application/msgpack")
			w.Write([]byte{0x91, 0x81, 0xa6, 's', 't', 'a', 't', 'u', 's', 0xcc, 0xca}) // [{"status":202}]
		}))
		outDT = transmit.NewDirectTransmission(types.TransmitTypeUpstream, &http.Transport{}, 1, time.Hour, 10*time.Second, false, nil)
		outDT.Config = cfg
		outDT.Logger = &logger.NullLogger{}
		outDT.Metrics = &metrics.NullMetrics{}
		outDT.Version = "verif"
		if err := outDT.Start(); err != nil {
			outDT = nil
		}
	})
	return outDT
}

func (comp) NewCase(h []string) kit.Runner {
	return &runner{cfg: &config.MockConfig{TraceIdFieldNames: []string{"trace.trace_id"}, ParentIdFieldNames: []string{"trace.parent_id"}}}
}

func inst(t time.Time) string {
	return fmt.Sprintf("%d %d", t.Unix(), t.Nanosecond())
}

func (r *runner) parse(path, s string) string {
	switch path {
	case "hdr":
		return inst(route.VerifEvtimeHeader(s))
	case "json":
		body := []byte(`[{"time":` + strconv.Quote(s) + `,"samplerate":2,"data":{"a":1}}]`)
		ts, err := route.VerifEvtimeBatchJSON(r.cfg, body)
		if err != nil || len(ts) != 1 {
			return "error"
		}
		return inst(ts[0])
	case "jsoni":
		// a second request of the same shape, every digit of its time changed, is decoded
		// (taking the pooled parser) before the first request's times are read
		other := []byte(s)
		for i, c := range other {
			if c >= '0' && c <= '9' {
				other[i] = '0' + (c-'0'+5)%10
			}
		}
		bodyA := []byte(`[{"time":` + strconv.Quote(s) + `,"samplerate":2,"data":{"a":1}}]`)
		bodyB := []byte(`[{"time":` + strconv.Quote(string(other)) + `,"samplerate":2,"data":{"a":1}}]`)
		ts, err := route.VerifEvtimeBatchJSONInterleaved(r.cfg, bodyA, bodyB)
		if err != nil || len(ts) != 1 {
			return "error"
		}
		return inst(ts[0])
	}
	return "bad-op"
}

func (r *runner) Do(op []string) (string, bool) {
	switch op[0] {
	case "epoch":
		return r.parse(op[1], op[2]), true
	case "rfc":
		return r.parse(op[1], kit.Dec(op[4])), true
	case "raw":
		return r.parse(op[1], kit.Dec(op[2])), true
	case "mp":
		tb, _ := hex.DecodeString(op[1])
		// [ {"time": <ext>, "samplerate": 1, "data": {"a": 1}} ]
		body := []byte{0x91, 0x83, 0xa4, 't', 'i', 'm', 'e'}
		body = append(body, tb...)
		body = append(body, 0xaa, 's', 'a', 'm', 'p', 'l', 'e', 'r', 'a', 't', 'e', 0x01, 0xa4, 'd', 'a', 't', 'a', 0x81, 0xa1, 'a', 0x01)
		ts, err := route.VerifEvtimeBatchMsgp(r.cfg, body)
		if err != nil || len(ts) != 1 {
			return "error", true
		}
		return inst(ts[0]), true
	case "enc":
		sec, _ := strconv.ParseInt(op[1], 10, 64)
		nsec, _ := strconv.ParseInt(op[2], 10, 64)
		dt := outgoing(r.cfg)
		if dt == nil {
			return "error", true
		}
		for len(outBody) > 0 {
			<-outBody
		}
		dt.EnqueueEvent(&types.Event{Context: context.Background(), APIHost: outSrv.URL, APIKey: "k", Dataset: "d", SampleRate: 1,
			Timestamp: time.Unix(sec, nsec).UTC(), Data: types.NewPayload(r.cfg, map[string]any{"a": 1})})
		var b []byte
		select {
		case b = <-outBody:
		case <-time.After(10 * time.Second):
			return "hang", true
		}
		// 0x91 (one event) 0x83 0xa4 "time" <ext> 0xaa "samplerate"…
		if len(b) < 7 || b[0] != 0x91 || string(b[3:7]) != "time" {
			return "error", true
		}
		rest := b[7:]
		var l int
		switch rest[0] {
		case 0xd6:
			l = 6
		case 0xd7:
			l = 10
		case 0xc7:
			l = 3 + int(rest[1])
		default:
			return "error", true
		}
		return hex.EncodeToString(rest[:l]), true
	}
	return "bad-op", true
}

func (r *runner) Close() {}

var _ = strings.Join

func main() { kit.Main(comp{}, nil) }
