//go:build verif

// Harness for the content of forwarded spans (properties C04, C06): drives a real InMemCollector
// deterministically (DESIGN §2.3) and reports SampleRate and every field Refinery writes on each
// span that reaches the (recording) transmission.
//
// The collector is assembled from the repository's own mocks and started with the real Start().
// Every worker is parked with the code's own `pause` channel; the harness then calls the real step
// functions itself: processSpan (span arrival), sendExpiredTracesInCache (after making exactly one
// trace due: the fake clock never advances), the collector's own sendTraces goroutine (handed one decided trace at a time),
// ProcessSpanImmediately (stress relief).  A reload changes the MockConfig and goes through
// Config.Reload() -> monitor() -> reloadConfigs() -> the workers' own reload branch.
// The sampler the factory builds is wrapped so that its answer is reported (`ext dec`); the real
// StressRelief.GetSampleRate is wrapped the same way (`ext sr`).
//
// case header: host= reason= sc= cnt= dry= (0|1)  attrs=<k:v;k:v|->  srate=<stress SamplingRate> [workers=1]
// ops:
//
//	span <tid> <sid> <s|e|l> <root> <client rate> <cls> [<carried original_sample_rate>]   obs  buf | late <span> | latedrop
//	decide <tid>                                           obs  none | dropped | queued     ext dec
//	decidex <tid> <rate> <keep> <reason> <key>             same, scripted sampler answer
//	drain                                                  obs  empty | sent <tid> <span>…
//	stress <tid> <sid> <s|e|l> <root> <client rate> <cls>  obs  drop | fwd <span>           ext sr
//	reload <host> <reason> <sc> <cnt> <dry> <attrs> <srate>
//	floor det|dyn|rule <int> [<drop>]                      obs  <rate> <keep>  (sampler rate floors)
//	conv batch <int64>                                     obs  <uint>  (router conversion)
//
// <span> = <sid>|<SampleRate>|<key>=<tagged value>,…   (sorted; hostname value shown as HOST)
package main

import (
	"fmt"
	"os"
	"runtime"
	"sort"
	"strconv"
	"strings"
	"time"

	"github.com/jonboulle/clockwork"
	"go.opentelemetry.io/otel/trace/noop"

	"github.com/honeycombio/refinery/collect"
	"github.com/honeycombio/refinery/config"
	"github.com/honeycombio/refinery/internal/peer"
	kit "github.com/honeycombio/refinery/internal/verifkit"
	"github.com/honeycombio/refinery/logger"
	"github.com/honeycombio/refinery/metrics"
	"github.com/honeycombio/refinery/pubsub"
	"github.com/honeycombio/refinery/route"
	"github.com/honeycombio/refinery/sample"
	"github.com/honeycombio/refinery/sharder"
	"github.com/honeycombio/refinery/transmit"
	"github.com/honeycombio/refinery/types"
)

const stuck = 30 * time.Second

// trace ids whose stress-relief hash (wyhash, the code's hashSeed) is below 2^32, i.e. which
// StressRelief.GetSampleRate keeps even at SamplingRate 2^32 (found by search; the harness only
// uses them as ordinary trace ids, the real code decides).
var witnessIDs = []string{"w4eef5882", "w33377b51f"}

type nullHealth struct{}

func (nullHealth) Register(string, time.Duration) {}
func (nullHealth) Unregister(string)              {}
func (nullHealth) Ready(string, bool)             {}

// vconf is the repository's MockConfig with AddCountsToRoot answered from its own field (the
// mock's GetAddCountsToRoot returns AddSpanCountToRoot).
type vconf struct{ *config.MockConfig }

func (c vconf) GetAddCountsToRoot() bool {
	c.Mux.RLock()
	defer c.Mux.RUnlock()
	return c.AddCountsToRoot
}

// recStress is the real StressRelief (never started: only UpdateFromConfig and GetSampleRate are
// used) reporting its answers.
type recStress struct{ *collect.StressRelief }

func (r recStress) GetSampleRate(tid string) (uint, bool, string) {
	rate, keep, reason := r.StressRelief.GetSampleRate(tid)
	kit.Ext("sr %d %d %s", rate, b2i(keep), kit.Enc(reason))
	return rate, keep, reason
}

func b2i(b bool) int {
	if b {
		return 1
	}
	return 0
}

type comp struct{}

var (
	attrKeys  = []string{"attr.a", "app.ver", "cls", "meta.custom"}
	attrVals  = []string{"x", "v 2", "", "a=b,c"}
	clsVals   = []string{"a", "b", "d", "z"}
	reasons   = []string{"stub/r1", "rules/trace/x y", "", "a=b|c"}
	keys      = []string{"", "", "k1", "GET /x"}
	clientPts = []uint64{0, 0, 1, 1, 2, 3, 10, 100, 1<<31 - 1, 1<<31 - 2}
	ratePts   = []uint64{1, 1, 2, 3, 7, 100, 1<<31 - 1, 1<<32 - 1, 1 << 32, 1<<32 + 1, 1<<33 + 5, 1 << 63, 1<<64 - 1}
	sratePts  = []uint64{1, 2, 2, 3, 100, 1 << 32, 1<<32 + 7}
)

func genAttrs(r *kit.Rng) string {
	var parts []string
	for _, k := range attrKeys {
		if r.Chance(35) {
			parts = append(parts, kit.Enc(k)+":"+kit.Enc(attrVals[r.Intn(len(attrVals))]))
		}
	}
	if len(parts) == 0 {
		return "-"
	}
	return strings.Join(parts, ";")
}

// manyReasons is a case with n kept traces, each decided with its own reason string on the only
// worker (the kept-reasons table hands out growing 1-based indexes per worker), followed by late
// spans of traces spread over the whole index range, in particular around 256 and 512.
func manyReasons(r *kit.Rng, n int) kit.Case {
	hdr := fmt.Sprintf("host=%d reason=1 sc=%d cnt=0 dry=0 attrs=- srate=1 workers=1", b2i(r.Chance(50)), b2i(r.Chance(50)))
	var ops []string
	sid := 0
	for i := 0; i < n; i++ {
		sid++
		ops = append(ops, fmt.Sprintf("span m%d %d s 0 %d a", i, sid, 1+r.Intn(3)))
		ops = append(ops, fmt.Sprintf("decidex m%d %d 1 %s %%", i, 1+r.Intn(9), kit.Enc(fmt.Sprintf("rules/trace/rule %d", i))))
	}
	var late []int
	for _, c := range []int{0, 1, 127, 128, 253, 254, 255, 256, 257, 258, 300, 509, 510, 511, 512, 513, 514, n - 2, n - 1} {
		if c >= 0 && c < n {
			late = append(late, c)
		}
	}
	for i := 0; i < 12; i++ {
		late = append(late, r.Intn(n))
	}
	for _, i := range late {
		sid++
		root := b2i(r.Chance(30))
		ops = append(ops, fmt.Sprintf("span m%d %d s %d %d a", i, sid, root, r.Intn(4)))
		if r.Chance(25) {
			sid++
			ops = append(ops, fmt.Sprintf("stress m%d %d s 0 %d a", i, sid, r.Intn(4)))
		}
	}
	return kit.Case{Header: hdr, Ops: ops}
}

func (comp) Gen(r *kit.Rng, maxLen int, tier string) kit.Case {
	if r.Intn(150) == 0 { // a few cases per run with more decision reasons than fit in a byte / two bytes' worth of slots
		n := 300 + r.Intn(80)
		if tier == "thorough" {
			n = 300 + r.Intn(401)
		}
		return manyReasons(r, n)
	}
	bit := func(p int) int { return b2i(r.Chance(p)) }
	host, reason, sc, cnt, dry := bit(50), bit(60), bit(50), bit(40), bit(15)
	attrs := genAttrs(r)
	srate := sratePts[r.Intn(len(sratePts))]
	hdr := fmt.Sprintf("host=%d reason=%d sc=%d cnt=%d dry=%d attrs=%s srate=%d", host, reason, sc, cnt, dry, attrs, srate)
	u := 2 + r.Intn(5)
	tids := make([]string, 0, u+2)
	base := r.Intn(12)
	for i := 0; i < u; i++ {
		tids = append(tids, fmt.Sprintf("t%d", base+i))
	}
	if r.Chance(40) {
		tids = append(tids, witnessIDs[r.Intn(len(witnessIDs))])
	}
	n := 6 + r.Intn(maxLen)
	sid := 0
	var ops []string
	decides := 0
	// rough bookkeeping so that decisions mostly hit buffered traces and late spans follow decisions
	live := map[string]bool{}
	decided := map[string]bool{}
	pickFrom := func(m map[string]bool) (string, bool) {
		var c []string
		for _, t := range tids {
			if m[t] {
				c = append(c, t)
			}
		}
		if len(c) == 0 {
			return "", false
		}
		return c[r.Intn(len(c))], true
	}
	spanArgs := func(tid string) string {
		sid++
		kind := []string{"s", "s", "s", "s", "e", "l"}[r.Intn(6)]
		root := 0
		if kind == "s" && r.Chance(22) {
			root = 1
		}
		var client uint64
		if r.Chance(75) {
			client = clientPts[r.Intn(len(clientPts))]
		} else {
			client = r.Next() % (1 << 31)
		}
		carried := ""
		if r.Chance(25) { // the payload already carries meta.refinery.original_sample_rate
			switch r.Intn(4) {
			case 0:
				carried = fmt.Sprintf(" %d", client)
			case 1:
				carried = " 0"
			default:
				carried = fmt.Sprintf(" %d", []uint64{1, 7, 35, 1<<31 - 1, client + 1}[r.Intn(5)])
			}
		}
		return fmt.Sprintf("%s %d %s %d %d %s%s", tid, sid, kind, root, client, clsVals[r.Intn(len(clsVals))], carried)
	}
	for i := 0; i < n; i++ {
		switch r.Pick(42, 10, 9, 14, 11, 9, 4) {
		case 6:
			detPts := []int64{-7, 1, 2, 10, 1000, 1<<31 - 1, 1<<32 - 1, 1<<32 + 1, 1<<62 + 3}
			dynPts := []int64{-5, -1, 0, 0, 1, 2, 100, 1 << 31, 1 << 62}
			rulePts := []int64{-3, 0, 1, 1, 2, 50, 1 << 32}
			convPts := []int64{0, 0, 1, 2, 1<<31 - 1, 1 << 31, -1, -1 << 63, 1<<63 - 1}
			switch r.Intn(4) {
			case 0:
				ops = append(ops, fmt.Sprintf("floor det %d", detPts[r.Intn(len(detPts))]))
			case 1:
				ops = append(ops, fmt.Sprintf("floor dyn %d", dynPts[r.Intn(len(dynPts))]))
			case 2:
				ops = append(ops, fmt.Sprintf("floor rule %d %d", rulePts[r.Intn(len(rulePts))], b2i(r.Chance(25))))
			default:
				v := convPts[r.Intn(len(convPts))]
				if r.Chance(40) {
					v = int64(r.Next() % (1 << 31))
				}
				ops = append(ops, fmt.Sprintf("conv batch %d", v))
			}
		case 0:
			tid := tids[r.Intn(len(tids))]
			if t, ok := pickFrom(decided); ok && r.Chance(35) {
				tid = t
			}
			if !decided[tid] {
				live[tid] = true
			}
			ops = append(ops, "span "+spanArgs(tid))
		case 1, 2:
			decides++
			tid := tids[r.Intn(len(tids))]
			if t, ok := pickFrom(live); ok && r.Chance(90) {
				tid = t
			}
			if live[tid] {
				live[tid] = false
				decided[tid] = true
			}
			if r.Chance(50) {
				ops = append(ops, "decide "+tid)
				break
			}
			keep := b2i(r.Chance(75))
			rate := ratePts[r.Intn(len(ratePts))]
			if r.Chance(20) {
				rate = r.Next()%1000 + 1
			}
			if keep == 0 && r.Chance(30) {
				rate = 0
			}
			ops = append(ops, fmt.Sprintf("decidex %s %d %d %s %s", tid, rate, keep,
				kit.Enc(reasons[r.Intn(len(reasons))]), kit.Enc(keys[r.Intn(len(keys))])))
		case 3:
			ops = append(ops, "drain")
		case 4:
			tid := tids[r.Intn(len(tids))]
			if !live[tid] {
				decided[tid] = true // a stress decision leaves a record: later spans are late
			}
			ops = append(ops, "stress "+spanArgs(tid))
		case 5:
			flip := func(v *int, p int) {
				if r.Chance(p) {
					*v = 1 - *v
				}
			}
			flip(&host, 40)
			flip(&reason, 30)
			flip(&sc, 30)
			flip(&cnt, 30)
			flip(&dry, 12)
			if r.Chance(35) {
				attrs = genAttrs(r)
			}
			if r.Chance(30) {
				srate = sratePts[r.Intn(len(sratePts))]
			}
			ops = append(ops, fmt.Sprintf("reload %d %d %d %d %d %s %d", host, reason, sc, cnt, dry, attrs, srate))
		}
	}
	for i := 0; i < decides && i < 6; i++ {
		ops = append(ops, "drain")
	}
	return kit.Case{Header: hdr, Ops: ops}
}

type runner struct {
	conf  vconf
	clock *clockwork.FakeClock
	tx    *transmit.MockTransmission
	ptx   *transmit.MockTransmission
	sf    *sample.SamplerFactory
	ps    *pubsub.LocalPubSub
	coll  *collect.InMemCollector
	ctl   *collect.VerifDecorateCtl
	hn    string
}

func det(rate int) *config.V2SamplerChoice {
	return &config.V2SamplerChoice{DeterministicSampler: &config.DeterministicSamplerConfig{SampleRate: rate}}
}

func cond(field, op string, v any) []*config.RulesBasedSamplerCondition {
	return []*config.RulesBasedSamplerCondition{{Field: field, Operator: op, Value: v}}
}

func samplers() map[string]*config.V2SamplerChoice {
	return map[string]*config.V2SamplerChoice{
		"e0": det(1), "e1": det(2), "e2": det(10), "e3": det(4294967297),
		"e4": {RulesBasedSampler: &config.RulesBasedSamplerConfig{Rules: []*config.RulesBasedSamplerRule{
			{Name: "dropD", Drop: true, Conditions: cond("cls", "=", "d")},
			{Name: "zero", SampleRate: 0, Conditions: cond("cls", "=", "z")},
			{Name: "keep A", SampleRate: 1, Conditions: cond("cls", "=", "a")},
		}}},
		"__default__": det(1),
	}
}

func envOf(tid string) string {
	if strings.HasPrefix(tid, "t") {
		if n, err := strconv.Atoi(tid[1:]); err == nil {
			return fmt.Sprintf("e%d", n%6)
		}
	}
	return "e0"
}

func parseAttrs(s string) map[string]string {
	m := map[string]string{}
	if s == "-" || s == "" {
		return m
	}
	for _, p := range strings.Split(s, ";") {
		kv := strings.SplitN(p, ":", 2)
		if len(kv) == 2 {
			m[kit.Dec(kv[0])] = kit.Dec(kv[1])
		}
	}
	return m
}

func (comp) NewCase(h []string) kit.Runner {
	flag := func(k string) bool { return kit.KV(h, k) == "1" }
	srate, _ := strconv.ParseUint(kit.KV(h, "srate"), 10, 64)
	workers := 2
	if kit.KV(h, "workers") == "1" {
		workers = 1
	}
	mc := &config.MockConfig{
		GetTracesConfigVal: config.TracesConfig{
			SendTicker:   config.Duration(1000000 * time.Hour), // the harness owns the schedule
			SendDelay:    config.Duration(time.Millisecond),
			TraceTimeout: config.Duration(time.Hour),
			MaxBatchSize: 500,
		},
		SampleCache: config.SampleCacheConfig{
			KeptSize:          4096,
			DroppedSize:       4096,
			SizeCheckInterval: config.Duration(time.Hour),
			WorkerCount:       uint(workers),
		},
		GetCollectionConfigVal: config.CollectionConfig{WorkerCount: workers, IncomingQueueSize: 64, PeerQueueSize: 64},
		Samplers:               samplers(),
		DryRun:                 flag("dry"),
		AddHostMetadataToTrace: flag("host"),
		AddRuleReasonToTrace:   flag("reason"),
		AddSpanCountToRoot:     flag("sc"),
		AddCountsToRoot:        flag("cnt"),
		AdditionalAttributes:   parseAttrs(kit.KV(h, "attrs")),
		StressRelief:           config.StressReliefConfig{Mode: "never", SamplingRate: srate},
		TraceIdFieldNames:      []string{"trace.trace_id"},
		ParentIdFieldNames:     []string{"trace.parent_id"},
	}
	conf := vconf{mc}
	clock := clockwork.NewFakeClock()
	tx := &transmit.MockTransmission{Capacity: 1 << 12}
	tx.Start()
	ptx := &transmit.MockTransmission{Capacity: 16}
	ptx.Start()
	met := &metrics.NullMetrics{}
	sf := &sample.SamplerFactory{Config: conf, Metrics: met, Logger: &logger.NullLogger{}}
	if err := sf.Start(); err != nil {
		panic(err)
	}
	ps := &pubsub.LocalPubSub{Config: conf, Metrics: met}
	ps.Start()
	c := &collect.InMemCollector{
		TestMode:         true,
		Config:           conf,
		Clock:            clock,
		Logger:           &logger.NullLogger{},
		Tracer:           noop.NewTracerProvider().Tracer("verif"),
		Health:           nullHealth{},
		Transmission:     tx,
		PeerTransmission: ptx,
		PubSub:           ps,
		Metrics:          met,
		StressRelief:     recStress{&collect.StressRelief{Config: conf, Logger: &logger.NullLogger{}}},
		SamplerFactory:   sf,
		Peers:            peer.NewMockPeers([]string{"api1"}, "api1"),
		Sharder:          &sharder.MockSharder{Self: &sharder.TestShard{Addr: "api1"}},
	}
	if err := c.Start(); err != nil {
		panic(err)
	}
	hn, _ := os.Hostname()
	r := &runner{conf: conf, clock: clock, tx: tx, ptx: ptx, sf: sf, ps: ps, coll: c, hn: hn,
		ctl: collect.VerifDecorateTakeOver(c)}
	// make sure the sendTraces goroutine is ranging over the collector's own channel, then gate it
	r.ctl.Barrier(r.sentinel())
	r.untilSentinel()
	r.ctl.Gate()
	return r
}

const sentinelSid = int64(-1)

func (r *runner) sentinel() *types.Span {
	return &types.Span{TraceID: "verif-sentinel", Event: &types.Event{Data: types.NewPayload(r.conf, map[string]any{"sid": sentinelSid})}}
}

// untilSentinel collects what the sendTraces goroutine forwards up to the sentinel span.
func (r *runner) untilSentinel() []string {
	var out []string
	to := time.After(stuck)
	for {
		select {
		case ev := <-r.tx.Events:
			if v, ok := ev.Data.Get("sid").(int64); ok && v == sentinelSid {
				return out
			}
			out = append(out, r.describe(ev))
		case <-to:
			panic("stuck waiting for the sendTraces goroutine")
		}
	}
}

func (r *runner) Close() {
	r.ctl.Restore()
	r.ctl.Release()
	r.coll.Stop()
	r.sf.Stop()
	r.ps.Stop()
	r.tx.Stop()
	r.ptx.Stop()
}

func waitFor(what string, cond func() bool) {
	deadline := time.Now().Add(stuck)
	for i := 0; !cond(); i++ {
		if i < 16 {
			runtime.Gosched()
		} else {
			time.Sleep(20 * time.Microsecond)
		}
		if time.Now().After(deadline) {
			panic("stuck waiting for " + what)
		}
	}
}

func (r *runner) valStr(k string, v any) string {
	switch x := v.(type) {
	case string:
		if k == types.MetaRefineryLocalHostname && x == r.hn {
			return "sHOST"
		}
		return "s" + kit.Enc(x)
	case int64:
		return "i" + strconv.FormatInt(x, 10)
	case uint:
		return "u" + strconv.FormatUint(uint64(x), 10)
	case bool:
		if x {
			return "btrue"
		}
		return "bfalse"
	}
	return fmt.Sprintf("?%T", v)
}

func (r *runner) describe(ev *types.Event) string {
	sid := int64(-1)
	if v, ok := ev.Data.Get("sid").(int64); ok {
		sid = v
	}
	var kvs []string
	for k, v := range ev.Data.All() {
		if k == "sid" || k == types.MetaAnnotationType {
			continue
		}
		kvs = append(kvs, kit.Enc(k)+"="+r.valStr(k, v))
	}
	sort.Strings(kvs)
	f := "-"
	if len(kvs) > 0 {
		f = strings.Join(kvs, ",")
	}
	return fmt.Sprintf("%d|%d|%s", sid, ev.SampleRate, f)
}

func (r *runner) take() []string {
	var out []string
	for {
		select {
		case ev := <-r.tx.Events:
			out = append(out, r.describe(ev))
		default:
			return out
		}
	}
}

func (r *runner) mkSpan(op []string) *types.Span {
	tid := op[1]
	sid, _ := strconv.ParseInt(op[2], 10, 64)
	client, _ := strconv.ParseUint(op[5], 10, 64)
	ev := &types.Event{
		APIHost:     "http://api",
		APIKey:      "key-verif",
		Dataset:     "ds",
		Environment: envOf(tid),
		SampleRate:  uint(client),
		Data:        types.NewPayload(r.conf, map[string]any{"sid": sid, "cls": op[6]}),
	}
	if len(op) > 7 { // the payload already carries meta.refinery.original_sample_rate (dedicated field, as ExtractMetadata fills it)
		v, _ := strconv.ParseInt(op[7], 10, 64)
		ev.Data.MetaRefineryOriginalSampleRate = v
	}
	switch op[3] {
	case "e":
		ev.Data.MetaAnnotationType = "span_event"
	case "l":
		ev.Data.MetaAnnotationType = "link"
	}
	return &types.Span{Event: ev, TraceID: tid, IsRoot: op[4] == "1"}
}

func (r *runner) decide(tid string, stub *collect.VerifDecorateDecision) (string, bool) {
	found, dec, queued := r.ctl.Decide(tid, stub)
	if !found {
		return "none", true
	}
	if dec != nil {
		kit.Ext("dec %d %d %s %s", dec.Rate, b2i(dec.Keep), kit.Enc(dec.Reason), kit.Enc(dec.Key))
	}
	switch queued {
	case 0:
		return "dropped", true
	case 1:
		return "queued", true
	}
	return fmt.Sprintf("queued-%d", queued), true
}

func (r *runner) Do(op []string) (string, bool) {
	switch op[0] {
	case "span":
		if len(op) != 7 && len(op) != 8 {
			return "bad-op", true
		}
		sp := r.mkSpan(op)
		before := r.ctl.Live(sp.TraceID)
		r.ctl.ProcessSpan(sp)
		after := r.ctl.Live(sp.TraceID)
		evs := r.take()
		if len(evs) == 0 && (after == before+1 || (before == -1 && after == 1)) {
			return "buf", true
		}
		if len(evs) == 0 {
			return "latedrop", true
		}
		return "late " + strings.Join(evs, " "), true
	case "decide":
		return r.decide(op[1], nil)
	case "decidex":
		if len(op) != 6 {
			return "bad-op", true
		}
		rate, _ := strconv.ParseUint(op[2], 10, 64)
		return r.decide(op[1], &collect.VerifDecorateDecision{Rate: uint(rate), Keep: op[3] == "1", Reason: kit.Dec(op[4]), Key: kit.Dec(op[5])})
	case "drain":
		tid, ok := r.ctl.Drain()
		if !ok {
			return "empty", true
		}
		r.ctl.Barrier(r.sentinel())
		evs := r.untilSentinel()
		return strings.TrimSpace("sent " + tid + " " + strings.Join(evs, " ")), true
	case "stress":
		if len(op) != 7 && len(op) != 8 {
			return "bad-op", true
		}
		sp := r.mkSpan(op)
		processed, keep := r.coll.ProcessSpanImmediately(sp)
		evs := r.take()
		if !processed {
			return "unprocessed", true
		}
		if !keep && len(evs) == 0 {
			return "drop", true
		}
		return fmt.Sprintf("fwd%s %s", map[bool]string{true: "", false: "-notkept"}[keep], strings.Join(evs, " ")), true
	case "reload":
		if len(op) != 8 {
			return "bad-op", true
		}
		srate, _ := strconv.ParseUint(op[7], 10, 64)
		r.conf.Mux.Lock()
		r.conf.AddHostMetadataToTrace = op[1] == "1"
		r.conf.AddRuleReasonToTrace = op[2] == "1"
		r.conf.AddSpanCountToRoot = op[3] == "1"
		r.conf.AddCountsToRoot = op[4] == "1"
		r.conf.DryRun = op[5] == "1"
		r.conf.AdditionalAttributes = parseAttrs(op[6])
		r.conf.StressRelief.SamplingRate = srate
		r.conf.Mux.Unlock()
		r.conf.Reload()
		n := r.ctl.NumWorkers()
		waitFor("reload signal at the workers", func() bool { return r.ctl.ReloadPending() == n })
		r.ctl.Release()
		waitFor("workers to take the reload branch", func() bool { return r.ctl.ReloadPending() == 0 })
		r.ctl.Park()
		return "", false
	case "floor":
		return r.floor(op)
	case "conv":
		if len(op) != 3 || op[1] != "batch" {
			return "bad-op", true
		}
		i, _ := strconv.ParseInt(op[2], 10, 64)
		return strconv.FormatUint(uint64(route.VerifDecorateBatchRate(i)), 10), true
	}
	return "bad-op", true
}

// floor asks a real sampler of the given kind, configured with (or, for dyn, fed by a dynsampler
// answering) the integer n, for its rate on a one-span trace.
func (r *runner) floor(op []string) (obs string, has bool) {
	if len(op) < 3 {
		return "bad-op", true
	}
	n, _ := strconv.ParseInt(op[2], 10, 64)
	lg, met := &logger.NullLogger{}, &metrics.NullMetrics{}
	var s sample.Sampler
	switch op[1] {
	case "det":
		d := &sample.DeterministicSampler{Config: &config.DeterministicSamplerConfig{SampleRate: int(n)}, Logger: lg, Metrics: met}
		s = d
	case "dyn":
		d, err := sample.VerifDecorateDynamicSampler(int(n), lg, met)
		if err != nil {
			return "start-error", true
		}
		s = d
	case "rule":
		if len(op) != 4 {
			return "bad-op", true
		}
		s = &sample.RulesBasedSampler{Config: &config.RulesBasedSamplerConfig{Rules: []*config.RulesBasedSamplerRule{
			{Name: "r", SampleRate: int(n), Drop: op[3] == "1"}}}, Logger: lg, Metrics: met}
	default:
		return "bad-op", true
	}
	defer func() { // no sampler is expected to panic on these inputs; report it as an observation if one does
		if e := recover(); e != nil {
			obs, has = "panic", true
		}
	}()
	if op[1] != "dyn" {
		if err := s.Start(); err != nil {
			return "start-error", true
		}
	}
	tr := &types.Trace{TraceID: "floor"}
	tr.AddSpan(r.mkSpan([]string{"span", "floor", "0", "s", "0", "1", "a"}))
	rate, keep, _, _ := s.GetSampleRate(tr)
	kit.Ext("keep %d", b2i(keep))
	return strconv.FormatUint(uint64(rate), 10), true
}

func main() { kit.Main(comp{}, nil) }
