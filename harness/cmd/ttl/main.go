//go:build verif

// Harness for generics.SetWithTTL / generics.MapWithTTL (property C32).
package main

import (
	"fmt"
	"sort"
	"strconv"
	"strings"
	"time"

	"github.com/honeycombio/refinery/generics"
	kit "github.com/honeycombio/refinery/internal/verifkit"
	"github.com/jonboulle/clockwork"
)

type comp struct{}

func key(k int) string { return fmt.Sprintf("%04d", k) }

func natList(xs []int) string {
	if len(xs) == 0 {
		return "-"
	}
	s := make([]string, len(xs))
	for i, x := range xs {
		s[i] = strconv.Itoa(x)
	}
	return strings.Join(s, ",")
}

func (comp) Gen(r *kit.Rng, maxLen int, tier string) kit.Case {
	kind := "set"
	if r.Chance(50) {
		kind = "map"
	}
	ttls := []int64{1, 2, 10, 1000, 3_000_000_000}
	ttl := ttls[r.Intn(len(ttls))]
	if r.Chance(1) || (tier == "thorough" && r.Chance(1)) {
		// expiry burst: far more entries than any per-sweep bound expire at one instant
		u := 1100 + r.Intn(2000)
		var ops []string
		for k := 0; k < u; k++ {
			v := 0
			if kind == "map" {
				v = k % 50
			}
			ops = append(ops, fmt.Sprintf("set %d %d", k, v))
		}
		ops = append(ops, "length", fmt.Sprintf("adv %d", ttl), "probe", "adv 1", "probe", "length", "keys", "probe")
		return kit.Case{Header: fmt.Sprintf("kind=%s ttl=%d universe=%d", kind, ttl, u), Ops: ops}
	}
	u := 2 + r.Intn(4)
	n := 4 + r.Intn(maxLen)
	// the generator tracks expiry instants so that clock advances land exactly on them
	now := int64(0)
	exp := map[int]int64{}
	var ops []string
	for i := 0; i < n; i++ {
		switch r.Pick(25, 22, 6, 14, 6, 4, 6, 17) {
		case 0: // advance
			var d int64
			var pend []int64
			for _, e := range exp {
				if e >= now {
					pend = append(pend, e-now)
				}
			}
			sort.Slice(pend, func(i, j int) bool { return pend[i] < pend[j] })
			switch {
			case len(pend) > 0 && r.Chance(60):
				d = pend[r.Intn(len(pend))] // exactly onto an expiry instant
				if r.Chance(25) {
					d++ // one tick after
				} else if d > 0 && r.Chance(15) {
					d-- // one tick before
				}
			case r.Chance(50):
				d = ttl
			default:
				d = int64(r.Intn(int(min64(ttl, 1000)) + 2))
			}
			now += d
			ops = append(ops, fmt.Sprintf("adv %d", d))
		case 1:
			k := r.Intn(u)
			v := 0
			if kind == "map" {
				v = r.Intn(50)
			}
			exp[k] = now + ttl
			ops = append(ops, fmt.Sprintf("set %d %d", k, v))
		case 2:
			k := r.Intn(u)
			delete(exp, k)
			ops = append(ops, fmt.Sprintf("del %d", k))
		case 3:
			ops = append(ops, fmt.Sprintf("get %d", r.Intn(u)))
		case 4:
			ops = append(ops, "keys")
		case 5:
			if kind == "map" {
				ops = append(ops, "values")
			} else {
				ops = append(ops, "keys")
			}
		case 6:
			ops = append(ops, "length")
		case 7:
			if r.Chance(25) {
				// a lookup of k overlapped by a re-add of k (lands at the lookup's clock read)
				k := r.Intn(u)
				v := 0
				if kind == "map" {
					v = r.Intn(50)
				}
				exp[k] = now + ttl
				ops = append(ops, fmt.Sprintf("gset %d %d", k, v))
			} else {
				ops = append(ops, "probe")
			}
		}
	}
	ops = append(ops, "probe")
	return kit.Case{Header: fmt.Sprintf("kind=%s ttl=%d universe=%d", kind, ttl, u), Ops: ops}
}

func min64(a, b int64) int64 {
	if a < b {
		return a
	}
	return b
}

// hookClock runs a one-shot hook at the next Now() call: the harness uses it to land another
// operation inside a lookup, at the lookup's clock read.
type hookClock struct {
	clockwork.Clock
	hook func()
}

func (h *hookClock) Now() time.Time {
	if f := h.hook; f != nil {
		h.hook = nil
		f()
	}
	return h.Clock.Now()
}

type runner struct {
	kind  string
	u     int
	hc    *hookClock
	clock *clockwork.FakeClock
	set   *generics.SetWithTTL[string]
	m     *generics.MapWithTTL[string, int]
}

func (comp) NewCase(h []string) kit.Runner {
	ttl, _ := strconv.ParseInt(kit.KV(h, "ttl"), 10, 64)
	u, _ := strconv.Atoi(kit.KV(h, "universe"))
	r := &runner{kind: kit.KV(h, "kind"), u: u, clock: clockwork.NewFakeClock()}
	r.hc = &hookClock{Clock: r.clock}
	if r.kind == "set" {
		r.set = generics.NewSetWithTTL[string](time.Duration(ttl))
		r.set.Clock = r.hc
	} else {
		r.m = generics.NewMapWithTTL[string, int](time.Duration(ttl), nil)
		r.m.Clock = r.hc
	}
	return r
}

func unkeys(ks []string) []int {
	out := make([]int, len(ks))
	for i, k := range ks {
		out[i], _ = strconv.Atoi(k)
	}
	return out
}

func (r *runner) get(k int) (int, bool) {
	if r.kind == "set" {
		return 0, r.set.Contains(key(k))
	}
	return r.m.Get(key(k))
}

func (r *runner) keys() []int {
	if r.kind == "set" {
		return unkeys(r.set.Members())
	}
	return unkeys(r.m.SortedKeys())
}

func (r *runner) values() []int {
	if r.kind == "set" {
		ks := r.set.Members()
		return make([]int, len(ks))
	}
	return r.m.SortedValues()
}

func (r *runner) length() int {
	if r.kind == "set" {
		return r.set.Length()
	}
	return r.m.Length()
}

func (r *runner) Do(op []string) (string, bool) {
	arg := func(i int) int { n, _ := strconv.Atoi(op[i]); return n }
	switch op[0] {
	case "adv":
		d, _ := strconv.ParseInt(op[1], 10, 64)
		r.clock.Advance(time.Duration(d))
		return "", false
	case "set":
		if r.kind == "set" {
			r.set.Add(key(arg(1)))
		} else {
			r.m.Set(key(arg(1)), arg(2))
		}
		return "", false
	case "del":
		if r.kind == "set" {
			r.set.Remove(key(arg(1)))
		} else {
			r.m.Delete(key(arg(1)))
		}
		return "", false
	case "gset":
		// get k, with set k v started at the get's clock read; if the lookup holds its lock across
		// the clock read the set simply completes right after it (bounded wait, never a deadlock)
		done := make(chan struct{})
		r.hc.hook = func() {
			go func() {
				defer close(done)
				if r.kind == "set" {
					r.set.Add(key(arg(1)))
				} else {
					r.m.Set(key(arg(1)), arg(2))
				}
			}()
			select {
			case <-done:
			case <-time.After(100 * time.Millisecond):
			}
		}
		v, ok := r.get(arg(1))
		if r.hc.hook != nil { // the lookup never read the clock (key absent): do the set now
			f := r.hc.hook
			r.hc.hook = nil
			f()
		}
		select {
		case <-done:
		case <-time.After(5 * time.Second):
			return "hang", true
		}
		if !ok {
			return "none", true
		}
		return fmt.Sprintf("some:%d", v), true
	case "get":
		v, ok := r.get(arg(1))
		if !ok {
			return "none", true
		}
		return fmt.Sprintf("some:%d", v), true
	case "keys":
		return natList(r.keys()), true
	case "values":
		return natList(r.values()), true
	case "length":
		return strconv.Itoa(r.length()), true
	case "probe":
		var g []string
		for k := 0; k < r.u; k++ {
			if v, ok := r.get(k); ok {
				g = append(g, fmt.Sprintf("%d:%d", k, v))
			}
		}
		gs := "-"
		if len(g) > 0 {
			gs = strings.Join(g, ",")
		}
		n := r.length()
		ks := r.keys()
		vs := r.values()
		return fmt.Sprintf("g=%s n=%d k=%s v=%s", gs, n, natList(ks), natList(vs)), true
	}
	return "bad-op", true
}

func (r *runner) Close() {}

func main() { kit.Main(comp{}, nil) }
