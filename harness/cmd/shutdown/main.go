//go:build verif

// Harness for graceful shutdown (property C36): a real InMemCollector (real Start(), its own worker,
// monitor and sendTraces goroutines, fake clock) in front of a real DirectTransmission (real Start(),
// its own stale-batch goroutine and dispatch pool, a second fake clock) that posts to an in-process
// httptest server standing in for Honeycomb.
//
// Determinism: every worker is parked with the code's own `pause` channel between operations; an
// operation releases the worker(s) it concerns, waits on the code's own state until the work is
// done (queue lengths, the tick's health timestamp) and parks them again.  Decided traces are held
// in front of the sendTraces goroutine by a gate (zz_verif_shutdown.go) so that "sendTraces takes
// one trace" is a step of its own; the gate is removed before Stop.  The collector's Transmission
// is a thin recorder around the DirectTransmission (what was handed over, in which order, and what
// EnqueueEvent did).  After every operation the harness waits until the fake Honeycomb has received
// everything that was dispatched.
//
// `stop` is the exported InMemCollector.Stop, run in its own goroutine; held workers are released
// once Stop has closed the channels (so what they had queued is still queued when Stop runs); while
// traces wait in tracesToSend the recorder stalls the sendTraces goroutine and the harness checks
// that Stop does not return before they are forwarded.
//
// case header: workers=<n> tt=<TraceTimeout ns> sd=<SendDelay ns> p=<SendTicker ns> bto=<BatchTimeout ns>
//
//	mb=<MaxBatchSize> nd=<datasets> keep=<one 0|1 per trace id: the sampler's answer>
//
// ops:
//
//	span <dt> <t> <sid> <root> <peer> <dest>   ext owner <w>     obs  q|buf|fw|drop … | panic …
//	hold <w>                                                     obs  ok|refused …
//	tick <ns>                                                    obs  dec=<t:k|t:d,…> kept=<t,…> …
//	fwd                                                          obs  t=<t> … | idle …
//	ev <sid> <dest>                                              obs  ok|panic|blocked …
//	txtick <ns>                                                  obs  ok …
//	stop                                                         obs  left=<t,…> q=<n> early=<0|1> … | panic …
//	txstop                                                       obs  pend=<n> …
//	gor                                                          obs  left=<creator functions|->
//	agent                                                        obs  hc=<gone|parked|spinning> usage=<gone|alive>
//
// agent cases (header kind=agent script=<o|O|p|P|f joined by '.', or ->: what the scripted OpAMP client answers
// to each SendCustomMessage: accepted / pending, channel open (lower case) or already closed, failure):
//
//	agnew    the agent's two background loops are started (as connect() does)      obs  ok
//	agadd    usage is recorded                                                     obs  loc=<idle|pending|sent> calls=<n> tick=<0|1> data=<cur><last>
//	agtick   the usage ticker fires (capacity-1 channel, never blocks)             (same)
//	agsent   the client closes the channel it returned last                        (same)
//	agstop   Agent.Stop; bounded wait                                              obs  hc=<gone|parked|spinning> usage=<gone|idle|pending|sent>
//	(after agstop the three environment ops answer  loc=<gone|…>)
//
// router cases (header kind=router opamp=<0|1> stress=<never|monitor|always> dry=<0|1> z=<0|1>): the application wired as
// cmd/refinery/main.go wires it — every object main.go provides to the facebookgo inject graph: config (MockConfig),
// peer.FilePeers{Done}, pubsub.LocalPubSub (PeerManagement.Type "file"; the redis pair needs a Redis server and is not
// exercised), logger, both transports, both real DirectTransmission (upstream compressed iff z=1), the sharder main
// picks (DeterministicSharder), real InMemCollector, promMetrics / otelMetrics (NullMetrics: both disabled), tracer,
// clock, MultiMetrics, version, SamplerFactory, collect.StressRelief{Done} in the configured mode, health.Health,
// configwatcher.ConfigWatcher, app.App (which starts the OpAMP agent iff OpAMP.Enabled; its endpoint is a closed port
// on 127.0.0.1), instanceID — started with startstop.Start; shutdown as main does it: close(done), then
// startstop.Stop over g.Objects() (under recover: a panic is the observation err=panic:<message>).
//
//	rtev <sid>       a complete POST /1/batch/d0 with one non-trace event (goes straight to the upstream
//	                 transmission, where it stays pending: MaxBatchSize 500, BatchTimeout 1 h)   obs  ok st=<status> pend=<n>
//	inflight <sid>   a second client starts such an upload (Expect: 100-continue: the handler is running) and
//	                 stops half way through the body                                              obs  ok
//	stopall          startstop.Stop in its own goroutine; 50 ms later the uploads in flight are completed one after the
//	                 other and their answers read; bounded wait (20 s) for Stop
//	                 obs  err=<nil|deadline|…> coll=<0|1> up=<0|1> peer=<0|1> st=<status,…> u=<batch the fake Honeycomb got>
//
// retry cases (header kind=retry mb=<MaxBatchSize> r=<Retry-After s, 1..59> code=<429|503> lim=<one 0|1 per
// destination: rate limited> nd=<n>): a real DirectTransmission (fake clock, BatchTimeout 1000 h so that only the
// batch size and Stop dispatch) in front of a scripted upstream: a limited destination refuses from the first
// attempt it sees (fake time t) until t+r with <code> + Retry-After = time left, and accepts from then on.
//
//	rev <sid> <dest>   EnqueueEvent                      obs  <ok|panic|blocked> u=<batches delivered> sl=<batches asleep> early=<n> rej=<n>
//	radv <s>           the fake clock advances s seconds (same)
//	rstop              DirectTransmission.Stop while a second goroutine keeps advancing the fake clock (1 s steps,
//	                   at most 600) until Stop returns        (same; early = retries that arrived before the announced
//	                   instant, rej = batches refused a second time)
//
// every obs but gor/agent/ag*/r*/panic ends with  h=<sid[!p|!b],…|-> u=<d<dest>:<sid.sid…>,…|->
// (handed to the transmission in this op, in order; batches the fake Honeycomb received, sorted).
package main

import (
	"bufio"
	"context"
	"fmt"
	"io"
	"net"
	"net/http"
	"net/http/httptest"
	"runtime"
	"sort"
	"strconv"
	"strings"
	"sync"
	"time"

	"github.com/facebookgo/inject"
	"github.com/facebookgo/startstop"
	"github.com/jonboulle/clockwork"
	"github.com/klauspost/compress/zstd"
	"github.com/open-telemetry/opamp-go/client"
	types2 "github.com/open-telemetry/opamp-go/client/types"
	"github.com/open-telemetry/opamp-go/protobufs"
	"github.com/tinylib/msgp/msgp"
	"go.opentelemetry.io/otel/trace/noop"

	"github.com/honeycombio/refinery/agent"
	"github.com/honeycombio/refinery/app"
	"github.com/honeycombio/refinery/collect"
	"github.com/honeycombio/refinery/config"
	"github.com/honeycombio/refinery/internal/configwatcher"
	"github.com/honeycombio/refinery/internal/health"
	"github.com/honeycombio/refinery/internal/peer"
	kit "github.com/honeycombio/refinery/internal/verifkit"
	"github.com/honeycombio/refinery/logger"
	"github.com/honeycombio/refinery/metrics"
	"github.com/honeycombio/refinery/pubsub"
	"github.com/honeycombio/refinery/sample"
	"github.com/honeycombio/refinery/sharder"
	"github.com/honeycombio/refinery/transmit"
	"github.com/honeycombio/refinery/types"
)

const (
	stuck       = 20 * time.Second
	earlyWindow = 5 * time.Millisecond
	staleMetric = "libhoney_upstream_stale_dispatch_time"
)

func waitFor(what string, cond func() bool) {
	deadline := time.Now().Add(stuck)
	for i := 0; !cond(); i++ {
		if i < 32 {
			runtime.Gosched()
		} else {
			time.Sleep(20 * time.Microsecond)
		}
		if time.Now().After(deadline) {
			panic("stuck waiting for " + what)
		}
	}
}

func blockUntil(c *clockwork.FakeClock, n int) {
	ctx, cancel := context.WithTimeout(context.Background(), stuck)
	defer cancel()
	if err := c.BlockUntilContext(ctx, n); err != nil {
		panic("stuck waiting for tickers")
	}
}

type nullHealth struct{}

func (nullHealth) Register(string, time.Duration) {}
func (nullHealth) Unregister(string)              {}
func (nullHealth) Ready(string, bool)             {}

// ---------------------------------------------------------------------------- metrics with a hook

// hookMetrics is the Metrics the collector gets: metrics.NullMetrics, except that
//   - when armed, the first Histogram("trace_kept_sample_rate") — send() calls it right before the
//     hand-over `i.tracesToSend <- trace` — parks the calling worker until released;
//   - Histogram("collector_send_expired_traces_in_cache_dur_ms") is called by a deferred function of
//     sendExpiredTracesInCache; when it runs because the pass is panicking (runtime.gopanic on the
//     stack) the panic is recorded and the goroutine is kept there for ever, so that a panic in a
//     goroutine the harness does not own is an observation instead of the end of the process.
type hookMetrics struct {
	*metrics.NullMetrics
	mu       sync.Mutex
	armed    bool
	reached  chan struct{}
	release  chan struct{}
	panicked string
}

func (h *hookMetrics) arm() {
	h.mu.Lock()
	h.armed, h.reached, h.release = true, make(chan struct{}), make(chan struct{})
	h.mu.Unlock()
}

func (h *hookMetrics) disarm() { h.mu.Lock(); h.armed = false; h.mu.Unlock() }

func (h *hookMetrics) panicKind() string { h.mu.Lock(); defer h.mu.Unlock(); return h.panicked }

func panicking() string {
	var pcs [40]uintptr
	n := runtime.Callers(2, pcs[:])
	frames := runtime.CallersFrames(pcs[:n])
	pan, send := false, false
	for {
		f, more := frames.Next()
		switch f.Function {
		case "runtime.gopanic":
			pan = true
		case "runtime.chansend", "runtime.chansend1":
			send = true
		}
		if !more {
			break
		}
	}
	if !pan {
		return ""
	}
	if send {
		return "chansend"
	}
	return "other"
}

func (h *hookMetrics) Histogram(name string, v float64) {
	switch name {
	case "trace_kept_sample_rate":
		h.mu.Lock()
		if !h.armed {
			h.mu.Unlock()
			return
		}
		h.armed = false
		reached, release := h.reached, h.release
		h.mu.Unlock()
		close(reached)
		<-release
	case "collector_send_expired_traces_in_cache_dur_ms":
		if k := panicking(); k != "" {
			h.mu.Lock()
			h.panicked = k
			h.mu.Unlock()
			select {}
		}
	}
}

// ---------------------------------------------------------------------------- fake Honeycomb

type upstream struct {
	mu      sync.Mutex
	batches []string // d<dest>:<sid.sid…>
	events  int
}

func decodeIDs(b []byte) ([]int64, error) {
	n, b, err := msgp.ReadArrayHeaderBytes(b)
	if err != nil {
		return nil, err
	}
	ids := make([]int64, 0, n)
	for i := uint32(0); i < n; i++ {
		var m uint32
		if m, b, err = msgp.ReadMapHeaderBytes(b); err != nil {
			return nil, err
		}
		id := int64(-1)
		for j := uint32(0); j < m; j++ {
			var k []byte
			if k, b, err = msgp.ReadMapKeyZC(b); err != nil {
				return nil, err
			}
			if string(k) != "data" {
				if b, err = msgp.Skip(b); err != nil {
					return nil, err
				}
				continue
			}
			var dm uint32
			if dm, b, err = msgp.ReadMapHeaderBytes(b); err != nil {
				return nil, err
			}
			for x := uint32(0); x < dm; x++ {
				var dk []byte
				if dk, b, err = msgp.ReadMapKeyZC(b); err != nil {
					return nil, err
				}
				if string(dk) == "id" {
					var v any
					if v, b, err = msgp.ReadIntfBytes(b); err != nil {
						return nil, err
					}
					switch x := v.(type) {
					case int64:
						id = x
					case uint64:
						id = int64(x)
					case float64:
						id = int64(x)
					case int:
						id = int64(x)
					}
				} else if b, err = msgp.Skip(b); err != nil {
					return nil, err
				}
			}
		}
		ids = append(ids, id)
	}
	return ids, nil
}

var zdec, _ = zstd.NewReader(nil)

func (u *upstream) ServeHTTP(w http.ResponseWriter, req *http.Request) {
	if req.Method != "POST" || !strings.HasPrefix(req.URL.Path, "/1/batch/") {
		// not from the code under test (a probe or an OpAMP dial of another harness process that was given this port)
		http.NotFound(w, req)
		return
	}
	body, _ := io.ReadAll(req.Body)
	if req.Header.Get("Content-Encoding") == "zstd" {
		if dec, derr := zdec.DecodeAll(body, nil); derr == nil {
			body = dec
		}
	}
	ids, err := decodeIDs(body)
	ds := strings.TrimPrefix(req.URL.Path, "/1/batch/")
	parts := make([]string, len(ids))
	for i, id := range ids {
		parts[i] = strconv.FormatInt(id, 10)
	}
	rec := ds + ":" + strings.Join(parts, ".")
	if err != nil {
		rec = ds + ":!undecodable"
	}
	u.mu.Lock()
	u.batches = append(u.batches, rec)
	u.events += len(ids)
	u.mu.Unlock()
	w.Header().Set("Content-Type", "application/json")
	resp := make([]string, len(ids))
	for i := range resp {
		resp[i] = `{"status":202}`
	}
	fmt.Fprintf(w, "[%s]", strings.Join(resp, ","))
}

func (u *upstream) received() int {
	u.mu.Lock()
	defer u.mu.Unlock()
	return u.events
}

func (u *upstream) take() string {
	u.mu.Lock()
	b := u.batches
	u.batches = nil
	u.mu.Unlock()
	if len(b) == 0 {
		return "-"
	}
	sort.Strings(b)
	return strings.Join(b, ",")
}

// ---------------------------------------------------------------------------- recording transmission

type recTx struct {
	real     *transmit.DirectTransmission
	call     sync.Mutex // one EnqueueEvent at a time
	mu       sync.Mutex
	log      []string // sid, sid!p, sid!b
	n        int      // spans handed over by the collector so far
	ok       int      // events EnqueueEvent accepted
	stopped  bool     // DirectTransmission.Stop has been called
	stall    chan struct{}
	sentinel bool
}

func sidOf(ev *types.Event) int64 {
	if v, ok := ev.Data.Get("id").(int64); ok {
		return v
	}
	return -1
}

// enqueue calls the real EnqueueEvent.  "" = returned; "p" = panicked with the nil-map write;
// "b" = would block for ever (batchMutex was never released by an earlier panic; not called).
func (t *recTx) enqueue(ev *types.Event) (out string) {
	t.call.Lock()
	defer t.call.Unlock()
	if t.stopped && transmit.VerifShutdownLockHeld(t.real) {
		return "b"
	}
	defer func() {
		if e := recover(); e != nil {
			if strings.Contains(fmt.Sprint(e), "assignment to entry in nil map") {
				out = "p"
				return
			}
			panic(e)
		}
	}()
	t.real.EnqueueEvent(ev)
	t.mu.Lock()
	t.ok++
	t.mu.Unlock()
	return ""
}

func fromSendTraces() bool {
	var pcs [24]uintptr
	n := runtime.Callers(3, pcs[:])
	frames := runtime.CallersFrames(pcs[:n])
	for {
		f, more := frames.Next()
		if strings.HasSuffix(f.Function, "(*InMemCollector).sendTraces") {
			return true
		}
		if !more {
			return false
		}
	}
}

func (t *recTx) EnqueueEvent(ev *types.Event) { t.hand(ev) }

func (t *recTx) EnqueueSpan(sp *types.Span) {
	if sp.TraceID == "sentinel" {
		t.mu.Lock()
		t.sentinel = true
		t.mu.Unlock()
		return
	}
	t.hand(sp.Event)
}

func (t *recTx) hand(ev *types.Event) {
	t.mu.Lock()
	st := t.stall
	t.mu.Unlock()
	if st != nil && fromSendTraces() {
		<-st
	}
	out := t.enqueue(ev)
	s := strconv.FormatInt(sidOf(ev), 10)
	if out != "" {
		s += "!" + out
	}
	t.mu.Lock()
	t.log = append(t.log, s)
	t.n++
	t.mu.Unlock()
}

func (t *recTx) handed() int {
	t.mu.Lock()
	defer t.mu.Unlock()
	return t.n
}

func (t *recTx) take() string {
	t.mu.Lock()
	l := t.log
	t.log = nil
	t.mu.Unlock()
	if len(l) == 0 {
		return "-"
	}
	return strings.Join(l, ",")
}

// ---------------------------------------------------------------------------- goroutine profile

type gInfo struct {
	id      string
	state   string
	creator string
	text    string
}

func goroutines() []gInfo {
	buf := make([]byte, 1<<20)
	for {
		n := runtime.Stack(buf, true)
		if n < len(buf) {
			buf = buf[:n]
			break
		}
		buf = make([]byte, 2*len(buf))
	}
	var out []gInfo
	for _, blk := range strings.Split(string(buf), "\n\n") {
		lines := strings.Split(strings.TrimSpace(blk), "\n")
		if len(lines) == 0 || !strings.HasPrefix(lines[0], "goroutine ") {
			continue
		}
		f := strings.Fields(lines[0])
		g := gInfo{id: f[1], text: blk}
		if i := strings.Index(lines[0], "["); i >= 0 {
			g.state = strings.TrimSuffix(strings.TrimSuffix(lines[0][i+1:], ":"), "]")
			if j := strings.Index(g.state, ","); j >= 0 {
				g.state = g.state[:j]
			}
		}
		for _, l := range lines {
			if strings.HasPrefix(l, "created by ") {
				c := strings.TrimPrefix(l, "created by ")
				if j := strings.Index(c, " in goroutine"); j >= 0 {
					c = c[:j]
				}
				g.creator = c
			}
		}
		out = append(out, g)
	}
	return out
}

// ---------------------------------------------------------------------------- generator

type comp struct {
	hdr   string
	hist  []string
	next  int
	seed  uint64
	fresh bool
	agent bool
	kind  string
}

func (c *comp) newHistory(r *kit.Rng, maxLen int) {
	workers := 1 + r.Intn(3)
	tt := []int64{300, 500}[r.Intn(2)] * 1e6
	sd := []int64{100, 200}[r.Intn(2)] * 1e6
	mb := []int{1, 2, 3, 5}[r.Intn(4)]
	nd := 1 + r.Intn(3)
	u := 2 + r.Intn(5)
	keep := make([]byte, u)
	for i := range keep {
		keep[i] = '0'
		if r.Chance(65) {
			keep[i] = '1'
		}
	}
	c.hdr = fmt.Sprintf("workers=%d tt=%d sd=%d p=100000000 bto=400000000 mb=%d nd=%d keep=%s", workers, tt, sd, mb, nd, keep)
	n := 5 + r.Intn(maxLen)
	sid, evid := 0, 1000
	held := false
	var ops []string
	for len(ops) < n {
		switch r.Pick(50, 20, 10, 6, 8, 5) {
		case 0:
			t := r.Intn(u)
			sid++
			root, peerf := 0, 0
			if r.Chance(30) {
				root = 1
			}
			if r.Chance(25) {
				peerf = 1
			}
			dest := t % nd
			if r.Chance(10) {
				dest = r.Intn(nd)
			}
			ops = append(ops, fmt.Sprintf("span %d %d %d %d %d %d", 1+r.Intn(3), t, sid, root, peerf, dest))
		case 1:
			ops = append(ops, "tick 100000000")
		case 2:
			ops = append(ops, "fwd")
		case 3:
			evid++
			ops = append(ops, fmt.Sprintf("ev %d %d", evid, r.Intn(nd)))
		case 4:
			ops = append(ops, "txtick 100000000")
		case 5:
			if workers >= 2 && !held {
				held = true
				ops = append(ops, fmt.Sprintf("hold %d", r.Intn(workers-1)))
			}
		}
	}
	c.hist = ops
	c.next = 0
	c.seed = r.Next()
}

// Gen: a history of ingestion operations is generated once and then cut at every prefix (the
// crash points); each case is one prefix followed by a shutdown sequence.
// newAgentHistory: a scripted OpAMP client and a sequence of usage recordings, usage ticks and
// "message sent" events; Agent.Stop is requested at every prefix.
func (c *comp) newAgentHistory(r *kit.Rng) {
	n := r.Intn(5)
	sc := make([]string, n)
	for i := range sc {
		sc[i] = []string{"o", "o", "p", "p", "p", "f", "O", "P"}[r.Intn(8)]
	}
	script := "-"
	if n > 0 {
		script = strings.Join(sc, ".")
	}
	c.hdr = "kind=agent script=" + script
	ops := []string{"agnew"}
	m := 3 + r.Intn(8)
	for len(ops) < m {
		ops = append(ops, []string{"agadd", "agtick", "agsent"}[r.Pick(30, 45, 25)])
	}
	c.hist = ops
	c.next = 1
	c.seed = r.Next()
	c.agent = true
}

// newRetryHistory: a rate-limited upstream; events are enqueued and the clock advances (often to just
// before / onto / just past the end of the Retry-After interval); Stop is requested at every prefix.
func (c *comp) newRetryHistory(r *kit.Rng) {
	mb := 1 + r.Intn(3)
	ra := []int{1, 2, 5, 30, 59}[r.Intn(5)]
	code := []int{429, 503}[r.Intn(2)]
	nd := 1 + r.Intn(2)
	lim := make([]byte, nd)
	for i := range lim {
		lim[i] = '0'
		if i == 0 || r.Chance(50) {
			lim[i] = '1'
		}
	}
	c.hdr = fmt.Sprintf("kind=retry mb=%d r=%d code=%d lim=%s nd=%d", mb, ra, code, lim, nd)
	var ops []string
	m := 2 + r.Intn(7)
	sid := 0
	for len(ops) < m {
		if r.Chance(65) {
			sid++
			ops = append(ops, fmt.Sprintf("rev %d %d", sid, r.Intn(nd)))
		} else {
			adv := []int{1, ra - 1, ra, ra + 1, 2}[r.Intn(5)]
			if adv < 1 {
				adv = 1
			}
			ops = append(ops, fmt.Sprintf("radv %d", adv))
		}
	}
	c.hist = ops
	c.next = 1
	c.seed = r.Next()
	c.kind = "retry"
}

func (c *comp) Gen(r *kit.Rng, maxLen int, tier string) kit.Case {
	if c.hist == nil || c.next > len(c.hist) {
		c.kind = ""
		if x := r.Intn(100); x < 10 {
			// router history: complete uploads and uploads left in flight; stopall at every prefix
			c.agent = false
			c.hdr = fmt.Sprintf("kind=router opamp=%d stress=%s dry=%d z=%d", r.Intn(2), []string{"never", "monitor", "always"}[r.Intn(3)], r.Intn(2), r.Intn(2))
			var ops []string
			m := 1 + r.Intn(4)
			for i := 1; i <= m; i++ {
				if r.Chance(50) {
					ops = append(ops, fmt.Sprintf("rtev %d", i))
				} else {
					ops = append(ops, fmt.Sprintf("inflight %d", i))
				}
			}
			c.hist, c.next, c.seed, c.kind = ops, 1, r.Next(), "router"
		} else if x < 28 {
			c.agent = false
			c.newRetryHistory(r)
		} else if x < 60 {
			c.newAgentHistory(r)
		} else {
			c.agent = false
			c.newHistory(r, maxLen)
		}
	}
	k := c.next
	c.next++
	tr := kit.NewRng(c.seed + uint64(k)*0x9e37)
	ops := append([]string{}, c.hist[:k]...)
	if c.kind == "router" {
		return kit.Case{Header: c.hdr, Ops: append(ops, "stopall")}
	}
	if c.kind == "retry" {
		ops = append(ops, "rstop")
		if tr.Chance(25) {
			ops = append(ops, fmt.Sprintf("rev %d 0", 900+k), "radv 3", fmt.Sprintf("rev %d 0", 950+k))
		}
		return kit.Case{Header: c.hdr, Ops: ops}
	}
	if c.agent {
		ops = append(ops, "agstop")
		if tr.Chance(20) {
			ops = append(ops, "agtick", "agsent")
		}
		return kit.Case{Header: c.hdr, Ops: ops}
	}
	u := len(kit.KV(strings.Fields(c.hdr), "keep"))
	late := func(n int) []string {
		var o []string
		for i := 0; i < n; i++ {
			o = append(o, fmt.Sprintf("span 1 %d %d 0 %d 0", tr.Intn(u), 500+k*4+i, tr.Intn(2)))
		}
		return o
	}
	switch tr.Pick(52, 9, 7, 5, 6, 5, 16) {
	case 0:
		ops = append(ops, "stop", "txstop", "gor")
	case 1: // data arriving after the stops
		ops = append(ops, "stop")
		ops = append(ops, late(1+tr.Intn(2))...)
		ops = append(ops, "txstop", fmt.Sprintf("ev %d 0", 900+k), fmt.Sprintf("ev %d 0", 950+k), "gor")
	case 2: // transmission stopped first
		ops = append(ops, "txstop", "stop", "gor")
	case 3: // stopped twice
		ops = append(ops, "stop", "stop", "txstop", "txstop", "gor")
	case 4: // clocks keep running between the stops
		ops = append(ops, "stop", "tick 100000000", "fwd", "txtick 100000000", "txstop", "gor")
	case 5:
		ops = append(ops, "agent", "stop", "txstop", "gor")
	case 6: // Stop lands inside a decision pass (after 0-4 more ticks, so that something is due)
		for j := tr.Intn(5); j > 0; j-- {
			ops = append(ops, "tick 100000000")
		}
		ops = append(ops, "tickstop 100000000", "txstop", "gor")
	}
	return kit.Case{Header: c.hdr, Ops: ops}
}

// ---------------------------------------------------------------------------- runner

type runner struct {
	workers    int
	p          time.Duration
	bto        time.Duration
	keep       string
	conf       *config.MockConfig
	clock      *clockwork.FakeClock
	txclock    *clockwork.FakeClock
	up         *upstream
	srv        *httptest.Server
	tr         *http.Transport
	met        *metrics.MockMetrics
	dt         *transmit.DirectTransmission
	tx         *recTx
	sf         *sample.SamplerFactory
	ps         *pubsub.LocalPubSub
	coll       *collect.InMemCollector
	gate       *collect.VerifShutdownGate
	rel        []chan struct{}
	held       map[int]bool
	stopped    bool
	pendingT   int // traces waiting behind the gate
	baseline   map[string]bool
	wdone      chan struct{}
	agents     []*agent.VerifShutdownAgent
	hook       *hookMetrics
	ptx        *transmit.MockTransmission
	auxStopped bool
}

func (c *comp) NewCase(h []string) kit.Runner {
	if kit.KV(h, "kind") == "agent" {
		return &agentRunner{script: kit.KV(h, "script")}
	}
	if kit.KV(h, "kind") == "retry" {
		return newRetryRunner(h)
	}
	if kit.KV(h, "kind") == "router" {
		return newRouterRunner(h)
	}
	atoi := func(k string, d int64) int64 {
		v, err := strconv.ParseInt(kit.KV(h, k), 10, 64)
		if err != nil {
			return d
		}
		return v
	}
	r := &runner{workers: int(atoi("workers", 1)), p: time.Duration(atoi("p", 1e8)), bto: time.Duration(atoi("bto", 4e8)),
		keep: kit.KV(h, "keep"), held: map[int]bool{}, baseline: map[string]bool{}, wdone: make(chan struct{})}
	for _, g := range goroutines() {
		r.baseline[g.id] = true
	}
	if r.workers < 1 {
		r.workers = 1
	}
	r.conf = &config.MockConfig{
		GetTracesConfigVal: config.TracesConfig{
			SendTicker:   config.Duration(r.p),
			SendDelay:    config.Duration(atoi("sd", 2e8)),
			TraceTimeout: config.Duration(atoi("tt", 5e8)),
			MaxBatchSize: uint(atoi("mb", 1)),
		},
		SampleCache: config.SampleCacheConfig{
			KeptSize:          uint(200 * r.workers),
			DroppedSize:       uint(2000 * r.workers),
			SizeCheckInterval: config.Duration(time.Hour),
			WorkerCount:       uint(r.workers),
		},
		GetCollectionConfigVal: config.CollectionConfig{
			WorkerCount:       r.workers,
			IncomingQueueSize: 256 * r.workers,
			PeerQueueSize:     256 * r.workers,
		},
		Samplers: map[string]*config.V2SamplerChoice{
			"ek":          {DeterministicSampler: &config.DeterministicSamplerConfig{SampleRate: 1}},
			"ed":          {RulesBasedSampler: &config.RulesBasedSamplerConfig{Rules: []*config.RulesBasedSamplerRule{{Name: "drop everything", Drop: true}}}},
			"__default__": {DeterministicSampler: &config.DeterministicSamplerConfig{SampleRate: 1}},
		},
		TraceIdFieldNames:  []string{"trace.trace_id"},
		ParentIdFieldNames: []string{"trace.parent_id"},
	}
	r.clock = clockwork.NewFakeClock()
	r.txclock = clockwork.NewFakeClock()
	r.up = &upstream{}
	r.srv = httptest.NewServer(r.up)
	r.tr = &http.Transport{}
	r.met = &metrics.MockMetrics{}
	r.met.Start()
	r.dt = transmit.NewDirectTransmission(types.TransmitTypeUpstream, r.tr, int(atoi("mb", 1)), r.bto, 10*time.Second, false, nil)
	r.dt.Config = r.conf
	r.dt.Logger = &logger.NullLogger{}
	r.dt.Metrics = r.met
	r.dt.Version = "verif"
	r.dt.Clock = r.txclock
	if err := r.dt.Start(); err != nil {
		panic(err)
	}
	blockUntil(r.txclock, 2) // the stale-batch goroutine has created its two tickers
	r.tx = &recTx{real: r.dt}
	ptx := &transmit.MockTransmission{Capacity: 16}
	ptx.Start()
	r.ptx = ptx
	nm := &metrics.NullMetrics{}
	r.hook = &hookMetrics{NullMetrics: nm}
	r.sf = &sample.SamplerFactory{Config: r.conf, Metrics: nm, Logger: &logger.NullLogger{}}
	if err := r.sf.Start(); err != nil {
		panic(err)
	}
	r.ps = &pubsub.LocalPubSub{Config: r.conf, Metrics: nm}
	r.ps.Start()
	r.coll = &collect.InMemCollector{
		Config:           r.conf,
		Clock:            r.clock,
		Logger:           &logger.NullLogger{},
		Tracer:           noop.NewTracerProvider().Tracer("verif"),
		Health:           nullHealth{},
		Transmission:     r.tx,
		PeerTransmission: ptx,
		PubSub:           r.ps,
		Metrics:          r.hook,
		StressRelief:     &collect.MockStressReliever{},
		SamplerFactory:   r.sf,
		Peers:            peer.NewMockPeers([]string{"api1"}, "api1"),
		Sharder:          &sharder.MockSharder{Self: &sharder.TestShard{Addr: "api1"}},
	}
	if err := r.coll.Start(); err != nil {
		panic(err)
	}
	r.workers = collect.VerifShutdownNumWorkers(r.coll)
	blockUntil(r.clock, r.workers+1) // every worker and the monitor have created their tickers
	r.rel = make([]chan struct{}, r.workers)
	for w := 0; w < r.workers; w++ {
		r.park(w)
	}
	collect.VerifShutdownOnWorkersDone(r.coll, func() { close(r.wdone) })
	collect.VerifShutdownSentinel(r.coll, &types.Span{TraceID: "sentinel", Event: r.event(-1, 0, "ek")})
	waitFor("sentinel", func() bool { r.tx.mu.Lock(); defer r.tx.mu.Unlock(); return r.tx.sentinel })
	r.gate = collect.VerifShutdownNewGate(r.coll)
	return r
}

func (r *runner) event(sid int64, dest int, env string) *types.Event {
	return &types.Event{
		Context:     context.Background(),
		APIHost:     r.srv.URL,
		APIKey:      "key0123456789abcdefghij",
		Dataset:     fmt.Sprintf("d%d", dest),
		Environment: env,
		SampleRate:  1,
		Timestamp:   time.Unix(1700000000, 0),
		Data:        types.NewPayload(r.conf, map[string]any{"id": sid}),
	}
}

func (r *runner) park(w int)   { r.rel[w] = collect.VerifShutdownPark(r.coll, w) }
func (r *runner) unpark(w int) { close(r.rel[w]); r.rel[w] = nil }

// settle waits until the fake Honeycomb has everything that was dispatched.
func (r *runner) settle() {
	if r.tx.stopped {
		return // Stop has waited for its dispatch pool: whatever is going to arrive has arrived
	}
	waitFor("dispatched batches to arrive", func() bool {
		pend := transmit.VerifShutdownPending(r.dt)
		if pend < 0 {
			return false
		}
		r.tx.mu.Lock()
		ok := r.tx.ok
		r.tx.mu.Unlock()
		return r.up.received() == ok-pend
	})
}

func (r *runner) tail() string {
	r.settle()
	return " h=" + r.tx.take() + " u=" + r.up.take()
}

func tnum(id string) int {
	n, err := strconv.Atoi(strings.TrimPrefix(id, "t"))
	if err != nil {
		return -1
	}
	return n
}

func (r *runner) buffered(w int) map[string]int {
	m := map[string]int{}
	for _, t := range collect.VerifShutdownBuffered(r.coll, w) {
		m[t.ID] = t.Spans
	}
	return m
}

func (r *runner) envOf(t int) string {
	if t >= 0 && t < len(r.keep) && r.keep[t] == '0' {
		return "ed"
	}
	return "ek"
}

func (r *runner) Do(op []string) (string, bool) {
	arg := func(i int) int {
		if i >= len(op) {
			return 0
		}
		n, _ := strconv.Atoi(op[i])
		return n
	}
	switch op[0] {
	case "span":
		dt, t, sid, root, peerf, dest := arg(1), arg(2), arg(3), arg(4), arg(5), arg(6)
		tid := fmt.Sprintf("t%d", t)
		w := collect.VerifShutdownOwner(r.coll, tid)
		kit.Ext("owner = %d", w)
		r.clock.Advance(time.Duration(dt))
		sp := &types.Span{TraceID: tid, IsRoot: root == 1, Event: r.event(int64(sid), dest, r.envOf(t))}
		before := r.buffered2(w)
		h0 := r.tx.handed()
		var err error
		if peerf == 1 {
			err = r.coll.AddSpanFromPeer(sp) // after Stop: panics (send on closed channel), reported by the kit
		} else {
			err = r.coll.AddSpan(sp)
		}
		if err != nil {
			return "err", true
		}
		if r.held[w] {
			return "q" + r.tail(), true
		}
		r.unpark(w)
		waitFor("span to be taken", func() bool {
			a, b := collect.VerifShutdownQueueLens(r.coll, w)
			return a+b == 0
		})
		r.park(w)
		kind := "drop"
		if r.tx.handed() > h0 {
			kind = "fw"
		} else if r.buffered(w)[tid] == before[tid]+1 {
			kind = "buf"
		}
		return kind + r.tail(), true
	case "hold":
		w := arg(1)
		if r.stopped || w+1 >= r.workers || w < 0 || r.held[w] {
			return "refused" + r.tail(), true
		}
		r.held[w] = true // the worker is parked already and stays so until stop
		return "ok" + r.tail(), true
	case "tick":
		if time.Duration(arg(1)) != r.p {
			return "bad-op", true
		}
		r.clock.Advance(r.p)
		if r.stopped {
			return "dec=- kept=-" + r.tail(), true
		}
		now := r.clock.Now()
		type dec struct{ t, w int }
		var decs []dec
		for w := 0; w < r.workers; w++ {
			if r.held[w] {
				continue
			}
			before := r.buffered(w)
			r.unpark(w)
			waitFor("worker tick", func() bool { return collect.VerifShutdownTicked(r.coll, w, now) })
			r.park(w)
			after := r.buffered(w)
			for id := range before {
				if _, still := after[id]; !still {
					decs = append(decs, dec{tnum(id), w})
				}
			}
		}
		keptL := r.gate.Collect()
		r.pendingT += len(keptL)
		keptSet := map[int]bool{}
		ks := make([]string, len(keptL))
		for i, k := range keptL {
			keptSet[tnum(k.ID)] = true
			ks[i] = strconv.Itoa(tnum(k.ID))
		}
		sort.Slice(decs, func(a, b int) bool {
			if decs[a].t != decs[b].t {
				return decs[a].t < decs[b].t
			}
			return decs[a].w < decs[b].w
		})
		ds := make([]string, len(decs))
		for i, d := range decs {
			ds[i] = fmt.Sprintf("%d:d", d.t)
			if keptSet[d.t] {
				ds[i] = fmt.Sprintf("%d:k", d.t)
			}
		}
		return "dec=" + list(ds) + " kept=" + list(ks) + r.tail(), true
	case "fwd":
		if r.stopped {
			return "idle" + r.tail(), true
		}
		h0 := r.tx.handed()
		t, ok := r.gate.ReleaseOne()
		if !ok {
			return "idle" + r.tail(), true
		}
		r.pendingT--
		waitFor("trace to be forwarded", func() bool { return r.tx.handed() == h0+t.Spans })
		return fmt.Sprintf("t=%d", tnum(t.ID)) + r.tail(), true
	case "ev":
		out := r.tx.enqueue(r.event(int64(arg(1)), arg(2), "ek"))
		return map[string]string{"": "ok", "p": "panic", "b": "blocked"}[out] + r.tail(), true
	case "txtick":
		if time.Duration(arg(1)) != r.bto/4 {
			return "bad-op", true
		}
		n0 := r.met.GetHistogramCount(staleMetric)
		r.txclock.Advance(r.bto / 4)
		if !r.tx.stopped {
			waitFor("stale-batch pass", func() bool { return r.met.GetHistogramCount(staleMetric) == n0+1 })
		}
		return "ok" + r.tail(), true
	case "stop":
		if r.stopped {
			r.coll.Stop() // panics: close of closed channel (reported by the kit)
			return "returned", true
		}
		early, _, _ := r.stopCollector(false)
		return r.afterStop("", early, "") + r.tail(), true
	case "tickstop":
		if time.Duration(arg(1)) != r.p {
			return "bad-op", true
		}
		r.clock.Advance(r.p)
		if r.stopped {
			return "refused" + r.tail(), true
		}
		early, decs, pan := r.stopCollector(true)
		sort.Ints(decs)
		ds := make([]string, len(decs))
		for i, t := range decs {
			ds[i] = strconv.Itoa(t)
		}
		if pan == "" {
			pan = "-"
		}
		return r.afterStop("dec="+list(ds)+" ", early, " panic="+pan) + r.tail(), true
	case "txstop":
		fl := r.stopTx()
		pend := transmit.VerifShutdownPending(r.dt)
		return fmt.Sprintf("pend=%d fl=%d", pend, fl) + r.tail(), true
	case "gor":
		r.stopAux()
		return "left=" + r.leftover(), true
	case "agent":
		return r.agentStop(), true
	}
	return "bad-op", true
}

func (r *runner) buffered2(w int) map[string]int {
	if r.stopped {
		return nil
	}
	return r.buffered(w)
}

func list(l []string) string {
	if len(l) == 0 {
		return "-"
	}
	return strings.Join(l, ",")
}

// afterStop describes what is left in the workers once Stop is over.
func (r *runner) afterStop(pre string, early int, post string) string {
	var left []int
	q := 0
	for w := 0; w < r.workers; w++ {
		for id := range r.buffered(w) {
			left = append(left, tnum(id))
		}
		a, b := collect.VerifShutdownQueueLens(r.coll, w)
		q += a + b
	}
	sort.Ints(left)
	ls := make([]string, len(left))
	for i, t := range left {
		ls[i] = strconv.Itoa(t)
	}
	return fmt.Sprintf("%sleft=%s q=%d early=%d%s", pre, list(ls), q, early, post)
}

func (r *runner) sendTracesAlive() bool {
	for _, g := range goroutines() {
		if !r.baseline[g.id] && strings.Contains(g.text, "(*InMemCollector).sendTraces(") {
			return true
		}
	}
	return false
}

// stopCollector runs the exported Stop.  early = 1: Stop returned while the sendTraces goroutine
// was still held back with traces to forward.  With mid (the clock has just been advanced by one
// ticker period) the workers first tick one after the other and the first one that reaches the
// hand-over of a kept trace is parked right before `i.tracesToSend <- trace`; Stop is started, and
// the worker is released once Stop has closed the input channels (and, should Stop close
// tracesToSend without waiting for the workers, once the sendTraces goroutine has gone or 5 ms have
// passed).  decs = traces decided in that tick, pan = the kind of panic a worker ran into.
func (r *runner) stopCollector(mid bool) (early int, decs []int, pan string) {
	anyHeld := len(r.held) > 0
	stall := r.pendingT > 0 || anyHeld || mid
	var st chan struct{}
	if stall {
		st = make(chan struct{})
		r.tx.mu.Lock()
		r.tx.stall = st
		r.tx.mu.Unlock()
	}
	r.pendingT = r.gate.Restore()
	wstar := -1
	var beforeStar map[string]int
	if mid {
		now := r.clock.Now()
		r.hook.arm()
		for w := 0; w < r.workers; w++ {
			if r.held[w] {
				continue
			}
			before := r.buffered(w)
			r.unpark(w)
			waitFor("worker tick", func() bool { return collect.VerifShutdownTicked(r.coll, w, now) })
			ch, ok := collect.VerifShutdownParkOr(r.coll, w, r.hook.reached)
			if !ok {
				wstar, beforeStar = w, before
				break
			}
			r.rel[w] = ch
			after := r.buffered(w)
			for id := range before {
				if _, still := after[id]; !still {
					decs = append(decs, tnum(id))
				}
			}
		}
		if wstar < 0 {
			r.hook.disarm()
		}
	}
	done := make(chan struct{})
	var pn any
	go func() {
		defer close(done)
		defer func() { pn = recover() }()
		r.coll.Stop()
	}()
	// Stop closes the workers' channels in index order; the last worker is never held, its queues are empty
	waitFor("Stop to close the worker channels", func() bool {
		select {
		case <-done:
			return true
		default:
		}
		return collect.VerifShutdownClosed(r.coll, r.workers-1)
	})
	if wstar >= 0 {
		deadline := time.Now().Add(5 * time.Millisecond)
		for r.sendTracesAlive() && time.Now().Before(deadline) {
			time.Sleep(200 * time.Microsecond)
		}
		close(r.hook.release)
	}
	for w := 0; w < r.workers; w++ {
		if r.rel[w] != nil {
			r.unpark(w)
		}
	}
	// workersWG.Wait() has returned when Stop stops worker 0's decision cache (hook); should the
	// code under test not do that any more, go on after a while
	wait := time.After(3 * time.Second)
waitWorkers:
	for {
		select {
		case <-r.wdone:
			break waitWorkers
		case <-done:
			break waitWorkers
		case <-wait:
			break waitWorkers
		case <-time.After(200 * time.Microsecond):
			if r.hook.panicKind() != "" {
				break waitWorkers
			}
		}
	}
	if stall {
		if r.pendingT > 0 && r.hook.panicKind() == "" {
			select {
			case <-done:
				early = 1
			case <-time.After(earlyWindow):
			}
		}
		r.tx.mu.Lock()
		r.tx.stall = nil
		r.tx.mu.Unlock()
		close(st)
	}
	deadline := time.Now().Add(stuck)
waitStop:
	for {
		select {
		case <-done:
			break waitStop
		case <-time.After(500 * time.Microsecond):
			if pan = r.hook.panicKind(); pan != "" {
				// a worker is panicking (and is kept from taking the process down): Stop will never return
				time.Sleep(2 * time.Millisecond) // let the sendTraces goroutine finish what it was given
				break waitStop
			}
			if time.Now().After(deadline) {
				panic("stuck waiting for Stop to return")
			}
		}
	}
	if wstar >= 0 {
		after := r.buffered(wstar)
		for id := range beforeStar {
			if _, still := after[id]; !still {
				decs = append(decs, tnum(id))
			}
		}
	}
	r.stopped = true
	r.held = map[int]bool{}
	r.pendingT = 0
	if pn != nil {
		panic(pn)
	}
	return early, decs, pan
}

// stopTx runs the exported DirectTransmission.Stop and returns how many accepted events had not
// reached the fake Honeycomb at the moment Stop returned (Stop waits for its dispatch pool: 0).
func (r *runner) stopTx() int {
	r.tx.call.Lock()
	defer r.tx.call.Unlock()
	r.dt.Stop()
	r.tx.stopped = true
	r.tx.mu.Lock()
	ok := r.tx.ok
	r.tx.mu.Unlock()
	return ok - r.up.received()
}

// leftover lists the creators of goroutines that exist now, did not exist before the case started
// and are not net/http's (the fake Honeycomb and the client's connection pool).
func (r *runner) leftover() string {
	r.tr.CloseIdleConnections()
	var names []string
	deadline := time.Now().Add(3 * time.Second)
	for {
		names = names[:0]
		seen := map[string]bool{}
		for _, g := range goroutines() {
			if r.baseline[g.id] || g.creator == "" {
				continue
			}
			if strings.Contains(g.creator, "VerifShutdownNewAgent") { // reported by the `agent` op
				continue
			}
			if strings.HasPrefix(g.creator, "net/http.") || strings.HasPrefix(g.creator, "net/http/httptest.") || strings.HasPrefix(g.creator, "net.") {
				continue
			}
			if !seen[g.creator] {
				seen[g.creator] = true
				names = append(names, kit.Enc(g.creator))
			}
		}
		if len(names) == 0 || time.Now().After(deadline) {
			break
		}
		time.Sleep(200 * time.Microsecond)
	}
	sort.Strings(names)
	return list(names)
}

// ---------------------------------------------------------------------------- agent

type opampStub struct{ client.OpAMPClient }

func (opampStub) SetHealth(*protobufs.ComponentHealth) error { return nil }
func (opampStub) Stop(context.Context) error                 { return nil }

// findG looks for a goroutine running fn that is not one of `old`.
func findG(fn string, old map[string]bool) (state string, found bool) {
	for _, g := range goroutines() {
		if !old[g.id] && strings.Contains(g.text, fn+"(") {
			return g.state, true
		}
	}
	return "", false
}

// agentStop (op `agent`): start the agent's two background loops, call the exported Stop at once and
// report what has become of them.
func (r *runner) agentStop() string {
	old := map[string]bool{}
	for _, g := range goroutines() {
		old[g.id] = true
	}
	a := agent.VerifShutdownNewAgent(opampStub{}, clockwork.NewFakeClock())
	r.agents = append(r.agents, a)
	waitFor("agent loops to start", func() bool {
		_, a := findG(fnHC, old)
		_, b := findG(fnUsage, old)
		return a && b
	})
	a.Stop()
	hcS, usS := agentAfterStop(old, func() string { return "idle" })
	if hcS == "spinning" {
		a.Quiesce()
	}
	return "hc=" + hcS + " usage=" + usS
}

// stopAux stops the helpers the harness itself started around the two components.
func (r *runner) stopAux() {
	if r.auxStopped {
		return
	}
	r.auxStopped = true
	r.sf.Stop()
	r.ps.Stop()
	r.ptx.Stop()
}

// ---------------------------------------------------------------------------- router histories

const legacyKey = "c9945edf5d245834089a1bd6cc9ad01e"

type inflightReq struct {
	conn net.Conn
	br   *bufio.Reader
	rest string
}

type routerRunner struct {
	up      *upstream
	srv     *httptest.Server
	g       inject.Graph
	coll    *collect.InMemCollector
	upTx    *transmit.DirectTransmission
	peerTx  *transmit.DirectTransmission
	addr    string
	okCount int
	infl    []*inflightReq
	stopped bool
	started bool
	opamp   bool
	stress  string
	dry     bool
	z       bool
	done    chan struct{}
	agBase  int // agent loops left over from earlier cases of this process
	dead    net.Listener
}

// deadEnd is an address nobody else can be given: a listener the harness holds for the life of the case,
// which hangs up on whoever connects (the OpAMP server is unreachable).
func (r *routerRunner) deadEnd() string {
	if r.dead == nil {
		l, err := net.Listen("tcp", "127.0.0.1:0")
		if err != nil {
			panic(err)
		}
		r.dead = l
		go func() {
			for {
				c, err := l.Accept()
				if err != nil {
					return
				}
				c.Close()
			}
		}()
	}
	return r.dead.Addr().String()
}

func freePort() int {
	l, err := net.Listen("tcp", "127.0.0.1:0")
	if err != nil {
		panic(err)
	}
	defer l.Close()
	return l.Addr().(*net.TCPAddr).Port
}

func newRouterRunner(h []string) *routerRunner {
	r := &routerRunner{up: &upstream{}, opamp: kit.KV(h, "opamp") == "1", stress: kit.KV(h, "stress"),
		dry: kit.KV(h, "dry") == "1", z: kit.KV(h, "z") == "1"}
	if r.stress == "" {
		r.stress = "never"
	}
	r.srv = httptest.NewServer(r.up)
	r.agBase = agentLoops()
	for attempt := 0; attempt < 3 && !r.started; attempt++ {
		r.start()
	}
	if !r.started {
		panic("router did not start listening")
	}
	return r
}

// start wires and starts the application as cmd/refinery/main.go does.
func (r *routerRunner) start() {
	port, peerPort := freePort(), freePort()
	cfg := &config.MockConfig{
		GetTracesConfigVal: config.TracesConfig{
			SendTicker:   config.Duration(100 * time.Millisecond),
			SendDelay:    config.Duration(200 * time.Millisecond),
			TraceTimeout: config.Duration(time.Second),
			MaxBatchSize: 500,
		},
		GetSamplerTypeVal:    &config.DeterministicSamplerConfig{SampleRate: 1},
		PeerManagementType:   "file",
		GetListenAddrVal:     fmt.Sprintf("127.0.0.1:%d", port),
		GetPeerListenAddrVal: fmt.Sprintf("127.0.0.1:%d", peerPort),
		GetHoneycombAPIVal:   r.srv.URL,
		GetCollectionConfigVal: config.CollectionConfig{
			WorkerCount:        2,
			HealthCheckTimeout: config.Duration(3 * time.Second),
			IncomingQueueSize:  256,
			PeerQueueSize:      256,
		},
		TraceIdFieldNames:  []string{"trace.trace_id"},
		ParentIdFieldNames: []string{"trace.parent_id"},
		SampleCache:        config.SampleCacheConfig{KeptSize: 100, DroppedSize: 1000, SizeCheckInterval: config.Duration(time.Hour)},
		DryRun:             r.dry,
		StressRelief: config.StressReliefConfig{Mode: r.stress, ActivationLevel: 90, DeactivationLevel: 75, SamplingRate: 100,
			MinimumActivationDuration: config.Duration(10 * time.Second)},
		GetOpAmpConfigVal: config.OpAMPConfig{Enabled: r.opamp, Endpoint: "ws://" + r.deadEnd() + "/v1/opamp"},
	}
	r.done = make(chan struct{})
	r.upTx = transmit.NewDirectTransmission(types.TransmitTypeUpstream, &http.Transport{}, 500, time.Hour, 5*time.Second, r.z, nil)
	r.peerTx = transmit.NewDirectTransmission(types.TransmitTypePeer, &http.Transport{}, 500, time.Hour, 5*time.Second, false, nil)
	r.coll = collect.GetCollectorImplementation(cfg).(*collect.InMemCollector)
	a := &app.App{Version: "verif"}
	r.g = inject.Graph{}
	err := r.g.Provide(
		&inject.Object{Value: cfg},
		&inject.Object{Value: &peer.FilePeers{Done: r.done}},
		&inject.Object{Value: &pubsub.LocalPubSub{}},
		&inject.Object{Value: &logger.NullLogger{}},
		&inject.Object{Value: &http.Transport{}, Name: "upstreamTransport"},
		&inject.Object{Value: &http.Transport{}, Name: "peerTransport"},
		&inject.Object{Value: r.upTx, Name: "upstreamTransmission"},
		&inject.Object{Value: r.peerTx, Name: "peerTransmission"},
		&inject.Object{Value: sharder.GetSharderImplementation(cfg)},
		&inject.Object{Value: r.coll},
		&inject.Object{Value: &metrics.NullMetrics{}, Name: "promMetrics"},
		&inject.Object{Value: &metrics.NullMetrics{}, Name: "otelMetrics"},
		&inject.Object{Value: noop.NewTracerProvider().Tracer("verif"), Name: "tracer"},
		&inject.Object{Value: clockwork.NewRealClock()},
		&inject.Object{Value: metrics.GetMetricsImplementation(cfg), Name: "metrics"},
		&inject.Object{Value: "verif", Name: "version"},
		&inject.Object{Value: &sample.SamplerFactory{}},
		&inject.Object{Value: &collect.StressRelief{Done: r.done}, Name: "stressRelief"},
		&inject.Object{Value: &health.Health{}},
		&inject.Object{Value: &configwatcher.ConfigWatcher{}},
		&inject.Object{Value: a},
		&inject.Object{Value: "verif0001", Name: "instanceID"},
	)
	if err != nil {
		panic(err)
	}
	if err := r.g.Populate(); err != nil {
		panic(err)
	}
	if err := startstop.Start(r.g.Objects(), nil); err != nil {
		panic(err)
	}
	r.addr = cfg.GetListenAddrVal
	deadline := time.Now().Add(2 * time.Second)
	for time.Now().Before(deadline) {
		// the listener answers /alive: it is this router, not somebody else's port
		resp, err := (&http.Client{Timeout: 500 * time.Millisecond, Transport: &http.Transport{DisableKeepAlives: true}}).Get("http://" + r.addr + "/version")
		if err == nil {
			b, _ := io.ReadAll(io.LimitReader(resp.Body, 4096))
			resp.Body.Close()
			if resp.StatusCode == 200 && strings.Contains(string(b), "refinery") {
				r.started = true
				r.awaitAgent()
				return
			}
		}
		time.Sleep(2 * time.Millisecond)
	}
	startstop.Stop(r.g.Objects(), nil)
}

func (r *routerRunner) body(sid int) string {
	return fmt.Sprintf(`[{"data":{"id":%d,"foo":"bar"}}]`, sid)
}

func (r *routerRunner) Do(op []string) (string, bool) {
	switch op[0] {
	case "rtev":
		if r.stopped {
			return "refused", true
		}
		sid, _ := strconv.Atoi(op[1])
		req, _ := http.NewRequest("POST", "http://"+r.addr+"/1/batch/d0", strings.NewReader(r.body(sid)))
		req.Header.Set("X-Honeycomb-Team", legacyKey)
		req.Header.Set("Content-Type", "application/json")
		req.Close = true
		resp, err := (&http.Client{Timeout: 5 * time.Second, Transport: &http.Transport{DisableKeepAlives: true}}).Do(req)
		if err != nil {
			return "err", true
		}
		io.Copy(io.Discard, resp.Body)
		resp.Body.Close()
		if resp.StatusCode == 200 {
			r.okCount++
		}
		waitFor("event to reach the upstream transmission", func() bool {
			return resp.StatusCode != 200 || transmit.VerifShutdownPending(r.upTx) == r.okCount
		})
		return fmt.Sprintf("ok st=%d pend=%d", resp.StatusCode, transmit.VerifShutdownPending(r.upTx)), true
	case "inflight":
		if r.stopped {
			return "refused", true
		}
		sid, _ := strconv.Atoi(op[1])
		body := r.body(sid)
		conn, err := net.Dial("tcp", r.addr)
		if err != nil {
			return "err", true
		}
		fmt.Fprintf(conn, "POST /1/batch/d0 HTTP/1.1\r\nHost: %s\r\nX-Honeycomb-Team: %s\r\nContent-Type: application/json\r\n"+
			"Content-Length: %d\r\nExpect: 100-continue\r\nConnection: close\r\n\r\n", r.addr, legacyKey, len(body))
		br := bufio.NewReader(conn)
		conn.SetReadDeadline(time.Now().Add(5 * time.Second))
		line, err := br.ReadString('\n')
		if err != nil || !strings.Contains(line, "100 Continue") {
			conn.Close()
			return "err " + kit.Enc(line), true
		}
		br.ReadString('\n')
		conn.Write([]byte(body[:10]))
		r.infl = append(r.infl, &inflightReq{conn: conn, br: br, rest: body[10:]})
		return "ok", true
	case "stopall":
		if r.stopped {
			return "bad-op", true
		}
		return r.stopAll(), true
	}
	return "bad-op", true
}

func agentLoops() int {
	n := 0
	for _, g := range goroutines() {
		if strings.Contains(g.text, fnHC+"(") || strings.Contains(g.text, fnUsage+"(") {
			n++
		}
	}
	return n
}

// awaitAgent waits up to 5 s for the OpAMP agent's two loops when OpAMP is enabled and returns how many run.
func (r *routerRunner) awaitAgent() int {
	want := 0
	if r.opamp {
		want = 2
	}
	deadline := time.Now().Add(5 * time.Second)
	for {
		n := agentLoops() - r.agBase
		if n >= want || time.Now().After(deadline) {
			return n
		}
		time.Sleep(500 * time.Microsecond)
	}
}

func (r *routerRunner) stopAll() string {
	r.stopped = true
	// the agent's goroutines start asynchronously: wait (bounded) for them before counting; the count is
	// reported as an ext line only (informative, not compared with the model)
	agBefore := r.awaitAgent()
	kit.Ext("agent-loops-before-stop = %d", agBefore)
	stopped := make(chan error, 1)
	panicked := make(chan string, 1)
	close(r.done) // main.go: tell the peers first (it then sleeps 2 x BatchTimeout, which the harness skips)
	go func() {
		defer func() {
			if e := recover(); e != nil {
				msg := strings.SplitN(fmt.Sprint(e), "\n", 2)[0]
				if len(msg) > 80 {
					msg = msg[:80]
				}
				panicked <- msg
			}
		}()
		stopped <- startstop.Stop(r.g.Objects(), nil)
	}()
	var sts []string
	if len(r.infl) > 0 {
		time.Sleep(50 * time.Millisecond)
	}
	for _, f := range r.infl {
		f.conn.Write([]byte(f.rest))
		f.conn.SetReadDeadline(time.Now().Add(5 * time.Second))
		status, err := f.br.ReadString('\n')
		st := "none"
		if err == nil {
			if p := strings.Fields(status); len(p) >= 2 {
				st = p[1]
			}
		}
		sts = append(sts, st)
		f.conn.Close()
	}
	r.infl = nil
	errS := "timeout"
	select {
	case err := <-stopped:
		switch {
		case err == nil:
			errS = "nil"
		case strings.Contains(err.Error(), "deadline exceeded"):
			errS = "deadline"
		default:
			errS = kit.Enc(err.Error())
		}
	case msg := <-panicked:
		errS = "panic:" + kit.Enc(msg)
	case <-time.After(20 * time.Second):
	}
	coll := 0
	if collect.VerifShutdownClosed(r.coll, collect.VerifShutdownNumWorkers(r.coll)-1) {
		coll = 1
	}
	// the OpAMP agent's two loops: running before the shutdown iff OpAMP is enabled, gone afterwards (bounded wait)
	agLeft := 0
	deadline := time.Now().Add(5 * time.Second)
	for {
		agLeft = agentLoops() - r.agBase
		if agLeft <= 0 || time.Now().After(deadline) {
			break
		}
		time.Sleep(200 * time.Microsecond)
	}
	if agLeft < 0 {
		agLeft = 0
	}
	return fmt.Sprintf("err=%s coll=%d up=%d peer=%d ag=%d st=%s u=%s", errS, coll, transmit.VerifShutdownStopped(r.upTx),
		transmit.VerifShutdownStopped(r.peerTx), agLeft, list(sts), r.up.take())
}

// Close stops whatever an aborted stop sequence has left running.
func (r *routerRunner) Close() {
	try := func(f func()) {
		defer func() { recover() }()
		f()
	}
	for _, f := range r.infl {
		f.conn.Close()
	}
	if !r.stopped {
		close(r.done)
		try(func() { startstop.Stop(r.g.Objects(), nil) })
	}
	if !collect.VerifShutdownClosed(r.coll, collect.VerifShutdownNumWorkers(r.coll)-1) {
		try(func() { r.coll.Stop() })
	}
	if transmit.VerifShutdownStopped(r.upTx) == 0 {
		try(func() { r.upTx.Stop() })
	}
	if transmit.VerifShutdownStopped(r.peerTx) == 0 {
		try(func() { r.peerTx.Stop() })
	}
	if r.dead != nil {
		r.dead.Close()
	}
	r.srv.Close()
}

// ---------------------------------------------------------------------------- Retry-After histories

// rlUpstream is the scripted, rate-limited upstream.
type rlUpstream struct {
	mu          sync.Mutex
	clock       *clockwork.FakeClock
	r           time.Duration
	code        int
	lim         map[string]bool
	acceptAt    map[string]time.Time // destination -> instant from which it accepts
	outstanding map[string]time.Time // batch refused once -> the instant announced to it
	batches     []string             // delivered since the last observation
	firstSeen   int                  // events seen in first attempts
	early, rej  int
}

func (u *rlUpstream) ServeHTTP(w http.ResponseWriter, req *http.Request) {
	if req.Method != "POST" || !strings.HasPrefix(req.URL.Path, "/1/batch/") {
		http.NotFound(w, req)
		return
	}
	body, _ := io.ReadAll(req.Body)
	ids, _ := decodeIDs(body)
	ds := strings.TrimPrefix(req.URL.Path, "/1/batch/")
	parts := make([]string, len(ids))
	for i, id := range ids {
		parts[i] = strconv.FormatInt(id, 10)
	}
	key := ds + ":" + strings.Join(parts, ".")
	u.mu.Lock()
	now := u.clock.Now()
	_, isRetry := u.outstanding[key]
	if !isRetry {
		u.firstSeen += len(ids)
	}
	if u.lim[ds] {
		aa, have := u.acceptAt[ds]
		if !have {
			aa = now.Add(u.r)
			u.acceptAt[ds] = aa
		}
		if now.Before(aa) {
			if isRetry {
				u.early++
				u.rej++
				delete(u.outstanding, key)
			} else {
				u.outstanding[key] = aa
			}
			left := int((aa.Sub(now) + time.Second - 1) / time.Second)
			u.mu.Unlock()
			w.Header().Set("Retry-After", strconv.Itoa(left))
			w.WriteHeader(u.code)
			return
		}
	}
	delete(u.outstanding, key)
	u.batches = append(u.batches, key)
	u.mu.Unlock()
	w.Header().Set("Content-Type", "application/json")
	resp := make([]string, len(ids))
	for i := range resp {
		resp[i] = `{"status":202}`
	}
	fmt.Fprintf(w, "[%s]", strings.Join(resp, ","))
}

// due: batches whose announced instant has come and that have not retried yet; asleep: all that have not.
func (u *rlUpstream) counts() (due, asleep, firstSeen int) {
	u.mu.Lock()
	defer u.mu.Unlock()
	now := u.clock.Now()
	for _, t := range u.outstanding {
		if !now.Before(t) {
			due++
		}
	}
	return due, len(u.outstanding), u.firstSeen
}

func (u *rlUpstream) take() string {
	u.mu.Lock()
	defer u.mu.Unlock()
	b := u.batches
	u.batches = nil
	sort.Strings(b)
	s := fmt.Sprintf("u=%s sl=%d early=%d rej=%d", list(b), len(u.outstanding), u.early, u.rej)
	u.early, u.rej = 0, 0
	return s
}

type retryRunner struct {
	conf  *config.MockConfig
	clock *clockwork.FakeClock
	up    *rlUpstream
	srv   *httptest.Server
	tr    *http.Transport
	dt    *transmit.DirectTransmission
	tx    *recTx
}

func newRetryRunner(h []string) *retryRunner {
	atoi := func(k string, d int) int {
		v, err := strconv.Atoi(kit.KV(h, k))
		if err != nil {
			return d
		}
		return v
	}
	r := &retryRunner{conf: &config.MockConfig{}, clock: clockwork.NewFakeClock()}
	r.up = &rlUpstream{clock: r.clock, r: time.Duration(atoi("r", 1)) * time.Second, code: atoi("code", 429),
		lim: map[string]bool{}, acceptAt: map[string]time.Time{}, outstanding: map[string]time.Time{}}
	for i, b := range kit.KV(h, "lim") {
		if b == '1' {
			r.up.lim[fmt.Sprintf("d%d", i)] = true
		}
	}
	r.srv = httptest.NewServer(r.up)
	r.tr = &http.Transport{}
	met := &metrics.MockMetrics{}
	met.Start()
	r.dt = transmit.NewDirectTransmission(types.TransmitTypeUpstream, r.tr, atoi("mb", 1), 1000*time.Hour, 10*time.Second, false, nil)
	r.dt.Config = r.conf
	r.dt.Logger = &logger.NullLogger{}
	r.dt.Metrics = met
	r.dt.Version = "verif"
	r.dt.Clock = r.clock
	if err := r.dt.Start(); err != nil {
		panic(err)
	}
	blockUntil(r.clock, 2)
	r.tx = &recTx{real: r.dt}
	return r
}

// settle: every dispatched batch has made its first attempt, every batch whose Retry-After is over
// has retried, and every refused batch is asleep on the fake clock.
func (r *retryRunner) settle() {
	if r.tx.stopped {
		return
	}
	waitFor("dispatched batches to reach the upstream", func() bool {
		pend := transmit.VerifShutdownPending(r.dt)
		if pend < 0 {
			return false
		}
		r.tx.mu.Lock()
		ok := r.tx.ok
		r.tx.mu.Unlock()
		due, _, first := r.up.counts()
		return due == 0 && first == ok-pend
	})
	_, asleep, _ := r.up.counts()
	blockUntil(r.clock, 2+asleep)
}

func (r *retryRunner) Do(op []string) (string, bool) {
	switch op[0] {
	case "rev":
		sid, _ := strconv.Atoi(op[1])
		dest, _ := strconv.Atoi(op[2])
		ev := &types.Event{Context: context.Background(), APIHost: r.srv.URL, APIKey: "key0123456789abcdefghij",
			Dataset: fmt.Sprintf("d%d", dest), SampleRate: 1, Timestamp: time.Unix(1700000000, 0),
			Data: types.NewPayload(r.conf, map[string]any{"id": int64(sid)})}
		out := r.tx.enqueue(ev)
		r.settle()
		return map[string]string{"": "ok", "p": "panic", "b": "blocked"}[out] + " " + r.up.take(), true
	case "radv":
		n, _ := strconv.Atoi(op[1])
		r.clock.Advance(time.Duration(n) * time.Second)
		r.settle()
		return "ok " + r.up.take(), true
	case "rstop":
		r.stop()
		return "ok " + r.up.take(), true
	}
	return "bad-op", true
}

// stop runs the exported Stop; the fake clock keeps running while it blocks.
func (r *retryRunner) stop() {
	done := make(chan struct{})
	go func() {
		defer close(done)
		r.tx.call.Lock()
		defer r.tx.call.Unlock()
		r.dt.Stop()
		r.tx.stopped = true
	}()
	// the clock keeps running for as long as Stop blocks (a sleep is relative to the instant it is
	// registered, which may be late on a loaded machine): fast for 600 fake seconds, then 1 s per ms
	deadline := time.Now().Add(stuck)
	for i := 0; ; i++ {
		select {
		case <-done:
			return
		default:
		}
		if time.Now().After(deadline) {
			panic("stuck waiting for DirectTransmission.Stop")
		}
		r.clock.Advance(time.Second)
		if i < 600 {
			time.Sleep(200 * time.Microsecond)
		} else {
			time.Sleep(time.Millisecond)
		}
	}
}

func (r *retryRunner) Close() {
	defer func() { recover() }()
	if !r.tx.stopped {
		r.stop()
	}
	r.tr.CloseIdleConnections()
	r.srv.Close()
}

// ---------------------------------------------------------------------------- agent histories

// manualClock is clockwork's fake clock except that tickers are fired by hand: one call = one
// non-blocking send on the ticker's capacity-1 channel, exactly what a real / fake ticker does.
type manualClock struct {
	*clockwork.FakeClock
	mu      sync.Mutex
	tickers map[time.Duration]*manualTicker
}

type manualTicker struct{ c chan time.Time }

func (t *manualTicker) Chan() <-chan time.Time { return t.c }
func (t *manualTicker) Reset(time.Duration)    {}
func (t *manualTicker) Stop()                  {}

func (m *manualClock) NewTicker(d time.Duration) clockwork.Ticker {
	m.mu.Lock()
	defer m.mu.Unlock()
	t := &manualTicker{c: make(chan time.Time, 1)}
	m.tickers[d] = t
	return t
}

func (m *manualClock) ticker(d time.Duration) *manualTicker {
	m.mu.Lock()
	defer m.mu.Unlock()
	return m.tickers[d]
}

// scriptedClient answers SendCustomMessage from the case's script; every other method of the
// embedded nil interface would panic, except the two Agent.Stop uses.
type scriptedClient struct {
	client.OpAMPClient
	mu     sync.Mutex
	script []string
	calls  int
	last   chan struct{} // returned by the latest call (nil: none / failure)
	open   bool          // … and not closed yet
}

var errScripted = fmt.Errorf("verif: scripted send failure")

func (c *scriptedClient) SetHealth(*protobufs.ComponentHealth) error { return nil }
func (c *scriptedClient) Stop(context.Context) error                 { return nil }

func (c *scriptedClient) SendCustomMessage(*protobufs.CustomMessage) (chan struct{}, error) {
	c.mu.Lock()
	defer c.mu.Unlock()
	out := "f"
	if c.calls < len(c.script) {
		out = c.script[c.calls]
	}
	c.calls++
	if out == "f" {
		c.last, c.open = nil, false
		return nil, errScripted
	}
	ch := make(chan struct{})
	c.last, c.open = ch, true
	if out == "O" || out == "P" {
		close(ch)
		c.open = false
	}
	if out == "p" || out == "P" {
		return ch, types2.ErrCustomMessagePending
	}
	return ch, nil
}

// sent closes the channel returned last, if it is still open.
func (c *scriptedClient) sent() {
	c.mu.Lock()
	defer c.mu.Unlock()
	if c.last != nil && c.open {
		close(c.last)
		c.open = false
	}
}

func (c *scriptedClient) state() (calls int, open bool) {
	c.mu.Lock()
	defer c.mu.Unlock()
	return c.calls, c.open
}

type agentRunner struct {
	script  string
	clock   *manualClock
	cl      *scriptedClient
	a       *agent.VerifShutdownAgent
	old     map[string]bool
	total   float64
	stopped bool
}

const (
	fnHC    = "agent.(*Agent).healthCheck"
	fnUsage = "agent.(*Agent).reportUsagePeriodically"
	fnSend  = "agent.(*Agent).sendUsageReport"
)

// usageLoop locates the usage goroutine: gone, or blocked/running and whether inside sendUsageReport.
func (r *agentRunner) usageLoop() (alive, blocked, inSend bool) {
	for _, g := range goroutines() {
		if !r.old[g.id] && strings.Contains(g.text, fnUsage+"(") {
			return true, g.state == "select" || g.state == "chan receive", strings.Contains(g.text, fnSend+"(")
		}
	}
	return false, false, false
}

// loc waits until the usage loop cannot move any more and says where it is: idle (its own select,
// no tick waiting), pending / sent (inside sendUsageReport, waiting on a channel that is still open;
// which of the two follows from what the client answered last), gone.
func (r *agentRunner) loc() string {
	res := "?"
	waitFor("usage loop to block", func() bool {
		alive, blocked, inSend := r.usageLoop()
		if !alive {
			res = "gone"
			return true
		}
		if !blocked {
			return false
		}
		calls, open := r.cl.state()
		if inSend {
			if !open {
				return false // the channel it waits on is closed: it is about to go on
			}
			res = "sent"
			if calls >= 1 && calls <= len(r.cl.script) && (r.cl.script[calls-1] == "p" || r.cl.script[calls-1] == "P") {
				res = "pending"
			}
			return true
		}
		if len(r.clock.ticker(agent.VerifShutdownUsageInterval).c) > 0 {
			return false // it is about to take the tick
		}
		res = "idle"
		return true
	})
	return res
}

func (r *agentRunner) obs() string {
	l := r.loc()
	if r.stopped {
		return "loc=" + l
	}
	calls, _ := r.cl.state()
	cur, last := r.a.HasData()
	b := func(x bool) string {
		if x {
			return "1"
		}
		return "0"
	}
	return fmt.Sprintf("loc=%s calls=%d tick=%d data=%s%s", l, calls, len(r.clock.ticker(agent.VerifShutdownUsageInterval).c), b(cur), b(last))
}

func (r *agentRunner) Do(op []string) (string, bool) {
	if op[0] != "agnew" && r.a == nil {
		return "bad-op", true
	}
	switch op[0] {
	case "agnew":
		if r.a != nil {
			return "bad-op", true
		}
		r.old = map[string]bool{}
		for _, g := range goroutines() {
			r.old[g.id] = true
		}
		r.clock = &manualClock{FakeClock: clockwork.NewFakeClock(), tickers: map[time.Duration]*manualTicker{}}
		r.cl = &scriptedClient{}
		if r.script != "-" && r.script != "" {
			r.cl.script = strings.Split(r.script, ".")
		}
		r.a = agent.VerifShutdownNewAgent(r.cl, r.clock)
		waitFor("agent loops to start", func() bool {
			_, a := findG(fnHC, r.old)
			_, b := findG(fnUsage, r.old)
			return a && b && r.clock.ticker(agent.VerifShutdownUsageInterval) != nil && r.clock.ticker(agent.VerifShutdownHealthInterval) != nil
		})
		return "ok", true
	case "agadd":
		if !r.stopped {
			r.total += 10
			r.a.Add(r.total)
		}
		return r.obs(), true
	case "agtick":
		if !r.stopped {
			select {
			case r.clock.ticker(agent.VerifShutdownUsageInterval).c <- r.clock.Now():
			default:
			}
		}
		return r.obs(), true
	case "agsent":
		if !r.stopped {
			r.cl.sent()
		}
		return r.obs(), true
	case "agstop":
		if r.stopped {
			return "bad-op", true
		}
		r.a.Stop()
		r.stopped = true
		hcS, usS := agentAfterStop(r.old, func() string {
			// still there: where is it stuck
			alive, _, inSend := r.usageLoop()
			if !alive {
				return "gone"
			}
			if !inSend {
				return "idle"
			}
			calls, _ := r.cl.state()
			if calls >= 1 && calls <= len(r.cl.script) && (r.cl.script[calls-1] == "p" || r.cl.script[calls-1] == "P") {
				return "pending"
			}
			return "sent"
		})
		if hcS == "spinning" {
			r.a.Quiesce()
		}
		return "hc=" + hcS + " usage=" + usS, true
	}
	return "bad-op", true
}

// Close lets a loop that is still waiting for the client go on (the context is cancelled by then).
func (r *agentRunner) Close() {
	if r.a == nil {
		return
	}
	if !r.stopped {
		r.a.Stop()
	}
	r.cl.sent()
}

// agentAfterStop: bounded wait after Agent.Stop for the two loops to be gone.
func agentAfterStop(old map[string]bool, where func() string) (hcState, usageState string) {
	usageState = "gone"
	deadline := time.Now().Add(2 * time.Second)
	for {
		if _, alive := findG(fnUsage, old); !alive {
			break
		}
		if time.Now().After(deadline) {
			usageState = where()
			break
		}
		time.Sleep(100 * time.Microsecond)
	}
	hcState = "gone"
	spinning, samples := 0, 0
	deadline = time.Now().Add(time.Second)
	for {
		st, alive := findG(fnHC, old)
		if !alive {
			hcState = "gone"
			break
		}
		samples++
		if st == "running" || st == "runnable" {
			spinning++
		}
		if time.Now().After(deadline) {
			hcState = "parked"
			if spinning == samples {
				hcState = "spinning"
			}
			break
		}
		time.Sleep(time.Millisecond)
	}
	return
}

func (r *runner) Close() {
	defer func() { recover() }()
	if !r.stopped {
		r.stopCollector(false)
	}
	if !r.tx.stopped {
		r.stopTx()
	}
	r.stopAux()
	r.met.Stop()
	r.tr.CloseIdleConnections()
	r.srv.Close()
}

func main() { kit.Main(&comp{}, nil) }
