//go:build verif

// Harness for property C16 (stress-relief decisions deterministic, remembered, delivered intact).
//
// One case = one Refinery node: an incoming and a peer route.Router (real processEvent) sharing
// one real collect.InMemCollector (one worker; none of its goroutines is started, the harness runs
// the worker loop body itself), the real collect.StressRelief forced on/off, a
// sharder.MockSharder, and two transmissions that record every enqueue *by pointer identity*
// (pointer -> object id, with the event's state at the moment of the enqueue) and pass it on to
//
//	mode=mock : the repo's transmit.MockTransmission;  `flush` reads the queued pointers;
//	mode=http : two real transmit.DirectTransmission (upstream: zstd, peer: plain) whose batches are
//	            dispatched by `flush` (sendBatch) to httptest servers playing two Honeycomb API
//	            endpoints (codes 0,1) and two peers (codes 10,11); `flush` reports what each
//	            server received: request host, dataset path, X-Honeycomb-Team, decoded events.
//
//	case  mode=mock|http srate=<StressRelief.SamplingRate>
//	op    stress 0|1
//	op    span via=i|p own=s|10|11 tid=<n, 0: no trace id> host=0|1 key=0|1 ds=0|1 rate=<n>
//	           probe=n|t|f enc=m|p f=<k:v,…|->
//	op    work               one iteration of the collect worker loop (peer queue first)
//	op    flush u|p          dispatch every pending batch of the upstream / peer transmission
//	op    srate <n>          StressRelief.SamplingRate is changed and the collector reloads its
//	                         configuration (real reloadConfigs -> StressRelief.UpdateFromConfig)
//	op    decide tid=<n> keep=0|1 rate=<n>   the normal sampler's decision for a trace that has no
//	                         decision and is not buffered enters the decision record (real Record)
//	ext   hash <tid> = <wyhash(trace id, hashSeed)>          (span ops with a trace id)
//	obs   stress: rule=<sampleRate>,<upperBound>
//	      span  : o=<id> err=0|1 enq=<tx><obj>@<host>/<key>/<ds>/<probe>/<SampleRate>,…|- q=<in>,<peer> buf=<spans|-1>,<traces>
//	      work  : o=<id|-> from=i|p|- enq=… q=… buf=…
//	      srate : rule=<sampleRate>,<upperBound>        decide: done=0|1
//	      flush : n=<events> q=<batch;…|-> reqs=<req;…|-|*>
//	              batch = <host>/<key>/<ds>|<obj>@<host now>/<key now>/<ds now>/<ev>+…   (pointers read now)
//	              req   = <server>|<Host header>|<key>|<ds>|<ev>+…    ev = <sid>/<tid>/<rate>/<stressed>/<probe>/<fields>
package main

import (
	"context"
	"fmt"
	"io"
	"net/http"
	"net/http/httptest"
	"reflect"
	"sort"
	"strconv"
	"strings"
	"sync"
	"time"

	"github.com/jonboulle/clockwork"
	"github.com/klauspost/compress/zstd"
	"github.com/tinylib/msgp/msgp"
	"github.com/vmihailenco/msgpack/v5"
	"go.opentelemetry.io/otel/trace/noop"

	"github.com/honeycombio/refinery/collect"
	"github.com/honeycombio/refinery/config"
	kit "github.com/honeycombio/refinery/internal/verifkit"
	"github.com/honeycombio/refinery/logger"
	"github.com/honeycombio/refinery/metrics"
	"github.com/honeycombio/refinery/route"
	"github.com/honeycombio/refinery/sample"
	"github.com/honeycombio/refinery/sharder"
	"github.com/honeycombio/refinery/transmit"
	"github.com/honeycombio/refinery/types"
)

type comp struct{}

// ------------------------------------------------------------------------------- generator

func (comp) Gen(r *kit.Rng, maxLen int, tier string) kit.Case {
	mode := "mock"
	if r.Chance(40) {
		mode = "http"
	}
	srate := []int{0, 1, 2, 2, 3, 3, 5}[r.Intn(7)]
	nt := 2 + r.Intn(5)
	owner := make([]string, nt+1)
	for t := 1; t <= nt; t++ {
		owner[t] = []string{"s", "s", "10", "10", "11"}[r.Intn(5)]
	}
	owner[0] = "s"
	n := 6 + r.Intn(maxLen)
	stressed := false
	var ops []string
	decide := func() string {
		keep := 1
		if r.Chance(25) {
			keep = 0
		}
		return fmt.Sprintf("decide tid=%d keep=%d rate=%d", 1+r.Intn(nt), keep, []int{1, 2, 4, 10, 25}[r.Intn(5)])
	}
	// some traces were decided by the normal sampler before the case starts
	if r.Chance(45) {
		for i := 1 + r.Intn(2); i > 0; i-- {
			ops = append(ops, decide())
		}
	}
	if r.Chance(75) {
		ops = append(ops, "stress 1")
		stressed = true
	}
	span := func() string {
		tid := 1 + r.Intn(nt)
		if r.Chance(7) {
			tid = 0
		}
		via := "i"
		if r.Chance(30) {
			via = "p"
		}
		own := owner[tid]
		if r.Chance(5) {
			own = []string{"s", "10", "11"}[r.Intn(3)]
		}
		probe := "n"
		switch {
		case via == "p" && r.Chance(30), via == "i" && r.Chance(3):
			probe = "t"
		case r.Chance(5):
			probe = "f"
		}
		host := 0
		if r.Chance(15) {
			host = 1
		}
		key, ds := 0, 0
		if r.Chance(30) {
			key = 1
		}
		if r.Chance(30) {
			ds = 1
		}
		rate := []int{0, 1, 1, 1, 2, 10}[r.Intn(6)]
		enc := "m"
		if r.Chance(50) {
			enc = "p"
		}
		var fs []string
		for k := 0; k < 3; k++ {
			if r.Chance(50) {
				fs = append(fs, fmt.Sprintf("%d:%d", k, r.Intn(100)))
			}
		}
		f := "-"
		if len(fs) > 0 {
			f = strings.Join(fs, ",")
		}
		return fmt.Sprintf("span via=%s own=%s tid=%d host=%d key=%d ds=%d rate=%d probe=%s enc=%s f=%s",
			via, own, tid, host, key, ds, rate, probe, enc, f)
	}
	for i := 0; i < n; i++ {
		w := []int{60, 6, 8, 12, 7, 7, 2}
		if !stressed {
			w = []int{45, 25, 10, 12, 8, 2, 3}
		}
		switch r.Pick(w...) {
		case 0:
			ops = append(ops, span())
		case 1:
			ops = append(ops, "work")
		case 2:
			stressed = !stressed
			if stressed {
				ops = append(ops, "stress 1")
			} else {
				ops = append(ops, "stress 0")
			}
		case 3:
			ops = append(ops, "flush u")
		case 4:
			ops = append(ops, "flush p")
		case 5:
			ops = append(ops, fmt.Sprintf("srate %d", []int{0, 1, 2, 3, 5, 7}[r.Intn(6)]))
		case 6:
			ops = append(ops, decide())
		}
	}
	// relief ends, late spans of the traces seen, the worker catches up, everything is dispatched
	if stressed {
		ops = append(ops, "stress 0")
	}
	for i := r.Intn(4); i > 0; i-- {
		ops = append(ops, span())
	}
	for i := 0; i < 6; i++ {
		ops = append(ops, "work")
	}
	ops = append(ops, "flush u", "flush p")
	return kit.Case{Header: fmt.Sprintf("mode=%s srate=%d", mode, srate), Ops: ops}
}

// ------------------------------------------------------------------------------- fake endpoints

type received struct {
	server string
	host   string
	key    string
	ds     string
	evs    []string
	err    string
}

var (
	srvOnce  sync.Once
	srvURL   = map[string]string{} // code -> URL
	codeOf   = map[string]string{} // URL and host:port -> code
	recMu    sync.Mutex
	recorded []received
	zdec     *zstd.Decoder
)

func toI64(v any) (int64, bool) {
	rv := reflect.ValueOf(v)
	switch rv.Kind() {
	case reflect.Int, reflect.Int8, reflect.Int16, reflect.Int32, reflect.Int64:
		return rv.Int(), true
	case reflect.Uint, reflect.Uint8, reflect.Uint16, reflect.Uint32, reflect.Uint64:
		return int64(rv.Uint()), true
	}
	return 0, false
}

func nb(present, v bool) string {
	if !present {
		return "n"
	}
	if v {
		return "t"
	}
	return "f"
}

// evString renders one event's observable content; data is the decoded field map.
func evString(rate int64, data map[string]any) string {
	sid, tid := int64(-1), int64(0)
	if v, ok := toI64(data["sid"]); ok {
		sid = v
	}
	if s, ok := data["trace.trace_id"].(string); ok {
		if n, err := strconv.ParseInt(strings.TrimPrefix(s, "t"), 10, 64); err == nil {
			tid = n
		}
	}
	stressed := "0"
	if b, ok := data["meta.stressed"].(bool); ok && b {
		stressed = "1"
	}
	pv, pok := data["meta.refinery.probe"].(bool)
	var kvs [][2]int64
	for k, v := range data {
		if len(k) > 1 && k[0] == 'f' {
			if kn, err := strconv.Atoi(k[1:]); err == nil {
				if n, ok := toI64(v); ok {
					kvs = append(kvs, [2]int64{int64(kn), n})
				}
			}
		}
	}
	sort.Slice(kvs, func(i, j int) bool { return kvs[i][0] < kvs[j][0] })
	fs := make([]string, len(kvs))
	for i, kv := range kvs {
		fs[i] = fmt.Sprintf("%d:%d", kv[0], kv[1])
	}
	f := "-"
	if len(fs) > 0 {
		f = strings.Join(fs, ",")
	}
	return fmt.Sprintf("%d/%d/%d/%s/%s/%s", sid, tid, rate, stressed, nb(pok, pv), f)
}

func serve(code string) http.HandlerFunc {
	return func(w http.ResponseWriter, q *http.Request) {
		rc := received{server: code, host: hostCode(q.Host), key: keyCode(q.Header.Get("X-Honeycomb-Team"))}
		body, err := io.ReadAll(q.Body)
		if err == nil && q.Header.Get("Content-Encoding") == "zstd" {
			body, err = zdec.DecodeAll(body, nil)
		}
		const pfx = "/1/batch/"
		if strings.HasPrefix(q.URL.Path, pfx) {
			rc.ds = dsCode(q.URL.Path[len(pfx):])
		} else {
			rc.ds = "?" + kit.Enc(q.URL.Path)
		}
		var evs []map[string]any
		if err == nil {
			err = msgpack.Unmarshal(body, &evs)
		}
		if err != nil {
			rc.err = kit.Enc(err.Error())
		}
		for _, e := range evs {
			rate, _ := toI64(e["samplerate"])
			data, _ := e["data"].(map[string]any)
			rc.evs = append(rc.evs, evString(rate, data))
		}
		recMu.Lock()
		recorded = append(recorded, rc)
		recMu.Unlock()
		w.Header().Set("Content-Type", "application/json")
		parts := make([]string, len(evs))
		for i := range parts {
			parts[i] = `{"status":202}`
		}
		fmt.Fprintf(w, "[%s]", strings.Join(parts, ","))
	}
}

func startServers() {
	srvOnce.Do(func() {
		zdec, _ = zstd.NewReader(nil)
		for _, code := range []string{"0", "1", "10", "11"} {
			s := httptest.NewServer(serve(code))
			srvURL[code] = s.URL
			codeOf[s.URL] = code
			codeOf[strings.TrimPrefix(s.URL, "http://")] = code
		}
	})
}

// mock mode needs no listener: any distinct strings do.
func init() {
	for _, code := range []string{"0", "1", "10", "11"} {
		u := "http://endpoint-" + code + ".invalid"
		mockURL[code] = u
		codeOf[u] = code
	}
}

var mockURL = map[string]string{}

func hostCode(h string) string {
	if c, ok := codeOf[h]; ok {
		return c
	}
	return "?" + kit.Enc(h)
}

func keyCode(k string) string {
	if strings.HasPrefix(k, "key") {
		return k[3:]
	}
	return "?" + kit.Enc(k)
}

func dsCode(d string) string {
	if strings.HasPrefix(d, "ds") {
		return d[2:]
	}
	return "?" + kit.Enc(d)
}

// ------------------------------------------------------------------------------- recording transmissions

type pendEntry struct {
	host, key, ds string // at enqueue
	ev            *types.Event
	obj           int
}

type recTx struct {
	r     *runner
	name  string
	inner transmit.Transmission
	pend  []pendEntry
}

func (t *recTx) EnqueueEvent(ev *types.Event) {
	obj := t.r.objOf(ev)
	e := pendEntry{host: hostCode(ev.APIHost), key: keyCode(ev.APIKey), ds: dsCode(ev.Dataset), ev: ev, obj: obj}
	t.pend = append(t.pend, e)
	p := ev.Data.MetaRefineryProbe
	t.r.enq = append(t.r.enq, fmt.Sprintf("%s%d@%s/%s/%s/%s/%d", t.name, obj, e.host, e.key, e.ds, nb(p.HasValue, p.Value), ev.SampleRate))
	t.inner.EnqueueEvent(ev)
}

func (t *recTx) EnqueueSpan(sp *types.Span) { t.EnqueueEvent(sp.Event) }

type nullHealth struct{}

func (nullHealth) Register(string, time.Duration) {}
func (nullHealth) Unregister(string)              {}
func (nullHealth) Ready(string, bool)             {}

// ------------------------------------------------------------------------------- runner

type runner struct {
	mode     string
	cfg      *config.MockConfig
	sr       *collect.StressRelief
	coll     *collect.InMemCollector
	sh       *sharder.MockSharder
	incoming *route.Router
	peerRt   *route.Router
	up, ptx  *recTx
	dup, dpx *transmit.DirectTransmission
	mup, mpx *transmit.MockTransmission
	objs     map[*types.Event]int
	stressed bool
	recorded map[int]bool // trace ids the decision record has an entry for
	sf       *sample.SamplerFactory
	enq      []string
	url      map[string]string
}

func (r *runner) objOf(ev *types.Event) int {
	if id, ok := r.objs[ev]; ok {
		return id
	}
	id := len(r.objs)
	r.objs[ev] = id
	return id
}

func (comp) NewCase(h []string) kit.Runner {
	srate, _ := strconv.ParseUint(kit.KV(h, "srate"), 10, 64)
	r := &runner{mode: kit.KV(h, "mode"), objs: map[*types.Event]int{}, recorded: map[int]bool{}}
	r.cfg = &config.MockConfig{
		GetTracesConfigVal: config.TracesConfig{
			SendTicker:   config.Duration(1000000 * time.Hour),
			SendDelay:    config.Duration(2 * time.Second),
			TraceTimeout: config.Duration(60 * time.Second),
			MaxBatchSize: 500,
		},
		SampleCache: config.SampleCacheConfig{
			KeptSize:          1000,
			DroppedSize:       10000,
			SizeCheckInterval: config.Duration(time.Hour),
			WorkerCount:       1,
		},
		GetCollectionConfigVal: config.CollectionConfig{WorkerCount: 1, IncomingQueueSize: 1024, PeerQueueSize: 1024},
		StressRelief:           config.StressReliefConfig{Mode: "monitor", ActivationLevel: 90, DeactivationLevel: 75, SamplingRate: srate},
		TraceIdFieldNames:      []string{"trace.trace_id"},
		ParentIdFieldNames:     []string{"trace.parent_id"},
	}
	lg := &logger.NullLogger{}
	met := &metrics.NullMetrics{}
	clock := clockwork.NewFakeClock()
	r.up = &recTx{r: r, name: "u"}
	r.ptx = &recTx{r: r, name: "p"}
	if r.mode == "http" {
		startServers()
		r.url = srvURL
		mk := func(tt types.TransmitType, z bool) *transmit.DirectTransmission {
			d := transmit.NewDirectTransmission(tt, &http.Transport{}, 500, time.Hour, 20*time.Second, z, nil)
			d.Clock = clockwork.NewFakeClock() // the ticker loop never fires: `flush` dispatches
			d.Metrics = met
			d.Logger = lg
			d.Config = r.cfg
			d.Version = "verif"
			if err := d.Start(); err != nil {
				panic(err)
			}
			return d
		}
		r.dup = mk(types.TransmitTypeUpstream, true)
		r.dpx = mk(types.TransmitTypePeer, false)
		r.up.inner, r.ptx.inner = r.dup, r.dpx
	} else {
		r.url = mockURL
		r.mup = &transmit.MockTransmission{Capacity: 4096}
		r.mpx = &transmit.MockTransmission{Capacity: 4096}
		r.mup.Start()
		r.mpx.Start()
		r.up.inner, r.ptx.inner = r.mup, r.mpx
	}
	r.sr = &collect.StressRelief{RefineryMetrics: met, Config: r.cfg, Logger: lg, Clock: clock, Done: make(chan struct{})}
	r.sh = &sharder.MockSharder{Self: &sharder.TestShard{Addr: "http://self.invalid"}, Other: &sharder.TestShard{}}
	r.sf = &sample.SamplerFactory{Config: r.cfg, Metrics: met, Logger: lg}
	if err := r.sf.Start(); err != nil {
		panic(err)
	}
	r.coll = &collect.InMemCollector{
		SamplerFactory:   r.sf,
		Config:           r.cfg,
		Logger:           lg,
		Clock:            clock,
		Tracer:           noop.NewTracerProvider().Tracer("verif"),
		Health:           nullHealth{},
		Sharder:          r.sh,
		Transmission:     r.up,
		PeerTransmission: r.ptx,
		Metrics:          met,
		StressRelief:     r.sr,
	}
	if err := collect.VerifStressrouteInit(r.coll); err != nil {
		panic(err)
	}
	r.incoming = route.VerifStressrouteNew(r.cfg, lg, met, r.up, r.ptx, r.coll, r.sh, types.RouterTypeIncoming)
	r.peerRt = route.VerifStressrouteNew(r.cfg, lg, met, r.up, r.ptx, r.coll, r.sh, types.RouterTypePeer)
	recMu.Lock()
	recorded = nil
	recMu.Unlock()
	return r
}

func (r *runner) Close() {
	collect.VerifStressrouteStop(r.coll)
	r.sf.Stop()
	if r.dup != nil {
		// whatever is still pending goes to the fake endpoints and is ignored
		r.dup.Stop()
		r.dpx.Stop()
	}
	if r.mup != nil {
		r.mup.Stop()
		r.mpx.Stop()
	}
}

func tidStr(t int) string { return "t" + strconv.Itoa(t) }

func parseFields(s string) [][2]int64 {
	if s == "-" || s == "" {
		return nil
	}
	var out [][2]int64
	for _, p := range strings.Split(s, ",") {
		kv := strings.Split(p, ":")
		if len(kv) != 2 {
			continue
		}
		k, _ := strconv.ParseInt(kv[0], 10, 64)
		v, _ := strconv.ParseInt(kv[1], 10, 64)
		out = append(out, [2]int64{k, v})
	}
	return out
}

// mkEvent builds the event the way the handlers do: Data from a Go map (single event / OTLP
// handlers) or from msgpack bytes (batch handler).
func (r *runner) mkEvent(op []string, sid int) *types.Event {
	tid, _ := strconv.Atoi(kit.KV(op, "tid"))
	rate, _ := strconv.ParseUint(kit.KV(op, "rate"), 10, 32)
	key, ds := "key"+kit.KV(op, "key"), "ds"+kit.KV(op, "ds")
	m := map[string]any{"sid": int64(sid)}
	order := []string{"sid"}
	for _, f := range parseFields(kit.KV(op, "f")) {
		k := "f" + strconv.FormatInt(f[0], 10)
		m[k] = f[1]
		order = append(order, k)
	}
	if tid != 0 {
		m["trace.trace_id"] = tidStr(tid)
		order = append(order, "trace.trace_id")
	}
	switch kit.KV(op, "probe") {
	case "t":
		m[types.MetaRefineryProbe] = true
		order = append(order, types.MetaRefineryProbe)
	case "f":
		m[types.MetaRefineryProbe] = false
		order = append(order, types.MetaRefineryProbe)
	}
	ev := &types.Event{
		Context:    context.Background(),
		APIHost:    r.url[kit.KV(op, "host")],
		APIKey:     key,
		Dataset:    ds,
		SampleRate: uint(rate),
		Timestamp:  time.Unix(1700000000, 0).UTC(),
	}
	if kit.KV(op, "enc") == "p" {
		b := msgp.AppendMapHeader(nil, uint32(len(order)))
		for _, k := range order {
			b = msgp.AppendString(b, k)
			switch v := m[k].(type) {
			case int64:
				b = msgp.AppendInt64(b, v)
			case string:
				b = msgp.AppendString(b, v)
			case bool:
				b = msgp.AppendBool(b, v)
			}
		}
		p := types.NewPayload(r.cfg, nil)
		cu := types.NewCoreFieldsUnmarshaler(types.CoreFieldsUnmarshalerOptions{Config: r.cfg, APIKey: key, Dataset: ds})
		if _, err := cu.UnmarshalMsgpFirstEvent(b, &p); err != nil {
			panic("harness: generated msgpack does not parse: " + err.Error())
		}
		ev.Data = p
	} else {
		ev.Data = types.NewPayload(r.cfg, m)
	}
	return ev
}

func (r *runner) enqStr() string {
	if len(r.enq) == 0 {
		return "-"
	}
	return strings.Join(r.enq, ",")
}

func (r *runner) tail(tid int) string {
	qi, qp := collect.VerifStressrouteQueued(r.coll)
	spans, traces := collect.VerifStressrouteBuffered(r.coll, tidStr(tid))
	return fmt.Sprintf("enq=%s q=%d,%d buf=%d,%d", r.enqStr(), qi, qp, spans, traces)
}

// now reads an event through its pointer, as a transmission holding the pointer would.
func nowString(ev *types.Event) string {
	data := map[string]any{}
	for k, v := range ev.Data.All() {
		data[k] = v
	}
	if ev.Data.MetaTraceID != "" {
		data["trace.trace_id"] = ev.Data.MetaTraceID
	}
	return fmt.Sprintf("%s/%s/%s/%s", hostCode(ev.APIHost), keyCode(ev.APIKey), dsCode(ev.Dataset), evString(int64(ev.SampleRate), data))
}

type bkey struct{ host, key, ds string }

func (r *runner) Do(op []string) (string, bool) {
	r.enq = r.enq[:0]
	switch op[0] {
	case "stress":
		r.stressed = op[1] == "1"
		r.sr.VerifStressrouteSetStressed(r.stressed)
		rate, bound := r.sr.VerifStressrouteRule()
		return fmt.Sprintf("rule=%d,%d", rate, bound), true
	case "srate":
		n, _ := strconv.ParseUint(op[1], 10, 64)
		r.cfg.Mux.Lock()
		r.cfg.StressRelief.SamplingRate = n
		r.cfg.Mux.Unlock()
		collect.VerifStressrouteReload(r.coll)
		rate, bound := r.sr.VerifStressrouteRule()
		return fmt.Sprintf("rule=%d,%d", rate, bound), true
	case "decide":
		tid, _ := strconv.Atoi(kit.KV(op, "tid"))
		rate, _ := strconv.ParseUint(kit.KV(op, "rate"), 10, 32)
		spans, _ := collect.VerifStressrouteBuffered(r.coll, tidStr(tid))
		if tid == 0 || spans >= 0 || r.recorded[tid] {
			return "done=0", true
		}
		collect.VerifStressrouteRecord(r.coll, tidStr(tid), kit.KV(op, "keep") == "1", uint(rate))
		r.recorded[tid] = true
		return "done=1", true
	case "span":
		tid, _ := strconv.Atoi(kit.KV(op, "tid"))
		sid := len(r.objs)
		ev := r.mkEvent(op, sid)
		r.objOf(ev)
		if tid != 0 {
			kit.Ext("hash %d = %d", tid, collect.VerifStressrouteHash(tidStr(tid)))
			if r.stressed && kit.KV(op, "probe") != "t" {
				r.recorded[tid] = true // ProcessSpanImmediately looks the trace up and records a new decision
			}
		}
		own := kit.KV(op, "own")
		if own == "s" {
			r.sh.Other.Addr, r.sh.Other.TraceIDs = "", nil
		} else {
			r.sh.Other.Addr, r.sh.Other.TraceIDs = r.url[own], []string{tidStr(tid)}
		}
		rt := r.incoming
		if kit.KV(op, "via") == "p" {
			rt = r.peerRt
		}
		err := rt.VerifStressrouteProcessEvent(ev)
		e := 0
		if err != nil {
			e = 1
		}
		return fmt.Sprintf("o=%d err=%d %s", sid, e, r.tail(tid)), true
	case "work":
		sp, fromPeer := collect.VerifStressrouteWork(r.coll)
		if sp == nil {
			return "o=- from=- " + r.tail(0), true
		}
		from := "i"
		if fromPeer {
			from = "p"
		}
		tid, _ := strconv.Atoi(strings.TrimPrefix(sp.TraceID, "t"))
		return fmt.Sprintf("o=%d from=%s %s", r.objOf(sp.Event), from, r.tail(tid)), true
	case "flush":
		t, d, m := r.up, r.dup, r.mup
		if op[1] == "p" {
			t, d, m = r.ptx, r.dpx, r.mpx
		}
		// pending pointers grouped by their at-enqueue key, keys in order of first appearance
		var keys []bkey
		groups := map[bkey][]pendEntry{}
		for _, e := range t.pend {
			k := bkey{e.host, e.key, e.ds}
			if _, ok := groups[k]; !ok {
				keys = append(keys, k)
			}
			groups[k] = append(groups[k], e)
		}
		var qs []string
		for _, k := range keys {
			var es []string
			for _, e := range groups[k] {
				es = append(es, fmt.Sprintf("%d@%s", e.obj, nowString(e.ev)))
			}
			qs = append(qs, fmt.Sprintf("%s/%s/%s|%s", k.host, k.key, k.ds, strings.Join(es, "+")))
		}
		q := "-"
		if len(qs) > 0 {
			q = strings.Join(qs, ";")
		}
		n := len(t.pend)
		reqs := "*"
		if d != nil {
			order := make([]transmit.VerifStressrouteKey, len(keys))
			for i, k := range keys {
				order[i] = transmit.VerifStressrouteKey{APIHost: r.url[k.host], APIKey: "key" + k.key, Dataset: "ds" + k.ds}
			}
			recMu.Lock()
			recorded = nil
			recMu.Unlock()
			sent, unlisted := transmit.VerifStressrouteDispatch(d, order)
			n = sent
			recMu.Lock()
			got := recorded
			recorded = nil
			recMu.Unlock()
			var rs []string
			for _, g := range got {
				s := fmt.Sprintf("%s|%s|%s|%s|%s", g.server, g.host, g.key, g.ds, strings.Join(g.evs, "+"))
				if g.err != "" {
					s += "|err:" + g.err
				}
				rs = append(rs, s)
			}
			for _, u := range unlisted {
				rs = append(rs, "unlisted:"+kit.Enc(u.APIHost+" "+u.APIKey+" "+u.Dataset))
			}
			reqs = "-"
			if len(rs) > 0 {
				reqs = strings.Join(rs, ";")
			}
		} else {
			for len(m.Events) > 0 {
				<-m.Events
			}
		}
		t.pend = nil
		return fmt.Sprintf("n=%d q=%s reqs=%s", n, q, reqs), true
	}
	return "bad-op", true
}

func main() { kit.Main(comp{}, nil) }
