//go:build verif

package main

// Abstract values with wire-type tags, their token syntax, a hand-written msgpack encoder (so the
// harness controls the exact wire form), a JSON renderer, and an independent msgpack decoder built
// on vmihailenco/msgpack primitives (tinylib/msgp is what the code under test uses).
//
// token syntax (no spaces inside a token; a value is one token, or a header token followed by its
// children):
//   s:<enc> s8:<enc> s16:<enc> s32:<enc>   str (width hint = header form)
//   b:<enc>                                bin
//   i:<n> i8:<n> i16:<n> i32:<n> i64:<n>   signed family (positive fixint / negative fixint / int8..64)
//   u:<n> u8:<n> u16:<n> u32:<n> u64:<n>   unsigned family (uint8..64)
//   f:<8 hex>  d:<16 hex>                  float32 / float64 bit patterns
//   n:<16 hex>:<numeral>                   JSON number: the numeral as written and strconv's float64 of it
//   T F N                                  true false nil
//   t:<sec>:<nsec> t96:<sec>:<nsec>        msgpack timestamp extension (-1)
//   x:<sec>:<nsec>                         tinylib/msgp's private time extension (5)
//   e:<id>:<hex>                           any other extension
//   a:<n> v1 … vn                          array
//   m:<n> k:<enc> v1 … (K:<enc> = bin key) map, in wire order

import (
	"bytes"
	"encoding/binary"
	"encoding/hex"
	"encoding/json"
	"fmt"
	"math"
	"sort"
	"strconv"
	"strings"
	"time"

	kit "github.com/honeycombio/refinery/internal/verifkit"
	"github.com/vmihailenco/msgpack/v5"
)

type mkey struct {
	s   string
	bin bool
}

type node struct {
	t    byte // s b i u f d T F N t x e a m
	s    string
	i    int64
	u    uint64
	w    int
	bits uint64
	num  string
	sec  int64
	nsec int64
	eid  int
	arr  []node
	keys []mkey
	vals []node
}

func str(s string) node   { return node{t: 's', s: s} }
func ival(i int64) node   { return node{t: 'i', i: i} }
func f64(f float64) node  { return node{t: 'd', bits: math.Float64bits(f)} }
func boolv(b bool) node   { return node{t: map[bool]byte{true: 'T', false: 'F'}[b]} }
func jnum(lit string) node {
	f, _ := strconv.ParseFloat(lit, 64)
	return node{t: 'd', bits: math.Float64bits(f), num: lit}
}

// ---------------------------------------------------------------- tokens

func (n node) tokens(canon bool, out []string) []string {
	wh := func(tag string, w int) string {
		if canon || w == 0 {
			return tag
		}
		return tag + strconv.Itoa(w)
	}
	switch n.t {
	case 's':
		return append(out, wh("s", n.w)+":"+kit.Enc(n.s))
	case 'b':
		return append(out, "b:"+kit.Enc(n.s))
	case 'i':
		return append(out, wh("i", n.w)+":"+strconv.FormatInt(n.i, 10))
	case 'u':
		return append(out, wh("u", n.w)+":"+strconv.FormatUint(n.u, 10))
	case 'f':
		return append(out, fmt.Sprintf("f:%08x", n.bits))
	case 'd':
		if n.num != "" && !canon {
			return append(out, fmt.Sprintf("n:%016x:%s", n.bits, kit.Enc(n.num)))
		}
		return append(out, fmt.Sprintf("d:%016x", n.bits))
	case 'T', 'F', 'N':
		return append(out, string(n.t))
	case 't':
		return append(out, fmt.Sprintf("%s:%d:%d", wh("t", n.w), n.sec, n.nsec))
	case 'x':
		return append(out, fmt.Sprintf("x:%d:%d", n.sec, n.nsec))
	case 'e':
		return append(out, fmt.Sprintf("e:%d:%s", n.eid, hex.EncodeToString([]byte(n.s))))
	case 'a':
		out = append(out, "a:"+strconv.Itoa(len(n.arr)))
		for _, c := range n.arr {
			out = c.tokens(canon, out)
		}
		return out
	case 'm':
		out = append(out, "m:"+strconv.Itoa(len(n.keys)))
		idx := make([]int, len(n.keys))
		for i := range idx {
			idx[i] = i
		}
		if canon {
			sort.SliceStable(idx, func(a, b int) bool { return kit.Enc(n.keys[idx[a]].s) < kit.Enc(n.keys[idx[b]].s) })
		}
		for _, i := range idx {
			kt := "k:"
			if n.keys[i].bin && !canon {
				kt = "K:"
			}
			out = append(out, kt+kit.Enc(n.keys[i].s))
			out = n.vals[i].tokens(canon, out)
		}
		return out
	}
	return append(out, "?")
}

// canon renders a value in canonical output form: no width hints, every map stably sorted by
// encoded key, key binary-ness dropped.
func (n node) canon() string { return strings.Join(n.tokens(true, nil), " ") }

// spell renders a value as generated (wire order, width hints).
func (n node) spell() string { return strings.Join(n.tokens(false, nil), " ") }

func cut(tok string) (tag, rest string) {
	i := strings.IndexByte(tok, ':')
	if i < 0 {
		return tok, ""
	}
	return tok[:i], tok[i+1:]
}

func hintOf(tag string) int {
	if len(tag) > 1 {
		w, _ := strconv.Atoi(tag[1:])
		return w
	}
	return 0
}

// parseVal reads one value from toks[*pos:].
func parseVal(toks []string, pos *int) (node, bool) {
	if *pos >= len(toks) {
		return node{}, false
	}
	tok := toks[*pos]
	*pos++
	tag, rest := cut(tok)
	if tag == "" {
		return node{}, false
	}
	switch tag[0] {
	case 's':
		return node{t: 's', s: kit.Dec(rest), w: hintOf(tag)}, true
	case 'b':
		return node{t: 'b', s: kit.Dec(rest)}, true
	case 'i':
		v, err := strconv.ParseInt(rest, 10, 64)
		return node{t: 'i', i: v, w: hintOf(tag)}, err == nil
	case 'u':
		v, err := strconv.ParseUint(rest, 10, 64)
		return node{t: 'u', u: v, w: hintOf(tag)}, err == nil
	case 'f':
		v, err := strconv.ParseUint(rest, 16, 32)
		return node{t: 'f', bits: v}, err == nil
	case 'd':
		v, err := strconv.ParseUint(rest, 16, 64)
		return node{t: 'd', bits: v}, err == nil
	case 'n':
		h, lit := cut(rest)
		v, err := strconv.ParseUint(h, 16, 64)
		return node{t: 'd', bits: v, num: kit.Dec(lit)}, err == nil
	case 'T', 'F', 'N':
		return node{t: tag[0]}, true
	case 't', 'x':
		a, b := cut(rest)
		sec, e1 := strconv.ParseInt(a, 10, 64)
		ns, e2 := strconv.ParseInt(b, 10, 64)
		return node{t: tag[0], sec: sec, nsec: ns, w: hintOf(tag)}, e1 == nil && e2 == nil
	case 'e':
		a, b := cut(rest)
		id, e1 := strconv.Atoi(a)
		raw, e2 := hex.DecodeString(b)
		return node{t: 'e', eid: id, s: string(raw)}, e1 == nil && e2 == nil
	case 'a':
		cnt, err := strconv.Atoi(rest)
		if err != nil {
			return node{}, false
		}
		n := node{t: 'a'}
		for j := 0; j < cnt; j++ {
			c, ok := parseVal(toks, pos)
			if !ok {
				return node{}, false
			}
			n.arr = append(n.arr, c)
		}
		return n, true
	case 'm':
		cnt, err := strconv.Atoi(rest)
		if err != nil {
			return node{}, false
		}
		n := node{t: 'm'}
		for j := 0; j < cnt; j++ {
			if *pos >= len(toks) {
				return node{}, false
			}
			kt, kr := cut(toks[*pos])
			*pos++
			if kt != "k" && kt != "K" {
				return node{}, false
			}
			c, ok := parseVal(toks, pos)
			if !ok {
				return node{}, false
			}
			n.keys = append(n.keys, mkey{s: kit.Dec(kr), bin: kt == "K"})
			n.vals = append(n.vals, c)
		}
		return n, true
	}
	return node{}, false
}

// ---------------------------------------------------------------- msgpack encoder (hand-written)

func be(b []byte, v uint64, n int) []byte {
	for i := n - 1; i >= 0; i-- {
		b = append(b, byte(v>>(8*uint(i))))
	}
	return b
}

func encStrHdr(b []byte, l int, w int) []byte {
	switch {
	case w == 0 && l < 32:
		return append(b, 0xa0|byte(l))
	case (w == 0 || w == 8) && l < 256:
		return append(b, 0xd9, byte(l))
	case (w == 0 || w == 8 || w == 16) && l < 65536:
		return be(append(b, 0xda), uint64(l), 2)
	default:
		return be(append(b, 0xdb), uint64(l), 4)
	}
}

func encBinHdr(b []byte, l int) []byte {
	switch {
	case l < 256:
		return append(b, 0xc4, byte(l))
	case l < 65536:
		return be(append(b, 0xc5), uint64(l), 2)
	default:
		return be(append(b, 0xc6), uint64(l), 4)
	}
}

func encMapHdr(b []byte, l int) []byte {
	switch {
	case l < 16:
		return append(b, 0x80|byte(l))
	case l < 65536:
		return be(append(b, 0xde), uint64(l), 2)
	default:
		return be(append(b, 0xdf), uint64(l), 4)
	}
}

func encArrHdr(b []byte, l int) []byte {
	switch {
	case l < 16:
		return append(b, 0x90|byte(l))
	case l < 65536:
		return be(append(b, 0xdc), uint64(l), 2)
	default:
		return be(append(b, 0xdd), uint64(l), 4)
	}
}

func encTime(b []byte, sec, nsec int64, w int) []byte {
	switch {
	case w != 96 && nsec == 0 && sec >= 0 && sec <= math.MaxUint32:
		return be(append(b, 0xd6, 0xff), uint64(sec), 4)
	case w != 96 && sec >= 0 && sec < (1<<34):
		return be(append(b, 0xd7, 0xff), uint64(nsec)<<34|uint64(sec), 8)
	default:
		b = be(append(b, 0xc7, 12, 0xff), uint64(nsec), 4)
		return be(b, uint64(sec), 8)
	}
}

func (n node) msgp(b []byte) []byte {
	switch n.t {
	case 's':
		return append(encStrHdr(b, len(n.s), n.w), n.s...)
	case 'b':
		return append(encBinHdr(b, len(n.s)), n.s...)
	case 'i':
		v, w := n.i, n.w
		switch {
		case w == 0 && v >= 0 && v <= 127:
			return append(b, byte(v))
		case w == 0 && v < 0 && v >= -32:
			return append(b, byte(v))
		case (w == 0 || w == 8) && v >= math.MinInt8 && v <= math.MaxInt8:
			return append(b, 0xd0, byte(v))
		case (w == 0 || w == 8 || w == 16) && v >= math.MinInt16 && v <= math.MaxInt16:
			return be(append(b, 0xd1), uint64(v), 2)
		case w != 64 && v >= math.MinInt32 && v <= math.MaxInt32:
			return be(append(b, 0xd2), uint64(v), 4)
		default:
			return be(append(b, 0xd3), uint64(v), 8)
		}
	case 'u':
		v, w := n.u, n.w
		switch {
		case (w == 0 || w == 8) && v <= math.MaxUint8:
			return append(b, 0xcc, byte(v))
		case (w == 0 || w == 8 || w == 16) && v <= math.MaxUint16:
			return be(append(b, 0xcd), v, 2)
		case w != 64 && v <= math.MaxUint32:
			return be(append(b, 0xce), v, 4)
		default:
			return be(append(b, 0xcf), v, 8)
		}
	case 'f':
		return be(append(b, 0xca), n.bits, 4)
	case 'd':
		return be(append(b, 0xcb), n.bits, 8)
	case 'T':
		return append(b, 0xc3)
	case 'F':
		return append(b, 0xc2)
	case 'N':
		return append(b, 0xc0)
	case 't':
		return encTime(b, n.sec, n.nsec, n.w)
	case 'x':
		b = be(append(b, 0xc7, 12, 5), uint64(n.sec), 8)
		return be(b, uint64(n.nsec), 4)
	case 'e':
		b = append(b, 0xc7, byte(len(n.s)), byte(int8(n.eid)))
		return append(b, n.s...)
	case 'a':
		b = encArrHdr(b, len(n.arr))
		for _, c := range n.arr {
			b = c.msgp(b)
		}
		return b
	case 'm':
		b = encMapHdr(b, len(n.keys))
		for i, k := range n.keys {
			if k.bin {
				b = append(encBinHdr(b, len(k.s)), k.s...)
			} else {
				b = append(encStrHdr(b, len(k.s), 0), k.s...)
			}
			b = n.vals[i].msgp(b)
		}
		return b
	}
	return append(b, 0xc0)
}

// ---------------------------------------------------------------- JSON renderer

func jsonStr(s string) string {
	b, _ := json.Marshal(s)
	return string(b)
}

func (n node) json(sb *strings.Builder) {
	switch n.t {
	case 's', 'b':
		sb.WriteString(jsonStr(n.s))
	case 'i':
		sb.WriteString(strconv.FormatInt(n.i, 10))
	case 'u':
		sb.WriteString(strconv.FormatUint(n.u, 10))
	case 'd', 'f':
		if n.num != "" {
			sb.WriteString(n.num)
		} else {
			sb.WriteString(strconv.FormatFloat(math.Float64frombits(n.bits), 'g', -1, 64))
		}
	case 'T':
		sb.WriteString("true")
	case 'F':
		sb.WriteString("false")
	case 'a':
		sb.WriteByte('[')
		for i, c := range n.arr {
			if i > 0 {
				sb.WriteByte(',')
			}
			c.json(sb)
		}
		sb.WriteByte(']')
	case 'm':
		sb.WriteByte('{')
		for i, k := range n.keys {
			if i > 0 {
				sb.WriteByte(',')
			}
			sb.WriteString(jsonStr(k.s))
			sb.WriteByte(':')
			n.vals[i].json(sb)
		}
		sb.WriteByte('}')
	default:
		sb.WriteString("null")
	}
}

// ---------------------------------------------------------------- independent msgpack decoder

func decodeMsgp(b []byte) (node, error) {
	rd := bytes.NewReader(b)
	dec := msgpack.NewDecoder(rd)
	n, err := decodeNode(dec, 0)
	if err != nil {
		return n, err
	}
	if rd.Len() != 0 {
		// the decoder buffers nothing for a bytes.Reader, so leftovers are trailing garbage
		return n, fmt.Errorf("trailing bytes: %d", rd.Len())
	}
	return n, nil
}

func decodeNode(dec *msgpack.Decoder, depth int) (node, error) {
	if depth > 64 {
		return node{}, fmt.Errorf("too deep")
	}
	c, err := dec.PeekCode()
	if err != nil {
		return node{}, err
	}
	switch {
	case c <= 0x7f || c >= 0xe0 || (c >= 0xd0 && c <= 0xd3):
		v, err := dec.DecodeInt64()
		return node{t: 'i', i: v}, err
	case c >= 0xcc && c <= 0xcf:
		v, err := dec.DecodeUint64()
		return node{t: 'u', u: v}, err
	case c == 0xc0:
		return node{t: 'N'}, dec.DecodeNil()
	case c == 0xc2 || c == 0xc3:
		v, err := dec.DecodeBool()
		return boolv(v), err
	case c == 0xca:
		v, err := dec.DecodeFloat32()
		return node{t: 'f', bits: uint64(math.Float32bits(v))}, err
	case c == 0xcb:
		v, err := dec.DecodeFloat64()
		return node{t: 'd', bits: math.Float64bits(v)}, err
	case (c >= 0xa0 && c <= 0xbf) || (c >= 0xd9 && c <= 0xdb):
		v, err := dec.DecodeString()
		return node{t: 's', s: v}, err
	case c >= 0xc4 && c <= 0xc6:
		v, err := dec.DecodeBytes()
		return node{t: 'b', s: string(v)}, err
	case (c >= 0x90 && c <= 0x9f) || c == 0xdc || c == 0xdd:
		l, err := dec.DecodeArrayLen()
		if err != nil {
			return node{}, err
		}
		n := node{t: 'a'}
		for i := 0; i < l; i++ {
			ch, err := decodeNode(dec, depth+1)
			if err != nil {
				return n, err
			}
			n.arr = append(n.arr, ch)
		}
		return n, nil
	case (c >= 0x80 && c <= 0x8f) || c == 0xde || c == 0xdf:
		l, err := dec.DecodeMapLen()
		if err != nil {
			return node{}, err
		}
		n := node{t: 'm'}
		for i := 0; i < l; i++ {
			kc, err := dec.PeekCode()
			if err != nil {
				return n, err
			}
			var k mkey
			if kc >= 0xc4 && kc <= 0xc6 {
				kb, err := dec.DecodeBytes()
				if err != nil {
					return n, err
				}
				k = mkey{s: string(kb), bin: true}
			} else if (kc >= 0xa0 && kc <= 0xbf) || (kc >= 0xd9 && kc <= 0xdb) {
				ks, err := dec.DecodeString()
				if err != nil {
					return n, err
				}
				k = mkey{s: ks}
			} else {
				return n, fmt.Errorf("map key code %x", kc)
			}
			v, err := decodeNode(dec, depth+1)
			if err != nil {
				return n, err
			}
			n.keys = append(n.keys, k)
			n.vals = append(n.vals, v)
		}
		return n, nil
	case (c >= 0xd4 && c <= 0xd8) || (c >= 0xc7 && c <= 0xc9):
		id, l, err := dec.DecodeExtHeader()
		if err != nil {
			return node{}, err
		}
		buf := make([]byte, l)
		if err := dec.ReadFull(buf); err != nil {
			return node{}, err
		}
		switch {
		case id == -1 && l == 4:
			return node{t: 't', sec: int64(binary.BigEndian.Uint32(buf))}, nil
		case id == -1 && l == 8:
			v := binary.BigEndian.Uint64(buf)
			return node{t: 't', sec: int64(v & (1<<34 - 1)), nsec: int64(v >> 34)}, nil
		case id == -1 && l == 12:
			return node{t: 't', sec: int64(binary.BigEndian.Uint64(buf[4:])), nsec: int64(binary.BigEndian.Uint32(buf))}, nil
		case id == 5 && l == 12:
			return node{t: 'x', sec: int64(binary.BigEndian.Uint64(buf)), nsec: int64(int32(binary.BigEndian.Uint32(buf[8:])))}, nil
		}
		return node{t: 'e', eid: int(id), s: string(buf)}, nil
	}
	return node{}, fmt.Errorf("unexpected code %x", c)
}

// ---------------------------------------------------------------- Go values (what Get returns)

func fromGo(v any) node {
	switch x := v.(type) {
	case nil:
		return node{t: 'N'}
	case string:
		return node{t: 's', s: x}
	case []byte:
		return node{t: 'b', s: string(x)}
	case bool:
		return boolv(x)
	case int64:
		return node{t: 'i', i: x}
	case int:
		return node{t: 'i', i: int64(x)}
	case uint64:
		return node{t: 'u', u: x}
	case uint:
		return node{t: 'u', u: uint64(x)}
	case float32:
		return node{t: 'f', bits: uint64(math.Float32bits(x))}
	case float64:
		return node{t: 'd', bits: math.Float64bits(x)}
	case time.Time:
		return node{t: 't', sec: x.Unix(), nsec: int64(x.Nanosecond())}
	case []any:
		n := node{t: 'a'}
		for _, c := range x {
			n.arr = append(n.arr, fromGo(c))
		}
		return n
	case map[string]any:
		n := node{t: 'm'}
		for k, c := range x {
			n.keys = append(n.keys, mkey{s: k})
			n.vals = append(n.vals, fromGo(c))
		}
		return n
	}
	return node{t: 'e', eid: 127, s: fmt.Sprintf("%T", v)}
}

// toGo builds the Go value Refinery's own code would pass to Payload.Set.
func (n node) toGo() any {
	switch n.t {
	case 's':
		return n.s
	case 'b':
		return []byte(n.s)
	case 'i':
		return n.i
	case 'u':
		return uint(n.u)
	case 'd':
		return math.Float64frombits(n.bits)
	case 'f':
		return math.Float32frombits(uint32(n.bits))
	case 'T':
		return true
	case 'F':
		return false
	}
	return nil
}
