//go:build verif

// Harness for types.Payload (properties C21 and C20): events are ingested through the real
// /1/batch (msgpack and JSON) and /1/events (JSON) handlers of route.Router and through the
// metadata-only msgpack unmarshaller the OTLP path uses, ending in the real processEvent with a
// recording collector/transmission; then the payload is driven as the collector drives it
// (MemoizeFields / Get / Exists / Set), re-encoded with the real MarshalMsg and decoded with an
// independent decoder; `fwd` sends the re-encoded event to a peer-type router.
package main

import (
	"bytes"
	"context"
	"encoding/json"
	"fmt"
	"math"
	"net/http"
	"net/http/httptest"
	"sort"
	"strconv"
	"strings"

	"github.com/gorilla/mux"
	"github.com/honeycombio/refinery/config"
	kit "github.com/honeycombio/refinery/internal/verifkit"
	"github.com/honeycombio/refinery/logger"
	"github.com/honeycombio/refinery/metrics"
	"github.com/honeycombio/refinery/route"
	"github.com/honeycombio/refinery/sharder"
	"github.com/honeycombio/refinery/types"
	jsoniter "github.com/json-iterator/go"
	"github.com/valyala/fastjson"
)

type comp struct{}

const apiKey = "0123456789abcdef0123456789abcdef" // classic key: no environment lookup

// ---------------------------------------------------------------- lists in headers

func encList(xs []string) string {
	if len(xs) == 0 {
		return "-"
	}
	out := make([]string, len(xs))
	for i, x := range xs {
		out[i] = kit.Enc(x)
	}
	return strings.Join(out, ",")
}

func decList(s string) []string {
	if s == "-" || s == "" {
		return nil
	}
	parts := strings.Split(s, ",")
	for i := range parts {
		parts[i] = kit.Dec(parts[i])
	}
	return parts
}

func sortedEnc(xs []string) string {
	out := make([]string, len(xs))
	for i, x := range xs {
		out[i] = kit.Enc(x)
	}
	sort.Strings(out)
	if len(out) == 0 {
		return "-"
	}
	return strings.Join(out, ",")
}

// ---------------------------------------------------------------- generator

type field struct {
	k mkey
	v node
}

var (
	tracePool  = []string{"trace.trace_id", "traceId", "trace_id", "tid"}
	parentPool = []string{"trace.parent_id", "parentId", "pid"}
	fillPool   = []string{"name", "duration_ms", "service.name", "http.status", "error", "a", "b"}
	nearPool   = []string{"meta.", "meta.trace_idx", "meta.foo", "metaXtrace_id", "meta.refinery.root2", "Meta.trace_id", "meta", "meta.signal_typ", "ключ", "a b", "k=v,w"}
)

func metaNames() []string {
	t := types.VerifPayloadMetaTable()
	ns := make([]string, 0, len(t))
	for k := range t {
		ns = append(ns, k)
	}
	sort.Strings(ns)
	return ns
}

func pickStr(r *kit.Rng, xs []string) string { return xs[r.Intn(len(xs))] }

func subset(r *kit.Rng, pool []string, n int) []string {
	p := append([]string(nil), pool...)
	for i := len(p) - 1; i > 0; i-- {
		j := r.Intn(i + 1)
		p[i], p[j] = p[j], p[i]
	}
	if n > len(p) {
		n = len(p)
	}
	return p[:n]
}

type gcfg struct {
	tn, pn, sk []string
	ua         string
}

func genCfg(r *kit.Rng, prof string) gcfg {
	var c gcfg
	c.tn = subset(r, tracePool, []int{1, 1, 2, 2, 3, 3, 0}[r.Intn(7)])
	c.pn = subset(r, parentPool, []int{1, 1, 2, 0}[r.Intn(4)])
	if r.Chance(3) && len(c.tn) > 0 { // overlapping configuration (outside the theorems' hypotheses)
		c.pn = append(c.pn, c.tn[r.Intn(len(c.tn))])
	}
	if r.Chance(2) { // reserved name configured as an id field (outside the hypotheses)
		c.tn = append(c.tn, pickStr(r, []string{"meta.annotation_type", "meta.trace_id", "meta.span_count"}))
	}
	nsk := r.Intn(3)
	if prof == "fwd" {
		nsk = 1 + r.Intn(3)
	}
	pool := append(append([]string{}, fillPool...), nearPool[:5]...)
	c.sk = subset(r, pool, nsk)
	if r.Chance(10) && len(c.tn) > 0 {
		c.sk = append(c.sk, c.tn[0])
	}
	if r.Chance(6) && len(c.pn) > 0 {
		c.sk = append(c.sk, c.pn[0])
	}
	if r.Chance(3) {
		c.sk = append(c.sk, pickStr(r, []string{"meta.span_count", "meta.trace_id", "meta.annotation_type"}))
	}
	// the configuration never lists a sampling field twice
	seen := map[string]bool{}
	var sk []string
	for _, s := range c.sk {
		if !seen[s] {
			seen[s] = true
			sk = append(sk, s)
		}
	}
	c.sk = sk
	if r.Chance(50) {
		c.ua = "ua/1.0"
	}
	return c
}

var jsonLits = []string{"0", "1", "-7", "3.25", "1e3", "123456789012", "9007199254740993", "0.1",
	"1.7976931348623157e308", "5e-324", "-0.0", "12.50", "2", "202", "18446744073709551615", "1E-7", "0.30000000000000004"}

func genStr(r *kit.Rng, js bool) string {
	switch r.Pick(40, 8, 10, 8, 8, 6) {
	case 0:
		return pickStr(r, []string{"x", "GET", "svc-a", "ok", "log", "200", "true"})
	case 1:
		return ""
	case 2:
		return pickStr(r, []string{"héllo wörld", "日本語", "a\"b\\c", "line\nbreak", "tab\there"})
	case 3:
		return strings.Repeat("z", 31+r.Intn(3)) // around the fixstr/str8 boundary
	case 4:
		return strings.Repeat("y", 255+r.Intn(2)) // around the str8/str16 boundary
	default:
		if js {
			return "plain text"
		}
		return "bad\xff\xfeutf8"
	}
}

func genScalar(r *kit.Rng, js bool) node {
	if js {
		switch r.Pick(35, 35, 12, 8, 10) {
		case 0:
			return str(genStr(r, true))
		case 1:
			if r.Chance(60) {
				return jnum(pickStr(r, jsonLits))
			}
			if r.Chance(50) {
				return jnum(strconv.FormatInt(int64(r.Next()>>(r.Intn(60)))-int64(r.Intn(1000)), 10))
			}
			return jnum(strconv.FormatFloat(float64(int64(r.Next()>>20))/float64(1+r.Intn(1000)), 'g', -1, 64))
		case 2:
			return boolv(r.Chance(50))
		case 3:
			return node{t: 'N'}
		default:
			return str(pickStr(r, []string{"2024-01-01T00:00:00Z", "1", "0"}))
		}
	}
	switch r.Pick(22, 14, 10, 10, 6, 8, 6, 8, 8) {
	case 0:
		n := str(genStr(r, false))
		if r.Chance(15) {
			n.w = []int{8, 16, 32}[r.Intn(3)]
		}
		return n
	case 1:
		vals := []int64{0, 1, 127, 128, -1, -32, -33, 255, 65536, 1 << 40, math.MaxInt64, math.MinInt64, int64(r.Intn(100000))}
		n := ival(vals[r.Intn(len(vals))])
		if r.Chance(25) {
			n.w = []int{8, 16, 32, 64}[r.Intn(4)]
		}
		return n
	case 2:
		vals := []uint64{0, 5, 255, 256, 65535, 1 << 33, math.MaxInt64, math.MaxInt64 + 1, math.MaxUint64}
		n := node{t: 'u', u: vals[r.Intn(len(vals))]}
		if r.Chance(25) {
			n.w = []int{8, 16, 32, 64}[r.Intn(4)]
		}
		return n
	case 3:
		fs := []float64{0, 1.5, -0.0, 1e300, 3, 0.1, math.Inf(1), math.NaN(), float64(r.Intn(1000)) / 8}
		return f64(fs[r.Intn(len(fs))])
	case 4:
		fs := []float32{0, 1.5, 3, 0.1, -2.25}
		return node{t: 'f', bits: uint64(math.Float32bits(fs[r.Intn(len(fs))]))}
	case 5:
		return boolv(r.Chance(50))
	case 6:
		return node{t: 'N'}
	case 7:
		return node{t: 'b', s: pickStr(r, []string{"", "\x00\x01\xff", "bin", "0123456789abcdef"})}
	default:
		secs := []int64{0, 1, 1700000000, math.MaxUint32, math.MaxUint32 + 1, 1<<34 - 1, 1 << 34, -1}
		n := node{t: 't', sec: secs[r.Intn(len(secs))]}
		if r.Chance(60) {
			n.nsec = int64(r.Intn(1000000000))
		}
		if r.Chance(20) {
			n.w = 96
		}
		return n
	}
}

func genKeyName(r *kit.Rng) string {
	if r.Chance(25) {
		return pickStr(r, nearPool)
	}
	return pickStr(r, fillPool)
}

func genVal(r *kit.Rng, depth int, js bool) node {
	if depth >= 3 || r.Chance(72) {
		return genScalar(r, js)
	}
	if r.Chance(50) {
		n := node{t: 'a'}
		for i, c := 0, r.Intn(4); i < c; i++ {
			n.arr = append(n.arr, genVal(r, depth+1, js))
		}
		return n
	}
	n := node{t: 'm'}
	used := map[string]bool{}
	for i, c := 0, r.Intn(4); i < c; i++ {
		k := genKeyName(r)
		if used[k] && !(r.Chance(15) && !js) { // a repeated key inside a nested map is rare
			continue
		}
		used[k] = true
		n.keys = append(n.keys, mkey{s: k, bin: !js && r.Chance(10)})
		n.vals = append(n.vals, genVal(r, depth+1, js))
	}
	return n
}

// idVal: the typings the property is about for an id-like field.
func idVal(r *kit.Rng, js bool, good string) node {
	switch r.Pick(60, 13, 8, 8, 5, 3, 3) {
	case 0:
		return str(good)
	case 1:
		return str("")
	case 2:
		if js {
			return jnum("17")
		}
		return node{t: 'b', s: good}
	case 3:
		if js {
			return jnum("42")
		}
		return ival(42)
	case 4:
		return node{t: 'N'}
	case 5:
		return boolv(true)
	default:
		if js {
			return jnum("1.5")
		}
		return f64(1.5)
	}
}

func genFields(r *kit.Rng, c gcfg, prof, path string) []field {
	js := path == "jb" || path == "js"
	var fs []field
	add := func(k string, v node) { fs = append(fs, field{mkey{s: k}, v}) }
	pID, pPar, pMT, pSig := 65, 50, 30, 35
	if prof == "fwd" {
		pID, pPar, pMT, pSig = 40, 30, 12, 15
	}
	for i, n := range c.tn {
		if r.Chance(pID) {
			add(n, idVal(r, js, fmt.Sprintf("T%d-%d", i, r.Intn(3))))
		}
	}
	if r.Chance(6) { // a trace-id-looking field that is not configured
		add(pickStr(r, tracePool), str("unconfigured"))
	}
	for i, n := range c.pn {
		if r.Chance(pPar) {
			add(n, idVal(r, js, fmt.Sprintf("P%d", i)))
		}
	}
	if r.Chance(pMT) {
		switch r.Pick(60, 20, 8, 12) {
		case 0:
			add("meta.trace_id", str("M"+strconv.Itoa(r.Intn(3))))
		case 1:
			add("meta.trace_id", str(""))
		case 2:
			add("meta.trace_id", idVal(r, js, "Mb"))
		default:
			if js {
				add("meta.trace_id", jnum("7"))
			} else {
				add("meta.trace_id", ival(7))
			}
		}
	}
	if r.Chance(pSig) {
		switch r.Pick(50, 25, 10, 15) {
		case 0:
			add("meta.signal_type", str("log"))
		case 1:
			add("meta.signal_type", str("trace"))
		case 2:
			add("meta.signal_type", str(""))
		default:
			add("meta.signal_type", idVal(r, js, "log"))
		}
	}
	if r.Chance(6) {
		if r.Chance(80) {
			add("meta.refinery.root", boolv(r.Chance(50)))
		} else {
			add("meta.refinery.root", str("true"))
		}
	}
	if r.Chance(3) {
		add("meta.refinery.probe", boolv(r.Chance(70)))
	}
	pRes := 10
	if prof == "fwd" {
		pRes = 30
	}
	if r.Chance(pRes) { // some other reserved field, well or badly typed
		names := metaNames()
		tbl := types.VerifPayloadMetaTable()
		k := names[r.Intn(len(names))]
		if k != "meta.trace_id" && k != "meta.signal_type" && k != "meta.refinery.root" && k != "meta.refinery.probe" {
			if r.Chance(60) {
				switch tbl[k] {
				case "str":
					add(k, str(pickStr(r, []string{"v", "", "span_event"})))
				case "bool":
					add(k, boolv(r.Chance(50)))
				default:
					if js {
						add(k, jnum(pickStr(r, []string{"3", "0", "2.75", "-4", "1e19"})))
					} else if r.Chance(75) {
						add(k, ival(int64(r.Intn(5))-1))
					} else {
						add(k, node{t: 'u', u: []uint64{3, math.MaxInt64, math.MaxInt64 + 1}[r.Intn(3)]})
					}
				}
			} else {
				add(k, genScalar(r, js))
			}
		}
	}
	for _, k := range c.sk {
		p := 35
		if prof == "fwd" {
			p = 75
		}
		if r.Chance(p) {
			dup := false
			for _, f := range fs {
				dup = dup || f.k.s == k
			}
			if !dup {
				add(k, genVal(r, 0, js))
			}
		}
	}
	// field names that differ from a configured sampling-key / trace-ID / parent-ID field name only in
	// letter case: other fields as far as the configuration goes; alone or next to the exact name
	// (the shuffle below gives both orders)
	has := func(k string) bool {
		for _, f := range fs {
			if f.k.s == k {
				return true
			}
		}
		return false
	}
	pVarKey, pVarID := 6, 7
	if prof == "fwd" {
		pVarKey, pVarID = 14, 5
	}
	for _, k := range c.sk {
		if v := caseVariant(r, k); v != k && !has(v) && r.Chance(pVarKey) {
			add(v, genScalar(r, js))
		}
	}
	for i, k := range append(append([]string{}, c.tn...), c.pn...) {
		if v := caseVariant(r, k); v != k && !has(v) && r.Chance(pVarID) {
			add(v, idVal(r, js, fmt.Sprintf("V%d", i)))
		}
	}
	nfill := r.Intn(3)
	if prof == "fwd" {
		nfill = 1 + r.Intn(5)
	}
	for i := 0; i < nfill; i++ {
		k := genKeyName(r)
		dup := false
		for _, f := range fs {
			dup = dup || f.k.s == k
		}
		if !dup {
			add(k, genVal(r, 0, js))
		}
	}
	if len(fs) > 0 && path != "js" && r.Chance(4) { // a repeated top-level key (outside the unique-keys scope)
		f := fs[r.Intn(len(fs))]
		add(f.k.s, genScalar(r, js))
	}
	if len(fs) == 0 && r.Chance(85) {
		add("name", str("only"))
	}
	for i := len(fs) - 1; i > 0; i-- {
		j := r.Intn(i + 1)
		fs[i], fs[j] = fs[j], fs[i]
	}
	if !js {
		for i := range fs {
			if r.Chance(4) {
				fs[i].k.bin = true
			}
		}
		// tinylib's NextType only recognises a timestamp extension when at least one byte follows it, so
		// a timestamp that is the very last value of the buffer is read back as a raw extension (and
		// survives re-encoding).  That position dependence is the library's; keep it out of the cases.
		if len(fs) > 0 && endsWithTime(fs[len(fs)-1].v) {
			fs = append(fs, field{mkey{s: "tail"}, str("pad")})
		}
	}
	return fs
}

// caseVariant changes the case of ASCII letters of k: the first letter, every letter, or the first
// letter of the last dotted segment (traceId -> TraceId / TRACEID, http.status -> http.Status).
func caseVariant(r *kit.Rng, k string) string {
	b := []byte(k)
	flip := func(i int) {
		switch {
		case b[i] >= 'a' && b[i] <= 'z':
			b[i] -= 32
		case b[i] >= 'A' && b[i] <= 'Z':
			b[i] += 32
		}
	}
	isL := func(c byte) bool { return c >= 'a' && c <= 'z' || c >= 'A' && c <= 'Z' }
	switch r.Intn(3) {
	case 0:
		for i := range b {
			if isL(b[i]) {
				flip(i)
				break
			}
		}
	case 1:
		for i := range b {
			if b[i] >= 'a' && b[i] <= 'z' {
				b[i] -= 32
			}
		}
	default:
		start := strings.LastIndexByte(k, '.') + 1
		for i := start; i < len(b); i++ {
			if isL(b[i]) {
				flip(i)
				break
			}
		}
	}
	return string(b)
}

func endsWithTime(n node) bool {
	switch n.t {
	case 't':
		return true
	case 'a':
		return len(n.arr) > 0 && endsWithTime(n.arr[len(n.arr)-1])
	case 'm':
		return len(n.vals) > 0 && endsWithTime(n.vals[len(n.vals)-1])
	}
	return false
}

func keyTok(k mkey) string {
	if k.bin {
		return "K:" + kit.Enc(k.s)
	}
	return "k:" + kit.Enc(k.s)
}

func evOp(path string, fs []field) string {
	toks := []string{"ev", path, strconv.Itoa(len(fs))}
	for _, f := range fs {
		toks = append(toks, keyTok(f.k))
		toks = f.v.tokens(false, toks)
	}
	return strings.Join(toks, " ")
}

func genEvent(r *kit.Rng, c gcfg, prof string) []string {
	path := []string{"mp", "jb", "js", "om"}[r.Pick(35, 30, 25, 10)]
	fs := genFields(r, c, prof, path)
	ops := []string{evOp(path, fs)}
	keyPool := []string{"nope"}
	for _, f := range fs {
		keyPool = append(keyPool, f.k.s)
	}
	keyPool = append(keyPool, c.sk...)
	keyPool = append(keyPool, "meta.trace_id", "meta.span_count", "meta.refinery.root", "meta.annotation_type", "meta.foo")
	fwdish := prof == "fwd"
	pc := func(a, b int) bool {
		if fwdish {
			return r.Chance(a)
		}
		return r.Chance(b)
	}
	memo := func() {
		n := 1 + r.Intn(3)
		toks := []string{"memo"}
		for i := 0; i < n; i++ {
			toks = append(toks, "k:"+kit.Enc(pickStr(r, keyPool)))
		}
		ops = append(ops, strings.Join(toks, " "))
	}
	if pc(50, 12) {
		memo()
	}
	if pc(35, 10) {
		ops = append(ops, pickStr(r, []string{"get", "has"})+" k:"+kit.Enc(pickStr(r, keyPool)))
	}
	if pc(55, 10) {
		for i, n := 0, 1+r.Intn(3); i < n; i++ {
			var k string
			var v node
			switch r.Pick(12, 8, 10, 8, 6, 6, 6, 10, 8, 10, 6, 4, 3, 3) {
			case 0:
				k, v = "meta.refinery.reason", str("rules/trace/r1")
			case 1:
				k, v = "meta.refinery.send_reason", str("trace_send_got_root")
			case 2:
				k, v = "meta.span_count", ival(int64(r.Intn(4)))
			case 3:
				k, v = "meta.event_count", ival(int64(1+r.Intn(9)))
			case 4:
				k, v = "meta.refinery.original_sample_rate", ival(int64(1+r.Intn(50)))
			case 5:
				k, v = "meta.stressed", boolv(true)
			case 6:
				k, v = "meta.refinery.local_hostname", str("host-1")
			case 7:
				k, v = "meta.refinery.dryrun.kept", boolv(r.Chance(50))
			case 8:
				k, v = "meta.dryrun.sample_rate", node{t: 'u', u: uint64(1 + r.Intn(100))}
			case 9:
				k, v = "added.attr", str("cluster-7")
			case 10:
				k, v = pickStr(r, keyPool), str("overridden")
			case 11:
				k, v = "meta.span_count", str("three") // wrong Go type for a reserved field
			case 12:
				k, v = "meta.refinery.sample_key", str("k•v")
			default:
				k, v = "meta.refinery.final_sample_rate", ival(int64(r.Intn(3)))
			}
			ops = append(ops, "set k:"+kit.Enc(k)+" "+v.spell())
		}
	}
	if pc(20, 4) {
		memo()
	}
	if pc(30, 8) {
		ops = append(ops, pickStr(r, []string{"get", "has"})+" k:"+kit.Enc(pickStr(r, keyPool)))
	}
	if pc(85, 25) {
		ops = append(ops, "out")
	}
	if pc(25, 20) {
		ops = append(ops, "fwd")
	}
	return ops
}

func (comp) Gen(r *kit.Rng, maxLen int, tier string) kit.Case {
	prof := "id"
	if r.Chance(40) {
		prof = "fwd"
	}
	if r.Chance(15) {
		return genQueueCase(r)
	}
	c := genCfg(r, prof)
	n := 4 + r.Intn(maxLen)
	var ops []string
	for len(ops) < n {
		ops = append(ops, genEvent(r, c, prof)...)
	}
	h := fmt.Sprintf("prof=%s tn=%s pn=%s sk=%s ua=%s", prof, encList(c.tn), encList(c.pn), encList(c.sk), kit.Enc(c.ua))
	return kit.Case{Header: h, Ops: ops}
}

// sameSize returns a value of the same shape and encoded size with other contents: a later
// request built from it fills a recycled body buffer byte for byte like the earlier one.
func sameSize(n node) node {
	switch n.t {
	case 's', 'b':
		b := []byte(n.s)
		for i := range b {
			switch {
			case b[i] >= 'a' && b[i] < 'z', b[i] >= 'A' && b[i] < 'Z', b[i] >= '0' && b[i] < '9':
				b[i]++
			case b[i] == 'z', b[i] == 'Z':
				b[i] -= 25
			case b[i] == '9':
				b[i] = '0'
			}
		}
		n.s = string(b)
	case 'i':
		if n.i > 0 && n.i < 127 || n.i > 128 && n.i < 30000 {
			n.i--
		} else if n.i == 0 {
			n.i = 1
		}
	case 'u':
		if n.u > 0 && n.u != 128 && n.u != 256 && n.u != 65536 {
			n.u--
		}
	case 'd', 'f':
		if n.num == "" {
			n.bits ^= 1
		}
	case 'T':
		n.t = 'F'
	case 'F':
		n.t = 'T'
	case 't':
		if n.nsec > 0 {
			n.nsec--
		}
	case 'a':
		arr := make([]node, len(n.arr))
		for i, c := range n.arr {
			arr[i] = sameSize(c)
		}
		n.arr = arr
	case 'm':
		vals := make([]node, len(n.vals))
		for i, c := range n.vals {
			vals[i] = sameSize(c)
		}
		n.vals = vals
	}
	return n
}

// genQueueCase: events stay queued (`post`) while 1-20 further requests of the same and of other
// body sizes go through the same handlers in the same goroutine (so the pooled HTTP body buffer is
// really handed back and reused); only then the queued events are re-encoded (`outq`).
func genQueueCase(r *kit.Rng) kit.Case {
	c := genCfg(r, "fwd")
	var ops []string
	type heldEv struct {
		id, path string
		fs       []field
	}
	var held []heldEv
	for i, n := 0, 1+r.Intn(3); i < n; i++ {
		path := []string{"mp", "pr", "jb", "om"}[r.Pick(60, 20, 15, 5)]
		fs := genFields(r, c, "fwd", path)
		id := "q" + strconv.Itoa(i)
		held = append(held, heldEv{id, path, fs})
		ops = append(ops, "post "+id+" "+evOp(path, fs)[3:], "out")
	}
	for i, n := 0, 1+r.Intn(20); i < n; i++ {
		h := held[r.Intn(len(held))]
		switch r.Pick(45, 35, 20) {
		case 0: // same framing, same shape, same size, other values
			fs := make([]field, len(h.fs))
			for j, f := range h.fs {
				fs[j] = field{f.k, sameSize(f.v)}
			}
			path := h.path
			if path == "om" {
				path = "mp"
			}
			ops = append(ops, evOp(path, fs))
		case 1:
			path := []string{"mp", "pr", "jb", "js"}[r.Pick(45, 15, 25, 15)]
			ops = append(ops, evOp(path, genFields(r, c, "fwd", path)))
		default: // a small body: only the head of the buffer is rewritten
			path := []string{"mp", "jb"}[r.Intn(2)]
			ops = append(ops, evOp(path, []field{{mkey{s: "k"}, str(pickStr(r, []string{"v", "", "0123456789"}))}}))
		}
	}
	for _, h := range held {
		ops = append(ops, "outq "+h.id)
	}
	hd := fmt.Sprintf("prof=queue tn=%s pn=%s sk=%s ua=%s", encList(c.tn), encList(c.pn), encList(c.sk), kit.Enc(c.ua))
	return kit.Case{Header: hd, Ops: ops}
}

// ---------------------------------------------------------------- recording collector / transmission

type fakeCollector struct {
	spans    []*types.Span
	fromPeer []bool
}

func (f *fakeCollector) AddSpan(sp *types.Span) error {
	f.spans = append(f.spans, sp)
	f.fromPeer = append(f.fromPeer, false)
	return nil
}
func (f *fakeCollector) AddSpanFromPeer(sp *types.Span) error {
	f.spans = append(f.spans, sp)
	f.fromPeer = append(f.fromPeer, true)
	return nil
}
func (f *fakeCollector) Stressed() bool { return false }
func (f *fakeCollector) GetStressedSampleRate(string) (uint, bool, string) {
	return 0, false, ""
}
func (f *fakeCollector) ProcessSpanImmediately(*types.Span) (bool, bool) { return false, false }

type fakeTx struct{ events []*types.Event }

func (f *fakeTx) EnqueueEvent(ev *types.Event) { f.events = append(f.events, ev) }
func (f *fakeTx) EnqueueSpan(sp *types.Span)   { f.events = append(f.events, sp.Event) }

// ---------------------------------------------------------------- runner

type runner struct {
	cfg       *config.MockConfig
	sk        []string
	ua        string
	coll      *fakeCollector
	up, ptx   *fakeTx
	inc, peer *route.Router
	cur       *types.Payload
	held      map[string]*types.Payload // events a node keeps queued across later requests (`post`)
	metaTbl   map[string]string
}

func (comp) NewCase(h []string) kit.Runner {
	r := &runner{sk: decList(kit.KV(h, "sk")), ua: kit.Dec(kit.KV(h, "ua")), metaTbl: types.VerifPayloadMetaTable(),
		held: map[string]*types.Payload{}}
	r.cfg = &config.MockConfig{
		TraceIdFieldNames:  decList(kit.KV(h, "tn")),
		ParentIdFieldNames: decList(kit.KV(h, "pn")),
		GetHoneycombAPIVal: "http://upstream.invalid",
	}
	if len(r.sk) > 0 {
		r.cfg.GetSamplerTypeVal = &config.DynamicSamplerConfig{SampleRate: 1, FieldList: r.sk}
	} else {
		r.cfg.GetSamplerTypeVal = &config.DeterministicSamplerConfig{SampleRate: 1}
	}
	r.coll, r.up, r.ptx = &fakeCollector{}, &fakeTx{}, &fakeTx{}
	lg := &logger.NullLogger{}
	met := &metrics.NullMetrics{}
	sh := &sharder.MockSharder{Self: &sharder.TestShard{Addr: "http://self"}}
	r.inc = route.VerifPayloadNewRouter(r.cfg, lg, met, r.up, r.ptx, r.coll, sh, types.RouterTypeIncoming)
	r.peer = route.VerifPayloadNewRouter(r.cfg, lg, met, r.up, r.ptx, r.coll, sh, types.RouterTypePeer)
	return r
}

func (r *runner) Close() {}

func (r *runner) reset() {
	r.coll.spans, r.coll.fromPeer, r.up.events, r.ptx.events = nil, nil, nil, nil
}

func (r *runner) request(url string, body []byte, ctype string) *http.Request {
	req := httptest.NewRequest("POST", url, bytes.NewReader(body))
	req.Header.Set("Content-Type", ctype)
	req.Header.Set(types.APIKeyHeader, apiKey)
	if r.ua != "" {
		req.Header.Set("User-Agent", r.ua)
	} else {
		req.Header.Del("User-Agent")
	}
	return mux.SetURLVars(req, map[string]string{"datasetName": "ds"})
}

func fieldsNode(fs []field) node {
	n := node{t: 'm'}
	for _, f := range fs {
		n.keys = append(n.keys, f.k)
		n.vals = append(n.vals, f.v)
	}
	return n
}

// msgpBatch frames one already-encoded data map as a one-event msgpack batch body.
func msgpBatch(data []byte) []byte {
	b := []byte{0x91, 0x83, 0xa4, 't', 'i', 'm', 'e', 0xd6, 0xff, 0x65, 0x92, 0x00, 0x80,
		0xaa, 's', 'a', 'm', 'p', 'l', 'e', 'r', 'a', 't', 'e', 0x01, 0xa4, 'd', 'a', 't', 'a'}
	return append(b, data...)
}

// collect reads what the routers handed on since the last reset.
func (r *runner) collect() (string, *types.Payload) {
	switch {
	case len(r.coll.spans) == 1 && len(r.up.events) == 0 && len(r.ptx.events) == 0:
		sp := r.coll.spans[0]
		root := "F"
		if sp.IsRoot {
			root = "T"
		}
		return "span:" + kit.Enc(sp.TraceID) + ":" + root, &sp.Event.Data
	case len(r.coll.spans) == 0 && len(r.up.events) == 1 && len(r.ptx.events) == 0:
		return "nonspan", &r.up.events[0].Data
	case len(r.coll.spans) == 0 && len(r.up.events) == 0 && len(r.ptx.events) == 0:
		return "probe", nil // accepted and dropped
	}
	return fmt.Sprintf("confused:%d:%d:%d", len(r.coll.spans), len(r.up.events), len(r.ptx.events)), nil
}

func (r *runner) batchOutcome(rt *route.Router, body []byte, ctype string) (string, *types.Payload) {
	r.reset()
	w := httptest.NewRecorder()
	rt.VerifPayloadBatch(w, r.request("/1/batch/ds", body, ctype))
	if w.Code != http.StatusOK {
		return "err", nil
	}
	var resp []struct {
		Status int `json:"status"`
	}
	if err := json.Unmarshal(w.Body.Bytes(), &resp); err != nil || len(resp) != 1 {
		return "err", nil
	}
	if resp[0].Status != http.StatusAccepted {
		return "err", nil
	}
	return r.collect()
}

func (r *runner) ingest(path string, fs []field) (string, *types.Payload) {
	data := fieldsNode(fs)
	switch path {
	case "mp":
		return r.batchOutcome(r.inc, msgpBatch(data.msgp(nil)), "application/msgpack")
	case "pr": // peer traffic: the same handler on the peer-type router
		return r.batchOutcome(r.peer, msgpBatch(data.msgp(nil)), "application/msgpack")
	case "jb":
		var sb strings.Builder
		sb.WriteString(`[{"time":"2023-12-31T00:00:00Z","samplerate":1,"data":`)
		data.json(&sb)
		sb.WriteString(`}]`)
		return r.batchOutcome(r.inc, []byte(sb.String()), "application/json")
	case "js":
		var sb strings.Builder
		data.json(&sb)
		r.reset()
		w := httptest.NewRecorder()
		r.inc.VerifPayloadEvent(w, r.request("/1/events/ds", []byte(sb.String()), "application/json"))
		if w.Code != http.StatusOK {
			return "err", nil
		}
		return r.collect()
	case "om":
		r.reset()
		cu := types.NewCoreFieldsUnmarshaler(types.CoreFieldsUnmarshalerOptions{Config: r.cfg, APIKey: apiKey, Env: "", Dataset: "ds"})
		p := types.NewPayload(r.cfg, nil)
		if err := cu.UnmarshalMsgpEventMetadataOnly(data.msgp(nil), &p); err != nil {
			return "err", nil
		}
		ev := &types.Event{Context: context.Background(), APIKey: apiKey, Dataset: "ds", SampleRate: 1, Data: p}
		if err := r.inc.VerifPayloadProcessEvent(ev, r.ua); err != nil {
			return "err", nil
		}
		return r.collect()
	}
	return "bad-path", nil
}

func rootState(p *types.Payload) string {
	if p == nil || !p.MetaRefineryRoot.HasValue {
		return "n"
	}
	if p.MetaRefineryRoot.Value {
		return "T"
	}
	return "F"
}

func (r *runner) stateObs(p *types.Payload) string {
	m, x := types.VerifPayloadState(p)
	return "m=" + sortedEnc(m) + " x=" + sortedEnc(x)
}

func parseKey(tok string) (mkey, bool) {
	t, rest := cut(tok)
	if t != "k" && t != "K" {
		return mkey{}, false
	}
	return mkey{s: kit.Dec(rest), bin: t == "K"}, true
}

const jsRuns = 4

func (r *runner) Do(op []string) (string, bool) {
	switch op[0] {
	case "post":
		// `post <id> <path> <n> …` = `ev`, and the event stays queued under <id> (the recording
		// collector / transmission keeps the *types.Event, as the real ones do until the trace is
		// decided resp. the batch is sent), while later requests go through the same handlers.
		if len(op) < 4 {
			return "bad-op", true
		}
		obs, has := r.Do(append([]string{"ev"}, op[2:]...))
		if r.cur != nil {
			r.held[op[1]] = r.cur
		} else {
			delete(r.held, op[1])
		}
		return obs, has
	case "outq":
		if len(op) != 2 {
			return "bad-op", true
		}
		p := r.held[op[1]]
		if p == nil {
			return "nopayload", true
		}
		b, err := p.MarshalMsg(nil)
		if err != nil {
			return "err", true
		}
		n, err := decodeMsgp(b)
		if err != nil || n.t != 'm' {
			return "undecodable", true
		}
		return n.canon(), true
	case "ev":
		if len(op) < 3 {
			return "bad-op", true
		}
		n, err := strconv.Atoi(op[2])
		if err != nil {
			return "bad-op", true
		}
		pos := 3
		var fs []field
		for i := 0; i < n; i++ {
			if pos >= len(op) {
				return "bad-op", true
			}
			k, ok := parseKey(op[pos])
			pos++
			if !ok {
				return "bad-op", true
			}
			v, ok := parseVal(op, &pos)
			if !ok {
				return "bad-op", true
			}
			fs = append(fs, field{k, v})
		}
		if pos != len(op) {
			return "bad-op", true
		}
		path := op[1]
		r.cur = nil
		if path == "jb" || path == "js" {
			// the JSON number parser is an external function of the model (fastjson on the batch path,
			// jsoniter on the single-event path): report its value wherever it is not strconv's
			seen := map[string]bool{}
			for _, f := range fs {
				jsonNumberExts(path, f.v, seen)
			}
		}
		if path == "js" {
			// ExtractMetadata ranges over a Go map: the order is the implementation's choice.  Run the
			// request a few times, report every outcome seen, and tell the oracle which one the payload
			// kept for the following ops came from.
			for _, f := range fs {
				if r.metaTbl[f.k.s] == "int" && f.v.t == 'd' {
					x := math.Float64frombits(f.v.bits)
					kit.Ext("f2i %016x = %d", f.v.bits, int64(x))
				}
			}
			seen := map[string]bool{}
			var last string
			var lp *types.Payload
			for i := 0; i < jsRuns; i++ {
				o, p := r.ingest(path, fs)
				seen[o] = true
				last, lp = o, p
			}
			var os []string
			for o := range seen {
				os = append(os, o)
			}
			sort.Strings(os)
			r.cur = lp
			kit.Ext("seen %s", strings.Join(os, "|"))
			if lp == nil {
				return "o=" + strings.Join(os, "|"), true
			}
			kit.Ext("pick %s %s", last, rootState(lp))
			return "o=" + strings.Join(os, "|") + " r=" + rootState(lp) + " " + r.stateObs(lp), true
		}
		o, p := r.ingest(path, fs)
		r.cur = p
		if p == nil {
			return "o=" + o, true
		}
		return "o=" + o + " r=" + rootState(p) + " " + r.stateObs(p), true
	case "memo":
		if r.cur == nil {
			return "nopayload", true
		}
		var ks []string
		for _, t := range op[1:] {
			k, ok := parseKey(t)
			if !ok {
				return "bad-op", true
			}
			ks = append(ks, k.s)
		}
		r.cur.MemoizeFields(ks...)
		return r.stateObs(r.cur), true
	case "get", "has":
		if r.cur == nil {
			return "nopayload", true
		}
		if len(op) != 2 {
			return "bad-op", true
		}
		k, ok := parseKey(op[1])
		if !ok {
			return "bad-op", true
		}
		if op[0] == "has" {
			if r.cur.Exists(k.s) {
				return "T", true
			}
			return "F", true
		}
		return fromGo(r.cur.Get(k.s)).canon(), true
	case "set":
		if r.cur == nil {
			return "nopayload", true
		}
		if len(op) < 3 {
			return "bad-op", true
		}
		k, ok := parseKey(op[1])
		pos := 2
		v, ok2 := parseVal(op, &pos)
		if !ok || !ok2 || pos != len(op) {
			return "bad-op", true
		}
		r.cur.Set(k.s, v.toGo())
		return "", false
	case "out":
		if r.cur == nil {
			return "nopayload", true
		}
		b, err := r.cur.MarshalMsg(nil)
		if err != nil {
			return "err", true
		}
		n, err := decodeMsgp(b)
		if err != nil || n.t != 'm' {
			return "undecodable", true
		}
		return n.canon(), true
	case "fwd":
		if r.cur == nil {
			return "nopayload", true
		}
		if r.cur.MetaTraceID == "" {
			return "nofwd", true // only spans are forwarded to a peer
		}
		b, err := r.cur.MarshalMsg(nil)
		if err != nil {
			return "err", true
		}
		// MarshalMsg ranges over Go maps (the metadata table, memoizedFields): the order in which the
		// re-encoded event carries its fields is the implementation's choice, and the peer reads them
		// in that order.  Tell the oracle which order it was.
		if wn, derr := decodeMsgp(b); derr == nil && wn.t == 'm' {
			ks := make([]string, len(wn.keys))
			for i, k := range wn.keys {
				ks[i] = kit.Enc(k.s)
			}
			kit.Ext("worder %s", strings.Join(ks, ","))
		}
		keep := r.cur
		o, p := r.batchOutcome(r.peer, msgpBatch(b), "application/msgpack")
		r.cur = keep
		if p == nil {
			return "o=" + o, true
		}
		return "o=" + o + " r=" + rootState(p) + " " + r.stateObs(p), true
	}
	return "bad-op", true
}

// jsonNumberExts emits `ext jnum <strconv bits> = <library bits>` for every JSON numeral of v that
// the path's JSON library does not parse to the float64 nearest to the numeral (strconv.ParseFloat).
func jsonNumberExts(path string, v node, seen map[string]bool) {
	switch v.t {
	case 'a':
		for _, c := range v.arr {
			jsonNumberExts(path, c, seen)
		}
	case 'm':
		for _, c := range v.vals {
			jsonNumberExts(path, c, seen)
		}
	case 'd':
		if v.num == "" || seen[v.num] {
			return
		}
		seen[v.num] = true
		var got float64
		if path == "jb" {
			got = fastjson.MustParse(v.num).GetFloat64()
		} else {
			var a any
			if err := jsoniter.Unmarshal([]byte(v.num), &a); err != nil {
				return
			}
			f, ok := a.(float64)
			if !ok {
				return
			}
			got = f
		}
		if math.Float64bits(got) != v.bits {
			kit.Ext("jnum %016x = %016x", v.bits, math.Float64bits(got))
		}
	}
}

// ---------------------------------------------------------------- facts

func facts() map[string]string {
	t := types.VerifPayloadMetaTable()
	names := metaNames()
	parts := make([]string, len(names))
	for i, n := range names {
		parts[i] = fmt.Sprintf("(%s, %s)", strconv.Quote(n), strconv.Quote(t[n]))
	}
	return map[string]string{
		"metaFields":            "[" + strings.Join(parts, ", ") + "]",
		"metaTraceID":           types.MetaTraceID,
		"metaSignalType":        types.MetaSignalType,
		"metaRefineryRoot":      types.MetaRefineryRoot,
		"metaRefineryProbe":     types.MetaRefineryProbe,
		"metaIncomingUserAgent": types.MetaRefineryIncomingUserAgent,
		"maxInt64":              strconv.FormatInt(math.MaxInt64, 10),
	}
}

func main() { kit.Main(comp{}, facts) }
