//go:build verif

package main

import (
	"errors"
	"fmt"
	"os"
	"path/filepath"
	"reflect"
	"sort"
	"strconv"
	"strings"

	"github.com/honeycombio/refinery/config"
	"gopkg.in/yaml.v3"
)

// loadReq is one complete start-up of the real loader with one setting under test.
type loadReq struct {
	s        *setting
	validate bool
	locEnv   bool              // config locations through REFINERY_CONFIG instead of -c
	eqForm   bool              // flags as --long=value (otherwise "--long value" when the value allows it)
	flags    [][]string        // per option of the setting: raw values of the flag occurrences (nil: not given)
	envs     []*string         // per option: the environment variable (nil: unset)
	files    [2]val            // the setting's value in file 1 / file 2 (absent: not mentioned)
	vars     map[string]string // environment for ${VAR} expansion
}

type loadRes struct {
	class   string // ok | rej | err
	eff     val
	echoes  []string // value echoes of validation messages about the setting
	other   []string // validation messages about anything else
	getter  string   // same | blank | other | none
	errText string
}

const rulesYAML = "RulesVersion: 2\nSamplers:\n  __default__:\n    DeterministicSampler:\n      SampleRate: 1\n"

var tmpDir string

func workDir() string {
	if tmpDir == "" {
		base := os.Getenv("VERIF_SETTINGS_TMP")
		if base == "" {
			base = "/verif/.cache/settings-tmp"
		}
		tmpDir = filepath.Join(base, strconv.Itoa(os.Getpid()))
		if err := os.MkdirAll(tmpDir, 0o755); err != nil {
			panic(err)
		}
		if err := os.WriteFile(filepath.Join(tmpDir, "rules.yaml"), []byte(rulesYAML), 0o644); err != nil {
			panic(err)
		}
	}
	return tmpDir
}

func cleanupWorkDir() {
	if tmpDir != "" {
		os.RemoveAll(tmpDir)
	}
}

func yamlValue(v val) any {
	switch v.K {
	case 's':
		return v.S
	case 'n':
		n, _ := strconv.ParseUint(v.S, 10, 64)
		return n
	case 'l':
		l := make([]string, len(v.L))
		copy(l, v.L)
		return l
	case 'm':
		return v.toMap()
	}
	return nil
}

// fileYAML renders one config file: file 1 always carries the one required field; the setting is
// mentioned only when v is present.
func fileYAML(s *setting, v val, base bool) []byte {
	root := map[string]any{}
	if base {
		root["General"] = map[string]any{"ConfigurationVersion": 2}
	}
	if v.present() {
		cur := root
		for i, n := range s.YAML {
			if i == len(s.YAML)-1 {
				cur[n] = yamlValue(v)
				break
			}
			nx, ok := cur[n].(map[string]any)
			if !ok {
				nx = map[string]any{}
				cur[n] = nx
			}
			cur = nx
		}
	}
	if len(root) == 0 {
		return []byte("{}\n")
	}
	b, err := yaml.Marshal(root)
	if err != nil {
		panic(err)
	}
	return b
}

var (
	realStdout *os.File
	devNull    *os.File
)

// the loader prints diagnostics with fmt.Printf; the transcript goes to the real stdout
func muteStdout() func() {
	if devNull == nil {
		realStdout = os.Stdout
		f, err := os.OpenFile(os.DevNull, os.O_WRONLY, 0)
		if err != nil {
			panic(err)
		}
		devNull = f
	}
	os.Stdout = devNull
	return func() { os.Stdout = realStdout }
}

func clearRefineryEnv() {
	for _, kv := range os.Environ() {
		k := strings.SplitN(kv, "=", 2)[0]
		if strings.HasPrefix(k, "REFINERY_") || strings.HasPrefix(k, "HONEYCOMB_") || strings.HasPrefix(k, "VS_") {
			os.Unsetenv(k)
		}
	}
}

func fieldVal(s *setting, main any) val {
	f := reflect.ValueOf(main).Elem().FieldByIndex(s.Index)
	switch s.Kind {
	case "str":
		return strVal(f.String())
	case "strs":
		l := make([]string, f.Len())
		for i := range l {
			l[i] = f.Index(i).String()
		}
		return listVal(l)
	case "smap":
		m := map[string]string{}
		it := f.MapRange()
		for it.Next() {
			m[it.Key().String()] = it.Value().String()
		}
		return mapVal(m)
	case "num":
		if f.CanUint() {
			return val{K: 'n', S: strconv.FormatUint(f.Uint(), 10)}
		}
		return val{K: 'n', S: strconv.FormatInt(f.Int(), 10)}
	}
	return absent
}

// getters of the public Config interface that read one table setting
var getters = map[string]func(c config.Config) val{
	"Network.ListenAddr":                     func(c config.Config) val { return strVal(c.GetListenAddr()) },
	"Network.PeerListenAddr":                 func(c config.Config) val { return strVal(c.GetPeerListenAddr()) },
	"Network.HoneycombAPI":                   func(c config.Config) val { return strVal(c.GetHoneycombAPI()) },
	"Network.AdditionalHeaders":              func(c config.Config) val { return mapVal(c.GetAdditionalHeaders()) },
	"GRPCServerParameters.ListenAddr":        func(c config.Config) val { return strVal(c.GetGRPCListenAddr()) },
	"Debugging.DebugServiceAddr":             func(c config.Config) val { return strVal(c.GetDebugServiceAddr()) },
	"Debugging.QueryAuthToken":               func(c config.Config) val { return strVal(c.GetQueryAuthToken()) },
	"Debugging.AdditionalErrorFields":        func(c config.Config) val { return listVal(c.GetAdditionalErrorFields()) },
	"RedisPeerManagement.Host":               func(c config.Config) val { return strVal(c.GetRedisPeerManagement().Host) },
	"RedisPeerManagement.ClusterHosts":       func(c config.Config) val { return listVal(c.GetRedisPeerManagement().ClusterHosts) },
	"RedisPeerManagement.Username":           func(c config.Config) val { return strVal(c.GetRedisPeerManagement().Username) },
	"RedisPeerManagement.Password":           func(c config.Config) val { return strVal(c.GetRedisPeerManagement().Password) },
	"RedisPeerManagement.AuthCode":           func(c config.Config) val { return strVal(c.GetRedisPeerManagement().AuthCode) },
	"PeerManagement.Type":                    func(c config.Config) val { return strVal(c.GetPeerManagementType()) },
	"PeerManagement.Peers":                   func(c config.Config) val { return listVal(c.GetPeers()) },
	"PeerManagement.Identifier":              func(c config.Config) val { return strVal(c.GetRedisIdentifier()) },
	"PeerManagement.IdentifierInterfaceName": func(c config.Config) val { return strVal(c.GetIdentifierInterfaceName()) },
	"AccessKeys.SendKey":                     func(c config.Config) val { return strVal(c.GetAccessKeyConfig().SendKey) },
	"AccessKeys.SendKeyMode":                 func(c config.Config) val { return strVal(c.GetAccessKeyConfig().SendKeyMode) },
	"AccessKeys.ReceiveKeys":                 func(c config.Config) val { return listVal(c.GetAccessKeyConfig().ReceiveKeys) },
	"General.DatasetPrefix":                  func(c config.Config) val { return strVal(c.GetDatasetPrefix()) },
	"Logger.Type":                            func(c config.Config) val { return strVal(c.GetLoggerType()) },
	"HoneycombLogger.APIKey":                 func(c config.Config) val { return strVal(c.GetHoneycombLoggerConfig().APIKey) },
	"HoneycombLogger.APIHost":                func(c config.Config) val { return strVal(c.GetHoneycombLoggerConfig().APIHost) },
	"HoneycombLogger.AdditionalAttributes":   func(c config.Config) val { return mapVal(c.GetHoneycombLoggerConfig().AdditionalAttributes) },
	"OTelMetrics.APIKey":                     func(c config.Config) val { return strVal(c.GetOTelMetricsConfig().APIKey) },
	"OTelMetrics.AdditionalAttributes":       func(c config.Config) val { return mapVal(c.GetOTelMetricsConfig().AdditionalAttributes) },
	"OTelTracing.APIKey":                     func(c config.Config) val { return strVal(c.GetOTelTracingConfig().APIKey) },
	"OpAMP.Endpoint":                         func(c config.Config) val { return strVal(c.GetOpAMPConfig().Endpoint) },
	"Collection.AvailableMemory": func(c config.Config) val {
		return val{K: 'n', S: strconv.FormatUint(uint64(c.GetCollectionConfig().AvailableMemory), 10)}
	},
	"IDFields.TraceNames":              func(c config.Config) val { return listVal(c.GetTraceIdFieldNames()) },
	"IDFields.ParentNames":             func(c config.Config) val { return listVal(c.GetParentIdFieldNames()) },
	"Specialized.AdditionalAttributes": func(c config.Config) val { return mapVal(c.GetAdditionalAttributes()) },
	"StressRelief.Mode":                func(c config.Config) val { return strVal(c.GetStressReliefConfig().Mode) },
	"PrometheusMetrics.ListenAddr":     func(c config.Config) val { return strVal(c.GetPrometheusMetricsConfig().ListenAddr) },
}

func runLoad(q loadReq) (res loadRes) {
	dir := workDir()
	f1 := filepath.Join(dir, "f1.yaml")
	f2 := filepath.Join(dir, "f2.yaml")
	if err := os.WriteFile(f1, fileYAML(q.s, q.files[0], true), 0o644); err != nil {
		panic(err)
	}
	if err := os.WriteFile(f2, fileYAML(q.s, q.files[1], false), 0o644); err != nil {
		panic(err)
	}
	var setenv []string
	set := func(k, v string) {
		if err := os.Setenv(k, v); err != nil {
			panic("setenv " + k + ": " + err.Error())
		}
		setenv = append(setenv, k)
	}
	defer func() {
		for _, k := range setenv {
			os.Unsetenv(k)
		}
	}()
	for k, v := range q.vars {
		set(k, v)
	}
	argv := []string{"refinery"}
	if q.locEnv {
		set("REFINERY_CONFIG", f1+","+f2)
	} else {
		argv = append(argv, "-c", f1, "--config="+f2)
	}
	argv = append(argv, "-r", filepath.Join(dir, "rules.yaml"))
	if !q.validate {
		argv = append(argv, "--no-validate")
	}
	for i, o := range q.s.Opts {
		if i < len(q.envs) && q.envs[i] != nil {
			set(o.Env, *q.envs[i])
		}
		if i < len(q.flags) {
			for _, fv := range q.flags[i] {
				if q.eqForm || fv == "" || strings.HasPrefix(fv, "-") {
					argv = append(argv, "--"+o.Long+"="+fv)
				} else {
					argv = append(argv, "--"+o.Long, fv)
				}
			}
		}
	}
	restore := muteStdout()
	defer restore()

	opts, err := config.NewCmdEnvOptions(argv)
	if err != nil {
		return loadRes{class: "err", errText: "cmdline:" + err.Error()}
	}
	cfg, err := config.NewConfig(opts)
	if cfg == nil || reflect.ValueOf(cfg).IsNil() {
		var fe *config.FileConfigError
		if errors.As(err, &fe) {
			res.class = "rej"
			prefix := "field " + q.s.Path + " "
			for _, r := range fe.ConfigResults {
				if !r.IsError() {
					continue
				}
				m := r.Message
				if strings.HasPrefix(m, prefix) {
					rest := m[len(prefix):]
					if strings.HasPrefix(rest, "(") {
						if j := strings.LastIndex(rest, ") must"); j >= 1 {
							res.echoes = append(res.echoes, rest[1:j])
							continue
						}
					}
					res.echoes = append(res.echoes, "?"+rest)
					continue
				}
				res.other = append(res.other, m)
			}
			for _, r := range fe.RulesResults {
				res.other = append(res.other, "rules:"+r.Message)
			}
			sort.Strings(res.echoes)
			return res
		}
		return loadRes{class: "err", errText: fmt.Sprint(err)}
	}
	main := config.VerifSettingsMain(cfg)
	if main == nil {
		return loadRes{class: "err", errText: "not a fileConfig"}
	}
	res.class = "ok"
	res.eff = fieldVal(q.s, main)
	res.getter = "none"
	if g, ok := getters[q.s.Path]; ok {
		gv := g(cfg)
		switch {
		case gv.tok() == res.eff.tok():
			res.getter = "same"
		case gv.K == 's' && gv.S == "":
			res.getter = "blank"
		default:
			res.getter = "other"
		}
	}
	return res
}

// singleBad asks the real validator about one value of the setting on its own (a config that
// mentions nothing else): true when it reports an error for the setting.
func singleBad(meta *config.Metadata, s *setting, v val) bool {
	root := map[string]any{}
	cur := root
	for i, n := range s.YAML {
		if i == len(s.YAML)-1 {
			switch v.K {
			case 'l':
				arr := make([]any, len(v.L))
				for j, e := range v.L {
					arr[j] = e
				}
				cur[n] = arr
			case 'm':
				mm := map[string]any{}
				for j, k := range v.MK {
					mm[k] = v.MV[j]
				}
				cur[n] = mm
			default:
				cur[n] = yamlValue(v)
			}
			break
		}
		nx := map[string]any{}
		cur[n] = nx
		cur = nx
	}
	for _, r := range meta.Validate(root) {
		if r.IsError() && strings.Contains(r.Message, s.Path) {
			return true
		}
	}
	return false
}
