//go:build verif

package main

import (
	"encoding/json"
	"fmt"
	"reflect"
	"sort"
	"strings"

	"github.com/honeycombio/refinery/config"
)

// option is one CmdEnv field a setting's `cmdenv` tag names.
type option struct {
	Name  string // CmdEnv field name
	Long  string // --long flag
	Env   string // environment variable
	Delim string // env-delim tag ("" when absent)
}

// setting is one row of the table: a leaf field of the real main-config struct that carries a
// `cmdenv` tag or has a string type (string, []string, map[string]string).
type setting struct {
	Path    string   // yaml path, e.g. Network.ListenAddr
	Index   []int    // reflect index path from configContents
	YAML    []string // yaml names along the path
	Kind    string   // str | strs | smap | num
	GoType  string
	Opts    []option
	Default val    // value of the `default` struct tag, parsed the way creasty/defaults does for this kind
	Doc     string // documented default (configMeta.yaml), as a val token, or "-"
	HasDoc  bool
	Echo    bool   // metadata has a validator whose message echoes the value (choice/format/hostport/url)
	Mask    bool   // … and the echo is masked (api keys)
	MType   string // metadata type
	Choices []string
	Formats []string
	PH      string // placeholder validated in place of an empty value ("" when none)
	OmitE   bool   // yaml tag has omitempty: a zero value is absent from what validation pass 2 sees
	ElemT   string // metadata elementType validation (lists and maps)
}

// the three literal substitutions in validateConfigs (configLoadHelpers.go): not reachable by
// reflection, so listed here; a change in the code shows up as a model/implementation mismatch.
var placeholders = map[string]string{
	"HoneycombLogger.APIKey": "InvalidHoneycombAPIKey",
	"OTelMetrics.APIKey":     "InvalidHoneycombAPIKey",
	"OTelTracing.APIKey":     "InvalidHoneycombAPIKey",
}

func yamlName(f reflect.StructField) (string, bool) {
	tag := f.Tag.Get("yaml")
	name := strings.Split(tag, ",")[0]
	if name == "-" {
		return "", false
	}
	if name == "" {
		name = strings.ToLower(f.Name)
	}
	return name, true
}

var (
	tString = reflect.TypeOf("")
	tStrs   = reflect.TypeOf([]string(nil))
	tSMap   = reflect.TypeOf(map[string]string(nil))
)

func kindOf(t reflect.Type) string {
	switch {
	case t.Kind() == reflect.String:
		return "str"
	case t.Kind() == reflect.Slice && t.Elem().Kind() == reflect.String:
		return "strs"
	case t.Kind() == reflect.Map && t.Key().Kind() == reflect.String && t.Elem().Kind() == reflect.String:
		return "smap"
	case t.Kind() >= reflect.Int && t.Kind() <= reflect.Uint64:
		return "num"
	}
	return ""
}

func parseDefault(kind, tag string) val {
	switch kind {
	case "str":
		return val{K: 's', S: tag}
	case "strs":
		var l []string
		if tag != "" && tag != "[]" {
			if err := json.Unmarshal([]byte(tag), &l); err != nil {
				panic("default tag: " + err.Error())
			}
		}
		return val{K: 'l', L: l}
	case "smap":
		m := map[string]string{}
		if tag != "" && tag != "{}" {
			if err := json.Unmarshal([]byte(tag), &m); err != nil {
				panic("default tag: " + err.Error())
			}
		}
		return mapVal(m)
	case "num":
		// only tag-less numeric cmdenv settings exist (AvailableMemory); a tag would need the
		// type's own parser, which the harness does not duplicate
		if tag != "" {
			return val{K: 'n', S: "?" + tag}
		}
		return val{K: 'n', S: "0"}
	}
	return val{K: '-'}
}

func docDefault(kind string, d any) (string, bool) {
	if d == nil {
		return "-", false
	}
	switch kind {
	case "str":
		if s, ok := d.(string); ok {
			return val{K: 's', S: s}.tok(), true
		}
		return val{K: 's', S: fmt.Sprint(d)}.tok(), true
	case "strs":
		if arr, ok := d.([]any); ok {
			var l []string
			for _, a := range arr {
				l = append(l, fmt.Sprint(a))
			}
			return val{K: 'l', L: l}.tok(), true
		}
		if s, ok := d.(string); ok {
			// the documentation writes list defaults as one comma separated string
			var l []string
			for _, p := range strings.Split(s, ",") {
				if p = strings.TrimSpace(p); p != "" {
					l = append(l, p)
				}
			}
			return val{K: 'l', L: l}.tok(), true
		}
	case "smap":
		if m, ok := d.(map[string]any); ok {
			mm := map[string]string{}
			for k, v := range m {
				mm[k] = fmt.Sprint(v)
			}
			return mapVal(mm).tok(), true
		}
	case "num":
		return val{K: 'n', S: fmt.Sprint(d)}.tok(), true
	}
	return "-", false
}

func buildTable() []setting {
	meta, err := config.LoadConfigMetadata()
	if err != nil {
		panic(err)
	}
	cmdT := reflect.TypeOf(config.CmdEnv{})
	root := reflect.TypeOf(config.VerifSettingsContents()).Elem()
	var out []setting
	var walk func(t reflect.Type, idx []int, names []string)
	walk = func(t reflect.Type, idx []int, names []string) {
		for i := 0; i < t.NumField(); i++ {
			f := t.Field(i)
			if !f.IsExported() {
				continue
			}
			yn, ok := yamlName(f)
			if !ok {
				continue
			}
			ix := append(append([]int{}, idx...), i)
			ns := append(append([]string{}, names...), yn)
			ft := f.Type
			if ft.Kind() == reflect.Struct {
				walk(ft, ix, ns)
				continue
			}
			tags := f.Tag.Get("cmdenv")
			k := kindOf(ft)
			if tags == "" && (k == "" || k == "num") {
				continue
			}
			if k == "" {
				panic("cmdenv-tagged setting of a kind the harness does not know: " + strings.Join(ns, ".") + " " + ft.String())
			}
			s := setting{Path: strings.Join(ns, "."), Index: ix, YAML: ns, Kind: k, GoType: ft.String()}
			for _, o := range strings.Split(f.Tag.Get("yaml"), ",")[1:] {
				if o == "omitempty" {
					s.OmitE = true
				}
			}
			if tags != "" {
				for _, tg := range strings.Split(tags, ",") {
					cf, ok := cmdT.FieldByName(tg)
					if !ok {
						panic("cmdenv tag names no CmdEnv field: " + tg)
					}
					s.Opts = append(s.Opts, option{Name: tg, Long: cf.Tag.Get("long"), Env: cf.Tag.Get("env"), Delim: cf.Tag.Get("env-delim")})
				}
			}
			s.Default = parseDefault(k, f.Tag.Get("default"))
			s.Doc = "-"
			if mf := meta.GetField(s.Path); mf != nil {
				s.MType = mf.Type
				s.Choices = mf.Choices
				s.Doc, s.HasDoc = docDefault(k, mf.Default)
				for _, v := range mf.Validations {
					switch v.Type {
					case "choice":
						s.Echo = true
					case "elementType":
						s.ElemT, _ = v.Arg.(string)
					case "format":
						a, _ := v.Arg.(string)
						s.Formats = append(s.Formats, a)
						s.Echo = true
						if a == "apikey" || a == "apikeyOrBlank" {
							s.Mask = true
						}
					}
				}
				if mf.Type == "hostport" || mf.Type == "url" {
					s.Echo = true
				}
			}
			s.PH = placeholders[s.Path]
			out = append(out, s)
		}
	}
	walk(root, nil, nil)
	sort.SliceStable(out, func(i, j int) bool { return out[i].Path < out[j].Path })
	return out
}

func tableCounts(tab []setting) map[string]int {
	c := map[string]int{}
	for _, s := range tab {
		c["total"]++
		c[s.Kind]++
		if len(s.Opts) > 0 {
			c["cmdenv"]++
		}
		if len(s.Opts) > 1 {
			c["cmdenv_multi"]++
		}
		if s.Kind == "str" && len(s.Opts) == 0 {
			c["plain_str"]++
		}
	}
	return c
}
