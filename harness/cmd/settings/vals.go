//go:build verif

package main

import (
	"sort"
	"strings"

	kit "github.com/honeycombio/refinery/internal/verifkit"
)

// val is a setting value in transcript form.
//
//	s:<enc>            string
//	l:<enc>,<enc>…     list of strings ("l:" is the empty list)
//	m:<enc>~<enc>,…    string map, sorted by key ("m:" is the empty map)
//	n:<digits>         number
//	-                  absent
type val struct {
	K  byte // 's' 'l' 'm' 'n' '-'
	S  string
	L  []string
	MK []string // map keys (sorted)
	MV []string
}

var absent = val{K: '-'}

func strVal(s string) val    { return val{K: 's', S: s} }
func listVal(l []string) val { return val{K: 'l', L: l} }

func mapVal(m map[string]string) val {
	v := val{K: 'm'}
	for k := range m {
		v.MK = append(v.MK, k)
	}
	sort.Strings(v.MK)
	for _, k := range v.MK {
		v.MV = append(v.MV, m[k])
	}
	return v
}

func (v val) present() bool { return v.K != '-' && v.K != 0 }

func (v val) toMap() map[string]string {
	m := map[string]string{}
	for i, k := range v.MK {
		m[k] = v.MV[i]
	}
	return m
}

func (v val) tok() string {
	switch v.K {
	case 's':
		return "s:" + kit.Enc(v.S)
	case 'n':
		return "n:" + v.S
	case 'l':
		p := make([]string, len(v.L))
		for i, e := range v.L {
			p[i] = kit.Enc(e)
		}
		return "l:" + strings.Join(p, ",")
	case 'm':
		p := make([]string, len(v.MK))
		for i := range v.MK {
			p[i] = kit.Enc(v.MK[i]) + "~" + kit.Enc(v.MV[i])
		}
		return "m:" + strings.Join(p, ",")
	}
	return "-"
}

func parseVal(t string) val {
	if len(t) < 2 || t[1] != ':' {
		return absent
	}
	body := t[2:]
	switch t[0] {
	case 's':
		return strVal(kit.Dec(body))
	case 'n':
		return val{K: 'n', S: body}
	case 'l':
		v := val{K: 'l'}
		if body != "" {
			for _, p := range strings.Split(body, ",") {
				v.L = append(v.L, kit.Dec(p))
			}
		}
		return v
	case 'm':
		v := val{K: 'm'}
		if body != "" {
			for _, p := range strings.Split(body, ",") {
				kv := strings.SplitN(p, "~", 2)
				if len(kv) != 2 {
					continue
				}
				v.MK = append(v.MK, kit.Dec(kv[0]))
				v.MV = append(v.MV, kit.Dec(kv[1]))
			}
		}
		return v
	}
	return absent
}

// tokens of an op line: key=value with the first '=' as separator
func opKV(op []string, key string) string {
	for _, a := range op {
		if strings.HasPrefix(a, key+"=") {
			return a[len(key)+1:]
		}
	}
	return ""
}
