//go:build verif

package main

import (
	"fmt"
	"strings"

	kit "github.com/honeycombio/refinery/internal/verifkit"
)

// ---------------------------------------------------------------- value pools

const hexc = "0123456789abcdef"

// validStr returns a value the field's validator accepts, carrying the name of its source so that
// different sources never agree by accident.
func validStr(r *kit.Rng, s *setting, src string) string {
	n := r.Intn(90) + 10
	for _, f := range s.Formats {
		switch f {
		case "apikey", "apikeyOrBlank":
			// 32 lower-case hex characters; the source is spelled in the (visible) last four
			tag := map[string]string{"F0": "f0f0", "E0": "e0e0", "F1": "f1f1", "E1": "e1e1", "A": "a1a1", "B": "b2b2", "X": "cccc"}[src]
			if tag == "" {
				tag = "dddd"
			}
			var b strings.Builder
			for i := 0; i < 26; i++ {
				b.WriteByte(hexc[r.Intn(16)])
			}
			return b.String() + fmt.Sprintf("%02d", n) + tag
		case "version":
			return fmt.Sprintf("v%d.%d", map[string]int{"F0": 3, "E0": 4, "F1": 5, "E1": 6, "A": 7, "B": 8, "X": 9}[src], n)
		case "alphanumeric":
			return strings.ToLower(src) + "x" + fmt.Sprint(n)
		}
	}
	if len(s.Choices) > 0 && s.Echo {
		return s.Choices[r.Intn(len(s.Choices))]
	}
	switch s.MType {
	case "hostport":
		return fmt.Sprintf("%shost:%d", strings.ToLower(src), 1000+n)
	case "url":
		return fmt.Sprintf("https://%s.example.com:%d", strings.ToLower(src), 4000+n)
	}
	if len(s.Choices) > 0 { // documented choices without a validator: stay inside them half the time
		if r.Chance(50) {
			return s.Choices[r.Intn(len(s.Choices))]
		}
	}
	return fmt.Sprintf("%s-value-%d", src, n)
}

var weird = []string{" ", "\"", "'", ":", ",", "#", "é", "日本", "\n", "\t", "\\", "{", "}", "$", "-", "=", "~", "%", "&", "|", "[", "]", "*", "!", "@"}

// anyStr: arbitrary text for --no-validate loads
func anyStr(r *kit.Rng, src string) string {
	switch r.Pick(40, 25, 8, 6, 6, 15) {
	case 0:
		return fmt.Sprintf("%s-%d", src, r.Intn(1000))
	case 1:
		var b strings.Builder
		b.WriteString(src)
		for i, n := 0, 1+r.Intn(4); i < n; i++ {
			b.WriteString(weird[r.Intn(len(weird))])
			b.WriteString(fmt.Sprint(r.Intn(10)))
		}
		return b.String()
	case 2:
		return "-" + src // looks like an option
	case 3:
		return "true"
	case 4:
		return fmt.Sprint(r.Intn(100000)) // YAML would read it as a number
	default:
		return src + "," + src + "b:" + fmt.Sprint(r.Intn(100))
	}
}

// refText wraps or replaces a value by text containing ${…} syntax; names come from vars
func refText(r *kit.Rng, base string, names []string) string {
	nm := names[r.Intn(len(names))]
	switch r.Pick(30, 20, 10, 8, 8, 8, 8, 8) {
	case 0:
		return "${" + nm + "}"
	case 1:
		return base + "${" + nm + "}"
	case 2:
		return "${" + nm + "}" + base + "${" + names[r.Intn(len(names))] + "}"
	case 3:
		return "$" + nm + base // no braces: never expanded
	case 4:
		return "$${" + nm + "}"
	case 5:
		return base + "${" + nm // never closed
	case 6:
		return "${}" + base + "${" + nm + "}"
	default:
		return "${" + nm + "${" + nm + "}}"
	}
}

type srcGen struct {
	r        *kit.Rng
	s        *setting
	validate bool
	names    []string          // expansion variable names that may be referred to
	vars     map[string]string // those that are set
	useRefs  int               // percent of string values that carry ${…}
	badSrc   string            // the one source that gets a value its validator rejects ("" none)
	// coincidence regime: every source of this start-up takes its value from a tiny pool, so that
	// file = env, file = flag, specific option = file ≠ generic option … all occur
	spool []string            // str
	lpool [][]string          // strs: element lists
	mpool []map[string]string // smap
	npool []string            // num
}

func (g *srcGen) str(src string) string {
	r := g.r
	if g.spool != nil {
		return g.spool[r.Intn(len(g.spool))]
	}
	if g.validate {
		if g.badSrc == src {
			return "bad-" + strings.ToLower(src)
		}
		if r.Chance(g.useRefs) {
			// a reference standing for the whole value; the variable (when set) holds a valid value
			nm := g.names[r.Intn(len(g.names))]
			if _, set := g.vars[nm]; set && !strings.Contains(g.vars[nm], "${") {
				g.vars[nm] = validStr(r, g.s, "X")
			}
			if src == "F1" || src == "E1" {
				// a second option is shared with other settings (HoneycombAPIKey): keep it valid, or the
				// start-up is refused on behalf of a setting that is not under test
				g.vars[nm] = validStr(r, g.s, "X")
			}
			return "${" + nm + "}"
		}
		return validStr(r, g.s, src)
	}
	if src != "F0" && src != "F1" && r.Chance(8) {
		return ""
	}
	v := anyStr(r, src)
	if r.Chance(g.useRefs) {
		v = refText(r, v, g.names)
	}
	return v
}

func (g *srcGen) elem(src string, i int) string {
	if g.validate {
		// validated loads of lists and maps: every element is valid for the field's element type, and
		// references name variables that hold a valid element (the model has no validator graph for
		// lists, so nothing may be rejected here)
		mk := func(tag string) string {
			switch g.s.ElemT {
			case "hostport":
				return fmt.Sprintf("%shost%d:%d", tag, i, 6000+g.r.Intn(100))
			case "url":
				return fmt.Sprintf("http://%shost%d:%d", tag, i, 6000+g.r.Intn(100))
			}
			return fmt.Sprintf("%s%d-%d", tag, i, g.r.Intn(100))
		}
		if g.r.Chance(g.useRefs) {
			nm := g.names[g.r.Intn(len(g.names))]
			g.vars[nm] = mk("x")
			return "${" + nm + "}"
		}
		return mk(strings.ToLower(src))
	}
	v := fmt.Sprintf("%s%d-%d", src, i, g.r.Intn(100))
	if g.r.Chance(15) {
		v += weird[g.r.Intn(len(weird))]
	}
	if g.r.Chance(g.useRefs) {
		v = refText(g.r, v, g.names)
	}
	return v
}

// fileVal: the setting's value as a config file states it
func (g *srcGen) fileVal(src string) val {
	r := g.r
	switch g.s.Kind {
	case "str":
		return strVal(g.str(src))
	case "num":
		if g.npool != nil {
			return val{K: 'n', S: g.npool[r.Intn(len(g.npool))]}
		}
		if !g.validate && r.Chance(10) {
			return val{K: 'n', S: "0"}
		}
		return val{K: 'n', S: fmt.Sprint(1000 + r.Intn(9000))}
	case "strs":
		if g.lpool != nil {
			return listVal(append([]string{}, g.lpool[r.Intn(len(g.lpool))]...))
		}
		n := r.Pick(10, 40, 35, 15)
		l := []string{}
		for i := 0; i < n; i++ {
			l = append(l, g.elem(src, i))
		}
		return listVal(l)
	case "smap":
		if g.mpool != nil {
			return mapVal(g.mpool[r.Intn(len(g.mpool))])
		}
		n := r.Pick(10, 40, 35, 15)
		m := map[string]string{}
		for i := 0; i < n; i++ {
			m[fmt.Sprintf("k%d", r.Intn(4))] = g.elem(src, i)
		}
		return mapVal(m)
	}
	return absent
}

func sortedKeys(m map[string]string) []string {
	v := mapVal(m)
	return v.MK
}

// flagVals: the raw values of the occurrences of the option's flag
func (g *srcGen) flagVals(src string, delim string) []string {
	r := g.r
	switch g.s.Kind {
	case "str":
		if !g.validate && r.Chance(6) {
			return []string{""} // --flag= : present and empty
		}
		if r.Chance(12) {
			return []string{g.str(src), g.str(src)} // given twice
		}
		return []string{g.str(src)}
	case "num":
		if g.npool != nil {
			return []string{g.npool[r.Intn(len(g.npool))]}
		}
		if !g.validate && r.Chance(10) {
			return []string{"0"}
		}
		return []string{fmt.Sprint(1000 + r.Intn(9000))}
	case "strs":
		if g.lpool != nil {
			l := g.lpool[r.Intn(len(g.lpool))]
			if delim != "" && r.Chance(50) {
				return []string{strings.Join(l, delim)} // one occurrence, delimiter separated
			}
			return append([]string{}, l...) // one occurrence per element
		}
		n := r.Pick(0, 50, 35, 15)
		var out []string
		for i := 0; i < n; i++ {
			e := g.elem(src, i)
			if delim != "" && r.Chance(35) {
				e += delim + g.elem(src, i+10)
			}
			out = append(out, e)
		}
		return out
	case "smap":
		if g.mpool != nil {
			m := g.mpool[r.Intn(len(g.mpool))]
			var out []string
			for _, k := range sortedKeys(m) {
				out = append(out, k+":"+m[k])
			}
			return out
		}
		n := r.Pick(0, 50, 35, 15)
		var out []string
		for i := 0; i < n; i++ {
			k := fmt.Sprintf("k%d", r.Intn(4))
			switch r.Pick(75, 15, 10) {
			case 0:
				out = append(out, k+":"+g.elem(src, i))
			case 1:
				out = append(out, k+":"+g.elem(src, i)+":x")
			default:
				out = append(out, k) // no separator: empty value
			}
		}
		return out
	}
	return nil
}

// envVal: the option's environment variable
func (g *srcGen) envVal(src string, delim string) string {
	r := g.r
	switch g.s.Kind {
	case "str":
		return g.str(src)
	case "num":
		if g.npool != nil {
			return g.npool[r.Intn(len(g.npool))]
		}
		if !g.validate && r.Chance(10) {
			return "0"
		}
		return fmt.Sprint(1000 + r.Intn(9000))
	case "strs":
		if g.lpool != nil {
			d := delim
			if d == "" {
				d = ","
			}
			return strings.Join(g.lpool[r.Intn(len(g.lpool))], d)
		}
		n := r.Pick(0, 35, 40, 25)
		var p []string
		for i := 0; i < n; i++ {
			p = append(p, g.elem(src, i))
		}
		if delim == "" {
			delim = ","
		}
		return strings.Join(p, delim)
	case "smap":
		if g.mpool != nil {
			m := g.mpool[r.Intn(len(g.mpool))]
			var p []string
			for _, k := range sortedKeys(m) {
				p = append(p, k+":"+m[k])
			}
			d := delim
			if d == "" {
				d = ","
			}
			return strings.Join(p, d)
		}
		n := r.Pick(0, 35, 40, 25)
		var p []string
		for i := 0; i < n; i++ {
			p = append(p, fmt.Sprintf("k%d:%s", r.Intn(4), g.elem(src, i)))
		}
		if delim == "" {
			delim = ","
		}
		return strings.Join(p, delim)
	}
	return ""
}

// ---------------------------------------------------------------- ops

func optTok(v *string) string {
	if v == nil {
		return "-"
	}
	return strVal(*v).tok()
}

func flagTok(v []string) string {
	if v == nil {
		return "-"
	}
	return listVal(v).tok()
}

// refsPct: share of string values that carry ${…} syntax when the setting has options (thorough: more)
var refsPct = 20

// genLoad builds one load op for setting s with the given source combination
// (bit 8 flag, 4 env, 2 file 1, 1 file 2).
func genLoad(r *kit.Rng, s *setting, combo int) string {
	g := &srcGen{r: r, s: s, names: []string{"VS_1", "VS_2", "VS_3"}, vars: map[string]string{}}
	g.validate = r.Chance(35)
	hasFlag, hasEnv, hasA, hasB := combo&8 != 0, combo&4 != 0, combo&2 != 0, combo&1 != 0
	// which expansion variables exist
	setPct := 60
	g.useRefs = refsPct
	if len(s.Opts) == 0 {
		// no flag / environment variable: the two bits choose the ${VAR} regime instead
		g.useRefs = 0
		if hasFlag {
			g.useRefs = 70
		}
		setPct = 0
		if hasEnv {
			setPct = 100
		}
		if hasFlag && !hasEnv && r.Chance(50) {
			setPct = 50
		}
	}
	if s.Kind == "num" {
		g.useRefs = 0
	}
	for _, nm := range g.names {
		if r.Chance(setPct) {
			switch r.Pick(70, 10, 10, 10) {
			case 0:
				g.vars[nm] = fmt.Sprintf("val-%s-%d", strings.ToLower(nm), r.Intn(100))
			case 1:
				g.vars[nm] = "" // set and empty: indistinguishable from unset
			case 2:
				g.vars[nm] = "${VS_3}x" // a value that itself looks like a reference
			default:
				g.vars[nm] = "a " + weird[r.Intn(len(weird))] + " b"
			}
		}
	}
	if g.validate && s.Kind != "str" {
		g.vars = map[string]string{} // elem() sets the variables it refers to
	}
	if g.validate {
		for nm, v := range g.vars {
			if v != "" && !strings.Contains(v, "${") {
				g.vars[nm] = validStr(r, s, "X")
			}
		}
		if s.Echo && s.Kind == "str" && r.Chance(30) {
			var present []string
			if hasFlag && len(s.Opts) > 0 {
				present = append(present, "F0")
			}
			if hasEnv && len(s.Opts) > 0 {
				present = append(present, "E0")
			}
			if hasA {
				present = append(present, "A")
			}
			if hasB {
				present = append(present, "B")
			}
			if len(present) > 0 {
				g.badSrc = present[r.Intn(len(present))]
			}
		}
	}
	// coincidence regime (about half of the start-ups; always more often for fallback chains)
	coincide := r.Chance(45) || (len(s.Opts) > 1 && r.Chance(50))
	if coincide {
		g.badSrc = ""
		if g.validate {
			g.useRefs = 0 // pool values go to every source, also to options shared with other settings
		}
		n := 2 + r.Intn(2)
		switch s.Kind {
		case "str":
			var pool []string
			for i := 0; len(pool) < n && i < 20; i++ {
				if v := g.str(fmt.Sprintf("P%d", len(pool))); v != "" {
					pool = append(pool, v)
				}
			}
			g.spool = pool
		case "num":
			for i := 0; i < n; i++ {
				g.npool = append(g.npool, fmt.Sprint(1000+r.Intn(9000)))
			}
		case "strs":
			for i := 0; i < n; i++ {
				var l []string
				for j, m := 0, 1+r.Intn(3); j < m; j++ {
					l = append(l, g.elem(fmt.Sprintf("P%d", i), j))
				}
				g.lpool = append(g.lpool, l)
			}
		case "smap":
			for i := 0; i < n; i++ {
				m := map[string]string{}
				for j, c := 0, 1+r.Intn(3); j < c; j++ {
					m[fmt.Sprintf("k%d", r.Intn(4))] = g.elem(fmt.Sprintf("P%d", i), j)
				}
				g.mpool = append(g.mpool, m)
			}
		}
	}
	var b strings.Builder
	mode := "nv"
	if g.validate {
		mode = "v"
	}
	ec := "none"
	if s.Echo {
		ec = "plain"
		if s.Mask {
			ec = "mask"
		}
	}
	ph := "-"
	if s.PH != "" {
		ph = strVal(s.PH).tok()
	}
	oe := 0
	if s.OmitE {
		oe = 1
	}
	fmt.Fprintf(&b, "load m=%s p=%s k=%s d=%s doc=%s ph=%s oe=%d ec=%s n=%d", mode, s.Path, s.Kind, s.Default.tok(), s.Doc, ph, oe, ec, len(s.Opts))
	for i, o := range s.Opts {
		var fv []string
		var ev *string
		src := fmt.Sprintf("%d", i)
		give, giveEnv := hasFlag, hasEnv
		if i > 0 { // a later name in the cmdenv tag (fallback chain): present now and then
			give, giveEnv = r.Chance(30), r.Chance(30)
			if coincide {
				give, giveEnv = r.Chance(50), r.Chance(50)
			}
		}
		if give {
			fv = g.flagVals("F"+src, o.Delim)
			if len(fv) == 0 {
				fv = nil
			}
		}
		if giveEnv {
			e := g.envVal("E"+src, o.Delim)
			ev = &e
		}
		dl := "-"
		if o.Delim != "" {
			dl = strVal(o.Delim).tok()
		}
		fmt.Fprintf(&b, " dl%d=%s F%d=%s E%d=%s", i, dl, i, flagTok(fv), i, optTok(ev))
	}
	a, bb := absent, absent
	if hasA {
		a = g.fileVal("A")
	}
	if hasB {
		bb = g.fileVal("B")
	}
	loc := "flag"
	if r.Chance(25) {
		loc = "env"
	}
	fmt.Fprintf(&b, " A=%s B=%s X=%s loc=%s eq=%d", a.tok(), bb.tok(), mapVal(g.vars).tok(), loc, r.Intn(2))
	return b.String()
}

var expNames = []string{"A", "B", "VS_1", "a b", "A${B", "é", "x\ny", "9", "A-B", "{", "$"}

var expFrags = []string{"$", "{", "}", "${", "}", "$$", "${}", " ", "x", "yz", "\n", "é", ":", "$A", "${A", "A}", "{A}", "$ {A}", "${A}", "${B}", "${VS_1}", "${a b}", "${A${B}", "${é}", "${x\ny}", "${9}", "${A-B}", "${{}", "${$}", "${UNSET}"}

func genExp(r *kit.Rng) string {
	vars := map[string]string{}
	setPct := []int{0, 30, 60, 100}[r.Intn(4)]
	for _, nm := range expNames {
		if r.Chance(setPct) {
			switch r.Pick(60, 10, 15, 15) {
			case 0:
				vars[nm] = fmt.Sprintf("<%d>", r.Intn(100))
			case 1:
				vars[nm] = ""
			case 2:
				vars[nm] = "${B}"
			default:
				vars[nm] = expFrags[r.Intn(len(expFrags))] + "v"
			}
		}
	}
	var b strings.Builder
	for i, n := 0, r.Pick(5, 25, 25, 20, 10, 10, 5); i < n; i++ {
		if r.Chance(25) {
			nm := expNames[r.Intn(len(expNames))]
			b.WriteString("${" + nm + "}")
		} else {
			b.WriteString(expFrags[r.Intn(len(expFrags))])
		}
	}
	return fmt.Sprintf("exp s=%s X=%s", strVal(b.String()).tok(), mapVal(vars).tok())
}
