//go:build verif

// Harness for the settings loader (property C29): config/cmdenv.go, config/configLoadHelpers.go,
// config/file_config.go, config/validate.go.
//
// The table of settings is enumerated by reflection from the real main-config struct and the real
// CmdEnv struct on every run (table.go): every leaf field that carries a `cmdenv` tag or has a
// string type (string, []string, map[string]string).  A case runs every setting of the table once,
// all with the same source combination (which of flag / environment variable / config file 1 /
// config file 2 mention the setting; the 16 combinations are taken in turn by successive cases),
// each as one complete start-up of the real loader: real temp files, real os.Setenv, the real
// go-flags parse of a synthetic argv, config.NewConfig; then `len` string-level expansion ops.
//
// ops and observations: see lean/Oracle/Settings.lean.
package main

import (
	"fmt"
	"os"
	"runtime"
	"runtime/debug"
	"runtime/pprof"
	"sort"
	"strconv"
	"strings"

	"github.com/honeycombio/refinery/config"
	kit "github.com/honeycombio/refinery/internal/verifkit"
)

type comp struct{}

var (
	table    []setting
	byPath   map[string]*setting
	meta     *config.Metadata
	genCount int
)

func ensureTable() {
	if table != nil {
		return
	}
	table = buildTable()
	byPath = map[string]*setting{}
	for i := range table {
		s := &table[i]
		byPath[s.Path] = s
		for _, o := range s.Opts {
			if len(o.Delim) > 1 {
				panic("env-delim longer than one character is outside the model: " + o.Name)
			}
			if (s.Kind == "strs" || s.Kind == "smap") && o.Delim == "" {
				// applyCmdEnvTags would report a programming error; the model has that outcome, the
				// generator has no values for it
				fmt.Fprintln(os.Stderr, "note: list/map option without env-delim:", o.Name)
			}
		}
	}
	var err error
	meta, err = config.LoadConfigMetadata()
	if err != nil {
		panic(err)
	}
}

// genBase makes the 16 source combinations rotate across the shards of one tools/check run, not
// only inside one `gen` process: tools/check starts shard i with `-seed S*1000003+i -cases N`, so
// case c of shard i is global case i*N+c.  (Everything else in a case comes from the Rng.)
func genBase() int {
	var seed, cases uint64
	for i := 2; i+1 < len(os.Args); i++ {
		switch strings.TrimLeft(os.Args[i], "-") {
		case "seed":
			seed, _ = strconv.ParseUint(os.Args[i+1], 10, 64)
		case "cases":
			cases, _ = strconv.ParseUint(os.Args[i+1], 10, 64)
		}
	}
	return int((seed % 1000003) * cases % 16)
}

func (comp) Gen(r *kit.Rng, maxLen int, tier string) kit.Case {
	ensureTable()
	if tier == "thorough" {
		refsPct = 35
	}
	combo := (genBase() + genCount) % 16
	genCount++
	var ops []string
	for i := range table {
		ops = append(ops, genLoad(r, &table[i], combo))
	}
	for i := 0; i < maxLen; i++ {
		ops = append(ops, genExp(r))
	}
	return kit.Case{Header: fmt.Sprintf("combo=%d settings=%d", combo, len(table)), Ops: ops}
}

type runner struct{}

func (comp) NewCase(h []string) kit.Runner {
	ensureTable()
	clearRefineryEnv()
	return &runner{}
}

func (r *runner) Close() {}

func withVars(vars map[string]string, f func()) {
	var set []string
	for k, v := range vars {
		if err := os.Setenv(k, v); err != nil {
			panic("setenv " + strconv.Quote(k) + ": " + err.Error())
		}
		set = append(set, k)
	}
	defer func() {
		for _, k := range set {
			os.Unsetenv(k)
		}
	}()
	f()
}

func (r *runner) Do(op []string) (string, bool) {
	switch op[0] {
	case "exp":
		s := parseVal(opKV(op, "s"))
		x := parseVal(opKV(op, "X"))
		if s.K != 's' || x.K != 'm' {
			return "bad-op", true
		}
		var out string
		withVars(x.toMap(), func() { out = config.VerifSettingsExpand(s.S) })
		return strVal(out).tok(), true
	case "load":
		return r.load(op)
	}
	return "bad-op", true
}

func (r *runner) load(op []string) (string, bool) {
	s := byPath[opKV(op, "p")]
	if s == nil {
		return "err no-such-setting", true
	}
	n, _ := strconv.Atoi(opKV(op, "n"))
	if n != len(s.Opts) || opKV(op, "k") != s.Kind {
		// the op was generated from a different tree (replay after a change): say so
		return "err descriptor-changed", true
	}
	q := loadReq{s: s, validate: opKV(op, "m") == "v", locEnv: opKV(op, "loc") == "env", eqForm: opKV(op, "eq") == "1"}
	var cands []string // string candidates the validator is asked about (str kind)
	for i := 0; i < n; i++ {
		f := parseVal(opKV(op, fmt.Sprintf("F%d", i)))
		e := parseVal(opKV(op, fmt.Sprintf("E%d", i)))
		if f.K == 'l' {
			fl := f.L
			if fl == nil {
				fl = []string{}
			}
			q.flags = append(q.flags, fl)
			if len(fl) > 0 {
				cands = append(cands, fl[len(fl)-1])
			}
		} else {
			q.flags = append(q.flags, nil)
		}
		if e.K == 's' {
			ev := e.S
			q.envs = append(q.envs, &ev)
			cands = append(cands, ev)
		} else {
			q.envs = append(q.envs, nil)
		}
	}
	q.files[0] = parseVal(opKV(op, "A"))
	q.files[1] = parseVal(opKV(op, "B"))
	x := parseVal(opKV(op, "X"))
	q.vars = x.toMap()

	res := runLoad(q)

	if s.Kind == "str" {
		for _, f := range q.files {
			if f.K == 's' {
				cands = append(cands, f.S)
			}
		}
		cands = append(cands, "", s.Default.S)
		if s.PH != "" {
			cands = append(cands, s.PH)
		}
		if res.class == "ok" {
			cands = append(cands, res.eff.S)
		}
		all := map[string]bool{}
		withVars(q.vars, func() {
			for _, c := range cands {
				all[c] = true
				all[config.VerifSettingsExpand(c)] = true
			}
		})
		keys := make([]string, 0, len(all))
		for k := range all {
			keys = append(keys, k)
		}
		sort.Strings(keys)
		for _, k := range keys {
			b := 0
			if singleBad(meta, s, strVal(k)) {
				b = 1
			}
			kit.Ext("bad %s = %d", strVal(k).tok(), b)
		}
	} else if res.class == "ok" {
		b := 0
		if singleBad(meta, s, res.eff) {
			b = 1
		}
		kit.Ext("bad %s = %d", res.eff.tok(), b)
	}

	switch res.class {
	case "ok":
		kit.Ext("getter %s", res.getter)
		return "ok " + res.eff.tok(), true
	case "rej":
		var e []string
		for _, x := range res.echoes {
			if strings.HasPrefix(x, "?") {
				e = append(e, "?")
			} else {
				e = append(e, kit.Enc(x))
			}
		}
		out := "rej " + strings.Join(e, ",")
		if len(e) == 0 {
			out = "rej -"
		}
		if len(e) == 0 && len(res.other) > 0 {
			// refused because of something that is not the setting under test
			out += " other:" + kit.Enc(res.other[0])
		}
		return out, true
	default:
		if strings.HasPrefix(res.errText, "cmdline:") {
			return "err cmdline", true
		}
		t := res.errText
		if len(t) > 100 {
			t = t[:100]
		}
		return "err other:" + kit.Enc(t), true
	}
}

func facts() map[string]string {
	ensureTable()
	c := tableCounts(table)
	out := map[string]string{
		"settings_total":        strconv.Itoa(c["total"]),
		"settings_cmdenv":       strconv.Itoa(c["cmdenv"]),
		"settings_cmdenv_multi": strconv.Itoa(c["cmdenv_multi"]),
		"settings_str":          strconv.Itoa(c["str"]),
		"settings_plain_str":    strconv.Itoa(c["plain_str"]),
		"settings_strs":         strconv.Itoa(c["strs"]),
		"settings_smap":         strconv.Itoa(c["smap"]),
		"settings_num":          strconv.Itoa(c["num"]),
	}
	var lists, all, chains []string
	for _, s := range table {
		all = append(all, strconv.Quote(s.Path))
		if len(s.Opts) > 1 { // fallback chain: several names in the cmdenv struct tag, first with a value wins
			var names []string
			for _, o := range s.Opts {
				names = append(names, o.Name)
			}
			chains = append(chains, strconv.Quote(s.Path+"="+strings.Join(names, ">")))
		}
		if s.Kind == "strs" && len(s.Opts) > 0 {
			lists = append(lists, strconv.Quote(s.Path))
		}
	}
	if len(lists) > 0 {
		out["cmdenv_list_settings"] = "[" + strings.Join(lists, ", ") + "]"
	}
	if len(chains) > 0 {
		out["cmdenv_fallback_chains"] = "[" + strings.Join(chains, ", ") + "]"
	}
	out["settings_paths"] = "[" + strings.Join(all, ", ") + "]"
	return out
}

func main() {
	if len(os.Args) > 1 && os.Args[1] == "table" {
		ensureTable()
		for _, s := range table {
			var os_ []string
			for _, o := range s.Opts {
				os_ = append(os_, fmt.Sprintf("%s/--%s/%s/%q", o.Name, o.Long, o.Env, o.Delim))
			}
			fmt.Printf("%-45s %-5s %-18s d=%-28s doc=%-22s mt=%-12s echo=%v mask=%v ch=%v fm=%v opts=%s\n", s.Path, s.Kind, s.GoType, s.Default.tok(), s.Doc, s.MType, s.Echo, s.Mask, s.Choices, s.Formats, strings.Join(os_, " "))
		}
		fmt.Println(tableCounts(table))
		return
	}
	defer cleanupWorkDir()
	// one logical thread of work that allocates a lot (the loader re-parses its metadata on every
	// start-up): fewer GC cycles and fewer GC workers make the shards of a run cheaper
	debug.SetGCPercent(400)
	if runtime.GOMAXPROCS(0) > 4 {
		runtime.GOMAXPROCS(4)
	}
	if f := os.Getenv("VERIF_PPROF"); f != "" {
		fh, _ := os.Create(f)
		pprof.StartCPUProfile(fh)
		defer pprof.StopCPUProfile()
	}
	kit.Main(comp{}, facts)
}
