//go:build verif

package main

import (
	"fmt"
	"os"
	"strings"

	kit "github.com/honeycombio/refinery/internal/verifkit"
)

type comp struct{}

func (comp) Gen(r *kit.Rng, maxLen int, tier string) kit.Case { return kit.Case{} }
func (comp) NewCase(h []string) kit.Runner                  { return nil }

func sp(s string) *string { return &s }

func probe() {
	tab := buildTable()
	find := func(p string) *setting {
		for i := range tab {
			if tab[i].Path == p {
				return &tab[i]
			}
		}
		panic(p)
	}
	show := func(name string, q loadReq) {
		r := runLoad(q)
		fmt.Fprintf(os.Stderr, "%-40s class=%s eff=%s echoes=%q other=%q getter=%s err=%s\n", name, r.class, r.eff.tok(), r.echoes, r.other, r.getter, r.errText)
	}
	ch := find("RedisPeerManagement.ClusterHosts")
	show("slice env a,b", loadReq{s: ch, envs: []*string{sp("a:1,b:2")}})
	show("slice flag a,b", loadReq{s: ch, flags: [][]string{{"a:1,b:2"}}})
	show("slice flag a b", loadReq{s: ch, flags: [][]string{{"a:1", "b:2"}}})
	show("slice flag + env", loadReq{s: ch, flags: [][]string{{"a:1"}}, envs: []*string{sp("e:1,e:2")}})
	show("slice env validate", loadReq{s: ch, validate: true, envs: []*string{sp("a:1,b:2")}})
	show("slice files", loadReq{s: ch, files: [2]val{listVal([]string{"x:1", "y:1"}), listVal([]string{"z:1"})}})
	show("slice file []", loadReq{s: ch, files: [2]val{listVal([]string{"x:1", "y:1"}), listVal([]string{})}})
	tn := find("IDFields.TraceNames")
	show("tracenames file []", loadReq{s: tn, files: [2]val{absent, listVal([]string{})}})
	show("tracenames none", loadReq{s: tn})
	rh := find("RedisPeerManagement.Host")
	show("str flag empty masks env", loadReq{s: rh, eqForm: true, flags: [][]string{{""}}, envs: []*string{sp("envhost:1")}, files: [2]val{strVal("f1:1"), absent}})
	show("str flag twice", loadReq{s: rh, flags: [][]string{{"a:1", "b:1"}}})
	show("str env empty", loadReq{s: rh, envs: []*string{sp("")}, files: [2]val{strVal("f1:1"), absent}})
	la := find("Network.ListenAddr")
	show("file2 empty overrides file1", loadReq{s: la, files: [2]val{strVal("1.2.3.4:80"), strVal("")}})
	show("validate: bad file, good env", loadReq{s: la, validate: true, envs: []*string{sp("0.0.0.0:9999")}, files: [2]val{strVal("junk"), absent}})
	show("validate: good file, bad env", loadReq{s: la, validate: true, envs: []*string{sp("junk")}, files: [2]val{strVal("0.0.0.0:9999"), absent}})
	show("validate: expand ok", loadReq{s: la, validate: true, files: [2]val{strVal("${VS_A}"), absent}, vars: map[string]string{"VS_A": "0.0.0.0:7777"}})
	show("validate: expand unset", loadReq{s: la, validate: true, files: [2]val{strVal("${VS_A}"), absent}})
	show("flag expanded", loadReq{s: la, flags: [][]string{{"${VS_A}"}}, vars: map[string]string{"VS_A": "0.0.0.0:7777"}})
	hk := find("HoneycombLogger.APIKey")
	show("apikey empty validate", loadReq{s: hk, validate: true})
	show("apikey bad", loadReq{s: hk, validate: true, files: [2]val{strVal("short-f1"), absent}})
	show("apikey generic flag vs specific env", loadReq{s: hk, flags: [][]string{nil, {"genericflag"}}, envs: []*string{sp("specificenv"), nil}})
	ah := find("Network.AdditionalHeaders")
	show("map merge", loadReq{s: ah, files: [2]val{mapVal(map[string]string{"a": "1", "b": "2"}), mapVal(map[string]string{"b": "3", "c": "${VS_A}"})}, vars: map[string]string{"VS_A": "vv"}})
	show("map file {}", loadReq{s: ah, files: [2]val{mapVal(map[string]string{"a": "1"}), mapVal(map[string]string{})}})
	aa := find("HoneycombLogger.AdditionalAttributes")
	show("map flag", loadReq{s: aa, flags: [][]string{{"k:v", "k2:v:2", "k3"}}, files: [2]val{mapVal(map[string]string{"a": "1"}), absent}})
	show("map env", loadReq{s: aa, envs: []*string{sp("k:v,k2:v2,k:w")}, files: [2]val{mapVal(map[string]string{"a": "1"}), absent}})
	am := find("Collection.AvailableMemory")
	show("mem flag", loadReq{s: am, flags: [][]string{{"4096"}}, envs: []*string{sp("1000")}, files: [2]val{val{K: 'n', S: "77"}, absent}})
	show("mem flag 0", loadReq{s: am, flags: [][]string{{"0"}}, envs: []*string{sp("1000")}, files: [2]val{val{K: 'n', S: "77"}, absent}})
	show("locEnv", loadReq{s: la, locEnv: true, files: [2]val{strVal("1.2.3.4:80"), strVal("1.2.3.4:81")}})
	cleanupWorkDir()
}

func main() {
	if len(os.Args) > 1 && os.Args[1] == "table" {
		tab := buildTable()
		for _, s := range tab {
			var os_ []string
			for _, o := range s.Opts {
				os_ = append(os_, fmt.Sprintf("%s/--%s/%s/%q", o.Name, o.Long, o.Env, o.Delim))
			}
			fmt.Printf("%-45s %-5s %-18s d=%-28s doc=%-22s mt=%-12s echo=%v mask=%v ch=%v fm=%v opts=%s\n", s.Path, s.Kind, s.GoType, s.Default.tok(), s.Doc, s.MType, s.Echo, s.Mask, s.Choices, s.Formats, strings.Join(os_, " "))
		}
		fmt.Println(tableCounts(tab))
		return
	}
	if len(os.Args) > 1 && os.Args[1] == "probe" {
		clearRefineryEnv()
		probe()
		return
	}
	kit.Main(comp{}, nil)
}
