//go:build verif

//go:debug randseednop=0

// Harness for property C09 (sampling does not depend on wire encoding or span order).
//
// A case = one sampler configuration (a rules list and a dynamic-sampler key configuration) and
// several *variants* of the same logical trace.  A variant spells out, span by span in arrival
// order, through which real ingestion path the span comes in and how every field value is encoded
// on the wire.  `eval` builds the real request bodies, pushes them through the real handlers
// (/1/events JSON and msgpack, /1/batch JSON and msgpack, husky's OTLP translation +
// processOTLPRequestBatchMsgp, optionally followed by the real peer re-encoding
// (transmit batchedEvent.MarshalMsg -> Payload.MarshalMsg) and the peer router's /1/batch), picks the
// spans up from a recording collector, assembles the types.Trace as the collector does and runs
// the real RulesBasedSampler and the real DynamicSampler on it.
//
// ops:
//
//	rule name=<enc> scope=<enc> rate=<int> drop=<0|1> down=<none|det<N>|dyn<N>>
//	cond field=<enc> fields=<enc,..|-> op=<enc> dt=<enc> val=<valtok>       (appended to the last rule)
//	key fields=<enc,..|-> tl=<0|1> rate=<N>                                  (dynamic sampler; also FieldList of down=dyn)
//	span root=<0|1> path=<je|jb|me|mb|ot>[+p] <enc field>=<wiretok> ...      (appended to the variant)
//	cleartrace
//	eval seed=<n> t=<logical trace id> prof=<generator profile>
//
// wire tokens:  jn:<num>/<den>:<enc literal> js:<enc> jb:<0|1> jz    JSON number (its exact value and its spelling) / string / bool / null
//
//	mi:<int>:<w> mu:<nat>:<w> m4:<n>/<d> m8:<n>/<d> ms:<enc> mx:<enc> mb:<0|1> mz   msgpack int family, uint
//	   family (0xcc..0xcf, never a fixint), float32, float64, str, bin, bool, nil; w=1 forces the 64-bit form
//	oi:<int> od:<n>/<d> os:<enc> ob:<0|1>                              OTLP AnyValue int / double / string / bool
//
// Go value tokens (what the samplers see; also condition values):
//
//	s:<enc> i:<int> f:<n>/<d> b:<0|1> n  u:<nat> (uint64)  g:<n>/<d> (float32)  x:<enc> ([]byte)  l:<tok>~<tok> (list, conditions only)
//
// ext lines: fastjson <literal> = <n>/<d> (span op, JSON batch numbers: what fastjson's own parser makes of the
// literal); fmt / conv / atoi / pfloat / pbool (%v, AddAsString and strconv on every value met); rxc / rxm;
// down <rule> = rate keep reason key; intn <n> = draw; dyn <key> <count> = rate; dintn <rate> = draw
//
// obs of eval: rate= keep= reason= key=   (rules sampler)   dk= dr= dkeep=   (dynamic sampler)
//
//	roots=<per span IsRoot bits>  g=<spans '|', fields ',' : Go value token, '-' = absent>
package main

import (
	"bytes"
	"context"
	"encoding/json"
	"fmt"
	"io"
	"math"
	"math/big"
	"math/rand"
	"net/http"
	"net/http/httptest"
	"regexp"
	"sort"
	"strconv"
	"strings"
	"time"

	"github.com/gorilla/mux"
	huskyotlp "github.com/honeycombio/husky/otlp"
	"github.com/tinylib/msgp/msgp"
	"github.com/valyala/fastjson"
	collectortrace "go.opentelemetry.io/proto/otlp/collector/trace/v1"
	commonpb "go.opentelemetry.io/proto/otlp/common/v1"
	resourcepb "go.opentelemetry.io/proto/otlp/resource/v1"
	tracepb "go.opentelemetry.io/proto/otlp/trace/v1"
	"google.golang.org/protobuf/proto"

	"github.com/honeycombio/refinery/config"
	kit "github.com/honeycombio/refinery/internal/verifkit"
	"github.com/honeycombio/refinery/logger"
	"github.com/honeycombio/refinery/metrics"
	"github.com/honeycombio/refinery/route"
	"github.com/honeycombio/refinery/sample"
	"github.com/honeycombio/refinery/sharder"
	"github.com/honeycombio/refinery/transmit"
	"github.com/honeycombio/refinery/types"
)

type comp struct{}

const apiKey = "0123456789abcdef0123456789abcdef" // classic key: no environment lookup
const traceField, parentField = "trace.trace_id", "trace.parent_id"

// ---------------------------------------------------------------- numbers

func ratTok(r *big.Rat) string { return r.Num().String() + "/" + r.Denom().String() }

func parseRat(s string) (*big.Rat, bool) {
	p := strings.Split(s, "/")
	if len(p) != 2 {
		return nil, false
	}
	n, ok1 := new(big.Int).SetString(p[0], 10)
	d, ok2 := new(big.Int).SetString(p[1], 10)
	if !ok1 || !ok2 || d.Sign() <= 0 {
		return nil, false
	}
	r := new(big.Rat).SetFrac(n, d)
	if ratTok(r) != s { // lowest terms only
		return nil, false
	}
	return r, true
}

func ratOfFloat(f float64) (string, bool) {
	r := new(big.Rat)
	if math.IsNaN(f) || math.IsInf(f, 0) || r.SetFloat64(f) == nil {
		return "", false
	}
	return ratTok(r), true
}

// exact64 / exact32: r is exactly a float64 / float32
func exact64(r *big.Rat) (float64, bool) { f, ex := r.Float64(); return f, ex }
func exact32(r *big.Rat) (float32, bool) { f, ex := r.Float32(); return f, ex }

// decimal expansion of a dyadic rational, exact
func decimalOf(r *big.Rat) (string, bool) {
	d := r.Denom()
	k := d.BitLen() - 1
	if new(big.Int).Lsh(big.NewInt(1), uint(k)).Cmp(d) != 0 {
		return "", false
	}
	return r.FloatString(k), true
}

// jsonLiteral renders r as a JSON number in one of three spellings of the same value.
func jsonLiteral(r *big.Rat, style int) (string, bool) {
	dec, ok := decimalOf(r)
	if !ok {
		return "", false
	}
	switch style {
	case 1:
		if r.IsInt() {
			return dec + ".0", true
		}
		return dec + "0", true
	case 2:
		neg := strings.HasPrefix(dec, "-")
		dec = strings.TrimPrefix(dec, "-")
		ip, fp, _ := strings.Cut(dec, ".")
		digits := strings.TrimLeft(ip+fp, "0")
		exp := -len(fp)
		if digits == "" {
			digits = "0"
			exp = 0
		}
		for len(digits) > 1 && strings.HasSuffix(digits, "0") {
			digits = digits[:len(digits)-1]
			exp++
		}
		// scientific: d.ddd e (exp + len-1)
		m := digits[:1]
		if len(digits) > 1 {
			m += "." + digits[1:]
		}
		s := fmt.Sprintf("%se%d", m, exp+len(digits)-1)
		if neg {
			s = "-" + s
		}
		return s, true
	}
	return dec, true
}

// ---------------------------------------------------------------- wire values

type wire struct {
	k string
	r *big.Rat
	s string
	b bool
	w int
}

func (w wire) tok() string {
	switch w.k {
	case "jn":
		return fmt.Sprintf("jn:%s:%s", ratTok(w.r), kit.Enc(w.s))
	case "js", "ms", "mx", "os":
		return w.k + ":" + kit.Enc(w.s)
	case "jb", "mb", "ob":
		return w.k + ":" + b01(w.b)
	case "jz", "mz":
		return w.k
	case "mi", "mu":
		return fmt.Sprintf("%s:%s:%d", w.k, w.r.Num().String(), w.w)
	case "oi":
		return "oi:" + w.r.Num().String()
	case "m4", "m8", "od":
		return w.k + ":" + ratTok(w.r)
	}
	return "?"
}

func parseWire(t string) (wire, bool) {
	k, rest, _ := strings.Cut(t, ":")
	w := wire{k: k}
	switch k {
	case "jz", "mz":
		return w, rest == "" && t == k
	case "js", "ms", "mx", "os":
		w.s = kit.Dec(rest)
		return w, true
	case "jb", "mb", "ob":
		w.b = rest == "1"
		return w, rest == "0" || rest == "1"
	case "jn":
		q, st, ok := strings.Cut(rest, ":")
		if !ok {
			return w, false
		}
		r, ok := parseRat(q)
		if !ok {
			return w, false
		}
		w.r = r
		w.s = kit.Dec(st)
		// the literal must be a JSON number spelling exactly the value n/d, itself exactly a float64
		lv, okl := new(big.Rat).SetString(w.s)
		_, ex := exact64(r)
		return w, ex && okl && jsonNumber.MatchString(w.s) && lv.Cmp(r) == 0
	case "mi", "mu":
		q, st, ok := strings.Cut(rest, ":")
		if !ok {
			return w, false
		}
		n, ok := new(big.Int).SetString(q, 10)
		if !ok || n.String() != q {
			return w, false
		}
		w.r = new(big.Rat).SetInt(n)
		w.w, _ = strconv.Atoi(st)
		if k == "mi" {
			return w, n.IsInt64()
		}
		return w, n.IsUint64()
	case "oi":
		n, ok := new(big.Int).SetString(rest, 10)
		if !ok || n.String() != rest || !n.IsInt64() {
			return w, false
		}
		w.r = new(big.Rat).SetInt(n)
		return w, true
	case "m8", "od":
		r, ok := parseRat(rest)
		if !ok {
			return w, false
		}
		w.r = r
		_, ex := exact64(r)
		return w, ex
	case "m4":
		r, ok := parseRat(rest)
		if !ok {
			return w, false
		}
		w.r = r
		_, ex := exact32(r)
		return w, ex
	}
	return w, false
}

var jsonNumber = regexp.MustCompile(`^-?(0|[1-9][0-9]*)(\.[0-9]+)?([eE][-+]?[0-9]+)?$`)

func (w wire) format() byte { return w.k[0] } // 'j', 'm', 'o'

// msgpack bytes of a wire value
func (w wire) msgpack(b []byte) []byte {
	switch w.k {
	case "mi":
		n := w.r.Num().Int64()
		if w.w == 1 {
			b = append(b, 0xd3)
			return appendBE(b, uint64(n), 8)
		}
		return msgp.AppendInt64(b, n)
	case "mu":
		n := w.r.Num().Uint64()
		switch {
		case w.w == 1 || n > math.MaxUint32:
			b = append(b, 0xcf)
			return appendBE(b, n, 8)
		case n > math.MaxUint16:
			b = append(b, 0xce)
			return appendBE(b, n, 4)
		case n > math.MaxUint8:
			b = append(b, 0xcd)
			return appendBE(b, n, 2)
		}
		return append(b, 0xcc, byte(n))
	case "m4":
		f, _ := exact32(w.r)
		return msgp.AppendFloat32(b, f)
	case "m8":
		f, _ := exact64(w.r)
		return msgp.AppendFloat64(b, f)
	case "ms":
		return msgp.AppendString(b, w.s)
	case "mx":
		return msgp.AppendBytes(b, []byte(w.s))
	case "mb":
		return msgp.AppendBool(b, w.b)
	}
	return msgp.AppendNil(b)
}

func appendBE(b []byte, v uint64, n int) []byte {
	for i := n - 1; i >= 0; i-- {
		b = append(b, byte(v>>(8*uint(i))))
	}
	return b
}

func (w wire) json(sb *strings.Builder) {
	switch w.k {
	case "jn":
		sb.WriteString(w.s)
	case "js":
		j, _ := json.Marshal(w.s)
		sb.Write(j)
	case "jb":
		sb.WriteString(strconv.FormatBool(w.b))
	default:
		sb.WriteString("null")
	}
}

func (w wire) otlp() *commonpb.AnyValue {
	switch w.k {
	case "oi":
		return &commonpb.AnyValue{Value: &commonpb.AnyValue_IntValue{IntValue: w.r.Num().Int64()}}
	case "od":
		f, _ := exact64(w.r)
		return &commonpb.AnyValue{Value: &commonpb.AnyValue_DoubleValue{DoubleValue: f}}
	case "ob":
		return &commonpb.AnyValue{Value: &commonpb.AnyValue_BoolValue{BoolValue: w.b}}
	}
	return &commonpb.AnyValue{Value: &commonpb.AnyValue_StringValue{StringValue: w.s}}
}

// ---------------------------------------------------------------- Go values (tokens)

func b01(b bool) string {
	if b {
		return "1"
	}
	return "0"
}

func tokOfAny(a any) string {
	switch x := a.(type) {
	case nil:
		return "n"
	case string:
		return "s:" + kit.Enc(x)
	case int64:
		return fmt.Sprintf("i:%d", x)
	case int:
		return fmt.Sprintf("i:%d", x)
	case float64:
		if q, ok := ratOfFloat(x); ok {
			return "f:" + q
		}
		return "?nonfinite64"
	case bool:
		return "b:" + b01(x)
	case uint64:
		return fmt.Sprintf("u:%d", x)
	case float32:
		if q, ok := ratOfFloat(float64(x)); ok {
			return "g:" + q
		}
		return "?nonfinite32"
	case []byte:
		return "x:" + kit.Enc(string(x))
	case []any:
		ts := make([]string, len(x))
		for i, it := range x {
			ts[i] = tokOfAny(it)
		}
		return "l:" + strings.Join(ts, "~")
	}
	return "?" + kit.Enc(fmt.Sprintf("%T", a))
}

// parseCondVal: a condition value as the YAML loader yields it (int, float64, string, bool, nil, []any)
func parseCondVal(t string) (any, bool) {
	switch {
	case t == "n":
		return nil, true
	case strings.HasPrefix(t, "s:"):
		return kit.Dec(t[2:]), true
	case strings.HasPrefix(t, "i:"):
		n, err := strconv.ParseInt(t[2:], 10, 64)
		return int(n), err == nil
	case strings.HasPrefix(t, "f:"):
		r, ok := parseRat(t[2:])
		if !ok {
			return nil, false
		}
		f, ex := exact64(r)
		return f, ex
	case t == "b:1":
		return true, true
	case t == "b:0":
		return false, true
	case strings.HasPrefix(t, "l:"):
		l := []any{}
		if t == "l:" {
			return l, true
		}
		for _, it := range strings.Split(t[2:], "~") {
			if strings.HasPrefix(it, "l:") {
				return nil, false
			}
			v, ok := parseCondVal(it)
			if !ok {
				return nil, false
			}
			l = append(l, v)
		}
		return l, true
	}
	return nil, false
}

// ---------------------------------------------------------------- graphs of the external functions

type exts struct{ seen map[string]bool }

func (e *exts) emit(format string, a ...any) {
	l := fmt.Sprintf(format, a...)
	if e.seen == nil {
		e.seen = map[string]bool{}
	}
	if !e.seen[l] {
		e.seen[l] = true
		kit.Ext("%s", l)
	}
}

func (e *exts) str(s string) {
	if n, err := strconv.Atoi(s); err == nil {
		e.emit("atoi %s = %d", kit.Enc(s), n)
	} else {
		e.emit("atoi %s = err", kit.Enc(s))
	}
	if f, err := strconv.ParseFloat(s, 64); err == nil {
		if q, ok := ratOfFloat(f); ok {
			e.emit("pfloat %s = %s", kit.Enc(s), q)
		} else {
			e.emit("pfloat %s = nonfinite", kit.Enc(s))
		}
	} else {
		e.emit("pfloat %s = err", kit.Enc(s))
	}
	if b, err := strconv.ParseBool(s); err == nil {
		e.emit("pbool %s = %s", kit.Enc(s), b01(b))
	} else {
		e.emit("pbool %s = err", kit.Enc(s))
	}
}

// value: %v and AddAsString of v and the strconv parsers on every string the code can derive from it
func (e *exts) value(v any) string {
	f := fmt.Sprintf("%v", v)
	e.emit("fmt %s = %s", tokOfAny(v), kit.Enc(f))
	e.str(f)
	if s, ok := v.(string); ok {
		e.str(s)
	}
	if l, ok := v.([]any); ok {
		for _, it := range l {
			e.value(it)
		}
		return f
	}
	if c, ok := sample.VerifEncodingAsString(v); ok {
		e.emit("conv %s = %s", tokOfAny(v), kit.Enc(c))
	}
	return f
}

// ---------------------------------------------------------------- case state

type condSpec struct {
	field  string
	fields []string
	op, dt string
	val    any
}

type ruleSpec struct {
	name, scope string
	rate        int
	drop        bool
	down        string
	conds       []condSpec
}

type spanSpec struct {
	root  bool
	entry string
	peer  bool
	keys  []string
	vals  []wire
}

type runner struct {
	rules   []ruleSpec
	keyFlds []string
	tl      bool
	dynRate int
	spans   []spanSpec
}

func (comp) NewCase(h []string) kit.Runner { return &runner{dynRate: 1} }
func (r *runner) Close()                   {}

func decList(s string) []string {
	if s == "-" || s == "" {
		return nil
	}
	var out []string
	for _, f := range strings.Split(s, ",") {
		out = append(out, kit.Dec(f))
	}
	return out
}

func encList(xs []string) string {
	if len(xs) == 0 {
		return "-"
	}
	out := make([]string, len(xs))
	for i, x := range xs {
		out[i] = kit.Enc(x)
	}
	return strings.Join(out, ",")
}

var entries = map[string]byte{"je": 'j', "jb": 'j', "me": 'm', "mb": 'm', "ot": 'o'}

func (r *runner) Do(op []string) (string, bool) {
	switch op[0] {
	case "rule":
		rate, err := strconv.Atoi(kit.KV(op, "rate"))
		if err != nil {
			return "bad-op", true
		}
		r.rules = append(r.rules, ruleSpec{name: kit.Dec(kit.KV(op, "name")), scope: kit.Dec(kit.KV(op, "scope")),
			rate: rate, drop: kit.KV(op, "drop") == "1", down: kit.KV(op, "down")})
		return "", false
	case "cond":
		v, ok := parseCondVal(kit.KV(op, "val"))
		if !ok {
			return "bad-op", true
		}
		c := condSpec{field: kit.Dec(kit.KV(op, "field")), fields: decList(kit.KV(op, "fields")),
			op: kit.Dec(kit.KV(op, "op")), dt: kit.Dec(kit.KV(op, "dt")), val: v}
		var e exts
		e.value(v)
		if len(r.rules) > 0 {
			last := &r.rules[len(r.rules)-1]
			last.conds = append(last.conds, c)
		}
		return "", false
	case "key":
		rate, err := strconv.Atoi(kit.KV(op, "rate"))
		if err != nil || rate < 1 {
			return "bad-op", true
		}
		r.keyFlds, r.tl, r.dynRate = decList(kit.KV(op, "fields")), kit.KV(op, "tl") == "1", rate
		return "", false
	case "span":
		sp := spanSpec{}
		for _, a := range op[1:] {
			i := strings.IndexByte(a, '=')
			if i < 0 {
				return "bad-op", true
			}
			k, vt := a[:i], a[i+1:]
			if k == "root" && (vt == "0" || vt == "1") {
				sp.root = vt == "1"
				continue
			}
			if k == "path" {
				e, p, _ := strings.Cut(vt, "+")
				if _, ok := entries[e]; !ok || (p != "" && p != "p") {
					return "bad-op", true
				}
				sp.entry, sp.peer = e, p == "p"
				continue
			}
			w, ok := parseWire(vt)
			name := kit.Dec(k)
			if !ok || name == traceField || name == parentField || strings.HasPrefix(name, "meta.") {
				return "bad-op", true
			}
			for _, have := range sp.keys {
				if have == name {
					return "bad-op", true
				}
			}
			sp.keys = append(sp.keys, name)
			sp.vals = append(sp.vals, w)
		}
		if sp.entry == "" {
			return "bad-op", true
		}
		var e exts
		for _, w := range sp.vals {
			if w.format() != entries[sp.entry] {
				return "bad-op", true
			}
			if sp.entry == "jb" && w.k == "jn" {
				// the external number parser of the JSON batch path, on this literal
				fv, err := fastjson.Parse(w.s)
				q, ok := "", false
				if err == nil {
					q, ok = ratOfFloat(fv.GetFloat64())
				}
				if !ok {
					return "bad-op", true
				}
				e.emit("fastjson %s = %s", kit.Enc(w.s), q)
			}
		}
		r.spans = append(r.spans, sp)
		return "", false
	case "cleartrace":
		r.spans = nil
		return "", false
	case "eval":
		seed, err := strconv.ParseInt(kit.KV(op, "seed"), 10, 64)
		if err != nil {
			return "bad-op", true
		}
		return r.eval(seed), true
	}
	return "bad-op", true
}

// ---------------------------------------------------------------- recording collector / transmission

type fakeCollector struct{ spans []*types.Span }

func (f *fakeCollector) AddSpan(sp *types.Span) error { f.spans = append(f.spans, sp); return nil }
func (f *fakeCollector) AddSpanFromPeer(sp *types.Span) error {
	f.spans = append(f.spans, sp)
	return nil
}
func (f *fakeCollector) Stressed() bool { return false }
func (f *fakeCollector) GetStressedSampleRate(string) (uint, bool, string) {
	return 0, false, ""
}
func (f *fakeCollector) ProcessSpanImmediately(*types.Span) (bool, bool) { return false, false }

type fakeTx struct{ events []*types.Event }

func (f *fakeTx) EnqueueEvent(ev *types.Event) { f.events = append(f.events, ev) }
func (f *fakeTx) EnqueueSpan(sp *types.Span)   { f.events = append(f.events, sp.Event) }

type world struct {
	cfg             *config.MockConfig
	coll            *fakeCollector
	up, ptx         *fakeTx
	inc, incFwd, pr *route.Router
}

const localTrace, remoteTrace = "0102030405060708090a0b0c0d0e0f10", "1112131415161718191a1b1c1d1e1f20"

func newWorld(samplingFields []string) *world {
	w := &world{coll: &fakeCollector{}, up: &fakeTx{}, ptx: &fakeTx{}}
	w.cfg = &config.MockConfig{
		TraceIdFieldNames:  []string{traceField},
		ParentIdFieldNames: []string{parentField},
		GetHoneycombAPIVal: "http://upstream.invalid",
	}
	// whatever sampler is configured for the dataset, its fields are what ingestion memoizes
	if len(samplingFields) > 0 {
		w.cfg.GetSamplerTypeVal = &config.DynamicSamplerConfig{SampleRate: 1, FieldList: samplingFields}
	} else {
		w.cfg.GetSamplerTypeVal = &config.DeterministicSamplerConfig{SampleRate: 1}
	}
	lg := &logger.NullLogger{}
	met := &metrics.NullMetrics{}
	self := &sharder.TestShard{Addr: "http://self"}
	other := &sharder.TestShard{Addr: "http://other", TraceIDs: []string{remoteTrace}}
	w.inc = route.VerifEncodingNewRouter(w.cfg, lg, met, w.up, w.ptx, w.coll, &sharder.MockSharder{Self: self}, types.RouterTypeIncoming)
	w.incFwd = route.VerifEncodingNewRouter(w.cfg, lg, met, w.up, w.ptx, w.coll, &sharder.MockSharder{Self: self, Other: other}, types.RouterTypeIncoming)
	w.pr = route.VerifEncodingNewRouter(w.cfg, lg, met, w.up, w.ptx, w.coll, &sharder.MockSharder{Self: other}, types.RouterTypePeer)
	return w
}

func (w *world) request(url string, body []byte, ctype string) *http.Request {
	req := httptest.NewRequest("POST", url, bytes.NewReader(body))
	req.Header.Set("Content-Type", ctype)
	req.Header.Set(types.APIKeyHeader, apiKey)
	return mux.SetURLVars(req, map[string]string{"datasetName": "ds"})
}

func batchOK(rec *httptest.ResponseRecorder) bool {
	if rec.Code != http.StatusOK {
		return false
	}
	var resp []struct {
		Status int `json:"status"`
	}
	if err := json.Unmarshal(rec.Body.Bytes(), &resp); err != nil || len(resp) != 1 {
		return false
	}
	return resp[0].Status == http.StatusAccepted
}

var evTime = time.Date(2024, 1, 1, 0, 0, 0, 0, time.UTC)

// ingest pushes one span through its real path and returns what the collector received.
func (w *world) ingest(sp spanSpec, idx int) (*types.Span, string) {
	w.coll.spans, w.up.events, w.ptx.events = nil, nil, nil
	rt, tid := w.inc, localTrace
	if sp.peer {
		rt, tid = w.incFwd, remoteTrace
	}
	parent := fmt.Sprintf("%016x", idx+1)
	switch sp.entry {
	case "je", "jb":
		var sb strings.Builder
		sb.WriteString(`{"` + traceField + `":"` + tid + `"`)
		if !sp.root {
			sb.WriteString(`,"` + parentField + `":"` + parent + `"`)
		}
		for i, k := range sp.keys {
			kj, _ := json.Marshal(k)
			sb.WriteByte(',')
			sb.Write(kj)
			sb.WriteByte(':')
			sp.vals[i].json(&sb)
		}
		sb.WriteByte('}')
		rec := httptest.NewRecorder()
		if sp.entry == "je" {
			rt.VerifEncodingEvent(rec, w.request("/1/events/ds", []byte(sb.String()), "application/json"))
			if rec.Code != http.StatusOK {
				return nil, "ingest-error"
			}
		} else {
			body := `[{"time":"2024-01-01T00:00:00Z","samplerate":1,"data":` + sb.String() + `}]`
			rt.VerifEncodingBatch(rec, w.request("/1/batch/ds", []byte(body), "application/json"))
			if !batchOK(rec) {
				return nil, "ingest-error"
			}
		}
	case "me", "mb":
		n := len(sp.keys) + 1
		if !sp.root {
			n++
		}
		data := msgp.AppendMapHeader(nil, uint32(n))
		data = msgp.AppendString(data, traceField)
		data = msgp.AppendString(data, tid)
		if !sp.root {
			data = msgp.AppendString(data, parentField)
			data = msgp.AppendString(data, parent)
		}
		for i, k := range sp.keys {
			data = msgp.AppendString(data, k)
			data = sp.vals[i].msgpack(data)
		}
		rec := httptest.NewRecorder()
		if sp.entry == "me" {
			rt.VerifEncodingEvent(rec, w.request("/1/events/ds", data, "application/msgpack"))
			if rec.Code != http.StatusOK {
				return nil, "ingest-error"
			}
		} else {
			body := msgp.AppendArrayHeader(nil, 1)
			body = msgp.AppendMapHeader(body, 3)
			body = msgp.AppendString(body, "time")
			body = msgp.AppendTimeExt(body, evTime)
			body = msgp.AppendString(body, "samplerate")
			body = msgp.AppendInt64(body, 1)
			body = msgp.AppendString(body, "data")
			body = append(body, data...)
			rt.VerifEncodingBatch(rec, w.request("/1/batch/ds", body, "application/msgpack"))
			if !batchOK(rec) {
				return nil, "ingest-error"
			}
		}
	case "ot":
		tb := make([]byte, 16)
		for i := range tb {
			fmt.Sscanf(tid[2*i:2*i+2], "%02x", &tb[i])
		}
		span := &tracepb.Span{TraceId: tb, SpanId: []byte{9, 9, 9, 9, 9, 9, 9, byte(idx + 1)}, Name: "op",
			StartTimeUnixNano: uint64(evTime.UnixNano()), EndTimeUnixNano: uint64(evTime.UnixNano()) + 1000}
		if !sp.root {
			span.ParentSpanId = []byte{8, 8, 8, 8, 8, 8, 8, byte(idx + 1)}
		}
		for i, k := range sp.keys {
			span.Attributes = append(span.Attributes, &commonpb.KeyValue{Key: k, Value: sp.vals[i].otlp()})
		}
		req := &collectortrace.ExportTraceServiceRequest{ResourceSpans: []*tracepb.ResourceSpans{{
			Resource:   &resourcepb.Resource{},
			ScopeSpans: []*tracepb.ScopeSpans{{Spans: []*tracepb.Span{span}}},
		}}}
		body, err := proto.Marshal(req)
		if err != nil {
			return nil, "ingest-error"
		}
		ri := huskyotlp.RequestInfo{ApiKey: apiKey, Dataset: "ds", ContentType: "application/protobuf"}
		res, err := huskyotlp.TranslateTraceRequestFromReaderSizedWithMsgp(context.Background(), io.NopCloser(bytes.NewReader(body)), ri, 1<<20)
		if err != nil {
			return nil, "ingest-error"
		}
		if err := rt.VerifEncodingOTLP(context.Background(), res.Batches, apiKey, ""); err != nil {
			return nil, "ingest-error"
		}
	}
	if sp.peer {
		// the span belongs to another shard: it was handed to the peer transmission; re-encode it
		// as DirectTransmission does and post it to the peer's /1/batch
		if len(w.ptx.events) != 1 || len(w.coll.spans) != 0 {
			return nil, "not-forwarded"
		}
		body, err := transmit.VerifEncodingPackBatch(w.ptx.events[0])
		if err != nil {
			return nil, "forward-error"
		}
		w.ptx.events = nil
		rec := httptest.NewRecorder()
		w.pr.VerifEncodingBatch(rec, w.request("/1/batch/ds", body, "application/msgpack"))
		if !batchOK(rec) {
			return nil, "forward-error"
		}
	}
	if len(w.coll.spans) != 1 || len(w.up.events) != 0 || len(w.ptx.events) != 0 {
		return nil, fmt.Sprintf("confused:%d:%d:%d", len(w.coll.spans), len(w.up.events), len(w.ptx.events))
	}
	return w.coll.spans[0], ""
}

func downCfg(d string, keyFlds []string, tl bool) *config.RulesBasedDownstreamSampler {
	num := func(p string) int { n, _ := strconv.Atoi(strings.TrimPrefix(d, p)); return n }
	switch {
	case strings.HasPrefix(d, "det"):
		return &config.RulesBasedDownstreamSampler{DeterministicSampler: &config.DeterministicSamplerConfig{SampleRate: num("det")}}
	case strings.HasPrefix(d, "dyn"):
		return &config.RulesBasedDownstreamSampler{DynamicSampler: &config.DynamicSamplerConfig{SampleRate: int64(num("dyn")),
			ClearFrequency: config.Duration(24 * time.Hour), FieldList: append([]string(nil), keyFlds...), UseTraceLength: tl}}
	}
	return nil
}

func (r *runner) eval(seed int64) string {
	// fields the configured samplers read
	seen := map[string]bool{}
	var sampling []string
	add := func(f string) {
		if f != "" && !seen[f] {
			seen[f] = true
			sampling = append(sampling, f)
		}
	}
	for _, rs := range r.rules {
		for _, c := range rs.conds {
			if len(c.fields) > 0 {
				for _, f := range c.fields {
					add(f)
				}
			} else {
				add(c.field)
			}
		}
	}
	for _, f := range r.keyFlds {
		add(f)
	}
	w := newWorld(sampling)

	// the real trace, assembled as CollectorWorker.processSpan does
	trace := &types.Trace{TraceID: localTrace}
	var spans []*types.Span
	var roots strings.Builder
	for i, ss := range r.spans {
		sp, errs := w.ingest(ss, i)
		if sp == nil {
			return errs
		}
		trace.AddSpan(sp)
		if sp.IsRoot {
			trace.RootSpan = sp
		}
		roots.WriteString(b01(sp.IsRoot))
		spans = append(spans, sp)
	}

	// the Go values the samplers see
	var e exts
	subjects := map[string]bool{}
	subjects[e.value(nil)] = true
	subjects[e.value(int64(len(spans)))] = true
	var g strings.Builder
	for i, ss := range r.spans {
		if i > 0 {
			g.WriteByte('|')
		}
		for j, k := range ss.keys {
			if j > 0 {
				g.WriteByte(',')
			}
			if !spans[i].Data.Exists(k) {
				g.WriteByte('-')
				continue
			}
			v := spans[i].Data.Get(k)
			g.WriteString(tokOfAny(v))
			subjects[e.value(v)] = true
		}
	}

	// the real rules configuration
	cfg := &config.RulesBasedSamplerConfig{}
	for _, rs := range r.rules {
		rule := &config.RulesBasedSamplerRule{Name: rs.name, SampleRate: rs.rate, Drop: rs.drop, Scope: rs.scope}
		for _, cs := range rs.conds {
			rule.Conditions = append(rule.Conditions, &config.RulesBasedSamplerCondition{
				Field: cs.field, Fields: append([]string(nil), cs.fields...), Operator: cs.op, Datatype: cs.dt, Value: cs.val})
		}
		rule.Sampler = downCfg(rs.down, r.keyFlds, r.tl)
		cfg.Rules = append(cfg.Rules, rule)
	}
	factory := &sample.SamplerFactory{Logger: &logger.NullLogger{}, Metrics: &metrics.NullMetrics{}}
	factory.Start()
	defer factory.Stop()
	s := &sample.RulesBasedSampler{Config: cfg, Logger: &logger.NullLogger{}, Metrics: &metrics.NullMetrics{}, SamplerFactory: factory}
	if err := s.Start(); err != nil {
		return "start-error"
	}
	for _, rs := range r.rules {
		for _, cs := range rs.conds {
			if cs.op != config.MatchesRegexp {
				continue
			}
			p := fmt.Sprintf("%v", cs.val)
			re, err := regexp.Compile(p)
			e.emit("rxc %s = %s", kit.Enc(p), b01(err == nil))
			if err != nil {
				continue
			}
			subs := make([]string, 0, len(subjects))
			for sub := range subjects {
				subs = append(subs, sub)
			}
			sort.Strings(subs)
			for _, sub := range subs {
				e.emit("rxm %s %s = %s", kit.Enc(p), kit.Enc(sub), b01(re.MatchString(sub)))
			}
		}
	}
	for i, rs := range r.rules {
		switch {
		case strings.HasPrefix(rs.down, "det") || strings.HasPrefix(rs.down, "dyn"):
			d := factory.GetDownstreamSampler("", cfg.Rules[i].Sampler)
			rand.Seed(seed)
			rate, keep, reason, key := d.GetSampleRate(trace)
			e.emit("down %d = %d %s %s %s", i, rate, b01(keep), kit.Enc(reason), kit.Enc(key))
		case rs.rate > 0:
			rand.Seed(seed)
			e.emit("intn %d = %d", rs.rate, rand.Intn(rs.rate))
		}
	}

	// the decisions
	rand.Seed(seed)
	rate, keep, reason, key := s.GetSampleRate(trace)

	dyn := factory.GetDownstreamSampler("standalone", &config.RulesBasedDownstreamSampler{DynamicSampler: &config.DynamicSamplerConfig{
		SampleRate: int64(r.dynRate), ClearFrequency: config.Duration(24 * time.Hour), FieldList: append([]string(nil), r.keyFlds...), UseTraceLength: r.tl}})
	rand.Seed(seed)
	drate, dkeep, _, dkey := dyn.GetSampleRate(trace)
	e.emit("dyn %s %d = %d", kit.Enc(dkey), len(spans), drate)
	rand.Seed(seed)
	e.emit("dintn %d = %d", drate, rand.Intn(int(drate)))

	gs := g.String()
	if len(r.spans) == 0 {
		gs = "-"
	}
	rs := roots.String()
	if rs == "" {
		rs = "-"
	}
	return fmt.Sprintf("rate=%d keep=%s reason=%s key=%s dk=%s dr=%d dkeep=%s roots=%s g=%s",
		rate, b01(keep), kit.Enc(reason), kit.Enc(key), kit.Enc(dkey), drate, b01(dkeep), rs, gs)
}

// ---------------------------------------------------------------- generator

// logical values
type lval struct {
	k byte // q number, s string, b bool, z null
	r *big.Rat
	s string
	b bool
}

func lq(n, d int64) lval { return lval{k: 'q', r: big.NewRat(n, d)} }

var intPool = []int64{0, 1, 5, 100, 127, 128, 200, 255, 256, 404, 500, 65535, 65536, 999999, 1000000, 1000001, 1234567,
	16777216, 16777217, 2147483648, -1, -3, -32, -33, -129, -1000000}
var fracPool = [][2]int64{{1, 2}, {3, 2}, {9, 4}, {-3, 4}, {801, 8}, {2000001, 2}, {4938269, 4}}
var strPool = []string{"", "a", "abc", "200", "1000000", "1e+06", "true", "GET", "é", "[97]", "5", "1.5"}

func genLogical(r *kit.Rng) lval {
	switch r.Pick(48, 14, 24, 8, 6) {
	case 0:
		return lq(intPool[r.Intn(len(intPool))], 1)
	case 1:
		f := fracPool[r.Intn(len(fracPool))]
		return lq(f[0], f[1])
	case 2:
		return lval{k: 's', s: strPool[r.Intn(len(strPool))]}
	case 3:
		return lval{k: 'b', b: r.Chance(50)}
	}
	return lval{k: 'z'}
}

// condTok: the condition value that corresponds to a logical value (YAML typing)
func (v lval) condTok() string {
	switch v.k {
	case 'q':
		if v.r.IsInt() {
			return "i:" + v.r.Num().String()
		}
		return "f:" + ratTok(v.r)
	case 's':
		return "s:" + kit.Enc(v.s)
	case 'b':
		return "b:" + b01(v.b)
	}
	return "n"
}

// choices of wire encodings for a logical value on an entry; prof steers the choice
//
//	ref   canonical: signed ints, float64, str
//	safe  only encodings that decode to int64/float64/string/bool/nil (ints of magnitude >= 10^6 stay ints)
//	uint  non-negative integers in the uint family          f32  float32 wherever exact
//	bin   strings as bin                                    mix  anything
func encode(r *kit.Rng, v lval, entry, prof string) (wire, bool) {
	switch entries[entry] {
	case 'j':
		switch v.k {
		case 'q':
			if prof == "safe" && v.r.IsInt() && new(big.Int).Abs(v.r.Num()).Cmp(big.NewInt(1000000)) >= 0 {
				return wire{}, false
			}
			lit, ok := jsonLiteral(v.r, r.Pick(60, 20, 20))
			return wire{k: "jn", r: v.r, s: lit}, ok
		case 's':
			return wire{k: "js", s: v.s}, true
		case 'b':
			return wire{k: "jb", b: v.b}, true
		}
		return wire{k: "jz"}, true
	case 'o':
		switch v.k {
		case 'q':
			if v.r.IsInt() && v.r.Num().IsInt64() {
				small := new(big.Int).Abs(v.r.Num()).Cmp(big.NewInt(1000000)) < 0
				if prof == "ref" || (prof == "safe" && !small) || r.Chance(70) {
					return wire{k: "oi", r: v.r}, true
				}
			}
			return wire{k: "od", r: v.r}, true
		case 's':
			return wire{k: "os", s: v.s}, true
		case 'b':
			return wire{k: "ob", b: v.b}, true
		}
		return wire{}, false // no null attribute values
	}
	// msgpack
	switch v.k {
	case 'q':
		_, f32 := exact32(v.r)
		isInt := v.r.IsInt() && v.r.Num().IsInt64()
		small := isInt && new(big.Int).Abs(v.r.Num()).Cmp(big.NewInt(1000000)) < 0
		switch prof {
		case "ref":
			if isInt {
				return wire{k: "mi", r: v.r}, true
			}
			return wire{k: "m8", r: v.r}, true
		case "safe":
			if isInt && (!small || r.Chance(65)) {
				return wire{k: "mi", r: v.r, w: r.Pick(80, 20)}, true
			}
			if entry == "me" && f32 && r.Chance(30) {
				return wire{k: "m4", r: v.r}, true // /1/events widens float32
			}
			return wire{k: "m8", r: v.r}, true
		case "uint":
			if isInt && v.r.Sign() >= 0 {
				return wire{k: "mu", r: v.r, w: r.Pick(80, 20)}, true
			}
		case "f32":
			if f32 {
				return wire{k: "m4", r: v.r}, true
			}
		case "mix":
			var ks []string
			if isInt {
				ks = append(ks, "mi", "mi")
				if v.r.Sign() >= 0 {
					ks = append(ks, "mu")
				}
			}
			ks = append(ks, "m8")
			if f32 {
				ks = append(ks, "m4")
			}
			return wire{k: ks[r.Intn(len(ks))], r: v.r, w: r.Pick(80, 20)}, true
		}
		if isInt {
			return wire{k: "mi", r: v.r}, true
		}
		return wire{k: "m8", r: v.r}, true
	case 's':
		if prof == "bin" || (prof == "mix" && r.Chance(30)) || (prof == "safe" && entry == "me" && r.Chance(25)) {
			return wire{k: "mx", s: v.s}, true
		}
		return wire{k: "ms", s: v.s}, true
	case 'b':
		return wire{k: "mb", b: v.b}, true
	}
	return wire{k: "mz"}, true
}

type lspan struct {
	root bool
	keys []string
	vals []lval
}

var fieldPool = []string{"a", "b", "c", "d"}
var operators = []string{config.NEQ, config.EQ, config.GT, config.LT, config.GTE, config.LTE,
	config.Contains, config.DoesNotContain, config.StartsWith, config.Exists, config.NotExists,
	config.HasRootSpan, config.MatchesRegexp, config.In, config.NotIn}

func genCond(r *kit.Rng, palette []lval) string {
	op := operators[r.Pick(6, 14, 8, 8, 8, 8, 7, 4, 7, 5, 3, 3, 5, 9, 5)]
	dt := []string{"", "string", "int", "float", "bool"}[r.Pick(34, 22, 20, 18, 6)]
	field := fieldPool[r.Intn(len(fieldPool))]
	if r.Chance(22) {
		field = config.RootPrefix + field
	}
	fields := "-"
	switch r.Pick(80, 12, 8) {
	case 1:
		// 2-3 Fields, plain and root.-prefixed names in any order (the first one present wins;
		// whether only the root was looked at decides if the remaining spans are still tried)
		fs := []string{kit.Enc(field)}
		for k := 1 + r.Intn(2); k > 0; k-- {
			f := fieldPool[r.Intn(len(fieldPool))]
			switch r.Pick(50, 40, 10) {
			case 1:
				f = config.RootPrefix + f
			case 2:
				f = "zz" // never present
			}
			fs = append(fs, kit.Enc(f))
		}
		fields = strings.Join(fs, ",")
		field = ""
	case 2:
		field = string(config.NUM_DESCENDANTS)
	}
	pv := palette[r.Intn(len(palette))]
	vt := pv.condTok()
	if pv.k == 'q' && pv.r.IsInt() && r.Chance(25) {
		vt = "f:" + ratTok(pv.r) // the YAML value 5.0: a float64 condition value against integer fields
	}
	switch {
	case field == string(config.NUM_DESCENDANTS):
		vt = fmt.Sprintf("i:%d", 1+r.Intn(4))
	case op == config.HasRootSpan:
		vt = "b:" + b01(r.Chance(60))
	case op == config.In || op == config.NotIn:
		n := 1 + r.Intn(3)
		ts := make([]string, n)
		for i := range ts {
			ts[i] = palette[r.Intn(len(palette))].condTok()
			if r.Chance(25) && pv.k == 'q' {
				ts[i] = "s:" + kit.Enc(fmt.Sprintf("%v", ratFloat(pv.r)))
			}
		}
		vt = "l:" + strings.Join(ts, "~")
	case op == config.MatchesRegexp:
		vt = "s:" + kit.Enc([]string{"^1", "0$", "e\\+", "^[0-9]+$", "^\\[", "^a", ".", "^2"}[r.Intn(8)])
	case (op == config.Contains || op == config.StartsWith || op == config.DoesNotContain || dt == "string") && pv.k == 'q' && r.Chance(60):
		// the string a user would write for the number
		s := pv.r.FloatString(0)
		if !pv.r.IsInt() {
			s, _ = decimalOf(pv.r)
		}
		if op != config.EQ && op != config.NEQ && len(s) > 2 && r.Chance(50) {
			s = s[:len(s)-1-r.Intn(2)]
		}
		vt = "s:" + kit.Enc(s)
	case pv.k == 'q' && r.Chance(25):
		// a neighbouring number, so that ordering operators separate values
		d := big.NewRat(int64(r.Intn(3))-1, 1)
		nr := new(big.Rat).Add(pv.r, d)
		vt = lval{k: 'q', r: nr}.condTok()
	}
	return fmt.Sprintf("cond field=%s fields=%s op=%s dt=%s val=%s", kit.Enc(field), fields, kit.Enc(op), kit.Enc(dt), vt)
}

func ratFloat(r *big.Rat) float64 { f, _ := r.Float64(); return f }

var profiles = []string{"ref", "perm", "safe", "uint", "f32", "bin", "json", "mix"}

func (comp) Gen(r *kit.Rng, maxLen int, tier string) kit.Case {
	var ops []string
	// a small palette of logical values shared by spans and conditions
	np := 3 + r.Intn(4)
	palette := make([]lval, np)
	for i := range palette {
		palette[i] = genLogical(r)
	}
	// sampler configuration
	var kf []string
	for _, f := range []string{"a", "b", "c", "root.a", "root.b", "root.d"} {
		if r.Chance(30) {
			kf = append(kf, f)
		}
	}
	ops = append(ops, fmt.Sprintf("key fields=%s tl=%s rate=%d", encList(kf), b01(r.Chance(30)), []int{1, 3, 7}[r.Intn(3)]))
	// directed scenario (30% of the cases): rule r0 has one condition over Fields in which a plain
	// field p and a root.-prefixed field q both occur; in the first trace the root span carries a
	// non-matching q, some spans lack p (they fall back to the root's q) and exactly one span has a
	// matching p.  Whether the rule matches must not depend on where that span is in the arrival order.
	directed := false
	var dp, dq string
	var dX, dY lval
	if r.Chance(30) {
		dp, dq = fieldPool[r.Intn(len(fieldPool))], fieldPool[r.Intn(len(fieldPool))]
		dX = palette[r.Intn(len(palette))]
		for _, y := range palette {
			if y.condTok() != dX.condTok() && !(y.k == 'q' && dX.k == 'q' && y.r.Cmp(dX.r) == 0) {
				dY, directed = y, true
				break
			}
		}
	}
	nr := 1 + r.Intn(3)
	for i := 0; i < nr; i++ {
		scope := []string{"trace", "", "span"}[r.Pick(40, 15, 45)]
		if directed && i == 0 {
			var fs []string
			switch r.Pick(50, 15, 13, 12, 10) {
			case 0:
				fs = []string{dp, config.RootPrefix + dq}
			case 1:
				fs = []string{config.RootPrefix + dq, dp}
			case 2:
				fs = []string{"zz", dp, config.RootPrefix + dq}
			case 3:
				fs = []string{dp, "zz", config.RootPrefix + dq}
			default:
				fs = []string{dp, config.RootPrefix + dq, "zz"}
			}
			ops = append(ops, fmt.Sprintf("rule name=r0 scope=%s rate=%d drop=%s down=none", kit.Enc(scope), []int{1, 2}[r.Intn(2)], b01(r.Chance(50))))
			ops = append(ops, fmt.Sprintf("cond field=%% fields=%s op=%s dt=%% val=%s", encList(fs), kit.Enc(config.EQ), dX.condTok()))
			if scope == "span" && r.Chance(40) {
				ops = append(ops, fmt.Sprintf("cond field=%s fields=- op=%s dt=%% val=n", kit.Enc(dp), kit.Enc(config.Exists)))
			}
			continue
		}
		rate := []int{1, 2, 10, 0}[r.Pick(40, 25, 25, 10)]
		down := "none"
		switch r.Pick(76, 10, 14) {
		case 1:
			down = fmt.Sprintf("det%d", []int{1, 2, 7}[r.Intn(3)])
		case 2:
			down = fmt.Sprintf("dyn%d", []int{1, 2, 5}[r.Intn(3)])
		}
		ops = append(ops, fmt.Sprintf("rule name=r%d scope=%s rate=%d drop=%s down=%s", i, kit.Enc(scope), rate, b01(r.Chance(35)), down))
		nc := 1 + r.Pick(60, 30, 10)
		if i == nr-1 && r.Chance(15) {
			nc = 0 // catch-all
		}
		for j := 0; j < nc; j++ {
			ops = append(ops, genCond(r, palette))
		}
	}
	// logical traces
	budget := maxLen - len(ops)
	for budget > 0 {
		n := 1 + r.Pick(30, 30, 25, 15)
		root := -1
		if r.Chance(80) {
			root = r.Intn(n)
		}
		firstDirected := directed
		directed = false // the first trace only
		if firstDirected {
			n = 3 + r.Intn(2)
			root = r.Intn(n)
		}
		tr := make([]lspan, n)
		for i := range tr {
			tr[i].root = i == root
			for _, f := range fieldPool {
				if r.Chance(55) {
					tr[i].keys = append(tr[i].keys, f)
					tr[i].vals = append(tr[i].vals, palette[r.Intn(len(palette))])
				}
			}
		}
		if firstDirected {
			set := func(sp *lspan, f string, v *lval) { // v == nil: the span lacks f
				for j, k := range sp.keys {
					if k == f {
						sp.keys = append(sp.keys[:j], sp.keys[j+1:]...)
						sp.vals = append(sp.vals[:j], sp.vals[j+1:]...)
						break
					}
				}
				if v != nil {
					sp.keys = append(sp.keys, f)
					sp.vals = append(sp.vals, *v)
				}
			}
			match := (root + 1 + r.Intn(n-1)) % n // a non-root span
			for i := range tr {
				switch {
				case i == match:
					set(&tr[i], dp, &dX)
				case i == root:
					set(&tr[i], dp, nil)
					set(&tr[i], dq, &dY) // (if p = q the root's own p is the non-matching value)
				default:
					set(&tr[i], dp, nil)
				}
			}
		}
		seed := r.Intn(1000000)
		tid := r.Intn(1000000)
		nv := 3 + r.Intn(5)
		for v := 0; v < nv && budget > 0; v++ {
			prof := "ref"
			if v > 0 {
				prof = profiles[r.Pick(0, 14, 30, 12, 10, 8, 10, 16)]
				if firstDirected && r.Chance(50) {
					prof = "perm"
				}
			}
			order := make([]int, n)
			for i := range order {
				order[i] = i
			}
			if prof == "perm" || (v > 0 && r.Chance(50)) {
				for i := n - 1; i > 0; i-- {
					j := r.Intn(i + 1)
					order[i], order[j] = order[j], order[i]
				}
			}
			ops = append(ops, "cleartrace")
			for _, i := range order {
				ops = append(ops, genSpanOp(r, tr[i], prof))
			}
			ops = append(ops, fmt.Sprintf("eval seed=%d t=%d prof=%s", seed, tid, prof))
			budget -= n + 2
		}
	}
	return kit.Case{Header: "tn=" + kit.Enc(traceField) + " pn=" + kit.Enc(parentField), Ops: ops}
}

func genSpanOp(r *kit.Rng, sp lspan, prof string) string {
	for try := 0; ; try++ {
		entry := "mb"
		encProf := prof
		switch prof {
		case "ref", "perm":
			encProf = "ref"
		case "json":
			entry = []string{"je", "jb"}[r.Intn(2)]
		case "uint", "f32", "bin":
			entry = []string{"mb", "mb", "me"}[r.Intn(3)]
		case "safe", "mix":
			entry = []string{"je", "jb", "me", "mb", "ot"}[r.Pick(18, 22, 18, 26, 16)]
		}
		if try > 6 {
			entry, encProf = "mb", "ref"
			if prof == "safe" {
				encProf = "safe"
			}
		}
		peer := prof != "ref" && prof != "perm" && r.Chance(25)
		parts := []string{"span", "root=" + b01(sp.root), "path=" + entry}
		if peer {
			parts[2] += "+p"
		}
		ok := true
		for i, k := range sp.keys {
			w, can := encode(r, sp.vals[i], entry, encProf)
			if !can {
				ok = false
				break
			}
			parts = append(parts, kit.Enc(k)+"="+w.tok())
		}
		if ok {
			return strings.Join(parts, " ")
		}
	}
}

// ---------------------------------------------------------------- facts

func facts() map[string]string {
	return map[string]string{
		"rootPrefix":     config.RootPrefix,
		"computedPrefix": config.ComputedFieldPrefix,
		"maxKeyLength":   strconv.Itoa(sample.VerifEncodingMaxKeyLength()),
	}
}

func main() { kit.Main(comp{}, facts) }
