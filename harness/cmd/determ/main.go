//go:build verif

// Harness for sample.DeterministicSampler and collect.StressRelief.GetSampleRate (property C10).
//
// case header: pool=<n>   (informative)
// ops:
//
//	det <id> <rate>                 two independently constructed DeterministicSamplers asked about id:
//	                                A: struct + Start, one instance per (case, rate) that lives for the whole case
//	                                   (so it has answered other questions before),
//	                                B: a fresh one through SamplerFactory.GetSamplerImplementationForKey
//	   ext sha1 <id> = <h>          big-endian uint32 of sha1(id ++ shardingSalt)[:4], salt = the package's constant
//	   obs A <keep> <rate> <reason> B <keep> <rate> <reason>      (or `panic-div0` in place of the triple)
//	stress <id> <rate>              two StressRelief instances after UpdateFromConfig (A per (case, rate), B fresh)
//	   ext wyhash <id> = <h>        wyhash.Hash(id, hashSeed), seed = the package's constant
//	frac det|stress <seed> <n> <rate>   n pseudo-random 32-hex trace IDs derived from seed
//	   ext hashes = h1,h2,…
//	   obs A <kept> B <kept> n <n>
//
//	-- one long-lived real StressRelief per case (real Start(), periodic loop off, idle queues, fake clock),
//	   initialised like the collector does with UpdateFromConfig for the header's smode=/srate=:
//	sreload <mode> <rate>           configuration reload: MockConfig.StressRelief{Mode, SamplingRate}, UpdateFromConfig()
//	srecalc                         Recalc()                      obs stressed=<bool>
//	sask <id>                       GetSampleRate(id) on the long-lived instance (L) and on a fresh instance
//	                                configured with the most recently configured rate (F)
//	   ext wyhash <id> = <h>        obs A <L answer> B <F answer>
//
//	-- wiring leg (header coll=1 crate=<n>; see collector.go): creload cfg|rules|both <rate>, cask <id>
//
// Trace IDs are percent-encoded tokens (kit.Enc).
package main

import (
	"crypto/sha1"
	"encoding/binary"
	"encoding/hex"
	"fmt"
	"math"
	"strconv"
	"strings"
	"sync"
	"time"

	"github.com/dgryski/go-wyhash"
	"github.com/honeycombio/refinery/collect"
	"github.com/honeycombio/refinery/config"
	"github.com/honeycombio/refinery/internal/peer"
	kit "github.com/honeycombio/refinery/internal/verifkit"
	"github.com/honeycombio/refinery/logger"
	"github.com/honeycombio/refinery/metrics"
	"github.com/honeycombio/refinery/pubsub"
	"github.com/honeycombio/refinery/sample"
	"github.com/honeycombio/refinery/types"
	"github.com/jonboulle/clockwork"
)

// ---- the hash graph, computed with the same library calls and the packages' own constants

func sha1h(id string) uint32 {
	sum := sha1.Sum([]byte(id + sample.VerifShardingSalt()))
	return binary.BigEndian.Uint32(sum[:4])
}

func wyh(id string) uint64 { return wyhash.Hash([]byte(id), collect.VerifStressHashSeed()) }

func hexID(r *kit.Rng, bytes int) string {
	b := make([]byte, bytes)
	for i := 0; i < bytes; i += 8 {
		binary.BigEndian.PutUint64(b[i:], r.Next())
	}
	return hex.EncodeToString(b)
}

// ---- pools of trace IDs with a small hash value, so that a rate exists whose threshold is
// exactly the hash (sha1: h < 2^16 => floor(U/floor(U/h)) == h) or at least a large critical rate.

var (
	poolOnce sync.Once
	lowSha   []string
	lowWy    []string
)

func pools() {
	poolOnce.Do(func() {
		r := kit.NewRng(0xC10)
		for len(lowSha) < 8 {
			id := hexID(r, 16)
			if sha1h(id) < 1<<16 {
				lowSha = append(lowSha, id)
			}
		}
		r = kit.NewRng(0xC10C10)
		for len(lowWy) < 4 {
			id := hexID(r, 16)
			if wyh(id) < 1<<46 {
				lowWy = append(lowWy, id)
			}
		}
	})
}

var oddIDs = []string{"", "abc123", "def456", "a b", "trace-ü•", "0", strings.Repeat("f", 200),
	"00000000000000000000000000000000", "%41", "x=y,z"}

func genID(r *kit.Rng) string {
	switch r.Pick(60, 12, 10, 6, 12) {
	case 0:
		return hexID(r, 16)
	case 1:
		return hexID(r, 8)
	case 2:
		pools()
		return lowSha[r.Intn(len(lowSha))]
	case 3:
		pools()
		return lowWy[r.Intn(len(lowWy))]
	default:
		return oddIDs[r.Intn(len(oddIDs))]
	}
}

func logUniform(r *kit.Rng, bits int) uint64 {
	b := 1 + r.Intn(bits)
	v := r.Next()
	if b < 64 {
		v &= (1 << uint(b)) - 1
		v |= 1 << uint(b-1)
	} else {
		v |= 1 << 63
	}
	return v
}

var detBoundary = []int64{1, 2, 3, 65535, 65536, 65537, 1<<31 - 1, 1 << 31, 1<<31 + 1, 1<<32 - 2, 1<<32 - 1}
var detOutside = []int64{0, -1, -7, -(1 << 32), -(1 << 32) + 1, -(1 << 33), 1 << 32, 1<<32 + 1, 1<<32 + 2, 1<<32 + 3,
	1 << 33, 1<<33 + 5, 3 << 32, 3<<32 + 2, math.MaxInt64, math.MinInt64, math.MinInt64 + 1, 1 << 62}

func genDetRate(r *kit.Rng, h uint32) int64 {
	switch r.Pick(24, 26, 8, 20, 12, 10) {
	case 0:
		return int64(2 + r.Intn(19))
	case 1: // the rates around the one at which this very hash value flips from kept to dropped
		if h == 0 {
			return int64(1<<32 - 1)
		}
		nc := int64(math.MaxUint32 / h)
		nc += int64(r.Intn(3)) - 1
		if nc < 1 {
			nc = 1
		}
		return nc
	case 2:
		return int64(21 + r.Intn(100000))
	case 3:
		return detBoundary[r.Intn(len(detBoundary))]
	case 4:
		v := logUniform(r, 32)
		return int64(v)
	default:
		if r.Chance(25) {
			return int64(uint64(1+r.Intn(5))<<32 + uint64(r.Intn(50)))
		}
		return detOutside[r.Intn(len(detOutside))]
	}
}

var stressBoundary = []uint64{0, 1, 2, 3, 1 << 31, 1<<32 - 1, 1 << 32, 1<<32 + 1, 1<<63 - 1, 1 << 63, 1<<63 + 1,
	math.MaxUint64 - 1, math.MaxUint64}

func genStressRate(r *kit.Rng, h uint64) uint64 {
	switch r.Pick(25, 30, 25, 20) {
	case 0:
		return uint64(2 + r.Intn(19))
	case 1:
		if h == 0 {
			return math.MaxUint64
		}
		nc := math.MaxUint64 / h
		switch r.Intn(3) {
		case 0:
			if nc > 1 {
				nc--
			}
		case 1:
			if nc < math.MaxUint64 {
				nc++
			}
		}
		return nc
	case 2:
		return stressBoundary[r.Intn(len(stressBoundary))]
	default:
		return logUniform(r, 64)
	}
}

var fracRates = []int{1, 2, 2, 2, 3, 3, 4, 5, 7, 10, 16, 33, 100, 1000}

type comp struct{}

func (comp) Gen(r *kit.Rng, maxLen int, tier string) kit.Case {
	np := 2 + r.Intn(4)
	ids := make([]string, np)
	for i := range ids {
		ids[i] = genID(r)
	}
	n := 4 + r.Intn(maxLen)
	var ops []string
	modes := []string{"never", "monitor", "always"}
	smallRate := func() uint64 {
		if r.Chance(80) {
			return uint64(1 + r.Intn(12))
		}
		return stressBoundary[r.Intn(len(stressBoundary))]
	}
	smode, srate := modes[r.Intn(3)], smallRate()
	for i := 0; i < n; i++ {
		if r.Chance(30) { // the long-lived StressRelief: reloads, state changes and questions in between
			switch r.Pick(30, 25, 45) {
			case 0:
				m := modes[r.Intn(3)]
				if r.Chance(50) {
					m = "always"
				}
				ops = append(ops, fmt.Sprintf("sreload %s %d", m, smallRate()))
			case 1:
				ops = append(ops, "srecalc")
			default:
				for k := 1 + r.Intn(3); k > 0; k-- {
					id := ids[r.Intn(np)]
					if r.Chance(50) {
						id = hexID(r, 16)
					}
					ops = append(ops, "sask "+kit.Enc(id))
				}
			}
			continue
		}
		if len(ops) > 0 && r.Chance(10) { // the same question again, later in the case
			ops = append(ops, ops[r.Intn(len(ops))])
			continue
		}
		id := ids[r.Intn(np)]
		if r.Chance(62) {
			ops = append(ops, fmt.Sprintf("det %s %d", kit.Enc(id), genDetRate(r, sha1h(id))))
		} else {
			ops = append(ops, fmt.Sprintf("stress %s %d", kit.Enc(id), genStressRate(r, wyh(id))))
		}
	}
	hdrColl := ""
	collPct := 15
	if tier == "thorough" {
		collPct = 4
	}
	if r.Chance(collPct) { // wiring leg: reloads through the real collector, fresh trace IDs in between
		crate := smallRate()
		hdrColl = fmt.Sprintf(" coll=1 crate=%d", crate)
		var cops []string
		if r.Chance(50) {
			cops = append(cops, "cask "+hexID(r, 16))
		}
		for k := 2 + r.Intn(4); k > 0; k-- {
			which := []string{"cfg", "cfg", "rules", "both"}[r.Intn(4)]
			nr := smallRate()
			for nr == crate && r.Chance(80) {
				nr = smallRate()
			}
			crate = nr
			cops = append(cops, fmt.Sprintf("creload %s %d", which, nr))
			for q := 2 + r.Intn(4); q > 0; q-- {
				cops = append(cops, "cask "+hexID(r, 16))
			}
		}
		// spread over the case, order kept
		var mixed []string
		for len(cops) > 0 || len(ops) > 0 {
			if len(cops) > 0 && (len(ops) == 0 || r.Chance(40)) {
				mixed, cops = append(mixed, cops[0]), cops[1:]
			} else {
				mixed, ops = append(mixed, ops[0]), ops[1:]
			}
		}
		ops = mixed
	}
	fracPct, fracN := 30, 4000
	if tier == "thorough" {
		fracPct = 8
	}
	if r.Chance(fracPct) {
		kind := "det"
		if r.Chance(40) {
			kind = "stress"
		}
		ops = append(ops, fmt.Sprintf("frac %s %d %d %d", kind, r.Next()>>1, fracN, fracRates[r.Intn(len(fracRates))]))
	}
	return kit.Case{Header: fmt.Sprintf("pool=%d smode=%s srate=%d", np, smode, srate) + hdrColl, Ops: ops}
}

// ---- running the real code

// outcome of asking one sampler instance
func catch(f func() string) (res string) {
	defer func() {
		if e := recover(); e != nil {
			msg := fmt.Sprint(e)
			if strings.Contains(msg, "integer divide by zero") {
				res = "panic-div0"
			} else {
				res = "panic-other:" + kit.Enc(msg)
			}
		}
	}()
	return f()
}

func newDetDirect(rate int) sample.Sampler {
	d := &sample.DeterministicSampler{
		Config: &config.DeterministicSamplerConfig{SampleRate: rate},
		Logger: &logger.NullLogger{},
	}
	if err := d.Start(); err != nil {
		panic("start: " + err.Error())
	}
	return d
}

// the production path: SamplerFactory looks the configuration up and starts the sampler
func newDetFactory(rate int) sample.Sampler {
	f := &sample.SamplerFactory{
		Config:  &config.MockConfig{GetSamplerTypeVal: &config.DeterministicSamplerConfig{SampleRate: rate}},
		Logger:  &logger.NullLogger{},
		Metrics: &metrics.NullMetrics{},
	}
	if err := f.Start(); err != nil {
		panic("factory start: " + err.Error())
	}
	s := f.GetSamplerImplementationForKey("env")
	if s == nil {
		panic("factory returned nil sampler")
	}
	return s
}

func newStress(rate uint64) *collect.StressRelief {
	s := &collect.StressRelief{
		Config: &config.MockConfig{StressRelief: config.StressReliefConfig{Mode: "always", ActivationLevel: 90,
			DeactivationLevel: 75, SamplingRate: rate}},
		Logger: &logger.NullLogger{},
	}
	s.UpdateFromConfig()
	return s
}

func fmtDec(rate uint, keep bool, reason string) string {
	return fmt.Sprintf("%t %d %s", keep, rate, kit.Enc(reason))
}

type runner struct {
	det    map[int]sample.Sampler
	stress map[uint64]*collect.StressRelief
	// the long-lived instance, its configuration source and the rate configured last
	live    *collect.StressRelief
	ps      *pubsub.LocalPubSub
	liveCfg *config.MockConfig
	cfgRate uint64
	coll    *collLeg
}

type nopHealth struct{}

func (nopHealth) Register(string, time.Duration) {}
func (nopHealth) Unregister(string)              {}
func (nopHealth) Ready(string, bool)             {}

func (comp) NewCase(h []string) kit.Runner {
	rn := &runner{det: map[int]sample.Sampler{}, stress: map[uint64]*collect.StressRelief{}}
	mode, rate := "never", uint64(100)
	if m := kit.KV(h, "smode"); m != "" {
		mode = m
	}
	if v, err := strconv.ParseUint(kit.KV(h, "srate"), 10, 64); err == nil {
		rate = v
	}
	met := &metrics.MockMetrics{}
	met.Start()
	ps := &pubsub.LocalPubSub{Metrics: met}
	ps.Start()
	rn.ps = ps
	rn.liveCfg = &config.MockConfig{}
	rn.live = &collect.StressRelief{
		RefineryMetrics: met, Config: rn.liveCfg, Logger: &logger.NullLogger{}, Health: nopHealth{},
		PubSub: ps, Peer: peer.NewMockPeers(nil, "p0"), Clock: clockwork.NewFakeClock(), Done: make(chan struct{}),
	}
	rn.live.VerifDetermNoLoop()
	if err := rn.live.Start(); err != nil {
		panic(err)
	}
	rn.reload(mode, rate) // collector start-up
	if kit.KV(h, "coll") == "1" {
		crate := uint64(100)
		if v, err := strconv.ParseUint(kit.KV(h, "crate"), 10, 64); err == nil {
			crate = v
		}
		rn.coll = newCollLeg(crate)
	}
	return rn
}

func (r *runner) reload(mode string, rate uint64) {
	r.liveCfg.Mux.Lock()
	r.liveCfg.StressRelief = config.StressReliefConfig{Mode: mode, ActivationLevel: 90, DeactivationLevel: 75,
		SamplingRate: rate, MinimumActivationDuration: config.Duration(10 * time.Second)}
	r.liveCfg.Mux.Unlock()
	r.cfgRate = rate
	r.live.UpdateFromConfig()
}

// long-lived instance per (case, rate)
func (r *runner) detA(rate int) sample.Sampler {
	if s, ok := r.det[rate]; ok {
		return s
	}
	s := newDetDirect(rate)
	r.det[rate] = s
	return s
}

func (r *runner) stressA(rate uint64) *collect.StressRelief {
	if s, ok := r.stress[rate]; ok {
		return s
	}
	s := newStress(rate)
	r.stress[rate] = s
	return s
}

func fracIDs(seed uint64, n int) []string {
	r := kit.NewRng(seed)
	ids := make([]string, n)
	for i := range ids {
		ids[i] = hexID(r, 16)
	}
	return ids
}

func (rn *runner) Do(op []string) (string, bool) {
	switch op[0] {
	case "det":
		if len(op) != 3 {
			return "bad-op", true
		}
		id := kit.Dec(op[1])
		rate64, err := strconv.ParseInt(op[2], 10, 64)
		if err != nil {
			return "bad-op", true
		}
		rate := int(rate64)
		kit.Ext("sha1 %s = %d", op[1], sha1h(id))
		ask := func(mk func(int) sample.Sampler) string {
			return catch(func() string {
				s := mk(rate)
				r, keep, reason, _ := s.GetSampleRate(&types.Trace{TraceID: id})
				return fmtDec(r, keep, reason)
			})
		}
		return "A " + ask(rn.detA) + " B " + ask(newDetFactory), true
	case "stress":
		if len(op) != 3 {
			return "bad-op", true
		}
		id := kit.Dec(op[1])
		rate, err := strconv.ParseUint(op[2], 10, 64)
		if err != nil {
			return "bad-op", true
		}
		kit.Ext("wyhash %s = %d", op[1], wyh(id))
		ask := func(mk func(uint64) *collect.StressRelief) string {
			return catch(func() string {
				s := mk(rate)
				r, keep, reason := s.GetSampleRate(id)
				return fmtDec(r, keep, reason)
			})
		}
		return "A " + ask(rn.stressA) + " B " + ask(newStress), true
	case "creload":
		if len(op) != 3 || rn.coll == nil || (op[1] != "cfg" && op[1] != "rules" && op[1] != "both") {
			return "bad-op", true
		}
		rate, err := strconv.ParseUint(op[2], 10, 64)
		if err != nil {
			return "bad-op", true
		}
		rn.coll.reload(op[1], rate)
		return "", false
	case "cask":
		if len(op) != 2 || rn.coll == nil {
			return "bad-op", true
		}
		return rn.coll.ask(op[1], kit.Dec(op[1])), true
	case "sreload":
		if len(op) != 3 {
			return "bad-op", true
		}
		rate, err := strconv.ParseUint(op[2], 10, 64)
		if err != nil || (op[1] != "never" && op[1] != "monitor" && op[1] != "always") {
			return "bad-op", true
		}
		rn.reload(op[1], rate)
		return "", false
	case "srecalc":
		rn.live.Recalc()
		return fmt.Sprintf("stressed=%t", rn.live.Stressed()), true
	case "sask":
		if len(op) != 2 {
			return "bad-op", true
		}
		id := kit.Dec(op[1])
		kit.Ext("wyhash %s = %d", op[1], wyh(id))
		ask := func(s func() *collect.StressRelief) string {
			return catch(func() string {
				r, keep, reason := s().GetSampleRate(id)
				return fmtDec(r, keep, reason)
			})
		}
		return "A " + ask(func() *collect.StressRelief { return rn.live }) +
			" B " + ask(func() *collect.StressRelief { return newStress(rn.cfgRate) }), true
	case "frac":
		if len(op) != 5 {
			return "bad-op", true
		}
		seed, e1 := strconv.ParseUint(op[2], 10, 64)
		n, e2 := strconv.Atoi(op[3])
		if e1 != nil || e2 != nil || n < 0 || n > 1<<20 {
			return "bad-op", true
		}
		ids := fracIDs(seed, n)
		hs := make([]string, n)
		var count func(inst int) string
		switch op[1] {
		case "det":
			rate64, err := strconv.ParseInt(op[4], 10, 64)
			if err != nil {
				return "bad-op", true
			}
			for i, id := range ids {
				hs[i] = strconv.FormatUint(uint64(sha1h(id)), 10)
			}
			count = func(inst int) string {
				return catch(func() string {
					var s sample.Sampler
					if inst == 0 {
						s = rn.detA(int(rate64))
					} else {
						s = newDetFactory(int(rate64))
					}
					k := 0
					for _, id := range ids {
						if _, keep, _, _ := s.GetSampleRate(&types.Trace{TraceID: id}); keep {
							k++
						}
					}
					return strconv.Itoa(k)
				})
			}
		case "stress":
			rate, err := strconv.ParseUint(op[4], 10, 64)
			if err != nil {
				return "bad-op", true
			}
			for i, id := range ids {
				hs[i] = strconv.FormatUint(wyh(id), 10)
			}
			count = func(inst int) string {
				return catch(func() string {
					s := newStress(rate)
					if inst == 0 {
						s = rn.stressA(rate)
					}
					k := 0
					for _, id := range ids {
						if _, keep, _ := s.GetSampleRate(id); keep {
							k++
						}
					}
					return strconv.Itoa(k)
				})
			}
		default:
			return "bad-op", true
		}
		if n == 0 {
			kit.Ext("hashes = -")
		} else {
			kit.Ext("hashes = %s", strings.Join(hs, ","))
		}
		return fmt.Sprintf("A %s B %s n %d", count(0), count(1), n), true
	}
	return "bad-op", true
}

func (r *runner) Close() {
	if r.coll != nil {
		r.coll.close()
	}
	close(r.live.Done)
	r.ps.Stop()
}

func main() { kit.Main(comp{}, nil) }
