//go:build verif

// Wiring leg of the C10 harness: a real InMemCollector (idle workers, fake clock) with a real
// StressRelief behind it and a configuration whose GetHashes() is non-empty and controlled by the
// op file.  A `creload` changes StressRelief.SamplingRate in the configuration, bumps the chosen
// hash(es) and calls the registered reload callbacks with (cfgHash, rulesHash), exactly as
// fileConfig.Reload does; the collector's own monitor() goroutine must then run reloadConfigs(),
// which is the only place that calls StressRelief.UpdateFromConfig.
//
// case header: coll=1 crate=<n>      (the leg exists only when coll=1)
//
//	creload cfg|rules|both <rate>       (no obs)
//	cask <id>                           ext wyhash <id> = <h>
//	   obs A <answer of the collector's StressRelief> B <answer of a fresh StressRelief at the rate in force>
//	       P <keep> <SampleRate stamped on the forwarded span | ->     (InMemCollector.ProcessSpanImmediately)
//	   trace IDs of cask must be fresh: ProcessSpanImmediately records its decision per trace ID.
package main

import (
	"fmt"
	"sync/atomic"
	"time"

	"github.com/jonboulle/clockwork"
	"go.opentelemetry.io/otel/trace/noop"

	"github.com/honeycombio/refinery/collect"
	"github.com/honeycombio/refinery/config"
	"github.com/honeycombio/refinery/internal/peer"
	kit "github.com/honeycombio/refinery/internal/verifkit"
	"github.com/honeycombio/refinery/logger"
	"github.com/honeycombio/refinery/metrics"
	"github.com/honeycombio/refinery/pubsub"
	"github.com/honeycombio/refinery/sample"
	"github.com/honeycombio/refinery/sharder"
	"github.com/honeycombio/refinery/transmit"
	"github.com/honeycombio/refinery/types"
)

// cntStress is the real StressRelief plus a count of UpdateFromConfig calls (only used by the
// harness to know when the collector's reload has run; never part of an observation).
type cntStress struct {
	real  *collect.StressRelief
	calls atomic.Int64
}

func (c *cntStress) Start() error { return nil }
func (c *cntStress) UpdateFromConfig() {
	c.real.UpdateFromConfig()
	c.calls.Add(1)
}
func (c *cntStress) Recalc() uint   { return c.real.Recalc() }
func (c *cntStress) Stressed() bool { return c.real.Stressed() }
func (c *cntStress) GetSampleRate(traceID string) (uint, bool, string) {
	return c.real.GetSampleRate(traceID)
}

type collLeg struct {
	conf   *config.MockConfig
	coll   *collect.InMemCollector
	sr     *cntStress
	sf     *sample.SamplerFactory
	ps     *pubsub.LocalPubSub
	tx     *transmit.MockTransmission
	ptx    *transmit.MockTransmission
	rate   uint64 // SamplingRate in force in the configuration
	cfgGen int
	rulGen int
}

func newCollLeg(rate uint64) *collLeg {
	conf := &config.MockConfig{
		GetTracesConfigVal: config.TracesConfig{
			SendTicker:   config.Duration(1000000 * time.Hour),
			SendDelay:    config.Duration(2 * time.Second),
			TraceTimeout: config.Duration(10 * time.Second),
			MaxBatchSize: 500,
		},
		SampleCache: config.SampleCacheConfig{KeptSize: 1000, DroppedSize: 1000, SizeCheckInterval: config.Duration(time.Hour), WorkerCount: 2},
		GetCollectionConfigVal: config.CollectionConfig{WorkerCount: 2, IncomingQueueSize: 64, PeerQueueSize: 64},
		Samplers: map[string]*config.V2SamplerChoice{
			"__default__": {DeterministicSampler: &config.DeterministicSamplerConfig{SampleRate: 1}}},
		StressRelief:       config.StressReliefConfig{Mode: "always", ActivationLevel: 90, DeactivationLevel: 75, SamplingRate: rate},
		TraceIdFieldNames:  []string{"trace.trace_id"},
		ParentIdFieldNames: []string{"trace.parent_id"},
		CfgHash:            "cfg-0",
		RulesHash:          "rules-0",
	}
	clock := clockwork.NewFakeClock()
	l := &collLeg{conf: conf, rate: rate}
	l.tx = &transmit.MockTransmission{Capacity: 16}
	l.tx.Start()
	l.ptx = &transmit.MockTransmission{Capacity: 16}
	l.ptx.Start()
	met := &metrics.MockMetrics{}
	met.Start()
	l.sf = &sample.SamplerFactory{Config: conf, Metrics: met, Logger: &logger.NullLogger{}}
	if err := l.sf.Start(); err != nil {
		panic(err)
	}
	l.ps = &pubsub.LocalPubSub{Config: conf, Metrics: met}
	l.ps.Start()
	real := &collect.StressRelief{
		RefineryMetrics: met, Config: conf, Logger: &logger.NullLogger{}, Health: nopHealth{},
		PubSub: l.ps, Peer: peer.NewMockPeers(nil, "p0"), Clock: clock, Done: make(chan struct{}),
	}
	real.VerifDetermNoLoop()
	if err := real.Start(); err != nil {
		panic(err)
	}
	l.sr = &cntStress{real: real}
	l.coll = &collect.InMemCollector{
		TestMode: true, Config: conf, Clock: clock, Logger: &logger.NullLogger{},
		Tracer: noop.NewTracerProvider().Tracer("verif"), Health: nopHealth{},
		Transmission: l.tx, PeerTransmission: l.ptx, PubSub: l.ps, Metrics: met,
		StressRelief: l.sr, SamplerFactory: l.sf,
		Peers:   peer.NewMockPeers([]string{"api1"}, "api1"),
		Sharder: &sharder.MockSharder{Self: &sharder.TestShard{Addr: "api1"}},
	}
	if err := l.coll.Start(); err != nil { // calls UpdateFromConfig and registers the reload callback
		panic(err)
	}
	return l
}

func (l *collLeg) close() {
	l.coll.Stop()
	close(l.sr.real.Done)
	l.sf.Stop()
	l.ps.Stop()
	l.tx.Stop()
	l.ptx.Stop()
}

// reload = what fileConfig.Reload does once it has found a changed hash: store the new data and
// hashes, then call every registered callback with (mainHash, rulesHash).
func (l *collLeg) reload(which string, rate uint64) {
	l.conf.Mux.Lock()
	l.conf.StressRelief.SamplingRate = rate
	if which == "cfg" || which == "both" {
		l.cfgGen++
		l.conf.CfgHash = fmt.Sprintf("cfg-%d", l.cfgGen)
	}
	if which == "rules" || which == "both" {
		l.rulGen++
		l.conf.RulesHash = fmt.Sprintf("rules-%d", l.rulGen)
	}
	ch, rh := l.conf.CfgHash, l.conf.RulesHash
	cbs := append([]config.ConfigReloadCallback(nil), l.conf.Callbacks...)
	l.conf.Mux.Unlock()
	l.rate = rate
	before := l.sr.calls.Load()
	for _, cb := range cbs {
		cb(ch, rh)
	}
	// Wait for the collector's monitor() goroutine to have run reloadConfigs().  The signal is
	// posted synchronously by the callback; if it is neither pending nor (after a grace period for
	// the few instructions between the channel receive and UpdateFromConfig) acted upon, the
	// collector has dropped the reload and the questions that follow show it.
	start := time.Now()
	var emptySince time.Time
	for l.sr.calls.Load() == before {
		if collect.VerifDetermReloadPending(l.coll) == 0 {
			if emptySince.IsZero() {
				emptySince = time.Now()
			} else if time.Since(emptySince) > 300*time.Millisecond {
				return
			}
		} else {
			emptySince = time.Time{}
		}
		if time.Since(start) > 30*time.Second {
			panic("stuck waiting for the collector's reload")
		}
		time.Sleep(50 * time.Microsecond)
	}
}

func (l *collLeg) ask(opID, id string) string {
	kit.Ext("wyhash %s = %d", opID, wyh(id))
	a := catch(func() string {
		r, keep, reason := l.coll.StressRelief.GetSampleRate(id)
		return fmtDec(r, keep, reason)
	})
	b := catch(func() string {
		r, keep, reason := newStress(l.rate).GetSampleRate(id)
		return fmtDec(r, keep, reason)
	})
	p := catch(func() string {
		sp := &types.Span{TraceID: id, IsRoot: true, Event: &types.Event{
			APIHost: "http://api", APIKey: "key", Dataset: "ds", Environment: "env",
			Data: types.NewPayload(l.conf, map[string]any{"trace.trace_id": id}),
		}}
		processed, keep := l.coll.ProcessSpanImmediately(sp)
		if !processed {
			return "unprocessed -"
		}
		if !keep {
			select {
			case <-l.tx.Events:
				return "false forwarded-though-dropped"
			default:
			}
			return "false -"
		}
		select {
		case ev := <-l.tx.Events:
			return fmt.Sprintf("true %d", ev.SampleRate)
		default:
			return "true not-forwarded"
		}
	})
	return "A " + a + " B " + b + " P " + p
}
