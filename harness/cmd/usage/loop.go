//go:build verif

// Loop-driven cases (mode=loop): the real Agent.reportUsagePeriodically goroutine, started the way
// Agent.connect starts it, on the fake clock (its ticker comes from the agent's clock), against an
// OpAMP client that holds one custom message at a time and confirms it only when told to.
//
//	add <sig> <reading>   usageTracker.Add
//	ltick <a|e>           one report interval elapses (a/e: how the client answers while its slot
//	                      is free: accept / other error)
//	confirm <a|e>         the message occupying the slot has gone out: slot freed, channel closed
//	other                 some other custom message takes the slot (if free)
//
// After every operation the harness waits until every goroutine of the agent is parked (select /
// channel receive); `insend` is the number of goroutines inside sendUsageReport at that point.
package main

import (
	"fmt"
	"runtime"
	"strings"
	"sync"
	"time"

	"github.com/honeycombio/refinery/agent"
	kit "github.com/honeycombio/refinery/internal/verifkit"
	"github.com/jonboulle/clockwork"
	"github.com/open-telemetry/opamp-go/client"
	"github.com/open-telemetry/opamp-go/client/types"
	"github.com/open-telemetry/opamp-go/protobufs"
)

// slotClient: like the real client, one custom message in flight; while the slot is taken
// SendCustomMessage answers ErrCustomMessagePending with the occupant's channel.
type slotClient struct {
	client.OpAMPClient
	mu       sync.Mutex
	accept   bool
	ch       chan struct{} // occupant's channel, nil when the slot is free
	isReport bool
	calls    int
	accepted [][]byte
	badCap   bool
}

func (c *slotClient) SendCustomMessage(m *protobufs.CustomMessage) (chan struct{}, error) {
	c.mu.Lock()
	defer c.mu.Unlock()
	c.calls++
	if m.Capability != agent.VerifCapability() {
		c.badCap = true
	}
	if c.ch != nil {
		return c.ch, types.ErrCustomMessagePending
	}
	if !c.accept {
		return nil, errSend
	}
	c.ch = make(chan struct{})
	c.isReport = true
	c.accepted = append(c.accepted, m.Data)
	return c.ch, nil
}

type loopRunner struct {
	base *runner // decoding and state printing
	sc   *slotClient
}

func newLoopRunner() kit.Runner {
	waitAgentGone()
	sc := &slotClient{accept: true}
	b := &runner{clock: clockwork.NewFakeClock(), fc: &fakeClient{}, noStamp: true}
	b.u = agent.VerifNewUsage(sc, b.clock)
	b.u.StartUsageLoop()
	b.clock.BlockUntil(1) // the loop's ticker is registered
	lr := &loopRunner{base: b, sc: sc}
	lr.settle()
	return lr
}

func (l *loopRunner) Close() {
	l.base.u.Close()
	waitAgentGone()
}

// scan looks at all goroutines that are executing methods of *agent.Agent.
func scan() (total, insend int, parked bool) {
	buf := make([]byte, 1<<16)
	for {
		n := runtime.Stack(buf, true)
		if n < len(buf) {
			buf = buf[:n]
			break
		}
		buf = make([]byte, 2*len(buf))
	}
	parked = true
	for _, g := range strings.Split(string(buf), "\n\n") {
		body := g
		if i := strings.Index(g, "\ncreated by "); i >= 0 {
			body = g[:i]
		}
		if !strings.Contains(body, "refinery/agent.(*Agent).") {
			continue
		}
		total++
		if strings.Contains(body, "agent.(*Agent).sendUsageReport(") {
			insend++
		}
		state := ""
		if i, j := strings.Index(g, "["), strings.Index(g, "]"); i >= 0 && j > i {
			state = g[i+1 : j]
		}
		if !strings.HasPrefix(state, "select") && !strings.HasPrefix(state, "chan receive") {
			parked = false
		}
	}
	return
}

// settle waits (bounded) until all agent goroutines are parked.
func (l *loopRunner) settle() (insend int, ok bool) {
	deadline := time.Now().Add(5 * time.Second)
	for {
		runtime.Gosched()
		_, n, parked := scan()
		if parked {
			return n, true
		}
		if time.Now().After(deadline) {
			return n, false
		}
		time.Sleep(20 * time.Microsecond)
	}
}

func waitAgentGone() {
	deadline := time.Now().Add(5 * time.Second)
	for {
		if n, _, _ := scan(); n == 0 || time.Now().After(deadline) {
			return
		}
		time.Sleep(50 * time.Microsecond)
	}
}

func (l *loopRunner) info() string {
	n, ok := l.settle()
	l.sc.mu.Lock()
	slot := "free"
	if l.sc.ch != nil {
		slot = "other"
		if l.sc.isReport {
			slot = "report"
		}
	}
	bad := l.sc.badCap
	l.sc.mu.Unlock()
	s := fmt.Sprintf("insend=%d slot=%s %s", n, slot, l.base.state())
	if !ok {
		s = "not-quiescent " + s
	}
	if bad {
		s = "wrong-capability " + s
	}
	return s
}

// events reports what the client saw since `calls0`/`acc0`, after the agent has settled.
func (l *loopRunner) events(calls0, acc0 int) string {
	info := l.info() // settles first
	l.sc.mu.Lock()
	defer l.sc.mu.Unlock()
	acc := "none"
	if len(l.sc.accepted) > acc0 {
		var parts []string
		for _, d := range l.sc.accepted[acc0:] {
			parts = append(parts, l.base.decode(d))
		}
		acc = strings.Join(parts, ";")
	}
	return fmt.Sprintf("acc=%s sends=%d %s", acc, l.sc.calls-calls0, info)
}

func (l *loopRunner) setAccept(x string) bool {
	if x != "a" && x != "e" {
		return false
	}
	l.sc.mu.Lock()
	l.sc.accept = x == "a"
	l.sc.mu.Unlock()
	return true
}

func (l *loopRunner) Do(op []string) (string, bool) {
	l.sc.mu.Lock()
	calls0, acc0 := l.sc.calls, len(l.sc.accepted)
	l.sc.mu.Unlock()
	switch {
	case op[0] == "add" && len(op) == 3:
		if !l.base.addIdx(op[1], op[2]) {
			return "bad-op", true
		}
		return l.info(), true
	case op[0] == "ltick" && len(op) == 2:
		if !l.setAccept(op[1]) {
			return "bad-op", true
		}
		l.base.clock.Advance(l.base.u.ReportInterval())
		return l.events(calls0, acc0), true
	case op[0] == "confirm" && len(op) == 2:
		if !l.setAccept(op[1]) {
			return "bad-op", true
		}
		l.sc.mu.Lock()
		closed := "none"
		if l.sc.ch != nil {
			closed = "other"
			if l.sc.isReport {
				closed = "report"
			}
			ch := l.sc.ch
			l.sc.ch, l.sc.isReport = nil, false // slot freed before the waiters are woken
			close(ch)
		}
		l.sc.mu.Unlock()
		return "closed=" + closed + " " + l.events(calls0, acc0), true
	case op[0] == "other" && len(op) == 1:
		l.sc.mu.Lock()
		res := "busy"
		if l.sc.ch == nil {
			l.sc.ch, l.sc.isReport = make(chan struct{}), false
			res = "ok"
		}
		l.sc.mu.Unlock()
		return "other=" + res + " " + l.info(), true
	}
	return "bad-op", true
}

// genLoop: usage grows between ticks; a report's confirmation comes 0, 1 or 2 ticks late.
func genLoop(r *kit.Rng, g *genState, n int) []string {
	var ops []string
	adds := func(max int) {
		for i, k := 0, r.Intn(max+1); i < k; i++ {
			ops = append(ops, g.add())
		}
	}
	ans := func() string {
		if r.Chance(15) {
			return "e"
		}
		return "a"
	}
	for len(ops) < n {
		adds(3)
		if r.Chance(12) {
			ops = append(ops, "other")
		}
		ops = append(ops, "ltick "+ans())
		for k := r.Pick(55, 28, 17); k > 0; k-- { // the confirmation is late by k ticks
			adds(2)
			ops = append(ops, "ltick "+ans())
		}
		adds(1)
		for c := r.Pick(10, 65, 25); c > 0; c-- {
			ops = append(ops, "confirm "+ans())
		}
	}
	for i := 0; i < 4; i++ { // drain: everything in flight goes out
		ops = append(ops, "confirm a")
	}
	return ops
}
