//go:build verif

// Harness for the usage tracker (agent/usage_report.go) and the agent's usage send loop
// (agent/agent.go sendUsageReport) — property C34.
//
// case header: mode=agent|raw|loop   (loop: see loop.go)
// ops (signals are indices into agent.VerifSignals(): 0 traces, 1 logs, 2 events_received, 3 events_dropped)
//
//	add <sig> <reading>      usageTracker.Add(signal, cumulative reading)
//	report                   usageTracker.NewReport (the caller now holds that report)
//	sent                     usageTracker.completeSend (the held report was delivered)
//	fail                     the caller gives up on the held report (no call into the code)
//	tick <script> <mids>     one real Agent.sendUsageReport() against a scripted OpAMP client;
//	                         script = one letter per SendCustomMessage call: a accepted, p pending
//	                         (ErrCustomMessagePending + a channel that is closed), e other error,
//	                         A / P = accepted / pending with a channel that is never closed: the
//	                         agent is shut down (ctx cancelled) at that moment, nothing may follow;
//	                         calls beyond the script get e.  mids = "-" or "sig:reading,…"
//	                         = Add calls made by the health-check loop while the report is being sent
//	                         (performed inside the first SendCustomMessage call).
//
// Every observation ends with the tracker's state: cur=<sig:v,…|-> last=<…> lu=<v0,v1,v2,v3>.
package main

import (
	"context"
	"errors"
	"fmt"
	"math"
	"sort"
	"strconv"
	"strings"
	"time"

	"github.com/honeycombio/refinery/agent"
	kit "github.com/honeycombio/refinery/internal/verifkit"
	"github.com/jonboulle/clockwork"
	"github.com/open-telemetry/opamp-go/client"
	"github.com/open-telemetry/opamp-go/client/types"
	"github.com/open-telemetry/opamp-go/protobufs"
	"go.opentelemetry.io/collector/pdata/pmetric"
)

type comp struct{}

var signals = agent.VerifSignals()

// ---------------------------------------------------------------- generator

type genState struct {
	r      *kit.Rng
	count  [4]int64 // the cumulative counters the readings are taken from
	resets bool
	big    bool
}

func (g *genState) reading(s int) int64 {
	r := g.r
	switch {
	case g.resets && r.Chance(12): // counter restarted
		if r.Chance(40) {
			g.count[s] = 0
		} else {
			g.count[s] = int64(r.Intn(int(min64(g.count[s], 1000)) + 1))
		}
	case r.Chance(15): // no growth since the last reading
	case g.big && r.Chance(30):
		g.count[s] += int64(r.Intn(1<<30)) << 10
	default:
		g.count[s] += int64(1 + r.Intn(100))
	}
	return g.count[s]
}

func (g *genState) add() string {
	s := g.r.Pick(40, 30, 20, 10)
	return fmt.Sprintf("add %d %d", s, g.reading(s))
}

func (g *genState) mids() string {
	if !g.r.Chance(25) {
		return "-"
	}
	n := 1 + g.r.Intn(3)
	var parts []string
	for i := 0; i < n; i++ {
		s := g.r.Intn(4)
		parts = append(parts, fmt.Sprintf("%d:%d", s, g.reading(s)))
	}
	return strings.Join(parts, ",")
}

func min64(a, b int64) int64 {
	if a < b {
		return a
	}
	return b
}

func (comp) Gen(r *kit.Rng, maxLen int, tier string) kit.Case {
	g := &genState{r: r, resets: r.Chance(15), big: r.Chance(10)}
	mode := "agent"
	switch r.Pick(50, 25, 25) {
	case 1:
		mode = "raw"
	case 2:
		mode = "loop"
	}
	n := 4 + r.Intn(maxLen)
	if mode == "loop" {
		return kit.Case{Header: "mode=loop", Ops: genLoop(r, g, n)}
	}
	var ops []string
	adds := func(max int) {
		k := r.Intn(max + 1)
		if r.Chance(20) { // a whole health check: all four signals
			for s := 0; s < 4; s++ {
				ops = append(ops, fmt.Sprintf("add %d %d", s, g.reading(s)))
			}
			return
		}
		for i := 0; i < k; i++ {
			ops = append(ops, g.add())
		}
	}
	// answers of the client, one letter per call (the loop makes at most two calls; longer
	// scripts check exactly that)
	failing := func() string {
		return []string{"e", "e", "e", "pe", "pe", "pp", "pp", "p", "ppp", "ppa", "ppe", "pep", "ea"}[r.Intn(13)]
	}
	succeeding := func() string {
		return []string{"a", "a", "a", "a", "pa", "pa", "pa", "pae", "pap", "ap", "ae"}[r.Intn(11)]
	}
	shutdown := func() string {
		return []string{"A", "P", "pA", "pP", "PA", "Ap"}[r.Intn(6)]
	}
	if mode == "agent" {
		for len(ops) < n {
			// a run of 0–4 failed sends, then a successful one
			fails := r.Pick(35, 25, 20, 12, 8)
			for i := 0; i < fails; i++ {
				adds(3)
				ops = append(ops, fmt.Sprintf("tick %s %s", failing(), g.mids()))
			}
			adds(3)
			ops = append(ops, fmt.Sprintf("tick %s %s", succeeding(), g.mids()))
		}
		if r.Chance(8) { // the agent is shut down while a send is in progress
			adds(2)
			ops = append(ops, fmt.Sprintf("tick %s %s", shutdown(), g.mids()))
			if r.Chance(50) {
				ops = append(ops, g.add(), "tick a -")
			}
		}
	} else {
		held := false
		for len(ops) < n {
			switch {
			case held:
				if r.Chance(40) {
					adds(2)
				}
				switch r.Pick(50, 35, 15) {
				case 0:
					ops = append(ops, "sent")
					held = false
				case 1:
					ops = append(ops, "fail")
					held = false
				case 2:
					ops = append(ops, "report") // the held report is abandoned without a word
				}
			default:
				switch r.Pick(45, 45, 4, 3, 3) {
				case 0:
					adds(3)
				case 1:
					ops = append(ops, "report")
					held = true // (unless NewReport refused; then sent/fail follow anyway: also tested)
				case 2:
					ops = append(ops, "sent") // completeSend with nothing held
				case 3:
					ops = append(ops, "fail")
				case 4:
					if r.Chance(50) {
						ops = append(ops, fmt.Sprintf("tick %s %s", succeeding(), g.mids()))
					} else {
						ops = append(ops, fmt.Sprintf("tick %s %s", failing(), g.mids()))
					}
				}
			}
		}
	}
	return kit.Case{Header: "mode=" + mode, Ops: ops}
}

// ---------------------------------------------------------------- scripted OpAMP client

var errSend = errors.New("verif: scripted send failure")

// fakeClient implements only SendCustomMessage; any other method of the embedded nil interface
// panics, which the kit reports (sendUsageReport must not call anything else).
type fakeClient struct {
	client.OpAMPClient
	script   string // one letter per call: a A p P e
	calls    int
	first    []byte // Data of the first message offered
	accepted [][]byte
	badCap   bool
	onFirst  func()
	onHang   func() // shuts the agent down: the returned channel is never closed
}

func (f *fakeClient) SendCustomMessage(m *protobufs.CustomMessage) (chan struct{}, error) {
	f.calls++
	if f.calls == 1 {
		f.first = m.Data
		if f.onFirst != nil {
			f.onFirst()
		}
	}
	if m.Capability != agent.VerifCapability() {
		f.badCap = true
	}
	res := byte('e')
	if f.calls <= len(f.script) {
		res = f.script[f.calls-1]
	}
	ch := make(chan struct{})
	if res == 'A' || res == 'P' {
		f.onHang()
	} else {
		close(ch) // the message occupying the slot has gone out by the time the caller looks
	}
	switch res {
	case 'a', 'A':
		f.accepted = append(f.accepted, m.Data)
		return ch, nil
	case 'p', 'P':
		return ch, types.ErrCustomMessagePending
	}
	return nil, errSend
}

// ---------------------------------------------------------------- runner

type runner struct {
	clock *clockwork.FakeClock
	fc    *fakeClient
	u     *agent.VerifUsage
	dead  bool // the agent's context was cancelled

	noStamp bool // loop mode: a report may be accepted ticks after it was built
}

func (comp) NewCase(h []string) kit.Runner {
	if kit.KV(h, "mode") == "loop" {
		return newLoopRunner()
	}
	r := &runner{clock: clockwork.NewFakeClock(), fc: &fakeClient{}}
	r.u = agent.VerifNewUsage(r.fc, r.clock)
	return r
}

func (r *runner) Close() { r.u.Close() }

func fnum(x float64) string {
	if x != math.Trunc(x) || math.Abs(x) > 1<<62 {
		return "nonint" + kit.Enc(strconv.FormatFloat(x, 'g', -1, 64))
	}
	return strconv.FormatInt(int64(x), 10)
}

func mapStr(m map[string]float64) string {
	var parts []string
	for i, s := range signals {
		if v, ok := m[s]; ok {
			parts = append(parts, fmt.Sprintf("%d:%s", i, fnum(v)))
		}
	}
	known := 0
	for _, s := range signals {
		if _, ok := m[s]; ok {
			known++
		}
	}
	if known != len(m) {
		parts = append(parts, "unknown-signal")
	}
	if len(parts) == 0 {
		return "-"
	}
	return strings.Join(parts, ",")
}

func (r *runner) state() string {
	lu, cur, last := r.u.State()
	l := make([]string, len(signals))
	for i, s := range signals {
		l[i] = fnum(lu[s])
	}
	return fmt.Sprintf("cur=%s last=%s lu=%s", mapStr(cur), mapStr(last), strings.Join(l, ","))
}

// decode turns the OTLP-JSON payload back into "sig:v1+v2,…" (values ascending per signal).
func (r *runner) decode(data []byte) string {
	m, err := (&pmetric.JSONUnmarshaler{}).UnmarshalMetrics(data)
	if err != nil {
		return "undecodable"
	}
	pts := map[int][]int64{}
	bad := ""
	rms := m.ResourceMetrics()
	if rms.Len() != 1 {
		bad = "resource-count"
	}
	for i := 0; i < rms.Len(); i++ {
		rm := rms.At(i)
		if v, ok := rm.Resource().Attributes().Get("service.name"); !ok || v.Str() != "refinery" {
			bad = "service-name"
		}
		for j := 0; j < rm.ScopeMetrics().Len(); j++ {
			ms := rm.ScopeMetrics().At(j).Metrics()
			for k := 0; k < ms.Len(); k++ {
				mt := ms.At(k)
				if mt.Type() != pmetric.MetricTypeSum || mt.Sum().AggregationTemporality() != pmetric.AggregationTemporalityDelta {
					bad = "not-delta-sum"
					continue
				}
				dps := mt.Sum().DataPoints()
				for d := 0; d < dps.Len(); d++ {
					dp := dps.At(d)
					attr := ""
					if v, ok := dp.Attributes().Get("signal"); ok {
						attr = v.Str()
					}
					idx := -1
					for si, s := range signals {
						mn, sa := agent.VerifSignalMetric(s)
						if mn == mt.Name() && sa == attr {
							idx = si
						}
					}
					if idx < 0 || dp.ValueType() != pmetric.NumberDataPointValueTypeInt {
						bad = "unknown-point"
						continue
					}
					if !r.noStamp && dp.Timestamp().AsTime().UnixNano() != r.clock.Now().UnixNano() {
						bad = "timestamp"
					}
					pts[idx] = append(pts[idx], dp.IntValue())
				}
			}
		}
	}
	if bad != "" {
		return "bad-payload:" + bad
	}
	var parts []string
	for i := range signals {
		if vs, ok := pts[i]; ok {
			sort.Slice(vs, func(a, b int) bool { return vs[a] < vs[b] })
			ss := make([]string, len(vs))
			for k, v := range vs {
				ss[k] = strconv.FormatInt(v, 10)
			}
			parts = append(parts, fmt.Sprintf("%d:%s", i, strings.Join(ss, "+")))
		}
	}
	if len(parts) == 0 {
		return "-"
	}
	return strings.Join(parts, ",")
}

func errClass(err error) string {
	switch {
	case err == nil:
		return "nil"
	case agent.VerifIsNoData(err):
		return "nodata"
	case errors.Is(err, errSend):
		return "senderr"
	case errors.Is(err, types.ErrCustomMessagePending):
		return "pending"
	case errors.Is(err, context.Canceled):
		return "ctx"
	case strings.Contains(err.Error(), "invalid negative value"):
		return "negative"
	case strings.Contains(err.Error(), "too large"):
		return "toolarge"
	}
	return "other:" + kit.Enc(err.Error())
}

func (r *runner) addIdx(sig string, reading string) bool {
	i, err1 := strconv.Atoi(sig)
	v, err2 := strconv.ParseInt(reading, 10, 64)
	if err1 != nil || err2 != nil || i < 0 || i >= len(signals) || v < 0 {
		return false
	}
	r.u.Add(signals[i], float64(v))
	return true
}

func (r *runner) Do(op []string) (string, bool) {
	r.clock.Advance(15 * time.Second)
	switch {
	case op[0] == "add" && len(op) == 3:
		if !r.addIdx(op[1], op[2]) {
			return "bad-op", true
		}
		return r.state(), true
	case op[0] == "report" && len(op) == 1:
		data, err := r.u.NewReport(r.clock.Now())
		if err != nil {
			return errClass(err) + " " + r.state(), true
		}
		return "ok r=" + r.decode(data) + " " + r.state(), true
	case op[0] == "sent" && len(op) == 1:
		r.u.CompleteSend()
		return r.state(), true
	case op[0] == "fail" && len(op) == 1:
		return r.state(), true
	case op[0] == "tick" && len(op) == 3:
		for _, c := range op[1] {
			if !strings.ContainsRune("aApPe", c) {
				return "bad-op", true
			}
		}
		if r.dead { // after shutdown the loop's select is a race; it is not run
			return "res=dead sends=0 made=none got=none " + r.state(), true
		}
		*r.fc = fakeClient{script: op[1], onHang: func() { r.dead = true; r.u.Close() }}
		okMids := true
		if op[2] != "-" {
			mids := strings.Split(op[2], ",")
			r.fc.onFirst = func() {
				for _, m := range mids {
					p := strings.Split(m, ":")
					if len(p) != 2 || !r.addIdx(p[0], p[1]) {
						okMids = false
					}
				}
			}
		}
		err := r.u.SendUsageReport()
		if !okMids {
			return "bad-op", true
		}
		made, got := "none", "none"
		if r.fc.calls > 0 {
			made = r.decode(r.fc.first)
		}
		switch len(r.fc.accepted) {
		case 0:
		case 1:
			got = r.decode(r.fc.accepted[0])
			if string(r.fc.accepted[0]) != string(r.fc.first) {
				got = "retry-differs:" + got
			}
		default:
			got = "accepted-twice"
		}
		if r.fc.badCap {
			got = "wrong-capability"
		}
		return fmt.Sprintf("res=%s sends=%d made=%s got=%s %s", errClass(err), r.fc.calls, made, got, r.state()), true
	}
	return "bad-op", true
}

func main() { kit.Main(comp{}, nil) }
