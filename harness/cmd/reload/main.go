//go:build verif

// Harness for config reloads (property C27): the real config.NewConfig / fileConfig.Reload /
// RegisterReloadCallback over real files, the two trigger paths of internal/configwatcher
// (timer: Config.Reload() as monitor() calls it; pubsub: the real SubscriptionListener), and a
// concurrency stress operation that is judged only by the monitor.
//
// Content tokens (what a file holds):
//
//	config file:  ok:<v>:<n>   valid, Traces.SendDelay=<v>s, trailing comment nonce <n>
//	              warn:<v>:<n> the same plus a deprecated setting (validation *warning*)
//	              bad:<k>:<v>  rejected: k=0 unknown field, 1 wrong datatype, 2 YAML syntax error,
//	                                     3 unknown group
//	              gone         the path does not exist (unreadable)
//	rules file:   ok:<v>:<n>   valid, DeterministicSampler SampleRate=<v>
//	              bad:<k>:<v>  rejected: k=0 no __default__, 1 unknown top-level key, 2 syntax error,
//	                                     3 unknown sampler field
//	              gone
//
// ops:  wc <tok> | wr <tok>        replace the config / rules file (atomic rename)
//
//	start                      config.NewConfig on the two files, then register the initial listeners
//	reg                        RegisterReloadCallback(one more listener)
//	reload t|p|x               t: Config.Reload() (timer path), p: SubscriptionListener(valid message),
//	                           x: SubscriptionListener(unparseable message)
//	stress <G> <R> <mode>      R rounds; mode 0: every round replaces the config file once and lets G
//	                           goroutines call Reload; the harness holds f.mux until all G have read and
//	                           built that same content and are parked before the critical section, then
//	                           releases them together (same-snapshot overlap).  mode 1: a writer replaces
//	                           the file while G triggers run, then one late trigger (stale-snapshot overlap)
//
//	await | hold               (kind=watcher only: header `kind=watcher ivl=<ms>`; `start` then also starts a
//	                           LocalPubSub and the real ConfigWatcher, whose monitor goroutine calls Reload
//	                           every ConfigReloadInterval of real time)  await: poll until the running config
//	                           is the content on disk, then let two more reload calls pass;  hold: poll until
//	                           the watcher made three more failing reload calls (`ticks=ok`, else `ticks=few`)
//
//	nested <A> <B>             write config A and Reload; listener 0, while being notified of that reload,
//	                           writes config B and starts a second Reload (waits <= 2 s for it), then returns
//
// Config tokens ok/warn with nonce 10 or 11 additionally set every field the config metadata marks
// `reload: true` (that the validator accepts, see reloadExtras) to a non-default value, variant 0/1.
//
// `g=` lists the getters of config.Config (all no-argument methods by reflection, three with fixed
// arguments) whose result on the running config differs from a fresh NewConfig of the same files.
//
// obs of start/reload/reg:
//
//	su=<ok|warn|fail> err=<none|warn|fail|logged|-> ap=<cfgtok>/<rulestok>|- send=<s> rate=<r> n=<c0,c1,…>
//
// `su` is what a real startup (a fresh NewConfig on the same files, same options) says right now.
package main

import (
	"context"
	"crypto/md5"
	"encoding/hex"
	"errors"
	"fmt"
	"os"
	"path/filepath"
	"reflect"
	"runtime"
	"sort"
	"strconv"
	"strings"
	"sync"
	"sync/atomic"
	"time"

	"github.com/honeycombio/refinery/config"
	"github.com/honeycombio/refinery/internal/configwatcher"
	kit "github.com/honeycombio/refinery/internal/verifkit"
	"github.com/honeycombio/refinery/logger"
	"github.com/honeycombio/refinery/pubsub"
	"go.opentelemetry.io/otel/trace/noop"
)

type comp struct{}

const tmpRoot = "/verif/.cache/reload-tmp"

// ---------------------------------------------------------------- content templates

func depBlock(dep string) string {
	switch dep {
	case "cachecap":
		return "Collection:\n  CacheCapacity: 10000\n"
	default: // "prefix"
		return "RedisPeerManagement:\n  Prefix: legacy\n"
	}
}

// ivlLine is "" or the `ConfigReloadInterval` line of the running case (kind=watcher): the real
// ConfigWatcher.monitor ticks on real time with that period.
var ivlLine = ""

// ---- reloadable fields, taken from the config package's own metadata (`reload: true`)

type extraField struct {
	group, name string
	val         func(x int) string // YAML scalar / flow value for variant x (0 or 1), never the default
}

var (
	extrasOnce sync.Once
	extras     []extraField
)

// candidateExtras synthesises a non-default value per field type.  Skipped (no generic way to make a
// value the validator accepts): url, memorysize, percentage, float, strings with a format or without
// choices, arrays of non-strings, fields with requiredWith/requiredInGroup/conflictsWith validations,
// deprecated fields and groups (they would add a warning), and Traces.SendDelay (the template sets it).
func candidateExtras() []extraField {
	md, err := config.LoadConfigMetadata()
	if err != nil {
		return nil
	}
	var out []extraField
	for _, g := range md.Groups {
		if g.LastVersion != "" || g.DeprecationText != "" {
			continue
		}
		for _, f := range g.Fields {
			if !f.Reload || f.LastVersion != "" || f.DeprecationText != "" || (g.Name == "Traces" && f.Name == "SendDelay") {
				continue
			}
			skip := false
			minimum := ""
			for _, v := range f.Validations {
				switch v.Type {
				case "minimum":
					minimum = fmt.Sprint(v.Arg)
				case "elementType":
					if fmt.Sprint(v.Arg) != "string" {
						skip = true
					}
				case "notempty", "maximum":
				default:
					skip = true
				}
			}
			if skip {
				continue
			}
			def := ""
			if f.Default != nil {
				def = fmt.Sprint(f.Default)
			}
			var val func(x int) string
			switch f.Type {
			case "bool":
				val = func(x int) string { return strconv.FormatBool(x == 0) }
			case "defaulttrue":
				val = func(x int) string { return strconv.FormatBool(x != 0) }
			case "int":
				base, _ := strconv.Atoi(def)
				if m, err := strconv.Atoi(minimum); err == nil && m > base {
					base = m
				}
				val = func(x int) string { return strconv.Itoa(base + 7 + x) }
			case "duration":
				base, _ := time.ParseDuration(def)
				if m, err := time.ParseDuration(minimum); err == nil && m > base {
					base = m
				}
				val = func(x int) string { return (base + time.Duration(3+x)*time.Second).String() }
			case "stringarray":
				val = func(x int) string { return fmt.Sprintf("[\"verif.f%d\", \"verif.g\"]", x) }
			case "map":
				val = func(x int) string { return fmt.Sprintf("{verifkey: \"v%d\"}", x) }
			case "string":
				if len(f.Choices) < 2 {
					continue
				}
				ch := f.Choices
				val = func(x int) string { return ch[(1+x)%len(ch)] }
			default:
				continue
			}
			out = append(out, extraField{g.Name, f.Name, val})
		}
	}
	return out
}

func renderCfg(sendDelay, nonce, dep string, warn bool, fields []extraField, x int) []byte {
	type grp struct {
		name  string
		lines []string
	}
	var groups []*grp
	get := func(n string) *grp {
		for _, g := range groups {
			if g.name == n {
				return g
			}
		}
		g := &grp{name: n}
		groups = append(groups, g)
		return g
	}
	gen := get("General")
	gen.lines = append(gen.lines, "ConfigurationVersion: 2")
	if ivlLine != "" {
		gen.lines = append(gen.lines, strings.TrimSpace(ivlLine))
	}
	get("Traces").lines = append(get("Traces").lines, "SendDelay: "+sendDelay+"s")
	if warn {
		if dep == "cachecap" {
			get("Collection").lines = append(get("Collection").lines, "CacheCapacity: 10000")
		} else {
			get("RedisPeerManagement").lines = append(get("RedisPeerManagement").lines, "Prefix: legacy")
		}
	}
	for _, f := range fields {
		get(f.group).lines = append(get(f.group).lines, f.name+": "+f.val(x))
	}
	var b strings.Builder
	for _, g := range groups {
		b.WriteString(g.name + ":\n")
		for _, l := range g.lines {
			b.WriteString("  " + l + "\n")
		}
	}
	b.WriteString("# " + nonce + "\n")
	return []byte(b.String())
}

// reloadExtras: the candidates the real validator accepts, found by adding them one at a time to a
// minimal config and asking the real NewConfig (once per process).
func reloadExtras() []extraField {
	extrasOnce.Do(func() {
		dir := filepath.Join(tmpRoot, fmt.Sprintf("%d-extras", os.Getpid()))
		os.MkdirAll(dir, 0o755)
		defer os.RemoveAll(dir)
		cp, rp := filepath.Join(dir, "cfg.yaml"), filepath.Join(dir, "rules.yaml")
		rb, _ := rulesBytes("ok:1:0")
		os.WriteFile(rp, rb, 0o644)
		opts := &config.CmdEnv{ConfigLocations: []string{cp}, RulesLocations: []string{rp}}
		saved := ivlLine
		ivlLine = ""
		defer func() { ivlLine = saved }()
		valid := func(fs []extraField, x int) bool {
			os.WriteFile(cp, renderCfg("1", "0", "prefix", false, fs, x), 0o644)
			c, err := config.NewConfig(opts)
			return c != nil && err == nil
		}
		var kept []extraField
		for _, f := range candidateExtras() {
			try := append(append([]extraField{}, kept...), f)
			if valid(try, 0) {
				kept = try
			}
		}
		if !valid(kept, 1) {
			var k2 []extraField
			for _, f := range kept {
				try := append(append([]extraField{}, k2...), f)
				if valid(try, 1) && valid(try, 0) {
					k2 = try
				}
			}
			kept = k2
		}
		extras = kept
	})
	return extras
}

func cfgBytes(tok, dep string) ([]byte, bool) {
	p := strings.Split(tok, ":")
	switch p[0] {
	case "ok", "warn":
		// nonce 10/11: the file also sets every reloadable field (variant 0/1) to a non-default value
		var fs []extraField
		x := 0
		if n, _ := strconv.Atoi(p[2]); n == 10 || n == 11 {
			fs, x = reloadExtras(), n-10
		}
		return renderCfg(p[1], p[2], dep, p[0] == "warn", fs, x), true
	case "bad":
		switch p[1] {
		case "0":
			return []byte(fmt.Sprintf("General:\n  ConfigurationVersion: 2\nTraces:\n  SendDelay: %ss\n  NoSuchField: 1\n", p[2])), true
		case "1":
			return []byte(fmt.Sprintf("General:\n  ConfigurationVersion: 2\nTraces:\n  SendDelay: %sparsecs\n", p[2])), true
		case "2":
			return []byte(fmt.Sprintf("General:\n  ConfigurationVersion: [2\nTraces:\n  SendDelay: %ss\n", p[2])), true
		default:
			return []byte(fmt.Sprintf("General:\n  ConfigurationVersion: 2\nTraces:\n  SendDelay: %ss\nNoSuchGroup:\n  X: 1\n", p[2])), true
		}
	}
	return nil, false // gone
}

func rulesBytes(tok string) ([]byte, bool) {
	p := strings.Split(tok, ":")
	switch p[0] {
	case "ok":
		return []byte(fmt.Sprintf("RulesVersion: 2\nSamplers:\n  __default__:\n    DeterministicSampler:\n      SampleRate: %s\n# %s\n", p[1], p[2])), true
	case "bad":
		switch p[1] {
		case "0":
			return []byte(fmt.Sprintf("RulesVersion: 2\nSamplers:\n  other:\n    DeterministicSampler:\n      SampleRate: %s\n", p[2])), true
		case "1":
			return []byte(fmt.Sprintf("RulesVersion: 2\nExtra: 1\nSamplers:\n  __default__:\n    DeterministicSampler:\n      SampleRate: %s\n", p[2])), true
		case "2":
			return []byte(fmt.Sprintf("RulesVersion: 2\nSamplers: {\n  __default__:\n    DeterministicSampler:\n      SampleRate: %s\n", p[2])), true
		default:
			return []byte(fmt.Sprintf("RulesVersion: 2\nSamplers:\n  __default__:\n    DeterministicSampler:\n      SampleRate: %s\n      NoSuchField: 3\n", p[2])), true
		}
	}
	return nil, false
}

// ---------------------------------------------------------------- generator

func genCfgTok(r *kit.Rng, cur string, nonce *int) string {
	*nonce++
	switch r.Pick(30, 22, 18, 8, 12) {
	case 0:
		if r.Chance(35) { // every reloadable field set (variant 0/1), see reloadExtras
			return fmt.Sprintf("ok:%d:%d", 1+r.Intn(4), 10+r.Intn(2))
		}
		return fmt.Sprintf("ok:%d:%d", 1+r.Intn(4), r.Intn(2)) // small space: repeats (unchanged / back to an old content) are common
	case 1:
		if r.Chance(25) {
			return fmt.Sprintf("warn:%d:%d", 1+r.Intn(4), 10+r.Intn(2))
		}
		return fmt.Sprintf("warn:%d:%d", 1+r.Intn(4), r.Intn(2))
	case 2:
		return fmt.Sprintf("bad:%d:%d", r.Intn(4), 1+r.Intn(4))
	case 3:
		return "gone"
	default:
		if cur == "?" {
			return fmt.Sprintf("ok:%d:%d", 1+r.Intn(4), r.Intn(2))
		}
		return cur // rewrite of identical bytes
	}
}

func genRulesTok(r *kit.Rng, cur string) string {
	switch r.Pick(45, 25, 10, 20) {
	case 0:
		return fmt.Sprintf("ok:%d:%d", 1+r.Intn(4), r.Intn(2))
	case 1:
		return fmt.Sprintf("bad:%d:%d", r.Intn(4), 1+r.Intn(4))
	case 2:
		return "gone"
	default:
		return cur
	}
}

// genWatcher: the real ConfigWatcher drives the reloads on its own timer.  valid change -> await;
// then one or more rejected contents (each held for several ticks) -> a valid change -> await.
func genWatcher(r *kit.Rng, tier string) kit.Case {
	ls := 1 + r.Intn(3)
	n := 0
	okC := func() string { n++; return fmt.Sprintf("ok:%d:%d", 1+r.Intn(4), 200+n) }
	okR := func() string { n++; return fmt.Sprintf("ok:%d:%d", 1+r.Intn(4), 200+n) }
	ops := []string{"wc " + okC(), "wr " + okR(), "start"}
	validChange := func() {
		if r.Chance(50) {
			ops = append(ops, "wc "+okC())
		} else {
			ops = append(ops, "wr "+okR())
		}
		ops = append(ops, "await")
	}
	validChange()
	rounds := 1
	if tier == "thorough" {
		rounds = 1 + r.Intn(2)
	}
	for i := 0; i < rounds; i++ {
		rej := 1 + r.Intn(2)
		onCfg := r.Chance(50)
		for j := 0; j < rej; j++ {
			bad := fmt.Sprintf("bad:%d:%d", r.Intn(4), 1+r.Intn(4))
			if r.Chance(20) {
				bad = "gone"
			}
			if onCfg {
				ops = append(ops, "wc "+bad)
			} else {
				ops = append(ops, "wr "+bad)
			}
			ops = append(ops, "hold")
		}
		// the repaired file (and sometimes only the other one first: still rejected)
		if r.Chance(25) {
			if onCfg {
				ops = append(ops, "wr "+okR(), "hold")
			} else {
				ops = append(ops, "wc "+okC(), "hold")
			}
		}
		if onCfg {
			ops = append(ops, "wc "+okC())
		} else {
			ops = append(ops, "wr "+okR())
		}
		ops = append(ops, "await")
		if r.Chance(40) {
			ops = append(ops, "await") // nothing changed: no further notification
		}
	}
	return kit.Case{Header: fmt.Sprintf("kind=watcher ivl=200 dep=prefix ver=none ls=%d", ls), Ops: ops}
}

func (comp) Gen(r *kit.Rng, maxLen int, tier string) kit.Case {
	if r.Chance(3) {
		return genWatcher(r.Fork(), tier)
	}
	dep := "prefix"
	if r.Chance(35) {
		dep = "cachecap"
	}
	ver := "none"
	if r.Chance(35) {
		ver = "v2.5.0" // older than every `lastversion`: deprecated settings warn
	}
	ls := r.Intn(4) // listeners registered right after startup
	var ops []string
	nonce := 0
	c0 := fmt.Sprintf("ok:%d:0", 1+r.Intn(4))
	switch r.Pick(60, 28, 8, 4) {
	case 1:
		c0 = fmt.Sprintf("warn:%d:0", 1+r.Intn(4))
	case 2:
		c0 = fmt.Sprintf("bad:%d:1", r.Intn(4))
	case 3:
		c0 = "gone"
	}
	r0 := fmt.Sprintf("ok:%d:0", 1+r.Intn(4))
	if r.Chance(6) {
		r0 = fmt.Sprintf("bad:%d:1", r.Intn(4))
	}
	ops = append(ops, "wc "+c0, "wr "+r0, "start")
	curC, curR := c0, r0
	n := 3 + r.Intn(maxLen)
	trig := func() string {
		switch r.Pick(55, 38, 7) {
		case 0:
			return "reload t"
		case 1:
			return "reload p"
		}
		return "reload x"
	}
	stressed := false
	for i := 0; i < n; i++ {
		switch r.Pick(30, 16, 40, 6, 2, 5) {
		case 5:
			// a listener callback of the reload that applies A rewrites the file to B and triggers again
			nonce++
			a := fmt.Sprintf("ok:%d:%d", 1+r.Intn(4), 300+nonce)
			b := fmt.Sprintf("ok:%d:%d", 1+r.Intn(4), 400+nonce)
			if r.Chance(15) {
				b = genCfgTok(r, a, &nonce)
			}
			ops = append(ops, "nested "+a+" "+b)
			curC = "?"
		case 0:
			curC = genCfgTok(r, curC, &nonce)
			ops = append(ops, "wc "+curC)
			if r.Chance(70) {
				ops = append(ops, trig())
			}
		case 1:
			curR = genRulesTok(r, curR)
			ops = append(ops, "wr "+curR)
			if r.Chance(70) {
				ops = append(ops, trig())
			}
		case 2:
			ops = append(ops, trig())
		case 3:
			ops = append(ops, "reg")
		case 4:
			if !stressed {
				stressed = true
				g, rounds := 2+r.Intn(3), 2+r.Intn(3)
				if tier == "thorough" {
					g, rounds = 4+r.Intn(9), 4+r.Intn(9)
				}
				ops = append(ops, fmt.Sprintf("stress %d %d %d", g, rounds, r.Intn(2)))
				curC = "?" // the harness reports which content the stress ended on
				ops = append(ops, "reload t")
			}
		}
	}
	ops = append(ops, "reload t")
	hdr := fmt.Sprintf("dep=%s ver=%s ls=%d", dep, ver, ls)
	if m := os.Getenv("VERIF_RELOAD_MODEL"); m != "" { // development aid: replay against the repaired-shape model
		hdr += " model=" + m
	}
	return kit.Case{Header: hdr, Ops: ops}
}

// ---------------------------------------------------------------- runner

type runner struct {
	dir      string
	dep, ver string
	ls       int
	cpath    string
	rpath    string
	opts     *config.CmdEnv
	cfg      config.Config
	cw       *configwatcher.ConfigWatcher
	lg       *logger.MockLogger
	hashTok  map[string]string // md5 hex -> content token (computed here from the bytes written)
	counts   []*int64
	stressMu sync.Mutex
	perHash  []map[string]int // per listener: notifications per config hash (stress only)
	nonce    int
	curC     string // tokens last written (for the verdict cache only)
	curR     string
	hookMu   sync.Mutex
	hook     func() // one-shot, run by listener 0 inside its next notification
	watcher  bool   // kind=watcher: reloads come from the real ConfigWatcher's timer
	ivl      time.Duration
	cc       *countingConfig
	ps       *pubsub.LocalPubSub
}

var caseSeq int64

func (comp) NewCase(h []string) kit.Runner {
	ls, _ := strconv.Atoi(kit.KV(h, "ls"))
	id := atomic.AddInt64(&caseSeq, 1)
	dir := filepath.Join(tmpRoot, fmt.Sprintf("%d-%d", os.Getpid(), id))
	os.MkdirAll(dir, 0o755)
	r := &runner{dir: dir, dep: kit.KV(h, "dep"), ver: kit.KV(h, "ver"), ls: ls,
		cpath: filepath.Join(dir, "cfg.yaml"), rpath: filepath.Join(dir, "rules.yaml"),
		hashTok: map[string]string{}}
	if r.dep == "" {
		r.dep = "prefix"
	}
	r.opts = &config.CmdEnv{ConfigLocations: []string{r.cpath}, RulesLocations: []string{r.rpath}}
	ivlLine = ""
	if kit.KV(h, "kind") == "watcher" {
		ms, _ := strconv.Atoi(kit.KV(h, "ivl"))
		if ms <= 0 {
			ms = 200
		}
		r.watcher, r.ivl = true, time.Duration(ms)*time.Millisecond
		ivlLine = fmt.Sprintf("  ConfigReloadInterval: %dms\n", ms)
	}
	return r
}

func (r *runner) Close() {
	if r.watcher && r.cc != nil {
		r.cw.Stop()
		r.ps.Stop()
	}
	ivlLine = ""
	os.RemoveAll(r.dir)
}

// countingConfig is the real file config as the watcher sees it, counting the Reload calls the
// watcher makes (timer ticks and pubsub notices) and how many of them returned an error.
type countingConfig struct {
	config.Config
	calls, failed atomic.Int64
}

func (c *countingConfig) Reload(opts ...config.ReloadedConfigDataOption) error {
	err := c.Config.Reload(opts...)
	if err != nil {
		c.failed.Add(1)
	}
	c.calls.Add(1)
	return err
}

func (r *runner) appliedPair() string {
	ch, rh := r.cfg.GetHashes()
	return r.tok(ch) + "/" + r.tok(rh)
}

func (r *runner) countsSnapshot() []int64 {
	out := make([]int64, len(r.counts))
	for i, c := range r.counts {
		out[i] = atomic.LoadInt64(c)
	}
	return out
}

// pollUntil polls cond every few milliseconds for at most max (a bound on how long a failure costs,
// not a pass criterion).
func pollUntil(max time.Duration, cond func() bool) bool {
	deadline := time.Now().Add(max)
	for {
		if cond() {
			return true
		}
		if time.Now().After(deadline) {
			return false
		}
		time.Sleep(5 * time.Millisecond)
	}
}

func (r *runner) write(path string, data []byte, ok bool, tok string) {
	if !ok {
		os.Remove(path)
		return
	}
	sum := md5.Sum(data)
	r.hashTok[hex.EncodeToString(sum[:])] = tok
	tmp := path + ".tmp"
	if err := os.WriteFile(tmp, data, 0o644); err != nil {
		panic(err)
	}
	if err := os.Rename(tmp, path); err != nil {
		panic(err)
	}
}

func (r *runner) newConfig() (config.Config, error) {
	if r.ver != "" && r.ver != "none" {
		return config.NewConfig(r.opts, r.ver)
	}
	return config.NewConfig(r.opts)
}

func errClass(err error) string {
	if err == nil {
		return "none"
	}
	var fe *config.FileConfigError
	if errors.As(err, &fe) && !fe.HasErrors() {
		return "warn"
	}
	return "fail"
}

// what a real startup says about the files as they are now (NewConfig is a function of the bytes
// on disk and the options, so the verdict is remembered per content pair within a run)
var verdictCache = map[string]string{}

// freshCache: the config a fresh NewConfig produced for a content pair (nil when startup fails)
var freshCache = map[string]config.Config{}

func (r *runner) contentKey() string {
	return ivlLine + "|" + r.dep + "|" + r.ver + "|" + r.curC + "|" + r.curR
}

var configIface = reflect.TypeOf((*config.Config)(nil)).Elem()

// canon makes results of two loads of the same files comparable: GetConfigMetadata carries the file
// locations (the fresh load may come from another case's directory).
func canon(name string, v []reflect.Value) []any {
	out := make([]any, len(v))
	for i := range v {
		out[i] = v[i].Interface()
		if name == "GetConfigMetadata" {
			if md, ok := out[i].([]config.ConfigMetadata); ok {
				cp := append([]config.ConfigMetadata{}, md...)
				for j := range cp {
					cp[j].ID = ""
				}
				out[i] = cp
			}
		}
	}
	return out
}

// getterDiff calls every method of the config.Config interface that takes no argument (by
// reflection over the interface's method set), and the three that take arguments on fixed arguments,
// on the running config and on a fresh load of the same files; it returns the names that differ.
func getterDiff(running, fresh config.Config) []string {
	var diff []string
	rv, fv := reflect.ValueOf(running), reflect.ValueOf(fresh)
	for i := 0; i < configIface.NumMethod(); i++ {
		m := configIface.Method(i)
		var args []reflect.Value
		switch {
		case m.Type.NumIn() == 0 && m.Type.NumOut() > 0:
		case m.Name == "GetSamplerConfigForDestName":
			args = []reflect.Value{reflect.ValueOf("anything")}
		case m.Name == "GetSamplingKeyFieldsForDestName":
			args = []reflect.Value{reflect.ValueOf("anything")}
		case m.Name == "DetermineSamplerKey":
			args = []reflect.Value{reflect.ValueOf("key"), reflect.ValueOf("env"), reflect.ValueOf("dataset")}
		default:
			continue // Reload, RegisterReloadCallback
		}
		a := canon(m.Name, rv.MethodByName(m.Name).Call(args))
		b := canon(m.Name, fv.MethodByName(m.Name).Call(args))
		if !reflect.DeepEqual(a, b) {
			diff = append(diff, m.Name)
		}
	}
	sort.Strings(diff)
	return diff
}

// getters: "ok", or the getters of the running config that do not show what a fresh load of the
// files it claims to run (same hashes) shows.
func (r *runner) getters() string {
	fresh := freshCache[r.contentKey()]
	if r.cfg == nil || fresh == nil || r.curC == "" || r.curC == "?" {
		return "ok"
	}
	ch, rh := r.cfg.GetHashes()
	fc, fr := fresh.GetHashes()
	if ch != fc || rh != fr {
		return "ok" // the running config is not the content on disk: nothing to compare with
	}
	if d := getterDiff(r.cfg, fresh); len(d) > 0 {
		return strings.Join(d, ",")
	}
	return "ok"
}

func (r *runner) startupVerdict() string {
	key := r.contentKey()
	if v, ok := verdictCache[key]; ok && r.curC != "" && r.curR != "" && r.curC != "?" {
		return v
	}
	c, err := r.newConfig()
	freshCache[key] = c
	v := "ok"
	switch {
	case c == nil:
		v = "fail"
	case err != nil:
		v = "warn"
	}
	verdictCache[key] = v
	return v
}

func (r *runner) tok(h string) string {
	if t, ok := r.hashTok[h]; ok {
		return t
	}
	return "?"
}

func (r *runner) state(su, errs string) string {
	if r.cfg == nil {
		return fmt.Sprintf("su=%s err=%s ap=- send=- rate=- n=- g=ok", su, errs)
	}
	ch, rh := r.cfg.GetHashes()
	send := int64(time.Duration(r.cfg.GetTracesConfig().GetSendDelay()) / time.Second)
	rate := "-"
	if sc, _ := r.cfg.GetSamplerConfigForDestName("anything"); sc != nil {
		if d, ok := sc.(*config.DeterministicSamplerConfig); ok {
			rate = strconv.Itoa(d.SampleRate)
		}
	}
	ns := "-"
	if len(r.counts) > 0 {
		s := make([]string, len(r.counts))
		for i, c := range r.counts {
			s[i] = strconv.FormatInt(atomic.LoadInt64(c), 10)
		}
		ns = strings.Join(s, ",")
	}
	return fmt.Sprintf("su=%s err=%s ap=%s/%s send=%d rate=%s n=%s g=%s", su, errs, r.tok(ch), r.tok(rh), send, rate, ns, r.getters())
}

func (r *runner) addListener() {
	c := new(int64)
	idx := len(r.counts)
	r.counts = append(r.counts, c)
	r.perHash = append(r.perHash, map[string]int{})
	r.cfg.RegisterReloadCallback(func(cfgHash, rulesHash string) {
		atomic.AddInt64(c, 1)
		r.stressMu.Lock()
		r.perHash[idx][cfgHash]++
		r.stressMu.Unlock()
		if idx == 0 {
			r.hookMu.Lock()
			h := r.hook
			r.hook = nil
			r.hookMu.Unlock()
			if h != nil {
				h()
			}
		}
	})
}

func (r *runner) Do(op []string) (string, bool) {
	switch op[0] {
	case "wc":
		b, ok := cfgBytes(op[1], r.dep)
		r.write(r.cpath, b, ok, op[1])
		r.curC = op[1]
		return "", false
	case "wr":
		b, ok := rulesBytes(op[1])
		r.write(r.rpath, b, ok, op[1])
		r.curR = op[1]
		return "", false
	case "start":
		if r.cfg != nil {
			return "bad-op", true
		}
		c, err := r.newConfig()
		if c == nil {
			return r.state("fail", errClass(err)), true
		}
		r.startupVerdict() // a second, independent load to compare the getters with
		r.cfg = c
		r.lg = &logger.MockLogger{}
		if r.watcher {
			// wired as cmd/refinery wires it: the file config, a LocalPubSub, the ConfigWatcher
			// started (its monitor goroutine ticks on real time, there is no clock to inject there)
			r.cc = &countingConfig{Config: c}
			r.ps = &pubsub.LocalPubSub{Config: c}
			r.ps.Start()
			r.cw = &configwatcher.ConfigWatcher{Config: r.cc, PubSub: r.ps, Logger: r.lg}
			if err := r.cw.Start(); err != nil {
				panic(err)
			}
		} else {
			r.cw = &configwatcher.ConfigWatcher{Config: c, Logger: r.lg, Tracer: noop.NewTracerProvider().Tracer("verif")}
		}
		for i := 0; i < r.ls; i++ {
			r.addListener()
		}
		su := "ok"
		if err != nil {
			su = "warn"
		}
		return r.state(su, errClass(err)), true
	case "reg":
		if r.cfg == nil {
			return "nostart", true
		}
		r.addListener()
		return r.state("-", "-"), true
	case "reload":
		if r.cfg == nil {
			return "nostart", true
		}
		su := r.startupVerdict()
		switch op[1] {
		case "t":
			err := r.cfg.Reload()
			return r.state(su, errClass(err)), true
		case "p", "x":
			msg := time.Unix(1700000000, 0).UTC().Format(time.RFC3339)
			if op[1] == "x" {
				msg = "not-a-time"
			}
			before := len(r.lg.Events)
			r.cw.SubscriptionListener(context.Background(), msg)
			e := "none"
			if len(r.lg.Events) > before {
				e = "logged"
			}
			return r.state(su, e), true
		}
	case "show": // development aid: the bytes a config token stands for
		b, _ := cfgBytes(op[1], r.dep)
		return kit.Enc(string(b)), true
	case "nested":
		// reload #1 applies A; inside listener 0's notification the file becomes B and reload #2 is
		// triggered (as the pubsub notice of a peer, or the next tick, during a slow callback)
		if r.cfg == nil {
			return "nostart", true
		}
		if len(r.counts) == 0 {
			return "nolistener", true
		}
		a, okA := cfgBytes(op[1], r.dep)
		r.write(r.cpath, a, okA, op[1])
		r.curC = op[1]
		var fired atomic.Bool
		done2 := make(chan struct{})
		r.hookMu.Lock()
		r.hook = func() {
			fired.Store(true)
			b, okB := cfgBytes(op[2], r.dep)
			r.write(r.cpath, b, okB, op[2])
			go func() { defer close(done2); r.cfg.Reload() }()
			select { // bounded: a Reload that is serialized behind #1 cannot return before we do
			case <-done2:
			case <-time.After(2 * time.Second):
			}
		}
		r.hookMu.Unlock()
		r.cfg.Reload()
		r.hookMu.Lock()
		r.hook = nil
		r.hookMu.Unlock()
		f := 0
		if fired.Load() {
			<-done2
			r.curC = op[2]
			f = 1
		}
		return r.state(r.startupVerdict(), "-") + fmt.Sprintf(" fired=%d", f), true
	case "await":
		// the watcher's own timer must bring the running config to the content on disk
		if r.cfg == nil || !r.watcher {
			return "nostart", true
		}
		su := r.startupVerdict()
		want := r.curC + "/" + r.curR
		before := r.countsSnapshot()
		changed := r.appliedPair() != want
		calls0 := r.cc.calls.Load()
		if changed {
			pollUntil(8*time.Second, func() bool { return r.appliedPair() == want })
			// every listener told (callbacks run right after the assignment)
			pollUntil(2*time.Second, func() bool {
				for i, c := range r.countsSnapshot() {
					if c <= before[i] {
						return false
					}
				}
				return true
			})
			calls0 = r.cc.calls.Load()
		}
		// let two more reload calls go by so that a second notification would show
		pollUntil(3*time.Second, func() bool { return r.cc.calls.Load() >= calls0+2 })
		return r.state(su, "-"), true
	case "hold":
		// content that startup rejects is on disk: let the watcher tick over it several times
		if r.cfg == nil || !r.watcher {
			return "nostart", true
		}
		su := r.startupVerdict()
		f0 := r.cc.failed.Load()
		// three failed reloads: one more than a late pubsub-triggered reload plus one tick could give
		ok := pollUntil(10*time.Second, func() bool { return r.cc.failed.Load() >= f0+3 })
		t := "ok"
		if !ok {
			t = "few"
		}
		return r.state(su, "-") + " ticks=" + t, true
	case "stress":
		if r.cfg == nil {
			return "nostart", true
		}
		g, _ := strconv.Atoi(op[1])
		rounds, _ := strconv.Atoi(op[2])
		mode, _ := strconv.Atoi(op[3])
		return r.stress(g, rounds, mode), true
	}
	return "bad-op", true
}

// stress: see the file comment.  Everything it reports is the implementation's own behaviour:
//
//	dbl   rounds in which some listener was notified more than once for that round's content
//	miss  rounds whose content was applied (it is the running config afterwards) but some listener
//	      was not notified for it
//	lost  rounds after which — all triggers finished, the last one started after the last write —
//	      the running config is not the content on disk although a real startup accepts the files
//	rej   rounds after which the running config changed although a real startup rejects the files
func (r *runner) stress(g, rounds, mode int) string {
	dbl, miss, lost, applied, rej := 0, 0, 0, 0, 0
	last, disk, su := "", "", "-"
	before, _ := r.cfg.GetHashes()
	if rounds < 1 {
		rounds = 1
	}
	for i := 0; i < rounds; i++ {
		var toks []string
		writes := 1
		if mode == 1 {
			writes = 3
		}
		for w := 0; w < writes; w++ {
			r.nonce++
			toks = append(toks, fmt.Sprintf("ok:%d:%d", 1+(r.nonce%4), 100+r.nonce))
		}
		hashOf := func(tok string) string {
			b, _ := cfgBytes(tok, r.dep)
			s := md5.Sum(b)
			return hex.EncodeToString(s[:])
		}
		var wg sync.WaitGroup
		startc := make(chan struct{})
		for j := 0; j < g; j++ {
			wg.Add(1)
			go func() {
				defer wg.Done()
				<-startc
				r.cfg.Reload()
			}()
		}
		b, _ := cfgBytes(toks[0], r.dep)
		r.write(r.cpath, b, true, toks[0])
		if mode == 0 {
			// every trigger reads and builds the same new content; hold f.mux so that they all
			// arrive at Reload's critical section before any of them enters it, then let go
			release, ok := config.VerifReloadHold(r.cfg)
			close(startc)
			if ok {
				waitBlockedInReload(g, 3*time.Second)
			}
			release()
		} else {
			close(startc)
		}
		if mode == 1 {
			for _, t := range toks[1:] {
				time.Sleep(time.Duration(200+100*(r.nonce%5)) * time.Microsecond)
				b, _ := cfgBytes(t, r.dep)
				r.write(r.cpath, b, true, t)
			}
			// a late trigger that starts after the last write, overlapping the earlier ones
			wg.Add(1)
			go func() { defer wg.Done(); r.cfg.Reload() }()
		}
		wg.Wait()
		final := toks[len(toks)-1]
		r.curC = final
		ch, _ := r.cfg.GetHashes()
		// what a real startup says about the files now (the rules file may be one startup rejects:
		// then every one of these reloads must be refused)
		if su = r.startupVerdict(); su == "fail" {
			if ch != before {
				rej++
			}
		} else if ch != hashOf(final) {
			lost++
		}
		r.stressMu.Lock()
		for _, t := range toks {
			h := hashOf(t)
			seen, mx, mn := false, 0, 1<<30
			for l := range r.perHash {
				c := r.perHash[l][h]
				if c > mx {
					mx = c
				}
				if c < mn {
					mn = c
				}
			}
			if len(r.perHash) > 0 {
				seen = mx > 0
				if mx > 1 {
					dbl++
				}
				if (seen || (t == final && ch == h)) && mn == 0 {
					miss++
				}
			}
			if seen || (t == final && ch == h) {
				applied++
			}
		}
		r.stressMu.Unlock()
		last, disk = r.tok(ch), final
		r.curC = final
	}
	_, rh := r.cfg.GetHashes()
	ns := "-"
	if len(r.counts) > 0 {
		s := make([]string, len(r.counts))
		for i, c := range r.counts {
			s[i] = strconv.FormatInt(atomic.LoadInt64(c), 10)
		}
		ns = strings.Join(s, ",")
	}
	// the schedule is the implementation's choice: hand the state it ended in to the model
	kit.Ext("final %s %s %s %s = ok", last, r.tok(rh), ns, disk)
	return fmt.Sprintf("mode=%d rounds=%d listeners=%d su=%s applied=%d dbl=%d miss=%d lost=%d rej=%d", mode, rounds, len(r.counts), su, applied, dbl, miss, lost, rej)
}

// waitBlockedInReload returns once n goroutines are parked on a lock inside fileConfig.Reload
// (or the timeout passed): all of them have finished reading and building.
func waitBlockedInReload(n int, timeout time.Duration) {
	deadline := time.Now().Add(timeout)
	buf := make([]byte, 1<<20)
	for time.Now().Before(deadline) {
		m := runtime.Stack(buf, true)
		if m == len(buf) {
			buf = make([]byte, 2*len(buf))
			continue
		}
		blocked := 0
		for _, g := range strings.Split(string(buf[:m]), "\n\n") {
			if strings.Contains(g, "(*fileConfig).Reload") && strings.Contains(g, "sync.runtime_Semacquire") {
				blocked++
			}
		}
		if blocked >= n {
			return
		}
		time.Sleep(time.Millisecond)
	}
}

func main() { kit.Main(comp{}, nil) }
