//go:build verif

// Harness for the collector's decision timing and memory ejection (properties C03, C07).
//
// A real InMemCollector is assembled from the repository's own mocks and Start()ed (real
// construction of workers, caches, sendTraces goroutine).  The monitor goroutine is stopped and
// every worker is parked with the code's own `pause` channel; the harness then calls the real
// step functions itself, in the order the op file dictates (DESIGN §2.3):
//
//	adv <ns>                         advance the fake clock
//	span <tid> <root> <bytes> <age> [<kind>]  kind 0 span / 1 span event / 2 link (meta.annotation_type);
//	                                 CollectorWorker.processSpan on the owning worker; afterwards the
//	                                 span's wall-clock ArrivalTime is back-dated by <age> ns (CacheImpact
//	                                 reads the wall clock, not the injected clock)
//	tick <w>                         CollectorWorker.sendExpiredTracesInCache(clock.Now())
//	looptick <w> <ns>                the REAL collect() loop of worker w handles a send tick: the worker is
//	                                 released and blocks in its select, the clock advances by <ns> while it is
//	                                 idle, its ticker fires, the worker is parked again
//	eject <w> <bytes>                CollectorWorker.sendTracesEarly(bytes)
//	alloc <delta>                    InMemCollector.checkAlloc with MaxAlloc := heap reading - delta; the
//	                                 harness plays the workers' `sendEarly` select branch
//
// Everything that reaches the (recording) Transmission is observed with its
// meta.refinery.send_reason; the sendTraces goroutine is synchronised with a sentinel trace.
package main

import (
	"fmt"
	"reflect"
	"runtime"
	rtmetrics "runtime/metrics"
	"sort"
	"strconv"
	"strings"
	"sync"
	"sync/atomic"
	"time"

	"github.com/jonboulle/clockwork"
	"go.opentelemetry.io/otel/trace/noop"

	"github.com/honeycombio/refinery/collect"
	"github.com/honeycombio/refinery/config"
	kit "github.com/honeycombio/refinery/internal/verifkit"
	"github.com/honeycombio/refinery/internal/peer"
	"github.com/honeycombio/refinery/logger"
	"github.com/honeycombio/refinery/metrics"
	"github.com/honeycombio/refinery/pubsub"
	"github.com/honeycombio/refinery/sample"
	"github.com/honeycombio/refinery/sharder"
	"github.com/honeycombio/refinery/types"
)

type comp struct{}

var epoch = time.Date(2024, 1, 1, 0, 0, 0, 0, time.UTC)

const barrierID = "verif-barrier"

// the workers' own tickers are recognised by this period and fired by the harness only (`looptick`)
const sendTickerMark = 1000 * time.Hour

// ---------------------------------------------------------------------------- recording transmission

type sentSpan struct {
	tid    string
	reason string
}

type recTx struct {
	mu      sync.Mutex
	spans   []sentSpan
	barrier chan struct{}
}

func (t *recTx) EnqueueEvent(ev *types.Event) {}
func (t *recTx) EnqueueSpan(sp *types.Span) {
	if sp.TraceID == barrierID {
		t.barrier <- struct{}{}
		return
	}
	r, _ := sp.Data.Get(types.MetaRefinerySendReason).(string)
	t.mu.Lock()
	t.spans = append(t.spans, sentSpan{sp.TraceID, r})
	t.mu.Unlock()
}

func (t *recTx) take() []sentSpan {
	t.mu.Lock()
	defer t.mu.Unlock()
	s := t.spans
	t.spans = nil
	return s
}

// hclock is the injected clock: a clockwork.FakeClock whose worker tickers (recognised by the
// SendTicker period) are channels the harness fires itself, and which counts Now() calls so that the
// harness can tell when a released worker has started its next loop iteration (collect() reads
// `startTime := Clock.Now()` at the top of every iteration, before it blocks in select).
type hclock struct {
	*clockwork.FakeClock
	period   time.Duration
	mu       sync.Mutex
	tickers  []*hticker
	nowCalls atomic.Int64
}

type hticker struct{ c chan time.Time }

func (t *hticker) Chan() <-chan time.Time { return t.c }
func (t *hticker) Reset(time.Duration)    {}
func (t *hticker) Stop()                  {}

func (c *hclock) Now() time.Time {
	t := c.FakeClock.Now()
	c.nowCalls.Add(1)
	return t
}

func (c *hclock) NewTicker(d time.Duration) clockwork.Ticker {
	if d != c.period {
		return c.FakeClock.NewTicker(d)
	}
	t := &hticker{c: make(chan time.Time)} // unbuffered: a tick is delivered only to a worker sitting in select
	c.mu.Lock()
	c.tickers = append(c.tickers, t)
	c.mu.Unlock()
	return t
}

type nullHealth struct{}

func (nullHealth) Register(string, time.Duration) {}
func (nullHealth) Unregister(string)              {}
func (nullHealth) Ready(string, bool)             {}

// ---------------------------------------------------------------------------- collector under test

type rig struct {
	conf    *config.MockConfig
	clock   *hclock
	tx      *recTx
	met     *metrics.MockMetrics
	sf      *sample.SamplerFactory
	coll    *collect.InMemCollector
	release []func() // per worker: un-park
	tickOf  map[int]*hticker
	n       int
}

func newRig(tt, sd int64, limit, maxExp uint64, workers int) *rig {
	conf := &config.MockConfig{
		GetTracesConfigVal: config.TracesConfig{
			// ticks are explicit operations; the workers' own tickers must never fire
			SendTicker:       config.Duration(sendTickerMark),
			SendDelay:        config.Duration(sd),
			TraceTimeout:     config.Duration(tt),
			SpanLimit:        uint(limit),
			MaxExpiredTraces: uint(maxExp),
			MaxBatchSize:     500,
		},
		GetSamplerTypeVal:  &config.DeterministicSamplerConfig{SampleRate: 1},
		GetSamplerTypeName: "DeterministicSampler",
		GetCollectionConfigVal: config.CollectionConfig{
			WorkerCount:        workers,
			IncomingQueueSize:  64,
			PeerQueueSize:      64,
			HealthCheckTimeout: config.Duration(time.Hour),
		},
		SampleCache: config.SampleCacheConfig{
			KeptSize:          10_000,
			DroppedSize:       10_000,
			SizeCheckInterval: config.Duration(time.Hour),
		},
		AddRuleReasonToTrace: true,
		TraceIdFieldNames:    []string{"trace.trace_id"},
		ParentIdFieldNames:   []string{"trace.parent_id"},
	}
	clock := &hclock{FakeClock: clockwork.NewFakeClockAt(epoch), period: sendTickerMark}
	tx := &recTx{barrier: make(chan struct{}, 1)}
	met := &metrics.MockMetrics{}
	met.Start()
	sf := &sample.SamplerFactory{Config: conf, Metrics: met, Logger: &logger.NullLogger{}}
	if err := sf.Start(); err != nil {
		panic(err)
	}
	ps := &pubsub.LocalPubSub{Config: conf, Metrics: met}
	ps.Start()
	c := &collect.InMemCollector{
		TestMode:         true,
		Config:           conf,
		Clock:            clock,
		Logger:           &logger.NullLogger{},
		Tracer:           noop.NewTracerProvider().Tracer("verif"),
		Health:           nullHealth{},
		Transmission:     tx,
		PeerTransmission: &recTx{barrier: make(chan struct{}, 1)},
		PubSub:           ps,
		Metrics:          met,
		StressRelief:     &collect.MockStressReliever{},
		SamplerFactory:   sf,
		Peers:            peer.NewMockPeers([]string{"api1"}, "api1"),
		Sharder:          &sharder.MockSharder{Self: &sharder.TestShard{Addr: "api1"}},
	}
	// Start() assigns `done` itself; the test helper of the repository pre-sets it, we need not.
	if err := c.Start(); err != nil {
		panic(err)
	}
	collect.VerifDeadlineStopMonitor(c)
	n := collect.VerifDeadlineNumWorkers(c)
	rel := make([]func(), n)
	for w := 0; w < n; w++ {
		rel[w] = collect.VerifDeadlineParkWorker(c, w)
	}
	return &rig{conf: conf, clock: clock, tx: tx, met: met, sf: sf, coll: c, release: rel,
		tickOf: map[int]*hticker{}, n: n}
}

// loopTick lets the REAL collect() loop of worker w handle one send tick after an idle period d:
// the worker is released and the harness waits (bounded) until it has started its next iteration
// (read its startTime) and sits in select; only then the fake clock moves by d (deadlines fall while
// the worker is blocked) and the worker's ticker fires; re-parking the worker completes only after
// the tick branch has run to its end.
func (g *rig) loopTick(w int, d time.Duration) {
	before := g.clock.nowCalls.Load()
	g.release[w]()
	deadline := time.Now().Add(20 * time.Second)
	for spin := 0; g.clock.nowCalls.Load() == before; spin++ {
		if spin < 2000 {
			runtime.Gosched()
			continue
		}
		if time.Now().After(deadline) {
			panic("looptick: released worker did not start its next loop iteration")
		}
		time.Sleep(20 * time.Microsecond)
	}
	g.clock.Advance(d)
	now := g.clock.FakeClock.Now()
	if tk, ok := g.tickOf[w]; ok {
		select {
		case tk.c <- now:
		case <-time.After(20 * time.Second):
			panic("looptick: worker did not take its tick")
		}
	} else {
		// only worker w is running, so only its ticker has a receiver: find out which one it is
		g.clock.mu.Lock()
		tks := append([]*hticker(nil), g.clock.tickers...)
		g.clock.mu.Unlock()
		cases := make([]reflect.SelectCase, 0, len(tks)+1)
		for _, tk := range tks {
			cases = append(cases, reflect.SelectCase{Dir: reflect.SelectSend, Chan: reflect.ValueOf(tk.c), Send: reflect.ValueOf(now)})
		}
		cases = append(cases, reflect.SelectCase{Dir: reflect.SelectRecv, Chan: reflect.ValueOf(time.After(20 * time.Second))})
		k, _, _ := reflect.Select(cases)
		if k == len(tks) {
			panic("looptick: no worker took the tick")
		}
		g.tickOf[w] = tks[k]
	}
	g.release[w] = collect.VerifDeadlineParkWorker(g.coll, w)
}

func (g *rig) close() {
	for _, r := range g.release {
		r()
	}
	g.coll.Stop()
	g.sf.Stop()
}

func (g *rig) barrier() {
	sp := &types.Span{TraceID: barrierID, Event: &types.Event{Data: types.NewPayload(g.conf, nil)}}
	collect.VerifDeadlineBarrier(g.coll, sp)
	select {
	case <-g.tx.barrier:
	case <-time.After(20 * time.Second):
		panic("barrier timeout: sendTraces goroutine did not forward the sentinel")
	}
}

func (g *rig) now() int64 { return int64(g.clock.Now().Sub(epoch)) }

func tidOf(s string) string { return "t" + s }
func idOf(tid string) int {
	n, err := strconv.Atoi(strings.TrimPrefix(tid, "t"))
	if err != nil {
		return -1
	}
	return n
}

// kind: 0 plain span, 1 span event, 2 span link (meta.annotation_type, as types.Span.AnnotationType reads it)
func (g *rig) mkSpan(tid string, root bool, bytes int, kind ...int) *types.Span {
	sp := g.mkPlainSpan(tid, root, bytes)
	if len(kind) > 0 {
		switch kind[0] {
		case 1:
			sp.Data.Set(types.MetaAnnotationType, "span_event")
		case 2:
			sp.Data.Set(types.MetaAnnotationType, "link")
		}
	}
	return sp
}

func (g *rig) mkPlainSpan(tid string, root bool, bytes int) *types.Span {
	data := map[string]any{}
	if bytes > 0 {
		data["p"] = strings.Repeat("x", bytes-1)
	}
	return &types.Span{
		TraceID: tid,
		IsRoot:  root,
		Event: &types.Event{
			APIHost:     "http://api",
			APIKey:      "key",
			Dataset:     "ds",
			Environment: "env",
			Data:        types.NewPayload(g.conf, data),
		},
	}
}

// groups the forwarded spans by trace, in order of first appearance:  id:reason:count
func sentStr(ss []sentSpan) (string, []int) {
	type grp struct {
		id     int
		reason string
		n      int
	}
	var gs []*grp
	idx := map[string]*grp{}
	for _, s := range ss {
		g, ok := idx[s.tid]
		if !ok {
			g = &grp{id: idOf(s.tid), reason: s.reason}
			idx[s.tid] = g
			gs = append(gs, g)
		}
		if g.reason != s.reason {
			g.reason = "mixed"
		}
		g.n++
	}
	if len(gs) == 0 {
		return "-", nil
	}
	out := make([]string, len(gs))
	ids := make([]int, len(gs))
	for i, g := range gs {
		r := g.reason
		if r == "" {
			r = "none"
		}
		out[i] = fmt.Sprintf("%d:%s:%d", g.id, kit.Enc(r), g.n)
		ids[i] = g.id
	}
	return strings.Join(out, ","), ids
}

func intList(xs []int) string {
	if len(xs) == 0 {
		return "-"
	}
	s := make([]string, len(xs))
	for i, x := range xs {
		s[i] = strconv.Itoa(x)
	}
	return strings.Join(s, ",")
}

func (g *rig) left(w int) string {
	var ids []int
	for _, t := range collect.VerifDeadlineBuffered(g.coll, w) {
		ids = append(ids, idOf(t.TraceID))
	}
	sort.Ints(ids)
	return intList(ids)
}

// ejectObs captures what an ejection saw.  It is created BEFORE the real sendTracesEarly (buffered
// traces and the wall-clock instant) and emits, AFTER it, for every trace that was buffered:
//   imp <id> = <Trace.totalImpact as memoised by the code's own sort (read, not recomputed)>
//   age <id> <k> = <span data size> <lo> <hi>     for every span k, where lo/hi bound
//       time.Since(span.ArrivalTime) at any instant during the call (monotonic wall clock)
type ejectObs struct {
	traces []*types.Trace
	t0     time.Time
}

func (g *rig) beforeEject(w int) *ejectObs {
	tr := collect.VerifDeadlineBuffered(g.coll, w)
	sort.Slice(tr, func(a, b int) bool { return idOf(tr[a].TraceID) < idOf(tr[b].TraceID) })
	return &ejectObs{traces: tr, t0: time.Now()}
}

func (o *ejectObs) emit(prefix string) {
	t1 := time.Now()
	for _, t := range o.traces {
		id := idOf(t.TraceID)
		kit.Ext("imp %s%d = %d", prefix, id, types.VerifDeadlineTotalImpact(t))
		for k, sp := range t.GetSpans() {
			kit.Ext("age %s%d %d = %d %d %d", prefix, id, k, sp.GetDataSize(),
				int64(o.t0.Sub(sp.ArrivalTime)), int64(t1.Sub(sp.ArrivalTime)))
		}
	}
}

// ---------------------------------------------------------------------------- generator

type gtrace struct {
	seen    bool
	first   int64
	rootAt  int64 // -1: none
	limitAt int64 // -1: none
	count   int
	size    int
	decided bool
}

func (t *gtrace) deadline(effTT, effSD int64) int64 {
	d := t.first + effTT
	if t.rootAt >= 0 && t.rootAt+effSD < d {
		d = t.rootAt + effSD
	}
	if t.limitAt >= 0 && t.limitAt < d {
		d = t.limitAt
	}
	return d
}

func pick64(r *kit.Rng, xs ...int64) int64 { return xs[r.Intn(len(xs))] }

func (comp) Gen(r *kit.Rng, maxLen int, tier string) kit.Case {
	workers := []int{1, 1, 1, 2, 3}[r.Intn(5)]
	tt := pick64(r, 0, 0, 1, 100, 1000, 1_000_000, 3_000_000_000, 60_000_000_000)
	sd := pick64(r, 0, 0, 1, 50, 1000, 2_000_000_000, 10_000_000_000)
	limit := []uint64{0, 0, 0, 1, 2, 2, 3, 5, 32000, 1<<32 + 1, 1<<32 + 2}[r.Intn(11)]
	maxExp := []uint64{0, 0, 1, 1, 2, 3, 10, 3000, 1 << 63}[r.Intn(9)]
	if r.Chance(10) { // the all-zero configuration
		tt, sd, limit, maxExp = 0, 0, 0, 0
	}
	// the generator only aims with these (the fall-backs the code applies are measured by `facts`)
	effTT, effSD := tt, sd
	if effTT == 0 {
		effTT = 60_000_000_000
	}
	if effSD == 0 {
		effSD = 2_000_000_000
	}
	scale := effTT
	if effSD < scale {
		scale = effSD
	}
	u := 2 + r.Intn(8)
	backlog := r.Chance(25)
	if backlog {
		u = 6 + r.Intn(14)
	}
	n := 6 + r.Intn(maxLen)
	now := int64(0)
	tr := make([]gtrace, u)
	var ops []string
	pendingDeadlines := func() []int64 {
		var ds []int64
		for i := range tr {
			if tr[i].seen && !tr[i].decided {
				ds = append(ds, tr[i].deadline(effTT, effSD))
			}
		}
		sort.Slice(ds, func(a, b int) bool { return ds[a] < ds[b] })
		return ds
	}
	adv := func(d int64) {
		if d < 0 {
			d = 0
		}
		now += d
		ops = append(ops, fmt.Sprintf("adv %d", d))
	}
	tick := func(w int) {
		ops = append(ops, fmt.Sprintf("tick %d", w))
		if workers == 1 {
			exp := 0
			for i := range tr {
				if tr[i].seen && !tr[i].decided && tr[i].deadline(effTT, effSD) <= now {
					exp++
				}
			}
			if maxExp == 0 || maxExp >= 1<<63 || uint64(exp) <= maxExp {
				for i := range tr {
					if tr[i].seen && !tr[i].decided && tr[i].deadline(effTT, effSD) <= now {
						tr[i].decided = true
					}
				}
			}
		}
	}
	span := func() {
		k := r.Intn(u)
		if backlog && r.Chance(70) { // spread over many traces
			k = r.Intn(u)
			for j := 0; j < 3 && tr[k].seen; j++ {
				k = r.Intn(u)
			}
		}
		root := r.Chance(25)
		bytes := int(pick64(r, 0, 1, 2, 10, 10, 100, 1000))
		age := pick64(r, 0, 0, 0, effTT/8, effTT/4, effTT/2, 3*effTT/4, effTT, 2*effTT)
		t := &tr[k]
		if !t.seen {
			*t = gtrace{seen: true, first: now, rootAt: -1, limitAt: -1}
		}
		if !t.decided {
			t.count++
			t.size += bytes
			if root && t.rootAt < 0 {
				t.rootAt = now
			}
			if limit > 0 && uint64(t.count) > limit && t.limitAt < 0 {
				t.limitAt = now
			}
		}
		b := 0
		if root {
			b = 1
		}
		kind := 0
		if !root {
			kind = r.Pick(65, 25, 10) // plain span, span event, span link
		}
		ops = append(ops, fmt.Sprintf("span %d %d %d %d %d", k, b, bytes, age, kind))
	}
	total := func() int {
		s := 0
		for i := range tr {
			if tr[i].seen && !tr[i].decided {
				s += tr[i].size
			}
		}
		return s
	}
	// age-flip scenario: an older, smaller trace whose age-weighted impact (size x (4*age/timeout + 1))
	// is heavier than a fresh, larger one; an ejection of share 0 must take the older one first
	flip := r.Chance(30)
	ageFlip := func() {
		k := int64(1 + r.Intn(4)) // age = k quarters of the trace timeout => multiplier k+1
		if r.Chance(20) {
			k = 8
		}
		small := int(pick64(r, 10, 40, 100, 200))
		// fresh size strictly between small and small*(k+1): raw size says "fresh first", impact says "old first"
		lo, hi := small+1, small*int(k+1)-1
		big := lo + r.Intn(hi-lo+1)
		a, b := r.Intn(u), r.Intn(u)
		for j := 0; j < 4 && (a == b || tr[a].seen || tr[b].seen); j++ {
			a, b = r.Intn(u), r.Intn(u)
		}
		if a == b {
			return
		}
		emit := func(id, bytes int, age int64) {
			t := &tr[id]
			if !t.seen {
				*t = gtrace{seen: true, first: now, rootAt: -1, limitAt: -1}
			}
			if !t.decided {
				t.count++
				t.size += bytes
				if limit > 0 && uint64(t.count) > limit && t.limitAt < 0 {
					t.limitAt = now
				}
			}
			ops = append(ops, fmt.Sprintf("span %d 0 %d %d %d", id, bytes, age, r.Pick(60, 30, 10)))
		}
		if r.Chance(50) {
			emit(a, small, k*effTT/4)
			emit(b, big, 0)
		} else {
			emit(b, big, 0)
			emit(a, small, k*effTT/4)
		}
		for w := 0; w < workers; w++ {
			ops = append(ops, fmt.Sprintf("eject %d %d", w, pick64(r, 0, 0, int64(small), int64(big))))
		}
	}
	for i := 0; i < n; i++ {
		w := r.Intn(workers)
		if flip && r.Chance(20) {
			ageFlip()
			continue
		}
		weights := []int{45, 22, 20, 9, 1, 5}
		if backlog && i < n/2 {
			weights = []int{80, 10, 4, 5, 1, 2}
		}
		switch r.Pick(weights...) {
		case 0:
			span()
		case 1:
			ds := pendingDeadlines()
			var fut []int64
			for _, d := range ds {
				if d >= now {
					fut = append(fut, d-now)
				}
			}
			switch {
			case len(fut) > 0 && r.Chance(65):
				d := fut[r.Intn(len(fut))]
				switch r.Intn(4) {
				case 0:
					d++ // one ns after the deadline
				case 1:
					d-- // one ns before
				}
				adv(d)
			default:
				adv(pick64(r, 0, 1, scale/2, scale-1, scale, scale+1, effTT-1, effTT, effTT+1, effSD-1, effSD, effSD+1, int64(r.Intn(int(min64(scale, 1_000_000))+2))))
			}
			if r.Chance(50) {
				tick(w)
			}
		case 2:
			tick(w)
		case 3:
			t := total()
			one := 0
			for j := range tr {
				if tr[j].seen && !tr[j].decided && r.Chance(40) {
					one = tr[j].size
				}
			}
			b := pick64(r, 0, 0, 1, int64(one)-1, int64(one), int64(one)+1, int64(t/2), int64(t)-1, int64(t), int64(t)+1, int64(10*t+5))
			if b < 0 {
				b = 0
			}
			ops = append(ops, fmt.Sprintf("eject %d %d", w, b))
			if workers == 1 && b >= int64(t) {
				for j := range tr {
					if tr[j].seen {
						tr[j].decided = true
					}
				}
			}
		case 5:
			// loop-driven tick after an idle period during which (mostly) a pending deadline falls
			var d int64
			ds := pendingDeadlines()
			var fut []int64
			for _, x := range ds {
				if x >= now {
					fut = append(fut, x-now)
				}
			}
			if len(fut) > 0 && r.Chance(75) {
				d = fut[r.Intn(len(fut))] + int64(r.Intn(3)) - 1
			} else {
				d = pick64(r, 0, 1, scale/2, scale, scale+1, effTT, effSD)
			}
			if d < 0 {
				d = 0
			}
			now += d
			mark := len(ops)
			tick(w)
			ops[mark] = fmt.Sprintf("looptick %d %d", w, d)
		case 4:
			ops = append(ops, fmt.Sprintf("alloc %d", pick64(r, -1_000_000_000, 0, 1, 100, 10_000, 1_000_000, 1<<40)))
		}
	}
	// flush: move past every pending deadline and tick until every buffer must be empty
	ds := pendingDeadlines()
	if len(ds) > 0 && ds[len(ds)-1] >= now {
		adv(ds[len(ds)-1] - now + int64(r.Intn(2)))
	}
	rounds := 1
	if maxExp > 0 && maxExp < 1<<63 {
		rounds = (u + int(maxExp) - 1) / int(maxExp)
		if rounds > 24 {
			rounds = 24
		}
	}
	for k := 0; k < rounds; k++ {
		for w := 0; w < workers; w++ {
			ops = append(ops, fmt.Sprintf("tick %d", w))
		}
	}
	return kit.Case{Header: fmt.Sprintf("tt=%d sd=%d limit=%d max=%d workers=%d", tt, sd, limit, maxExp, workers), Ops: ops}
}

func min64(a, b int64) int64 {
	if a < b {
		return a
	}
	return b
}

type runner struct{ g *rig }

func (comp) NewCase(h []string) kit.Runner {
	tt, _ := strconv.ParseInt(kit.KV(h, "tt"), 10, 64)
	sd, _ := strconv.ParseInt(kit.KV(h, "sd"), 10, 64)
	limit, _ := strconv.ParseUint(kit.KV(h, "limit"), 10, 64)
	maxExp, _ := strconv.ParseUint(kit.KV(h, "max"), 10, 64)
	workers, _ := strconv.Atoi(kit.KV(h, "workers"))
	if workers < 1 {
		workers = 1
	}
	return &runner{g: newRig(tt, sd, limit, maxExp, workers)}
}

func (r *runner) Close() { r.g.close() }

func (r *runner) Do(op []string) (string, bool) {
	g := r.g
	switch op[0] {
	case "adv":
		d, _ := strconv.ParseInt(op[1], 10, 64)
		g.clock.Advance(time.Duration(d))
		return "", false
	case "span":
		tid := tidOf(op[1])
		root := op[2] == "1"
		bytes, _ := strconv.Atoi(op[3])
		age, _ := strconv.ParseInt(op[4], 10, 64)
		w := collect.VerifDeadlineWorkerFor(g.coll, tid)
		kind := 0
		if len(op) > 5 {
			kind, _ = strconv.Atoi(op[5])
		}
		sp := g.mkSpan(tid, root, bytes, kind)
		kit.Ext("w = %d", w)
		kit.Ext("size = %d", sp.GetDataSize())
		collect.VerifDeadlineProcessSpan(g.coll, w, sp)
		if age > 0 {
			sp.ArrivalTime = sp.ArrivalTime.Add(-time.Duration(age))
		}
		fwd := g.tx.take() // late spans are forwarded synchronously by dealWithSentTrace
		tr := collect.VerifDeadlineGet(g.coll, w, tid)
		switch {
		case tr != nil && len(fwd) == 0:
			rt := 0
			if tr.RootSpan != nil {
				rt = 1
			}
			return fmt.Sprintf("buf sb=%d n=%d sz=%d root=%d", int64(tr.SendBy.Sub(epoch)), tr.DescendantCount(), tr.DataSize, rt), true
		case tr == nil && len(fwd) == 1 && fwd[0].tid == tid:
			return "late reason=" + kit.Enc(fwd[0].reason), true
		case tr == nil && len(fwd) == 0:
			return "lost", true
		default:
			s, _ := sentStr(fwd)
			return fmt.Sprintf("confused buffered=%v fwd=%s", tr != nil, s), true
		}
	case "tick":
		w, _ := strconv.Atoi(op[1])
		if w < 0 || w >= g.n {
			return "bad-worker", true
		}
		collect.VerifDeadlineTick(g.coll, w, g.clock.Now())
		g.barrier()
		s, ids := sentStr(g.tx.take())
		kit.Ext("taken = %s", intList(ids))
		return fmt.Sprintf("at=%d sent=%s left=%s", g.now(), s, g.left(w)), true
	case "looptick":
		w, _ := strconv.Atoi(op[1])
		d, _ := strconv.ParseInt(op[2], 10, 64)
		if w < 0 || w >= g.n {
			return "bad-worker", true
		}
		g.loopTick(w, time.Duration(d))
		g.barrier()
		s, ids := sentStr(g.tx.take())
		kit.Ext("taken = %s", intList(ids))
		return fmt.Sprintf("at=%d sent=%s left=%s", g.now(), s, g.left(w)), true
	case "eject":
		w, _ := strconv.Atoi(op[1])
		bytes, _ := strconv.Atoi(op[2])
		if w < 0 || w >= g.n {
			return "bad-worker", true
		}
		eo := g.beforeEject(w)
		collect.VerifDeadlineEject(g.coll, w, bytes)
		eo.emit("")
		g.barrier()
		s, ids := sentStr(g.tx.take())
		kit.Ext("order = %s", intList(ids))
		return fmt.Sprintf("sent=%s left=%s", s, g.left(w)), true
	case "alloc":
		delta, _ := strconv.ParseInt(op[1], 10, 64)
		sample := []rtmetrics.Sample{{Name: metrics.RtMetricNameMemory}}
		rtmetrics.Read(sample)
		heap := int64(sample[0].Value.Uint64())
		m := heap - delta
		if m < 1 {
			m = 1
		}
		g.conf.Mux.Lock()
		g.conf.GetCollectionConfigVal.MaxAlloc = config.MemorySize(m)
		g.conf.Mux.Unlock()
		var parts []string
		var eo *ejectObs
		shares := make([]int, 0, g.n)
		evicted := collect.VerifDeadlineCheckAlloc(g.coll,
			func(w int, bytes int) {
				shares = append(shares, bytes)
				kit.Ext("share %d = %d", w, bytes)
				eo = g.beforeEject(w)
			},
			func(w int) {
				eo.emit(fmt.Sprintf("%d ", w))
				g.barrier()
				s, ids := sentStr(g.tx.take())
				kit.Ext("order %d = %s", w, intList(ids))
				parts = append(parts, fmt.Sprintf("w=%d sent=%s left=%s", w, s, g.left(w)))
			})
		g.conf.Mux.Lock()
		g.conf.GetCollectionConfigVal.MaxAlloc = 0
		g.conf.Mux.Unlock()
		// what the code itself read and compared (recorded through its metrics calls)
		kit.Ext("heap = %d", int64(g.met.GaugeRecords[collect.NUMERATOR_MEMORY_HEAP_ALLOC]))
		kit.Ext("maxalloc = %d", int64(g.met.Constants[collect.DENOMINATOR_MEMORY_MAX_ALLOC]))
		kit.Ext("workers = %d", g.n)
		if !evicted {
			return "none", true
		}
		return fmt.Sprintf("evict shares=%s %s", intList(shares), strings.Join(parts, " ")), true
	}
	return "bad-op", true
}

// ---------------------------------------------------------------------------- facts

func tagDefault(t reflect.Type, field string) string {
	f, ok := t.FieldByName(field)
	if !ok {
		return ""
	}
	return f.Tag.Get("default")
}

func durNs(s string) string {
	d, err := time.ParseDuration(s)
	if err != nil {
		return "-1"
	}
	return strconv.FormatInt(int64(d), 10)
}

// facts are computed by the compiled code itself: the send-reason names are the package's
// constants, the zero-value fall-backs of TraceTimeout / SendDelay are measured by running the real
// processSpan under an all-zero TracesConfig, the documented defaults are the struct tags.
func facts() map[string]string {
	g := newRig(0, 0, 0, 0, 1)
	defer g.close()
	child := g.mkSpan("t1", false, 1)
	collect.VerifDeadlineProcessSpan(g.coll, 0, child)
	tr := collect.VerifDeadlineGet(g.coll, 0, "t1")
	fallbackTT := int64(tr.SendBy.Sub(epoch))
	rootSp := g.mkSpan("t1", true, 1)
	collect.VerifDeadlineProcessSpan(g.coll, 0, rootSp)
	fallbackSD := int64(collect.VerifDeadlineGet(g.coll, 0, "t1").SendBy.Sub(epoch))
	tc := reflect.TypeOf(config.TracesConfig{})
	return map[string]string{
		"reasonGotRoot":            collect.TraceSendGotRoot,
		"reasonExpired":            collect.TraceSendExpired,
		"reasonSpanLimit":          collect.TraceSendSpanLimit,
		"reasonEjectedMemsize":     collect.TraceSendEjectedMemsize,
		"reasonLateSpan":           collect.TraceSendLateSpan,
		"fallbackTraceTimeout":     strconv.FormatInt(fallbackTT, 10),
		"fallbackSendDelay":        strconv.FormatInt(fallbackSD, 10),
		"cfgDefaultTraceTimeout":   durNs(tagDefault(tc, "TraceTimeout")),
		"cfgDefaultSendDelay":      durNs(tagDefault(tc, "SendDelay")),
		"cfgDefaultSendTicker":     durNs(tagDefault(tc, "SendTicker")),
		"cfgDefaultSpanLimit":      tagDefault(tc, "SpanLimit"),
		"cfgDefaultMaxExpired":     tagDefault(tc, "MaxExpiredTraces"),
		"maxExpiredIntBits":        strconv.Itoa(strconv.IntSize),
		"cacheImpactFactor":        strconv.Itoa(types.VerifDeadlineCacheImpactFactor()),
	}
}

func main() { kit.Main(comp{}, facts) }
