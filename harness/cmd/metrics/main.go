//go:build verif

// Harness for metrics.MultiMetrics — the store read back by Get (property C33).
//
// case header:  children=<0|1|2>   (0: no child backend, 1: a NullMetrics child, 2: NullMetrics + MockMetrics)
// ops (metric names are percent-encoded tokens; <n> is a decimal int64, <v> a float token):
//
//	register <name> <counter|gauge|histogram|updown>
//	increment <name> | count <name> <n> | gauge <name> <v> | histogram <name> <v>
//	up <name> | down <name> | store <name> <v>
//	get <name>                     obs: none | some:<float token>
//	creg <kind> <g> <n> <r> <base> concurrent first registration of r fresh names (see Do)
//	conc <g> <item>,<item>,…       item = <i|c|u|d>*<reps>*<n>*<name>: the multiset of calls
//	                               (Increment / Count n / Up / Down, each <reps> times) is dealt
//	                               round-robin to <g> goroutines that start calling together (spin barrier); obs: done
//
// Gauge, Histogram and Store take float64 in Go.  Values travel as canonical tokens (fmtFloat):
// nan, +inf, -inf, an exact decimal integer, or x<Float64bits in hex> — the generator produces
// ordinary integers plus NaN, ±Inf, -0, ±MaxFloat64, subnormals, fractions and integers beyond
// 2^53; tokens are compared as text, never as floats.
package main

import (
	"fmt"
	"math"
	"math/big"
	"runtime"
	"strconv"
	"strings"
	"sync"
	"sync/atomic"

	kit "github.com/honeycombio/refinery/internal/verifkit"
	"github.com/honeycombio/refinery/metrics"
)

type comp struct{}

var typeNames = []string{"counter", "gauge", "histogram", "updown"}

// metricType finds the MetricType constant whose String() is s (so the names come from the code).
func metricType(s string) (metrics.MetricType, bool) {
	for _, t := range []metrics.MetricType{metrics.Counter, metrics.Gauge, metrics.Histogram, metrics.UpDown} {
		if t.String() == s {
			return t, true
		}
	}
	return 0, false
}

var namePool = []string{
	"trace_accepted", "dynamic_num_kept", "collector_incoming_queue_length", "events_dropped",
	"bytes_received_traces", "memory_inuse", "is_ready", "a b", "", "x=1,y", "incoming_router_span",
}

const two53 = int64(1) << 53

func genCount(r *kit.Rng) int64 {
	switch r.Pick(66, 5, 9, 6, 5, 9) {
	case 0:
		return int64(1 + r.Intn(100))
	case 1:
		return 0
	case 2: // around the float64 exactness boundary
		return []int64{two53 - 1, two53, two53 + 1, two53 + 3, 3*two53 + 2}[r.Intn(5)]
	case 3: // enough to wrap a uint64 when repeated
		return []int64{1 << 62, math.MaxInt64, math.MaxInt64 - 1}[r.Intn(3)]
	case 4: // negative: uint64(n) wraps (outside the property's domain, inside the model's)
		return []int64{-1, -5, math.MinInt64, -int64(1 + r.Intn(100))}[r.Intn(4)]
	}
	return int64(r.Intn(1_000_000_000))
}

// floatEdges: values a float64 parameter can carry besides ordinary integers.
var floatEdges = []float64{
	math.NaN(), math.Inf(1), math.Inf(-1), math.Copysign(0, -1),
	math.MaxFloat64, -math.MaxFloat64, math.SmallestNonzeroFloat64, -math.SmallestNonzeroFloat64,
	2.2250738585072014e-308 /* smallest normal */, 0.5, -1.5, 0.1, 1e-300, 1e300,
	float64(two53 + 2), float64(int64(1) << 60), -float64(int64(1) << 62), 1e18, 18446744073709551616.0,
}

// genValue yields the canonical token (see fmtFloat) of a float64 for Gauge / Histogram / Store.
func genValue(r *kit.Rng) string {
	var v int64
	switch r.Pick(46, 7, 10, 21, 16) {
	case 0:
		v = int64(r.Intn(101)) - 50
	case 1:
		v = 0
	case 2:
		v = []int64{two53, -two53, two53 - 1, -(two53 - 1), 1, -1}[r.Intn(6)]
	case 3:
		v = int64(r.Intn(1_000_000_000)) * int64(1+r.Intn(1000))
		if r.Chance(30) {
			v = -v
		}
	case 4: // non-finite, signed zero, extremes, subnormals, fractions, integers beyond 2^53
		return fmtFloat(floatEdges[r.Intn(len(floatEdges))])
	}
	return fmtFloat(float64(v))
}

func (comp) Gen(r *kit.Rng, maxLen int, tier string) kit.Case {
	u := 2 + r.Intn(4)
	perm := make([]int, len(namePool))
	for i := range perm {
		perm[i] = i
	}
	for i := len(perm) - 1; i > 0; i-- {
		j := r.Intn(i + 1)
		perm[i], perm[j] = perm[j], perm[i]
	}
	names := make([]string, u)
	intended := make([]int, u) // index in typeNames
	for i := 0; i < u; i++ {
		names[i] = kit.Enc(namePool[perm[i]])
		intended[i] = []int{0, 0, 1, 3, 3, 2}[r.Intn(6)]
		if i < 3 { // make sure counters, gauges and up-downs all occur often
			intended[i] = []int{0, 1, 3}[(i+r.Intn(2))%3]
		}
	}
	registered := make([]bool, u)
	fresh := 0
	var ops []string
	reg := func(i, ty int) {
		ops = append(ops, fmt.Sprintf("register %s %s", names[i], typeNames[ty]))
		registered[i] = true
	}
	if r.Chance(65) { // the usual life cycle: components register their metrics in Start()
		for i := 0; i < u; i++ {
			if r.Chance(90) {
				reg(i, intended[i])
			}
		}
	}
	// a call that fits the (intended or, rarely, any) type of a name
	record := func(i int) string {
		ty := intended[i]
		if r.Chance(12) {
			ty = r.Intn(4)
		}
		switch ty {
		case 0:
			if r.Chance(65) {
				return "increment " + names[i]
			}
			return fmt.Sprintf("count %s %d", names[i], genCount(r))
		case 1:
			return fmt.Sprintf("gauge %s %s", names[i], genValue(r))
		case 2:
			return fmt.Sprintf("histogram %s %s", names[i], genValue(r))
		}
		if r.Chance(55) {
			return "up " + names[i]
		}
		return "down " + names[i]
	}
	n := 4 + r.Intn(maxLen)
	for len(ops) < n {
		i := r.Intn(u)
		switch r.Pick(7, 50, 4, 28, 7, 4) {
		case 0: // register: mostly the same type again (sampler / cache / transmission re-created)
			ty := intended[i]
			if r.Chance(8) {
				ty = r.Intn(4)
			}
			reg(i, ty)
		case 1:
			ops = append(ops, record(i))
		case 2:
			ops = append(ops, fmt.Sprintf("store %s %s", names[i], genValue(r)))
		case 3:
			ops = append(ops, "get "+names[i])
		case 4: // concurrent burst, then read everything back at quiescence
			g := []int{2, 4, 8, 8, 16}[r.Intn(5)]
			heavy := 3000 // long enough for the goroutines to overlap for a while
			k := 1 + r.Intn(5)
			var items []string
			for j := 0; j < k; j++ {
				x := r.Intn(u)
				reps := 1 + r.Intn(40)
				if r.Chance(30) {
					reps = heavy/3 + r.Intn(2*heavy/3)
				}
				switch r.Pick(40, 15, 25, 20) {
				case 0:
					items = append(items, fmt.Sprintf("i*%d*0*%s", reps, names[x]))
				case 1:
					items = append(items, fmt.Sprintf("c*%d*%d*%s", reps, 1+r.Intn(1000), names[x]))
				case 2:
					items = append(items, fmt.Sprintf("u*%d*0*%s", reps, names[x]))
				case 3:
					items = append(items, fmt.Sprintf("d*%d*0*%s", reps, names[x]))
				}
			}
			ops = append(ops, fmt.Sprintf("conc %d %s", g, strings.Join(items, ",")))
			for x := 0; x < u; x++ {
				ops = append(ops, "get "+names[x])
			}
		case 5: // concurrent FIRST registration of fresh names, each goroutine registers then updates
			kind := []string{"counter", "counter", "updown", "gauge"}[r.Intn(4)]
			g := []int{2, 4, 4, 8}[r.Intn(4)]
			fresh++
			ops = append(ops, fmt.Sprintf("creg %s %d %d %d fresh%d", kind, g, 1+r.Intn(20), 4+r.Intn(9), fresh))
		}
	}
	for x := 0; x < u; x++ {
		ops = append(ops, "get "+names[x])
	}
	return kit.Case{Header: fmt.Sprintf("children=%d", r.Intn(3)), Ops: ops}
}

type runner struct {
	m *metrics.MultiMetrics
}

func (comp) NewCase(h []string) kit.Runner {
	m := metrics.NewMultiMetrics()
	switch kit.KV(h, "children") {
	case "1":
		m.AddChild(&metrics.NullMetrics{})
	case "2":
		m.AddChild(&metrics.NullMetrics{})
		mock := &metrics.MockMetrics{}
		mock.Start()
		m.AddChild(mock)
	}
	return &runner{m: m}
}

// fmtFloat renders a float64 as a canonical token, so that no float comparison is needed
// downstream: nan | +inf | -inf | the exact decimal integer (finite integer-valued, not -0) |
// x<16 hex digits of math.Float64bits> (everything else: fractions, subnormals, -0).
func fmtFloat(v float64) string {
	switch {
	case math.IsNaN(v):
		return "nan"
	case math.IsInf(v, 1):
		return "+inf"
	case math.IsInf(v, -1):
		return "-inf"
	case v == 0 && !math.Signbit(v):
		return "0"
	case v != 0 && v == math.Trunc(v):
		return new(big.Float).SetFloat64(v).Text('f', 0)
	}
	return fmt.Sprintf("x%016x", math.Float64bits(v))
}

// parseFloat is the inverse of fmtFloat (an integer token must be exactly a float64).
func parseFloat(s string) (float64, bool) {
	switch s {
	case "nan":
		return math.NaN(), true
	case "+inf":
		return math.Inf(1), true
	case "-inf":
		return math.Inf(-1), true
	}
	if len(s) == 17 && s[0] == 'x' {
		b, err := strconv.ParseUint(s[1:], 16, 64)
		return math.Float64frombits(b), err == nil
	}
	f, _, err := big.ParseFloat(s, 10, 2048, big.ToNearestEven)
	if err != nil || !f.IsInt() {
		return 0, false
	}
	v, acc := f.Float64()
	return v, acc == big.Exact
}

func (r *runner) Do(op []string) (string, bool) {
	i64 := func(i int) (int64, bool) {
		if i >= len(op) {
			return 0, false
		}
		n, err := strconv.ParseInt(op[i], 10, 64)
		return n, err == nil
	}
	if len(op) < 2 {
		return "bad-op", true
	}
	name := kit.Dec(op[1])
	switch op[0] {
	case "register":
		if len(op) != 3 {
			return "bad-op", true
		}
		ty, ok := metricType(op[2])
		if !ok {
			return "bad-op", true
		}
		r.m.Register(metrics.Metadata{Name: name, Type: ty, Unit: metrics.Dimensionless, Description: "verif " + op[2]})
		return "", false
	case "increment":
		r.m.Increment(name)
		return "", false
	case "count":
		n, ok := i64(2)
		if !ok {
			return "bad-op", true
		}
		r.m.Count(name, n)
		return "", false
	case "gauge":
		if len(op) != 3 {
			return "bad-op", true
		}
		v, ok := parseFloat(op[2])
		if !ok {
			return "bad-op", true
		}
		r.m.Gauge(name, v)
		return "", false
	case "histogram":
		if len(op) != 3 {
			return "bad-op", true
		}
		v, ok := parseFloat(op[2])
		if !ok {
			return "bad-op", true
		}
		r.m.Histogram(name, v)
		return "", false
	case "up":
		r.m.Up(name)
		return "", false
	case "down":
		r.m.Down(name)
		return "", false
	case "store":
		if len(op) != 3 {
			return "bad-op", true
		}
		v, ok := parseFloat(op[2])
		if !ok {
			return "bad-op", true
		}
		r.m.Store(name, v)
		return "", false
	case "get":
		v, ok := r.m.Get(name)
		if !ok {
			if v != 0 {
				return "none:" + fmtFloat(v), true
			}
			return "none", true
		}
		return "some:" + fmtFloat(v), true
	case "creg":
		// creg <kind> <g> <n> <r> <base>: for each of r fresh names <base>.<j>, g goroutines start
		// together; each does Register(name, kind) and then n updates (Increment / Up / Gauge(w+1)).
		// obs: the Get of every fresh name at quiescence, comma separated; for a gauge `in` when the
		// reading is one of the values written (1..g), else out:<token>.
		if len(op) != 6 {
			return "bad-op", true
		}
		ty, ok := metricType(op[1])
		g, e1 := strconv.Atoi(op[2])
		n, e2 := strconv.Atoi(op[3])
		rr, e3 := strconv.Atoi(op[4])
		if !ok || e1 != nil || e2 != nil || e3 != nil || g < 1 || g > 64 || n < 0 || n > 100000 || rr < 1 || rr > 1000 {
			return "bad-op", true
		}
		base := kit.Dec(op[5])
		var outs []string
		for j := 0; j < rr; j++ {
			nm := base + "." + strconv.Itoa(j)
			var ready atomic.Int32
			var wg sync.WaitGroup
			for w := 0; w < g; w++ {
				wg.Add(1)
				go func(w int) {
					defer wg.Done()
					ready.Add(1)
					for ready.Load() < int32(g) {
						runtime.Gosched()
					}
					r.m.Register(metrics.Metadata{Name: nm, Type: ty, Unit: metrics.Dimensionless, Description: "verif " + op[1]})
					for i := 0; i < n; i++ {
						switch ty {
						case metrics.Counter:
							r.m.Increment(nm)
						case metrics.UpDown:
							r.m.Up(nm)
						case metrics.Gauge:
							r.m.Gauge(nm, float64(w+1))
						}
					}
				}(w)
			}
			wg.Wait()
			v, ok := r.m.Get(nm)
			switch {
			case !ok:
				outs = append(outs, "none")
			case ty == metrics.Gauge && n > 0:
				if v == math.Trunc(v) && v >= 1 && v <= float64(g) {
					outs = append(outs, "in")
				} else {
					outs = append(outs, "out:"+fmtFloat(v))
				}
			default:
				outs = append(outs, "some:"+fmtFloat(v))
			}
		}
		return strings.Join(outs, ","), true
	case "conc":
		if len(op) != 3 {
			return "bad-op", true
		}
		g, err := strconv.Atoi(op[1])
		if err != nil || g < 1 || g > 64 {
			return "bad-op", true
		}
		var calls []func()
		for _, it := range strings.Split(op[2], ",") {
			f := strings.Split(it, "*")
			if len(f) != 4 {
				return "bad-op", true
			}
			reps, e1 := strconv.Atoi(f[1])
			n, e2 := strconv.ParseInt(f[2], 10, 64)
			if e1 != nil || e2 != nil || reps < 0 || reps > 100000 {
				return "bad-op", true
			}
			nm := kit.Dec(f[3])
			var call func()
			switch f[0] {
			case "i":
				call = func() { r.m.Increment(nm) }
			case "c":
				call = func() { r.m.Count(nm, n) }
			case "u":
				call = func() { r.m.Up(nm) }
			case "d":
				call = func() { r.m.Down(nm) }
			default:
				return "bad-op", true
			}
			for j := 0; j < reps; j++ {
				calls = append(calls, call)
			}
		}
		// spin barrier: every goroutine is running before the first call is made, so the calls
		// of different goroutines really overlap
		var ready atomic.Int32
		var wg sync.WaitGroup
		for w := 0; w < g; w++ {
			wg.Add(1)
			go func(w int) {
				defer wg.Done()
				ready.Add(1)
				for ready.Load() < int32(g) {
					runtime.Gosched()
				}
				for j := w; j < len(calls); j += g {
					calls[j]()
				}
			}(w)
		}
		wg.Wait()
		return "done", true
	}
	return "bad-op", true
}

func (r *runner) Close() {}

func main() {
	// the concurrent mode needs real parallelism even where a CPU quota makes the runtime pick 1
	if runtime.GOMAXPROCS(0) < 8 {
		runtime.GOMAXPROCS(8)
	}
	kit.Main(comp{}, nil)
}
