//go:build verif

// Harness for the /query/ endpoints (property C25).
//
// One real route.Router is built with the repo's mocks and started with LnS; the generator WALKS the
// mux the router installed and enumerates every leaf route whose path template starts with /query
// (so a route added outside the token-protected sub-router shows up in the enumeration), instantiates
// the template variables ({format} with every format, {traceID} with a trace of each shard) and sends
// each path with every request-token class.  Requests are served in-process by the server's handler,
// i.e. through the real middleware chain and sub-router.
//
// case header: cfgtok=<enc> secrets=<enc,..>   (secrets: shard addresses and rule/config markers the
//              data responses contain; the monitor scans error bodies for them)
// op:          q via=<router|mw> m=<METHOD> dm=<0|1> tmpl=<enc> path=<enc> hdr=<none|one|two> tok=<enc> tok2=<enc>
//                (via=router: the real mux; via=mw: one instance of queryTokenChecker built when the case starts)
//                (dm=1: the walked route accepts this method)
//              qr … k=<1|2> to=<enc> …   like q, but a reload to <to> lands right after the k-th read of the
//                configured token inside the request (after the request if it reads fewer times); ext reads = <n>
//              reload tok=<enc>   the configured token changes while the router keeps running (no obs)
// ext:         secrets <status> = <n>          number of the secrets the response body contains
//              ni = <0|1>                      (refusals with a configured token only) the same request against a
//                                              different, also non-matching configured token gives the identical response
// obs:         class=error st=<n> body=<enc>   the token checker's refusal (status and JSON shape of ErrAuthNeeded)
//              class=data                      anything the route's own handler produced
//              class=proxied st=<n>            relayed answer of the stub upstream (the router did not handle the request)
//              class=other st=<n> body=<enc>   anything else (404, 405, 500 …)
package main

import (
	"fmt"
	"net/http"
	"net/http/httptest"
	"regexp"
	"sort"
	"strings"
	"sync"
	"unicode"

	"github.com/gorilla/mux"
	"github.com/honeycombio/refinery/collect"
	"github.com/honeycombio/refinery/config"
	kit "github.com/honeycombio/refinery/internal/verifkit"
	"github.com/honeycombio/refinery/logger"
	"github.com/honeycombio/refinery/metrics"
	"github.com/honeycombio/refinery/route"
	"github.com/honeycombio/refinery/sharder"
	"github.com/honeycombio/refinery/transmit"
	"github.com/honeycombio/refinery/types"
	"go.opentelemetry.io/otel/trace/noop"
)

type comp struct{}

const (
	selfAddr   = "http://verif-self-shard.internal:8081"
	peerAddr   = "http://verif-peer-shard.internal:8081"
	selfTrace  = "selftrace01"
	peerTrace  = "peertrace02"
	ruleMark   = "verif-secret-rule-name"
	fieldMark  = "verif_secret_field"
	cfgIDMark  = "verif-secret-config-id"
	cfgHashTag = "verifsecrethash0123"
)

var secrets = []string{selfAddr, peerAddr, ruleMark, fieldMark, cfgIDMark, cfgHashTag}

var formats = []string{"json", "yaml", "toml", "JSON", "xml"}

// methods of the request grid; which of them the /query routes accept is read off the walked mux
var methods = []string{"GET", "HEAD", "POST", "PUT", "DELETE", "PATCH", "OPTIONS"}

const upstreamMark = "X-Verif-Upstream"

// stubUpstream stands for the Honeycomb API: requests the router does not handle itself are proxied
// there.  Its answer carries a marker header so that it is never mistaken for query data.
func stubUpstream() *httptest.Server {
	return httptest.NewServer(http.HandlerFunc(func(w http.ResponseWriter, req *http.Request) {
		w.Header().Set(upstreamMark, req.Method)
		w.Header().Set("Content-Type", "application/json")
		w.Write([]byte(`{"upstream":"stub"}`))
	}))
}

// armedConfig is the router's configuration: the repo's MockConfig, plus the possibility to let a
// reload land in the middle of a request — right after the k-th read of QueryAuthToken.
type armedConfig struct {
	*config.MockConfig
	armed bool
	k     int
	to    string
	reads int
}

func (c *armedConfig) GetQueryAuthToken() string {
	v := c.MockConfig.GetQueryAuthToken()
	if c.armed {
		c.reads++
		if c.reads == c.k {
			c.MockConfig.Mux.Lock()
			c.MockConfig.QueryAuthToken = c.to
			c.MockConfig.Mux.Unlock()
			c.armed = false
		}
	}
	return v
}

type world struct {
	armedCfg *armedConfig
	conf    *config.MockConfig
	router  *route.Router
	handler http.Handler
	mux     *mux.Router
}

var (
	theWorld *world
	once     sync.Once
)

func getWorld() *world {
	once.Do(func() {
		w := &world{}
		w.conf = &config.MockConfig{
			GetListenAddrVal:     "127.0.0.1:0",
			GetPeerListenAddrVal: "127.0.0.1:0",
			GetHoneycombAPIVal:   stubUpstream().URL,
			GetSamplerTypeName:   "RulesBasedSampler",
			GetSamplerTypeVal: &config.RulesBasedSamplerConfig{Rules: []*config.RulesBasedSamplerRule{{
				Name:       ruleMark,
				SampleRate: 4242,
				Conditions: []*config.RulesBasedSamplerCondition{{Field: fieldMark, Operator: "exists"}},
			}}},
			CfgMetadata: []config.ConfigMetadata{{Type: "config", ID: cfgIDMark, Hash: cfgHashTag, LoadedAt: "2026-01-01T00:00:00Z"}},
		}
		w.armedCfg = &armedConfig{MockConfig: w.conf}
		up := &transmit.MockTransmission{}
		up.Start()
		peer := &transmit.MockTransmission{}
		peer.Start()
		w.router = &route.Router{
			Config:               w.armedCfg,
			Logger:               &logger.NullLogger{},
			HTTPTransport:        &http.Transport{},
			UpstreamTransmission: up,
			PeerTransmission:     peer,
			Sharder: &sharder.MockSharder{
				Self:  &sharder.TestShard{Addr: selfAddr},
				Other: &sharder.TestShard{Addr: peerAddr, TraceIDs: []string{peerTrace}},
			},
			Collector: collect.NewMockCollector(),
			Metrics:   &metrics.NullMetrics{},
			Tracer:    noop.Tracer{},
		}
		w.router.SetType(types.RouterTypeIncoming)
		w.router.LnS()
		w.handler = route.VerifAuthHandler(w.router)
		m, err := route.VerifAuthMux(w.router)
		if err != nil {
			panic(err)
		}
		w.mux = m
		theWorld = w
	})
	return theWorld
}

type qroute struct {
	tmpl    string
	methods []string
	outside bool // registered without an ancestor route (i.e. not inside the /query/ sub-router)
}

// queryRoutes walks the real mux and returns every leaf route whose template starts with /query.
func queryRoutes() []qroute {
	w := getWorld()
	var out []qroute
	err := w.mux.Walk(func(rt *mux.Route, _ *mux.Router, ancestors []*mux.Route) error {
		tmpl, err := rt.GetPathTemplate()
		if err != nil || !strings.HasPrefix(tmpl, "/query") {
			return nil
		}
		if rt.GetHandler() == nil {
			return nil // the mount point of a sub-router, not a leaf
		}
		ms, _ := rt.GetMethods()
		for _, a := range ancestors {
			if am, err := a.GetMethods(); err == nil && len(ms) == 0 {
				ms = am
			}
		}
		out = append(out, qroute{tmpl: tmpl, methods: ms, outside: len(ancestors) == 0})
		return nil
	})
	if err != nil {
		panic(err)
	}
	sort.Slice(out, func(i, j int) bool { return out[i].tmpl < out[j].tmpl })
	return out
}

var varRe = regexp.MustCompile(`\{([A-Za-z0-9_]+)(:[^}]*)?\}`)

// instantiate returns the concrete paths of a template: every format for {format}, a trace of each
// shard for {traceID}, a fixed value for any other variable.
func instantiate(tmpl string) []string {
	paths := []string{tmpl}
	for {
		loc := varRe.FindStringSubmatchIndex(paths[0])
		if loc == nil {
			return paths
		}
		name := paths[0][loc[2]:loc[3]]
		var vals []string
		switch name {
		case "format":
			vals = formats
		case "traceID":
			vals = []string{selfTrace, peerTrace}
		case "dataset":
			vals = []string{"dataset1"}
		default:
			vals = []string{"x1"}
		}
		var next []string
		for _, p := range paths {
			l := varRe.FindStringIndex(p)
			for _, v := range vals {
				next = append(next, p[:l[0]]+v+p[l[1]:])
			}
		}
		paths = next
	}
}

const tokAlphabet = "abcdefghijklmnopqrstuvwxyzABCDEFGHIJKLMNOPQRSTUVWXYZ0123456789"
const tokPunct = "-_.~!$*+/=@ "

func randToken(r *kit.Rng, n int) string {
	for {
		b := make([]byte, n)
		letter := false
		for i := range b {
			if i > 0 && i < n-1 && r.Chance(12) {
				b[i] = tokPunct[r.Intn(len(tokPunct))]
			} else {
				b[i] = tokAlphabet[r.Intn(len(tokAlphabet))]
			}
			if unicode.IsLetter(rune(b[i])) {
				letter = true
			}
		}
		s := string(b)
		ok := letter || n == 0
		for _, sec := range secrets {
			if strings.Contains(sec, s) || strings.Contains(s, sec) {
				ok = false
			}
		}
		if ok {
			return s
		}
	}
}

func swapCase(s string) string {
	b := []rune(s)
	for i, c := range b {
		if unicode.IsUpper(c) {
			b[i] = unicode.ToLower(c)
		} else if unicode.IsLower(c) {
			b[i] = unicode.ToUpper(c)
		}
	}
	return string(b)
}

type tokreq struct{ hdr, tok, tok2 string }

var genIdx int

// configured-token classes, enumerated round-robin (case index mod len)
var cfgClasses = []string{"empty", "ordinary", "whitespace-only", "outer-whitespace", "inner-whitespace", "long", "non-ascii", "ordinary"}

const nonASCII = "äöüßéñçøλжש日本語ключ"

func randRunes(r *kit.Rng, n int) string {
	rs := []rune(nonASCII)
	var b strings.Builder
	for i := 0; i < n; i++ {
		if r.Chance(40) {
			b.WriteByte(tokAlphabet[r.Intn(52)])
		} else {
			b.WriteRune(rs[r.Intn(len(rs))])
		}
	}
	return b.String()
}

func configuredToken(r *kit.Rng, class string, first bool) string {
	ws := []string{" ", "\t", "\n", "  ", " \t\n", "\r\n"}
	switch class {
	case "empty":
		return ""
	case "whitespace-only":
		return ws[r.Intn(len(ws))]
	case "outer-whitespace":
		t := randToken(r, 2+r.Intn(12))
		switch r.Intn(4) {
		case 0:
			return t + " "
		case 1:
			return " " + t
		case 2:
			return "\t" + t + "\n"
		}
		return " " + t + " "
	case "inner-whitespace":
		return randToken(r, 1+r.Intn(6)) + []string{" ", "\t", "  ", "\n"}[r.Intn(4)] + randToken(r, 1+r.Intn(6))
	case "long":
		return randToken(r, 600+r.Intn(900))
	case "non-ascii":
		return randRunes(r, 2+r.Intn(14))
	}
	n := []int{2, 3, 8, 16, 24, 40}[r.Intn(6)]
	if first {
		n = 16
	}
	return randToken(r, n)
}

// requestTokens: the request-token classes relative to the token configured at that moment; old is
// the token that was configured before the last reload ("" when there was none).
func requestTokens(r *kit.Rng, cfg, old string) []tokreq {
	var reqs []tokreq
	reqs = append(reqs, tokreq{"none", "", ""}, tokreq{"one", "", ""},
		tokreq{"one", " ", ""}, tokreq{"one", "\t", ""}, tokreq{"one", "\n", ""}, tokreq{"one", "  ", ""}) // whitespace-only request tokens
	if old != "" && old != cfg {
		reqs = append(reqs, tokreq{"one", old, ""}, tokreq{"two", old, cfg}) // the rotated-out token
	}
	if cfg == "" {
		return append(reqs, tokreq{"one", randToken(r, 1+r.Intn(20)), ""}, tokreq{"one", "x", ""},
			tokreq{"two", "", randToken(r, 6)}, tokreq{"two", " ", ""}, tokreq{"one", "null", ""}, tokreq{"one", randRunes(r, 4), ""})
	}
	other := randToken(r, len(cfg))
	for other == cfg || other == old {
		other = randToken(r, len(cfg))
	}
	trimmed := strings.TrimSpace(cfg)
	squeezed := strings.Join(strings.Fields(cfg), "")
	return append(reqs,
		tokreq{"one", cfg[:len(cfg)-1], ""},                // longest proper prefix
		tokreq{"one", cfg[:r.Intn(len(cfg))], ""},          // some proper prefix
		tokreq{"one", cfg[1:], ""},                         // proper suffix
		tokreq{"one", cfg + randToken(r, 1+r.Intn(3)), ""}, // extension
		tokreq{"one", randToken(r, 1) + cfg, ""},           // extension in front
		tokreq{"one", swapCase(cfg), ""},                   // case variant
		tokreq{"one", strings.ToUpper(cfg), ""},            // case variant
		tokreq{"one", strings.ToLower(cfg), ""},            // case variant
		tokreq{"one", cfg + " ", ""},                       // exact + trailing blank
		tokreq{"one", " " + cfg, ""},                       // leading blank + exact
		tokreq{"one", cfg + "\n", ""},                      // exact + newline
		tokreq{"one", trimmed, ""},                         // trimmed variant (= exact when there is nothing to trim)
		tokreq{"one", squeezed, ""},                        // all whitespace removed
		tokreq{"one", other, ""},                           // same length, different
		tokreq{"one", cfg, ""},                             // exact
		tokreq{"two", other, cfg},                          // exact only as second value
		tokreq{"two", "", cfg},                             // empty first value, exact second
		tokreq{"two", cfg, other},                          // exact as first value
	)
}

// reload classes: what the configured token is changed to while the router keeps running
var reloadClasses = []string{"other-token", "cleared", "whitespace-only"}

const mwTmpl = "middleware-instance" // requests served by ONE kept instance of the middleware (built before the reload)

// reduced: the request tokens sent with the methods the /query routes do not accept, and with every
// non-GET method to the kept middleware instance: absent, empty, exact, different, rotated-out
func reduced(r *kit.Rng, cfg, old string) []tokreq {
	reqs := []tokreq{{"none", "", ""}, {"one", "", ""}}
	other := randToken(r, 8)
	for other == cfg || other == old {
		other = randToken(r, 8)
	}
	reqs = append(reqs, tokreq{"one", other, ""})
	// a token with a line break is not a valid HTTP field value: the proxy route cannot relay it
	// (net/http refuses the upstream request, 503) — that is the proxy's behaviour, not a /query answer
	relayable := func(t string) bool { return !strings.ContainsAny(t, "\r\n") }
	if cfg != "" && relayable(cfg) {
		reqs = append(reqs, tokreq{"one", cfg, ""})
	}
	if old != "" && old != cfg && relayable(old) {
		reqs = append(reqs, tokreq{"one", old, ""})
	}
	return reqs
}

func phaseOps(reqs, red []tokreq) []string {
	var ops []string
	add := func(via, m string, dm bool, tmpl, path string, q tokreq) {
		ops = append(ops, fmt.Sprintf("q via=%s m=%s dm=%d tmpl=%s path=%s hdr=%s tok=%s tok2=%s", via, m, b01(dm), kit.Enc(tmpl), kit.Enc(path), q.hdr, kit.Enc(q.tok), kit.Enc(q.tok2)))
	}
	for _, rt := range queryRoutes() {
		accepts := func(m string) bool {
			for _, x := range rt.methods {
				if x == m {
					return true
				}
			}
			return len(rt.methods) == 0 // a route without a method matcher accepts every method
		}
		for _, p := range instantiate(rt.tmpl) {
			for _, m := range methods {
				qs := red
				if accepts(m) {
					qs = reqs // the full token grid on every method the route accepts
				}
				for _, q := range qs {
					add("router", m, accepts(m), rt.tmpl, p, q)
				}
			}
		}
	}
	for _, m := range methods {
		qs := red
		if m == "GET" {
			qs = reqs
		}
		for _, q := range qs {
			add("mw", m, true, mwTmpl, "/query/kept-instance", q)
		}
	}
	return ops
}

func b01(b bool) int {
	if b {
		return 1
	}
	return 0
}

// interleaveCase: requests during which a reload lands (right after the k-th read of the token inside
// the request).  These cases sit outside the exhaustive grid.
func interleaveCase(r *kit.Rng) kit.Case {
	class := []string{"ordinary", "outer-whitespace", "non-ascii", "long"}[r.Intn(4)]
	cfg := configuredToken(r, class, false)
	tos := []string{"", configuredToken(r, "ordinary", false), configuredToken(r, "whitespace-only", false)}
	var ops []string
	type target struct{ via, tmpl, path string }
	var targets []target
	for _, rt := range queryRoutes() {
		targets = append(targets, target{"router", rt.tmpl, instantiate(rt.tmpl)[0]})
	}
	targets = append(targets, target{"mw", mwTmpl, "/query/kept-instance"})
	for _, tg := range targets {
		for _, to := range tos {
			for k := 1; k <= 2; k++ {
				other := randToken(r, 8)
				reqs := []tokreq{{"none", "", ""}, {"one", "", ""}, {"one", " ", ""}, {"one", cfg, ""}, {"one", other, ""}, {"two", "", cfg}}
				if to != "" {
					reqs = append(reqs, tokreq{"one", to, ""})
				}
				for _, q := range reqs {
					ops = append(ops, fmt.Sprintf("qr via=%s m=GET dm=1 k=%d to=%s tmpl=%s path=%s hdr=%s tok=%s tok2=%s", tg.via, k, kit.Enc(to), kit.Enc(tg.tmpl), kit.Enc(tg.path), q.hdr, kit.Enc(q.tok), kit.Enc(q.tok2)))
					ops = append(ops, "reload tok="+kit.Enc(cfg))
				}
			}
		}
	}
	enc := make([]string, len(secrets))
	for i, s := range secrets {
		enc[i] = kit.Enc(s)
	}
	return kit.Case{Header: fmt.Sprintf("cfgtok=%s secrets=%s cls=interleave cls2=mid-request", kit.Enc(cfg), strings.Join(enc, ",")), Ops: ops}
}

var caseIdx int

func (comp) Gen(r *kit.Rng, maxLen int, tier string) kit.Case {
	ci := caseIdx
	caseIdx++
	if ci%7 == 6 {
		return interleaveCase(r) // every 7th case; the grid's round-robin (genIdx) is not advanced
	}
	idx := genIdx
	genIdx++
	class := cfgClasses[idx%len(cfgClasses)]
	cfg := configuredToken(r, class, idx == 1)
	// the reload: rotate over the reload classes independently of the first token's class
	class2 := reloadClasses[(idx/len(cfgClasses))%len(reloadClasses)]
	if cfg == "" && class2 == "cleared" {
		class2 = "other-token" // unconfigured -> configured
	}
	var cfg2 string
	switch class2 {
	case "cleared":
		cfg2 = ""
	case "whitespace-only":
		cfg2 = configuredToken(r, "whitespace-only", false)
		if cfg2 == cfg {
			cfg2 = cfg + " "
		}
	default:
		cfg2 = configuredToken(r, "ordinary", false)
		for cfg2 == cfg {
			cfg2 = configuredToken(r, "ordinary", false)
		}
	}
	ops := phaseOps(requestTokens(r, cfg, ""), reduced(r, cfg, ""))
	ops = append(ops, "reload tok="+kit.Enc(cfg2))
	ops = append(ops, phaseOps(requestTokens(r, cfg2, cfg), reduced(r, cfg2, cfg))...)
	enc := make([]string, len(secrets))
	for i, s := range secrets {
		enc[i] = kit.Enc(s)
	}
	return kit.Case{Header: fmt.Sprintf("cfgtok=%s secrets=%s cls=%s cls2=%s", kit.Enc(cfg), strings.Join(enc, ","), class, class2), Ops: ops}
}

type runner struct {
	w   *world
	cfg string
	mw  http.Handler // one instance of the token middleware, built when the case starts and kept across reloads
}

// dataHandler stands for a /query data handler behind the kept middleware instance: it answers with the secrets.
var dataHandler = http.HandlerFunc(func(w http.ResponseWriter, _ *http.Request) {
	w.Write([]byte(`{"node":"` + selfAddr + `","rule":"` + ruleMark + `"}`))
})

func (r *runner) setToken(t string) {
	r.w.conf.Mux.Lock()
	r.w.conf.QueryAuthToken = t
	r.w.conf.Mux.Unlock()
}

func (comp) NewCase(h []string) kit.Runner {
	r := &runner{w: getWorld(), cfg: kit.Dec(kit.KV(h, "cfgtok"))}
	r.setToken(r.cfg)
	r.mw = route.VerifAuthQueryChecker(r.w.router, dataHandler)
	return r
}

func (r *runner) Do(op []string) (string, bool) {
	if op[0] == "reload" {
		// the configuration is reloaded while the router keeps running: new token, reload callbacks
		r.cfg = kit.Dec(kit.KV(op, "tok"))
		r.setToken(r.cfg)
		r.w.conf.Reload()
		return "", false
	}
	mid := op[0] == "qr" // a reload lands in the middle of this request
	if op[0] != "q" && !mid {
		return "bad-op", true
	}
	handler := r.w.handler
	switch kit.KV(op, "via") {
	case "router", "":
	case "mw":
		handler = r.mw
	default:
		return "bad-op", true
	}
	path := kit.Dec(kit.KV(op, "path"))
	method := kit.KV(op, "m")
	if method == "" {
		method = "GET"
	}
	req := httptest.NewRequest(method, path, nil)
	switch kit.KV(op, "hdr") {
	case "one":
		req.Header[types.QueryTokenHeader] = []string{kit.Dec(kit.KV(op, "tok"))}
	case "two":
		req.Header[types.QueryTokenHeader] = []string{kit.Dec(kit.KV(op, "tok")), kit.Dec(kit.KV(op, "tok2"))}
	}
	rec := httptest.NewRecorder()
	if mid {
		ac := r.w.armedCfg
		to := kit.Dec(kit.KV(op, "to"))
		k := 1
		if kit.KV(op, "k") == "2" {
			k = 2
		}
		ac.armed, ac.k, ac.to, ac.reads = true, k, to, 0
		handler.ServeHTTP(rec, req)
		kit.Ext("reads = %d", ac.reads) // how often the request read the configured token
		ac.armed = false
		r.cfg = to
		r.setToken(to) // if the request read the token fewer than k times the reload lands right after it
		r.w.conf.Reload()
	} else {
		handler.ServeHTTP(rec, req)
	}
	body := rec.Body.String()
	nsec := 0
	for _, sec := range secrets {
		if strings.Contains(body, sec) {
			nsec++
		}
	}
	kit.Ext("secrets %d = %d", rec.Code, nsec) // how many of the case's secrets the body contains (data responses do)
	msg, status := route.VerifAuthErrAuthNeeded()
	isErr := rec.Code == status && strings.HasPrefix(body, `{"source":"refinery","error":"`+msg)
	if cfg := r.cfg; isErr && cfg != "" && !mid {
		// non-interference probe: the same request against a different (also non-matching) configured
		// token must be answered with the very same response
		alt := cfg + "~alt"
		if vs := req.Header[types.QueryTokenHeader]; len(vs) > 0 && vs[0] == alt {
			alt = cfg + "~alt2"
		}
		r.setToken(alt)
		req2 := httptest.NewRequest(method, path, nil)
		req2.Header = req.Header.Clone()
		rec2 := httptest.NewRecorder()
		handler.ServeHTTP(rec2, req2)
		r.setToken(cfg)
		same := 0
		if rec2.Code == rec.Code && rec2.Body.String() == body {
			same = 1
		}
		kit.Ext("ni = %d", same)
	}
	switch {
	case rec.Header().Get(upstreamMark) != "":
		// not handled by the router itself: relayed answer of the (stub) upstream API
		return fmt.Sprintf("class=proxied st=%d", rec.Code), true
	case isErr:
		return fmt.Sprintf("class=error st=%d body=%s", rec.Code, kit.Enc(body)), true
	case rec.Code >= 200 && rec.Code < 300:
		return "class=data", true
	}
	if len(body) > 300 {
		body = body[:300]
	}
	return fmt.Sprintf("class=other st=%d body=%s", rec.Code, kit.Enc(body)), true
}

func (r *runner) Close() {}

func leanSorted(m map[string]bool) string {
	var xs []string
	for k := range m {
		xs = append(xs, fmt.Sprintf("%q", k))
	}
	sort.Strings(xs)
	return "[" + strings.Join(xs, ", ") + "] ++ ([] : List String)"
}

func facts() map[string]string {
	msg, status := route.VerifAuthErrAuthNeeded()
	rts := queryRoutes()
	var names []string
	outside := 0
	mset := map[string]bool{}
	for _, rt := range rts {
		for _, m := range rt.methods {
			mset[m] = true
		}
		if len(rt.methods) == 0 {
			mset["*"] = true
		}
		names = append(names, fmt.Sprintf("%q", rt.tmpl))
		if rt.outside {
			outside++
		}
	}
	return map[string]string{
		"queryTokenHeader":            types.QueryTokenHeader,
		"errAuthNeededMsg":            msg,
		"errAuthNeededStatus":         fmt.Sprint(status),
		"queryMethods":                leanSorted(mset),
		"queryRouteCount":             fmt.Sprint(len(rts)),
		"queryRoutesOutsideSubrouter": fmt.Sprint(outside),
		"queryRoutes":                 "[" + strings.Join(names, ", ") + "] ++ ([] : List String)",
	}
}

func main() { kit.Main(comp{}, facts) }
