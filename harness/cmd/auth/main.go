//go:build verif

// Harness for ingest authorization and key replacement (property C24).
//
// One real route.Router is built per process with the repo's own mocks and started with LnS, so the
// HTTP side is the real gorilla mux with the real middleware chain (apiKeyProcessor on /1/, the OTLP
// handlers on /v1/); requests are served in-process through the server's handler.  The gRPC side is
// called in-process with incoming-metadata contexts: traces through customTraceExportHandler (the
// function registered in the service descriptor), logs through LogsServer.Export.
// What leaves the router is recorded at all three sinks (upstream transmission, peer transmission,
// collector); the observation is the status class, the rejection reason and the API key of every
// event that left.
//
// case header: mode=<m> aolk=<0|1> sk=<enc> rk=<enc,..|-> rkid=<enc,..|-> auth=<enckey>:<encid>,..|- grid=<n>
//              (grid: 1-based index of the configuration in the complete enumeration, 0 for a random case)
// op:          req ep=<endpoint> hdr=<long|short|none> key=<enc>
//              reconf mode=… aolk=… sk=… rk=… rkid=… auth=- grid=0   the access-key configuration is reloaded (no obs)
// ext:         legacy <enckey> = <0|1>      (config.IsLegacyAPIKey, an external function for the model)
//              authid <enckey> = <encid>    (what the stubbed /1/auth lookup answers for the key)
// obs:         st=<ok|unauth|other:..> why=<-|unlisted|blank|nohdr|other> sent=<enc,..|->
package main

import (
	"bytes"
	"context"
	"fmt"
	"net/http"
	"net/http/httptest"
	"sort"
	"strings"
	"sync"

	huskyotlp "github.com/honeycombio/husky/otlp"
	"github.com/honeycombio/refinery/collect"
	"github.com/honeycombio/refinery/config"
	kit "github.com/honeycombio/refinery/internal/verifkit"
	"github.com/honeycombio/refinery/logger"
	"github.com/honeycombio/refinery/metrics"
	"github.com/honeycombio/refinery/route"
	"github.com/honeycombio/refinery/sharder"
	"github.com/honeycombio/refinery/transmit"
	"github.com/honeycombio/refinery/types"
	"go.opentelemetry.io/otel/trace/noop"
	collectorlogs "go.opentelemetry.io/proto/otlp/collector/logs/v1"
	collectortrace "go.opentelemetry.io/proto/otlp/collector/trace/v1"
	common "go.opentelemetry.io/proto/otlp/common/v1"
	logspb "go.opentelemetry.io/proto/otlp/logs/v1"
	resource "go.opentelemetry.io/proto/otlp/resource/v1"
	tracepb "go.opentelemetry.io/proto/otlp/trace/v1"
	"google.golang.org/grpc/codes"
	"google.golang.org/grpc/metadata"
	"google.golang.org/grpc/status"
	"google.golang.org/protobuf/proto"
)

type comp struct{}

// "v1-mw" is ONE instance of apiKeyProcessor built when the process starts (before any of the cases'
// configurations is in force) in front of a handler that records the key it is handed; like the gRPC
// servers it is kept across all configuration changes.
var endpoints = []string{"event", "batch", "otlp-traces-http", "otlp-logs-http", "otlp-traces-grpc", "otlp-logs-grpc", "v1-mw"}

// sendKeyModes is the list of modes the configuration accepts (validation rejects anything else):
// the `choices` of AccessKeys.SendKeyMode in the embedded config metadata.
func sendKeyModes() []string {
	modesOnce.Do(func() {
		md, err := config.LoadConfigMetadata()
		if err != nil {
			panic(err)
		}
		f := md.GetField("AccessKeys.SendKeyMode")
		if f == nil || len(f.Choices) == 0 {
			panic("no choices for AccessKeys.SendKeyMode in config metadata")
		}
		modes = f.Choices
	})
	return modes
}

var (
	modes     []string
	modesOnce sync.Once
)

// ---------------------------------------------------------------------------------------------
// the world: one real router

type world struct {
	conf     *config.MockConfig
	router   *route.Router
	handler  http.Handler
	up, peer *transmit.MockTransmission
	coll     *collect.MockCollector
	traceSrv *route.TraceServer
	logsSrv  *route.LogsServer
	v1mw     http.Handler
	mwKeys   []string // keys the handler behind the kept apiKeyProcessor instance was handed
	mu       sync.Mutex
	auth     map[string]string // key -> key ID answered by the stubbed /1/auth
}

var (
	theWorld *world
	once     sync.Once
)

func getWorld() *world {
	once.Do(func() {
		w := &world{auth: map[string]string{}}
		w.conf = &config.MockConfig{
			GetListenAddrVal:     "127.0.0.1:0",
			GetPeerListenAddrVal: "127.0.0.1:0",
			GetGRPCEnabledVal:    false,
			GetHoneycombAPIVal:   "http://upstream.invalid",
			TraceIdFieldNames:    []string{"trace.trace_id", "traceId"},
			ParentIdFieldNames:   []string{"trace.parent_id", "parentId"},
		}
		w.up = &transmit.MockTransmission{Capacity: 1000}
		w.up.Start()
		w.peer = &transmit.MockTransmission{Capacity: 1000}
		w.peer.Start()
		w.coll = collect.NewMockCollector()
		w.router = &route.Router{
			Config:               w.conf,
			Logger:               &logger.NullLogger{},
			HTTPTransport:        &http.Transport{},
			UpstreamTransmission: w.up,
			PeerTransmission:     w.peer,
			Sharder:              &sharder.MockSharder{Self: &sharder.TestShard{Addr: "http://self:8081"}},
			Collector:            w.coll,
			Metrics:              &metrics.NullMetrics{},
			Tracer:               noop.Tracer{},
		}
		w.router.SetType(types.RouterTypeIncoming)
		w.router.LnS()
		w.handler = route.VerifAuthHandler(w.router)
		w.traceSrv = route.NewTraceServer(w.router)
		w.logsSrv = route.NewLogsServer(w.router)
		w.v1mw = route.VerifAuthAPIKeyProcessor(w.router, http.HandlerFunc(func(_ http.ResponseWriter, req *http.Request) {
			k := req.Header.Get(types.APIKeyHeader)
			if k == "" {
				k = req.Header.Get(types.APIKeyHeaderShort)
			}
			w.mwKeys = append(w.mwKeys, k)
		}))
		theWorld = w
	})
	return theWorld
}

func (w *world) lookup(key string) (string, string, error) {
	w.mu.Lock()
	defer w.mu.Unlock()
	return "env1", w.auth[key], nil
}

// drain returns the API keys of everything that left the router since the last call.
func (w *world) drain() []string {
	keys := w.mwKeys
	w.mwKeys = nil
	for {
		select {
		case ev := <-w.up.Events:
			keys = append(keys, ev.APIKey)
		case ev := <-w.peer.Events:
			keys = append(keys, ev.APIKey)
		case sp := <-w.coll.Spans:
			keys = append(keys, sp.APIKey)
		default:
			return keys
		}
	}
}

// ---------------------------------------------------------------------------------------------
// request bodies

var (
	traceBody []byte
	logsReq   *collectorlogs.ExportLogsServiceRequest
	logsBody  []byte
)

func init() {
	res := &resource.Resource{Attributes: []*common.KeyValue{{Key: "service.name", Value: &common.AnyValue{Value: &common.AnyValue_StringValue{StringValue: "svc"}}}}}
	treq := &collectortrace.ExportTraceServiceRequest{ResourceSpans: []*tracepb.ResourceSpans{{
		Resource: res,
		ScopeSpans: []*tracepb.ScopeSpans{{Spans: []*tracepb.Span{{
			TraceId: []byte{1, 2, 3, 4, 5, 6, 7, 8, 9, 10, 11, 12, 13, 14, 15, 16},
			SpanId:  []byte{1, 2, 3, 4, 5, 6, 7, 8},
			Name:    "span",
		}}}},
	}}}
	var err error
	if traceBody, err = proto.Marshal(treq); err != nil {
		panic(err)
	}
	logsReq = &collectorlogs.ExportLogsServiceRequest{ResourceLogs: []*logspb.ResourceLogs{{
		Resource: res,
		ScopeLogs: []*logspb.ScopeLogs{{LogRecords: []*logspb.LogRecord{{
			SeverityText: "info",
			Body:         &common.AnyValue{Value: &common.AnyValue_StringValue{StringValue: "log line"}},
		}}}},
	}}}
	if logsBody, err = proto.Marshal(logsReq); err != nil {
		panic(err)
	}
}

// ---------------------------------------------------------------------------------------------
// generator

const hexDigits = "0123456789abcdef"
const lowerAlnum = "0123456789abcdefghijklmnopqrstuvwxyz"
const mixedAlnum = "0123456789abcdefghijklmnopqrstuvwxyzABCDEFGHIJKLMNOPQRSTUVWXYZ"

func randStr(r *kit.Rng, alphabet string, n int) string {
	b := make([]byte, n)
	for i := range b {
		b[i] = alphabet[r.Intn(len(alphabet))]
	}
	return string(b)
}

// classicKey: a key config.IsLegacyAPIKey recognises (32 hex, or a 64 character hc?ic_ ingest key).
func classicKey(r *kit.Rng) string {
	for {
		var k string
		if r.Chance(60) {
			k = randStr(r, hexDigits, 32)
		} else {
			k = "hc" + randStr(r, "abcdefghijklmnopqrstuvwxyz", 1) + "ic_" + randStr(r, lowerAlnum, 58)
		}
		if config.IsLegacyAPIKey(k) {
			return k
		}
	}
}

// esKey: an environment & services key (22 mixed-case characters, or a 64 character hc?ik_ ingest key).
func esKey(r *kit.Rng) string {
	for {
		var k string
		switch r.Intn(3) {
		case 0:
			k = randStr(r, mixedAlnum, 22)
		case 1:
			k = "hc" + randStr(r, "abcdefghijklmnopqrstuvwxyz", 1) + "ik_" + randStr(r, lowerAlnum, 58)
		default:
			k = randStr(r, mixedAlnum, 32) // 32 characters but not lower-case hex
		}
		if !config.IsLegacyAPIKey(k) {
			return k
		}
	}
}

func encList(xs []string) string {
	if len(xs) == 0 {
		return "-"
	}
	out := make([]string, len(xs))
	for i, x := range xs {
		out[i] = kit.Enc(x)
	}
	return strings.Join(out, ",")
}

func decList(s string) []string {
	if s == "-" || s == "" {
		return nil
	}
	parts := strings.Split(s, ",")
	out := make([]string, len(parts))
	for i, p := range parts {
		out[i] = kit.Dec(p)
	}
	return out
}

var genIdx int // index of the case within this `gen` invocation: the first gridSize cases enumerate the grid

// GridSize is the number of configurations of the complete enumeration:
// mode × AcceptOnlyListedKeys × SendKey {unset, classic, E&S} × ReceiveKeys {none, set} × ReceiveKeyIDs {none, set}.
func gridSize() int { return len(sendKeyModes()) * 2 * 3 * 2 * 2 }

type keyset struct {
	send, lc, le, ie, ic, uc, ue, idListed, idOther string
}

func distinctKeys(r *kit.Rng, skShape int) keyset {
	for {
		ks := keyset{lc: classicKey(r), le: esKey(r), ie: esKey(r), ic: classicKey(r), uc: classicKey(r), ue: esKey(r),
			idListed: "hcxik_" + randStr(r, lowerAlnum, 20), idOther: "hcxik_" + randStr(r, lowerAlnum, 20)}
		if skShape == 1 {
			ks.send = classicKey(r)
		} else {
			ks.send = esKey(r) // also the "looks like a send key" client key when no SendKey is configured
		}
		seen := map[string]bool{}
		ok := true
		for _, k := range []string{ks.send, ks.lc, ks.le, ks.ie, ks.ic, ks.uc, ks.ue, ks.idListed, ks.idOther} {
			if seen[k] {
				ok = false
			}
			seen[k] = true
		}
		if ok {
			return ks
		}
	}
}

func authStr(m map[string]string) string {
	if len(m) == 0 {
		return "-"
	}
	var ks []string
	for k := range m {
		ks = append(ks, k)
	}
	sort.Strings(ks)
	out := make([]string, len(ks))
	for i, k := range ks {
		out[i] = kit.Enc(k) + ":" + kit.Enc(m[k])
	}
	return strings.Join(out, ",")
}

func header(mode string, aolk bool, sk string, rk, rkid []string, auth map[string]string, grid int) string {
	a := 0
	if aolk {
		a = 1
	}
	return fmt.Sprintf("mode=%s aolk=%d sk=%s rk=%s rkid=%s auth=%s grid=%d", kit.Enc(mode), a, kit.Enc(sk), encList(rk), encList(rkid), authStr(auth), grid)
}

func (comp) Gen(r *kit.Rng, maxLen int, tier string) kit.Case {
	modes := sendKeyModes()
	idx := genIdx
	genIdx++
	if idx < gridSize() {
		// complete enumeration of the configuration grid; every request class on every endpoint
		i := idx
		mode := modes[i%len(modes)]
		i /= len(modes)
		aolk := i%2 == 1
		i /= 2
		skShape := i % 3 // 0 unset, 1 classic, 2 E&S
		i /= 3
		rkSet := i%2 == 1
		i /= 2
		rkidSet := i%2 == 1
		ks := distinctKeys(r, skShape)
		sk := ks.send
		if skShape == 0 {
			sk = ""
		}
		var rk, rkid []string
		if rkSet {
			rk = []string{ks.lc, ks.le}
		}
		if rkidSet {
			rkid = []string{ks.idListed}
		}
		// what /1/auth would answer: ie and (if it were ever asked) the classic ic have the listed ID
		auth := map[string]string{ks.ie: ks.idListed, ks.ic: ks.idListed, ks.ue: ks.idOther, ks.le: ks.idOther, ks.send: ks.idOther}
		var ops []string
		for _, ep := range endpoints {
			for _, k := range []string{"", ks.send, ks.lc, ks.le, ks.ie, ks.ic, ks.uc, ks.ue} {
				ops = append(ops, fmt.Sprintf("req ep=%s hdr=long key=%s", ep, kit.Enc(k)))
			}
			for _, k := range []string{"", ks.le, ks.ue} {
				ops = append(ops, fmt.Sprintf("req ep=%s hdr=short key=%s", ep, kit.Enc(k)))
			}
			ops = append(ops, fmt.Sprintf("req ep=%s hdr=none key=%%", ep))
		}
		return kit.Case{Header: header(mode, aolk, sk, rk, rkid, auth, idx+1), Ops: ops}
	}
	// beyond the grid: random configurations with longer lists, odd list members and near-miss keys
	mode := modes[r.Intn(len(modes))]
	if r.Chance(6) {
		mode = []string{"ALL", "", "None", "bogus"}[r.Intn(4)] // not reachable through validation; the switch has no default
	}
	ks := distinctKeys(r, 1+r.Intn(2))
	sk := ks.send
	if r.Chance(20) {
		sk = ""
	}
	var rk, rkid []string
	pool := []string{ks.lc, ks.le, classicKey(r), esKey(r)}
	for _, k := range pool {
		if r.Chance(50) {
			rk = append(rk, k)
		}
	}
	if r.Chance(15) && sk != "" {
		rk = append(rk, sk) // SendKey listed as well
	}
	if r.Chance(8) {
		rk = append(rk, "") // the empty string as a list member
	}
	if r.Chance(50) {
		rkid = append(rkid, ks.idListed)
		if r.Chance(30) {
			rkid = append(rkid, "hcxik_"+randStr(r, lowerAlnum, 20))
		}
		if r.Chance(8) {
			rkid = append(rkid, "")
		}
	}
	auth := map[string]string{ks.ie: ks.idListed, ks.ic: ks.idListed, ks.ue: ks.idOther, ks.le: ks.idOther, ks.send: ks.idOther}
	if r.Chance(20) {
		auth[ks.send] = ks.idListed // the SendKey's own ID is listed
	}
	cands := []string{"", ks.send, ks.lc, ks.le, ks.ie, ks.ic, ks.uc, ks.ue}
	for _, k := range pool[2:] {
		cands = append(cands, k)
	}
	near := func(k string) []string {
		return []string{k[:len(k)-1], k + "0", strings.ToUpper(k), k + " ", " " + k}
	}
	for _, k := range []string{ks.lc, ks.le, ks.send} {
		n := near(k)
		cands = append(cands, n[r.Intn(len(n))])
	}
	aolk := r.Chance(60)
	var ops []string
	if r.Chance(25) {
		// boundary configuration: the empty string as a member of ReceiveKeyIDs and/or ReceiveKeys with
		// AcceptOnlyListedKeys on, probed on every endpoint with the keys that have no key ID (blank,
		// classic) and one that has
		switch r.Intn(3) {
		case 0:
			rkid = append(rkid, "")
		case 1:
			rk = append(rk, "")
		default:
			rkid = append(rkid, "")
			rk = append(rk, "")
		}
		if len(rkid) > 0 && rkid[0] == "" {
			rkid = append([]string{ks.idListed}, rkid...)
		}
		aolk = true
		for _, ep := range endpoints {
			for _, k := range []string{"", ks.uc, ks.ic, ks.ue, ks.ie} {
				ops = append(ops, fmt.Sprintf("req ep=%s hdr=long key=%s", ep, kit.Enc(k)))
			}
		}
	}
	n := 8 + r.Intn(maxLen+1)
	reconfAt := -1
	if r.Chance(60) {
		reconfAt = 1 + r.Intn(n-1) // reload the access-key configuration in the middle of the case
	}
	for i := 0; i < n; i++ {
		if i == reconfAt {
			mode2 := modes[r.Intn(len(modes))]
			sk2 := sk
			if r.Chance(40) {
				sk2 = []string{"", ks.send, ks.uc}[r.Intn(3)]
			}
			rk2 := rk
			if r.Chance(50) {
				rk2 = nil
				for _, k := range pool {
					if r.Chance(50) {
						rk2 = append(rk2, k)
					}
				}
			}
			rkid2 := rkid
			if r.Chance(40) {
				rkid2 = nil
				if r.Chance(50) {
					rkid2 = []string{ks.idListed}
				}
			}
			ops = append(ops, "reconf "+header(mode2, r.Chance(60), sk2, rk2, rkid2, nil, 0))
		}
		hdr := "long"
		switch r.Pick(80, 12, 8) {
		case 1:
			hdr = "short"
		case 2:
			hdr = "none"
		}
		k := cands[r.Intn(len(cands))]
		if hdr == "none" {
			k = ""
		}
		ops = append(ops, fmt.Sprintf("req ep=%s hdr=%s key=%s", endpoints[r.Intn(len(endpoints))], hdr, kit.Enc(k)))
	}
	return kit.Case{Header: header(mode, aolk, sk, rk, rkid, auth, 0), Ops: ops}
}

// ---------------------------------------------------------------------------------------------
// runner

type runner struct {
	w  *world
	sk string
}

func applyConfig(w *world, h []string) config.AccessKeyConfig {
	ak := config.AccessKeyConfig{
		ReceiveKeys:          decList(kit.KV(h, "rk")),
		ReceiveKeyIDs:        decList(kit.KV(h, "rkid")),
		SendKey:              kit.Dec(kit.KV(h, "sk")),
		SendKeyMode:          kit.Dec(kit.KV(h, "mode")),
		AcceptOnlyListedKeys: kit.KV(h, "aolk") == "1",
	}
	w.conf.Mux.Lock()
	w.conf.GetAccessKeyConfigVal = ak
	w.conf.Mux.Unlock()
	return ak
}

func (comp) NewCase(h []string) kit.Runner {
	w := getWorld()
	w.drain()
	ak := applyConfig(w, h)
	w.mu.Lock()
	w.auth = map[string]string{}
	if a := kit.KV(h, "auth"); a != "-" && a != "" {
		for _, p := range strings.Split(a, ",") {
			kv := strings.SplitN(p, ":", 2)
			if len(kv) == 2 {
				w.auth[kit.Dec(kv[0])] = kit.Dec(kv[1])
			}
		}
	}
	w.mu.Unlock()
	route.VerifAuthSetEnvLookup(w.router, w.lookup) // fresh cache per case
	return &runner{w: w, sk: ak.SendKey}
}

func b01(b bool) int {
	if b {
		return 1
	}
	return 0
}

func whyOf(msg string) string {
	switch {
	case strings.Contains(msg, "not found in list of authorized keys"):
		return "unlisted"
	case strings.Contains(msg, "blank API key is not permitted"):
		return "blank"
	case strings.Contains(msg, "missing 'x-honeycomb-team' header"):
		return "nohdr"
	}
	return "other"
}

func (r *runner) Do(op []string) (string, bool) {
	if op[0] == "reconf" {
		// the access-key configuration is reloaded while router, gRPC servers and the kept middleware
		// instance keep running
		ak := applyConfig(r.w, op[1:])
		r.sk = ak.SendKey
		r.w.conf.Reload()
		return "", false
	}
	if op[0] != "req" {
		return "bad-op", true
	}
	ep, hdr, key := kit.KV(op, "ep"), kit.KV(op, "hdr"), kit.Dec(kit.KV(op, "key"))
	w := r.w
	for _, k := range []string{key, r.sk} {
		kit.Ext("legacy %s = %d", kit.Enc(k), b01(config.IsLegacyAPIKey(k)))
		w.mu.Lock()
		id := w.auth[k]
		w.mu.Unlock()
		kit.Ext("authid %s = %s", kit.Enc(k), kit.Enc(id))
	}
	w.drain()
	st, why := "", "-"
	switch ep {
	case "event", "batch", "otlp-traces-http", "otlp-logs-http", "v1-mw":
		var path, ct string
		var body []byte
		switch ep {
		case "event":
			path, ct, body = "/1/events/ds1", "application/json", []byte(`{"f":1}`)
		case "batch":
			path, ct, body = "/1/batch/ds1", "application/json", []byte(`[{"data":{"f":1}}]`)
		case "v1-mw":
			path, ct, body = "/1/events/ds1", "application/json", []byte(`{"f":1}`)
		case "otlp-traces-http":
			path, ct, body = "/v1/traces", "application/protobuf", traceBody
		default:
			path, ct, body = "/v1/logs", "application/protobuf", logsBody
		}
		req := httptest.NewRequest("POST", path, bytes.NewReader(body))
		req.Header.Set("Content-Type", ct)
		req.Header.Set("X-Honeycomb-Dataset", "ds1")
		switch hdr {
		case "long":
			req.Header.Set(types.APIKeyHeader, key)
		case "short":
			req.Header.Set(types.APIKeyHeaderShort, key)
		}
		rec := httptest.NewRecorder()
		if ep == "v1-mw" {
			w.v1mw.ServeHTTP(rec, req)
		} else {
			w.handler.ServeHTTP(rec, req)
		}
		switch {
		case rec.Code >= 200 && rec.Code < 300:
			st = "ok"
		case rec.Code == http.StatusUnauthorized:
			st, why = "unauth", whyOf(rec.Body.String())
		default:
			st, why = fmt.Sprintf("other:%d", rec.Code), whyOf(rec.Body.String())
		}
	case "otlp-traces-grpc", "otlp-logs-grpc":
		md := metadata.MD{}
		md.Set("x-honeycomb-dataset", "ds1")
		switch hdr {
		case "long":
			md.Set("x-honeycomb-team", key)
		case "short":
			md.Set("x-hny-team", key)
		}
		ctx := metadata.NewIncomingContext(context.Background(), md)
		var err error
		if ep == "otlp-traces-grpc" {
			_, err = route.VerifAuthTraceExport(w.traceSrv, ctx, traceBody)
		} else {
			_, err = w.logsSrv.Export(ctx, logsReq)
		}
		switch c := status.Code(err); {
		case err == nil:
			st = "ok"
		case c == codes.Unauthenticated:
			st, why = "unauth", whyOf(err.Error())
		default:
			st, why = "other:"+c.String(), whyOf(err.Error())
		}
	default:
		return "bad-op", true
	}
	sent := w.drain()
	return fmt.Sprintf("st=%s why=%s sent=%s", st, why, encList(sent)), true
}

func (r *runner) Close() {}

// ---------------------------------------------------------------------------------------------
// facts: values the theorems depend on, computed by the compiled code

func leanStrList(xs []string) string {
	q := make([]string, len(xs))
	for i, x := range xs {
		q[i] = fmt.Sprintf("%q", x)
	}
	return "[" + strings.Join(q, ", ") + "]"
}

func facts() map[string]string {
	modes := sendKeyModes()
	// The replacement table as the compiled GetReplaceKey computes it on one representative per key
	// class: (mode, SendKey set?, class, action).
	var rows []string
	for _, m := range modes {
		for _, set := range []bool{false, true} {
			sk := ""
			if set {
				sk = "S"
			}
			cfg := config.AccessKeyConfig{ReceiveKeys: []string{"L"}, ReceiveKeyIDs: []string{"I"}, SendKey: sk, SendKeyMode: m}
			type rep struct{ class, key, id string }
			reps := []rep{{"blank", "", ""}, {"sendkey", "S", ""}, {"listed", "L", ""}, {"listedbyid", "X", "I"}, {"unlisted", "U", "J"}}
			for _, rp := range reps {
				if rp.class == "sendkey" && !set {
					continue
				}
				got, err := cfg.GetReplaceKey(rp.key, rp.id)
				act := "other"
				switch {
				case err != nil:
					act = "reject"
				case got == rp.key:
					act = "keep"
				case got == sk:
					act = "sendkey"
				}
				rows = append(rows, fmt.Sprintf("(%q, %v, %q, %q)", m, set, rp.class, act))
			}
		}
	}
	blank := huskyotlp.RequestInfo{ContentType: "application/protobuf"}
	_, lerr := huskyotlp.TranslateLogsRequest(context.Background(), &collectorlogs.ExportLogsServiceRequest{}, blank)
	_, terr := huskyotlp.UnmarshalTraceRequestDirectMsgp(context.Background(), nil, blank)
	return map[string]string{
		"sendKeyModes":            leanStrList(modes),
		"replaceTable":            "[" + strings.Join(rows, ", ") + "]",
		"huskyLogsRejectsBlank":   fmt.Sprint(b01(lerr == huskyotlp.ErrMissingAPIKeyHeader)),
		"huskyTracesRejectsBlank": fmt.Sprint(b01(terr == huskyotlp.ErrMissingAPIKeyHeader)),
		"apiKeyHeader":            types.APIKeyHeader,
		"apiKeyHeaderShort":       types.APIKeyHeaderShort,
		"gridSize":                fmt.Sprint(gridSize()),
	}
}

func main() { kit.Main(comp{}, facts) }
