//go:build verif

// Race-detector scenarios for property C35 (built with -race by checks/C35.py).
//
// Every scenario starts *real* components of /repo, drives them from several goroutines for a
// bounded time through their public entry points only (the harness itself never touches shared
// state without going through those entry points), and stops them.  The Go race detector
// (GORACE="halt_on_error=0 exitcode=0 log_path=…") writes one report per racing pair of accesses;
// checks/C35.py maps the two stacks of a report to the access facts of the extractor.
//
//	vh_races_race [-ms 1500] [-seed 1] [-procs 8] [-scenario all|collector|sentcache|stress|transmit|config|watcher|peers|sharder|metrics|envcache]
//
// Output: one line `scenario <name> ops=<n>` per scenario, then `RACES-DONE`.
package main

import (
	"context"
	"flag"
	"fmt"
	"net/http"
	"net/http/httptest"
	"os"
	"path/filepath"
	"runtime"
	"sync"
	"sync/atomic"
	"time"

	"github.com/jonboulle/clockwork"
	"go.opentelemetry.io/otel/trace/noop"

	"github.com/honeycombio/refinery/collect"
	"github.com/honeycombio/refinery/collect/cache"
	"github.com/honeycombio/refinery/config"
	"github.com/honeycombio/refinery/internal/configwatcher"
	"github.com/honeycombio/refinery/internal/peer"
	"github.com/honeycombio/refinery/logger"
	"github.com/honeycombio/refinery/metrics"
	"github.com/honeycombio/refinery/pubsub"
	"github.com/honeycombio/refinery/route"
	"github.com/honeycombio/refinery/sample"
	"github.com/honeycombio/refinery/sharder"
	"github.com/honeycombio/refinery/transmit"
	"github.com/honeycombio/refinery/types"
)

var (
	budget = 1500 * time.Millisecond
	seed   = int64(1)
)

// ---------------------------------------------------------------------------- helpers

type nullHealth struct{}

func (nullHealth) Register(string, time.Duration) {}
func (nullHealth) Unregister(string)              {}
func (nullHealth) Ready(string, bool)             {}
func (nullHealth) IsAlive() bool                  { return true }
func (nullHealth) IsReady() bool                  { return true }

// sinkTx counts what the collector hands to the upstream transmission.
type sinkTx struct{ n atomic.Int64 }

func (s *sinkTx) EnqueueEvent(*types.Event) { s.n.Add(1) }
func (s *sinkTx) EnqueueSpan(*types.Span)   { s.n.Add(1) }

// run starts g goroutines executing f(worker, iteration) until the budget is used up, with a
// spin barrier so that they really overlap, and returns the number of calls made.
func run(d time.Duration, fs ...func(i int)) int64 {
	var ops atomic.Int64
	var ready atomic.Int32
	var wg sync.WaitGroup
	stop := make(chan struct{})
	n := int32(len(fs))
	for _, f := range fs {
		wg.Add(1)
		go func(f func(int)) {
			defer wg.Done()
			ready.Add(1)
			for ready.Load() < n {
				runtime.Gosched()
			}
			for i := 0; ; i++ {
				select {
				case <-stop:
					return
				default:
				}
				f(i)
				ops.Add(1)
			}
		}(f)
	}
	time.Sleep(d)
	close(stop)
	wg.Wait()
	return ops.Load()
}

func mockConfig(workers int) *config.MockConfig {
	return &config.MockConfig{
		GetTracesConfigVal: config.TracesConfig{
			SendTicker:   config.Duration(2 * time.Millisecond),
			SendDelay:    config.Duration(1 * time.Millisecond),
			TraceTimeout: config.Duration(5 * time.Millisecond),
			MaxBatchSize: 50,
		},
		SampleCache: config.SampleCacheConfig{
			KeptSize:          uint(200 * workers),
			DroppedSize:       uint(20000 * workers),
			SizeCheckInterval: config.Duration(5 * time.Millisecond),
			WorkerCount:       uint(workers),
		},
		GetCollectionConfigVal: config.CollectionConfig{
			WorkerCount:       workers,
			IncomingQueueSize: 4096 * workers,
			PeerQueueSize:     4096 * workers,
			HealthCheckTimeout: config.Duration(time.Second),
		},
		StressRelief: config.StressReliefConfig{
			Mode: "monitor", ActivationLevel: 1, DeactivationLevel: 0, SamplingRate: 2,
			MinimumActivationDuration: config.Duration(time.Millisecond),
		},
		Samplers: map[string]*config.V2SamplerChoice{
			"__default__": {DeterministicSampler: &config.DeterministicSamplerConfig{SampleRate: 2}},
		},
		GetPeerListenAddrVal: "0.0.0.0:8081",
		RedisIdentifier:      "self",
		PeerTimeout:          time.Second,
		GetGeneralConfigVal:  config.GeneralConfig{ConfigReloadInterval: config.Duration(3 * time.Millisecond)},
		AddRuleReasonToTrace: true,
		AddCountsToRoot:      true,
		TraceIdFieldNames:    []string{"trace.trace_id"},
		ParentIdFieldNames:   []string{"trace.parent_id"},
	}
}

func span(conf config.Config, tid string, root bool, n int) *types.Span {
	return &types.Span{TraceID: tid, IsRoot: root, Event: &types.Event{
		Context:     context.Background(),
		APIHost:     "http://upstream.invalid",
		APIKey:      "key0123456789abcdefghij",
		Dataset:     "d",
		Environment: "e",
		SampleRate:  1,
		Timestamp:   time.Unix(1700000000, 0),
		Data:        types.NewPayload(conf, map[string]any{"id": n, "trace.trace_id": tid}),
	}}
}

// ---------------------------------------------------------------------------- scenarios

// collector: real InMemCollector (3 workers) + real StressRelief + real MultiMetrics + LocalPubSub.
// Router-like goroutines call AddSpan / AddSpanFromPeer / ProcessSpanImmediately / Stressed, another
// one triggers config reloads (MockConfig.Reload → the collector's callback → monitor →
// workers: clear samplers + Resize), another one publishes stress levels of a peer.
func scCollector() int64 {
	const workers = 3
	conf := mockConfig(workers)
	clock := clockwork.NewRealClock()
	met := metrics.NewMultiMetrics()
	met.Config = conf
	must(met.Start())
	ps := &pubsub.LocalPubSub{Config: conf, Metrics: met}
	must(ps.Start())
	peers := peer.NewMockPeers([]string{"http://self:8081"}, "http://self:8081")
	sr := &collect.StressRelief{RefineryMetrics: met, Config: conf, Logger: &logger.NullLogger{}, Health: nullHealth{},
		PubSub: ps, Peer: peers, Clock: clock, Done: make(chan struct{})}
	must(sr.Start())
	sf := &sample.SamplerFactory{Config: conf, Metrics: met, Logger: &logger.NullLogger{}, Peers: peers}
	must(sf.Start())
	tx := &sinkTx{}
	coll := &collect.InMemCollector{
		Config: conf, Clock: clock, Logger: &logger.NullLogger{}, Tracer: noop.NewTracerProvider().Tracer("verif"),
		Health: nullHealth{}, Transmission: tx, PeerTransmission: &sinkTx{}, PubSub: ps, Metrics: met,
		StressRelief: sr, SamplerFactory: sf, Peers: peers,
		Sharder: &sharder.MockSharder{Self: &sharder.TestShard{Addr: "http://self:8081"}},
	}
	must(coll.Start())
	topic := ps.FormatTopic("refinery-stress-relief")
	var seq atomic.Int64
	tid := func(i int) string { return fmt.Sprintf("t%d", (int64(i)+seq.Add(1))%4000) }
	ops := run(budget,
		func(i int) { coll.AddSpan(span(conf, tid(i), i%3 == 0, i)) },
		func(i int) { coll.AddSpanFromPeer(span(conf, tid(i), i%5 == 0, i)) },
		func(i int) { coll.ProcessSpanImmediately(span(conf, tid(i), true, i)) },
		func(i int) { coll.ProcessSpanImmediately(span(conf, tid(i), false, i)) },
		func(i int) {
			coll.Stressed()
			coll.GetStressedSampleRate(tid(i))
			if i%50 == 0 {
				time.Sleep(200 * time.Microsecond)
			}
		},
		func(i int) { conf.Reload(); time.Sleep(time.Millisecond) },
		func(i int) {
			ps.Publish(context.Background(), topic, fmt.Sprintf("peer%d|%d", i%3, 10+i%80))
			time.Sleep(500 * time.Microsecond)
		},
		func(i int) { met.Get("collector_incoming_queue_length"); met.Get("memory_heap_allocation"); time.Sleep(100 * time.Microsecond) },
	)
	coll.Stop()
	close(sr.Done)
	ps.Stop()
	return ops
}

// sentcache: one real cuckooSentCache used the way the collector uses it — the owner (worker)
// records decisions, checks spans and resizes; other goroutines (routers through
// ProcessSpanImmediately) check spans and record decisions.
func scSentCache() int64 {
	conf := mockConfig(1)
	met := &metrics.NullMetrics{}
	c, err := cache.NewCuckooSentCache(conf.SampleCache, met)
	must(err)
	tr := func(i int) *types.Trace {
		t := &types.Trace{TraceID: fmt.Sprintf("t%d", i%3000)}
		t.SetSampleRate(2)
		return t
	}
	ops := run(budget,
		func(i int) { c.Record(tr(i), i%2 == 0, "r") },
		func(i int) { c.CheckSpan(span(conf, fmt.Sprintf("t%d", i%3000), false, i)) },
		func(i int) { c.CheckSpan(span(conf, fmt.Sprintf("t%d", (i*7)%3000), false, i)) },
		func(i int) { c.Record(tr(i*3), i%3 == 0, "q") },
		func(i int) { c.CheckTrace(fmt.Sprintf("t%d", i%3000)) },
		func(i int) {
			cfg := conf.SampleCache
			cfg.KeptSize = uint(100 + i%200)
			c.Resize(cfg)
			time.Sleep(time.Millisecond)
		},
	)
	c.Stop()
	return ops
}

// stress: real StressRelief with its own ticker goroutine (Recalc), peers' stress messages over
// LocalPubSub, config updates and the router-side queries.
func scStress() int64 {
	conf := mockConfig(1)
	met := metrics.NewMultiMetrics()
	met.Config = conf
	must(met.Start())
	ps := &pubsub.LocalPubSub{Config: conf, Metrics: met}
	must(ps.Start())
	peers := peer.NewMockPeers([]string{"http://self:8081"}, "http://self:8081")
	sr := &collect.StressRelief{RefineryMetrics: met, Config: conf, Logger: &logger.NullLogger{}, Health: nullHealth{},
		PubSub: ps, Peer: peers, Clock: clockwork.NewRealClock(), Done: make(chan struct{})}
	must(sr.Start())
	sr.UpdateFromConfig()
	met.Store("INCOMING_CAP", 100)
	met.Store("PEER_CAP", 100)
	met.Store("MEMORY_MAX_ALLOC", 1000)
	topic := ps.FormatTopic("refinery-stress-relief")
	ops := run(budget,
		func(i int) { sr.Stressed() },
		func(i int) { sr.GetSampleRate(fmt.Sprintf("t%d", i)) },
		func(i int) { sr.UpdateFromConfig(); time.Sleep(300 * time.Microsecond) },
		func(i int) {
			ps.Publish(context.Background(), topic, fmt.Sprintf("peer%d|%d", i%5, i%100))
			time.Sleep(200 * time.Microsecond)
		},
		func(i int) {
			met.Gauge("collector_incoming_queue_length", float64(i%100))
			met.Gauge("collector_peer_queue_length", float64((i*3)%100))
			met.Gauge("memory_heap_allocation", float64((i*7)%1000))
			time.Sleep(100 * time.Microsecond)
		},
	)
	close(sr.Done)
	ps.Stop()
	return ops
}

// transmit: real DirectTransmission against a local HTTP server; several enqueuers (several
// destinations, small batches so that size- and time-triggered dispatch both happen), then Stop
// after the enqueuers have returned (the order the application guarantees).
func scTransmit() int64 {
	srv := httptest.NewServer(http.HandlerFunc(func(w http.ResponseWriter, r *http.Request) {
		w.Header().Set("Content-Type", "application/json")
		w.WriteHeader(200)
		w.Write([]byte("[]"))
	}))
	defer srv.Close()
	conf := mockConfig(1)
	met := metrics.NewMultiMetrics()
	met.Config = conf
	must(met.Start())
	dt := transmit.NewDirectTransmission(types.TransmitTypeUpstream, &http.Transport{}, 8, 4*time.Millisecond, 2*time.Second, false, nil)
	dt.Config = conf
	dt.Logger = &logger.NullLogger{}
	dt.Metrics = met
	dt.Version = "verif"
	must(dt.Start())
	ev := func(i, dest int) *types.Event {
		e := span(conf, "t", false, i).Event
		e.APIHost = srv.URL
		e.Dataset = fmt.Sprintf("d%d", dest)
		return e
	}
	ops := run(budget,
		func(i int) { dt.EnqueueEvent(ev(i, i%3)); time.Sleep(50 * time.Microsecond) },
		func(i int) { dt.EnqueueEvent(ev(i, i%2)); time.Sleep(70 * time.Microsecond) },
		func(i int) { dt.EnqueueSpan(&types.Span{TraceID: "x", Event: ev(i, 4+i%40)}); time.Sleep(90 * time.Microsecond) },
		func(i int) { met.Get("libhoney_upstream_queue_length"); time.Sleep(200 * time.Microsecond) },
	)
	dt.Stop()
	return ops
}

func writeFile(path, content string) {
	tmp := path + ".tmp"
	must(os.WriteFile(tmp, []byte(content), 0o644))
	must(os.Rename(tmp, path))
}

func cfgText(n int) string {
	return fmt.Sprintf("General:\n  ConfigurationVersion: 2\n  ConfigReloadInterval: 1s\nTraces:\n  SendDelay: %ds\n# %d\n", 1+n%5, n)
}

func rulesText(n int) string {
	return fmt.Sprintf("RulesVersion: 2\nSamplers:\n  __default__:\n    DeterministicSampler:\n      SampleRate: %d\n# %d\n", 1+n%7, n)
}

func realConfig() (config.Config, string, string, func()) {
	dir, err := os.MkdirTemp("", "c35-cfg")
	must(err)
	cp, rp := filepath.Join(dir, "cfg.yaml"), filepath.Join(dir, "rules.yaml")
	writeFile(cp, cfgText(0))
	writeFile(rp, rulesText(0))
	c, err := config.NewConfig(&config.CmdEnv{ConfigLocations: []string{cp}, RulesLocations: []string{rp}})
	if c == nil {
		must(err)
	}
	return c, cp, rp, func() { os.RemoveAll(dir) }
}

// config: real fileConfig over real files: two reload triggers (the timer path and the pubsub
// path both call Reload), the files being rewritten, getters (as every component calls them), the
// /query/configmetadata accessor, and components registering reload callbacks.
func scConfig() int64 {
	c, cp, rp, done := realConfig()
	defer done()
	var fired atomic.Int64
	c.RegisterReloadCallback(func(string, string) { fired.Add(1) })
	ops := run(budget,
		func(i int) { c.Reload() },
		func(i int) { c.Reload() },
		func(i int) { writeFile(cp, cfgText(i)); writeFile(rp, rulesText(i)); time.Sleep(300 * time.Microsecond) },
		func(i int) {
			c.GetTracesConfig()
			c.GetCollectionConfig()
			c.GetHashes()
			c.GetAllSamplerRules()
			c.GetSamplerConfigForDestName("x")
			c.GetStressReliefConfig()
			c.GetAdditionalAttributes()
		},
		func(i int) { c.GetConfigMetadata() },
		func(i int) {
			// components register their callback while reloads are already possible
			if i < 3000 {
				c.RegisterReloadCallback(func(string, string) { fired.Add(1) })
			}
			time.Sleep(time.Duration(50+i%400) * time.Microsecond)
		},
	)
	return ops
}

// watcher: real ConfigWatcher (timer goroutine + pubsub listener) on a real fileConfig and a
// LocalPubSub: started, fed with messages while the file changes, stopped; repeatedly.
func scWatcher() int64 {
	var total int64
	deadline := time.Now().Add(budget)
	for round := 0; time.Now().Before(deadline); round++ {
		c, cp, _, done := realConfig()
		conf := mockConfig(1)
		ps := &pubsub.LocalPubSub{Config: conf, Metrics: &metrics.NullMetrics{}}
		must(ps.Start())
		cw := &configwatcher.ConfigWatcher{Config: c, Logger: &logger.NullLogger{}, PubSub: ps,
			Tracer: noop.NewTracerProvider().Tracer("verif"), Clock: clockwork.NewRealClock()}
		must(cw.Start())
		topic := ps.FormatTopic(configwatcher.ConfigPubsubTopic)
		total += run(60*time.Millisecond,
			func(i int) {
				ps.Publish(context.Background(), topic, time.Now().Format(time.RFC3339))
				time.Sleep(2 * time.Millisecond)
			},
			func(i int) { writeFile(cp, cfgText(i+round)); time.Sleep(3 * time.Millisecond) },
			func(i int) { cw.ReloadCallback("a", "b"); time.Sleep(time.Millisecond) },
		)
		cw.Stop()
		ps.Stop()
		done()
	}
	return total
}

// peers: real RedisPubsubPeers on a LocalPubSub: membership messages from several peers (each
// delivered in its own goroutine, as both pubsub implementations do), the periodic report
// goroutine (fake clock advanced by the harness), components registering callbacks and asking for
// the peer list.
func scPeers() int64 {
	conf := mockConfig(1)
	ps := &pubsub.LocalPubSub{Config: conf, Metrics: &metrics.NullMetrics{}}
	must(ps.Start())
	clock := clockwork.NewFakeClock()
	p := &peer.RedisPubsubPeers{Config: conf, Metrics: &metrics.NullMetrics{}, Logger: &logger.NullLogger{},
		PubSub: ps, Clock: clock, InstanceID: "self", Done: make(chan struct{})}
	must(p.Start())
	must(p.Ready())
	topic := ps.FormatTopic("peers")
	var cb atomic.Int64
	ops := run(budget,
		func(i int) {
			ps.Publish(context.Background(), topic, fmt.Sprintf("Rhttp://h%d:8081,id%d", i%7, i%7))
			time.Sleep(100 * time.Microsecond)
		},
		func(i int) {
			ps.Publish(context.Background(), topic, fmt.Sprintf("Uhttp://h%d:8081,id%d", i%5, i%5))
			time.Sleep(150 * time.Microsecond)
		},
		func(i int) { p.GetPeers(); time.Sleep(50 * time.Microsecond) },
		func(i int) {
			if i < 100 {
				p.RegisterUpdatedPeersCallback(func() { cb.Add(1) })
			}
			time.Sleep(time.Millisecond)
		},
		func(i int) { clock.Advance(5 * time.Second); time.Sleep(500 * time.Microsecond) },
	)
	close(p.Done)
	time.Sleep(5 * time.Millisecond)
	ps.Stop()
	return ops
}

// sharder: real DeterministicSharder on the real pubsub peer management (LocalPubSub): routers ask
// WhichShard / MyShard while peers join and leave (every membership change fires the sharder's
// callback, loadPeerList, in its own goroutine) and while further sharders are being started
// against the live peer list (as at process start, when membership messages already flow).
func scSharder() int64 {
	conf := mockConfig(1)
	ps := &pubsub.LocalPubSub{Config: conf, Metrics: &metrics.NullMetrics{}}
	must(ps.Start())
	p := &peer.RedisPubsubPeers{Config: conf, Metrics: &metrics.NullMetrics{}, Logger: &logger.NullLogger{},
		PubSub: ps, Clock: clockwork.NewRealClock(), InstanceID: "self", Done: make(chan struct{})}
	must(p.Start())
	must(p.Ready())
	mk := func() *sharder.DeterministicSharder {
		sh := &sharder.DeterministicSharder{Config: conf, Logger: &logger.NullLogger{}, Peers: p}
		must(sh.Start())
		return sh
	}
	var cur atomic.Pointer[sharder.DeterministicSharder]
	cur.Store(mk())
	topic := ps.FormatTopic("peers")
	which := func(i int) { cur.Load().WhichShard(fmt.Sprintf("trace-%d", i)) }
	ops := run(budget,
		func(i int) {
			ps.Publish(context.Background(), topic, fmt.Sprintf("Rhttp://h%d:8081,id%d", i%7, i%7))
			time.Sleep(100 * time.Microsecond)
		},
		func(i int) {
			ps.Publish(context.Background(), topic, fmt.Sprintf("Uhttp://h%d:8081,id%d", i%5, i%5))
			time.Sleep(130 * time.Microsecond)
		},
		which, which, which,
		func(i int) { cur.Load().MyShard(); time.Sleep(20 * time.Microsecond) },
		func(i int) {
			if i < 150 {
				cur.Store(mk())
			}
			time.Sleep(2 * time.Millisecond)
		},
	)
	close(p.Done)
	time.Sleep(5 * time.Millisecond)
	ps.Stop()
	return ops
}

// metrics: real MultiMetrics: registration, updates of every kind, reads.
func scMetrics() int64 {
	conf := mockConfig(1)
	m := metrics.NewMultiMetrics()
	m.Config = conf
	must(m.Start())
	name := func(i int) string { return fmt.Sprintf("m%d", i%20) }
	return run(budget/2,
		func(i int) {
			m.Register(metrics.Metadata{Name: name(i), Type: metrics.MetricType(i % 4)})
		},
		func(i int) { m.Increment(name(i)); m.Count(name(i+1), 2) },
		func(i int) { m.Gauge(name(i), float64(i)); m.Store(name(i+3), float64(i)) },
		func(i int) { m.Up(name(i)); m.Down(name(i + 2)); m.Histogram(name(i), 1) },
		func(i int) { m.Get(name(i)); m.Get(name(i + 5)) },
	)
}

// envcache: the router's environment cache (lookups that miss, hit and expire).
func scEnvCache() int64 {
	r := &route.Router{}
	var calls atomic.Int64
	r.SetEnvironmentCache(2*time.Millisecond, func(key string) (string, error) {
		calls.Add(1)
		return "env-" + key, nil
	})
	f := func(i int) { route.VerifRacesEnvName(r, fmt.Sprintf("k%d", i%6)) }
	return run(budget/2, f, f, f, f)
}

func must(err error) {
	if err != nil {
		panic(err)
	}
}

func main() {
	ms := flag.Int("ms", 1500, "time budget per scenario in milliseconds")
	sc := flag.String("scenario", "all", "scenario to run")
	flag.Int64Var(&seed, "seed", 1, "unused by the scenarios (schedules are up to the runtime); recorded")
	procs := flag.Int("procs", 8, "GOMAXPROCS (the sandbox may offer fewer CPUs than goroutines that must overlap)")
	flag.Parse()
	budget = time.Duration(*ms) * time.Millisecond
	runtime.GOMAXPROCS(*procs)
	all := []struct {
		name string
		f    func() int64
	}{
		{"collector", scCollector}, {"sentcache", scSentCache}, {"stress", scStress}, {"transmit", scTransmit},
		{"config", scConfig}, {"watcher", scWatcher}, {"peers", scPeers}, {"sharder", scSharder}, {"metrics", scMetrics}, {"envcache", scEnvCache},
	}
	for _, s := range all {
		if *sc != "all" && *sc != s.name {
			continue
		}
		func() {
			defer func() {
				if r := recover(); r != nil {
					fmt.Printf("scenario %s panic=%v\n", s.name, r)
				}
			}()
			n := s.f()
			fmt.Printf("scenario %s ops=%d\n", s.name, n)
		}()
	}
	fmt.Println("RACES-DONE")
}
