//go:build verif

// Harness for collect/cache.cuckooSentCache (property C31).
//
// case header: kcap=<KeptSize> dcap=<DroppedSize> w=<WorkerCount> dslots=<slots of the first filter>
//              u=<id universe> salt=<n> [idlen=<L> idpfx=<P> fam=<F>]
// Trace id strings: without idlen the legacy "<salt>-%05d"; with idlen=L every id is L bytes long and
// ids k, k' of the same family (k/F == k'/F) share their first P bytes (P=0: no sharing).
// ops:
//   rk <id> <rate> <reason> <ev> <se> <sl> <sp>   Record(trace, keep=true, reason)
//   rd <id>                                       Record(trace, keep=false, "")
//   flood <start> <n>                             n × Record(dropped) for ids start..start+n-1
//   cs <id> <kind>                                CheckSpan (kind 0 span, 1 span_event, 2 link)
//   ct <id>                                       CheckTrace
//   drain                                         what the add-queue goroutine does on a tick
//   maint                                         what the monitor goroutine does on a tick
//   resize <kept> <dropped> <workers>             Resize(cfg)
//   adv <ns>                                      fake clock of the recent-drop set
// The real add-queue goroutine is parked and SizeCheckInterval is 1000 h, so the op file alone
// decides when queue draining and maintenance happen.
package main

import (
	"fmt"
	"os"
	"sort"
	"strconv"
	"strings"
	"time"

	"github.com/honeycombio/refinery/collect/cache"
	"github.com/honeycombio/refinery/config"
	kit "github.com/honeycombio/refinery/internal/verifkit"
	"github.com/honeycombio/refinery/metrics"
	"github.com/honeycombio/refinery/types"
	"github.com/jonboulle/clockwork"
	cuckoo "github.com/panmari/cuckoofilter"
)

type comp struct{}

// reason universe: index -> string (index 0 is the empty string, which is also what the cache
// returns when the interned index is unknown)
var reasons = []string{"", "deterministic/always", "rules/trace/keep slow", "dynamic", "emadynamic/ü", "late span", "a=b,c"}

func reasonIndex(s string) int {
	for i, r := range reasons {
		if r == s {
			return i
		}
	}
	return 999
}

// slotsOf is the library's own sizing: an encoded filter has 2 bytes per fingerprint slot.
func slotsOf(capacity uint) int { return len(cuckoo.NewFilter(capacity).Encode()) / 2 }

func slotsOfFilter(f *cuckoo.Filter) int { return len(f.Encode()) / 2 }

func perWorker(size, workers uint) uint {
	return config.SampleCacheConfig{KeptSize: size, WorkerCount: workers}.GetKeptSizePerWorker()
}

func newCache(kept, dropped, workers uint) (cache.TraceSentCache, error) {
	cfg := config.SampleCacheConfig{KeptSize: kept, DroppedSize: dropped, WorkerCount: workers,
		SizeCheckInterval: config.Duration(1000 * time.Hour)}
	return cache.NewCuckooSentCache(cfg, &metrics.NullMetrics{})
}

// ---------------------------------------------------------------------------- facts

type ktrace struct {
	id             string
	rate           uint
	ev, se, sl, sp uint32
	reason         uint
}

func (t *ktrace) ID() string              { return t.id }
func (t *ktrace) SampleRate() uint        { return t.rate }
func (t *ktrace) DescendantCount() uint32 { return t.ev }
func (t *ktrace) SpanEventCount() uint32  { return t.se }
func (t *ktrace) SpanLinkCount() uint32   { return t.sl }
func (t *ktrace) SpanCount() uint32       { return t.sp }
func (t *ktrace) SetKeptReason(r uint)    { t.reason = r }
func (t *ktrace) KeptReason() uint        { return t.reason }

// permille returns the p with (at-1)/S <= p/1000 < at/S, i.e. the threshold t of `load > t`
// to the nearest 1/1000 when the first count that exceeded it on S slots was `at`; -1 if none.
func permille(at, S int) int {
	if at <= 0 {
		return -1
	}
	p := (1000*(at-1) + S - 1) / S
	if p*S < 1000*at {
		return p
	}
	return -1
}

// facts measures the constants the theorems depend on from the compiled code itself: the
// recent-drop TTL, the queue depth, and the two load thresholds of Maintain (measured on a
// 4096-slot filter by recording drops one at a time and ticking the monitor after each).
func facts() map[string]string {
	m := map[string]string{}
	c, err := newCache(10, 3000, 1)
	if err != nil {
		return map[string]string{"factsError": "1"}
	}
	v := cache.VerifWrapSentCache(c, clockwork.NewFakeClock())
	defer c.Stop()
	m["recentTTLns"] = strconv.FormatInt(int64(v.RecentTTL()), 10)
	depth := cache.AddQueueDepth
	if v.QueueCap() != depth {
		depth = -1
	}
	m["addQueueDepth"] = strconv.Itoa(depth)
	cur0, _ := v.Filters()
	S := slotsOfFilter(cur0)
	futureAt, rotateAt := 0, 0
	for i := 0; i < 40*S && rotateAt == 0; i++ {
		c.Record(&ktrace{id: fmt.Sprintf("facts-%d", i)}, false, "")
		oc, of := v.Filters()
		v.MonitorTick()
		nc, nf := v.Filters()
		if of == nil && nf != nil && futureAt == 0 {
			futureAt = int(oc.Count())
		}
		if nc != oc {
			rotateAt = int(oc.Count())
		}
	}
	m["probeSlots"] = strconv.Itoa(S)
	m["futurePermille"] = strconv.Itoa(permille(futureAt, S))
	m["rotatePermille"] = strconv.Itoa(permille(rotateAt, S))
	return m
}

// ---------------------------------------------------------------------------- generator

var factCache map[string]string

func fact(name string) int64 {
	if factCache == nil {
		factCache = facts()
	}
	n, _ := strconv.ParseInt(factCache[name], 10, 64)
	return n
}

func (comp) Gen(r *kit.Rng, maxLen int, tier string) kit.Case {
	ttl := fact("recentTTLns")
	depth := int(fact("addQueueDepth"))
	kcaps := []uint{1, 1, 2, 2, 3, 3, 4, 5, 6, 8}
	if tier == "thorough" {
		kcaps = append(kcaps, 12, 16, 33, 64)
	}
	dcaps := []uint{1, 3, 4, 5, 7, 8, 12, 16, 20, 33}
	kcap := kcaps[r.Intn(len(kcaps))]
	dcap := dcaps[r.Intn(len(dcaps))]
	w := uint(r.Intn(4))
	if r.Chance(60) {
		w = 1
	}
	if perWorker(kcap, w) == 0 || perWorker(dcap, w) == 0 {
		w = 1 // WorkerCount 0 makes the per-worker size one less than configured; 0 is refused by lru.New
	}
	perK := int(perWorker(kcap, w))
	perD := perWorker(dcap, w)
	u := perK + 2 + r.Intn(5)
	if u > 40 {
		u = 40
	}
	salt := r.Intn(1 << 30)
	// id shapes: lengths around the 16/32-byte marks, families sharing a 16- or 32-byte prefix
	idlens := []int{16, 32, 33, 36, 48, 64, 100}
	idlen := idlens[r.Intn(len(idlens))]
	var pfxs []int
	for _, p := range []int{0, 8, 16, 32} {
		if p < idlen {
			pfxs = append(pfxs, p)
		}
	}
	idpfx := pfxs[r.Intn(len(pfxs))]
	if idpfx == 0 && len(pfxs) > 1 && r.Chance(60) {
		idpfx = pfxs[1+r.Intn(len(pfxs)-1)] // mostly shared prefixes
	}
	fam := 2 + r.Intn(3)
	n := 8 + r.Intn(maxLen)
	rates := []uint64{1, 1, 2, 10, 100, 65535, 4294967295}
	now := int64(0)
	exp := map[int]int64{} // generator's guess of recent-drop expiries (for boundary advances)
	qlen := 0
	var ops []string
	hot := r.Intn(u) // one id gets most of the dropped/kept overlap
	last := hot
	pickID := func() int {
		id := r.Intn(u)
		switch {
		case r.Chance(25):
			id = hot
		case r.Chance(30): // a sibling of the id used last (same family, same prefix)
			id = last/fam*fam + r.Intn(fam)
			if id >= u {
				id = last
			}
		}
		last = id
		return id
	}
	floods := 0
	allowFlood := r.Chance(8)
	// a drop-heavy profile reaches the rotation thresholds; a kept-heavy one exercises the LRU
	wRK, wRD := 20, 16
	switch r.Intn(3) {
	case 0:
		wRK, wRD = 30, 8
	case 1:
		wRK, wRD = 10, 30
	}
	for i := 0; i < n; i++ {
		switch r.Pick(wRK, wRD, 20, 10, 8, 10, 3, 8, 1) {
		case 0:
			ops = append(ops, fmt.Sprintf("rk %d %d %d %d %d %d %d", pickID(), rates[r.Intn(len(rates))],
				r.Intn(len(reasons)), r.Intn(5), r.Intn(3), r.Intn(3), r.Intn(4)))
		case 1:
			id := pickID()
			exp[id] = now + ttl
			if qlen < depth {
				qlen++
			}
			ops = append(ops, fmt.Sprintf("rd %d", id))
		case 2:
			id := pickID()
			if e, ok := exp[id]; ok && e >= now {
				exp[id] = now + ttl
			}
			ops = append(ops, fmt.Sprintf("cs %d %d", id, r.Intn(3)))
		case 3:
			ops = append(ops, fmt.Sprintf("ct %d", pickID()))
		case 4:
			qlen = 0
			ops = append(ops, "drain")
		case 5:
			qlen = 0
			ops = append(ops, "maint")
		case 6:
			k := kcaps[r.Intn(len(kcaps))]
			if r.Chance(8) {
				k = 0
			}
			ww := uint(r.Intn(4))
			if ww == 0 && k == 0 {
				ww = 1
			}
			ops = append(ops, fmt.Sprintf("resize %d %d %d", k, dcaps[r.Intn(len(dcaps))], ww))
		case 7:
			var d int64
			var pend []int64
			for _, e := range exp {
				if e >= now {
					pend = append(pend, e-now)
				}
			}
			sort.Slice(pend, func(i, j int) bool { return pend[i] < pend[j] })
			switch {
			case len(pend) > 0 && r.Chance(60):
				d = pend[r.Intn(len(pend))]
				if r.Chance(25) {
					d++
				} else if d > 0 && r.Chance(15) {
					d--
				}
			case r.Chance(30):
				d = ttl
			default:
				d = int64(r.Intn(int(ttl/2) + 2))
			}
			now += d
			ops = append(ops, fmt.Sprintf("adv %d", d))
		case 8:
			// fill the add queue up to (around) its depth with ids outside the universe
			if allowFlood && floods < 2 && depth > 0 {
				floods++
				k := depth - qlen - 2 + r.Intn(5)
				if k < 1 {
					k = 1 + r.Intn(3)
				}
				ops = append(ops, fmt.Sprintf("flood %d %d", 1000+floods*5000, k))
				qlen += k
				if qlen > depth {
					qlen = depth
				}
				// usually look at what happened to records made while the queue is full
				for j := 0; j < 2+r.Intn(3); j++ {
					id := pickID()
					exp[id] = now + ttl
					ops = append(ops, fmt.Sprintf("rd %d", id))
				}
			}
		}
	}
	// closing probe: settle the queue and ask about every id both ways
	ops = append(ops, "drain")
	for id := 0; id < u; id++ {
		if r.Chance(50) {
			ops = append(ops, fmt.Sprintf("ct %d", id))
		} else {
			ops = append(ops, fmt.Sprintf("cs %d %d", id, r.Intn(3)))
		}
	}
	hdr := fmt.Sprintf("kcap=%d dcap=%d w=%d dslots=%d u=%d salt=%d idlen=%d idpfx=%d fam=%d", kcap, dcap, w,
		slotsOf(perD), u, salt, idlen, idpfx, fam)
	return kit.Case{Header: hdr, Ops: ops}
}

// ---------------------------------------------------------------------------- runner

type runner struct {
	c     cache.TraceSentCache
	v     *cache.VerifSentCache
	clock *clockwork.FakeClock
	u     int
	salt  string
	bad   bool
	// id shape
	idlen, idpfx, fam int
	// reference for "is a dropped answer explicable by the filter library": every id ever recorded
	// as dropped, and per filter capacity ever configured one single-element library filter per such
	// id, keyed on the FULL id.  An id X can be a false positive of a real filter of that capacity
	// only if it is found in the single-element filter of some dropped id Y (same fingerprint, same
	// bucket pair - kicks only move a fingerprint between its own two buckets), so this is exact up
	// to "Y is still in the filter", needs no randomness and no threshold.
	dropped map[string]bool
	order   []string
	caps    []uint
	refs    map[uint][]*cuckoo.Filter
}

func single(capacity uint, id string) *cuckoo.Filter {
	f := cuckoo.NewFilter(capacity)
	f.Insert([]byte(id))
	return f
}

func (r *runner) addCap(c uint) {
	for _, x := range r.caps {
		if x == c {
			return
		}
	}
	r.caps = append(r.caps, c)
	fs := make([]*cuckoo.Filter, 0, len(r.order))
	for _, id := range r.order {
		fs = append(fs, single(c, id))
	}
	r.refs[c] = fs
}

func (r *runner) noteDropped(id string) {
	if r.dropped[id] {
		return
	}
	r.dropped[id] = true
	r.order = append(r.order, id)
	for _, c := range r.caps {
		r.refs[c] = append(r.refs[c], single(c, id))
	}
}

// explicable: the library, keyed on the full id, could answer "contained" for id in a filter of
// some capacity this cache has used, given the ids recorded as dropped so far.
func (r *runner) explicable(id string) bool {
	if r.dropped[id] {
		return true
	}
	b := []byte(id)
	for _, c := range r.caps {
		for _, f := range r.refs[c] {
			if f.Lookup(b) {
				return true
			}
		}
	}
	return false
}

func (comp) NewCase(h []string) kit.Runner {
	num := func(k string) uint { n, _ := strconv.ParseUint(kit.KV(h, k), 10, 64); return uint(n) }
	r := &runner{clock: clockwork.NewFakeClock(), u: int(num("u")), salt: kit.KV(h, "salt"),
		idlen: int(num("idlen")), idpfx: int(num("idpfx")), fam: int(num("fam")),
		dropped: map[string]bool{}, refs: map[uint][]*cuckoo.Filter{}}
	if r.fam < 1 {
		r.fam = 1
	}
	r.addCap(perWorker(num("dcap"), num("w")))
	c, err := newCache(num("kcap"), num("dcap"), num("w"))
	if err != nil {
		r.bad = true
		return r
	}
	r.c = c
	r.v = cache.VerifWrapSentCache(c, r.clock)
	return r
}

func (r *runner) id(k int) string {
	if r.idlen == 0 {
		return fmt.Sprintf("%s-%05d", r.salt, k)
	}
	salt, _ := strconv.Atoi(r.salt)
	L, P := r.idlen, r.idpfx
	if P <= 0 || P >= L {
		return fmt.Sprintf("%08x%0*x", salt, L-8, k)
	}
	var pfx string
	if P >= 16 {
		pfx = fmt.Sprintf("%08x%0*x", salt, P-8, k/r.fam)
	} else {
		pfx = fmt.Sprintf("%0*x%0*x", P/2, salt&(1<<(2*uint(P))-1), P-P/2, k/r.fam)
	}
	return pfx + fmt.Sprintf("%x", k%r.fam) + strings.Repeat("z", L-P-1)
}

// truth lists, for one filter object, its insert count and the universe ids it answers for.
func (r *runner) truth(name string, f *cuckoo.Filter) {
	if f == nil {
		kit.Ext("%s nil", name)
		return
	}
	var ids []string
	for k := 0; k < r.u; k++ {
		if f.Lookup([]byte(r.id(k))) {
			ids = append(ids, strconv.Itoa(k))
		}
	}
	l := "-"
	if len(ids) > 0 {
		l = strings.Join(ids, ",")
	}
	kit.Ext("%s %d %s", name, f.Count(), l)
}

func load(f *cuckoo.Filter) string {
	if f == nil {
		return "nil"
	}
	return fmt.Sprintf("%d/%d", f.Count(), slotsOfFilter(f))
}

func (r *runner) answer(rec cache.TraceSentRecord, reason string, found bool) string {
	if !found {
		if rec != nil || reason != "" {
			return "nf!junk"
		}
		return "nf"
	}
	if !rec.Kept() {
		if reason != "" || rec.Rate() != 0 || rec.DescendantCount() != 0 {
			return "dropped!junk"
		}
		return "dropped"
	}
	return fmt.Sprintf("kept r=%d why=%d c=%d,%d,%d,%d", rec.Rate(), reasonIndex(reason),
		rec.DescendantCount(), rec.SpanEventCount(), rec.SpanLinkCount(), rec.SpanCount())
}

func (r *runner) Do(op []string) (string, bool) {
	if r.bad {
		return "init-error", true
	}
	arg := func(i int) int { n, _ := strconv.Atoi(op[i]); return n }
	uarg := func(i int) uint { n, _ := strconv.ParseUint(op[i], 10, 64); return uint(n) }
	switch op[0] {
	case "adv":
		d, _ := strconv.ParseInt(op[1], 10, 64)
		r.clock.Advance(time.Duration(d))
		return "", false
	case "rk":
		if len(op) != 8 || arg(3) >= len(reasons) {
			return "bad-op", true
		}
		reason := reasons[arg(3)]
		kit.Ext("rhash %d = %d", arg(3), r.v.ReasonHash(reason))
		t := &ktrace{id: r.id(arg(1)), rate: uarg(2), ev: uint32(arg(4)), se: uint32(arg(5)), sl: uint32(arg(6)), sp: uint32(arg(7))}
		r.c.Record(t, true, reason)
		return "", false
	case "rd":
		r.noteDropped(r.id(arg(1)))
		r.c.Record(&ktrace{id: r.id(arg(1))}, false, "")
		return "", false
	case "flood":
		for k := 0; k < arg(2); k++ {
			r.noteDropped(r.id(arg(1) + k))
			r.c.Record(&ktrace{id: r.id(arg(1) + k)}, false, "")
		}
		return "", false
	case "cs", "ct":
		id := r.id(arg(1))
		// chk: the library's answer for the FULL id on the cache's current filter object (asked by the
		// harness itself, not through the code under verification)
		chk := 0
		if cur, _ := r.v.Filters(); cur != nil && cur.Lookup([]byte(id)) {
			chk = 1
		}
		kit.Ext("chk = %d", chk)
		fp := 0
		if r.explicable(id) {
			fp = 1
		}
		kit.Ext("fp %d = %d", arg(1), fp)
		if op[0] == "ct" {
			return r.answer(r.c.CheckTrace(id)), true
		}
		sp := &types.Span{TraceID: id, Event: &types.Event{}}
		switch arg(2) {
		case 1:
			sp.Data.MetaAnnotationType = "span_event"
		case 2:
			sp.Data.MetaAnnotationType = "link"
		}
		return r.answer(r.c.CheckSpan(sp)), true
	case "drain":
		oc, of := r.v.Filters()
		n0 := r.v.QueueLen()
		for i := 0; r.v.QueueLen() > 0 && i < 100000; i++ {
			r.v.DrainOnce()
		}
		kit.Ext("drained = %d", n0-r.v.QueueLen())
		r.truth("cur", oc)
		r.truth("fut", of)
		nc, nf := r.v.Filters()
		return fmt.Sprintf("cur=%s fut=%s q=%d", load(nc), load(nf), r.v.QueueLen()), true
	case "maint":
		oc, of := r.v.Filters()
		n0 := r.v.QueueLen()
		nextCap := r.v.NextCapacity()
		kit.Ext("slots %d = %d", nextCap, slotsOf(nextCap))
		recent := r.v.MonitorTick()
		kit.Ext("drained = %d", n0-r.v.QueueLen())
		r.truth("cur", oc)
		r.truth("fut", of)
		nc, nf := r.v.Filters()
		rot := 0
		if nc != oc {
			rot = 1
		}
		return fmt.Sprintf("cur=%s fut=%s rot=%d old=%s q=%d recent=%d", load(nc), load(nf), rot, load(oc), r.v.QueueLen(), recent), true
	case "resize":
		r.addCap(perWorker(uarg(2), uarg(3)))
		cfg := config.SampleCacheConfig{KeptSize: uarg(1), DroppedSize: uarg(2), WorkerCount: uarg(3),
			SizeCheckInterval: config.Duration(1000 * time.Hour)}
		if err := r.c.Resize(cfg); err != nil {
			return "err", true
		}
		return "ok", true
	}
	return "bad-op", true
}

func (r *runner) Close() {
	if r.c != nil {
		r.c.Stop()
	}
}

// liveGap is a stand-alone probe (not part of the check): with the cache's own goroutines
// running, how often does CheckTrace right after Record(dropped) not answer "dropped"?
func liveGap() {
	c, _ := newCache(10, 1000, 1)
	defer c.Stop()
	missTrace, missSpan := 0, 0
	for i := 0; i < 1000; i++ {
		id := fmt.Sprintf("live-%d", i)
		c.Record(&ktrace{id: id}, false, "")
		if rec, _, found := c.CheckTrace(id); !found || rec.Kept() {
			missTrace++
		}
		if rec, _, found := c.CheckSpan(&types.Span{TraceID: id, Event: &types.Event{}}); !found || rec.Kept() {
			missSpan++
		}
		time.Sleep(300 * time.Microsecond)
	}
	fmt.Printf("live goroutines: CheckTrace right after Record(dropped) not answered dropped %d/1000, CheckSpan %d/1000\n", missTrace, missSpan)
}

func main() {
	if len(os.Args) > 1 && os.Args[1] == "livegap" {
		liveGap()
		return
	}
	kit.Main(comp{}, facts)
}
