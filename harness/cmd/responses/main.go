//go:build verif

// Harness for "responses reflect what happened to the data" (property C23).
//
// One real route.Router is built per process with the repo's own mocks and started with LnS, so the
// HTTP side is the real gorilla mux with the real middleware chain (apiKeyProcessor and the otelhttp
// wrappers on /1/, the OTLP handlers on /v1/).  Requests are served in-process through the server's
// handler into a ResponseWriter that records every WriteHeader and every Write.  `via=direct` calls
// the handler function itself with mux.SetURLVars (the way the repo's unit tests do): the only way to
// hand the handler a dataset name that url.PathUnescape rejects, because net/http's URL parser and
// URL.EscapedPath never let a malformed %-escape through to the mux.  The gRPC side is called
// in-process with incoming-metadata contexts: traces through customTraceExportHandler (the function
// registered in the service descriptor), logs through LogsServer.Export.
// Sinks: upstream and peer transmit.MockTransmission, and a collector stub that records every
// AddSpan call and answers collect.ErrWouldBlock for chosen trace IDs.
//
// case header: responses
// op:   req rt=<incoming|peer> ep=<event|batch|otlp-http-traces|otlp-http-logs|otlp-grpc-traces|otlp-grpc-logs>
//           via=<mux|direct> enc=<json|msgpack|proto> ct=<ok|bad> ds=<ok|bad> key=<classic|es|none>
//           env=<ok|fail|upok|up401|up500>
//           body=<ok|gzip|zstd|readerr|badgzip|truncgzip|badzstd|garbage|truncated|oversize>
//           evs=<letters|->   e empty data, d no data member, n no trace id, p trace owned by a peer,
//                             l own trace (queue has room), f own trace (queue full), x probe
//           ts=<letters|->    the time text of each event (batch: the member's "time"; /1/events: the
//                             X-Honeycomb-Event-Time header): a absent, r RFC 3339, 0/3/6/9 epoch with
//                             10/13/16/19 digits, s "0", t "12345", u "999999999", x "0x1f", f float text,
//                             g garbage, e empty string.  msgpack batches carry a timestamp value (r) or none.
// obs:  w=<H<code>|B<err|list:s:s..|empty|other>|G<grpc code>,…>  up=<i,…|-> peer=… coll=… ref=… cq=<in|peer|mixed|->
//       (cq: the collector method the router called: AddSpan = in, AddSpanFromPeer = peer)
//       (w: every WriteHeader/Write in order, net/http's implicit 200 made explicit; the other four:
//       indices of the events seen by the upstream transmission, the peer transmission, accepted and
//       refused by the collector, in arrival order; `?` = an event without the index marker)
package main

import (
	"bytes"
	"compress/gzip"
	"context"
	"encoding/json"
	"errors"
	"fmt"
	"io"
	"net/http"
	"net/http/httptest"
	"strconv"
	"strings"
	"sync"
	"time"

	"github.com/gorilla/mux"
	huskyotlp "github.com/honeycombio/husky/otlp"
	"github.com/honeycombio/refinery/collect"
	"github.com/honeycombio/refinery/config"
	kit "github.com/honeycombio/refinery/internal/verifkit"
	"github.com/honeycombio/refinery/logger"
	"github.com/honeycombio/refinery/metrics"
	"github.com/honeycombio/refinery/route"
	"github.com/honeycombio/refinery/sharder"
	"github.com/honeycombio/refinery/transmit"
	"github.com/honeycombio/refinery/types"
	"github.com/klauspost/compress/zstd"
	"github.com/vmihailenco/msgpack/v5"
	"go.opentelemetry.io/otel/trace/noop"
	collectorlogs "go.opentelemetry.io/proto/otlp/collector/logs/v1"
	collectortrace "go.opentelemetry.io/proto/otlp/collector/trace/v1"
	common "go.opentelemetry.io/proto/otlp/common/v1"
	logspb "go.opentelemetry.io/proto/otlp/logs/v1"
	resource "go.opentelemetry.io/proto/otlp/resource/v1"
	tracepb "go.opentelemetry.io/proto/otlp/trace/v1"
	"google.golang.org/grpc/codes"
	"google.golang.org/grpc/metadata"
	"google.golang.org/grpc/status"
	"google.golang.org/protobuf/proto"
)

type comp struct{}

const (
	classicKey = "0123456789abcdef0123456789abcdef" // 32 hex: config.IsLegacyAPIKey
	esKey      = "abcDEFghiJKLmnoPQRstuV"           // 22 mixed-case characters: environment & services key
	marker     = "vi"
)

// ---------------------------------------------------------------------------------------------
// collector stub

type stubCollector struct {
	mu       sync.Mutex
	accepted []string
	refused  []string
	queues   map[string]bool // which of AddSpan ("in") / AddSpanFromPeer ("peer") were called
}

func idxOf(p *types.Payload) string {
	switch v := p.Get(marker).(type) {
	case int64:
		return strconv.FormatInt(v, 10)
	case int:
		return strconv.Itoa(v)
	case uint64:
		return strconv.FormatUint(v, 10)
	case float64:
		return strconv.FormatInt(int64(v), 10)
	}
	return "?"
}

func (c *stubCollector) add(sp *types.Span, queue string) error {
	c.mu.Lock()
	defer c.mu.Unlock()
	if c.queues == nil {
		c.queues = map[string]bool{}
	}
	c.queues[queue] = true
	i := idxOf(&sp.Event.Data)
	if strings.HasPrefix(sp.TraceID, "b2") { // the queue is full for these traces
		c.refused = append(c.refused, i)
		return collect.ErrWouldBlock
	}
	c.accepted = append(c.accepted, i)
	return nil
}

func (c *stubCollector) AddSpan(sp *types.Span) error         { return c.add(sp, "in") }
func (c *stubCollector) AddSpanFromPeer(sp *types.Span) error { return c.add(sp, "peer") }
func (c *stubCollector) Stressed() bool                       { return false }
func (c *stubCollector) GetStressedSampleRate(string) (uint, bool, string) {
	return 0, false, ""
}
func (c *stubCollector) ProcessSpanImmediately(*types.Span) (bool, bool) { return false, false }

var _ collect.Collector = (*stubCollector)(nil)

// ---------------------------------------------------------------------------------------------
// the world: one real router

type world struct {
	conf     *config.MockConfig
	router   *route.Router
	handler  http.Handler
	up, peer *transmit.MockTransmission
	coll     *stubCollector
	shard    *sharder.MockSharder
	traceSrv *route.TraceServer
	logsSrv  *route.LogsServer
	authSrv  *httptest.Server
	authMode string // what the local stand-in for Honeycomb's /1/auth answers
}

var (
	worlds = map[string]*world{}
)

// getWorld returns the world of the given router kind: "incoming" (RouterTypeIncoming, the
// client-facing listener) or "peer" (RouterTypePeer, the listener other Refinery nodes forward to).
func getWorld(kind string) *world {
	if w, ok := worlds[kind]; ok {
		return w
	}
	{
		w := &world{}
		w.authSrv = httptest.NewServer(http.HandlerFunc(func(rw http.ResponseWriter, req *http.Request) {
			switch w.authMode {
			case "upok":
				rw.Write([]byte(`{"api_key_access":{"events":true},"team":{"slug":"t"},"environment":{"slug":"env1","name":"env1"},"id":"hcxik_1"}`))
			case "up401":
				rw.WriteHeader(http.StatusUnauthorized)
			default:
				rw.WriteHeader(http.StatusInternalServerError)
			}
		}))
		w.conf = &config.MockConfig{
			GetListenAddrVal:     "127.0.0.1:0",
			GetPeerListenAddrVal: "127.0.0.1:0",
			GetGRPCEnabledVal:    false,
			GetHoneycombAPIVal:   w.authSrv.URL,
			TraceIdFieldNames:    []string{"trace.trace_id", "traceId"},
			ParentIdFieldNames:   []string{"trace.parent_id", "parentId"},
		}
		w.up = &transmit.MockTransmission{Capacity: 1000}
		w.up.Start()
		w.peer = &transmit.MockTransmission{Capacity: 1000}
		w.peer.Start()
		w.coll = &stubCollector{}
		w.shard = &sharder.MockSharder{
			Self:  &sharder.TestShard{Addr: "http://self:8081"},
			Other: &sharder.TestShard{Addr: "http://other:8081"},
		}
		w.router = &route.Router{
			Config:               w.conf,
			Logger:               &logger.NullLogger{},
			HTTPTransport:        &http.Transport{},
			UpstreamTransmission: w.up,
			PeerTransmission:     w.peer,
			Sharder:              w.shard,
			Collector:            w.coll,
			Metrics:              &metrics.NullMetrics{},
			Tracer:               noop.Tracer{},
		}
		if kind == "peer" {
			w.router.SetType(types.RouterTypePeer)
		} else {
			w.router.SetType(types.RouterTypeIncoming)
		}
		w.router.LnS()
		w.handler = route.VerifResponsesHandler(w.router)
		w.traceSrv = route.NewTraceServer(w.router)
		w.logsSrv = route.NewLogsServer(w.router)
		worlds[kind] = w
		return w
	}
}

func drainCh(ch chan *types.Event) []string {
	var out []string
	for {
		select {
		case ev := <-ch:
			out = append(out, idxOf(&ev.Data))
		default:
			return out
		}
	}
}

func lst(xs []string) string {
	if len(xs) == 0 {
		return "-"
	}
	return strings.Join(xs, ",")
}

// ---------------------------------------------------------------------------------------------
// recording ResponseWriter

type recWriter struct {
	hdr http.Header
	log []string
}

func (w *recWriter) Header() http.Header { return w.hdr }
func (w *recWriter) WriteHeader(c int)   { w.log = append(w.log, "H"+strconv.Itoa(c)) }
func (w *recWriter) Write(b []byte) (int, error) {
	w.log = append(w.log, "B"+classify(b))
	return len(b), nil
}

func classify(b []byte) string {
	switch {
	case len(b) == 0:
		return "empty"
	case bytes.HasPrefix(b, []byte(`{"source":"refinery","error":`)):
		return "err"
	case b[0] == '[':
		var l []struct {
			Status *int   `json:"status"`
			Error  string `json:"error"`
		}
		dec := json.NewDecoder(bytes.NewReader(b))
		dec.DisallowUnknownFields()
		if err := dec.Decode(&l); err != nil {
			return "other"
		}
		if len(l) == 0 {
			return "list:-"
		}
		s := "list"
		for _, e := range l {
			if e.Status == nil {
				return "other"
			}
			s += ":" + strconv.Itoa(*e.Status)
		}
		return s
	}
	return "other"
}

// normalized makes net/http's implicit header explicit: a Write before any WriteHeader, or a handler
// that returns without writing, is a 200 (the otelhttp wrapper on /1/ does the same one level up).
func (w *recWriter) normalized() string {
	var out []string
	seenH := false
	for _, e := range w.log {
		if e[0] == 'H' {
			seenH = true
		} else if !seenH {
			out = append(out, "H200")
			seenH = true
		}
		out = append(out, e)
	}
	if !seenH {
		out = append(out, "H200")
	}
	return strings.Join(out, ",")
}

// ---------------------------------------------------------------------------------------------
// request construction

func traceID(kind byte, i int) []byte {
	var b byte
	switch kind {
	case 'p':
		b = 0xc3
	case 'f':
		b = 0xb2
	default:
		b = 0xa1
	}
	return []byte{b, 0x11, 0x22, 0x33, 0x44, 0x55, 0x66, 0x77, 0x88, 0x99, 0xaa, 0xbb, 0xcc, 0xdd, 0xee, byte(i + 1)}
}

func hexs(b []byte) string { return fmt.Sprintf("%x", b) }

// dataOf is the data object of one /1/events or /1/batch event of the given kind.
func dataOf(kind byte, i int) map[string]any {
	d := map[string]any{marker: i, "name": "ev"}
	switch kind {
	case 'p', 'l', 'f':
		d["trace.trace_id"] = hexs(traceID(kind, i))
	case 'x':
		d["trace.trace_id"] = hexs(traceID('l', i))
		d["meta.refinery.probe"] = true
	}
	return d
}

func encode(enc string, v any) []byte {
	var b []byte
	var err error
	if enc == "msgpack" {
		b, err = msgpack.Marshal(v)
	} else {
		b, err = json.Marshal(v)
	}
	if err != nil {
		panic(err)
	}
	return b
}

// timeText is the time string of class c.
func timeText(c byte) string {
	switch c {
	case 'r':
		return "2024-05-06T07:08:09.123456789Z"
	case '0':
		return "1535589382"
	case '3':
		return "1535589382641"
	case '6':
		return "1535589382641123"
	case '9':
		return "1535589382641123456"
	case 's':
		return "0"
	case 't':
		return "12345"
	case 'u':
		return "999999999"
	case 'x':
		return "0x1f"
	case 'f':
		return "1535589382.641"
	case 'g':
		return "yesterday"
	}
	return ""
}

// withTime adds the member's time: a string in JSON, a timestamp value in msgpack.
func withTime(m map[string]any, enc string, c byte) map[string]any {
	switch {
	case c == 'a':
	case enc == "msgpack":
		m["time"] = time.Date(2024, 5, 6, 7, 8, 9, 123456789, time.UTC)
	default:
		m["time"] = timeText(c)
	}
	return m
}

func nativeBody(ep, enc, evs, ts string) []byte {
	if ep == "event" {
		if evs[0] == 'e' {
			return encode(enc, map[string]any{})
		}
		return encode(enc, dataOf(evs[0], 0))
	}
	batch := make([]map[string]any, 0, len(evs))
	for i := 0; i < len(evs); i++ {
		switch evs[i] {
		case 'e':
			batch = append(batch, withTime(map[string]any{"samplerate": 1, "data": map[string]any{}}, enc, ts[i]))
		case 'd':
			batch = append(batch, withTime(map[string]any{"samplerate": 1}, enc, ts[i]))
		default:
			batch = append(batch, withTime(map[string]any{"samplerate": 1, "data": dataOf(evs[i], i)}, enc, ts[i]))
		}
	}
	return encode(enc, batch)
}

func intAttr(k string, v int) *common.KeyValue {
	return &common.KeyValue{Key: k, Value: &common.AnyValue{Value: &common.AnyValue_IntValue{IntValue: int64(v)}}}
}

var otlpRes = &resource.Resource{Attributes: []*common.KeyValue{{Key: "service.name", Value: &common.AnyValue{Value: &common.AnyValue_StringValue{StringValue: "svc"}}}}}

func traceReq(evs string) *collectortrace.ExportTraceServiceRequest {
	var spans []*tracepb.Span
	for i := 0; i < len(evs); i++ {
		spans = append(spans, &tracepb.Span{
			TraceId:    traceID(evs[i], i),
			SpanId:     []byte{1, 2, 3, 4, 5, 6, 7, byte(i + 1)},
			Name:       "span",
			Attributes: []*common.KeyValue{intAttr(marker, i)},
		})
	}
	return &collectortrace.ExportTraceServiceRequest{ResourceSpans: []*tracepb.ResourceSpans{{
		Resource:   otlpRes,
		ScopeSpans: []*tracepb.ScopeSpans{{Spans: spans}},
	}}}
}

func logsReq(evs string) *collectorlogs.ExportLogsServiceRequest {
	var recs []*logspb.LogRecord
	for i := 0; i < len(evs); i++ {
		r := &logspb.LogRecord{
			SeverityText: "info",
			Body:         &common.AnyValue{Value: &common.AnyValue_StringValue{StringValue: "log line"}},
			Attributes:   []*common.KeyValue{intAttr(marker, i)},
		}
		if evs[i] != 'n' {
			r.TraceId = traceID(evs[i], i)
			r.SpanId = []byte{1, 2, 3, 4, 5, 6, 7, byte(i + 1)}
		}
		recs = append(recs, r)
	}
	return &collectorlogs.ExportLogsServiceRequest{ResourceLogs: []*logspb.ResourceLogs{{
		Resource:  otlpRes,
		ScopeLogs: []*logspb.ScopeLogs{{LogRecords: recs}},
	}}}
}

func mustProto(m proto.Message) []byte {
	b, err := proto.Marshal(m)
	if err != nil {
		panic(err)
	}
	return b
}

func gz(b []byte) []byte {
	var buf bytes.Buffer
	zw := gzip.NewWriter(&buf)
	zw.Write(b)
	zw.Close()
	return buf.Bytes()
}

var zenc, _ = zstd.NewWriter(nil)

func zs(b []byte) []byte { return zenc.EncodeAll(b, nil) }

// failingReader hands out its data and then fails instead of reporting EOF (a connection that
// breaks before the announced body is complete).
type failingReader struct{ r io.Reader }

func (f *failingReader) Read(p []byte) (int, error) {
	n, err := f.r.Read(p)
	if err == io.EOF {
		return n, io.ErrUnexpectedEOF
	}
	return n, err
}
func (f *failingReader) Close() error { return nil }

var garbage = []byte("\xc1\xff\xfe{{{not a body\x00\x01\xc1\xc1\xc1")

// wireBody applies the body fault class to the well-formed payload; returns the reader and the
// Content-Encoding to announce.
func wireBody(class string, good []byte, ep string) (io.Reader, string) {
	switch class {
	case "ok":
		return bytes.NewReader(good), ""
	case "gzip":
		return bytes.NewReader(gz(good)), "gzip"
	case "zstd":
		return bytes.NewReader(zs(good)), "zstd"
	case "readerr":
		return &failingReader{bytes.NewReader(good)}, ""
	case "badgzip":
		return bytes.NewReader(garbage), "gzip"
	case "truncgzip":
		z := gz(append(append([]byte{}, good...), bytes.Repeat([]byte("padding that makes the stream longer "), 8)...))
		return bytes.NewReader(z[:len(z)-12]), "gzip"
	case "badzstd":
		return bytes.NewReader(garbage), "zstd"
	case "garbage":
		return bytes.NewReader(garbage), ""
	case "truncated":
		n := len(good) / 2
		if n == 0 {
			return bytes.NewReader(garbage), ""
		}
		return bytes.NewReader(good[:n]), ""
	case "oversize":
		// a well-formed batch (or event) whose last member is pushed beyond the size limit by a long
		// string: the handler reads HTTPMessageSizeMax bytes and parses what it got
		pad := strings.Repeat("x", route.HTTPMessageSizeMax)
		if ep == "event" {
			return bytes.NewReader([]byte(`{"` + marker + `":0,"pad":"` + pad + `"}`)), ""
		}
		return bytes.NewReader([]byte(`[{"data":{"` + marker + `":0,"pad":"` + pad + `"}}]`)), ""
	}
	return bytes.NewReader(good), ""
}

// ---------------------------------------------------------------------------------------------
// generator

var endpoints = []string{"event", "batch", "otlp-http-traces", "otlp-http-logs", "otlp-grpc-traces", "otlp-grpc-logs"}

func genOp(r *kit.Rng) string {
	ep := endpoints[r.Pick(3, 6, 3, 3, 2, 2)]
	via, enc, ct, ds, key, env, body := "mux", "json", "ok", "ok", "es", "ok", "ok"
	native := ep == "event" || ep == "batch"
	if native {
		if r.Chance(30) {
			enc = "msgpack"
		}
		if r.Chance(30) {
			via = "direct"
		}
		if r.Chance(18) {
			ds, via = "bad", "direct"
		}
	} else {
		enc = "proto"
		if strings.HasPrefix(ep, "otlp-http") && r.Chance(8) {
			ct = "bad"
		}
	}
	switch r.Pick(62, 30, 8) {
	case 1:
		key = "classic"
	case 2:
		key = "none"
	}
	switch r.Pick(60, 28, 4, 4, 4) {
	case 1:
		env = "fail"
	case 2:
		env = "upok"
	case 3:
		env = "up401"
	case 4:
		env = "up500"
	}
	var bodies []string
	var weights []int
	switch {
	case native:
		bodies = []string{"ok", "gzip", "zstd", "readerr", "badgzip", "truncgzip", "badzstd", "garbage", "truncated", "oversize"}
		weights = []int{120, 12, 12, 10, 8, 6, 8, 10, 10, 1}
	case strings.HasPrefix(ep, "otlp-http"):
		bodies = []string{"ok", "gzip", "zstd", "readerr", "badgzip", "truncgzip", "badzstd", "garbage", "truncated"}
		weights = []int{62, 6, 6, 5, 4, 3, 4, 5, 5}
	case ep == "otlp-grpc-traces":
		bodies = []string{"ok", "garbage", "truncated"}
		weights = []int{80, 10, 10}
	default:
		bodies = []string{"ok"}
		weights = []int{1}
	}
	body = bodies[r.Pick(weights...)]
	if body == "oversize" && enc == "msgpack" {
		enc = "json"
	}
	var kinds string
	switch ep {
	case "event":
		kinds = "enplfx"
	case "batch":
		kinds = "ednplfxnplf"
	case "otlp-http-traces", "otlp-grpc-traces":
		kinds = "plf"
	default:
		kinds = "nplf"
	}
	n := 1
	if ep != "event" {
		n = r.Pick(6, 14, 20, 20, 15, 10, 8, 7) // 0..7 events
	}
	evs := make([]byte, n)
	for i := range evs {
		evs[i] = kinds[r.Intn(len(kinds))]
	}
	es := string(evs)
	if es == "" {
		es = "-"
	}
	// time texts: short numerics and the other shapes getEventTime distinguishes
	tss := "-"
	if native && n > 0 {
		classes := "aaaaaaar0369stuxsstufge"
		if ep == "batch" && enc == "msgpack" {
			classes = "aar"
		}
		tb := make([]byte, n)
		for i := range tb {
			tb[i] = classes[r.Intn(len(classes))]
		}
		tss = string(tb)
	}
	rt := "incoming"
	if !strings.HasPrefix(ep, "otlp-grpc") && r.Chance(45) {
		rt = "peer"
	}
	return fmt.Sprintf("req rt=%s ep=%s via=%s enc=%s ct=%s ds=%s key=%s env=%s body=%s evs=%s ts=%s", rt, ep, via, enc, ct, ds, key, env, body, es, tss)
}

func (comp) Gen(r *kit.Rng, maxLen int, tier string) kit.Case {
	n := 4 + r.Intn(maxLen+1)
	ops := make([]string, n)
	for i := range ops {
		ops[i] = genOp(r)
	}
	return kit.Case{Header: "responses", Ops: ops}
}

// ---------------------------------------------------------------------------------------------
// runner

type runner struct{}

func (comp) NewCase(h []string) kit.Runner { return &runner{} }

func (r *runner) Close() {}

func (r *runner) Do(op []string) (string, bool) {
	if op[0] != "req" {
		return "bad-op", true
	}
	ep, via, enc, ct, ds := kit.KV(op, "ep"), kit.KV(op, "via"), kit.KV(op, "enc"), kit.KV(op, "ct"), kit.KV(op, "ds")
	key, env, body, evs := kit.KV(op, "key"), kit.KV(op, "env"), kit.KV(op, "body"), kit.KV(op, "evs")
	if evs == "-" {
		evs = ""
	}
	ts := kit.KV(op, "ts")
	if ts == "-" {
		ts = ""
	}
	if ((ep == "event" || ep == "batch") && len(ts) != len(evs)) || (ep != "event" && ep != "batch" && ts != "") {
		return "bad-op", true
	}
	rt := kit.KV(op, "rt")
	native := ep == "event" || ep == "batch"
	if (rt != "incoming" && rt != "peer") || (rt == "peer" && strings.HasPrefix(ep, "otlp-grpc")) {
		return "bad-op", true // the gRPC server only exists on the incoming router
	}
	if (ep == "event" && len(evs) != 1) || (ds == "bad" && via != "direct") || (!native && (via != "mux" || ds != "ok")) {
		return "bad-op", true
	}
	w := getWorld(rt)

	// reset the sinks and set up this request's world
	drainCh(w.up.Events)
	drainCh(w.peer.Events)
	w.coll.accepted, w.coll.refused, w.coll.queues = nil, nil, nil
	w.shard.Other.TraceIDs = w.shard.Other.TraceIDs[:0]
	for i := 0; i < len(evs); i++ {
		if evs[i] == 'p' {
			w.shard.Other.TraceIDs = append(w.shard.Other.TraceIDs, hexs(traceID('p', i)))
		}
	}
	switch env {
	case "ok":
		w.router.SetEnvironmentCache(time.Hour, func(string) (string, error) { return "env1", nil })
	case "fail":
		w.router.SetEnvironmentCache(time.Hour, func(string) (string, error) { return "", errors.New("environment lookup failed") })
	case "upok", "up401", "up500":
		w.authMode = env
		route.VerifResponsesRealEnvCache(w.router) // fresh cache in front of the router's own lookupEnvironment
	default:
		return "bad-op", true
	}
	apiKey := ""
	switch key {
	case "classic":
		apiKey = classicKey
	case "es":
		apiKey = esKey
	}

	var wlog string
	switch ep {
	case "event", "batch", "otlp-http-traces", "otlp-http-logs":
		var path, ctype string
		var good []byte
		dsName := "ds1"
		if ds == "bad" {
			dsName = "ds%ZZ"
		}
		switch ep {
		case "event", "batch":
			path = "/1/" + ep + "s/ds1"
			if ep == "batch" {
				path = "/1/batch/ds1"
			}
			ctype = "application/json"
			if enc == "msgpack" {
				ctype = "application/msgpack"
			}
			good = nativeBody(ep, enc, evs, ts)
		case "otlp-http-traces":
			path, ctype, good = "/v1/traces", "application/protobuf", mustProto(traceReq(evs))
		default:
			path, ctype, good = "/v1/logs", "application/protobuf", mustProto(logsReq(evs))
		}
		if ct == "bad" {
			ctype = "text/plain"
		}
		rd, cenc := wireBody(body, good, ep)
		req := httptest.NewRequest("POST", path, rd)
		req.Header.Set("Content-Type", ctype)
		req.Header.Set("X-Honeycomb-Dataset", "ds1")
		if cenc != "" {
			req.Header.Set("Content-Encoding", cenc)
		}
		if key != "none" {
			req.Header.Set(types.APIKeyHeader, apiKey)
		}
		if ep == "event" && ts[0] != 'a' {
			req.Header.Set(types.TimestampHeader, timeText(ts[0]))
		}
		rec := &recWriter{hdr: http.Header{}}
		if via == "direct" {
			req = mux.SetURLVars(req, map[string]string{"datasetName": dsName})
			if ep == "event" {
				route.VerifResponsesEvent(w.router, rec, req)
			} else {
				route.VerifResponsesBatch(w.router, rec, req)
			}
		} else {
			w.handler.ServeHTTP(rec, req)
		}
		wlog = rec.normalized()
	case "otlp-grpc-traces", "otlp-grpc-logs":
		md := metadata.MD{}
		md.Set("x-honeycomb-dataset", "ds1")
		if key != "none" {
			md.Set("x-honeycomb-team", apiKey)
		}
		ctx := metadata.NewIncomingContext(context.Background(), md)
		var err error
		if ep == "otlp-grpc-traces" {
			data := mustProto(traceReq(evs))
			switch body {
			case "garbage":
				data = garbage
			case "truncated":
				if len(data) > 1 {
					data = data[:len(data)/2]
				} else {
					data = garbage
				}
			}
			_, err = route.VerifResponsesTraceExport(w.traceSrv, ctx, data)
		} else {
			_, err = w.logsSrv.Export(ctx, logsReq(evs))
		}
		wlog = "G" + strconv.Itoa(int(status.Code(err)))
	default:
		return "bad-op", true
	}
	up := drainCh(w.up.Events)
	pe := drainCh(w.peer.Events)
	cq := "-"
	switch {
	case w.coll.queues["in"] && w.coll.queues["peer"]:
		cq = "mixed"
	case w.coll.queues["in"]:
		cq = "in"
	case w.coll.queues["peer"]:
		cq = "peer"
	}
	return fmt.Sprintf("w=%s up=%s peer=%s coll=%s ref=%s cq=%s", wlog, lst(up), lst(pe), lst(w.coll.accepted), lst(w.coll.refused), cq), true
}

// ---------------------------------------------------------------------------------------------
// facts: statuses the theorems depend on, as the compiled code has them

func facts() map[string]string {
	m := map[string]string{}
	for k, v := range route.VerifResponsesStatuses() {
		m[k] = strconv.Itoa(v)
	}
	m["stAccepted"] = strconv.Itoa(http.StatusAccepted)
	m["stTooManyRequests"] = strconv.Itoa(http.StatusTooManyRequests)
	m["stBadRequest"] = strconv.Itoa(http.StatusBadRequest)
	m["stOK"] = strconv.Itoa(http.StatusOK)
	m["stInternal"] = strconv.Itoa(http.StatusInternalServerError)
	m["stUnauthorized"] = strconv.Itoa(http.StatusUnauthorized)
	m["stOtlpParseBody"] = strconv.Itoa(huskyotlp.ErrFailedParseBody.HTTPStatusCode)
	m["stOtlpContentType"] = strconv.Itoa(huskyotlp.ErrInvalidContentType.HTTPStatusCode)
	m["grpcOK"] = strconv.Itoa(int(codes.OK))
	m["grpcUnknown"] = strconv.Itoa(int(codes.Unknown))
	m["grpcInternal"] = strconv.Itoa(int(codes.Internal))
	m["grpcUnauthenticated"] = strconv.Itoa(int(codes.Unauthenticated))
	return m
}

func main() { kit.Main(comp{}, facts) }
