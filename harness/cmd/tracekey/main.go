//go:build verif

//go:debug randseednop=0

// Harness for sample/trace_key.go (traceKey.build, distinctValue) and the GetSampleRate tail of the
// five dynsampler-backed samplers (property C11).
//
// case header:  fields=<enc,enc,…|-> tl=0|1
// ops:          key <trace>
//               sample <kind> <forced dynsampler answer|-> <seed> <trace>
// trace:        spans joined by '|' ('-' = no span); span = ['*' root flag] fields joined by ';'
//               ('_' = no field); field = <enc name>=<type>~<enc raw>
// types:        s string, b bool, n nil, int|int8|int16|int32|int64|uint|uint8|uint16|uint32|uint64 (raw = the
//               number in decimal: the LOGICAL value), f float64 (raw = shortest round-trip text), a []any{raw,1}
// obs (key):    k=<enc key> n=<values used>
// obs (sample): rate=<r> keep=<0|1> reason=<reason> k=<enc key>
// ext:          str <type> <enc raw> = <enc text>   types f, a only, first use in the case; computed HERE with the Go
//               fmt <type> <enc raw> = <enc text>   standard library (strconv.FormatFloat(v,'f',-1,64) / fmt %v),
//                                                   never taken from the code under verification
//               dynrate = <what dynsampler answered>
//               dyncall <enc key> <count>        (dynamic only: arguments dynsampler was called with)
//               intn <n> = <rand.Intn(n) for the seed used>
package main

import (
	"fmt"
	"math"
	"math/rand"
	"strconv"
	"strings"

	"github.com/honeycombio/refinery/config"
	kit "github.com/honeycombio/refinery/internal/verifkit"
	"github.com/honeycombio/refinery/sample"
	"github.com/honeycombio/refinery/types"
)

type comp struct{}

// ---------------------------------------------------------------- trace syntax

type val struct{ ty, raw string }
type fv struct {
	name string
	v    val
}
type span struct {
	root   bool
	fields []fv
}

func encTrace(spans []span) string {
	if len(spans) == 0 {
		return "-"
	}
	var sb strings.Builder
	for i, sp := range spans {
		if i > 0 {
			sb.WriteByte('|')
		}
		if sp.root {
			sb.WriteByte('*')
		}
		if len(sp.fields) == 0 {
			sb.WriteByte('_')
		}
		for j, f := range sp.fields {
			if j > 0 {
				sb.WriteByte(';')
			}
			sb.WriteString(kit.Enc(f.name))
			sb.WriteByte('=')
			sb.WriteString(f.v.ty)
			sb.WriteByte('~')
			sb.WriteString(kit.Enc(f.v.raw))
		}
	}
	return sb.String()
}

func decTrace(tok string) []span {
	if tok == "-" {
		return nil
	}
	var out []span
	for _, st := range strings.Split(tok, "|") {
		var sp span
		if strings.HasPrefix(st, "*") {
			sp.root = true
			st = st[1:]
		}
		if st != "_" && st != "" {
			for _, ft := range strings.Split(st, ";") {
				eq := strings.IndexByte(ft, '=')
				ti := strings.IndexByte(ft, '~')
				if eq < 0 || ti < eq+2 || ti+1 >= len(ft) {
					panic("bad field token " + ft)
				}
				sp.fields = append(sp.fields, fv{kit.Dec(ft[:eq]), val{ft[eq+1 : ti], kit.Dec(ft[ti+1:])}})
			}
		}
		out = append(out, sp)
	}
	return out
}

func goValue(v val) any {
	si := func(bits int) int64 {
		n, err := strconv.ParseInt(v.raw, 10, bits)
		if err != nil {
			panic("bad " + v.ty + " " + v.raw)
		}
		return n
	}
	ui := func(bits int) uint64 {
		n, err := strconv.ParseUint(v.raw, 10, bits)
		if err != nil {
			panic("bad " + v.ty + " " + v.raw)
		}
		return n
	}
	switch v.ty {
	case "s":
		return v.raw
	case "int":
		return int(si(64))
	case "int8":
		return int8(si(8))
	case "int16":
		return int16(si(16))
	case "int32":
		return int32(si(32))
	case "int64":
		return si(64)
	case "uint":
		return uint(ui(64))
	case "uint8":
		return uint8(ui(8))
	case "uint16":
		return uint16(ui(16))
	case "uint32":
		return uint32(ui(32))
	case "uint64":
		return ui(64)
	case "f":
		if v.raw == "-0" {
			return math.Copysign(0, -1)
		}
		f, err := strconv.ParseFloat(v.raw, 64)
		if err != nil {
			panic("bad float " + v.raw)
		}
		return f
	case "b":
		return v.raw == "true"
	case "n":
		return nil
	case "a":
		return []any{v.raw, 1}
	}
	panic("bad type " + v.ty)
}

// stdText is the Go standard library's text of a non-plain value: what AddAsString must write
// for it (str) and what %v gives (fmt). Plain types are rendered by the Lean model itself.
func stdText(v val, gv any) (str, fm string, ext bool) {
	switch v.ty {
	case "f":
		return strconv.FormatFloat(gv.(float64), 'f', -1, 64), fmt.Sprintf("%v", gv), true
	case "a":
		return fmt.Sprintf("%v", gv), fmt.Sprintf("%v", gv), true
	}
	return "", "", false
}

// ---------------------------------------------------------------- generator

// field names: the usual ones plus names that start with each character of the "root." prefix,
// names made only of those characters, and names that contain the prefix again
var nonRootPool = []string{"a", "b", "http.status", "z", "é", "roots", "Root.x", "B", "",
	"team_id", "route", "r", "to", ".x", "root", "rootx", "oot.x", "request.path"}
var rootPool = []string{"root.svc", "root.a", "root.z", "root.", "root.service_name",
	"root.team_id", "root.request.path", "root.route", "root.root", "root.to", "root..x", "root.r",
	"root.root.x", "root.otter", "root.t", "root.o", "root.root.root.y"}

var valuePool = []val{
	{"s", ""}, {"s", ""}, {"s", "a"}, {"s", "a"}, {"s", "b"}, {"s", "ab"}, {"s", "a•"}, {"s", "•"}, {"s", ","},
	{"s", "a,b"}, {"s", "1"}, {"s", "-1"}, {"s", "true"}, {"s", "<nil>"}, {"s", "é"}, {"s", "z"}, {"s", " "}, {"s", "200"},
	{"s", "0.5"}, {"s", "A"}, {"s", "/{slug}/home"}, {"s", "%"}, {"s", "a b=c"},
	{"int", "0"}, {"int", "1"}, {"int", "-1"}, {"int", "200"}, {"int", "404"},
	{"int64", "1"}, {"int64", "-1"}, {"int64", "9007199254740993"}, {"int64", "-9223372036854775808"}, {"int64", "9223372036854775807"},
	{"uint64", "1"}, {"uint64", "7"}, {"uint64", "9223372036854775807"}, {"uint64", "9223372036854775808"},
	{"uint64", "18446744073709551615"}, {"uint64", "18446744073709551614"},
	{"uint", "18446744073709551615"}, {"uint32", "4294967295"}, {"int32", "-1"}, {"int32", "-2147483648"}, {"uint8", "255"}, {"int8", "-128"}, {"uint16", "1"},
	{"f", "1"}, {"f", "0.5"}, {"f", "1e+21"}, {"f", "NaN"}, {"f", "-0"}, {"f", "200"}, {"f", "1e-07"}, {"f", "+Inf"}, {"f", "-1"},
	{"b", "true"}, {"b", "false"}, {"n", "-"}, {"a", "x"}, {"a", "a"},
}

// integers at the edges of their types, and the same number under different types
var intEdgePool = []val{
	{"int64", "-1"}, {"uint64", "18446744073709551615"}, {"int64", "-9223372036854775808"}, {"uint64", "9223372036854775808"},
	{"int64", "9223372036854775807"}, {"uint64", "9223372036854775807"}, {"uint64", "18446744073709551614"}, {"int64", "-2"},
	{"uint", "18446744073709551615"}, {"int", "-1"}, {"int32", "-1"}, {"uint32", "4294967295"}, {"int64", "4294967295"},
	{"int64", "1"}, {"uint64", "1"}, {"f", "1"}, {"s", "1"}, {"int", "1"}, {"s", "-1"}, {"f", "-1"}, {"uint64", "0"}, {"int64", "0"},
}

var kinds = []string{"dynamic", "emadynamic", "emathroughput", "windowedthroughput", "totalthroughput"}

func baseName(f string) string { return strings.TrimPrefix(f, config.RootPrefix) }

func encFields(fs []string) string {
	if len(fs) == 0 {
		return "-"
	}
	e := make([]string, len(fs))
	for i, f := range fs {
		e[i] = kit.Enc(f)
	}
	return strings.Join(e, ",")
}

func cloneSpans(s []span) []span {
	out := make([]span, len(s))
	for i := range s {
		out[i] = span{s[i].root, append([]fv(nil), s[i].fields...)}
	}
	return out
}

// all permutations of idx (Heap's algorithm), in a deterministic order
func permutations(n int) [][]int {
	idx := make([]int, n)
	for i := range idx {
		idx[i] = i
	}
	var out [][]int
	var rec func(k int)
	rec = func(k int) {
		if k <= 1 {
			out = append(out, append([]int(nil), idx...))
			return
		}
		for i := 0; i < k; i++ {
			rec(k - 1)
			if k%2 == 0 {
				idx[i], idx[k-1] = idx[k-1], idx[i]
			} else {
				idx[0], idx[k-1] = idx[k-1], idx[0]
			}
		}
	}
	rec(n)
	return out
}

func applyPerm(s []span, p []int) []span {
	out := make([]span, len(p))
	for i, j := range p {
		out[i] = s[j]
	}
	return out
}

func shuffle(r *kit.Rng, s []span) []span {
	out := cloneSpans(s)
	for i := len(out) - 1; i > 0; i-- {
		j := r.Intn(i + 1)
		out[i], out[j] = out[j], out[i]
	}
	return out
}

func dupSpan(r *kit.Rng, s []span) []span {
	if len(s) == 0 {
		return s
	}
	c := s[r.Intn(len(s))]
	c = span{false, append([]fv(nil), c.fields...)} // the copy is an ordinary span, RootSpan stays
	pos := r.Intn(len(s) + 1)
	out := append([]span(nil), s[:pos]...)
	out = append(out, c)
	return append(out, s[pos:]...)
}

func forcedRate(r *kit.Rng) string {
	switch r.Pick(12, 22, 20, 14, 10, 8, 6, 3, 3, 2) {
	case 0:
		return "0"
	case 1:
		return "1"
	case 2:
		return "2"
	case 3:
		return "3"
	case 4:
		return strconv.Itoa(4 + r.Intn(7))
	case 5:
		return strconv.Itoa(11 + r.Intn(990))
	case 6:
		return "-" // leave the sampler's own answer
	case 7:
		return strconv.Itoa(-1 - r.Intn(3)) // "dynsampler being broken": negative (clamped to 1 since 6dd5492)
	case 8:
		return "1099511627776"
	}
	return "9223372036854775807"
}

func sampleOp(r *kit.Rng, s []span) string {
	return fmt.Sprintf("sample %s %s %d %s", kinds[r.Intn(len(kinds))], forcedRate(r), 1+r.Intn(1000000), encTrace(s))
}

func (comp) Gen(r *kit.Rng, maxLen int, tier string) kit.Case {
	switch r.Pick(56, 14, 8, 10, 12) {
	case 1:
		return genCap(r)
	case 2:
		return genEdge(r)
	case 3:
		return genSeparation(r, []val{{"s", ""}, {"s", "a"}, {"s", "b"}, {"int", "1"}, {"b", "true"}, {"s", "ab"}, {"f", "0.5"}, {"n", "-"}, {"s", ""}})
	case 4:
		return genSeparation(r, intEdgePool)
	}
	return genPerm(r, maxLen)
}

func pickFields(r *kit.Rng) []string {
	var fs []string
	nn := r.Pick(8, 45, 35, 12) // 0..3 non-root fields
	for i := 0; i < nn; i++ {
		fs = append(fs, nonRootPool[r.Intn(len(nonRootPool))]) // duplicates possible, as in a config
	}
	nr := r.Pick(45, 35, 20)
	for i := 0; i < nr; i++ {
		fs = append(fs, rootPool[r.Intn(len(rootPool))])
	}
	for i := len(fs) - 1; i > 0; i-- { // configured order is arbitrary
		j := r.Intn(i + 1)
		fs[i], fs[j] = fs[j], fs[i]
	}
	return fs
}

func subPool(r *kit.Rng) []val {
	n := 2 + r.Intn(6)
	out := make([]val, n)
	for i := range out {
		out[i] = valuePool[r.Intn(len(valuePool))]
	}
	return out
}

func genSpans(r *kit.Rng, fields []string, pool []val, n int, presentPct int) []span {
	names := map[string]bool{}
	var uniq []string
	for _, f := range fields {
		b := baseName(f)
		if !names[b] {
			names[b] = true
			uniq = append(uniq, b)
		}
	}
	spans := make([]span, n)
	for i := range spans {
		for _, f := range uniq {
			if r.Chance(presentPct) {
				spans[i].fields = append(spans[i].fields, fv{f, pool[r.Intn(len(pool))]})
			}
		}
		if r.Chance(15) {
			spans[i].fields = append(spans[i].fields, fv{"other", pool[r.Intn(len(pool))]})
		}
	}
	if n > 0 && r.Chance(80) {
		spans[r.Intn(n)].root = true
	}
	return spans
}

func mutate(r *kit.Rng, s []span, fields []string, pool []val) []span {
	out := cloneSpans(s)
	f := "a"
	if len(fields) > 0 {
		f = baseName(fields[r.Intn(len(fields))])
	}
	v := pool[r.Intn(len(pool))]
	if r.Chance(35) {
		v = val{"s", ""}
	}
	switch r.Pick(35, 30, 20, 15) {
	case 0: // one more span carrying one value
		out = append(out, span{false, []fv{{f, v}}})
	case 1: // change / add a value on an existing span
		if len(out) > 0 {
			i := r.Intn(len(out))
			done := false
			for j := range out[i].fields {
				if out[i].fields[j].name == f {
					out[i].fields[j].v = v
					done = true
				}
			}
			if !done {
				out[i].fields = append(out[i].fields, fv{f, v})
			}
		}
	case 2: // drop a span
		if len(out) > 1 {
			i := r.Intn(len(out))
			out = append(out[:i], out[i+1:]...)
		}
	case 3: // move the root flag
		if len(out) > 0 {
			for i := range out {
				out[i].root = false
			}
			if r.Chance(80) {
				out[r.Intn(len(out))].root = true
			}
		}
	}
	return out
}

func genPerm(r *kit.Rng, maxLen int) kit.Case {
	fields := pickFields(r)
	tl := r.Intn(2)
	pool := subPool(r)
	n := 1 + r.Pick(8, 14, 26, 28, 24)
	base := genSpans(r, fields, pool, n, 55+r.Intn(45))
	ops := []string{"key " + encTrace(base)}
	perms := permutations(n)
	if len(perms) > maxLen || (n == 5 && r.Chance(60)) {
		k := 24
		if k > maxLen {
			k = maxLen
		}
		for i := 0; i < k; i++ {
			ops = append(ops, "key "+encTrace(shuffle(r, base)))
		}
	} else {
		for _, p := range perms[1:] {
			ops = append(ops, "key "+encTrace(applyPerm(base, p)))
		}
	}
	for i := 0; i < 3; i++ {
		d := dupSpan(r, base)
		if r.Chance(30) {
			d = dupSpan(r, d)
		}
		ops = append(ops, "key "+encTrace(d))
	}
	for i := 0; i < 5; i++ {
		m := mutate(r, base, fields, pool)
		if r.Chance(25) {
			m = mutate(r, m, fields, pool)
		}
		ops = append(ops, "key "+encTrace(m))
	}
	ns := 3 + r.Intn(6)
	for i := 0; i < ns; i++ {
		t := base
		if r.Chance(50) {
			t = shuffle(r, base)
		}
		ops = append(ops, sampleOp(r, t))
	}
	return kit.Case{Header: fmt.Sprintf("fields=%s tl=%d", encFields(fields), tl), Ops: ops}
}

// around the 100-distinct-value cap
func genCap(r *kit.Rng) kit.Case {
	var fields []string
	switch r.Pick(50, 35, 15) {
	case 0:
		fields = []string{"a"}
	case 1:
		fields = []string{"b", "a"}
	case 2:
		fields = []string{"a", rootPool[r.Intn(len(rootPool))], "b"}
	}
	tl := r.Intn(2)
	ds := []int{97, 98, 99, 99, 100, 100, 101, 102, 150, 199}
	d := ds[r.Intn(len(ds))]
	var nonRoot []string
	for _, f := range fields {
		if !strings.HasPrefix(f, config.RootPrefix) {
			nonRoot = append(nonRoot, f)
		}
	}
	mk := func(i int) val {
		switch r.Pick(50, 30, 20) {
		case 0:
			return val{"int", strconv.Itoa(i)}
		case 1:
			return val{"s", fmt.Sprintf("v%d", i)}
		}
		return val{"f", strconv.Itoa(i) + ".5"}
	}
	var spans []span
	// d distinct (field, value) pairs in total, spread over the non-root fields; some spans repeat a value
	for i := 0; i < d; i++ {
		f := nonRoot[r.Intn(len(nonRoot))]
		v := mk(i)
		sp := span{false, []fv{{f, v}}}
		if len(nonRoot) > 1 && r.Chance(10) && len(spans) > 0 {
			// same span also repeats an earlier value of another field
			o := spans[r.Intn(len(spans))].fields[0]
			if o.name != f {
				sp.fields = append(sp.fields, o)
			}
		}
		spans = append(spans, sp)
		if r.Chance(8) {
			spans = append(spans, span{false, []fv{{f, v}}})
		}
	}
	if r.Chance(70) {
		ri := r.Intn(len(spans))
		spans[ri].root = true
		for _, f := range fields {
			if strings.HasPrefix(f, config.RootPrefix) {
				spans[ri].fields = append(spans[ri].fields, fv{baseName(f), val{"s", "api"}})
			}
		}
	}
	ops := []string{"key " + encTrace(spans)}
	rev := make([]span, len(spans))
	for i := range spans {
		rev[len(spans)-1-i] = spans[i]
	}
	ops = append(ops, "key "+encTrace(rev))
	k := r.Intn(len(spans))
	ops = append(ops, "key "+encTrace(append(append([]span(nil), spans[k:]...), spans[:k]...)))
	for i := 0; i < 3; i++ {
		ops = append(ops, "key "+encTrace(shuffle(r, spans)))
	}
	ops = append(ops, "key "+encTrace(dupSpan(r, spans)))
	ops = append(ops, "key "+encTrace(append(cloneSpans(spans), span{false, []fv{{nonRoot[0], val{"s", "one-more"}}}})))
	ops = append(ops, sampleOp(r, spans), sampleOp(r, rev))
	return kit.Case{Header: fmt.Sprintf("fields=%s tl=%d", encFields(fields), tl), Ops: ops}
}

func genEdge(r *kit.Rng) kit.Case {
	var fields []string
	switch r.Pick(20, 20, 20, 20, 20) {
	case 0: // no key field at all
	case 1:
		fields = []string{rootPool[r.Intn(len(rootPool))], rootPool[r.Intn(len(rootPool))]}
	case 2:
		fields = []string{"a", "a", "root.svc", "root.svc"}
	case 3:
		fields = []string{"root.", "", "roots", "root.root", "root", "root.root.x"}
	case 4:
		fields = pickFields(r)
	}
	tl := r.Intn(2)
	pool := subPool(r)
	var ops []string
	traces := [][]span{
		nil,
		{{false, nil}},
		{{true, nil}, {false, nil}},
		genSpans(r, fields, pool, 1+r.Intn(3), 100),
		genSpans(r, fields, pool, 2, 30),
	}
	for _, t := range traces {
		ops = append(ops, "key "+encTrace(t))
		if len(t) > 1 {
			ops = append(ops, "key "+encTrace(shuffle(r, t)))
		}
		ops = append(ops, "key "+encTrace(dupSpan(r, t)))
	}
	for _, k := range kinds {
		t := traces[r.Intn(len(traces))]
		ops = append(ops, fmt.Sprintf("sample %s %s %d %s", k, forcedRate(r), 1+r.Intn(1000000), encTrace(t)))
	}
	return kit.Case{Header: fmt.Sprintf("fields=%s tl=%d", encFields(fields), tl), Ops: ops}
}

// many small traces over one small pool of values, all fields present: pairs of traces whose
// value sets differ (the separation claim) — with the empty string, with integers at the edges of
// their types (int64 -1 / uint64 2^64-1, MinInt64 / 2^63 …) and the same number under several types
func genSeparation(r *kit.Rng, from []val) kit.Case {
	fields := []string{"a"}
	if r.Chance(40) {
		fields = append(fields, "b")
	}
	if r.Chance(45) {
		fields = append(fields, rootPool[r.Intn(len(rootPool))])
	}
	tl := r.Intn(2)
	pool := make([]val, 3+r.Intn(4))
	for i := range pool {
		pool[i] = from[r.Intn(len(from))]
	}
	mk := func() []span {
		s := genSpans(r, fields, pool, 1+r.Pick(50, 30, 15, 5), 100)
		for i := range s {
			s[i].root = false
		}
		s[0].root = true
		return s
	}
	var ops []string
	for i := 0; i < 8+r.Intn(8); i++ {
		ops = append(ops, "key "+encTrace(mk()))
	}
	base := mk()
	ops = append(ops, "key "+encTrace(base))
	ops = append(ops, "key "+encTrace(append(cloneSpans(base), span{false, []fv{{"a", pool[r.Intn(len(pool))]}}})))
	ops = append(ops, "key "+encTrace(append(cloneSpans(base), span{false, []fv{{"a", val{"s", ""}}}})))
	ops = append(ops, sampleOp(r, base))
	return kit.Case{Header: fmt.Sprintf("fields=%s tl=%d", encFields(fields), tl), Ops: ops}
}

// ---------------------------------------------------------------- runner

type runner struct {
	fields   []string
	tl       bool
	cfg      *config.MockConfig
	build    func(*types.Trace) (string, int)
	samplers map[string]*sample.VerifTKSampler
	seen     map[val]bool
}

func (comp) NewCase(h []string) kit.Runner {
	r := &runner{cfg: &config.MockConfig{}, samplers: map[string]*sample.VerifTKSampler{}, seen: map[val]bool{}}
	if f := kit.KV(h, "fields"); f != "-" && f != "" {
		for _, e := range strings.Split(f, ",") {
			r.fields = append(r.fields, kit.Dec(e))
		}
	}
	r.tl = kit.KV(h, "tl") == "1"
	r.build = sample.VerifTKNew(r.fields, r.tl)
	return r
}

// realTrace builds real types.Trace / types.Span objects and emits the standard-library text of
// the float / other-typed values that have not been reported yet in this case.
func (r *runner) realTrace(spans []span) *types.Trace {
	tr := &types.Trace{TraceID: "verif-trace"}
	for _, sp := range spans {
		m := make(map[string]any, len(sp.fields))
		for _, f := range sp.fields {
			if _, dup := m[f.name]; dup {
				continue // first binding wins, as in the model
			}
			gv := goValue(f.v)
			m[f.name] = gv
			if !r.seen[f.v] {
				r.seen[f.v] = true
				if st, fm, ext := stdText(f.v, gv); ext {
					kit.Ext("str %s %s = %s", f.v.ty, kit.Enc(f.v.raw), kit.Enc(st))
					kit.Ext("fmt %s %s = %s", f.v.ty, kit.Enc(f.v.raw), kit.Enc(fm))
				}
			}
		}
		s := &types.Span{Event: &types.Event{Data: types.NewPayload(r.cfg, m)}, TraceID: tr.TraceID, IsRoot: sp.root}
		tr.AddSpan(s)
		if sp.root && tr.RootSpan == nil {
			tr.RootSpan = s
		}
	}
	return tr
}

func (r *runner) Do(op []string) (string, bool) {
	switch op[0] {
	case "key":
		if len(op) != 2 {
			return "bad-op", true
		}
		tr := r.realTrace(decTrace(op[1]))
		k, n := r.build(tr)
		return fmt.Sprintf("k=%s n=%d", kit.Enc(k), n), true
	case "sample":
		if len(op) != 5 {
			return "bad-op", true
		}
		s := r.samplers[op[1]]
		if s == nil {
			s = sample.VerifTKNewSampler(op[1], r.fields, r.tl)
			if s == nil {
				return "bad-op", true
			}
			r.samplers[op[1]] = s
		}
		forced := false
		s.Unforce()
		if op[2] != "-" {
			f, err := strconv.Atoi(op[2])
			if err != nil {
				return "bad-op", true
			}
			if s.Force(f) {
				forced = true
				kit.Ext("dynrate = %d", f)
			}
		}
		seed, _ := strconv.ParseInt(op[3], 10, 64)
		tr := r.realTrace(decTrace(op[4]))
		calls := 0
		if s.Rec != nil {
			calls = s.Rec.Calls
			defer func() { // also when GetSampleRate panics
				if s.Rec.Calls > calls {
					kit.Ext("dyncall %s %d", kit.Enc(s.Rec.LastKey), s.Rec.LastCount)
				}
			}()
		}
		rand.Seed(seed)
		rate, keep, reason, key := s.S.GetSampleRate(tr)
		if !forced {
			kit.Ext("dynrate = %d", s.DynRate(key))
		}
		if n := int(rate); n > 0 {
			rand.Seed(seed)
			kit.Ext("intn %d = %d", n, rand.Intn(n))
		}
		kp := 0
		if keep {
			kp = 1
		}
		return fmt.Sprintf("rate=%d keep=%d reason=%s k=%s", rate, kp, kit.Enc(reason), kit.Enc(key)), true
	}
	return "bad-op", true
}

func (r *runner) Close() {
	for _, s := range r.samplers {
		s.Stop()
	}
}

func facts() map[string]string {
	return map[string]string{
		"maxKeyLength": strconv.Itoa(sample.VerifTKMaxKeyLength()),
		"rootPrefix":   config.RootPrefix,
	}
}

func main() { kit.Main(comp{}, facts) }
