//go:build verif

// Harness for transmit.DirectTransmission (property C26).
//
// The real DirectTransmission is started with
//   - a clock that is clockwork's FakeClock except that Sleep (the Retry-After pause) is recorded and
//     returns at once, and that remembers the periods of the tickers the code creates;
//   - a recording metrics implementation (queued-items ups/downs, all counters; the histogram the
//     ticker loop records at the end of each pass tells the harness that a tick has been handled);
//   - a real *http.Transport whose Proxy hook sees every attempt (URL, headers, body) and decides
//     from the operation's script whether the attempt fails in the transport (timeout / other error)
//     or reaches an in-process net/http server (over net.Pipe) that answers as scripted.
//
// case header:  mb=<MaxBatchSize> bt=<BatchTimeout ms> z=<compression 0|1> ah=<additional headers 0|1>
//
//	sto=<BatchSendTimeout ms> nd=<n> d<i>=<host>|<key>|<dataset>|<ok|bad>   (strings kit.Enc'ed)
//
// ops:  start | enq <dest> <target size | m> s=<script> | adv <ns> s=<script> | stop s=<script>
//
//	cenq <k> <dest>[.<dest>…] s=<script>   k goroutines, released together while the harness holds
//	  the batch-map lock, each enqueue one small event; goroutine i uses the i-th destination
//	  (cyclically).  `ext order <first id> = <ids>` tells the oracle in which order the events
//	  ended up in their batches (the linearisation the implementation chose).
//
// script: comma separated behaviours, consumed per destination in request order, then `ok`:
//
//	ok okm sh~N lg~N pe~M ps~S ud udm em st~C sm~C sx~C ra~C~<Retry-After> to er cl cx hg hd
//
// advh <ns> <k> <dest>[.<dest>…] s=<script>: advance like `adv`; the first request that is answered
// with `hd` is HELD by the upstream; while it is held (its sendBatch is in flight) k small events
// are enqueued (event i for the i-th listed destination, cyclically), then the request is released
// (answer: ok) and the advance continues.  Without a held request the events are enqueued at the
// end.  `ext held <first id> = <ns>` is the clock at which the events were enqueued.
package main

import (
	"bytes"
	"context"
	"errors"
	"fmt"
	"io"
	"net"
	"net/http"
	"net/url"
	"os"
	"runtime"
	"sort"
	"strconv"
	"strings"
	"sync"
	"sync/atomic"
	"time"

	"github.com/jonboulle/clockwork"
	"github.com/klauspost/compress/zstd"
	"github.com/tinylib/msgp/msgp"
	"github.com/vmihailenco/msgpack/v5"

	"github.com/honeycombio/refinery/config"
	kit "github.com/honeycombio/refinery/internal/verifkit"
	"github.com/honeycombio/refinery/logger"
	"github.com/honeycombio/refinery/metrics"
	"github.com/honeycombio/refinery/transmit"
	"github.com/honeycombio/refinery/types"
)

var epoch = time.Date(2024, 1, 1, 0, 0, 0, 0, time.UTC)

var bigString = strings.Repeat("x", 5_600_000)

// Watchdog.  Every blocking wait on the transmission (dispatch pool, Stop) is bounded: when nothing
// at all has happened for idleLimit (no metric call, no request seen by the transport hook, no byte
// read by the upstream) the wait is abandoned, the case is marked hung and every further
// operation of the case is observed as `hang`.
var lastActivity atomic.Int64

func touch() { lastActivity.Store(time.Now().UnixNano()) }

var idleLimit = func() time.Duration {
	if v, err := strconv.Atoi(os.Getenv("VERIF_TRANSMIT_IDLE_MS")); err == nil && v > 0 {
		return time.Duration(v) * time.Millisecond
	}
	return 6 * time.Second
}()

// bounded runs wait in a goroutine; false when the watchdog gave up on it.
func bounded(wait func()) bool {
	done := make(chan struct{})
	touch()
	go func() { wait(); close(done) }()
	tk := time.NewTicker(100 * time.Millisecond)
	defer tk.Stop()
	for {
		select {
		case <-done:
			return true
		case <-tk.C:
			if time.Since(time.Unix(0, lastActivity.Load())) > idleLimit {
				return false
			}
		}
	}
}

type touchWriter struct{}

func (touchWriter) Write(p []byte) (int, error) { touch(); return len(p), nil }

// ---------------------------------------------------------------------------------- metrics

type recMetrics struct {
	mu      sync.Mutex
	cond    *sync.Cond
	queued  string
	up      int
	down    int
	ctr     map[string]int64
	handled int // passes of the ticker loop that have completed (either ticker)
}

func newRec(queued string) *recMetrics {
	m := &recMetrics{queued: queued, ctr: map[string]int64{}}
	m.cond = sync.NewCond(&m.mu)
	return m
}

func (m *recMetrics) Register(metrics.Metadata) {}
func (m *recMetrics) Increment(name string)     { touch(); m.mu.Lock(); m.ctr[name]++; m.mu.Unlock() }
func (m *recMetrics) Count(name string, n int64) {
	touch()
	m.mu.Lock()
	m.ctr[name] += n
	m.mu.Unlock()
}
func (m *recMetrics) Gauge(name string, v float64) {
	touch()
	if strings.HasSuffix(name, "_queue_length") {
		m.mu.Lock()
		m.handled++
		m.cond.Broadcast()
		m.mu.Unlock()
	}
}
func (m *recMetrics) Histogram(name string, v float64) {
	touch()
	if strings.HasSuffix(name, "_stale_dispatch_time") {
		m.mu.Lock()
		m.handled++
		m.cond.Broadcast()
		m.mu.Unlock()
	}
}
func (m *recMetrics) Up(name string) {
	touch()
	m.mu.Lock()
	if name == m.queued {
		m.up++
	} else {
		m.ctr["up:"+name]++
	}
	m.mu.Unlock()
}
func (m *recMetrics) Down(name string) {
	touch()
	m.mu.Lock()
	if name == m.queued {
		m.down++
	} else {
		m.ctr["down:"+name]++
	}
	m.mu.Unlock()
}
func (m *recMetrics) Get(string) (float64, bool) { return 0, false }
func (m *recMetrics) Store(string, float64)      {}

// waitHandled waits until n ticker passes have completed; false on timeout.
func (m *recMetrics) waitHandled(n int) bool {
	deadline := time.Now().Add(20 * time.Second)
	done := make(chan struct{})
	go func() {
		select {
		case <-done:
		case <-time.After(20 * time.Second):
			m.mu.Lock()
			m.cond.Broadcast()
			m.mu.Unlock()
		}
	}()
	defer close(done)
	m.mu.Lock()
	defer m.mu.Unlock()
	for m.handled < n {
		if time.Now().After(deadline) {
			return false
		}
		m.cond.Wait()
	}
	return true
}

// ---------------------------------------------------------------------------------- clock

type tickerInfo struct {
	period  time.Duration
	created time.Duration // fake time since epoch
}

type vclock struct {
	*clockwork.FakeClock
	mu      sync.Mutex
	sleeps  []time.Duration
	tickers []tickerInfo
}

func (c *vclock) Sleep(d time.Duration) {
	c.mu.Lock()
	c.sleeps = append(c.sleeps, d)
	c.mu.Unlock()
}

func (c *vclock) NewTicker(d time.Duration) clockwork.Ticker {
	c.mu.Lock()
	c.tickers = append(c.tickers, tickerInfo{d, c.FakeClock.Now().Sub(epoch)})
	c.mu.Unlock()
	return c.FakeClock.NewTicker(d)
}

// ---------------------------------------------------------------------------------- network

type pipeAddr struct{}

func (pipeAddr) Network() string { return "pipe" }
func (pipeAddr) String() string  { return "pipe" }

type pipeListener struct {
	ch   chan net.Conn
	done chan struct{}
}

func (l *pipeListener) Accept() (net.Conn, error) {
	select {
	case c := <-l.ch:
		return c, nil
	case <-l.done:
		return nil, net.ErrClosed
	}
}
func (l *pipeListener) Close() error   { return nil }
func (l *pipeListener) Addr() net.Addr { return pipeAddr{} }

var (
	theListener = &pipeListener{ch: make(chan net.Conn), done: make(chan struct{})}
	serverOnce  sync.Once
	curMu       sync.Mutex
	cur         *runner
	zdec, _     = zstd.NewReader(nil)
)

func current() *runner { curMu.Lock(); defer curMu.Unlock(); return cur }

func dialPipe(ctx context.Context, network, addr string) (net.Conn, error) {
	c1, c2 := net.Pipe()
	select {
	case theListener.ch <- c2:
		return c1, nil
	case <-ctx.Done():
		return nil, ctx.Err()
	}
}

type timeoutErr struct{}

func (timeoutErr) Error() string   { return "scripted: i/o timeout" }
func (timeoutErr) Timeout() bool   { return true }
func (timeoutErr) Temporary() bool { return true }

type decision struct {
	beh    string
	count  int
	rawLen int
	closed chan struct{} // closed when the transport has closed the request body
}

// closeSignal wraps the request body so that the scripted server can hold its answer back until
// the transport's write loop has finished with (closed) the body.  net/http allows RoundTrip to
// return while the body is still in use; sendBatch reuses its pooled *bytes.Reader as soon as Do
// returns, so without this the runs are not deterministic (see the report: requests of a later
// batch occasionally fail with "http: ContentLength=N with Body length 0").
// VERIF_TRANSMIT_NOGUARD=1 disables the wrapper to observe exactly that.
type closeSignal struct {
	io.ReadCloser
	ch   chan struct{}
	once sync.Once
}

func (c *closeSignal) Close() error {
	c.once.Do(func() { close(c.ch) })
	return c.ReadCloser.Close()
}

var noGuard = os.Getenv("VERIF_TRANSMIT_NOGUARD") != ""

type attempt struct {
	dest    int
	rawDest string
	bodyLen int
	ids     []int
	rates   []int64
	t       int64
	beh     string
}

func wireKey(host, escPath, key string) string { return host + "\x00" + escPath + "\x00" + key }

// decodeBody returns the `id` field of every event of a msgpack batch body.
func decodeBody(b []byte) ([]int, error) {
	ids, _, err := decodeBodyRates(b)
	return ids, err
}

// decodeBodyRates also returns the `samplerate` of every event as it is on the wire.
func decodeBodyRates(b []byte) ([]int, []int64, error) {
	var rates []int64
	ids, err := decodeBodyInto(b, &rates)
	return ids, rates, err
}

func decodeBodyInto(b []byte, rates *[]int64) ([]int, error) {
	n, b, err := msgp.ReadArrayHeaderBytes(b)
	if err != nil {
		return nil, err
	}
	ids := make([]int, 0, n)
	for i := uint32(0); i < n; i++ {
		var m uint32
		m, b, err = msgp.ReadMapHeaderBytes(b)
		if err != nil {
			return nil, err
		}
		id := -1
		for j := uint32(0); j < m; j++ {
			var k []byte
			k, b, err = msgp.ReadMapKeyZC(b)
			if err != nil {
				return nil, err
			}
			if string(k) == "samplerate" && rates != nil {
				var v int64
				if v, b, err = msgp.ReadInt64Bytes(b); err != nil {
					return nil, err
				}
				*rates = append(*rates, v)
				continue
			}
			if string(k) != "data" {
				if b, err = msgp.Skip(b); err != nil {
					return nil, err
				}
				continue
			}
			var dm uint32
			dm, b, err = msgp.ReadMapHeaderBytes(b)
			if err != nil {
				return nil, err
			}
			for x := uint32(0); x < dm; x++ {
				var dk []byte
				dk, b, err = msgp.ReadMapKeyZC(b)
				if err != nil {
					return nil, err
				}
				if string(dk) == "id" {
					var v int64
					v, b, err = msgp.ReadInt64Bytes(b)
					if err != nil {
						return nil, err
					}
					id = int(v)
				} else if b, err = msgp.Skip(b); err != nil {
					return nil, err
				}
			}
		}
		ids = append(ids, id)
	}
	if len(b) != 0 {
		return nil, fmt.Errorf("%d trailing bytes", len(b))
	}
	return ids, nil
}

// proxyHook is http.Transport.Proxy: called once per attempt with the outgoing request.
func proxyHook(req *http.Request) (*url.URL, error) {
	touch()
	defer touch()
	r := current()
	if r == nil {
		return nil, errors.New("no case")
	}
	var raw []byte
	if req.GetBody != nil {
		rc, err := req.GetBody()
		if err == nil {
			if req.ContentLength > 0 {
				raw = make([]byte, req.ContentLength)
				n, _ := io.ReadFull(rc, raw)
				raw = raw[:n]
			} else {
				raw, _ = io.ReadAll(rc)
			}
			rc.Close()
		}
	}
	body := raw
	bad := ""
	if req.Header.Get("Content-Encoding") == "zstd" {
		dec, err := zdec.DecodeAll(raw, nil)
		if err != nil {
			bad = "!zstd"
		}
		body = dec
	}
	ids, rates, err := decodeBodyRates(body)
	if err != nil {
		bad = "!body"
	}
	if req.Method != "POST" || req.Header.Get("Content-Type") != "application/msgpack" || req.Header.Get("User-Agent") == "" {
		bad = "!hdr"
	}
	host := req.URL.Scheme + "://" + req.URL.Host
	esc := req.URL.EscapedPath()
	key := req.Header.Get("X-Honeycomb-Team")
	ds, okPath := "", false
	if strings.HasPrefix(esc, "/1/batch/") {
		if u, err := url.PathUnescape(esc[len("/1/batch/"):]); err == nil {
			ds, okPath = u, true
		}
	}
	r.mu.Lock()
	defer r.mu.Unlock()
	di := -1
	if okPath {
		for i, d := range r.dests {
			if d.host == host && d.key == key && d.dataset == ds {
				di = i
				break
			}
		}
	}
	rawDest := ""
	if di < 0 {
		rawDest = kit.Enc(host) + "~" + kit.Enc(esc) + "~" + kit.Enc(key)
	}
	ck := wireKey(req.URL.Host, esc, key)
	pos := r.cursor[ck]
	r.cursor[ck] = pos + 1
	beh := "ok"
	if pos < len(r.script) {
		beh = r.script[pos]
	}
	r.attempts = append(r.attempts, attempt{dest: di, rawDest: rawDest, bodyLen: len(body), ids: ids, rates: rates,
		t: int64(r.clock.Now().Sub(epoch)), beh: beh + bad})
	switch beh {
	case "to":
		return nil, timeoutErr{}
	case "er":
		return nil, errors.New("scripted: connection refused")
	}
	dec := decision{beh: beh, count: len(ids), rawLen: len(raw), closed: make(chan struct{})}
	if req.Body != nil && !noGuard {
		req.Body = &closeSignal{ReadCloser: req.Body, ch: dec.closed}
	} else {
		close(dec.closed)
	}
	r.fifo[ck] = append(r.fifo[ck], dec)
	return nil, nil
}

type batchResp struct {
	Status int `json:"status" msgpack:"status"`
}

func jsonStatuses(sts []int) []byte {
	var b bytes.Buffer
	b.WriteByte('[')
	for i, s := range sts {
		if i > 0 {
			b.WriteByte(',')
		}
		fmt.Fprintf(&b, `{"status":%d}`, s)
	}
	b.WriteByte(']')
	return b.Bytes()
}

func repl(n, v int) []int {
	if n < 0 {
		n = 0
	}
	out := make([]int, n)
	for i := range out {
		out[i] = v
	}
	return out
}

func serve(w http.ResponseWriter, q *http.Request) {
	r := current()
	touch()
	defer touch()
	n, _ := io.Copy(touchWriter{}, q.Body)
	if r == nil {
		w.WriteHeader(500)
		return
	}
	ck := wireKey(q.Host, q.URL.EscapedPath(), q.Header.Get("X-Honeycomb-Team"))
	r.mu.Lock()
	var d decision
	if f := r.fifo[ck]; len(f) > 0 {
		d = f[0]
		r.fifo[ck] = f[1:]
		if int(n) != d.rawLen {
			r.wire = true
		}
	} else {
		r.wire = true
		d = decision{beh: "st~500"}
	}
	r.mu.Unlock()
	if d.closed != nil {
		select {
		case <-d.closed:
		case <-time.After(10 * time.Second):
		}
	}
	p := strings.Split(d.beh, "~")
	arg := func(i int) int {
		if len(p) > i {
			v, _ := strconv.Atoi(p[i])
			return v
		}
		return 0
	}
	writeJSON := func(code int, body []byte) {
		w.Header().Set("Content-Type", "application/json")
		w.WriteHeader(code)
		if code != 204 {
			w.Write(body)
		}
	}
	writeMsgp := func(code int, body []byte) {
		w.Header().Set("Content-Type", "application/msgpack")
		w.WriteHeader(code)
		if code != 204 {
			w.Write(body)
		}
	}
	switch p[0] {
	case "ok":
		writeJSON(200, jsonStatuses(repl(d.count, 202)))
	case "okm":
		rs := make([]batchResp, d.count)
		for i := range rs {
			rs[i].Status = 202
		}
		b, _ := msgpack.Marshal(rs)
		writeMsgp(200, b)
	case "sh":
		writeJSON(200, jsonStatuses(repl(d.count-arg(1), 202)))
	case "lg":
		writeJSON(200, jsonStatuses(repl(d.count+arg(1), 202)))
	case "pe":
		sts := repl(d.count, 202)
		m := arg(1)
		if m < 1 {
			m = 1
		}
		for i := range sts {
			if i%m == 0 {
				sts[i] = 400
			}
		}
		writeJSON(200, jsonStatuses(sts))
	case "ps":
		writeJSON(200, jsonStatuses(repl(d.count, arg(1))))
	case "ud":
		writeJSON(200, []byte(`{"not":"a list"`))
	case "udm":
		writeMsgp(200, []byte{0xc1})
	case "em":
		writeJSON(200, nil)
	case "st":
		writeJSON(arg(1), []byte(`{"error":"scripted"}`))
	case "sm":
		b, _ := msgpack.Marshal(map[string]any{"error": "scripted"})
		writeMsgp(arg(1), b)
	case "sx":
		writeMsgp(arg(1), []byte{0xc1})
	case "ra":
		if len(p) > 2 && p[2] != "-" {
			w.Header().Set("Retry-After", kit.Dec(p[2]))
		}
		writeJSON(arg(1), []byte(`{"error":"slow down"}`))
	case "hd":
		r.mu.Lock()
		active, rel, held := r.holdActive, r.releaseCh, r.heldCh
		r.mu.Unlock()
		if active && rel != nil {
			select {
			case held <- struct{}{}:
			default:
			}
			select {
			case <-rel:
			case <-time.After(30 * time.Second):
			}
		}
		writeJSON(200, jsonStatuses(repl(d.count, 202)))
	case "hg":
		select {
		case <-q.Context().Done():
		case <-time.After(10 * time.Second):
		}
	case "cx": // drop the connection without an answer
		panic(http.ErrAbortHandler)
	case "cl":
		if hj, ok := w.(http.Hijacker); ok {
			if c, _, err := hj.Hijack(); err == nil {
				c.Close()
				return
			}
		}
		w.WriteHeader(500)
	default:
		w.WriteHeader(500)
	}
}

func startServer() {
	serverOnce.Do(func() {
		srv := &http.Server{Handler: http.HandlerFunc(serve)}
		go srv.Serve(theListener)
	})
}

// dbgLogger (VERIF_DEBUG only) prints the error fields of error-level log entries.
type dbgLogger struct{}
type dbgEntry struct{ on bool }

func (dbgLogger) Debug() logger.Entry                  { return dbgEntry{} }
func (dbgLogger) Info() logger.Entry                   { return dbgEntry{} }
func (dbgLogger) Warn() logger.Entry                   { return dbgEntry{} }
func (dbgLogger) Error() logger.Entry                  { return dbgEntry{on: true} }
func (dbgLogger) SetLevel(string) error                { return nil }
func (e dbgEntry) WithString(k, v string) logger.Entry { return e.WithField(k, v) }
func (e dbgEntry) WithField(k string, v any) logger.Entry {
	if e.on && (k == "error" || k == "err") {
		fmt.Fprintf(os.Stderr, "LOG %s=%v\n", k, v)
	}
	return e
}
func (e dbgEntry) WithFields(m map[string]any) logger.Entry {
	for k, v := range m {
		e.WithField(k, v)
	}
	return e
}
func (e dbgEntry) Logf(f string, a ...any) {}

// ---------------------------------------------------------------------------------- runner

type dest struct {
	host, key, dataset string
	bad                bool
	cls                string // ok | bad (URL cannot be built) | dot (path is not /1/batch/<escaped dataset>)
}

// destClass asks the real buildRequestURL what becomes of this destination.
func destClass(host, dataset string) string {
	u, err := transmit.VerifTransmitBuildURL(host, dataset)
	if err != nil {
		return "bad"
	}
	if p, err := url.Parse(u); err != nil || p.EscapedPath() != "/1/batch/"+url.PathEscape(dataset) {
		return "dot"
	}
	return "ok"
}

type runner struct {
	mu       sync.Mutex
	dests    []dest
	mb       int
	bt       time.Duration
	sto      time.Duration
	z, ah    bool
	clock    *vclock
	met      *recMetrics
	dt       *transmit.DirectTransmission
	started  bool
	stopped  bool
	now      time.Duration
	expected int // ticker passes the harness has caused so far
	nextID   int
	cfg      *config.MockConfig

	hung       bool          // the watchdog gave up on a wait: the transmission spins or is stuck
	holdActive bool          // `hd` answers wait for releaseCh
	heldCh     chan struct{} // one token per request that is being held
	releaseCh  chan struct{}

	script   []string
	cursor   map[string]int
	fifo     map[string][]decision
	attempts []attempt
	wire     bool
}

func parseDest(s string) dest {
	p := strings.Split(s, "|")
	for len(p) < 4 {
		p = append(p, "%")
	}
	return dest{host: kit.Dec(p[0]), key: kit.Dec(p[1]), dataset: kit.Dec(p[2]), bad: p[3] == "bad"}
}

type comp struct{}

func (comp) NewCase(h []string) kit.Runner {
	startServer()
	atoi := func(k string) int { v, _ := strconv.Atoi(kit.KV(h, k)); return v }
	r := &runner{mb: atoi("mb"), bt: time.Duration(atoi("bt")) * time.Millisecond,
		sto: time.Duration(atoi("sto")) * time.Millisecond, z: atoi("z") == 1, ah: atoi("ah") == 1,
		cfg: &config.MockConfig{}}
	for i := 0; i < atoi("nd"); i++ {
		r.dests = append(r.dests, parseDest(kit.KV(h, "d"+strconv.Itoa(i))))
	}
	r.cursor = map[string]int{}
	r.fifo = map[string][]decision{}
	curMu.Lock()
	cur = r
	curMu.Unlock()
	return r
}

func (r *runner) Close() {
	if r.started && !r.stopped && !r.hung {
		r.beginOp(nil)
		bounded(func() { r.dt.Stop() })
		r.stopped = true
	}
	curMu.Lock()
	if cur == r {
		cur = nil
	}
	curMu.Unlock()
}

func (r *runner) beginOp(script []string) {
	r.mu.Lock()
	r.script = script
	r.cursor = map[string]int{}
	r.fifo = map[string][]decision{}
	r.attempts = nil
	r.mu.Unlock()
	if r.clock != nil {
		r.clock.mu.Lock()
		r.clock.sleeps = nil
		r.clock.mu.Unlock()
	}
}

// retryAfterExt tells the oracle how the standard library reads a Retry-After value, the two
// calls sendBatch makes.
func retryAfterExt(raw string) string {
	raw = strings.Trim(raw, " \t") // what the client sees: header values are trimmed on the wire
	if d, err := time.ParseDuration(raw + "s"); err == nil {
		return "d" + strconv.FormatInt(int64(d), 10)
	}
	if t, err := http.ParseTime(raw); err == nil {
		return "t" + strconv.FormatInt(int64(t.Sub(epoch)), 10)
	}
	return "x"
}

// rateOf is the sample rate of the events of an operation (`r=<n>`, default 1).
func rateOf(op []string) uint64 {
	for _, a := range op {
		if strings.HasPrefix(a, "r=") {
			if v, err := strconv.ParseUint(a[2:], 10, 64); err == nil {
				return v
			}
		}
	}
	return 1
}

var ratePool = []uint64{0, 1, 2, 10, 1<<31 - 2, 1<<31 - 1, 1 << 31, 1<<32 - 1, 1 << 32, 1<<53 + 1, 1<<63 - 1, 1 << 63, 1<<64 - 1}

func genRate(r *kit.Rng) uint64 {
	switch r.Pick(45, 40, 15) {
	case 0:
		return 1
	case 1:
		return ratePool[r.Intn(len(ratePool))]
	}
	return r.Next() >> uint(r.Intn(40)) // a random large rate
}

func parseScript(op []string) []string {
	s := ""
	for _, a := range op {
		if strings.HasPrefix(a, "s=") {
			s = a[2:]
		}
	}
	if s == "" || s == "-" {
		return nil
	}
	toks := strings.Split(s, ",")
	seen := map[string]bool{}
	for _, t := range toks {
		p := strings.Split(t, "~")
		if p[0] == "ra" && len(p) > 2 && p[2] != "-" && !seen[p[2]] {
			seen[p[2]] = true
			kit.Ext("ra %s = %s", p[2], retryAfterExt(kit.Dec(p[2])))
		}
	}
	return toks
}

func (r *runner) mkEvent(id, di int, target string, rate uint64) *types.Event {
	d := dest{}
	if di >= 0 && di < len(r.dests) {
		d = r.dests[di]
	}
	ev := &types.Event{
		Context:     context.Background(),
		APIHost:     d.host,
		APIKey:      d.key,
		Dataset:     d.dataset,
		Environment: envOf(d.key),
		SampleRate:  uint(rate),
		Timestamp:   time.Unix(1700000000, 0),
	}
	if target == "m" {
		ev.Data = types.NewPayload(r.cfg, map[string]any{"id": int64(id), "bad": make(chan int)})
		return ev
	}
	want, _ := strconv.Atoi(target)
	ev.Data = types.NewPayload(r.cfg, map[string]any{"id": int64(id), "p": ""})
	base, err := transmit.VerifTransmitMarshalSize(ev) // includes the 1-byte header of ""
	if err != nil {
		return ev
	}
	base--
	l := 0
	for _, h := range []struct{ hdr, max int }{{1, 31}, {2, 255}, {3, 65535}, {5, 1 << 30}} {
		c := want - base - h.hdr
		if c >= 0 && c <= h.max {
			l = c
			break
		}
	}
	if l > len(bigString) {
		l = len(bigString)
	}
	ev.Data = types.NewPayload(r.cfg, map[string]any{"id": int64(id), "p": bigString[:l]})
	return ev
}

func (r *runner) drain() {
	if r.hung {
		return
	}
	if !bounded(transmit.VerifTransmitDrainStart(r.dt)) {
		r.hung = true
	}
}

// advance moves the fake clock, stopping at every instant a ticker of the code fires and waiting
// there until the ticker loop has handled the tick and the sends it dispatched have finished.
func (r *runner) advance(d time.Duration) string { return r.advanceHold(d, nil) }

// drainOrHold waits for the dispatched sends; when a request is held meanwhile, onHold runs (with
// the send still in flight) and the held requests are released.
func (r *runner) drainOrHold(onHold func()) {
	wait := transmit.VerifTransmitDrainStart(r.dt)
	done := make(chan struct{})
	go func() { wait(); close(done) }()
	fired := false
	touch()
	tk := time.NewTicker(100 * time.Millisecond)
	defer tk.Stop()
	for {
		select {
		case <-tk.C:
			r.mu.Lock()
			holding := r.holdActive && fired
			r.mu.Unlock()
			if !holding && time.Since(time.Unix(0, lastActivity.Load())) > idleLimit {
				r.hung = true
				return
			}
		case <-done:
			if fired {
				r.drain() // sends dispatched by the enqueues themselves
				r.mu.Lock()
				r.cursor = map[string]int{}
				r.mu.Unlock()
			}
			return
		case <-r.heldCh:
			if !fired {
				fired = true
				onHold()
				r.mu.Lock()
				r.holdActive = false
				close(r.releaseCh)
				r.mu.Unlock()
			}
		}
	}
}

func (r *runner) advanceHold(d time.Duration, onHold func()) string {
	target := r.now + d
	for r.now < target {
		next := target
		if !r.stopped {
			r.clock.mu.Lock()
			for _, t := range r.clock.tickers {
				k := (r.now-t.created)/t.period + 1
				if f := t.created + k*t.period; f < next {
					next = f
				}
			}
			r.clock.mu.Unlock()
		}
		r.clock.Advance(next - r.now)
		r.now = next
		if !r.stopped {
			r.clock.mu.Lock()
			for _, t := range r.clock.tickers {
				if (r.now-t.created)%t.period == 0 {
					r.expected++
				}
			}
			r.clock.mu.Unlock()
			if !r.met.waitHandled(r.expected) {
				return "tick-not-handled"
			}
			if onHold != nil && r.holdActive {
				r.drainOrHold(onHold)
			} else {
				r.drain()
			}
			if r.hung {
				return "hang"
			}
		}
	}
	return ""
}

func (r *runner) observe(extra string) string {
	r.met.mu.Lock()
	up, down := r.met.up, r.met.down
	c := func(n string) int64 { return r.met.ctr["libhoney_upstream_"+n] }
	ctr := fmt.Sprintf("%d,%d,%d,%d,%d,%d,%d,%d,%d", up, down, c("response_20x"), c("response_errors"), c("send_errors"),
		c("send_retries"), c("batches_sent"), c("messages_sent"), c("response_decode_errors"))
	r.met.mu.Unlock()
	r.clock.mu.Lock()
	sl := make([]int64, len(r.clock.sleeps))
	for i, s := range r.clock.sleeps {
		sl[i] = int64(s)
	}
	r.clock.mu.Unlock()
	sort.Slice(sl, func(i, j int) bool { return sl[i] < sl[j] })
	sls := "-"
	if len(sl) > 0 {
		p := make([]string, len(sl))
		for i, s := range sl {
			p[i] = strconv.FormatInt(s, 10)
		}
		sls = strings.Join(p, ",")
	}
	r.mu.Lock()
	atts := append([]attempt(nil), r.attempts...)
	wire := r.wire
	leftover := 0
	for _, f := range r.fifo {
		leftover += len(f)
	}
	r.mu.Unlock()
	name := func(a attempt) string {
		if a.dest >= 0 {
			return "d" + strconv.Itoa(a.dest)
		}
		return "d?" + a.rawDest
	}
	sort.SliceStable(atts, func(i, j int) bool {
		if atts[i].dest != atts[j].dest {
			return atts[i].dest < atts[j].dest
		}
		return atts[i].rawDest < atts[j].rawDest
	})
	var groups []string
	for i := 0; i < len(atts); {
		j := i
		var recs []string
		for j < len(atts) && name(atts[j]) == name(atts[i]) {
			ids := make([]string, len(atts[j].ids))
			for x, id := range atts[j].ids {
				ids[x] = strconv.Itoa(id)
			}
			rts := make([]string, len(atts[j].rates))
			for x, v := range atts[j].rates {
				rts[x] = strconv.FormatInt(v, 10)
			}
			recs = append(recs, fmt.Sprintf("%d|%s|%d|%s|%s", atts[j].bodyLen, strings.Join(ids, "."), atts[j].t, atts[j].beh, strings.Join(rts, ".")))
			j++
		}
		groups = append(groups, name(atts[i])+"@"+strings.Join(recs, ","))
		i = j
	}
	as := "-"
	if len(groups) > 0 {
		as = strings.Join(groups, ";")
	}
	w := 0
	if wire || leftover > 0 {
		w = 1
	}
	return fmt.Sprintf("g=%d c=%s sl=%s a=%s w=%d%s", up-down, ctr, sls, as, w, extra)
}

func (r *runner) Do(op []string) (string, bool) {
	if r.hung {
		return "hang", true
	}
	obs, has := r.do(op)
	if r.hung {
		return "hang", true
	}
	return obs, has
}

func (r *runner) do(op []string) (string, bool) {
	switch op[0] {
	case "start":
		if r.started {
			return "already-started", true
		}
		hdrs := map[string]string(nil)
		if r.ah {
			hdrs = map[string]string{"X-Honeycomb-Team": "overridden", "X-Extra": "1", "Content-Type": "text/plain"}
		}
		tr := &http.Transport{Proxy: proxyHook, DialContext: dialPipe, DisableKeepAlives: true}
		r.dt = transmit.NewDirectTransmission(types.TransmitTypeUpstream, tr, r.mb, r.bt, r.sto, r.z, hdrs)
		r.clock = &vclock{FakeClock: clockwork.NewFakeClockAt(epoch)}
		r.met = newRec("libhoney_upstream_queued_items")
		r.dt.Clock = r.clock
		r.dt.Metrics = r.met
		r.dt.Logger = &logger.NullLogger{}
		if os.Getenv("VERIF_DEBUG") != "" {
			r.dt.Logger = dbgLogger{}
		}
		r.dt.Config = r.cfg
		r.dt.Version = "verif"
		if err := r.dt.Start(); err != nil {
			return "start-error", true
		}
		r.started = true
		// the ticker loop creates its tickers asynchronously: wait until both exist
		ctx, cancel := context.WithTimeout(context.Background(), 20*time.Second)
		err := r.clock.BlockUntilContext(ctx, 2)
		cancel()
		if err != nil {
			return "tickers-not-created", true
		}
		r.clock.mu.Lock()
		ps := make([]string, len(r.clock.tickers))
		for i, t := range r.clock.tickers {
			ps[i] = strconv.FormatInt(int64(t.period), 10)
		}
		r.clock.mu.Unlock()
		return "p=" + strings.Join(ps, ","), true
	case "enq":
		if !r.started || len(op) < 3 {
			return "bad-op", true
		}
		di, _ := strconv.Atoi(op[1])
		r.beginOp(parseScript(op))
		id := r.nextID
		r.nextID++
		ev := r.mkEvent(id, di, op[2], rateOf(op))
		if n, err := transmit.VerifTransmitMarshalSize(ev); err != nil {
			kit.Ext("size %d = err", id)
		} else {
			kit.Ext("size %d = %d", id, n)
		}
		r.dt.EnqueueEvent(ev)
		r.drain()
		return r.observe(""), true
	case "advh":
		if !r.started || len(op) < 4 {
			return "bad-op", true
		}
		d, _ := strconv.ParseInt(op[1], 10, 64)
		k, _ := strconv.Atoi(op[2])
		var dl []int
		for _, x := range strings.Split(op[3], ".") {
			v, _ := strconv.Atoi(x)
			dl = append(dl, v)
		}
		if k < 0 || k > 64 || len(dl) == 0 {
			return "bad-op", true
		}
		r.beginOp(parseScript(op))
		base := r.nextID
		r.nextID += k
		evs := make([]*types.Event, k)
		for i := range evs {
			evs[i] = r.mkEvent(base+i, dl[i%len(dl)], strconv.Itoa(100+i), rateOf(op))
			if n, err := transmit.VerifTransmitMarshalSize(evs[i]); err != nil {
				kit.Ext("size %d = err", base+i)
			} else {
				kit.Ext("size %d = %d", base+i, n)
			}
		}
		enqAt := time.Duration(-1)
		doEnq := func() {
			if enqAt >= 0 {
				return
			}
			enqAt = r.now
			for _, ev := range evs {
				r.dt.EnqueueEvent(ev)
			}
		}
		r.mu.Lock()
		r.holdActive = !r.stopped
		r.heldCh = make(chan struct{}, 64)
		r.releaseCh = make(chan struct{})
		r.mu.Unlock()
		e := r.advanceHold(time.Duration(d), doEnq)
		r.mu.Lock()
		r.holdActive = false
		r.mu.Unlock()
		if e != "" {
			return e, true
		}
		if enqAt < 0 && !r.stopped {
			doEnq()
			r.drain()
		}
		if enqAt < 0 {
			enqAt = r.now
		}
		kit.Ext("held %d = %d", base, int64(enqAt))
		return r.observe(""), true
	case "cenq":
		if !r.started || len(op) < 3 {
			return "bad-op", true
		}
		k, _ := strconv.Atoi(op[1])
		var dl []int
		for _, x := range strings.Split(op[2], ".") {
			v, _ := strconv.Atoi(x)
			dl = append(dl, v)
		}
		if k < 1 || k > 64 || len(dl) == 0 {
			return "bad-op", true
		}
		r.beginOp(parseScript(op))
		base := r.nextID
		r.nextID += k
		evs := make([]*types.Event, k)
		isNew := map[int]bool{}
		for i := range evs {
			evs[i] = r.mkEvent(base+i, dl[i%len(dl)], strconv.Itoa(100+i), rateOf(op))
			isNew[base+i] = true
			if n, err := transmit.VerifTransmitMarshalSize(evs[i]); err != nil {
				kit.Ext("size %d = err", base+i)
			} else {
				kit.Ext("size %d = %d", base+i, n)
			}
		}
		release := transmit.VerifTransmitHoldMap(r.dt)
		var ready, done sync.WaitGroup
		start := make(chan struct{})
		for _, ev := range evs {
			ready.Add(1)
			done.Add(1)
			go func() {
				defer done.Done()
				ready.Done()
				<-start
				r.dt.EnqueueEvent(ev)
			}()
		}
		ready.Wait()
		close(start)
		time.Sleep(time.Millisecond) // let them all reach the map lookup
		release()
		done.Wait()
		r.drain()
		// the order the implementation chose: what was dispatched in this op, then what waits
		var order []string
		seen := map[int]bool{}
		add := func(id int) {
			if isNew[id] && !seen[id] {
				seen[id] = true
				order = append(order, strconv.Itoa(id))
			}
		}
		r.mu.Lock()
		for _, a := range r.attempts {
			for _, id := range a.ids {
				add(id)
			}
		}
		r.mu.Unlock()
		did := map[int]bool{}
		for _, di := range dl {
			if did[di] || di < 0 || di >= len(r.dests) {
				continue
			}
			did[di] = true
			d := r.dests[di]
			for _, ev := range transmit.VerifTransmitPending(r.dt, d.host, d.key, d.dataset) {
				if v, ok := ev.Data.Get("id").(int64); ok {
					add(int(v))
				}
			}
		}
		o := "-"
		if len(order) > 0 {
			o = strings.Join(order, ".")
		}
		kit.Ext("order %d = %s", base, o)
		return r.observe(""), true
	case "adv":
		if !r.started || len(op) < 2 {
			return "bad-op", true
		}
		d, _ := strconv.ParseInt(op[1], 10, 64)
		r.beginOp(parseScript(op))
		if e := r.advance(time.Duration(d)); e != "" {
			return e, true
		}
		return r.observe(""), true
	case "stop":
		if !r.started {
			return "bad-op", true
		}
		r.beginOp(parseScript(op))
		if !bounded(func() { r.dt.Stop() }) {
			r.hung = true
			return "hang", true
		}
		r.stopped = true
		return r.observe(""), true
	}
	return "bad-op", true
}

// ---------------------------------------------------------------------------------- generator

var hostPool = []string{"http://h0.test", "http://h1.test:8080", "http://h2.test"}
var keyPool = []string{"k0", "k1", "key with space", "", "0123456789abcdef0123456789abcdef"}

// envOf is the environment the router would have resolved for an API key: k0 and k1 are two ingest
// keys of the same environment, the empty and the 32-hex key are classic keys (no environment).
func envOf(key string) string {
	switch key {
	case "k0", "k1":
		return "prod"
	case "key with space":
		return "dev"
	}
	return ""
}

var dsPool = []string{"ds0", "ds1", "data set", "a/b", "x%y", "ünï", "d+s?q#f"}
var badHosts = []string{"http://[bad", "http://h0.test/%zz"}

var raValues = []string{"0", "1", "2", "59", "60", "61", "-1", "1.5", "59.999999999", "60.0", "0.000000001", "1m", "1h", "abc",
	"+5", " 5", "3600", ""}

func genScript(r *kit.Rng, hang bool, now time.Duration) string {
	n := r.Pick(30, 25, 20, 15, 10)
	if n == 0 {
		return "-"
	}
	toks := make([]string, n)
	codes := []int{400, 401, 403, 404, 413, 500, 502, 202, 204, 429, 503}
	for i := range toks {
		switch r.Pick(26, 4, 5, 3, 6, 3, 3, 2, 2, 8, 2, 3, 18, 8, 3, 2, 2) {
		case 0:
			toks[i] = "ok"
		case 1:
			toks[i] = "okm"
		case 2:
			toks[i] = fmt.Sprintf("sh~%d", 1+r.Intn(3))
		case 3:
			toks[i] = fmt.Sprintf("lg~%d", 1+r.Intn(3))
		case 4:
			toks[i] = fmt.Sprintf("pe~%d", 1+r.Intn(3))
		case 5:
			toks[i] = fmt.Sprintf("ps~%d", []int{200, 0, 400, 429, 202}[r.Intn(5)])
		case 6:
			toks[i] = "ud"
		case 7:
			toks[i] = "udm"
		case 8:
			toks[i] = "em"
		case 9:
			toks[i] = fmt.Sprintf("st~%d", codes[r.Intn(len(codes))])
		case 10:
			toks[i] = fmt.Sprintf("sm~%d", []int{400, 401, 500, 429}[r.Intn(4)])
		case 11:
			toks[i] = fmt.Sprintf("sx~%d", []int{400, 500, 204, 503}[r.Intn(4)])
		case 12:
			code := []int{429, 503, 429, 503, 429, 503, 500, 400}[r.Intn(8)]
			var raw string
			switch r.Pick(15, 60, 25) {
			case 0:
				raw = "-"
			case 1:
				raw = kit.Enc(raValues[r.Intn(len(raValues))])
			case 2:
				off := []int{-5, 0, 1, 30, 59, 60, 61, 120}[r.Intn(8)]
				t := epoch.Add(now).Truncate(time.Second).Add(time.Duration(off) * time.Second)
				if r.Chance(50) {
					t = t.Add(time.Second) // round up: less than `off+1` seconds away
				}
				raw = kit.Enc(t.UTC().Format(http.TimeFormat))
			}
			toks[i] = fmt.Sprintf("ra~%d~%s", code, raw)
		case 13:
			toks[i] = "to"
		case 14:
			toks[i] = "er"
		case 15:
			toks[i] = "cl"
		case 16:
			if hang {
				toks[i] = "hg"
			} else {
				toks[i] = "to"
			}
		}
	}
	return strings.Join(toks, ",")
}

func (comp) Gen(r *kit.Rng, maxLen int, tier string) kit.Case {
	big := r.Chance(35)
	hang := !big && r.Chance(10)
	mb := []int{1, 2, 3, 5, 8, 16}[r.Intn(6)]
	if big {
		mb = 2 + r.Intn(9)
		if r.Chance(60) {
			mb = 6 + r.Intn(7)
		}
	}
	// some cases contain "enqueue while a timer-flushed batch is being sent" scenarios; the ones with
	// a batch that needs two requests (> 5 MB) are kept rare in the quick tier
	holdBig := big && r.Chance(map[bool]int{true: 30, false: 40}[tier == "quick"])
	holdSmall := !big && !hang && r.Chance(25)
	if holdBig {
		mb = 10 + r.Intn(4)
	}
	btms := []int{1, 4, 10, 100, 400, 1000, 30000}[r.Intn(7)]
	bt := time.Duration(btms) * time.Millisecond
	period := bt / 4
	ndPlain := 1 + r.Intn(4)
	nd := ndPlain + 1 + r.Intn(3) // the extra destinations are first used by a concurrent enqueue
	var dests []dest
	haveDot := false
	for len(dests) < nd {
		d := dest{host: hostPool[r.Intn(len(hostPool))], key: keyPool[r.Intn(len(keyPool))], dataset: dsPool[r.Intn(len(dsPool))]}
		if len(dests) > 0 && r.Chance(60) { // share components with an earlier destination
			o := dests[r.Intn(len(dests))]
			switch r.Intn(3) {
			case 0:
				d.host, d.key = o.host, o.key
			case 1:
				d.host, d.dataset = o.host, o.dataset
				if r.Chance(60) { // another ingest key of the same environment, same host and dataset
					switch o.key {
					case "k0":
						d.key = "k1"
					case "k1":
						d.key = "k0"
					}
				}
			case 2:
				d.key, d.dataset = o.key, o.dataset
			}
		}
		if r.Chance(8) {
			d.host = badHosts[r.Intn(len(badHosts))]
		}
		if !haveDot && r.Chance(5) { // a dataset name url.JoinPath cleans away (at most one per case)
			d.dataset = []string{"..", ".", ""}[r.Intn(3)]
		}
		dup := false
		for _, o := range dests {
			if o.host == d.host && o.key == d.key && o.dataset == d.dataset {
				dup = true
			}
		}
		if dup {
			continue
		}
		d.cls = destClass(d.host, d.dataset)
		d.bad = d.cls == "bad"
		if d.cls == "dot" {
			if haveDot {
				continue
			}
			haveDot = true
		}
		dests = append(dests, d)
	}
	// BatchSendTimeout runs on the real clock: generous unless the case contains real hangs
	sto := 120000
	if hang {
		sto = 1000
	}
	hdr := fmt.Sprintf("mb=%d bt=%d z=%d ah=%d sto=%d nd=%d", mb, btms, r.Intn(2), r.Pick(70, 30), sto, nd)
	for i, d := range dests {
		hdr += fmt.Sprintf(" d%d=%s|%s|%s|%s", i, kit.Enc(d.host), kit.Enc(d.key), kit.Enc(d.dataset), d.cls)
	}
	// generator-side bookkeeping (only used to aim at boundaries)
	now := time.Duration(0)
	used := make([]bool, nd)
	for i := 0; i < ndPlain; i++ {
		used[i] = true
	}
	cnt := make([]int, nd)
	sum := make([]int, nd) // packed bytes of the current sub-batch if the batch were split now
	start := make([]time.Duration, nd)
	ops := []string{"start"}
	n := 6 + r.Intn(maxLen)
	hangs := 0
	script := func() string {
		s := genScript(r, hang && hangs < 2, now)
		hangs += strings.Count(s, "hg")
		return s
	}
	hugeAt := -1
	if big && r.Chance(25) {
		hugeAt = r.Intn(n)
	}
	holdsLeft := 0
	if holdBig {
		holdsLeft = 1 + r.Intn(2)
	} else if holdSmall {
		holdsLeft = 1 + r.Intn(3)
	}
	holdScenario := func() bool {
		// a destination with an empty batch gets a batch that the timer will flush; while its first
		// request is held, more events for it (and maybe for another destination) arrive
		var cand []int
		for j := 0; j < nd; j++ {
			if used[j] && cnt[j] == 0 {
				cand = append(cand, j)
			}
		}
		if len(cand) == 0 || mb < 3 {
			return false
		}
		j := cand[r.Intn(len(cand))]
		nb := 1 + r.Intn(mb-1)
		if holdBig {
			nb = 6 + r.Intn(mb-6) // ~1 MB each: two requests (4 events fit into the first)
		}
		for a := 0; a < nb; a++ {
			sz := 60 + r.Intn(400)
			if holdBig {
				sz = 1_000_000 - r.Intn(2)*r.Intn(1000)
			}
			ops = append(ops, fmt.Sprintf("enq %d %d r=%d s=%s", j, sz, genRate(r), script()))
		}
		cnt[j], start[j], sum[j] = nb, now, 0
		stale := now + bt
		T := stale
		if T%period != 0 {
			T += period - T%period
		}
		for t := now - now%period + period; t <= T; t += period {
			for x := 0; x < nd; x++ {
				if cnt[x] > 0 && t-start[x] >= bt {
					cnt[x] = 0
				}
			}
		}
		// new events: more for j than the first request of the flushed batch carried, fewer than mb
		dl := []int{j}
		kj := 1 + r.Intn(mb-1)
		if holdBig {
			kj = 5 + r.Intn(mb-5)
		}
		k := kj
		var o = -1
		for x := 0; x < nd; x++ {
			if x != j && used[x] && cnt[x]+kj/2+1 < mb && r.Chance(40) {
				o = x
				break
			}
		}
		if o >= 0 {
			dl = []int{j, j, o}
			k = kj + kj/2
		}
		strs := make([]string, len(dl))
		for a, x := range dl {
			strs[a] = strconv.Itoa(x)
		}
		d := T - now
		now = T
		for a := 0; a < k; a++ {
			x := dl[a%len(dl)]
			if cnt[x] == 0 {
				start[x] = now
				sum[x] = 0
			}
			cnt[x]++
			sum[x] += 100 + a
			if cnt[x] >= mb {
				cnt[x] = 0
			}
		}
		rest := script()
		// the first request of the flushed batch is held, or fails in the transport (connection
		// dropped / refused / timed out on both attempts) while the later requests may succeed
		sc := []string{"hd", "hd", "hd", "hd", "cx", "cx", "cl", "er", "to,to", "to,cx"}[r.Intn(10)]
		if rest != "-" {
			sc += "," + rest
		}
		ops = append(ops, fmt.Sprintf("advh %d %d %s r=%d s=%s", int64(d), k, strings.Join(strs, "."), genRate(r), sc))
		return true
	}
	for i := 0; i < n; i++ {
		if holdsLeft > 0 && r.Chance(12) && holdScenario() {
			holdsLeft--
			continue
		}
		switch r.Pick(56, 34, 10) {
		case 2: // concurrent enqueue, preferably on destinations nothing was enqueued for yet
			if mb < 2 {
				ops = append(ops, fmt.Sprintf("adv 0 s=-"))
				break
			}
			var fresh, other []int
			for j := 0; j < nd; j++ {
				if !used[j] {
					fresh = append(fresh, j)
				} else if cnt[j] == 0 {
					other = append(other, j)
				}
			}
			cand := fresh
			if len(cand) == 0 || r.Chance(15) {
				cand = append(cand, other...)
			}
			if len(cand) == 0 {
				ops = append(ops, fmt.Sprintf("adv 0 s=-"))
				break
			}
			ndl := 1
			if len(cand) > 1 && r.Chance(35) {
				ndl = 2 + r.Intn(2)
				if ndl > len(cand) {
					ndl = len(cand)
				}
			}
			// pick ndl distinct candidates
			for a := 0; a < ndl; a++ {
				b := a + r.Intn(len(cand)-a)
				cand[a], cand[b] = cand[b], cand[a]
			}
			dl := cand[:ndl]
			k := 2 + r.Intn(7)
			if k > mb*ndl { // never more than one size dispatch per destination inside the op
				k = mb * ndl
			}
			if k < 2 {
				k = 2
			}
			strs := make([]string, ndl)
			for a, j := range dl {
				strs[a] = strconv.Itoa(j)
			}
			for a := 0; a < k; a++ {
				j := dl[a%ndl]
				used[j] = true
				if cnt[j] == 0 {
					start[j] = now
					sum[j] = 0
				}
				cnt[j]++
				sum[j] += 100 + a
				if cnt[j] >= mb {
					cnt[j] = 0
				}
			}
			ops = append(ops, fmt.Sprintf("cenq %d %s r=%d s=%s", k, strings.Join(strs, "."), genRate(r), script()))
		case 0:
			var plain []int
			for j := 0; j < nd; j++ {
				if used[j] {
					plain = append(plain, j)
				}
			}
			di := plain[r.Intn(len(plain))]
			if r.Chance(50) { // favour one destination so that batches fill up
				di = 0
			}
			var target string
			sz := 0
			cls := r.Pick(38, 10, 10, 8, 4, 30)
			if hugeAt >= 0 && i >= hugeAt { // this case's one event larger than a whole request
				hugeAt = -1
				cls = 6
			}
			if !big && cls != 4 && cls != 6 {
				cls = 0
				if r.Chance(10) {
					cls = 1
				}
			}
			if cls == 5 && r.Chance(80) {
				di = 0
			}
			switch cls {
			case 0:
				sz = 60 + r.Intn(400)
			case 1:
				sz = 100_000 + r.Intn(800_000)
			case 2:
				sz = 1_000_000 - r.Intn(3)*r.Intn(20)
			case 3:
				sz = 1_000_001 + r.Intn(2)*r.Intn(200_000)
				if tier != "quick" && r.Chance(10) { // an event that alone exceeds the 5 MB request limit
					sz = []int{5_000_001, 4_999_996, 5_000_000, 5_000_006, 5_300_000}[r.Intn(5)]
				}
			case 6:
				sz = []int{5_000_001, 4_999_996, 5_000_000, 5_000_006, 5_300_000}[r.Intn(5)]
			case 5: // fill the current sub-batch up to the 5 MB boundary, then aim at it
				room := 5_000_000 - 5 - sum[di]
				if room > 1_000_000 {
					sz = 1_000_000 - r.Intn(2)*r.Intn(50_000)
				} else {
					sz = room + []int{0, 0, 1, 5, 6, -1}[r.Intn(6)]
					if sz > 1_000_000 || sz < 60 {
						sz = 999_000 + r.Intn(1001)
					}
				}
			}
			if cls == 4 {
				target = "m"
			} else {
				target = strconv.Itoa(sz)
			}
			if cnt[di] == 0 {
				start[di] = now
				sum[di] = 0
			}
			cnt[di]++
			if sz <= 1_000_000 && cls != 4 {
				if sum[di]+sz > 5_000_000-5 {
					sum[di] = 0
				}
				sum[di] += sz
			}
			if cnt[di] >= mb {
				cnt[di] = 0
			}
			ops = append(ops, fmt.Sprintf("enq %d %s r=%d s=%s", di, target, genRate(r), script()))
		case 1:
			var d time.Duration
			toTick := period - now%period
			var oldest time.Duration = -1
			for j := 0; j < nd; j++ {
				if cnt[j] > 0 && (oldest < 0 || start[j] < oldest) {
					oldest = start[j]
				}
			}
			switch r.Pick(30, 25, 10, 10, 10, 10, 5) {
			case 0:
				d = toTick
			case 1:
				if oldest >= 0 && oldest+bt > now {
					d = oldest + bt - now // the instant the oldest batch becomes stale
					if x := d % period; r.Chance(60) && (now+d)%period != 0 {
						_ = x
						d += period - (now+d)%period // ... and on to the tick that sees it
					}
				} else {
					d = toTick
				}
			case 2:
				d = toTick - 1
			case 3:
				d = toTick + 1
			case 4:
				d = bt
			case 5:
				d = time.Duration(r.Intn(int(2*bt/time.Microsecond)+1)) * time.Microsecond
			case 6:
				d = 0
			}
			if d < 0 {
				d = 0
			}
			if d > 3*bt {
				d = 3 * bt
			}
			// what the ticks do to the bookkeeping
			for t := now - now%period + period; t <= now+d; t += period {
				for j := 0; j < nd; j++ {
					if cnt[j] > 0 && t-start[j] >= bt {
						cnt[j] = 0
					}
				}
			}
			now += d
			ops = append(ops, fmt.Sprintf("adv %d s=%s", int64(d), script()))
		}
	}
	if r.Chance(95) {
		ops = append(ops, "stop s="+script())
		if r.Chance(20) {
			ops = append(ops, fmt.Sprintf("adv %d s=-", int64(bt)))
		}
		if r.Chance(10) {
			ops = append(ops, "stop s=-")
		}
	}
	return kit.Case{Header: hdr, Ops: ops}
}

func facts() map[string]string { return transmit.VerifTransmitFacts() }

func main() {
	if runtime.GOMAXPROCS(0) < 8 {
		runtime.GOMAXPROCS(8)
	}
	kit.Main(comp{}, facts)
}
