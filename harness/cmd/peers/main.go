//go:build verif

// Harness for internal/peer.RedisPubsubPeers (property C18).
//
// Several real RedisPubsubPeers live in one process.  Each gets
//   - a PubSub that belongs to the harness: Subscribe captures the callback the node registers
//     (its real `listen`), Publish records the message; *the harness* decides when (and whether,
//     and in which order) a recorded message is handed to which node's callback;
//   - a Clock whose NewTicker returns a ticker the harness fires by hand, so the real goroutine
//     started by Ready() publishes exactly when a `tick` operation says so (the send on the
//     ticker channel is a rendezvous with the goroutine's select; the harness then waits for the
//     Publish it causes), and closing Done makes the same goroutine run the real stop();
//   - a clockwork.FakeClock inside the peer map (VerifPeersUseClock).
// A crash is: the node is never ticked or asked again and publishes nothing.
//
// case header:  kind=net n=<nodes> d=<ns> ttl=<ns> refresh=<ns> jit=<ns> mode=fair|chaos id<i>=<enc> ident<i>=<enc> port<i>=<p>
//               kind=codec
// ops (net):    adv <ns> | start <i> | tick <i> <label> | stop <i> <label> | crash <i> | pubfail <i> [k]
//               (pubfail: the node's next k Publish calls return an error, then the pubsub is healthy again)
//               | deliver <label> <i> | inject <i> <enc bytes>
// ops (codec):  enc <R|U> <enc address> <enc id> | dec <enc message>
// obs:          adv/start/crash: p=<i>@<enc addr>,<enc addr>;<i>@…   (GetPeers of every running node; "-" if none)
//               deliver/inject: p=<i>@…  (the receiving node only) | noop
//               every p=… is followed by cb=<i>@<list>;…  for the same nodes: the GetPeers() value seen by the
//               most recent invocation of a callback registered with RegisterUpdatedPeersCallback ("-": never
//               invoked) — what a subscriber such as the deterministic sharder has loaded
//               tick: pub=<enc message> per=<ns> | pub=failed per=<ns> | pub=notdue | pub=none | noop
//                     (per = the period the refresh ticker has now: NewTicker's, or the last Reset's;
//                      notdue = the code has lengthened the period and the ticker would not fire yet)
//               stop: pub=<enc message> | pub=failed | pub=none | noop
//               enc: m=<enc marshalled> ok=<0|1> [act=<enc> addr=<enc> id=<enc>]   (unmarshal of the marshalled string)
//               dec: ok=<0|1> [act= addr= id=]
// ext:          start: `node <i> = <enc public address> <refresh interval the goroutine asked its ticker for>`
package main

import (
	"context"
	"errors"
	"fmt"
	"math/big"
	"sort"
	"strconv"
	"strings"
	"sync"
	"sync/atomic"
	"time"

	"github.com/honeycombio/refinery/config"
	"github.com/honeycombio/refinery/internal/peer"
	kit "github.com/honeycombio/refinery/internal/verifkit"
	"github.com/honeycombio/refinery/logger"
	"github.com/honeycombio/refinery/metrics"
	"github.com/honeycombio/refinery/pubsub"
	"github.com/jonboulle/clockwork"
)

type comp struct{}

const waitFor = 3 * time.Second

// ---------------------------------------------------------------------------- clock with hand-fired tickers

// mticker is fired by hand, but it keeps the period the code asked for — at NewTicker and at every
// Reset — and the instant it was created / last fired / last reset.  A `tick` operation fires it only
// if it is due: the node's heartbeat schedule (header iv<i>, standing in for the jittered interval the
// code drew, which the generator cannot know) stretched by  current period / original period.  So a
// change of the period by the code changes the instants at which the node publishes.
type mticker struct {
	ch    chan time.Time
	fake  *clockwork.FakeClock
	mu    sync.Mutex
	orig  time.Duration
	cur   time.Duration
	base  time.Time
	calls atomic.Int64 // evaluations of Chan(): one per entry of the goroutine into its select
}

func (t *mticker) Chan() <-chan time.Time { t.calls.Add(1); return t.ch }
func (t *mticker) Reset(d time.Duration) {
	t.mu.Lock()
	t.cur, t.base = d, t.fake.Now()
	t.mu.Unlock()
}
func (t *mticker) Stop() {}

func (t *mticker) period() time.Duration {
	t.mu.Lock()
	defer t.mu.Unlock()
	return t.cur
}

// due: now - base >= iv * cur / orig   (exact)
func (t *mticker) due(iv int64) bool {
	t.mu.Lock()
	defer t.mu.Unlock()
	if iv <= 0 || t.orig <= 0 {
		return true
	}
	el := big.NewInt(int64(t.fake.Now().Sub(t.base)))
	lhs := new(big.Int).Mul(el, big.NewInt(int64(t.orig)))
	rhs := new(big.Int).Mul(big.NewInt(iv), big.NewInt(int64(t.cur)))
	return lhs.Cmp(rhs) >= 0
}

func (t *mticker) fired() {
	t.mu.Lock()
	t.base = t.fake.Now()
	t.mu.Unlock()
}

type mclock struct {
	*clockwork.FakeClock
	mu      sync.Mutex
	tickers []*mticker
	periods []time.Duration
	made    chan struct{}
}

func (c *mclock) NewTicker(d time.Duration) clockwork.Ticker {
	t := &mticker{ch: make(chan time.Time), fake: c.FakeClock, orig: d, cur: d, base: c.FakeClock.Now()}
	c.mu.Lock()
	c.tickers = append(c.tickers, t)
	c.periods = append(c.periods, d)
	c.mu.Unlock()
	c.made <- struct{}{}
	return t
}

// ---------------------------------------------------------------------------- harness-owned pubsub

type attempt struct {
	msg    string
	failed bool
}

type hpubsub struct {
	mu       sync.Mutex
	cb       pubsub.SubscriptionCallback
	out      chan attempt
	drop     bool
	failNext int // the next failNext Publish calls return an error (`pubfail`)
}

type hsub struct{}

func (hsub) Close() {}

func (ps *hpubsub) Publish(ctx context.Context, topic, message string) error {
	ps.mu.Lock()
	drop := ps.drop
	fail := !drop && ps.failNext > 0
	if fail {
		ps.failNext--
	}
	ps.mu.Unlock()
	if fail {
		ps.out <- attempt{message, true}
		return errors.New("verif: injected publish failure")
	}
	if !drop {
		ps.out <- attempt{message, false}
	}
	return nil
}

func (ps *hpubsub) Subscribe(ctx context.Context, topic string, cb pubsub.SubscriptionCallback) pubsub.Subscription {
	ps.mu.Lock()
	ps.cb = cb
	ps.mu.Unlock()
	return hsub{}
}
func (ps *hpubsub) FormatTopic(topic string) string { return topic }
func (ps *hpubsub) Close()                          {}
func (ps *hpubsub) Start() error                    { return nil }
func (ps *hpubsub) Stop() error                     { return nil }

var _ pubsub.PubSub = (*hpubsub)(nil)

// ---------------------------------------------------------------------------- runner

type node struct {
	id, ident, port string
	iv              int64 // heartbeat schedule of the generator for this node (0: fire whenever asked)
	p               *peer.RedisPubsubPeers
	ps              *hpubsub
	clk             *mclock
	met             *metrics.MockMetrics
	viewMu          sync.Mutex
	view            []string // GetPeers() at the last callback invocation
	viewSet         bool
	cbDone          chan struct{}
	running         bool // started, not stopped, not crashed
	spawned         bool // Ready()'s goroutine exists and has not been told to finish
}

type runner struct {
	kind  string
	fake  *clockwork.FakeClock
	nodes []*node
	msgs  map[string]string
}

func (comp) NewCase(h []string) kit.Runner {
	r := &runner{kind: kit.KV(h, "kind"), fake: clockwork.NewFakeClock(), msgs: map[string]string{}}
	n, _ := strconv.Atoi(kit.KV(h, "n"))
	for i := 0; i < n; i++ {
		s := strconv.Itoa(i)
		r.nodes = append(r.nodes, &node{
			id:    kit.Dec(kit.KV(h, "id"+s)),
			ident: kit.Dec(kit.KV(h, "ident"+s)),
			port:  kit.KV(h, "port"+s),
			iv:    atoi64(kit.KV(h, "iv"+s)),
		})
	}
	return r
}

func atoi64(s string) int64 { n, _ := strconv.ParseInt(s, 10, 64); return n }

func encList(xs []string) string {
	e := make([]string, len(xs))
	for i, x := range xs {
		e[i] = kit.Enc(x)
	}
	return strings.Join(e, ",")
}

func (r *runner) peersOf(i int) string {
	ps, err := r.nodes[i].p.GetPeers()
	if err != nil {
		return fmt.Sprintf("%d@error", i)
	}
	return fmt.Sprintf("%d@%s", i, encList(ps))
}

func (r *runner) viewOf(i int) string {
	nd := r.nodes[i]
	nd.viewMu.Lock()
	defer nd.viewMu.Unlock()
	if !nd.viewSet {
		return fmt.Sprintf("%d@-", i)
	}
	return fmt.Sprintf("%d@%s", i, encList(nd.view))
}

func (r *runner) allPeers() string {
	var out, cbs []string
	for i, nd := range r.nodes {
		if nd.running {
			out = append(out, r.peersOf(i))
			cbs = append(cbs, r.viewOf(i))
		}
	}
	if len(out) == 0 {
		return "p=- cb=-"
	}
	return "p=" + strings.Join(out, ";") + " cb=" + strings.Join(cbs, ";")
}

// handle runs the node's real listen callback on msg and, when checkHash stored a new hash (so it
// started the registered callbacks in goroutines of their own), waits for our callback to finish.
func (r *runner) handle(i int, nd *node, msg string) string {
	// the hash checkHash stored is also what it reports as the peer_hash gauge (exported API only)
	h0, _ := nd.met.Get("peer_hash")
	nd.ps.cb(context.Background(), msg)
	cbState := ""
	if h1, _ := nd.met.Get("peer_hash"); h1 != h0 {
		select {
		case <-nd.cbDone:
		case <-time.After(waitFor):
			cbState = " cbwait=timeout"
		}
	}
	// a callback that ran although the hash did not change would be picked up here
	select {
	case <-nd.cbDone:
		cbState = " cbextra=1"
	default:
	}
	return "p=" + r.peersOf(i) + " cb=" + r.viewOf(i) + cbState
}

func (r *runner) node(tok string) (int, *node) {
	i, err := strconv.Atoi(tok)
	if err != nil || i < 0 || i >= len(r.nodes) {
		return -1, nil
	}
	return i, r.nodes[i]
}

func awaitPub(nd *node) (attempt, bool) {
	select {
	case a := <-nd.ps.out:
		return a, true
	case <-time.After(waitFor):
		return attempt{}, false
	}
}

func (r *runner) start(i int, nd *node) (string, bool) {
	if nd.p != nil {
		return "noop", true
	}
	cfg := &config.MockConfig{
		GetPeerListenAddrVal: "0.0.0.0:" + nd.port,
		RedisIdentifier:      nd.ident,
		PeerTimeout:          time.Second,
	}
	nd.ps = &hpubsub{out: make(chan attempt, 64)}
	nd.clk = &mclock{FakeClock: r.fake, made: make(chan struct{}, 8)}
	nd.met = &metrics.MockMetrics{}
	nd.met.Start()
	nd.p = &peer.RedisPubsubPeers{
		Config:     cfg,
		Metrics:    nd.met,
		Logger:     &logger.NullLogger{},
		PubSub:     nd.ps,
		Clock:      nd.clk,
		InstanceID: nd.id,
		Done:       make(chan struct{}),
	}
	if err := nd.p.Start(); err != nil {
		nd.p = nil
		return "start-error", true
	}
	nd.p.VerifPeersUseClock(r.fake)
	// stand-in for the sharder: on every change notification, load the peer list
	nd.cbDone = make(chan struct{}, 16)
	p := nd.p
	nd.p.RegisterUpdatedPeersCallback(func() {
		l, _ := p.GetPeers()
		nd.viewMu.Lock()
		nd.view, nd.viewSet = l, true
		nd.viewMu.Unlock()
		nd.cbDone <- struct{}{}
	})
	if err := nd.p.Ready(); err != nil {
		return "ready-error", true
	}
	nd.spawned = true
	// the goroutine creates its refresh ticker, then its log ticker
	for k := 0; k < 2; k++ {
		select {
		case <-nd.clk.made:
		case <-time.After(waitFor):
			return "ready-stuck", true
		}
	}
	nd.running = true
	addr, _ := nd.p.GetInstanceID() // = publicAddr(...)
	nd.clk.mu.Lock()
	period := nd.clk.periods[0]
	nd.clk.mu.Unlock()
	kit.Ext("node %d = %s %d", i, kit.Enc(addr), int64(period))
	return r.allPeers(), true
}

func (r *runner) Do(op []string) (string, bool) {
	switch op[0] {
	case "enc":
		if len(op) != 4 {
			return "bad-op", true
		}
		m := peer.VerifPeersMarshal(op[1], kit.Dec(op[2]), kit.Dec(op[3]))
		return "m=" + kit.Enc(m) + " " + decoded(m), true
	case "dec":
		if len(op) != 2 {
			return "bad-op", true
		}
		return decoded(kit.Dec(op[1])), true
	case "adv":
		d, _ := strconv.ParseInt(op[1], 10, 64)
		r.fake.Advance(time.Duration(d))
		return r.allPeers(), true
	case "start":
		i, nd := r.node(op[1])
		if nd == nil {
			return "noop", true
		}
		return r.start(i, nd)
	case "tick":
		_, nd := r.node(op[1])
		if nd == nil || !nd.running || len(op) != 3 {
			return "noop", true
		}
		nd.clk.mu.Lock()
		tk := nd.clk.tickers[0]
		nd.clk.mu.Unlock()
		if !tk.due(nd.iv) {
			return "pub=notdue", true
		}
		c0 := tk.calls.Load()
		select {
		case tk.ch <- r.fake.Now():
		case <-time.After(waitFor):
			return "pub=stuck", true
		}
		tk.fired()
		a, ok := awaitPub(nd)
		if !ok {
			return "pub=none", true
		}
		// wait until the goroutine is back in its select: whatever it does after Publish (a Reset of
		// the ticker, say) has happened by then
		for dl := time.Now().Add(waitFor); tk.calls.Load() == c0 && time.Now().Before(dl); {
			time.Sleep(20 * time.Microsecond)
		}
		per := fmt.Sprintf(" per=%d", int64(tk.period()))
		if a.failed {
			return "pub=failed" + per, true
		}
		r.msgs[op[2]] = a.msg
		return "pub=" + kit.Enc(a.msg) + per, true
	case "pubfail":
		_, nd := r.node(op[1])
		if nd == nil || !nd.running {
			return "noop", true
		}
		k := 1
		if len(op) > 2 {
			k, _ = strconv.Atoi(op[2])
		}
		nd.ps.mu.Lock()
		nd.ps.failNext = k
		nd.ps.mu.Unlock()
		return "ok", true
	case "stop":
		_, nd := r.node(op[1])
		if nd == nil || !nd.running || len(op) != 3 {
			return "noop", true
		}
		nd.running = false
		nd.spawned = false
		close(nd.p.Done)
		a, ok := awaitPub(nd)
		if !ok {
			return "pub=none", true
		}
		if a.failed {
			return "pub=failed", true
		}
		r.msgs[op[2]] = a.msg
		return "pub=" + kit.Enc(a.msg), true
	case "crash":
		_, nd := r.node(op[1])
		if nd == nil || !nd.running {
			return "noop", true
		}
		nd.running = false
		return r.allPeers(), true
	case "deliver":
		if len(op) != 3 {
			return "bad-op", true
		}
		i, nd := r.node(op[2])
		m, have := r.msgs[op[1]]
		if nd == nil || !nd.running || !have {
			return "noop", true
		}
		return r.handle(i, nd, m), true
	case "inject":
		if len(op) != 3 {
			return "bad-op", true
		}
		i, nd := r.node(op[1])
		if nd == nil || !nd.running {
			return "noop", true
		}
		return r.handle(i, nd, kit.Dec(op[2])), true
	}
	return "bad-op", true
}

func decoded(m string) string {
	ok, act, addr, id := peer.VerifPeersUnmarshal(m)
	if !ok {
		return "ok=0"
	}
	return fmt.Sprintf("ok=1 act=%s addr=%s id=%s", kit.Enc(act), kit.Enc(addr), kit.Enc(id))
}

func (r *runner) Close() {
	// let the parked goroutines of crashed / still running nodes finish (their unregister goes nowhere)
	for _, nd := range r.nodes {
		if nd.spawned {
			nd.ps.mu.Lock()
			nd.ps.drop = true
			nd.ps.mu.Unlock()
			close(nd.p.Done)
			nd.spawned = false
		}
	}
}

// ---------------------------------------------------------------------------- generator

var alphabet = []string{"a", "b", "h", "t", "p", "0", "1", "8", ".", ":", "/", "-", ",", ",", "R", "U", " ", "=", "%", "\x00", "\xff", "é", "日"}

func randStr(r *kit.Rng, maxLen int, commas bool) string {
	n := r.Intn(maxLen + 1)
	var b strings.Builder
	for i := 0; i < n; i++ {
		c := alphabet[r.Intn(len(alphabet))]
		if c == "," && !commas {
			c = "x"
		}
		b.WriteString(c)
	}
	return b.String()
}

const idChars = "0123456789abcdefghijklmnopqrstuvwxyzABCDEF-_."

// plainID returns a comma-free instance id of exactly n bytes.
func plainID(r *kit.Rng, n int) string {
	b := make([]byte, n)
	for i := range b {
		b[i] = idChars[r.Intn(len(idChars))]
	}
	return string(b)
}

// idLen picks an id length in 1..40; 8 (what main.go generates today), 7, 9 and long ids are all common.
func idLen(r *kit.Rng) int {
	switch r.Pick(25, 10, 15, 10, 10, 30) {
	case 0:
		return 8
	case 1:
		return 7
	case 2:
		return 9
	case 3:
		return 16
	case 4:
		return 36 // a UUID's length
	}
	return 1 + r.Intn(40)
}

func genCodec(r *kit.Rng, maxLen int) kit.Case {
	n := 8 + r.Intn(maxLen/2+1)
	var ops []string
	for i := 0; i < n; i++ {
		switch r.Pick(30, 20, 8, 42) {
		case 0: // realistic command
			addr := fmt.Sprintf("http://%s:%d", []string{"refinery-1", "10.0.0.7", "[fe80::1]", "host.example.com"}[r.Intn(4)], 8081+r.Intn(3))
			id := plainID(r, idLen(r))
			ops = append(ops, fmt.Sprintf("enc %s %s %s", []string{"R", "U"}[r.Intn(2)], kit.Enc(addr), kit.Enc(id)))
		case 1: // arbitrary strings, id without a comma (the address may have any)
			ops = append(ops, fmt.Sprintf("enc %s %s %s", []string{"R", "U"}[r.Intn(2)], kit.Enc(randStr(r, 8, true)), kit.Enc(randStr(r, []int{3, 8, 9, 20, 40}[r.Intn(5)], false))))
		case 2: // arbitrary strings, commas anywhere
			ops = append(ops, fmt.Sprintf("enc %s %s %s", []string{"R", "U"}[r.Intn(2)], kit.Enc(randStr(r, 8, true)), kit.Enc(randStr(r, []int{8, 20}[r.Intn(2)], true))))
		case 3: // arbitrary wire strings: short, no comma, leading comma, unknown action, old format
			var m string
			switch r.Intn(6) {
			case 0:
				m = randStr(r, 2, true)
			case 1:
				m = "R" + randStr(r, 6, false)
			case 2:
				m = "," + randStr(r, 5, true)
			case 3:
				m = []string{"X", "r", "u", "RR", "é"}[r.Intn(5)] + randStr(r, 4, false) + "," + randStr(r, 4, true)
			default:
				m = []string{"R", "U"}[r.Intn(2)] + randStr(r, 6, true)
			}
			ops = append(ops, "dec "+kit.Enc(m))
		}
	}
	return kit.Case{Header: "kind=codec", Ops: ops}
}

type gev struct {
	t    int64
	seq  int
	kind string // tick stop crash start deliver probe inject
	a    int    // node
	lab  int    // message label
	s    string
}

type gnode struct {
	started, running bool
	interval         int64
	failNext         int
}

func (comp) Gen(r *kit.Rng, maxLen int, tier string) kit.Case {
	if r.Chance(15) {
		return genCodec(r, maxLen)
	}
	ttl, refresh, jit := peer.VerifPeersConsts()
	if jit < 1 {
		jit = 1
	}
	G := refresh + jit
	fair := r.Chance(75)
	dmax := ttl - G - 1
	dchoices := []int64{0, 1_000_000, 250_000_000, 1_000_000_000, refresh, dmax}
	var d int64
	for tries := 0; ; tries++ {
		d = dchoices[r.Intn(len(dchoices))]
		if (d >= 0 && d <= dmax) || tries > 20 {
			break
		}
	}
	if d < 0 {
		d = 0
	}
	total := 2 + r.Intn(4) // incarnations available in this case
	comma := r.Chance(8)   // one node whose configured identifier contains a comma
	var hdr []string
	ids := map[string]bool{}
	sharedPrefix := r.Chance(33)
	intervals := make([]int64, total)
	for i := 0; i < total; i++ {
		// instance ids of every length 1..40; in a third of the cases all ids share their first 8 bytes
		id := plainID(r, idLen(r))
		if sharedPrefix {
			id = "refinery" + plainID(r, r.Intn(12))
			if i == 0 && r.Chance(50) {
				id = "refinery"
			}
		}
		if !fair && r.Chance(10) {
			id = []string{"a,b", "R", "0", "a,b,c"}[r.Intn(4)] // never "": hashList does not see an empty id (wyhash of no bytes returns its seed)
		}
		for ids[id] {
			id = id + "x"
		}
		ids[id] = true
		ident := fmt.Sprintf("host-%d", i)
		if r.Chance(15) {
			ident = fmt.Sprintf("10.0.0.%d", i+1)
		}
		if i > 0 && r.Chance(12) {
			ident = "host-0" // a restarted process: same address, new instance id
		}
		if comma && i == total-1 {
			ident = "a,b"
		}
		intervals[i] = refresh + int64(r.Intn(int(jit)))
		if r.Chance(20) {
			intervals[i] = refresh + jit - 1
		}
		hdr = append(hdr, fmt.Sprintf("id%d=%s ident%d=%s port%d=%d iv%d=%d", i, kit.Enc(id), i, kit.Enc(ident), i, 8081, i, intervals[i]))
	}
	mode := "chaos"
	if fair {
		mode = "fair"
	}
	header := fmt.Sprintf("kind=net n=%d d=%d ttl=%d refresh=%d jit=%d mode=%s %s", total, d, ttl, refresh, jit, mode, strings.Join(hdr, " "))

	// ---- event simulation
	var q []gev
	seq := 0
	push := func(e gev) { e.seq = seq; seq++; q = append(q, e) }
	nodes := make([]gnode, total)
	churnEnd := int64(r.Intn(3)) * refresh * int64(1+r.Intn(3))
	initial := 1 + r.Intn(total)
	for i := 0; i < total; i++ {
		t := int64(0)
		if i >= initial {
			t = 1 + int64(r.Intn(int(churnEnd/1_000_000)+1))*1_000_000
		} else if r.Chance(30) {
			t = int64(r.Intn(2000)) * 1_000_000
		}
		push(gev{t: t, kind: "start", a: i})
	}
	// transient publish failures: finitely many, inside the churn window (or shortly after the start)
	if r.Chance(30) {
		for k := 1 + r.Intn(3); k > 0; k-- {
			at := int64(r.Intn(int((churnEnd+2*refresh)/1_000_000)+1)) * 1_000_000
			push(gev{t: at, kind: "pubfail", a: r.Intn(total), lab: 1 + r.Intn(2)})
		}
	}
	label := 0
	var ops []string
	now := int64(0)
	lastChange := int64(0)
	horizonSet := false
	horizon := int64(0)
	budget := 100 + maxLen*10
	delay := func() int64 {
		if fair {
			switch r.Pick(20, 25, 55) {
			case 0:
				return 0
			case 1:
				return d
			}
			return int64(r.Intn(int(d/1000)+1)) * 1000
		}
		switch r.Pick(50, 20, 30) {
		case 0:
			return int64(r.Intn(int(d/1000)+1)) * 1000
		case 1:
			return d + 1 + int64(r.Intn(3000))*1_000_000
		}
		return -1 // lost
	}
	publish := func(lab int, from int) {
		for j := range nodes {
			if !nodes[j].running {
				continue
			}
			dl := delay()
			if dl < 0 {
				continue
			}
			push(gev{t: now + dl, kind: "deliver", a: j, lab: lab})
			if !fair && r.Chance(10) {
				push(gev{t: now + dl + int64(r.Intn(2000))*1_000_000, kind: "deliver", a: j, lab: lab}) // duplicate
			}
			if r.Chance(12) { // look at the exact expiry instant of what this delivery writes, and 1 ns later
				push(gev{t: now + dl + ttl, kind: "probe"})
				push(gev{t: now + dl + ttl + 1, kind: "probe"})
			}
		}
	}
	for len(ops) < budget {
		// next event in (time, seq) order
		if len(q) == 0 {
			break
		}
		sort.SliceStable(q, func(i, j int) bool {
			if q[i].t != q[j].t {
				return q[i].t < q[j].t
			}
			return q[i].seq < q[j].seq
		})
		e := q[0]
		q = q[1:]
		if horizonSet && e.t > horizon {
			break
		}
		if e.t > now {
			ops = append(ops, fmt.Sprintf("adv %d", e.t-now))
			now = e.t
		}
		switch e.kind {
		case "start":
			nd := &nodes[e.a]
			nd.started, nd.running = true, true
			nd.interval = intervals[e.a]
			lastChange = now
			ops = append(ops, fmt.Sprintf("start %d", e.a))
			push(gev{t: now + nd.interval, kind: "tick", a: e.a})
			// its fate
			if now <= churnEnd && r.Chance(45) {
				at := now + 1 + int64(r.Intn(int(churnEnd-now)/1_000_000+1))*1_000_000
				if r.Chance(50) {
					push(gev{t: at, kind: "stop", a: e.a})
				} else {
					push(gev{t: at, kind: "crash", a: e.a})
				}
			}
		case "tick":
			nd := &nodes[e.a]
			if !nd.running {
				continue
			}
			if !fair && r.Chance(8) { // a hung publisher: skips a refresh
				push(gev{t: now + nd.interval, kind: "tick", a: e.a})
				continue
			}
			label++
			ops = append(ops, fmt.Sprintf("tick %d %d", e.a, label))
			if nd.failNext > 0 { // this publish fails: nothing to deliver; the disturbance ends here
				nd.failNext--
				lastChange = now
			} else {
				publish(label, e.a)
			}
			push(gev{t: now + nd.interval, kind: "tick", a: e.a})
			// a graceful stop hard on the heels of a refresh: the unregister can overtake the register
			if now <= churnEnd && r.Chance(10) {
				push(gev{t: now + int64(r.Intn(int(d/1000)+1))*1000, kind: "stop", a: e.a})
			}
		case "stop":
			nd := &nodes[e.a]
			if !nd.running {
				continue
			}
			label++
			ops = append(ops, fmt.Sprintf("stop %d %d", e.a, label))
			nd.running = false
			lastChange = now
			if nd.failNext > 0 {
				nd.failNext--
			} else {
				publish(label, e.a)
			}
		case "crash":
			nd := &nodes[e.a]
			if !nd.running {
				continue
			}
			ops = append(ops, fmt.Sprintf("crash %d", e.a))
			nd.running = false
			lastChange = now
		case "deliver":
			if !nodes[e.a].running {
				continue
			}
			ops = append(ops, fmt.Sprintf("deliver %d %d", e.lab, e.a))
			if !fair && r.Chance(3) {
				junk := []string{"Rhttp://old-format:8081", "", "R", ",", "Xhttp://h:1,00000000", "U,"}[r.Intn(6)]
				ops = append(ops, fmt.Sprintf("inject %d %s", e.a, kit.Enc(junk)))
			}
		case "pubfail":
			nd := &nodes[e.a]
			if !nd.running {
				continue
			}
			ops = append(ops, fmt.Sprintf("pubfail %d %d", e.a, e.lab))
			nd.failNext = e.lab
		case "probe":
			// the adv above is the probe
		}
		// once every scheduled membership change has happened, run on until well past convergence
		if !horizonSet {
			pending := false
			for _, x := range q {
				if x.kind == "start" || x.kind == "stop" || x.kind == "crash" || x.kind == "pubfail" {
					pending = true
				}
			}
			for _, nd := range nodes {
				if nd.running && nd.failNext > 0 {
					pending = true
				}
			}
			if !pending && now >= churnEnd {
				horizonSet = true
				horizon = lastChange + d + ttl + G + int64(r.Intn(3))*refresh
				push(gev{t: lastChange + d + ttl, kind: "probe"})
				push(gev{t: lastChange + d + ttl + 1, kind: "probe"})
				push(gev{t: horizon, kind: "probe"})
			}
		}
	}
	return kit.Case{Header: header, Ops: ops}
}

func facts() map[string]string {
	ttl, refresh, jit := peer.VerifPeersConsts()
	return map[string]string{
		"peerEntryTimeout":     strconv.FormatInt(ttl, 10),
		"refreshCacheInterval": strconv.FormatInt(refresh, 10),
		"refreshJitterBound":   strconv.FormatInt(jit, 10),
		"registerByte":         strconv.Itoa(int(peer.VerifPeersMarshal(string(peer.Register), "", "")[0])),
		"unregisterByte":       strconv.Itoa(int(peer.VerifPeersMarshal(string(peer.Unregister), "", "")[0])),
	}
}

func main() { kit.Main(comp{}, facts) }
