//go:build verif

//go:debug randseednop=0

// Harness for sample.RulesBasedSampler (property C08).
//
// ops (state of a case = rule list under construction + trace under construction):
//
//	rule name=<enc> scope=<enc> rate=<int> drop=<0|1> down=<none|det<N>|dyn<N>[:f+g]|ema<N>[:f+g]|missing<N>>
//	cond field=<enc> fields=<enc,enc..|-> op=<enc> dt=<enc> val=<valtok>      (appended to the last rule)
//	span root=<0|1> [kind=<s|e|l>] <enc field>=<valtok> …   (appended to the trace; e = span event, l = link)
//	cleartrace
//	eval seed=<n>      builds the real config + sampler + trace and runs GetSampleRate
//
// value tokens: s:<enc> i:<int> f:<num>/<den> b:<0|1> n o:<id> l:<tok>~<tok>…
//
// obs of eval:  rate=<n> keep=<0|1> reason=<enc> key=<enc> m=<per rule: traceScopeBit spanScopeBit> x=<matrix>
// matrix: rules separated by '|', conditions by ';', spans by ',' ; a cell is <flags><valtok> with
// flags = exists + 2*checkedOnlyRoot + 4*matched as returned by the real code for (condition, span).
package main

import (
	"fmt"
	"encoding/json"
	"math/big"
	"math/rand"
	"reflect"
	"regexp"
	"sort"
	"strconv"
	"strings"

	"github.com/honeycombio/refinery/config"
	kit "github.com/honeycombio/refinery/internal/verifkit"
	"github.com/honeycombio/refinery/logger"
	"github.com/honeycombio/refinery/metrics"
	"github.com/honeycombio/refinery/sample"
	"github.com/honeycombio/refinery/types"
	"github.com/tidwall/gjson"
)

// ---------------------------------------------------------------- values

type val struct {
	k     byte // s i f b n o l
	s     string
	i     int64
	f     float64
	b     bool
	items []val
}

var (
	m2x  = map[string]any{"y": int64(5), "z": "s"}
	m3xy = map[string]any{"z": true, "n": nil, "f": 1.5}
	m3x  = map[string]any{"y": m3xy}
)

// "other" values: lists and (nested) maps.  Map ids start with M; inner maps have ids of their own.
var others = map[string]any{
	"L0":   []any{},
	"L1":   []any{int64(1), "a"},
	"M0":   map[string]any{},
	"M1":   map[string]any{"k": int64(1)},
	"M2":   map[string]any{"x": m2x, "k": "v"},
	"M2x":  m2x,
	"M3":   map[string]any{"status": int64(200), "x": m3x, "a": int64(7)},
	"M3x":  m3x,
	"M3xy": m3xy,
}

var otherIDs = []string{"L0", "L1", "M0", "M1", "M2", "M2x", "M3", "M3x", "M3xy"}

func ratStr(f float64) string {
	r := new(big.Rat)
	if r.SetFloat64(f) == nil {
		return "nan"
	}
	return r.Num().String() + "/" + r.Denom().String()
}

func (v val) tok() string {
	switch v.k {
	case 's':
		return "s:" + kit.Enc(v.s)
	case 'i':
		return fmt.Sprintf("i:%d", v.i)
	case 'f':
		return "f:" + ratStr(v.f)
	case 'b':
		if v.b {
			return "b:1"
		}
		return "b:0"
	case 'n':
		return "n"
	case 'o':
		return "o:" + v.s
	case 'l':
		ts := make([]string, len(v.items))
		for i, it := range v.items {
			ts[i] = it.tok()
		}
		return "l:" + strings.Join(ts, "~")
	}
	return "?"
}

func parseVal(t string) (val, bool) {
	switch {
	case t == "n":
		return val{k: 'n'}, true
	case strings.HasPrefix(t, "s:"):
		return val{k: 's', s: kit.Dec(t[2:])}, true
	case strings.HasPrefix(t, "i:"):
		n, err := strconv.ParseInt(t[2:], 10, 64)
		return val{k: 'i', i: n}, err == nil
	case strings.HasPrefix(t, "f:"):
		r, ok := new(big.Rat).SetString(t[2:])
		if !ok {
			return val{}, false
		}
		f, _ := r.Float64()
		return val{k: 'f', f: f}, true
	case t == "b:1":
		return val{k: 'b', b: true}, true
	case t == "b:0":
		return val{k: 'b', b: false}, true
	case strings.HasPrefix(t, "o:"):
		_, ok := others[t[2:]]
		return val{k: 'o', s: t[2:]}, ok
	case strings.HasPrefix(t, "l:"):
		v := val{k: 'l'}
		if t == "l:" {
			return v, true
		}
		for _, it := range strings.Split(t[2:], "~") {
			iv, ok := parseVal(it)
			if !ok || iv.k == 'l' {
				return val{}, false
			}
			v.items = append(v.items, iv)
		}
		return v, true
	}
	return val{}, false
}

// goVal: the Go value the real code sees.  Span data carries int64, the YAML loader gives int.
func (v val) goVal(cond bool) any {
	switch v.k {
	case 's':
		return v.s
	case 'i':
		if cond {
			return int(v.i)
		}
		return v.i
	case 'f':
		return v.f
	case 'b':
		return v.b
	case 'o':
		return others[v.s]
	case 'l':
		l := make([]any, len(v.items))
		for i, it := range v.items {
			l[i] = it.goVal(cond)
		}
		return l
	}
	return nil
}

func tokOfAny(a any) string {
	switch x := a.(type) {
	case nil:
		return "n"
	case string:
		return "s:" + kit.Enc(x)
	case int64:
		return fmt.Sprintf("i:%d", x)
	case int:
		return fmt.Sprintf("i:%d", x)
	case float64:
		return "f:" + ratStr(x)
	case bool:
		if x {
			return "b:1"
		}
		return "b:0"
	}
	for _, id := range otherIDs {
		if reflect.DeepEqual(others[id], a) {
			return "o:" + id
		}
	}
	return "?" + kit.Enc(fmt.Sprintf("%T", a))
}

// ---------------------------------------------------------------- graphs of the external functions

type exts struct{ seen map[string]bool }

func (e *exts) emit(format string, a ...any) {
	l := fmt.Sprintf(format, a...)
	if e.seen == nil {
		e.seen = map[string]bool{}
	}
	if !e.seen[l] {
		e.seen[l] = true
		kit.Ext("%s", l)
	}
}

// str: strconv.Atoi / ParseFloat(…,64) / ParseBool on s
func (e *exts) str(s string) {
	if n, err := strconv.Atoi(s); err == nil {
		e.emit("atoi %s = %d", kit.Enc(s), n)
	} else {
		e.emit("atoi %s = err", kit.Enc(s))
	}
	if f, err := strconv.ParseFloat(s, 64); err == nil {
		e.emit("pfloat %s = %s", kit.Enc(s), ratStr(f))
	} else {
		e.emit("pfloat %s = err", kit.Enc(s))
	}
	if b, err := strconv.ParseBool(s); err == nil {
		if b {
			e.emit("pbool %s = 1", kit.Enc(s))
		} else {
			e.emit("pbool %s = 0", kit.Enc(s))
		}
	} else {
		e.emit("pbool %s = err", kit.Enc(s))
	}
}

// jsonStr: what gjson returns as String() for a path that ends on this value in the JSON encoding
// of its container (encoding/json + gjson themselves, on a container built here)
func jsonStr(a any) (string, bool) {
	b, err := json.Marshal(map[string]any{"k": a})
	if err != nil {
		return "", false
	}
	r := gjson.Get(string(b), "k")
	return r.String(), r.Exists()
}

// span: for a span-side value, its JSON text and, for maps, their entries (recursively)
func (e *exts) span(v val) {
	a := v.goVal(false)
	if js, ok := jsonStr(a); ok {
		e.emit("jstr %s = %s", v.tok(), kit.Enc(js))
		e.value(val{k: 's', s: js}, false) // a nested hit reaches the matchers as this string
	} else {
		e.emit("jstr %s = err", v.tok())
	}
	if m, ok := a.(map[string]any); ok {
		keys := make([]string, 0, len(m))
		for k := range m {
			keys = append(keys, k)
		}
		sort.Strings(keys)
		ents := make([]string, 0, len(keys))
		for _, k := range keys {
			ents = append(ents, kit.Enc(k)+"~"+tokOfAny(m[k]))
		}
		if len(ents) == 0 {
			ents = []string{"-"}
		}
		e.emit("map %s = %s", v.s, strings.Join(ents, ","))
		for _, k := range keys {
			if iv, ok := parseVal(tokOfAny(m[k])); ok {
				e.value(iv, false)
				e.span(iv)
			}
		}
	}
}

// value: fmt.Sprintf("%v", v) and the parsers on every string the code can derive from v
func (e *exts) value(v val, cond bool) string {
	f := fmt.Sprintf("%v", v.goVal(cond))
	e.emit("fmt %s = %s", v.tok(), kit.Enc(f))
	e.str(f)
	if v.k == 's' {
		e.str(v.s)
	}
	for _, it := range v.items {
		e.value(it, cond)
	}
	return f
}

// ---------------------------------------------------------------- case state

type condSpec struct {
	field  string
	fields []string
	op, dt string
	val    val
}

type ruleSpec struct {
	name, scope string
	rate        int
	drop        bool
	down        string
	conds       []condSpec
}

type spanSpec struct {
	kind string // "" ordinary span, "span_event", "link" (meta.annotation_type)
	root bool
	keys []string
	vals []val
}

type runner struct {
	nested bool
	rules  []ruleSpec
	spans  []spanSpec
}

type comp struct{}

func (comp) NewCase(h []string) kit.Runner { return &runner{nested: kit.KV(h, "nested") == "1"} }

func (r *runner) Close() {}

var mockCfg = &config.MockConfig{}

func b01(b bool) string {
	if b {
		return "1"
	}
	return "0"
}

func (r *runner) Do(op []string) (string, bool) {
	switch op[0] {
	case "rule":
		rate, err := strconv.Atoi(kit.KV(op, "rate"))
		if err != nil {
			return "bad-op", true
		}
		r.rules = append(r.rules, ruleSpec{name: kit.Dec(kit.KV(op, "name")), scope: kit.Dec(kit.KV(op, "scope")),
			rate: rate, drop: kit.KV(op, "drop") == "1", down: kit.KV(op, "down")})
		return "", false
	case "cond":
		v, ok := parseVal(kit.KV(op, "val"))
		if !ok {
			return "bad-op", true
		}
		c := condSpec{field: kit.Dec(kit.KV(op, "field")), op: kit.Dec(kit.KV(op, "op")), dt: kit.Dec(kit.KV(op, "dt")), val: v}
		if fs := kit.KV(op, "fields"); fs != "-" && fs != "" {
			for _, f := range strings.Split(fs, ",") {
				c.fields = append(c.fields, kit.Dec(f))
			}
		}
		var e exts
		e.value(v, true)
		if len(r.rules) > 0 {
			last := &r.rules[len(r.rules)-1]
			last.conds = append(last.conds, c)
		}
		return "", false
	case "span":
		sp := spanSpec{}
		var e exts
		for _, a := range op[1:] {
			i := strings.IndexByte(a, '=')
			if i < 0 {
				return "bad-op", true
			}
			k, vt := a[:i], a[i+1:]
			if k == "root" && (vt == "0" || vt == "1") {
				sp.root = vt == "1"
				continue
			}
			if a == "kind=e" || a == "kind=l" || a == "kind=s" {
				sp.kind = map[string]string{"kind=e": "span_event", "kind=l": "link", "kind=s": ""}[a]
				continue
			}
			v, ok := parseVal(vt)
			if !ok || v.k == 'l' {
				return "bad-op", true
			}
			name := kit.Dec(k)
			dup := false
			for _, have := range sp.keys {
				dup = dup || have == name
			}
			if dup { // first occurrence wins
				continue
			}
			sp.keys = append(sp.keys, name)
			sp.vals = append(sp.vals, v)
			e.value(v, false)
			e.span(v)
		}
		r.spans = append(r.spans, sp)
		return "", false
	case "cleartrace":
		r.spans = nil
		return "", false
	case "eval":
		seed, err := strconv.ParseInt(kit.KV(op, "seed"), 10, 64)
		if err != nil {
			return "bad-op", true
		}
		return r.eval(seed), true
	}
	return "bad-op", true
}

// downCfg: det<N> | missing<N> | dyn<N>[:<f1>+<f2>…] | ema<N>[:<f1>+…]   (default field list: a)
func downCfg(d string) (*config.RulesBasedDownstreamSampler, bool) {
	spec, fl := d, "a"
	if i := strings.IndexByte(d, ':'); i >= 0 {
		spec, fl = d[:i], d[i+1:]
	}
	fields := strings.Split(fl, "+")
	num := func(p string) int { n, _ := strconv.Atoi(strings.TrimPrefix(spec, p)); return n }
	switch {
	case strings.HasPrefix(spec, "det"):
		return &config.RulesBasedDownstreamSampler{DeterministicSampler: &config.DeterministicSamplerConfig{SampleRate: num("det")}}, false
	case strings.HasPrefix(spec, "missing"):
		return &config.RulesBasedDownstreamSampler{DeterministicSampler: &config.DeterministicSamplerConfig{SampleRate: num("missing")}}, true
	case strings.HasPrefix(spec, "dyn"):
		return &config.RulesBasedDownstreamSampler{DynamicSampler: &config.DynamicSamplerConfig{SampleRate: int64(num("dyn")), FieldList: fields}}, false
	case strings.HasPrefix(spec, "ema"):
		return &config.RulesBasedDownstreamSampler{EMADynamicSampler: &config.EMADynamicSamplerConfig{GoalSampleRate: num("ema"), FieldList: fields}}, false
	}
	return nil, false
}

func (r *runner) eval(seed int64) string {
	// the real configuration
	cfg := &config.RulesBasedSamplerConfig{CheckNestedFields: r.nested}
	var forget []*config.RulesBasedSamplerRule
	for _, rs := range r.rules {
		rule := &config.RulesBasedSamplerRule{Name: rs.name, SampleRate: rs.rate, Drop: rs.drop, Scope: rs.scope}
		for _, cs := range rs.conds {
			rule.Conditions = append(rule.Conditions, &config.RulesBasedSamplerCondition{
				Field: cs.field, Fields: append([]string(nil), cs.fields...), Operator: cs.op, Datatype: cs.dt, Value: cs.val.goVal(true)})
		}
		var miss bool
		rule.Sampler, miss = downCfg(rs.down)
		if miss {
			forget = append(forget, rule)
		}
		cfg.Rules = append(cfg.Rules, rule)
	}
	factory := &sample.SamplerFactory{Logger: &logger.NullLogger{}, Metrics: &metrics.NullMetrics{}}
	factory.Start()
	defer factory.Stop()
	refFactory := &sample.SamplerFactory{Logger: &logger.NullLogger{}, Metrics: &metrics.NullMetrics{}}
	refFactory.Start()
	defer refFactory.Stop()
	s := &sample.RulesBasedSampler{Config: cfg, Logger: &logger.NullLogger{}, Metrics: &metrics.NullMetrics{}, SamplerFactory: factory}
	if err := s.Start(); err != nil {
		return "start-error"
	}
	for _, rule := range forget {
		sample.VerifRulesForgetDownstream(s, rule)
	}

	// the real trace
	trace := &types.Trace{TraceID: fmt.Sprintf("trace-%d", seed)}
	var spans []*types.Span
	for _, ss := range r.spans {
		m := make(map[string]any, len(ss.keys))
		for i, k := range ss.keys {
			m[k] = ss.vals[i].goVal(false)
		}
		sp := &types.Span{TraceID: trace.TraceID, Event: &types.Event{Data: types.NewPayload(mockCfg, m)}}
		sp.Data.MetaAnnotationType = ss.kind
		trace.AddSpan(sp)
		if ss.root {
			sp.IsRoot = true
			trace.RootSpan = sp
		}
		spans = append(spans, sp)
	}

	// graphs of the external functions on the arguments this evaluation can reach
	var e exts
	subjects := map[string]bool{}
	subjects[e.value(val{k: 'n'}, false)] = true
	subjects[e.value(val{k: 'i', i: int64(len(spans))}, false)] = true
	var addSubjects func(a any)
	addSubjects = func(a any) {
		subjects[fmt.Sprintf("%v", a)] = true
		if js, ok := jsonStr(a); ok {
			subjects[js] = true
		}
		if m, ok := a.(map[string]any); ok {
			for _, iv := range m {
				addSubjects(iv)
			}
		}
	}
	for _, ss := range r.spans {
		for _, v := range ss.vals {
			addSubjects(v.goVal(false))
		}
	}
	for _, rs := range r.rules {
		for _, cs := range rs.conds {
			if cs.op != config.MatchesRegexp {
				continue
			}
			p := fmt.Sprintf("%v", cs.val.goVal(true))
			re, err := regexp.Compile(p)
			e.emit("rxc %s = %s", kit.Enc(p), b01(err == nil))
			if err != nil {
				continue
			}
			for sub := range subjects {
				e.emit("rxm %s %s = %s", kit.Enc(p), kit.Enc(sub), b01(re.MatchString(sub)))
			}
		}
	}
	for i, rs := range r.rules {
		rule := cfg.Rules[i]
		if rule.Sampler != nil {
			// The answer of THIS rule's downstream sampler, obtained independently of the table the
			// rules sampler keeps: a fresh sampler of the same definition from a factory of our own
			// (downstream samplers start from their configured goal rate; the draw is seeded).
			if _, miss := downCfg(rs.down); miss {
				e.emit("down %d = missing", i)
				continue
			}
			refCfg, _ := downCfg(rs.down)
			d := refFactory.GetDownstreamSampler("", refCfg)
			rand.Seed(seed)
			rate, keep, reason, key := d.GetSampleRate(trace)
			e.emit("down %d = %d %s %s %s", i, rate, b01(keep), kit.Enc(reason), kit.Enc(key))
		} else if rs.rate > 0 {
			rand.Seed(seed)
			e.emit("intn %d = %d", rs.rate, rand.Intn(rs.rate))
		}
	}

	// the pieces, as the real code computes them
	var mbits, matrix strings.Builder
	for i, rule := range cfg.Rules {
		mbits.WriteString(b01(sample.VerifRulesMatchTrace(trace, rule, r.nested)))
		mbits.WriteString(b01(sample.VerifRulesMatchSpan(trace, rule, r.nested)))
		if i > 0 {
			matrix.WriteByte('|')
		}
		for j, c := range rule.Conditions {
			if j > 0 {
				matrix.WriteByte(';')
			}
			for k, sp := range spans {
				if k > 0 {
					matrix.WriteByte(',')
				}
				v, ex, root, m := sample.VerifRulesCondOnSpan(trace, sp, c, r.nested)
				fl := 0
				if ex {
					fl |= 1
				}
				if root {
					fl |= 2
				}
				if m {
					fl |= 4
				}
				matrix.WriteString(strconv.Itoa(fl))
				matrix.WriteString(tokOfAny(v))
			}
		}
	}
	ms, xs := mbits.String(), matrix.String()
	if ms == "" {
		ms = "-"
	}
	if xs == "" {
		xs = "-"
	}

	// the decision
	rand.Seed(seed)
	rate, keep, reason, key := s.GetSampleRate(trace)
	return fmt.Sprintf("rate=%d keep=%s reason=%s key=%s m=%s x=%s", rate, b01(keep), kit.Enc(reason), kit.Enc(key), ms, xs)
}

// ---------------------------------------------------------------- generator

var operators = []string{config.NEQ, config.EQ, config.GT, config.LT, config.GTE, config.LTE,
	config.Contains, config.DoesNotContain, config.StartsWith, config.Exists, config.NotExists,
	config.HasRootSpan, config.MatchesRegexp, config.In, config.NotIn}
var datatypes = []string{"", "string", "int", "float", "bool"}

var intPool = []int64{0, 1, 2, 3, 5, 10, -3, 200, 404, 500, 1000000}
var floatPool = []float64{0.5, 1.5, 2, 2.25, -3, 200, 10, 1e6, 0, -0.5, -1.5, 0.125, 0.75, 2.5, 4.875, -2.75, 9.5, 199.5}
var strPool = []string{"", "a", "ab", "abc", "b", "nil", "<nil>", "<ni", "il>", "n", "1", "2", "3", "10", "200", "1.5", "2.0",
	"true", "false", "t", "0", "foo", "/health", "x.y", "é", " 5", "0x10", "1e2", "[]", "map[]", "1e+06"}
var rxPool = []string{"^a", "b$", "nil", "[0-9]+", "^<nil>$", "(", "a|b", ".*", "^$", "^\\d+$", "^[a-z]+$", "<", "^2"}

func pickStr(r *kit.Rng, p []string) string { return p[r.Intn(len(p))] }

// scalar of kind k: s i f b n o
func scalar(r *kit.Rng, k byte, cond bool) val {
	switch k {
	case 's':
		return val{k: 's', s: pickStr(r, strPool)}
	case 'i':
		return val{k: 'i', i: intPool[r.Intn(len(intPool))]}
	case 'f':
		return val{k: 'f', f: floatPool[r.Intn(len(floatPool))]}
	case 'b':
		return val{k: 'b', b: r.Chance(50)}
	case 'o':
		if cond { // a YAML mapping; YAML sequences are the 'l' kind
			return val{k: 'o', s: []string{"M0", "M1"}[r.Intn(2)]}
		}
		return val{k: 'o', s: []string{"L0", "L1", "M0", "M1"}[r.Intn(4)]}
	}
	return val{k: 'n'}
}

func anyScalar(r *kit.Rng, cond bool) val {
	return scalar(r, "sifbno"[r.Pick(30, 24, 14, 12, 10, 10)], cond)
}

// kindFor: the value kind that suits a datatype (so typed comparisons mostly convert)
func kindFor(r *kit.Rng, dt string) byte {
	switch dt {
	case "int":
		return "isf"[r.Pick(50, 25, 25)]
	case "float":
		return "fis"[r.Pick(50, 30, 20)]
	case "bool":
		return "bsi"[r.Pick(50, 35, 15)]
	case "string":
		return "sifb"[r.Pick(60, 20, 10, 10)]
	}
	return "sifb"[r.Pick(30, 30, 25, 15)]
}

func genCondValue(r *kit.Rng, op, dt string) val {
	if r.Chance(22) { // every value kind under every operator and datatype
		k := "sifbnol"[r.Intn(7)]
		if k == 'l' {
			l := val{k: 'l'}
			n := r.Intn(4)
			for i := 0; i < n; i++ {
				l.items = append(l.items, anyScalar(r, true))
			}
			return l
		}
		return scalar(r, k, true)
	}
	switch op {
	case config.HasRootSpan:
		switch r.Pick(70, 20, 10) {
		case 0:
			return val{k: 'b', b: r.Chance(50)}
		case 1:
			return val{k: 's', s: []string{"true", "false", "1", "t", "0", "yes"}[r.Intn(6)]}
		}
		return anyScalar(r, true)
	case config.MatchesRegexp:
		if r.Chance(85) {
			return val{k: 's', s: pickStr(r, rxPool)}
		}
		return anyScalar(r, true)
	case config.In, config.NotIn:
		switch r.Pick(68, 24, 8) {
		case 0:
			l := val{k: 'l'}
			n := r.Intn(5)
			for i := 0; i < n; i++ {
				if r.Chance(85) {
					l.items = append(l.items, scalar(r, kindFor(r, dt), true))
				} else {
					l.items = append(l.items, anyScalar(r, true))
				}
			}
			return l
		case 1:
			return scalar(r, "sif"[r.Intn(3)], true)
		}
		return anyScalar(r, true) // bool / nil / mapping: "value must be a list of scalars"
	}
	if r.Chance(85) {
		return scalar(r, kindFor(r, dt), true)
	}
	if r.Chance(10) {
		return val{k: 'l', items: []val{scalar(r, 'i', true)}}
	}
	return anyScalar(r, true)
}

var plainFields = []string{"a", "b", "c", "d"}

var nestedPaths = []string{"c.x", "c.x.y", "c.x.y.z", "c.x.y.f", "c.x.y.n", "c.status", "c.k", "d.x.z", "d.k", "c.q", "c.x.q", "c.k.v", "root.x", "root.k", "a.k"}

func genFieldName(r *kit.Rng) string {
	if genNested && r.Chance(38) {
		p := pickStr(r, nestedPaths)
		if r.Chance(30) {
			return config.RootPrefix + p
		}
		return p
	}
	switch r.Pick(58, 25, 8, 3, 2, 1, 1, 2) {
	case 0:
		return pickStr(r, plainFields)
	case 1:
		return config.RootPrefix + pickStr(r, plainFields)
	case 2:
		return "zz" // never present
	case 3:
		return config.RootPrefix + "zz"
	case 4:
		return string(config.NUM_DESCENDANTS) // as an element of Fields it is an ordinary name
	case 5:
		return config.RootPrefix + config.RootPrefix + "a"
	case 6:
		return config.RootPrefix
	}
	return config.RootPrefix + "a" // also exists as a literal span field name sometimes
}

func genCond(r *kit.Rng) string {
	op := operators[r.Intn(len(operators))]
	if r.Chance(1) {
		op = "like"
	}
	dt := datatypes[r.Intn(len(datatypes))]
	field, fields := "", []string(nil)
	switch r.Pick(50, 32, 3, 2, 13) {
	case 0:
		field = genFieldName(r)
	case 1:
		n := 1 + r.Intn(3)
		for i := 0; i < n; i++ {
			fields = append(fields, genFieldName(r))
		}
	case 2: // both: Init reports an error and installs no matcher
		field = genFieldName(r)
		fields = append(fields, genFieldName(r))
	case 3: // neither
	case 4:
		field = string(config.NUM_DESCENDANTS)
		if r.Chance(60) {
			dt = "int"
		}
	}
	v := genCondValue(r, op, dt)
	if field == string(config.NUM_DESCENDANTS) && r.Chance(70) && op != config.In && op != config.NotIn {
		v = val{k: 'i', i: int64(r.Intn(8))}
	}
	noteThresholds(v)
	fs := "-"
	if len(fields) > 0 {
		enc := make([]string, len(fields))
		for i, f := range fields {
			enc[i] = kit.Enc(f)
		}
		fs = strings.Join(enc, ",")
	}
	return fmt.Sprintf("cond field=%s fields=%s op=%s dt=%s val=%s", kit.Enc(field), fs, kit.Enc(op), kit.Enc(dt), v.tok())
}

// per case: the scope, condition count, rate and name most rules share, so that rules that differ
// only in their conditions and downstream samplers are common
var houseScope string
var houseConds int
var houseName string

func genDown(r *kit.Rng) string {
	fl := []string{"a", "b", "a+b", "c", "d+a"}[r.Intn(5)]
	switch r.Pick(34, 33, 25, 8) {
	case 0:
		return fmt.Sprintf("det%d", []int{1, 2, 3, 7, 11}[r.Intn(5)])
	case 1:
		return fmt.Sprintf("dyn%d:%s", []int{1, 2, 5, 9}[r.Intn(4)], fl)
	case 2:
		return fmt.Sprintf("ema%d:%s", []int{1, 3, 4, 8}[r.Intn(4)], fl)
	}
	return "missing2"
}

func genRule(r *kit.Rng, idx int) []string {
	name := fmt.Sprintf("r%d", idx)
	switch r.Pick(52, 22, 20, 3, 3) {
	case 1:
		name = houseName // shared: names are not checked for uniqueness
	case 2:
		name = ""
	case 3:
		name = "r0"
	case 4:
		name = "a rule/with:odd chars"
	}
	scope := []string{"trace", "", "span", "bogus"}[r.Pick(38, 15, 42, 5)]
	if r.Chance(55) {
		scope = houseScope
	}
	rate := []int{1, 2, 3, 10, 0, -1, 100}[r.Pick(28, 22, 12, 12, 12, 3, 11)]
	drop := r.Chance(20)
	down := "none"
	if r.Chance(36) {
		down = genDown(r)
		if r.Chance(75) { // SampleRate / Drop are not used by a delegating rule
			rate, drop = 1, false
		}
	}
	ops := []string{fmt.Sprintf("rule name=%s scope=%s rate=%d drop=%s down=%s", kit.Enc(name), kit.Enc(scope), rate, b01(drop), down)}
	nc := []int{0, 1, 2, 3, 4}[r.Pick(7, 38, 30, 15, 10)]
	if r.Chance(50) {
		nc = houseConds
	}
	for i := 0; i < nc; i++ {
		ops = append(ops, genCond(r))
	}
	return ops
}

// genThresholds: the numeric rule values of the case being generated; span values are drawn close
// to them (fractions just above / below, the value itself, +-1) so that every comparison operator
// is exercised at its boundary with int, float and numeric-string operands on either side.
var genThresholds []float64

// genNested: the case being generated has CheckNestedFields on
var genNested bool

func noteThresholds(v val) {
	switch v.k {
	case 'i':
		genThresholds = append(genThresholds, float64(v.i))
	case 'f':
		genThresholds = append(genThresholds, v.f)
	case 's':
		if f, err := strconv.ParseFloat(v.s, 64); err == nil && f > -1e9 && f < 1e9 {
			genThresholds = append(genThresholds, f)
		}
	case 'l':
		for _, it := range v.items {
			noteThresholds(it)
		}
	}
}

var nearDeltas = []float64{-1, -0.5, -0.25, -0.125, 0, 0, 0.125, 0.25, 0.5, 1, 1.5, -1.5}

// spanValue: a field value; about a third of them sit at or next to a rule threshold.
func spanValue(r *kit.Rng) val {
	if genNested && r.Chance(30) {
		return val{k: 'o', s: []string{"M2", "M3", "M3", "M1", "M3x", "M2x"}[r.Intn(6)]}
	}
	if len(genThresholds) == 0 || !r.Chance(35) {
		return anyScalar(r, false)
	}
	x := genThresholds[r.Intn(len(genThresholds))] + nearDeltas[r.Intn(len(nearDeltas))]
	whole := x == float64(int64(x))
	switch {
	case whole && r.Chance(45):
		return val{k: 'i', i: int64(x)}
	case r.Chance(12):
		return val{k: 's', s: strconv.FormatFloat(x, 'f', -1, 64)}
	}
	return val{k: 'f', f: x}
}

func genTrace(r *kit.Rng) []string {
	n := []int{0, 1, 2, 3, 4, 5, 6, 8}[r.Pick(3, 22, 22, 18, 12, 10, 8, 5)]
	root := -1
	if n > 0 && r.Chance(72) {
		root = r.Intn(n)
	}
	var ops []string
	for i := 0; i < n; i++ {
		parts := []string{"span", "root=" + b01(i == root)}
		if i != root { // span events and links are elements of the trace too
			switch r.Pick(66, 22, 12) {
			case 1:
				parts = append(parts, "kind=e")
			case 2:
				parts = append(parts, "kind=l")
			}
		}
		for _, f := range plainFields {
			if r.Chance(45) {
				parts = append(parts, kit.Enc(f)+"="+spanValue(r).tok())
			}
		}
		if r.Chance(5) {
			parts = append(parts, kit.Enc(config.RootPrefix+"a")+"="+anyScalar(r, false).tok())
		}
		if genNested && r.Chance(12) { // a field literally called "root": the nested path root.x leads into it
			parts = append(parts, "root="+val{k: 'o', s: []string{"M2", "M3", "M1"}[r.Intn(3)]}.tok())
		}
		if r.Chance(3) {
			parts = append(parts, kit.Enc(string(config.NUM_DESCENDANTS))+"="+anyScalar(r, false).tok())
		}
		ops = append(ops, strings.Join(parts, " "))
	}
	return ops
}

func (comp) Gen(r *kit.Rng, maxLen int, tier string) kit.Case {
	var ops []string
	genThresholds = genThresholds[:0]
	genNested = r.Chance(45)
	houseScope = []string{"trace", "", "span"}[r.Pick(40, 15, 45)]
	houseConds = []int{0, 1, 2}[r.Pick(15, 60, 25)]
	houseName = []string{"", "svc", "errors"}[r.Intn(3)]
	nr := 1 + r.Intn(6)
	for i := 0; i < nr; i++ {
		ops = append(ops, genRule(r, i)...)
	}
	nt := (maxLen - len(ops)) / 5
	if nt < 1 {
		nt = 1
	}
	nt = 1 + r.Intn(nt)
	for t := 0; t < nt; t++ {
		if t > 0 && r.Chance(85) {
			ops = append(ops, "cleartrace")
		}
		ops = append(ops, genTrace(r)...)
		ops = append(ops, fmt.Sprintf("eval seed=%d", r.Intn(1000000)))
		if r.Chance(15) { // same trace, another draw
			ops = append(ops, fmt.Sprintf("eval seed=%d", r.Intn(1000000)))
		}
	}
	return kit.Case{Header: "nested=" + b01(genNested), Ops: ops}
}

// ---------------------------------------------------------------- facts

func facts() map[string]string {
	return map[string]string{
		"opNEQ": config.NEQ, "opEQ": config.EQ, "opGT": config.GT, "opLT": config.LT, "opGTE": config.GTE, "opLTE": config.LTE,
		"opContains": config.Contains, "opDoesNotContain": config.DoesNotContain, "opStartsWith": config.StartsWith,
		"opExists": config.Exists, "opNotExists": config.NotExists, "opHasRootSpan": config.HasRootSpan,
		"opMatches": config.MatchesRegexp, "opIn": config.In, "opNotIn": config.NotIn,
		"rootPrefix": config.RootPrefix, "computedPrefix": config.ComputedFieldPrefix, "numDescendants": string(config.NUM_DESCENDANTS),
	}
}

func main() { kit.Main(comp{}, facts) }
