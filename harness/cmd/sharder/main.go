//go:build verif

// Harness for sharder.DeterministicSharder + the router's local-vs-forward decision (property C17).
//
// One case = a small in-process cluster: per node a peer.MockPeers (its own instance id), a real
// DeterministicSharder, and two real route.Routers (incoming + peer) with a recording collector
// and recording transmissions.
//
// case header: selfs=<enc addr>,<enc addr>,…          (node i has instance id selfs[i])
// ops:
//
//	update <i> <list|->      MockPeers.UpdatePeers (callbacks run if the node was started)
//	                         obs: p=<sharder's peer list>
//	start <i> [slow]         DeterministicSharder.Start; obs: ok|err my=@<MyShard> p=<peer list>
//	                         (without `slow` the harness refuses a start that cannot find itself
//	                         — the real code sleeps 25 s — obs: skipped-slow-start)
//	which <tid>              WhichShard on every node; obs: @<addr>|!panic per node, comma separated
//	route <i> <tid>          incoming Router.processEvent on node i; obs: keep | fwd:@<addr> | !panic
//	send <i> <tid>           follow the span: forwarded events are delivered to the peer router of
//	                         the node whose instance id is the APIHost; obs: fwd:@a>collect:@a …
//	table <i>                obs: the partition table as (uhash@addr) sorted by (uhash, addr)
//	reloadbusy <i> <list>    the list changes while a WhichShard is in flight on node i (read lock
//	                         held): the reload callback runs in a goroutine, parks on the write lock,
//	                         the reader finishes, the reload completes; obs: p=<peer list>
//	reloadbusy2 <i> <l1> <l2> the same with a second change right behind the first
//
// ext lines: `h <enc bytes> <seed> = <value>` — the graph of wyhash.Hash at the points the code
// evaluates (partition hashes, seed chain, trace hashes against the *real* table's uhash values).
package main

import (
	"context"
	"fmt"
	"sort"
	"strconv"
	"strings"
	"time"

	"github.com/dgryski/go-wyhash"
	"github.com/honeycombio/refinery/collect"
	"github.com/honeycombio/refinery/config"
	"github.com/honeycombio/refinery/internal/peer"
	kit "github.com/honeycombio/refinery/internal/verifkit"
	"github.com/honeycombio/refinery/logger"
	"github.com/honeycombio/refinery/metrics"
	"github.com/honeycombio/refinery/route"
	"github.com/honeycombio/refinery/sharder"
	"github.com/honeycombio/refinery/transmit"
	"github.com/honeycombio/refinery/types"
)

type comp struct{}

const seedLabel = "anything"

func encList(l []string) string {
	if len(l) == 0 {
		return "-"
	}
	s := make([]string, len(l))
	for i, x := range l {
		s[i] = kit.Enc(x)
	}
	return strings.Join(s, ",")
}

func decList(s string) []string {
	if s == "-" || s == "" {
		return nil
	}
	parts := strings.Split(s, ",")
	out := make([]string, len(parts))
	for i, p := range parts {
		out[i] = kit.Dec(p)
	}
	return out
}

// ---------------------------------------------------------------------------------- generator

func addrPool(r *kit.Rng, n int) []string {
	var pool []string
	seen := map[string]bool{}
	add := func(s string) {
		if !seen[s] && s != "" {
			seen[s] = true
			pool = append(pool, s)
		}
	}
	style := r.Pick(40, 25, 15, 20)
	for tries := 0; len(pool) < n; tries++ {
		k := r.Intn(40)
		if tries > 4*n { // the style's name space is exhausted
			add(fmt.Sprintf("http://x%d:8081", tries))
			continue
		}
		switch style {
		case 0: // realistic host names; 9 < 10 numerically but "10" < "9" as strings
			add(fmt.Sprintf("http://refinery-%d:8081", k))
		case 1:
			add(fmt.Sprintf("http://10.0.%d.%d:8081", r.Intn(3), k))
		case 2: // short, prefix-related, mixed case: exercises the byte order of the sort
			alts := []string{"a", "A", "aa", "ab", "a:", "a/", "b", "B", "a-", "a.", "a0", "a:80", "a:8081", "Z", "z", "http://a", "http://a:80", "http://a:8081", "http://b", "0", "9", "10"}
			add(alts[r.Intn(len(alts))])
		case 3: // anything goes: spaces, commas, '=', '%', non-ASCII bytes
			switch r.Intn(4) {
			case 0:
				add(fmt.Sprintf("http://h%d:80", k))
			case 1:
				add(fmt.Sprintf("peer %d,x=%d", k, r.Intn(3)))
			case 2:
				add(string([]byte{byte(0x80 + r.Intn(0x80)), byte('a' + r.Intn(3))}))
			case 3:
				add(fmt.Sprintf("%%%d\xc3\xa9", k))
			}
		}
	}
	return pool
}

func perm(r *kit.Rng, l []string) []string {
	out := append([]string(nil), l...)
	for i := len(out) - 1; i > 0; i-- {
		j := r.Intn(i + 1)
		out[i], out[j] = out[j], out[i]
	}
	return out
}

func contains(l []string, s string) bool {
	for _, x := range l {
		if x == s {
			return true
		}
	}
	return false
}

func (comp) Gen(r *kit.Rng, maxLen int, tier string) kit.Case {
	k := 1 + r.Pick(10, 30, 30, 20, 10)           // nodes
	extra := r.Pick(40, 20, 15, 10, 5, 5, 3, 2)   // addresses that are no node
	if r.Chance(15) {
		extra += 4 + r.Intn(8)
	}
	pool := addrPool(r, k+extra+2)
	selfs := pool[:k]
	// trace ids
	var tids []string
	for i := 0; i < 3+r.Intn(4); i++ {
		switch r.Pick(70, 15, 15) {
		case 0:
			tids = append(tids, fmt.Sprintf("%016x%016x", r.Next(), r.Next()))
		case 1:
			tids = append(tids, fmt.Sprintf("t%d", r.Intn(1000)))
		case 2:
			tids = append(tids, fmt.Sprintf("id %d,=%%\xff", r.Intn(100)))
		}
	}
	tid := func() string {
		if r.Chance(25) {
			return fmt.Sprintf("%016x%016x", r.Next(), r.Next())
		}
		return tids[r.Intn(len(tids))]
	}
	// the generator tracks each node's source list so that `start` is only asked when it can succeed
	src := make([][]string, k)
	var ops []string
	startedGen := make([]bool, k)
	var mkList func() []string
	upd := func(i int, l []string) {
		src[i] = l
		// on a started node a third of the list changes arrive while the sharder is busy: a
		// WhichShard in flight (read lock held) and, sometimes, a second reload right behind
		if startedGen[i] && r.Chance(33) {
			if r.Chance(30) {
				first := perm(r, mkList())
				if r.Chance(15) {
					first = nil
				}
				ops = append(ops, fmt.Sprintf("reloadbusy2 %d %s %s", i, encList(first), encList(l)))
			} else {
				ops = append(ops, fmt.Sprintf("reloadbusy %d %s", i, encList(l)))
			}
			return
		}
		ops = append(ops, fmt.Sprintf("update %d %s", i, encList(l)))
	}
	startOp := func(i int) {
		if contains(src[i], selfs[i]) {
			startedGen[i] = true
			ops = append(ops, fmt.Sprintf("start %d", i))
		} else if tier == "thorough" && r.Intn(200) == 0 {
			startedGen[i] = true
			ops = append(ops, fmt.Sprintf("start %d slow", i))
		}
	}
	// the common list of the cluster
	mkList = func() []string {
		l := append([]string(nil), selfs...)
		if r.Chance(85) {
			l = append(l, pool[k:k+extra]...)
		} else if extra > 0 {
			l = append(l, pool[k:k+r.Intn(extra+1)]...)
		}
		if r.Chance(12) { // duplicates (FilePeers appends the own address to the configured list)
			for j := 0; j <= r.Intn(2); j++ {
				l = append(l, l[r.Intn(len(l))])
			}
		}
		return l
	}
	L := mkList()
	stable := r.Chance(75)
	if stable {
		for i := 0; i < k; i++ {
			upd(i, perm(r, L))
		}
		for i := 0; i < k; i++ {
			startOp(i)
		}
	} else {
		for i := 0; i < k; i++ {
			if r.Chance(85) {
				if r.Chance(70) {
					upd(i, perm(r, L))
				} else {
					upd(i, perm(r, mkList()))
				}
			}
			if r.Chance(85) {
				startOp(i)
			}
		}
	}
	n := 3 + r.Intn(maxLen)
	for j := 0; j < n; j++ {
		i := r.Intn(k)
		switch r.Pick(34, 14, 24, 4, 18, 6) {
		case 0:
			t := tid()
			if r.Chance(3) {
				t = ""
			}
			ops = append(ops, "which "+kit.Enc(t))
		case 1:
			ops = append(ops, fmt.Sprintf("route %d %s", i, kit.Enc(tid())))
		case 2:
			t := tid()
			ops = append(ops, fmt.Sprintf("send %d %s", i, kit.Enc(t)))
			if r.Chance(50) { // the same trace entering at another node
				ops = append(ops, fmt.Sprintf("send %d %s", r.Intn(k), kit.Enc(t)))
			}
		case 3:
			ops = append(ops, fmt.Sprintf("table %d", i))
		case 4:
			switch r.Pick(40, 12, 12, 8, 13, 15) {
			case 0: // the same list in another order
				upd(i, perm(r, L))
			case 1: // a new common list for everybody (membership change), any order
				L = mkList()
				for m := 0; m < k; m++ {
					upd(m, perm(r, L))
				}
			case 2: // one node sees a different list
				upd(i, perm(r, mkList()))
			case 3: // same set, one more duplicate
				l := perm(r, L)
				upd(i, append(l, l[r.Intn(len(l))]))
			case 4: // empty list: refused
				upd(i, nil)
			case 5: // membership change of the same size: one non-node address replaced by a spare
				if extra > 0 {
					nl := append([]string(nil), L...)
					old := pool[k+r.Intn(extra)]
					spare := pool[k+extra+r.Intn(2)]
					for x := range nl {
						if nl[x] == old {
							nl[x] = spare
						}
					}
					L = nl
					for m := 0; m < k; m++ {
						upd(m, perm(r, L))
					}
				} else {
					upd(i, perm(r, L))
				}
			}
		case 5:
			startOp(i)
		}
	}
	ops = append(ops, "which "+kit.Enc(tid()))
	return kit.Case{Header: "selfs=" + encList(selfs), Ops: ops}
}

// ---------------------------------------------------------------------------------- runner

type node struct {
	self     string
	mock     *peer.MockPeers
	src      []string
	started  bool
	sh       *sharder.DeterministicSharder
	coll     *collect.MockCollector
	up, ptx  *transmit.MockTransmission
	incoming *route.Router
	peerRt   *route.Router
}

type runner struct {
	nodes []*node
	cfg   *config.MockConfig
	seen  map[string]struct{} // ext points already emitted in this case
	pc    int
}

var partitionCountCache = -1

// partitionCount is a constant local to loadPeerList; with a single peer the table has
// partitionCount/1 + 1 entries.
func partitionCount() int {
	if partitionCountCache >= 0 {
		return partitionCountCache
	}
	m := peer.NewMockPeers([]string{"x"}, "x")
	d := &sharder.DeterministicSharder{Logger: &logger.NullLogger{}, Peers: m}
	if err := d.Start(); err != nil {
		panic(err)
	}
	u, _ := d.VerifTable()
	partitionCountCache = len(u) - 1
	return partitionCountCache
}

func facts() map[string]string {
	return map[string]string{
		"partitionCount": strconv.Itoa(partitionCount()),
		"peerSeed":       strconv.FormatUint(sharder.VerifPeerSeed(), 10),
	}
}

func (comp) NewCase(h []string) kit.Runner {
	r := &runner{seen: map[string]struct{}{}, pc: partitionCount()}
	r.cfg = &config.MockConfig{TraceIdFieldNames: []string{"trace.trace_id"}}
	lg := &logger.NullLogger{}
	for _, s := range decList(kit.KV(h, "selfs")) {
		n := &node{self: s}
		n.mock = peer.NewMockPeers(nil, s)
		n.sh = &sharder.DeterministicSharder{Config: r.cfg, Logger: lg, Peers: n.mock}
		n.coll = collect.NewMockCollector()
		n.up = &transmit.MockTransmission{}
		n.up.Start()
		n.ptx = &transmit.MockTransmission{}
		n.ptx.Start()
		met := &metrics.NullMetrics{}
		n.incoming = route.VerifSharderNewRouter(r.cfg, lg, met, n.up, n.ptx, n.coll, n.sh, types.RouterTypeIncoming)
		n.peerRt = route.VerifSharderNewRouter(r.cfg, lg, met, n.up, n.ptx, n.coll, n.sh, types.RouterTypePeer)
		r.nodes = append(r.nodes, n)
	}
	return r
}

func (r *runner) ext(b string, seed uint64) uint64 {
	v := wyhash.Hash([]byte(b), seed)
	key := b + "\x00" + strconv.FormatUint(seed, 10)
	if _, ok := r.seen[key]; !ok {
		r.seen[key] = struct{}{}
		kit.Ext("h %s %d = %d", kit.Enc(b), seed, v)
	}
	return v
}

// extLoad emits the graph of the hash function at the points a load of list l evaluates: the seed
// chain and, for every address, its hash under each seed, for partitionCount/len+2 seeds (one more
// than the code uses; a point the model needs and does not find is reported as `missing-ext`).
func (r *runner) extLoad(l []string) {
	seed := sharder.VerifPeerSeed()
	for k := 0; k < r.pc/len(l)+2; k++ {
		for _, a := range l {
			r.ext(a, seed)
		}
		seed = r.ext(seedLabel, seed)
	}
}

// extTrace emits h(tid, uhash) for every uhash of the node's real table.
func (r *runner) extTrace(n *node, tid string) {
	u, _ := n.sh.VerifTable()
	for _, x := range u {
		r.ext(tid, x)
	}
}

func at(s string) string { return "@" + kit.Enc(s) }

func (r *runner) node(s string) *node {
	i, err := strconv.Atoi(s)
	if err != nil || i < 0 || i >= len(r.nodes) {
		return nil
	}
	return r.nodes[i]
}

func which(n *node, tid string) (res string) {
	defer func() {
		if e := recover(); e != nil {
			res = "!panic"
		}
	}()
	return at(n.sh.WhichShard(tid).GetAddress())
}

func drain(n *node) (up, ptx []*types.Event, coll []*types.Span) {
	for {
		select {
		case e := <-n.up.Events:
			up = append(up, e)
			continue
		case e := <-n.ptx.Events:
			ptx = append(ptx, e)
			continue
		case s := <-n.coll.Spans:
			coll = append(coll, s)
			continue
		default:
		}
		return
	}
}

// process runs the real router on a fresh event carrying tid and reports where it went.
func (r *runner) process(n *node, rt *route.Router, tid string) (kind string, target string) {
	drain(n)
	ev := &types.Event{
		Context:   context.Background(),
		APIHost:   "http://api.honeycomb.test",
		APIKey:    "key",
		Dataset:   "ds",
		Timestamp: time.Unix(1700000000, 0),
		Data: types.NewPayload(r.cfg, map[string]interface{}{
			"trace.trace_id": tid,
			"name":           "span",
		}),
	}
	panicked := false
	var err error
	func() {
		defer func() {
			if e := recover(); e != nil {
				panicked = true
			}
		}()
		err = rt.VerifSharderProcessEvent(ev)
	}()
	up, ptx, coll := drain(n)
	switch {
	case panicked:
		return "!panic", ""
	case err != nil:
		return "error", ""
	case len(up) == 0 && len(ptx) == 0 && len(coll) == 1 && coll[0].TraceID == tid:
		return "keep", ""
	case len(up) == 0 && len(ptx) == 1 && len(coll) == 0 && ptx[0] == ev:
		return "fwd", ev.APIHost
	}
	return fmt.Sprintf("other:u%dp%dc%d", len(up), len(ptx), len(coll)), ""
}

// busyReload delivers peer-list changes to node n while its sharder is busy: the harness holds
// peerLock's read lock exactly as an in-flight WhichShard does, then lets MockPeers.UpdatePeers run
// the registered reload callbacks in a goroutine per list (the second one starts once the first is
// blocked on the write lock or has returned), releases the read lock and waits for the reloads to
// finish.  "" = completed; otherwise a diagnostic observation.
func (r *runner) busyReload(n *node, lists [][]string) string {
	for _, l := range lists {
		if len(l) > 0 && n.started {
			r.extLoad(l)
		}
		n.src = l
	}
	n.sh.VerifRLock()
	held := true
	release := func() {
		if held {
			held = false
			n.sh.VerifRUnlock()
		}
	}
	defer release()
	var dones []chan string
	for _, l := range lists {
		l := l
		done := make(chan string, 1)
		pendingBefore := n.sh.VerifWriterPending()
		go func() {
			defer func() {
				if e := recover(); e != nil {
					done <- "reload-panic"
					return
				}
				done <- ""
			}()
			n.mock.UpdatePeers(l)
		}()
		dones = append(dones, done)
		begin := time.Now()
	wait:
		for {
			select {
			case res := <-done:
				done <- res
				break wait
			default:
			}
			switch {
			case !pendingBefore && n.sh.VerifWriterPending():
				break wait // the reload is parked in peerLock.Lock() behind our read lock
			case pendingBefore && time.Since(begin) > 20*time.Millisecond:
				break wait // queued behind the reload that is already parked
			case time.Since(begin) > 2*time.Second:
				break wait
			}
			time.Sleep(50 * time.Microsecond)
		}
	}
	release()
	out := ""
	for _, done := range dones {
		select {
		case res := <-done:
			if res != "" {
				out = res
			}
		case <-time.After(5 * time.Second):
			return "reload-hung"
		}
	}
	return out
}

func (r *runner) Do(op []string) (string, bool) {
	switch op[0] {
	case "update":
		n := r.node(op[1])
		if n == nil || len(op) != 3 {
			return "bad-op", true
		}
		l := decList(op[2])
		n.src = l
		if len(l) > 0 && n.started {
			r.extLoad(l)
		}
		n.mock.UpdatePeers(l)
		return "p=" + encList(n.sh.VerifPeers()), true
	case "reloadbusy", "reloadbusy2":
		n := r.node(op[1])
		if n == nil || (op[0] == "reloadbusy" && len(op) != 3) || (op[0] == "reloadbusy2" && len(op) != 4) {
			return "bad-op", true
		}
		var lists [][]string
		for _, a := range op[2:] {
			lists = append(lists, decList(a))
		}
		if res := r.busyReload(n, lists); res != "" {
			return res, true
		}
		return "p=" + encList(n.sh.VerifPeers()), true
	case "start":
		n := r.node(op[1])
		if n == nil {
			return "bad-op", true
		}
		slow := len(op) > 2 && op[2] == "slow"
		if !slow && !contains(n.src, n.self) {
			return "skipped-slow-start", true
		}
		if len(n.src) > 0 {
			r.extLoad(n.src)
		}
		n.started = true
		res := "ok"
		if err := n.sh.Start(); err != nil {
			res = "err"
		}
		return fmt.Sprintf("%s my=%s p=%s", res, at(n.sh.MyShard().GetAddress()), encList(n.sh.VerifPeers())), true
	case "which":
		if len(op) != 2 {
			return "bad-op", true
		}
		tid := kit.Dec(op[1])
		out := make([]string, len(r.nodes))
		for i, n := range r.nodes {
			r.extTrace(n, tid)
			out[i] = which(n, tid)
		}
		return strings.Join(out, ","), true
	case "route":
		n := r.node(op[1])
		if n == nil || len(op) != 3 {
			return "bad-op", true
		}
		tid := kit.Dec(op[2])
		r.extTrace(n, tid)
		kind, t := r.process(n, n.incoming, tid)
		if kind == "fwd" {
			return "fwd:" + at(t), true
		}
		return kind, true
	case "send":
		n := r.node(op[1])
		if n == nil || len(op) != 3 {
			return "bad-op", true
		}
		tid := kit.Dec(op[2])
		var path []string
		rt := n.incoming
		for hop := 0; ; hop++ {
			if hop == 3 {
				path = append(path, "more")
				break
			}
			r.extTrace(n, tid)
			kind, t := r.process(n, rt, tid)
			if kind == "keep" {
				path = append(path, "collect:"+at(n.self))
				break
			}
			if kind != "fwd" {
				path = append(path, kind)
				break
			}
			path = append(path, "fwd:"+at(t))
			var next *node
			for _, m := range r.nodes {
				if m.self == t {
					next = m
					break
				}
			}
			if next == nil {
				path = append(path, "lost:"+at(t))
				break
			}
			n, rt = next, next.peerRt
		}
		return strings.Join(path, ">"), true
	case "table":
		n := r.node(op[1])
		if n == nil {
			return "bad-op", true
		}
		u, ix := n.sh.VerifTable()
		peers := n.sh.VerifPeers()
		type ent struct {
			u uint64
			a string
		}
		es := make([]ent, len(u))
		for i := range u {
			a := "?"
			if ix[i] >= 0 && ix[i] < len(peers) {
				a = peers[ix[i]]
			}
			es[i] = ent{u[i], a}
		}
		// canonical form: the unstable sort leaves the order of equal hashes open
		sort.SliceStable(es, func(i, j int) bool {
			if es[i].u != es[j].u {
				return es[i].u < es[j].u
			}
			return es[i].a < es[j].a
		})
		// the table as scanned must be ascending by hash
		asc := sort.SliceIsSorted(u, func(i, j int) bool { return u[i] < u[j] })
		s := make([]string, len(es))
		for i, e := range es {
			s[i] = fmt.Sprintf("%d%s", e.u, at(e.a))
		}
		t := "-"
		if len(s) > 0 {
			t = strings.Join(s, ",")
		}
		return fmt.Sprintf("n=%d asc=%v t=%s", len(es), asc, t), true
	}
	return "bad-op", true
}

func (r *runner) Close() {}

func main() { kit.Main(comp{}, facts) }
