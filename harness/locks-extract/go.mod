module verif/locksextract

go 1.23
