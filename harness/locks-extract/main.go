// locks-extract: lexical access/lock facts for C35.
//
// For every function (and function literal) in the non-test files of the packages listed in
// spec.json it records every syntactic access to a field of the tracked struct types, together
// with the mutex fields of the same receiver expression that are lexically held at that point.
// Field selections are resolved with go/types run with a stub importer (imported packages are
// empty), so only expressions whose type is declared in the analysed package itself resolve;
// no aliasing, no inter-procedural propagation (except the `requires` table), no third-party code.
//
// Output: a Lean module (list of facts, list of declared fields) and a JSON file with positions.
package main

import (
	"encoding/json"
	"flag"
	"fmt"
	"go/ast"
	"go/build"
	"go/parser"
	"go/token"
	"go/types"
	"os"
	"path/filepath"
	"regexp"
	"sort"
	"strings"
)

type Req struct {
	Mutex string `json:"mutex"`
	Mode  string `json:"mode"`
}

type Spec struct {
	Packages []struct {
		Dir     string   `json:"dir"`
		Structs []string `json:"structs"`
	} `json:"packages"`
	Mutators     map[string][]string `json:"mutators"`
	Requires     map[string][]Req    `json:"requires"`
	Constructors []string            `json:"constructors"`
	// Reserved: locations that get a constant even when the field does not exist (yet), so that the
	// hand-written table can name a field a pending fix will introduce
	Reserved []string `json:"reserved"`
	// PostPublication: accesses to `loc` in function `fn` happen after fn has already handed the
	// object to another goroutine that uses `loc` (a registered callback, a go statement): such
	// facts are reported under the function name `fn@shared`, which gets no init role
	PostPublication []struct {
		Fn  string `json:"fn"`
		Loc string `json:"loc"`
	} `json:"post_publication"`
}

type Fact struct {
	Loc  string `json:"loc"`
	Fn   string `json:"fn"`
	Kind string `json:"kind"` // read | write | atomic
	Held []Req  `json:"held"`
	// Fresh: the base expression is a local variable bound in this very function to a composite
	// literal or to the result of a listed constructor (the object is not yet shared)
	Fresh bool   `json:"fresh"`
	File  string `json:"file"`
	Line int    `json:"line"`
}

type Field struct {
	Loc  string `json:"loc"`
	Type string `json:"type"`
}

type Unres struct {
	Name string `json:"name"`
	Fn   string `json:"fn"`
	File string `json:"file"`
	Line int    `json:"line"`
}

type Output struct {
	Facts      []Fact   `json:"facts"`
	Fields     []Field  `json:"fields"`
	Unresolved []Unres  `json:"unresolved"`
	Funcs      []string `json:"funcs"` // every function and function literal of the analysed packages
	Files      []string `json:"files"`
	TypeErrors int      `json:"type_errors"`
}

// ---------------------------------------------------------------- stub importer
type stubImporter struct{ pkgs map[string]*types.Package }

var versionElem = regexp.MustCompile(`^v[0-9]+$`)

func (s *stubImporter) Import(path string) (*types.Package, error) {
	if path == "unsafe" {
		return types.Unsafe, nil
	}
	if p, ok := s.pkgs[path]; ok {
		return p, nil
	}
	parts := strings.Split(path, "/")
	name := parts[len(parts)-1]
	if versionElem.MatchString(name) && len(parts) > 1 {
		name = parts[len(parts)-2]
	}
	name = strings.TrimSuffix(strings.TrimPrefix(name, "go-"), ".go")
	name = strings.ReplaceAll(name, "-", "_")
	p := types.NewPackage(path, name)
	p.MarkComplete()
	s.pkgs[path] = p
	return p, nil
}

// ---------------------------------------------------------------- held sets
type lockKey struct{ mutex, base string }
type heldSet map[lockKey]string

func (h heldSet) copy() heldSet {
	n := heldSet{}
	for k, v := range h {
		n[k] = v
	}
	return n
}

func intersect(a, b heldSet) heldSet {
	n := heldSet{}
	for k, v := range a {
		if w, ok := b[k]; ok && w == v {
			n[k] = v
		}
	}
	return n
}

func equal(a, b heldSet) bool {
	if len(a) != len(b) {
		return false
	}
	for k, v := range a {
		if w, ok := b[k]; !ok || w != v {
			return false
		}
	}
	return true
}

// ---------------------------------------------------------------- analysis
type analyzer struct {
	fset       *token.FileSet
	info       *types.Info
	spec       *Spec
	repo       string
	fieldOf    map[*types.Var]string
	ftype      map[string]string
	fieldNames map[string]bool
	out        *Output
}

type fctx struct {
	a        *analyzer
	name     string
	closures map[*ast.FuncLit]string
	fresh    map[types.Object]bool // only in the top-level function, not in its closures
	jumps    []heldSet
	record   bool
}

func (a *analyzer) pos(p token.Pos) (string, int) {
	ps := a.fset.Position(p)
	rel, err := filepath.Rel(a.repo, ps.Filename)
	if err != nil {
		rel = ps.Filename
	}
	return rel, ps.Line
}

func strip(e ast.Expr) ast.Expr {
	for {
		p, ok := e.(*ast.ParenExpr)
		if !ok {
			return e
		}
		e = p.X
	}
}

// tracked returns the Struct.field a selector expression denotes, or "".
func (a *analyzer) tracked(e ast.Expr) (*ast.SelectorExpr, string) {
	sel, ok := strip(e).(*ast.SelectorExpr)
	if !ok {
		return nil, ""
	}
	s := a.info.Selections[sel]
	if s == nil || s.Kind() != types.FieldVal {
		return sel, ""
	}
	v, ok := s.Obj().(*types.Var)
	if !ok {
		return sel, ""
	}
	return sel, a.fieldOf[v]
}

func isSyncType(t string) bool {
	t = strings.TrimPrefix(t, "*")
	return strings.HasPrefix(t, "sync.") || strings.HasPrefix(t, "atomic.")
}

func isMutexType(t string) bool {
	t = strings.TrimPrefix(t, "*")
	return t == "sync.Mutex" || t == "sync.RWMutex"
}

func (c *fctx) access(sel *ast.SelectorExpr, loc, kind string, h heldSet) {
	if !c.record {
		return
	}
	base := types.ExprString(sel.X)
	var held []Req
	for k, m := range h {
		if k.base == base {
			held = append(held, Req{k.mutex, m})
		}
	}
	sort.Slice(held, func(i, j int) bool {
		if held[i].Mutex != held[j].Mutex {
			return held[i].Mutex < held[j].Mutex
		}
		return held[i].Mode < held[j].Mode
	})
	fresh := false
	if id, ok := strip(sel.X).(*ast.Ident); ok && c.fresh != nil {
		fresh = c.fresh[c.a.info.Uses[id]]
	}
	f, l := c.a.pos(sel.Sel.Pos())
	fn := c.name
	for _, pp := range c.a.spec.PostPublication {
		if pp.Fn == fn && pp.Loc == loc {
			fn += "@shared"
		}
	}
	c.a.out.Facts = append(c.a.out.Facts, Fact{loc, fn, kind, held, fresh, f, l})
}

// lockOp recognises x.mu.Lock() / RLock / Unlock / RUnlock on a tracked mutex field.
func (c *fctx) lockOp(call *ast.CallExpr) (key lockKey, op string, mx *ast.SelectorExpr, ok bool) {
	fun, isSel := strip(call.Fun).(*ast.SelectorExpr)
	if !isSel {
		return
	}
	switch fun.Sel.Name {
	case "Lock", "RLock", "Unlock", "RUnlock":
	default:
		return
	}
	sel, loc := c.a.tracked(fun.X)
	if loc == "" || !isMutexType(c.a.ftype[loc]) {
		return
	}
	return lockKey{loc, types.ExprString(sel.X)}, fun.Sel.Name, sel, true
}

func (c *fctx) closure(fl *ast.FuncLit) {
	if !c.record {
		return
	}
	name := c.closures[fl]
	sub := &fctx{a: c.a, name: name, closures: c.closures, record: true}
	sub.stmts(fl.Body.List, heldSet{})
}

func (c *fctx) exprs(es []ast.Expr, h heldSet) {
	for _, e := range es {
		c.expr(e, h)
	}
}

func (c *fctx) expr(e ast.Expr, h heldSet) {
	switch x := e.(type) {
	case nil:
	case *ast.FuncLit:
		c.closure(x)
	case *ast.CallExpr:
		c.call(x, h)
	case *ast.ParenExpr:
		c.expr(x.X, h)
	case *ast.UnaryExpr:
		if x.Op == token.AND {
			if sel, loc := c.a.tracked(x.X); loc != "" {
				// address taken: the pointer may be used to write
				c.access(sel, loc, "write", h)
				c.expr(sel.X, h)
				return
			}
		}
		c.expr(x.X, h)
	case *ast.SelectorExpr:
		if _, loc := c.a.tracked(x); loc != "" {
			c.access(x, loc, "read", h)
		} else {
			c.noteUnresolved(x)
		}
		c.expr(x.X, h)
	case *ast.IndexExpr:
		c.expr(x.X, h)
		c.expr(x.Index, h)
	case *ast.IndexListExpr:
		c.expr(x.X, h)
		c.exprs(x.Indices, h)
	case *ast.SliceExpr:
		c.expr(x.X, h)
		c.expr(x.Low, h)
		c.expr(x.High, h)
		c.expr(x.Max, h)
	case *ast.StarExpr:
		c.expr(x.X, h)
	case *ast.BinaryExpr:
		c.expr(x.X, h)
		c.expr(x.Y, h)
	case *ast.KeyValueExpr:
		// keys of struct literals are field names, not accesses; map keys may be expressions
		if _, isIdent := x.Key.(*ast.Ident); !isIdent {
			c.expr(x.Key, h)
		}
		c.expr(x.Value, h)
	case *ast.CompositeLit:
		c.exprs(x.Elts, h)
	case *ast.TypeAssertExpr:
		c.expr(x.X, h)
	case *ast.Ident, *ast.BasicLit, *ast.ArrayType, *ast.MapType, *ast.ChanType, *ast.FuncType,
		*ast.StructType, *ast.InterfaceType, *ast.Ellipsis:
	default:
		ast.Inspect(e, func(n ast.Node) bool {
			if ee, ok := n.(ast.Expr); ok && ee != e {
				c.expr(ee, h)
				return false
			}
			return true
		})
	}
}

func (c *fctx) noteUnresolved(x *ast.SelectorExpr) {
	if !c.record || !c.a.fieldNames[x.Sel.Name] {
		return
	}
	if c.a.info.Selections[x] != nil {
		return // resolved (method value or field of an untracked struct)
	}
	if id, ok := x.X.(*ast.Ident); ok {
		if _, isPkg := c.a.info.Uses[id].(*types.PkgName); isPkg {
			return
		}
	}
	if _, isType := c.a.info.Uses[x.Sel].(*types.TypeName); isType {
		return
	}
	f, l := c.a.pos(x.Sel.Pos())
	c.a.out.Unresolved = append(c.a.out.Unresolved, Unres{x.Sel.Name, c.name, f, l})
}

func (c *fctx) isBuiltin(fun ast.Expr, names ...string) bool {
	id, ok := strip(fun).(*ast.Ident)
	if !ok {
		return false
	}
	if _, isB := c.a.info.Uses[id].(*types.Builtin); !isB {
		return false
	}
	for _, n := range names {
		if id.Name == n {
			return true
		}
	}
	return false
}

func (c *fctx) isAtomicPkgCall(fun ast.Expr) bool {
	sel, ok := strip(fun).(*ast.SelectorExpr)
	if !ok {
		return false
	}
	id, ok := sel.X.(*ast.Ident)
	if !ok {
		return false
	}
	pn, ok := c.a.info.Uses[id].(*types.PkgName)
	return ok && pn.Imported().Path() == "sync/atomic"
}

func (c *fctx) call(x *ast.CallExpr, h heldSet) {
	// delete(m, k), clear(m), copy(dst, src): the first argument is modified
	if c.isBuiltin(x.Fun, "delete", "clear", "copy") && len(x.Args) > 0 {
		c.lhs(x.Args[0], h)
		c.exprs(x.Args[1:], h)
		return
	}
	// atomic.AddInt64(&x.f, …)
	if c.isAtomicPkgCall(x.Fun) {
		for _, arg := range x.Args {
			if u, ok := strip(arg).(*ast.UnaryExpr); ok && u.Op == token.AND {
				if sel, loc := c.a.tracked(u.X); loc != "" {
					c.access(sel, loc, "atomic", h)
					c.expr(sel.X, h)
					continue
				}
			}
			c.expr(arg, h)
		}
		return
	}
	if fun, ok := strip(x.Fun).(*ast.SelectorExpr); ok {
		// method call on a tracked field: x.f.M(…)
		if sel, loc := c.a.tracked(fun.X); loc != "" {
			kind := "read"
			if isSyncType(c.a.ftype[loc]) {
				kind = "atomic"
			} else if muts, has := c.a.spec.Mutators[loc]; has {
				// a field with declared mutators is split in two locations: the field variable
				// `S.f` (read here) and the object it refers to, `S.f*` (read or written by M)
				pk := "read"
				for _, m := range muts {
					if m == fun.Sel.Name {
						pk = "write"
					}
				}
				c.access(sel, loc+"*", pk, h)
			}
			c.access(sel, loc, kind, h)
			c.expr(sel.X, h)
			c.exprs(x.Args, h)
			return
		}
		// call of a function that requires a mutex of its receiver
		if s := c.a.info.Selections[fun]; s != nil && s.Kind() == types.MethodVal {
			if fn, ok := s.Obj().(*types.Func); ok {
				if name := recvName(fn); name != "" {
					key := name + "." + fn.Name()
					if _, need := c.a.spec.Requires[key]; need {
						c.access(fun, key+"()", "write", h)
					}
				}
			}
		}
	}
	c.expr(x.Fun, h)
	c.exprs(x.Args, h)
}

func recvName(fn *types.Func) string {
	sig, ok := fn.Type().(*types.Signature)
	if !ok || sig.Recv() == nil {
		return ""
	}
	t := sig.Recv().Type()
	if p, ok := t.(*types.Pointer); ok {
		t = p.Elem()
	}
	if n, ok := t.(*types.Named); ok {
		return n.Obj().Name()
	}
	return ""
}

// lhs: an assignment target. The outermost tracked field on the base chain is written
// (x.f = v, x.f[k] = v, x.f.g = v, *x.f = v); everything below it is read.
func (c *fctx) lhs(e ast.Expr, h heldSet) {
	cur := e
	for {
		switch x := cur.(type) {
		case *ast.ParenExpr:
			cur = x.X
		case *ast.IndexExpr:
			c.expr(x.Index, h)
			cur = x.X
		case *ast.StarExpr:
			cur = x.X
		case *ast.SliceExpr:
			c.expr(x.Low, h)
			c.expr(x.High, h)
			c.expr(x.Max, h)
			cur = x.X
		case *ast.SelectorExpr:
			if _, loc := c.a.tracked(x); loc != "" {
				c.access(x, loc, "write", h)
				c.expr(x.X, h)
				return
			}
			c.noteUnresolved(x)
			cur = x.X
		default:
			c.expr(cur, h)
			return
		}
	}
}

func (c *fctx) stmts(list []ast.Stmt, h heldSet) (heldSet, bool) {
	term := false
	for _, s := range list {
		var t bool
		h, t = c.stmt(s, h)
		term = term || t
	}
	return h, term
}

func (c *fctx) joinExits(results []heldSet, from int) (heldSet, bool) {
	all := append([]heldSet{}, results...)
	all = append(all, c.jumps[from:]...)
	if len(all) == 0 {
		return nil, false
	}
	r := all[0].copy()
	for _, o := range all[1:] {
		r = intersect(r, o)
	}
	return r, true
}

func (c *fctx) loop(h heldSet, body func(entry heldSet) (heldSet, bool)) (heldSet, bool) {
	saved := c.record
	fix := h.copy()
	c.record = false
	for iter := 0; iter < 6; iter++ {
		nj := len(c.jumps)
		end, term := body(fix.copy())
		res := []heldSet{fix}
		if !term {
			res = append(res, end)
		}
		nf, _ := c.joinExits(res, nj)
		c.jumps = c.jumps[:nj]
		if equal(nf, fix) {
			break
		}
		fix = nf
	}
	c.record = saved
	nj := len(c.jumps)
	end, term := body(fix.copy())
	res := []heldSet{fix}
	if !term {
		res = append(res, end)
	}
	exit, _ := c.joinExits(res, nj)
	return exit, false
}

func (c *fctx) stmt(s ast.Stmt, h heldSet) (heldSet, bool) {
	switch x := s.(type) {
	case nil:
		return h, false
	case *ast.ExprStmt:
		if call, ok := strip(x.X).(*ast.CallExpr); ok {
			if key, op, mx, ok := c.lockOp(call); ok {
				c.access(mx, key.mutex, "atomic", h)
				c.expr(mx.X, h)
				h = h.copy()
				switch op {
				case "Lock":
					h[key] = "ex"
				case "RLock":
					h[key] = "sh"
				default:
					delete(h, key)
				}
				return h, false
			}
			if c.isBuiltin(call.Fun, "panic") {
				c.exprs(call.Args, h)
				return h, true
			}
		}
		c.expr(x.X, h)
		return h, false
	case *ast.DeferStmt:
		if key, op, mx, ok := c.lockOp(x.Call); ok && (op == "Unlock" || op == "RUnlock") {
			// released when the function returns: still held for the rest of the body
			c.access(mx, key.mutex, "atomic", h)
			c.expr(mx.X, h)
			return h, false
		}
		c.expr(x.Call, h)
		return h, false
	case *ast.GoStmt:
		c.expr(x.Call, h)
		return h, false
	case *ast.AssignStmt:
		c.exprs(x.Rhs, h)
		for _, l := range x.Lhs {
			c.lhs(l, h)
		}
		return h, false
	case *ast.IncDecStmt:
		c.lhs(x.X, h)
		return h, false
	case *ast.SendStmt:
		c.expr(x.Chan, h)
		c.expr(x.Value, h)
		return h, false
	case *ast.ReturnStmt:
		c.exprs(x.Results, h)
		return h, true
	case *ast.BranchStmt:
		if x.Tok != token.FALLTHROUGH {
			c.jumps = append(c.jumps, h.copy())
			return h, true
		}
		return h, false
	case *ast.BlockStmt:
		return c.stmts(x.List, h)
	case *ast.LabeledStmt:
		return c.stmt(x.Stmt, h)
	case *ast.DeclStmt:
		if gd, ok := x.Decl.(*ast.GenDecl); ok {
			for _, sp := range gd.Specs {
				if vs, ok := sp.(*ast.ValueSpec); ok {
					c.exprs(vs.Values, h)
				}
			}
		}
		return h, false
	case *ast.IfStmt:
		h, _ = c.stmt(x.Init, h)
		c.expr(x.Cond, h)
		var results []heldSet
		e1, t1 := c.stmts(x.Body.List, h.copy())
		if !t1 {
			results = append(results, e1)
		}
		if x.Else != nil {
			e2, t2 := c.stmt(x.Else, h.copy())
			if !t2 {
				results = append(results, e2)
			}
		} else {
			results = append(results, h)
		}
		if len(results) == 0 {
			return h, true
		}
		r := results[0]
		for _, o := range results[1:] {
			r = intersect(r, o)
		}
		return r, false
	case *ast.ForStmt:
		h, _ = c.stmt(x.Init, h)
		return c.loop(h, func(entry heldSet) (heldSet, bool) {
			c.expr(x.Cond, entry)
			end, term := c.stmts(x.Body.List, entry)
			if !term {
				end, _ = c.stmt(x.Post, end)
			}
			return end, term
		})
	case *ast.RangeStmt:
		c.expr(x.X, h)
		return c.loop(h, func(entry heldSet) (heldSet, bool) {
			if x.Tok == token.ASSIGN {
				if x.Key != nil {
					c.lhs(x.Key, entry)
				}
				if x.Value != nil {
					c.lhs(x.Value, entry)
				}
			}
			return c.stmts(x.Body.List, entry)
		})
	case *ast.SwitchStmt:
		h, _ = c.stmt(x.Init, h)
		c.expr(x.Tag, h)
		return c.clauses(x.Body, h, false)
	case *ast.TypeSwitchStmt:
		h, _ = c.stmt(x.Init, h)
		h, _ = c.stmt(x.Assign, h)
		return c.clauses(x.Body, h, false)
	case *ast.SelectStmt:
		return c.clauses(x.Body, h, true)
	case *ast.EmptyStmt:
		return h, false
	default:
		ast.Inspect(s, func(n ast.Node) bool {
			if e, ok := n.(ast.Expr); ok {
				c.expr(e, h)
				return false
			}
			return true
		})
		return h, false
	}
}

func (c *fctx) clauses(body *ast.BlockStmt, h heldSet, isSelect bool) (heldSet, bool) {
	nj := len(c.jumps)
	var results []heldSet
	hasDefault := false
	for _, cl := range body.List {
		switch cc := cl.(type) {
		case *ast.CaseClause:
			if cc.List == nil {
				hasDefault = true
			}
			c.exprs(cc.List, h)
			e, t := c.stmts(cc.Body, h.copy())
			if !t {
				results = append(results, e)
			}
		case *ast.CommClause:
			if cc.Comm == nil {
				hasDefault = true
			}
			hh, _ := c.stmt(cc.Comm, h.copy())
			e, t := c.stmts(cc.Body, hh)
			if !t {
				results = append(results, e)
			}
		}
	}
	if !hasDefault && !isSelect {
		results = append(results, h)
	}
	// `break` inside leaves the switch/select with the state it had there; `continue` / labelled
	// jumps are kept for the enclosing loop as well (conservative: every jump state is intersected)
	r, ok := c.joinExits(results, nj)
	if !ok {
		return h, true
	}
	return r, false
}

func (a *analyzer) funcDecl(fd *ast.FuncDecl) {
	if fd.Body == nil {
		return
	}
	name := fd.Name.Name
	recvVar := ""
	if fd.Recv != nil && len(fd.Recv.List) > 0 {
		t := fd.Recv.List[0].Type
		if st, ok := t.(*ast.StarExpr); ok {
			t = st.X
		}
		if ix, ok := t.(*ast.IndexExpr); ok {
			t = ix.X
		}
		if id, ok := t.(*ast.Ident); ok {
			name = id.Name + "." + name
		}
		if len(fd.Recv.List[0].Names) > 0 {
			recvVar = fd.Recv.List[0].Names[0].Name
		}
	}
	closures := map[*ast.FuncLit]string{}
	n := 0
	ast.Inspect(fd.Body, func(nd ast.Node) bool {
		if fl, ok := nd.(*ast.FuncLit); ok {
			n++
			closures[fl] = fmt.Sprintf("%s$%d", name, n)
			a.out.Funcs = append(a.out.Funcs, closures[fl])
		}
		return true
	})
	a.out.Funcs = append(a.out.Funcs, name)
	entry := heldSet{}
	for _, r := range a.spec.Requires[name] {
		entry[lockKey{r.Mutex, recvVar}] = r.Mode
	}
	c := &fctx{a: a, name: name, closures: closures, record: true, fresh: a.freshLocals(fd.Body)}
	c.stmts(fd.Body.List, entry)
}

// freshLocals: local variables bound (by := or var) to a composite literal, its address, or the
// result of a constructor listed in the spec.
func (a *analyzer) freshLocals(body *ast.BlockStmt) map[types.Object]bool {
	fresh := map[types.Object]bool{}
	isFresh := func(e ast.Expr) bool {
		e = strip(e)
		if u, ok := e.(*ast.UnaryExpr); ok && u.Op == token.AND {
			e = strip(u.X)
		}
		switch x := e.(type) {
		case *ast.CompositeLit:
			return true
		case *ast.CallExpr:
			if id, ok := strip(x.Fun).(*ast.Ident); ok {
				for _, cn := range a.spec.Constructors {
					if cn == id.Name {
						return true
					}
				}
			}
		}
		return false
	}
	ast.Inspect(body, func(n ast.Node) bool {
		switch x := n.(type) {
		case *ast.FuncLit:
			return false
		case *ast.AssignStmt:
			if x.Tok != token.DEFINE {
				return true
			}
			for i, l := range x.Lhs {
				id, ok := l.(*ast.Ident)
				if !ok {
					continue
				}
				var rhs ast.Expr
				if len(x.Rhs) == len(x.Lhs) {
					rhs = x.Rhs[i]
				} else if i == 0 && len(x.Rhs) == 1 {
					rhs = x.Rhs[0]
				}
				if rhs != nil && isFresh(rhs) {
					if obj := a.info.Defs[id]; obj != nil {
						fresh[obj] = true
					}
				}
			}
		case *ast.ValueSpec:
			for i, id := range x.Names {
				if i < len(x.Values) && isFresh(x.Values[i]) {
					if obj := a.info.Defs[id]; obj != nil {
						fresh[obj] = true
					}
				}
			}
		}
		return true
	})
	return fresh
}

func analyzePackage(repo string, dir string, structs []string, spec *Spec, out *Output) error {
	fset := token.NewFileSet()
	abs := filepath.Join(repo, dir)
	ents, err := os.ReadDir(abs)
	if err != nil {
		return err
	}
	var files []*ast.File
	ctxt := build.Default
	for _, e := range ents {
		n := e.Name()
		if e.IsDir() || !strings.HasSuffix(n, ".go") || strings.HasSuffix(n, "_test.go") {
			continue
		}
		if ok, _ := ctxt.MatchFile(abs, n); !ok {
			continue
		}
		f, err := parser.ParseFile(fset, filepath.Join(abs, n), nil, parser.SkipObjectResolution)
		if err != nil {
			return fmt.Errorf("parse %s/%s: %v", dir, n, err)
		}
		files = append(files, f)
		out.Files = append(out.Files, filepath.Join(dir, n))
	}
	if len(files) == 0 {
		return fmt.Errorf("no files in %s", dir)
	}
	info := &types.Info{
		Selections: map[*ast.SelectorExpr]*types.Selection{},
		Uses:       map[*ast.Ident]types.Object{},
		Defs:       map[*ast.Ident]types.Object{},
	}
	nerr := 0
	conf := types.Config{
		Importer:                 &stubImporter{pkgs: map[string]*types.Package{}},
		Error:                    func(error) { nerr++ },
		DisableUnusedImportCheck: true,
	}
	pkg, _ := conf.Check(dir, fset, files, info)
	out.TypeErrors += nerr
	if pkg == nil {
		return fmt.Errorf("type check of %s produced no package", dir)
	}
	a := &analyzer{fset: fset, info: info, spec: spec, repo: repo, fieldOf: map[*types.Var]string{},
		ftype: map[string]string{}, fieldNames: map[string]bool{}, out: out}
	// declared fields of the tracked structs (types from the syntax)
	want := map[string]bool{}
	for _, s := range structs {
		want[s] = true
	}
	found := map[string]bool{}
	for _, f := range files {
		for _, d := range f.Decls {
			gd, ok := d.(*ast.GenDecl)
			if !ok || gd.Tok != token.TYPE {
				continue
			}
			for _, sp := range gd.Specs {
				ts := sp.(*ast.TypeSpec)
				st, ok := ts.Type.(*ast.StructType)
				if !ok || !want[ts.Name.Name] {
					continue
				}
				found[ts.Name.Name] = true
				obj := pkg.Scope().Lookup(ts.Name.Name)
				if obj == nil {
					return fmt.Errorf("struct %s.%s not in scope", dir, ts.Name.Name)
				}
				tstruct, ok := obj.Type().Underlying().(*types.Struct)
				if !ok {
					return fmt.Errorf("%s.%s is not a struct", dir, ts.Name.Name)
				}
				idx := 0
				for _, fl := range st.Fields.List {
					tstr := types.ExprString(fl.Type)
					names := []string{}
					for _, nm := range fl.Names {
						names = append(names, nm.Name)
					}
					if len(names) == 0 { // embedded
						e := tstr
						e = strings.TrimPrefix(e, "*")
						if i := strings.LastIndex(e, "."); i >= 0 {
							e = e[i+1:]
						}
						names = []string{e}
					}
					for _, nm := range names {
						loc := ts.Name.Name + "." + nm
						if idx < tstruct.NumFields() {
							a.fieldOf[tstruct.Field(idx)] = loc
						}
						idx++
						a.ftype[loc] = tstr
						a.fieldNames[nm] = true
						out.Fields = append(out.Fields, Field{loc, tstr})
						if _, has := spec.Mutators[loc]; has {
							out.Fields = append(out.Fields, Field{loc + "*", "object referred to by " + loc})
						}
					}
				}
			}
		}
	}
	for s := range want {
		if !found[s] {
			return fmt.Errorf("struct %s not found in %s", s, dir)
		}
	}
	for _, f := range files {
		for _, d := range f.Decls {
			if fd, ok := d.(*ast.FuncDecl); ok {
				a.funcDecl(fd)
			}
		}
	}
	return nil
}

func leanStr(s string) string {
	b, _ := json.Marshal(s)
	return string(b)
}

func main() {
	repo := flag.String("repo", "/repo", "repository root")
	specPath := flag.String("spec", "spec.json", "extractor spec")
	leanOut := flag.String("lean", "", "Lean module to write")
	jsonOut := flag.String("json", "", "JSON file to write")
	flag.Parse()
	raw, err := os.ReadFile(*specPath)
	if err != nil {
		fmt.Fprintln(os.Stderr, err)
		os.Exit(2)
	}
	var spec Spec
	if err := json.Unmarshal(raw, &spec); err != nil {
		fmt.Fprintln(os.Stderr, err)
		os.Exit(2)
	}
	out := &Output{}
	for _, p := range spec.Packages {
		if err := analyzePackage(*repo, p.Dir, p.Structs, &spec, out); err != nil {
			fmt.Fprintln(os.Stderr, "locks-extract:", err)
			os.Exit(1)
		}
	}
	sort.SliceStable(out.Facts, func(i, j int) bool {
		a, b := out.Facts[i], out.Facts[j]
		if a.File != b.File {
			return a.File < b.File
		}
		return a.Line < b.Line
	})
	if *jsonOut != "" {
		b, _ := json.MarshalIndent(out, "", " ")
		if err := os.WriteFile(*jsonOut, b, 0o644); err != nil {
			fmt.Fprintln(os.Stderr, err)
			os.Exit(2)
		}
	}
	if *leanOut != "" {
		if err := writeLean(*leanOut, out, &spec); err != nil {
			fmt.Fprintln(os.Stderr, err)
			os.Exit(2)
		}
	}
	fmt.Printf("facts=%d fields=%d unresolved=%d type_errors=%d files=%d\n",
		len(out.Facts), len(out.Fields), len(out.Unresolved), out.TypeErrors, len(out.Files))
}

func leanIdent(s string) string { return "«" + s + "»" }

// writeLean renders the facts as a Lean module. Locations and functions become named Nat constants
// (namespaces L and F) so that hand-written tables refer to them by name while the kernel compares
// numbers.
func writeLean(path string, out *Output, spec *Spec) error {
	var locs []string
	locID := map[string]int{}
	addLoc := func(l string) {
		if _, ok := locID[l]; !ok {
			locID[l] = len(locs)
			locs = append(locs, l)
		}
	}
	for _, f := range out.Fields {
		addLoc(f.Loc)
	}
	var reqs []string
	for k := range spec.Requires {
		reqs = append(reqs, k+"()")
	}
	sort.Strings(reqs)
	for _, r := range reqs {
		addLoc(r)
	}
	for _, r := range spec.Reserved {
		addLoc(r)
	}
	fnSet := map[string]bool{}
	for _, f := range out.Funcs {
		fnSet[f] = true
	}
	for _, pp := range spec.PostPublication {
		fnSet[pp.Fn+"@shared"] = true
	}
	var fns []string
	for f := range fnSet {
		fns = append(fns, f)
	}
	sort.Strings(fns)
	var sb strings.Builder
	sb.WriteString("import Refinery.Model.Locks\n")
	sb.WriteString("/- GENERATED on every run by tools/check C35 (harness/locks-extract) from the current tree of\n")
	sb.WriteString("   the repository: every lexical access to a field of the tracked structs with the mutexes of\n")
	sb.WriteString("   the same receiver expression held at that point.  Do not edit. -/\n")
	sb.WriteString("namespace Refinery.Gen.Access\nopen Refinery.Locks\n\n")
	sb.WriteString("/-! Locations: `Struct.field` of the tracked structs (`Struct.field*` = the object the field refers\n    to, `Struct.method()` = call sites of a method that requires a mutex). -/\nnamespace L\n")
	for i, l := range locs {
		sb.WriteString(fmt.Sprintf("def %s : Nat := %d\n", leanIdent(l), i))
	}
	sb.WriteString("end L\n\n/-! Functions and function literals (`Outer$n`) of the analysed packages. -/\nnamespace F\n")
	for i, f := range fns {
		sb.WriteString(fmt.Sprintf("def %s : Nat := %d\n", leanIdent(f), i))
	}
	sb.WriteString("end F\n\n")
	q := func(xs []string) string {
		var o []string
		for _, x := range xs {
			o = append(o, leanStr(x))
		}
		return strings.Join(o, ", ")
	}
	sb.WriteString("def locNames : List String := [" + q(locs) + "]\n\n")
	sb.WriteString("def fnNames : List String := [" + q(fns) + "]\n\n")
	var fl []string
	for _, f := range out.Fields {
		fl = append(fl, "  L."+leanIdent(f.Loc))
	}
	sb.WriteString("def declaredFields : List Nat := [\n" + strings.Join(fl, ",\n") + "]\n\n")
	type key struct {
		loc, fn, kind, held string
		fresh               bool
	}
	seen := map[key]bool{}
	var lines []string
	for _, f := range out.Facts {
		hs := []string{}
		for _, h := range f.Held {
			hs = append(hs, fmt.Sprintf("(L.%s, .%s)", leanIdent(h.Mutex), h.Mode))
		}
		k := key{f.Loc, f.Fn, f.Kind, strings.Join(hs, ", "), f.Fresh}
		if seen[k] {
			continue
		}
		seen[k] = true
		if _, ok := locID[f.Loc]; !ok {
			return fmt.Errorf("fact for undeclared location %s", f.Loc)
		}
		lines = append(lines, fmt.Sprintf("%06d  ⟨L.%s, F.%s, .%s, [%s], %v⟩", locID[f.Loc], leanIdent(f.Loc), leanIdent(f.Fn), f.Kind, k.held, f.Fresh))
	}
	sort.Strings(lines) // by location id, then text
	for i := range lines {
		lines[i] = lines[i][6:]
	}
	sb.WriteString("def accessFacts : List Fact := [\n" + strings.Join(lines, ",\n") + "]\n\n")
	var ul []string
	useen := map[string]bool{}
	for _, u := range out.Unresolved {
		l := fmt.Sprintf("  (%s, %s)", leanStr(u.Name), leanStr(u.Fn))
		if !useen[l] {
			useen[l] = true
			ul = append(ul, l)
		}
	}
	sort.Strings(ul)
	sb.WriteString("/-- selectors named like a tracked field whose base expression has a type the stub importer\n    cannot resolve (field name, function) -/\n")
	sb.WriteString("def unresolvedSelectors : List (String × String) := [\n" + strings.Join(ul, ",\n") + "]\n\n")
	sb.WriteString("end Refinery.Gen.Access\n")
	old, _ := os.ReadFile(path)
	if string(old) == sb.String() {
		return nil
	}
	tmp := fmt.Sprintf("%s.%d", path, os.Getpid())
	if err := os.WriteFile(tmp, []byte(sb.String()), 0o644); err != nil {
		return err
	}
	return os.Rename(tmp, path)
}
