//go:build verif

// Package verifkit is the shared part of the verification harnesses (DESIGN §2.2).
// It lives in /verif/harness/kit and is mapped into the module by `go build -overlay`;
// it is never copied into /repo.
package verifkit

import (
	"bufio"
	"flag"
	"fmt"
	"os"
	"runtime/debug"
	"strings"
)

// Rng is splitmix64: every random choice of a run derives from one seed.
type Rng struct{ s uint64 }

func NewRng(seed uint64) *Rng { return &Rng{s: seed} }

func (r *Rng) Next() uint64 {
	r.s += 0x9e3779b97f4a7c15
	z := r.s
	z = (z ^ (z >> 30)) * 0xbf58476d1ce4e5b9
	z = (z ^ (z >> 27)) * 0x94d049bb133111eb
	return z ^ (z >> 31)
}

// Intn returns a value in [0,n); n<=0 yields 0.
func (r *Rng) Intn(n int) int {
	if n <= 0 {
		return 0
	}
	return int(r.Next() % uint64(n))
}

func (r *Rng) Chance(pct int) bool { return r.Intn(100) < pct }

// Pick returns the index chosen according to integer weights.
func (r *Rng) Pick(weights ...int) int {
	t := 0
	for _, w := range weights {
		t += w
	}
	x := r.Intn(t)
	for i, w := range weights {
		if x < w {
			return i
		}
		x -= w
	}
	return len(weights) - 1
}

// Fork derives an independent generator (per case) so that cases replay alone.
func (r *Rng) Fork() *Rng { return NewRng(r.Next()) }

const hexd = "0123456789ABCDEF"

// Enc percent-encodes everything but [A-Za-z0-9._:/+-] so a token never has a space, '=' or ','.
// The empty string is encoded as "%".
func Enc(s string) string {
	if s == "" {
		return "%"
	}
	var b strings.Builder
	for i := 0; i < len(s); i++ {
		c := s[i]
		if c >= 'a' && c <= 'z' || c >= 'A' && c <= 'Z' || c >= '0' && c <= '9' || c == '.' || c == '_' || c == ':' || c == '/' || c == '+' || c == '-' {
			b.WriteByte(c)
		} else {
			b.WriteByte('%')
			b.WriteByte(hexd[c>>4])
			b.WriteByte(hexd[c&15])
		}
	}
	return b.String()
}

func unhex(c byte) byte {
	switch {
	case c >= '0' && c <= '9':
		return c - '0'
	case c >= 'A' && c <= 'F':
		return c - 'A' + 10
	case c >= 'a' && c <= 'f':
		return c - 'a' + 10
	}
	return 0
}

func Dec(s string) string {
	if s == "%" {
		return ""
	}
	var b strings.Builder
	for i := 0; i < len(s); i++ {
		if s[i] == '%' && i+2 < len(s) {
			b.WriteByte(unhex(s[i+1])<<4 | unhex(s[i+2]))
			i += 2
		} else {
			b.WriteByte(s[i])
		}
	}
	return b.String()
}

var extBuf []string

// Ext records an `ext` line (graph of an external function, or an acceptor input) that is written
// to the transcript after the current `op` line and before its `obs` line.
func Ext(format string, a ...any) { extBuf = append(extBuf, fmt.Sprintf(format, a...)) }

// Case is one generated case: header arguments and operation lines (without the "op " prefix).
type Case struct {
	Header string
	Ops    []string
}

// Runner executes operations of one case against the real code.
type Runner interface {
	// Do runs one operation; obs=="" with has==false means the operation has no output.
	Do(op []string) (obs string, has bool)
	Close()
}

// Component is what a harness main provides.
type Component interface {
	Gen(r *Rng, maxLen int, tier string) Case
	NewCase(header []string) Runner
}

// KV returns the value of key=value among args.
func KV(args []string, key string) string {
	for _, a := range args {
		if strings.HasPrefix(a, key+"=") {
			return a[len(key)+1:]
		}
	}
	return ""
}

func doOne(r Runner, op []string) (obs string, has bool) {
	defer func() {
		if e := recover(); e != nil {
			msg := fmt.Sprint(e)
			if len(msg) > 120 {
				msg = msg[:120]
			}
			if os.Getenv("VERIF_DEBUG") != "" {
				debug.PrintStack()
			}
			obs, has = "panic "+Enc(msg), true
		}
	}()
	return r.Do(op)
}

// Main implements:  gen -seed S -cases N -len L -tier T   (ops file on stdout)
//
//	run                                    (ops file on stdin, transcript on stdout)
//	facts                                  (name value lines; optional, via Facts)
func Main(c Component, facts func() map[string]string) {
	if len(os.Args) < 2 {
		fmt.Fprintln(os.Stderr, "usage: gen|run|facts")
		os.Exit(2)
	}
	out := bufio.NewWriterSize(os.Stdout, 1<<20)
	defer out.Flush()
	switch os.Args[1] {
	case "facts":
		if facts != nil {
			m := facts()
			for k, v := range m {
				fmt.Fprintf(out, "%s %s\n", k, v)
			}
		}
	case "gen":
		fs := flag.NewFlagSet("gen", flag.ExitOnError)
		seed := fs.Uint64("seed", 1, "")
		cases := fs.Int("cases", 10, "")
		maxLen := fs.Int("len", 40, "")
		tier := fs.String("tier", "quick", "")
		fs.Parse(os.Args[2:])
		root := NewRng(*seed)
		for i := 0; i < *cases; i++ {
			cs := c.Gen(root.Fork(), *maxLen, *tier)
			fmt.Fprintf(out, "case %d %s\n", i+1, cs.Header)
			for _, o := range cs.Ops {
				fmt.Fprintf(out, "op %s\n", o)
			}
			fmt.Fprintln(out, "end")
		}
	case "run":
		sc := bufio.NewScanner(os.Stdin)
		sc.Buffer(make([]byte, 1<<20), 1<<28)
		var r Runner
		for sc.Scan() {
			line := sc.Text()
			f := strings.Fields(line)
			if len(f) == 0 {
				continue
			}
			switch f[0] {
			case "case":
				if r != nil {
					r.Close()
				}
				fmt.Fprintln(out, line)
				r = c.NewCase(f[2:])
			case "op":
				fmt.Fprintln(out, line)
				if r == nil {
					continue
				}
				extBuf = extBuf[:0]
				obs, has := doOne(r, f[1:])
				for _, e := range extBuf {
					fmt.Fprintf(out, "ext %s\n", e)
				}
				if has {
					fmt.Fprintf(out, "obs %s\n", obs)
				}
			case "end":
				if r != nil {
					r.Close()
					r = nil
				}
				fmt.Fprintln(out, "end")
			}
			out.Flush()
		}
		if r != nil {
			r.Close()
		}
	default:
		fmt.Fprintln(os.Stderr, "unknown subcommand")
		os.Exit(2)
	}
}
