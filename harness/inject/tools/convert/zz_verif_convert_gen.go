//go:build verif

// Case generator of the C38 harness: valid v1 config files over the old keys of the conversion
// table (values filtered through the real v2 validator so that a refusal of the converted file is
// never the generator's fault) and valid v1 rules files over the sampler structs' fields.
package main

import (
	"fmt"
	"strings"

	"github.com/honeycombio/refinery/config"
	kit "github.com/honeycombio/refinery/internal/verifkit"
)

var valueHelpers = map[string]bool{"nonDefaultOnly": true, "nonEmptyString": true, "nonZero": true,
	"secondsToDuration": true, "memorysize": true, "choice": true, "renderStringarray": true}

var (
	strPool = []string{"refinery-eu", "my dataset", "s3cr3t!", "p@ss:word", "it's", `say "hi"`, "café", "prod1", "Team7",
		"abc_def", "eth0", "192.168.1.1", "x", "a b", "#frag", "- dash", "key: value", "[abc]", "Refinery Logs 2",
		"abcdef0123456789abcdef0123456789", "abcdefghij0123456789", "never", "always", "monitor", "customPrefix",
		// blanks at the edges (a plain YAML scalar would lose them), inner and only blanks, tabs
		"s3cret ", "hunter2  ", " lead", "  both  ", "two  inner", " ", "   ", "tab\tin", "trail\t", "\tlead", "Refinery Logs Prod  ",
		// read by YAML as something other than a string when written without quotes
		"12345", "007", "true", "null", "0x1F", "1e3", "False", "12345678901234567890123456789012", "12345678901234567890", "1_000"}
	hostPool = []string{"0.0.0.0:9090", "localhost:6379", "127.0.0.1:8082", "redis.local:6380", ":8080"}
	urlPool  = []string{"https://api.eu1.honeycomb.io", "http://localhost:9000", "https://example.com/x"}
	durPool  = []string{"0s", "1s", "3s", "5s", "30s", "45s", "90s", "2m", "15m", "1h", "24h", "100ms", "250ms", "1500ms", "1m30s"}
	intPool  = []int64{0, 1, 5, 50, 75, 90, 100, 150, 999, 1000, 5000, 20000, 100000, 1000000, 2000000}
	memPool  = []int64{0, 1, 1000, 1024, 1234567, 1000000, 1048576, 1500000000, 2147483648, 4294967296, 17179869184}
	itemPool = []string{"trace.span_id", "error", "http.status", "abc123", "abcdef0123456789abcdef0123456789", "my key",
		"my key ", " x", "a  b", "  ", "end\t",
		"*", "12345", "true", "null", "a: b", "#x", "12345678901234567890123456789012"}
)

var metaCache *config.Metadata

func v2ok(group, field string, v any) bool {
	if metaCache == nil {
		metaCache = loadConfigMetadata()
	}
	data := map[string]any{"General": map[string]any{"ConfigurationVersion": 2}}
	g, _ := data[group].(map[string]any)
	if g == nil {
		g = map[string]any{}
		data[group] = g
	}
	switch x := v.(type) {
	case int64:
		g[field] = int(x)
	default:
		g[field] = v
	}
	return !metaCache.Validate(data).HasErrors()
}

func elementType(r row) string {
	for _, v := range r.Validations {
		if v.Type == "elementType" {
			if s, ok := v.Arg.(string); ok {
				return s
			}
		}
	}
	return "string"
}

// candidate draws one v1 value for the row; spicy allows values that are valid but awkward
// (YAML-sensitive text, explicit zeroes).
func candidate(r *kit.Rng, rw row, spicy bool) (val, bool) {
	for try := 0; try < 12; try++ {
		var v val
		switch {
		case rw.Helper == "renderStringarray":
			pool := itemPool
			switch elementType(rw) {
			case "url":
				pool = []string{"http://10.0.0.1:8081", "http://10.0.0.2:8081", "https://peer-3.example:8443"}
			case "hostport":
				pool = hostPool
			}
			n := 1 + r.Intn(3)
			var l []string
			for i := 0; i < n; i++ {
				l = append(l, pool[r.Intn(len(pool))])
			}
			v = val{Tag: "l", L: l}
		case rw.Helper == "choice":
			c := append([]string{}, rw.Choices...)
			v = val{Tag: "s", S: c[r.Intn(len(c))]}
		case rw.Helper == "secondsToDuration":
			v = val{Tag: "i", N: []int64{1, 10, 30, 60, 90, 300, 3600}[r.Intn(7)]}
		case rw.Helper == "memorysize" || rw.FType == "memorysize":
			v = val{Tag: "i", N: memPool[r.Intn(len(memPool))]}
		case rw.FType == "bool" || rw.FType == "defaulttrue":
			v = val{Tag: "b", N: int64(r.Intn(2))}
		case rw.FType == "int" || rw.FType == "percentage":
			v = val{Tag: "i", N: intPool[r.Intn(len(intPool))]}
		case rw.FType == "duration":
			v = val{Tag: "s", S: durPool[r.Intn(len(durPool))]}
		case rw.FType == "hostport":
			v = val{Tag: "s", S: hostPool[r.Intn(len(hostPool))]}
		case rw.FType == "url":
			v = val{Tag: "s", S: urlPool[r.Intn(len(urlPool))]}
		default:
			v = val{Tag: "s", S: strPool[r.Intn(len(strPool))]}
		}
		if rw.Arg.Tag != "-" && (rw.Helper == "nonDefaultOnly" || rw.Helper == "choice") && r.Chance(12) {
			v = rw.Arg // exactly the default
			if v.Tag == "s" && v.S == "" {
				continue
			}
		}
		if !spicy {
			zero := (v.Tag == "i" && v.N == 0) || (v.Tag == "s" && rw.FType == "duration" && (v.S == "0s"))
			if zero && v.String() != rw.Arg.String() {
				continue
			}
		}
		var probe any = v.goValue()
		if rw.Helper == "secondsToDuration" { // v1 holds integer seconds, v2 a duration text
			probe = fmt.Sprintf("%ds", v.N)
		}
		if v2ok(rw.Group, rw.Field, probe) {
			return v, true
		}
	}
	return val{}, false
}

func concreteKey(r *kit.Rng, oldkey string) string {
	i := strings.IndexByte(oldkey, '.')
	if i < 0 {
		return oldkey
	}
	gs := strings.Split(oldkey[:i], "/")
	return gs[r.Intn(len(gs))] + oldkey[i:]
}

func genConfig(r *kit.Rng, maxLen int) kit.Case {
	format := "T"
	if r.Chance(40) {
		format = "Y"
	}
	spicy := r.Chance(45)
	rows := table()
	var ops []string
	seenKey := map[string]bool{}
	touched := map[string]bool{}
	pct := 10 + r.Intn(25)
	for _, rw := range rows {
		if !valueHelpers[rw.Helper] || seenKey[rw.OldKey] || len(ops) >= maxLen {
			continue
		}
		if !r.Chance(pct) {
			continue
		}
		v, ok := candidate(r, rw, spicy)
		if !ok {
			continue
		}
		seenKey[rw.OldKey] = true
		ops = append(ops, fmt.Sprintf("set %s %s", concreteKey(r, rw.OldKey), v.String()))
	}
	// keys that feed the conditional rows
	if r.Chance(40) && !seenKey["Metrics"] {
		ops = append(ops, "set Metrics "+val{Tag: "s", S: []string{"prometheus", "honeycomb"}[r.Intn(2)]}.String())
		seenKey["Metrics"] = true
	}
	if spicy && r.Chance(22) {
		_, _, v1keys := depKeys()
		if len(v1keys) > 0 {
			k := concreteKey(r, v1keys[r.Intn(len(v1keys))])
			v := val{Tag: "i", N: []int64{1000, 2000, 10000}[r.Intn(3)]}
			switch {
			case strings.HasSuffix(k, "Strategy"):
				v = val{Tag: "s", S: "hash"}
			case strings.HasSuffix(k, "CacheOverrunStrategy"):
				v = val{Tag: "s", S: "resize"}
			case strings.HasSuffix(k, ".Type"):
				v = val{Tag: "s", S: "cuckoo"}
			case strings.HasSuffix(k, "Prefix"):
				v = val{Tag: "s", S: "refinery"}
			case strings.HasSuffix(k, "Database"):
				v = val{Tag: "i", N: 1}
			case strings.HasSuffix(k, "Duration"):
				v = val{Tag: "s", S: "3s"}
			}
			ops = append(ops, fmt.Sprintf("set %s %s", k, v.String()))
		}
	}
	if r.Chance(10) {
		ops = append(ops, "set AdditionalAttributes "+[]string{"t:ClusterName=MyCluster,environment=production",
			"t:rollout.id=12345", "t:env=a%3A%20b,cluster=true",
			"t:env=prod%20,%20lead=%20v,two%20%20inner=x%20%20y", "t:blank=%20%20,tab=a%09"}[r.Intn(5)])
	}
	for i := len(ops) - 1; i > 0; i-- { // order of the settings in the file must not matter
		j := r.Intn(i + 1)
		ops[i], ops[j] = ops[j], ops[i]
	}
	for _, o := range ops {
		k := strings.Fields(o)[1]
		touched[k] = true
	}
	ops = append(ops, "convert", "load")
	for _, rw := range rows {
		if rw.Field == "" || strings.HasPrefix(rw.Field, "?") {
			continue
		}
		hit := false
		for k := range touched {
			if matchesOld(rw.OldKey, k) {
				hit = true
			}
		}
		if rw.Helper == "conditional" {
			hit = true
		}
		if hit || r.Chance(6) {
			ops = append(ops, "get "+rw.Group+"."+rw.Field)
		}
	}
	return kit.Case{Header: "kind=config fmt=" + format, Ops: ops}
}

// matchesOld: does the concrete v1 key k instantiate the table's old-key pattern?
func matchesOld(pattern, k string) bool {
	i := strings.IndexByte(pattern, '.')
	j := strings.IndexByte(k, '.')
	if i < 0 || j < 0 {
		return pattern == k
	}
	if pattern[i:] != k[j:] {
		return false
	}
	for _, g := range strings.Split(pattern[:i], "/") {
		if g == k[:j] {
			return true
		}
	}
	return false
}

// ---------------------------------------------------------------------------------------------
// rules

type v1field struct {
	name string // as documented for v1
	v2   string // yaml name in v2 ("" = dropped)
	gen  func(r *kit.Rng) val
}

func ints(xs ...int64) func(*kit.Rng) val {
	return func(r *kit.Rng) val { return val{Tag: "i", N: xs[r.Intn(len(xs))]} }
}
func boolv(r *kit.Rng) val { return val{Tag: "b", N: int64(r.Intn(2))} }
func fieldList(r *kit.Rng) val {
	pool := []string{"request.method", "http.target", "response.status_code", "service name", "error", "200"}
	n := 1 + r.Intn(3)
	var l []string
	for i := 0; i < n; i++ {
		l = append(l, pool[r.Intn(len(pool))])
	}
	return val{Tag: "l", L: l}
}
func floats(xs ...string) func(*kit.Rng) val {
	return func(r *kit.Rng) val { return val{Tag: "f", S: xs[r.Intn(len(xs))]} }
}
func durs(xs ...string) func(*kit.Rng) val {
	return func(r *kit.Rng) val { return val{Tag: "s", S: xs[r.Intn(len(xs))]} }
}

var dropped = []v1field{
	{"AddSampleRateKeyToTrace", "", boolv},
	{"AddSampleRateKeyToTraceField", "", func(r *kit.Rng) val { return val{Tag: "s", S: "meta.refinery.dynsampler_key"} }},
}

// v1FieldsOf derives the v1 settings of a sampler from the struct the converter unmarshals into
// (reflection, see samplerFields): the documented v1 name of a field is its v2 (yaml) name, except
// that a ClearFrequency could also be given as integer ClearFrequencySec, and AdjustmentInterval was
// integer seconds.  Values are non-default and non-zero.
func v1FieldsOf(stype string) (fields []v1field, required map[string]bool) {
	required = map[string]bool{}
	for _, f := range samplerFields() {
		if f.Struct != stype {
			continue
		}
		name := f.YAML
		if f.Required {
			required[name] = true
		}
		var g func(*kit.Rng) val
		switch f.Kind {
		case "int":
			switch {
			case strings.Contains(name, "MaxKeys"):
				g = ints(100, 500)
			case strings.Contains(name, "Delay"):
				g = ints(3, 5, 7)
			default:
				g = ints(2, 10, 100, 5000)
			}
		case "bool":
			g = func(r *kit.Rng) val { return val{Tag: "b", N: int64(r.Pick(25, 75))} }
		case "strs":
			g = fieldList
		case "float":
			switch name { // the v2 rules validator bounds these
			case "Weight":
				g = floats("0.25", "0.9", "0.75")
			case "BurstMultiple":
				g = floats("2", "1.5", "3")
			default: // AgeOutValue and any other fraction
				g = floats("0.5", "0.1", "0.25")
			}
		case "string":
			g = func(r *kit.Rng) val { return val{Tag: "s", S: "x"} }
		case "dur":
			secs := ints(1, 10, 45, 60, 90, 3600)
			text := durs("60s", "90s", "1m30s", "500ms", "45s")
			switch name {
			case "ClearFrequency":
				fields = append(fields, v1field{"ClearFrequencySec", name, secs}, v1field{"ClearFrequency", name, text})
			case "AdjustmentInterval":
				fields = append(fields, v1field{name, name, func(r *kit.Rng) val {
					if r.Chance(80) {
						return secs(r)
					}
					return text(r)
				}})
			default:
				fields = append(fields, v1field{name, name, text})
			}
			continue
		default:
			continue // nested structure (rules, conditions, downstream samplers): generated structurally
		}
		fields = append(fields, v1field{name, name, g})
	}
	return
}

func keyCase(r *kit.Rng, style int, k string) string {
	switch style {
	case 1:
		return strings.ToLower(k)
	case 2:
		if r.Chance(50) {
			return strings.ToLower(k)
		}
		return strings.ToUpper(k)
	}
	return k
}

func genSamplerFields(r *kit.Rng, style int, stype string, emit func(key string, v val), get func(v2 string)) {
	fields, req := v1FieldsOf(stype)
	full := r.Chance(35) // every v1 field of the sampler set
	if r.Chance(50) {    // which of two spellings of one setting comes first must not matter
		for i := len(fields) - 1; i > 0; i-- {
			j := r.Intn(i + 1)
			fields[i], fields[j] = fields[j], fields[i]
		}
	}
	usedV2 := map[string]bool{}
	for _, f := range fields {
		if usedV2[f.v2] {
			continue
		}
		if !full && !req[f.name] && !r.Chance(60) {
			continue
		}
		usedV2[f.v2] = true
		emit(keyCase(r, style, f.name), f.gen(r))
	}
	if stype != "RulesBasedSampler" && stype != "DeterministicSampler" && r.Chance(30) {
		for _, f := range dropped {
			emit(keyCase(r, style, f.name), f.gen(r))
		}
	}
	seen := map[string]bool{}
	for _, f := range fields {
		if !seen[f.v2] && (usedV2[f.v2] || r.Chance(30)) {
			get(f.v2)
		}
		seen[f.v2] = true
	}
}

func genRules(r *kit.Rng, maxLen int) kit.Case {
	format := "T"
	if r.Chance(40) {
		format = "Y"
	}
	style := r.Pick(60, 25, 15)
	types := []string{"DeterministicSampler", "DynamicSampler", "EMADynamicSampler", "TotalThroughputSampler", "RulesBasedSampler"}
	names := []string{"dataset1", "prod", "my-service", "env.with.dots", "Data Set 4", "UPPER", "staging", "x"}
	var ops, gets []string
	nds := 1 + r.Intn(4)
	spicy := r.Chance(35)
	for d := 0; d <= nds; d++ {
		ds := "-"
		if d > 0 {
			n := names[r.Intn(len(names))]
			dup := false
			for _, o := range ops {
				if strings.HasPrefix(o, "rset "+kit.Enc(n)+" ") {
					dup = true
				}
			}
			if dup {
				continue
			}
			ds = kit.Enc(n)
		}
		stype := types[r.Pick(30, 20, 15, 10, 25)]
		hasSampler := true
		if d == 0 && r.Chance(25) {
			stype, hasSampler = "DeterministicSampler", false // default sampler type when the key is missing
		}
		if d > 0 && r.Chance(10) {
			// a table without a Sampler key: v1 ignored it (fell back to the default sampler)
			ops = append(ops, fmt.Sprintf("rset %s %s i:7", ds, kit.Enc(keyCase(r, style, "SampleRate"))))
			gets = append(gets, fmt.Sprintf("rget %s @present", ds))
			continue
		}
		if hasSampler {
			ops = append(ops, fmt.Sprintf("rset %s %s %s", ds, kit.Enc(keyCase(r, style, "Sampler")), val{Tag: "s", S: stype}.String()))
		}
		gets = append(gets, fmt.Sprintf("rget %s @present", ds), fmt.Sprintf("rget %s @type", ds))
		genSamplerFields(r, style, stype,
			func(k string, v val) { ops = append(ops, fmt.Sprintf("rset %s %s %s", ds, kit.Enc(k), v.String())) },
			func(v2 string) { gets = append(gets, fmt.Sprintf("rget %s %s", ds, v2)) })
		if stype == "RulesBasedSampler" {
			nr := 1 + r.Intn(4)
			gets = append(gets, fmt.Sprintf("rget %s @rules", ds))
			for i := 0; i < nr; i++ {
				if r.Chance(80) {
					ops = append(ops, fmt.Sprintf("rrule %s %d %s %s", ds, i, keyCase(r, style, "name"),
						val{Tag: "s", S: []string{"drop healthchecks", "keep 500s", "slow", "rule: x", "42", "trail ", " lead"}[r.Intn(7)]}.String()))
					gets = append(gets, fmt.Sprintf("rgetrule %s %d Name", ds, i))
				}
				down := r.Chance(22)
				switch {
				case down:
					dt := []string{"DynamicSampler", "EMADynamicSampler", "TotalThroughputSampler"}[r.Intn(3)] // the v1 downstream samplers
					genSamplerFields(r, style, dt,
						func(k string, v val) {
							ops = append(ops, fmt.Sprintf("rdown %s %d %s %s %s", ds, i, kit.Enc(dt), kit.Enc(k), v.String()))
						},
						func(v2 string) { gets = append(gets, fmt.Sprintf("rgetdown %s %d %s", ds, i, v2)) })
					gets = append(gets, fmt.Sprintf("rgetdown %s %d @type", ds, i))
				case r.Chance(25):
					ops = append(ops, fmt.Sprintf("rrule %s %d %s b:true", ds, i, keyCase(r, style, "drop")))
					gets = append(gets, fmt.Sprintf("rgetrule %s %d Drop", ds, i))
				default:
					ops = append(ops, fmt.Sprintf("rrule %s %d %s %s", ds, i, keyCase(r, style, "SampleRate"), ints(1, 5, 10, 100)(r).String()))
					gets = append(gets, fmt.Sprintf("rgetrule %s %d SampleRate", ds, i), fmt.Sprintf("rgetrule %s %d Drop", ds, i))
				}
				if r.Chance(30) {
					ops = append(ops, fmt.Sprintf("rrule %s %d %s %s", ds, i, keyCase(r, style, "Scope"), val{Tag: "s", S: []string{"span", "trace"}[r.Intn(2)]}.String()))
					gets = append(gets, fmt.Sprintf("rgetrule %s %d Scope", ds, i))
				}
				nc := r.Intn(4)
				if i == nr-1 && r.Chance(50) {
					nc = 0 // the v1 "default rule"
				}
				gets = append(gets, fmt.Sprintf("rgetrule %s %d @conds", ds, i))
				for j := 0; j < nc; j++ {
					fld := []string{"status_code", "http.route", "duration_ms", "service name", "error"}[r.Intn(5)]
					ops = append(ops, fmt.Sprintf("rcond %s %d %d %s %s", ds, i, j, keyCase(r, style, "field"), val{Tag: "s", S: fld}.String()))
					var opv string
					var v val
					switch r.Pick(30, 20, 15, 10, 10, 15) {
					case 0:
						opv, v = "=", val{Tag: "i", N: []int64{200, 500, 0, 1}[r.Intn(4)]}
					case 1:
						opv, v = []string{"=", "!=", "starts-with", "contains", "does-not-contain"}[r.Intn(5)], val{Tag: "s", S: []string{"/health-check", "users", "200", "true", "a: b", " users ", "  "}[r.Intn(7)]}
					case 2:
						opv, v = []string{">", ">=", "<", "<="}[r.Intn(4)], val{Tag: "f", S: []string{"1000.789", "0.5", "2.25"}[r.Intn(3)]}
					case 3:
						opv, v = "=", val{Tag: "b", N: int64(r.Intn(2))}
					case 4:
						opv, v = []string{">", ">=", "<", "<="}[r.Intn(4)], val{Tag: "i", N: []int64{100, 1000, 5}[r.Intn(3)]}
					default:
						opv, v = []string{"exists", "not-exists"}[r.Intn(2)], val{Tag: "-"}
						if !spicy {
							opv, v = "!=", val{Tag: "s", S: "users"}
						}
					}
					ops = append(ops, fmt.Sprintf("rcond %s %d %d %s %s", ds, i, j, keyCase(r, style, "operator"), val{Tag: "s", S: opv}.String()))
					if v.Tag != "-" {
						ops = append(ops, fmt.Sprintf("rcond %s %d %d %s %s", ds, i, j, keyCase(r, style, "value"), v.String()))
					}
					if v.Tag == "s" && r.Chance(20) {
						ops = append(ops, fmt.Sprintf("rcond %s %d %d %s %s", ds, i, j, keyCase(r, style, "datatype"), val{Tag: "s", S: []string{"string", "int", "bool"}[r.Intn(3)]}.String()))
						gets = append(gets, fmt.Sprintf("rgetcond %s %d %d Datatype", ds, i, j))
					}
					gets = append(gets, fmt.Sprintf("rgetcond %s %d %d Field", ds, i, j), fmt.Sprintf("rgetcond %s %d %d Operator", ds, i, j), fmt.Sprintf("rgetcond %s %d %d Value", ds, i, j))
				}
			}
		}
		if len(ops) > maxLen*2 {
			break
		}
	}
	if r.Chance(20) {
		ops = append(ops, "rset - "+kit.Enc(keyCase(r, style, "DryRun"))+" b:true")
	}
	ops = append(ops, "convert", "load")
	ops = append(ops, gets...)
	return kit.Case{Header: "kind=rules fmt=" + format, Ops: ops}
}

func (comp) Gen(r *kit.Rng, maxLen int, tier string) kit.Case {
	if r.Chance(35) {
		return genRules(r, maxLen)
	}
	return genConfig(r, maxLen)
}
