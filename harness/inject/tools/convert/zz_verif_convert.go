//go:build verif

// Harness for the config/rules converter (property C38).  tools/convert is `package main`, so the
// harness is injected INTO that package (go build -overlay) and takes over from init() when
// VERIF_CONVERT_HARNESS=1; without that variable the very same binary is the unmodified converter,
// which is how every conversion of a case is executed: as a child process running the real main()
// (`convert config|rules --input v1file --output v2file`), so os.Exit / panics inside the
// converter are observations, not harness crashes.  The produced file is then loaded in-process
// by the real v2 loader and validator (config.VerifConvertLoad -> newFileConfig).
//
// Unexported names of package main touched: filesystem (the embedded templates),
// loadConfigMetadata.
package main

import (
	"bytes"
	"fmt"
	"os"
	"os/exec"
	"path/filepath"
	"reflect"
	"regexp"
	"sort"
	"strconv"
	"strings"
	"time"

	"github.com/honeycombio/refinery/config"
	kit "github.com/honeycombio/refinery/internal/verifkit"
	"github.com/pelletier/go-toml/v2"
	"gopkg.in/yaml.v3"
)

func init() {
	if os.Getenv("VERIF_CONVERT_HARNESS") == "1" {
		os.Unsetenv("VERIF_CONVERT_HARNESS") // children are the real converter
		kit.Main(comp{}, facts)
		os.Exit(0)
	}
}

type comp struct{}

// ---------------------------------------------------------------------------------------------
// The conversion table, regenerated from the embedded template and the metadata.

type row struct {
	Group, Field, OldKey, Helper string
	Arg                          val    // default (nonDefaultOnly, choice) / example / extra
	Choices                      []string
	FType                        string // type of Group.Field in configMeta.yaml
	LoaderDefault                val    // what the v2 loader yields for an empty config
	Validations                  []config.Validation
	FieldChoices                 []string
}

// val is a typed value in the transcript encoding.
type val struct {
	Tag string // s i b l d m t  (string int bool list duration(ns) memory(bytes) table) or "-" absent
	S   string
	N   int64
	L   []string // list items, or k=v pairs of a table
}

func (v val) String() string {
	switch v.Tag {
	case "s", "f":
		return v.Tag + ":" + kit.Enc(v.S)
	case "i", "d", "m":
		return v.Tag + ":" + strconv.FormatInt(v.N, 10)
	case "b":
		if v.N != 0 {
			return "b:true"
		}
		return "b:false"
	case "l":
		if len(v.L) == 0 {
			return "l:-"
		}
		e := make([]string, len(v.L))
		for i, s := range v.L {
			e[i] = kit.Enc(s)
		}
		return "l:" + strings.Join(e, ",")
	case "t":
		if len(v.L) == 0 {
			return "t:-"
		}
		return "t:" + strings.Join(v.L, ",")
	case "nil":
		return "nil"
	}
	return "-"
}

func parseVal(s string) val {
	if s == "nil" {
		return val{Tag: "nil"}
	}
	i := strings.IndexByte(s, ':')
	if i < 0 {
		return val{Tag: "-"}
	}
	tag, body := s[:i], s[i+1:]
	switch tag {
	case "s", "f":
		return val{Tag: tag, S: kit.Dec(body)}
	case "i", "d", "m":
		n, _ := strconv.ParseInt(body, 10, 64)
		return val{Tag: tag, N: n}
	case "b":
		if body == "true" {
			return val{Tag: "b", N: 1}
		}
		return val{Tag: "b"}
	case "l":
		if body == "-" {
			return val{Tag: "l"}
		}
		var l []string
		for _, p := range strings.Split(body, ",") {
			l = append(l, kit.Dec(p))
		}
		return val{Tag: "l", L: l}
	case "t":
		if body == "-" {
			return val{Tag: "t"}
		}
		return val{Tag: "t", L: strings.Split(body, ",")}
	}
	return val{Tag: "-"}
}

func (v val) goValue() any {
	switch v.Tag {
	case "s":
		return v.S
	case "f":
		f, _ := strconv.ParseFloat(v.S, 64)
		return f
	case "i":
		return v.N
	case "b":
		return v.N != 0
	case "l":
		out := make([]any, len(v.L))
		for i, s := range v.L {
			out[i] = s
		}
		return out
	case "t":
		m := map[string]any{}
		for _, kv := range v.L {
			p := strings.SplitN(kv, "=", 2)
			if len(p) == 2 {
				m[kit.Dec(p[0])] = kit.Dec(p[1])
			}
		}
		return m
	}
	return nil
}

var (
	groupRe  = regexp.MustCompile(`^([A-Za-z][A-Za-z0-9]*):\s*$`)
	actionRe = regexp.MustCompile(`^\s*\{\{-?\s*([A-Za-z]\w*)\s*(.*?)\s*-?\}\}\s*$`)
)

// tokens splits the argument text of a template action into Go-literal tokens.
func tokens(s string) []string {
	var out []string
	i := 0
	for i < len(s) {
		c := s[i]
		switch {
		case c == ' ' || c == '\t':
			i++
		case c == '"':
			j := i + 1
			for j < len(s) && s[j] != '"' {
				if s[j] == '\\' {
					j++
				}
				j++
			}
			out = append(out, s[i:min(j+1, len(s))])
			i = j + 1
		case c == '(':
			j := strings.IndexByte(s[i:], ')')
			if j < 0 {
				j = len(s) - i - 1
			}
			out = append(out, s[i:i+j+1])
			i += j + 1
		default:
			j := i
			for j < len(s) && s[j] != ' ' && s[j] != '\t' {
				j++
			}
			out = append(out, s[i:j])
			i = j
		}
	}
	return out
}

func literal(tok string) val {
	if strings.HasPrefix(tok, `"`) {
		s, err := strconv.Unquote(tok)
		if err != nil {
			s = strings.Trim(tok, `"`)
		}
		return val{Tag: "s", S: s}
	}
	if tok == "true" {
		return val{Tag: "b", N: 1}
	}
	if tok == "false" {
		return val{Tag: "b"}
	}
	if n, err := strconv.ParseInt(strings.ReplaceAll(tok, "_", ""), 10, 64); err == nil {
		return val{Tag: "i", N: n}
	}
	return val{Tag: "s", S: tok}
}

var minimalConfig = []byte("General:\n  ConfigurationVersion: 2\n")
var minimalRules = []byte("RulesVersion: 2\nSamplers:\n  __default__:\n    DeterministicSampler:\n      SampleRate: 1\n")

var tableCache []row

// table parses the embedded configV2.tmpl (the template ConvertConfig executes): every
// `{{ helper .Data "Key" "OldKey" args }}` action under a `Group:` line is one row.  Actions of
// any other shape are kept too (helper = their first word) so that a new kind of action shows up
// in the regenerated Lean table instead of being skipped.
func table() []row {
	if tableCache != nil {
		return tableCache
	}
	src, err := filesystem.ReadFile("templates/configV2.tmpl")
	if err != nil {
		panic(err)
	}
	meta := loadConfigMetadata()
	main, _, fatal, msgs := config.VerifConvertLoad(minimalConfig, minimalRules)
	if fatal != "" {
		panic(fmt.Sprint("minimal config does not load: ", msgs))
	}
	var rows []row
	group := ""
	for _, line := range strings.Split(string(src), "\n") {
		if m := groupRe.FindStringSubmatch(line); m != nil {
			group = m[1]
			continue
		}
		m := actionRe.FindStringSubmatch(line)
		if m == nil || group == "" {
			continue
		}
		helper := m[1]
		if helper == "now" {
			continue
		}
		toks := tokens(m[2])
		r := row{Group: group, Helper: helper, Arg: val{Tag: "-"}, LoaderDefault: val{Tag: "-"}, FType: "unknown"}
		if len(toks) >= 2 && toks[0] == ".Data" {
			r.Field = literal(toks[1]).S
			rest := toks[2:]
			if helper == "conditional" {
				r.OldKey = r.Field
				if len(rest) > 0 {
					r.Arg = literal(rest[0])
				}
			} else {
				if len(rest) > 0 {
					r.OldKey = literal(rest[0]).S
					rest = rest[1:]
				}
				if helper == "choice" && len(rest) > 0 && strings.HasPrefix(rest[0], "(makeSlice") {
					for _, c := range tokens(strings.TrimSuffix(strings.TrimPrefix(rest[0], "(makeSlice"), ")")) {
						r.Choices = append(r.Choices, literal(c).S)
					}
					rest = rest[1:]
				}
				if len(rest) > 0 {
					r.Arg = literal(rest[0])
				}
			}
		} else {
			r.Field = "?" + strings.Join(toks, "_")
		}
		if f := meta.GetField(group + "." + r.Field); f != nil {
			r.FType = f.Type
			r.Validations = f.Validations
			r.FieldChoices = f.Choices
		}
		if v, ok := readField(main, r.Group, r.Field); ok {
			r.LoaderDefault = v
		}
		rows = append(rows, r)
	}
	tableCache = rows
	return rows
}

func yamlName(f reflect.StructField) string {
	return strings.Split(f.Tag.Get("yaml"), ",")[0]
}

func fieldByYAML(v reflect.Value, name string) (reflect.Value, bool) {
	for v.Kind() == reflect.Ptr {
		if v.IsNil() {
			return reflect.Value{}, false
		}
		v = v.Elem()
	}
	if v.Kind() != reflect.Struct {
		return reflect.Value{}, false
	}
	t := v.Type()
	for i := 0; i < t.NumField(); i++ {
		if yamlName(t.Field(i)) == name {
			return v.Field(i), true
		}
	}
	return reflect.Value{}, false
}

// canon renders a loaded Go value in the transcript encoding.
func canon(v reflect.Value) val {
	if !v.IsValid() {
		return val{Tag: "-"}
	}
	switch x := v.Interface().(type) {
	case config.Duration:
		return val{Tag: "d", N: int64(x)}
	case config.MemorySize:
		return val{Tag: "m", N: int64(x)}
	case *config.DefaultTrue:
		if x.Get() {
			return val{Tag: "b", N: 1}
		}
		return val{Tag: "b"}
	case config.Level:
		return val{Tag: "s", S: x.String()}
	case []string:
		return val{Tag: "l", L: x}
	case map[string]string:
		var kv []string
		for k, s := range x {
			kv = append(kv, kit.Enc(k)+"="+kit.Enc(s))
		}
		sort.Strings(kv)
		return val{Tag: "t", L: kv}
	}
	switch v.Kind() {
	case reflect.String:
		return val{Tag: "s", S: v.String()}
	case reflect.Bool:
		if v.Bool() {
			return val{Tag: "b", N: 1}
		}
		return val{Tag: "b"}
	case reflect.Int, reflect.Int64, reflect.Int32:
		return val{Tag: "i", N: v.Int()}
	case reflect.Uint, reflect.Uint64, reflect.Uint32:
		return val{Tag: "i", N: int64(v.Uint())}
	case reflect.Float64:
		return val{Tag: "f", S: strconv.FormatFloat(v.Float(), 'g', -1, 64)}
	case reflect.Interface:
		if v.IsNil() {
			return val{Tag: "nil"}
		}
		return canonAny(v.Interface())
	}
	return val{Tag: "s", S: fmt.Sprintf("?%v", v.Interface())}
}

func canonAny(a any) val {
	switch x := a.(type) {
	case nil:
		return val{Tag: "nil"}
	case string:
		return val{Tag: "s", S: x}
	case bool:
		if x {
			return val{Tag: "b", N: 1}
		}
		return val{Tag: "b"}
	case int:
		return val{Tag: "i", N: int64(x)}
	case int64:
		return val{Tag: "i", N: x}
	case uint64:
		return val{Tag: "i", N: int64(x)}
	case float64:
		return val{Tag: "f", S: strconv.FormatFloat(x, 'g', -1, 64)}
	}
	return val{Tag: "s", S: fmt.Sprintf("?%v", a)}
}

func readField(main any, group, field string) (val, bool) {
	g, ok := fieldByYAML(reflect.ValueOf(main), group)
	if !ok {
		return val{}, false
	}
	f, ok := fieldByYAML(g, field)
	if !ok {
		return val{}, false
	}
	return canon(f), true
}

// ---------------------------------------------------------------------------------------------
// facts -> lean/Refinery/Gen/Convert.lean

func leanStr(s string) string {
	var b strings.Builder
	b.WriteByte('"')
	for _, r := range s {
		switch {
		case r == '"':
			b.WriteString(`\"`)
		case r == '\\':
			b.WriteString(`\\`)
		case r == '\n':
			b.WriteString(`\n`)
		case r == '\t':
			b.WriteString(`\t`)
		case r < 0x20:
			fmt.Fprintf(&b, `\x%02x`, r)
		default:
			b.WriteRune(r)
		}
	}
	b.WriteByte('"')
	return b.String()
}

func leanStrs(l []string) string {
	if len(l) == 0 {
		return "([] : List String)"
	}
	q := make([]string, len(l))
	for i, s := range l {
		q[i] = leanStr(s)
	}
	return "[" + strings.Join(q, ", ") + "]"
}

// a value as a Lean tuple (tag, string, number, list)
func leanVal(v val) string {
	n := v.N
	if n < 0 {
		n = 0
	}
	return fmt.Sprintf("(%s, %s, %d, %s)", leanStr(v.Tag), leanStr(v.S), n, leanStrs(v.L))
}

type sfield struct {
	Struct, JSON, YAML, Kind string
	Default                  val
	Required                 bool // `validate` tag says required / gte=1
}

func kindOf(t reflect.Type) string {
	switch t {
	case reflect.TypeOf(config.Duration(0)):
		return "dur"
	}
	switch t.Kind() {
	case reflect.Int, reflect.Int64, reflect.Int32, reflect.Uint, reflect.Uint64, reflect.Uint32:
		return "int"
	case reflect.Bool:
		return "bool"
	case reflect.String:
		return "string"
	case reflect.Float64:
		return "float"
	case reflect.Interface:
		return "any"
	case reflect.Slice:
		if t.Elem().Kind() == reflect.String {
			return "strs"
		}
		return "list"
	case reflect.Ptr:
		return "ptr"
	}
	return "other"
}

// samplerFields reflects the structs readV1RulesIntoV2Sampler unmarshals into: the json tag is the
// (lower-case) v1 name, the yaml tag the v2 name.
func samplerFields() []sfield {
	var out []sfield
	add := func(name string, proto any) {
		t := reflect.TypeOf(proto)
		for i := 0; i < t.NumField(); i++ {
			f := t.Field(i)
			j := strings.Split(f.Tag.Get("json"), ",")[0]
			y := yamlName(f)
			if j == "-" || j == "" || y == "-" || y == "" {
				continue
			}
			k := kindOf(f.Type)
			d := val{Tag: "-"}
			if dt, ok := f.Tag.Lookup("default"); ok {
				switch k {
				case "int":
					n, _ := strconv.ParseInt(dt, 10, 64)
					d = val{Tag: "i", N: n}
				case "string":
					d = val{Tag: "s", S: dt}
				case "bool":
					d = val{Tag: "b"}
					if dt == "true" {
						d.N = 1
					}
				case "dur":
					dd, _ := time.ParseDuration(dt)
					d = val{Tag: "d", N: int64(dd)}
				default:
					d = val{Tag: "s", S: dt}
				}
			}
			vt := f.Tag.Get("validate")
			out = append(out, sfield{name, j, y, k, d, strings.Contains(vt, "required") || strings.Contains(vt, "gte=1")})
		}
	}
	add("DeterministicSampler", config.DeterministicSamplerConfig{})
	add("DynamicSampler", config.DynamicSamplerConfig{})
	add("EMADynamicSampler", config.EMADynamicSamplerConfig{})
	add("TotalThroughputSampler", config.TotalThroughputSamplerConfig{})
	add("EMAThroughputSampler", config.EMAThroughputSamplerConfig{})
	add("WindowedThroughputSampler", config.WindowedThroughputSamplerConfig{})
	add("RulesBasedSampler", config.RulesBasedSamplerConfig{})
	add("@rule", config.RulesBasedSamplerRule{})
	add("@cond", config.RulesBasedSamplerCondition{})
	add("@down", config.RulesBasedDownstreamSampler{})
	return out
}

// depKeys lists what removeDeprecated looks for: the `_fetch` patterns of every deprecated field
// (current location, then the v1 location when both v1group and v1name are declared; legacy = only
// the latter) and the deprecated groups.
func depKeys() (keys []string, groups []string, legacy []string) {
	meta := loadConfigMetadata()
	for _, g := range meta.Groups {
		for _, f := range g.Fields {
			if f.GetLastVersion() == "" {
				continue
			}
			keys = append(keys, g.Name+"."+f.Name)
			if f.V1Group != "" && f.V1Name != "" {
				keys = append(keys, f.V1Group+"."+f.V1Name)
				legacy = append(legacy, f.V1Group+"."+f.V1Name)
			}
		}
		if g.IsDeprecated() && g.GetDeprecationVersion() != "" {
			groups = append(groups, g.Name)
		}
	}
	return
}

// argEff is the template's default literal of a row read the way the loader reads the field
// (durations through time.ParseDuration, memory sizes through MemorySize.UnmarshalText).
func argEff(r row) val {
	a := r.Arg
	if a.Tag != "s" {
		return a
	}
	switch r.FType {
	case "duration":
		if d, err := time.ParseDuration(a.S); err == nil {
			return val{Tag: "d", N: int64(d)}
		}
	case "memorysize":
		var m config.MemorySize
		if err := m.UnmarshalText([]byte(a.S)); err == nil && a.S != "" {
			return val{Tag: "m", N: int64(m)}
		}
	}
	return a
}

func facts() map[string]string {
	m := map[string]string{}
	var rs []string
	for _, r := range table() {
		rs = append(rs, fmt.Sprintf("(%s, %s, %s, %s, %s, %s, %s, %s, %s)",
			leanStr(r.Group), leanStr(r.Field), leanStr(r.OldKey), leanStr(r.Helper), leanVal(r.Arg),
			leanStrs(r.Choices), leanStr(r.FType), leanVal(r.LoaderDefault), leanVal(argEff(r))))
	}
	m["rows"] = "[" + strings.Join(rs, ", ") + "]"
	dk, dg, _ := depKeys()
	top := func(l []string) string { // a top-level fact must start with '[' to be copied as a Lean list
		if len(l) == 0 {
			return "[] ++ ([] : List String)"
		}
		return leanStrs(l)
	}
	m["depKeys"] = top(dk)
	m["depGroups"] = top(dg)
	var sf []string
	for _, f := range samplerFields() {
		sf = append(sf, fmt.Sprintf("(%s, %s, %s, %s, %s)", leanStr(f.Struct), leanStr(f.JSON), leanStr(f.YAML), leanStr(f.Kind), leanVal(f.Default)))
	}
	m["samplerFields"] = "[" + strings.Join(sf, ", ") + "]"
	sizes, names, parsed := config.VerifConvertMemUnits()
	var mu []string
	for i := range sizes {
		mu = append(mu, fmt.Sprintf("(%d, %s, %d)", sizes[i], leanStr(names[i]), parsed[i]))
	}
	m["memUnits"] = "[" + strings.Join(mu, ", ") + "]"
	return m
}

// ---------------------------------------------------------------------------------------------
// Runner

var caseSeq int

type rule struct {
	fields map[string]any
	conds  map[int]map[string]any
	down   map[string]map[string]any
}

type runner struct {
	kind, format string
	dir          string
	// config: decoded v1 data
	data map[string]any
	// rules: dataset ("" = top level) -> fields / rules
	rfields map[string]map[string]any
	rrules  map[string]map[int]*rule
	order   []string

	converted bool
	out       []byte
	loaded    bool
	main      any
	rules     *config.V2SamplerConfig
}

func (comp) NewCase(h []string) kit.Runner {
	caseSeq++
	base := filepath.Join(os.TempDir(), "C38")
	os.MkdirAll(base, 0o755)
	dir, err := os.MkdirTemp(base, fmt.Sprintf("case-%d-%d-", os.Getpid(), caseSeq))
	if err != nil {
		panic(err)
	}
	return &runner{kind: kit.KV(h, "kind"), format: kit.KV(h, "fmt"), dir: dir,
		data: map[string]any{}, rfields: map[string]map[string]any{}, rrules: map[string]map[int]*rule{}}
}

func (r *runner) Close() { os.RemoveAll(r.dir) }

// yamlTag says how yaml.v3 reads the text s when it is written as a block sequence item without
// any quoting (`- s`): str (the same string), "strx <enc t>" (a different string t), int, bool,
// null, float, other (a collection), err (not YAML).
func yamlTag(s string) string {
	var out []any
	if err := yaml.Unmarshal([]byte("- "+s+"\n"), &out); err != nil {
		return "err"
	}
	if len(out) != 1 {
		return "other"
	}
	switch x := out[0].(type) {
	case string:
		if x == s {
			return "str"
		}
		return "strx " + kit.Enc(x) // a different string: a plain scalar loses its edge blanks
	case int, int64, uint64:
		return "int"
	case bool:
		return "bool"
	case nil:
		return "null"
	case float64:
		return "float"
	}
	return "other"
}

func emitStringFacts(s string) {
	d, err := time.ParseDuration(s)
	if err != nil {
		kit.Ext("dur %s = err", kit.Enc(s))
	} else {
		kit.Ext("dur %s = %d", kit.Enc(s), int64(d))
	}
	kit.Ext("yaml %s = %s", kit.Enc(s), yamlTag(s))
}

func emitFacts(v val) {
	switch v.Tag {
	case "s":
		emitStringFacts(v.S)
	case "l":
		for _, s := range v.L {
			emitStringFacts(s)
		}
	case "t":
		for _, kv := range v.L {
			if p := strings.SplitN(kv, "=", 2); len(p) == 2 {
				emitStringFacts(kit.Dec(p[0]))
				emitStringFacts(kit.Dec(p[1]))
			}
		}
	}
}

func (r *runner) rule(ds string, i int) *rule {
	if r.rrules[ds] == nil {
		r.rrules[ds] = map[int]*rule{}
	}
	if r.rrules[ds][i] == nil {
		r.rrules[ds][i] = &rule{fields: map[string]any{}, conds: map[int]map[string]any{}, down: map[string]map[string]any{}}
	}
	return r.rrules[ds][i]
}

func (r *runner) dataset(ds string) map[string]any {
	if r.rfields[ds] == nil {
		r.rfields[ds] = map[string]any{}
		r.order = append(r.order, ds)
	}
	return r.rfields[ds]
}

func dsName(tok string) string {
	if tok == "-" {
		return ""
	}
	return kit.Dec(tok)
}

// v1RulesTree assembles the nested map a v1 rules file decodes to.
func (r *runner) v1RulesTree() map[string]any {
	build := func(ds string) map[string]any {
		m := map[string]any{}
		for k, v := range r.rfields[ds] {
			m[k] = v
		}
		if rs := r.rrules[ds]; len(rs) > 0 {
			var idx []int
			for i := range rs {
				idx = append(idx, i)
			}
			sort.Ints(idx)
			var list []any
			for _, i := range idx {
				ru := rs[i]
				rm := map[string]any{}
				for k, v := range ru.fields {
					rm[k] = v
				}
				if len(ru.conds) > 0 {
					var cidx []int
					for j := range ru.conds {
						cidx = append(cidx, j)
					}
					sort.Ints(cidx)
					var cl []any
					for _, j := range cidx {
						cl = append(cl, ru.conds[j])
					}
					rm["condition"] = cl
				}
				if len(ru.down) > 0 {
					sm := map[string]any{}
					for st, f := range ru.down {
						sm[st] = f
					}
					rm["sampler"] = sm
				}
				list = append(list, rm)
			}
			m["rule"] = list
		}
		return m
	}
	top := build("")
	for ds := range r.rfields {
		if ds != "" {
			top[ds] = build(ds)
		}
	}
	for ds := range r.rrules {
		if ds != "" && r.rfields[ds] == nil {
			top[ds] = build(ds)
		}
	}
	return top
}

func (r *runner) writeV1() (string, error) {
	var tree map[string]any
	if r.kind == "rules" {
		tree = r.v1RulesTree()
	} else {
		tree = r.data
	}
	var b []byte
	var err error
	ext := ".toml"
	switch r.format {
	case "Y":
		ext = ".yaml"
		b, err = yaml.Marshal(tree)
	default:
		b, err = toml.Marshal(tree)
	}
	if err != nil {
		return "", err
	}
	p := filepath.Join(r.dir, "v1"+ext)
	return p, os.WriteFile(p, b, 0o644)
}

var errFieldRe = regexp.MustCompile(`field ([A-Za-z0-9_.\[\]]+)`)
var indexRe = regexp.MustCompile(`\[[^\]]*\]`)

// errClass maps a validator message to (class, field) — stable tokens only.
func errClass(msg string) (string, string) {
	field := "-"
	if m := errFieldRe.FindAllStringSubmatch(msg, -1); len(m) > 0 {
		field = indexRe.ReplaceAllString(m[len(m)-1][1], "") // innermost field, without list indices
	}
	cls := "other"
	switch {
	case strings.Contains(msg, "unknown group"), strings.Contains(msg, "unknown field"):
		cls = "unknown-name"
		field = "-"
	case strings.Contains(msg, "missing required field"):
		cls = "missing-required"
		field = "-"
	case strings.Contains(msg, "must not be nil"):
		cls = "nil-value"
	case strings.Contains(msg, "must be a string array but contains non-string"):
		cls = "non-string-item"
	case strings.Contains(msg, "must be a string array"):
		cls = "not-a-list"
	case strings.Contains(msg, "must be a string but"), strings.Contains(msg, "must be a hostport"), strings.Contains(msg, "must be a URL"):
		cls = "not-a-string"
	case strings.Contains(msg, "must be an int"):
		cls = "not-an-int"
	case strings.Contains(msg, "must be a bool"):
		cls = "not-a-bool"
	case strings.Contains(msg, "valid duration"):
		cls = "bad-duration"
	case strings.Contains(msg, "valid memory size"):
		cls = "bad-memorysize"
	case strings.Contains(msg, "must be at least"), strings.Contains(msg, "must be at most"):
		cls = "out-of-range"
	case strings.Contains(msg, "API key"), strings.Contains(msg, "alphanumeric"), strings.Contains(msg, "must be one of"):
		cls = "bad-format"
	}
	return cls, field
}

func (r *runner) Do(op []string) (string, bool) {
	argn := func(i int) int { n, _ := strconv.Atoi(op[i]); return n }
	switch op[0] {
	case "set": // set <v1key> <val>
		v := parseVal(op[2])
		emitFacts(v)
		key := op[1]
		if i := strings.IndexByte(key, '.'); i >= 0 {
			g, f := key[:i], key[i+1:]
			sub, _ := r.data[g].(map[string]any)
			if sub == nil {
				sub = map[string]any{}
				r.data[g] = sub
			}
			sub[f] = v.goValue()
		} else {
			r.data[key] = v.goValue()
		}
		return "", false
	case "rset": // rset <ds> <key> <val>
		v := parseVal(op[3])
		emitFacts(v)
		r.dataset(dsName(op[1]))[kit.Dec(op[2])] = v.goValue()
		return "", false
	case "rrule": // rrule <ds> <i> <key> <val>
		v := parseVal(op[4])
		emitFacts(v)
		r.rule(dsName(op[1]), argn(2)).fields[kit.Dec(op[3])] = v.goValue()
		return "", false
	case "rcond": // rcond <ds> <i> <j> <key> <val>
		v := parseVal(op[5])
		emitFacts(v)
		ru := r.rule(dsName(op[1]), argn(2))
		if ru.conds[argn(3)] == nil {
			ru.conds[argn(3)] = map[string]any{}
		}
		ru.conds[argn(3)][kit.Dec(op[4])] = v.goValue()
		return "", false
	case "rdown": // rdown <ds> <i> <samplertype> <key> <val>
		v := parseVal(op[5])
		emitFacts(v)
		ru := r.rule(dsName(op[1]), argn(2))
		st := kit.Dec(op[3])
		if ru.down[st] == nil {
			ru.down[st] = map[string]any{}
		}
		ru.down[st][kit.Dec(op[4])] = v.goValue()
		return "", false
	case "convert":
		in, err := r.writeV1()
		if err != nil {
			return "harness-error " + kit.Enc(err.Error()), true
		}
		outp := filepath.Join(r.dir, "v2.yaml")
		self, _ := os.Executable()
		sub := "config"
		if r.kind == "rules" {
			sub = "rules"
		}
		cmd := exec.Command(self, sub, "--input", in, "--output", outp)
		var stderr bytes.Buffer
		cmd.Stderr = &stderr
		cmd.Stdout = nil
		cmd.Dir = r.dir
		cmd.Env = append(os.Environ(), "GOMAXPROCS=2")
		rc := 0
		if err := cmd.Run(); err != nil {
			if ee, ok := err.(*exec.ExitError); ok {
				rc = ee.ExitCode()
			} else {
				rc = -1
			}
		}
		r.out, _ = os.ReadFile(outp)
		r.converted = true
		if os.Getenv("VERIF_DEBUG") != "" {
			v1b, _ := os.ReadFile(in)
			fmt.Fprintf(os.Stderr, "--- v1 ---\n%s\n--- rc=%d stderr ---\n%s\n--- v2 (uncommented lines) ---\n", v1b, rc, stderr.String())
			for _, l := range strings.Split(string(r.out), "\n") {
				t := strings.TrimSpace(l)
				if t != "" && (!strings.HasPrefix(t, "#") || strings.HasPrefix(t, "# The following") || strings.HasPrefix(t, "# -")) {
					fmt.Fprintln(os.Stderr, l)
				}
			}
		}
		kind := "converted"
		switch {
		case len(bytes.TrimSpace(r.out)) == 0:
			kind = "empty"
		case bytes.HasPrefix(r.out, []byte("# The following deprecated config options were removed")):
			kind = "dump"
		}
		if rc != 0 {
			cls := "other"
			switch {
			case strings.Contains(stderr.String(), "template error"):
				cls = "template-error"
			case strings.Contains(stderr.String(), "panic:"):
				cls = "panic"
			}
			kit.Ext("abort %s", cls)
		}
		if rc != 0 {
			rc = 1 // exit statuses other than 0 are not distinguished (panic = 2, os.Exit(1))
			kind = "aborted"
			r.out = nil // whatever was written before the converter died is not a v2 file
		}
		return fmt.Sprintf("exit=%d kind=%s", rc, kind), true
	case "load":
		if !r.converted {
			return "not-converted", true
		}
		var fatal string
		var msgs []string
		if r.kind == "rules" {
			r.main, r.rules, fatal, msgs = config.VerifConvertLoad(minimalConfig, r.out)
		} else {
			r.main, r.rules, fatal, msgs = config.VerifConvertLoad(r.out, minimalRules)
		}
		if fatal == "" {
			r.loaded = true
			return "ok", true
		}
		r.loaded = false
		if fatal == "error" {
			cls := "load-error"
			if len(msgs) > 0 && strings.Contains(msgs[0], "yaml:") {
				cls = "yaml-syntax"
			}
			kit.Ext("loaderr %s -", cls)
		} else {
			seen := map[string]bool{}
			for _, m := range msgs {
				c, f := errClass(m)
				k := c + " " + f
				if !seen[k] {
					seen[k] = true
					kit.Ext("loaderr %s %s", c, kit.Enc(f))
				}
			}
			if os.Getenv("VERIF_DEBUG") != "" {
				fmt.Fprintln(os.Stderr, "validation:", msgs)
			}
		}
		return "fail", true
	case "get": // get <Group.Field>
		if !r.loaded {
			return "unloaded", true
		}
		p := strings.SplitN(op[1], ".", 2)
		if len(p) != 2 {
			return "bad-op", true
		}
		v, ok := readField(r.main, p[0], p[1])
		if !ok {
			return "no-such-field", true
		}
		return v.String(), true
	case "rget", "rgetrule", "rgetcond", "rgetdown":
		if !r.loaded {
			return "unloaded", true
		}
		return r.rget(op), true
	}
	return "bad-op", true
}

// rget reads the loaded v2 rules by yaml names.
//
//	rget <ds> <Field|@type|@present|@rules>
//	rgetrule <ds> <i> <Field|@conds>
//	rgetcond <ds> <i> <j> <Field>
//	rgetdown <ds> <i> <Field|@type>
func (r *runner) rget(op []string) string {
	argn := func(i int) int { n, _ := strconv.Atoi(op[i]); return n }
	name := dsName(op[1])
	if name == "" {
		name = "__default__"
	}
	var ch *config.V2SamplerChoice
	if r.rules != nil {
		ch = r.rules.Samplers[name]
	}
	what := op[len(op)-1]
	if op[0] == "rget" && what == "@present" {
		if ch != nil {
			return "b:true"
		}
		return "b:false"
	}
	if ch == nil {
		return "absent"
	}
	s, stype := ch.Sampler()
	if s == nil {
		return "absent"
	}
	sv := reflect.ValueOf(s)
	switch op[0] {
	case "rget":
		switch what {
		case "@type":
			return val{Tag: "s", S: stype}.String()
		case "@rules":
			if rb, ok := s.(*config.RulesBasedSamplerConfig); ok {
				return val{Tag: "i", N: int64(len(rb.Rules))}.String()
			}
			return "i:0"
		}
		f, ok := fieldByYAML(sv, what)
		if !ok {
			return "no-such-field"
		}
		return canon(f).String()
	}
	rb, ok := s.(*config.RulesBasedSamplerConfig)
	if !ok || argn(2) >= len(rb.Rules) || rb.Rules[argn(2)] == nil {
		return "absent"
	}
	ru := rb.Rules[argn(2)]
	switch op[0] {
	case "rgetrule":
		if what == "@conds" {
			return val{Tag: "i", N: int64(len(ru.Conditions))}.String()
		}
		f, ok := fieldByYAML(reflect.ValueOf(ru), what)
		if !ok {
			return "no-such-field"
		}
		return canon(f).String()
	case "rgetcond":
		if argn(3) >= len(ru.Conditions) || ru.Conditions[argn(3)] == nil {
			return "absent"
		}
		f, ok := fieldByYAML(reflect.ValueOf(ru.Conditions[argn(3)]), what)
		if !ok {
			return "no-such-field"
		}
		return canon(f).String()
	case "rgetdown":
		if ru.Sampler == nil {
			return "absent"
		}
		dv := reflect.ValueOf(ru.Sampler).Elem()
		for i := 0; i < dv.NumField(); i++ {
			if dv.Field(i).Kind() == reflect.Ptr && !dv.Field(i).IsNil() {
				if what == "@type" {
					return val{Tag: "s", S: yamlName(dv.Type().Field(i))}.String()
				}
				f, ok := fieldByYAML(dv.Field(i), what)
				if !ok {
					return "no-such-field"
				}
				return canon(f).String()
			}
		}
		return "absent"
	}
	return "bad-op"
}
