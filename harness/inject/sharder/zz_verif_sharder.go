//go:build verif

package sharder

// Accessors for the C17 harness (component `sharder`).  Unexported names touched:
// peerSeed, DeterministicSharder.{peers,hashes,myShard,peerLock}, hashShard.{uhash,shardIndex}.

// VerifPeerSeed is the seed of the partition-hash sequence.
func VerifPeerSeed() uint64 { return peerSeed }

// VerifTable returns the partition table exactly as WhichShard scans it.
func (d *DeterministicSharder) VerifTable() (uhash []uint64, shardIndex []int) {
	d.peerLock.RLock()
	defer d.peerLock.RUnlock()
	for _, h := range d.hashes {
		uhash = append(uhash, h.uhash)
		shardIndex = append(shardIndex, h.shardIndex)
	}
	return
}

// VerifPeers returns the sorted peer list the sharder currently holds.
func (d *DeterministicSharder) VerifPeers() []string {
	d.peerLock.RLock()
	defer d.peerLock.RUnlock()
	out := make([]string, len(d.peers))
	for i, p := range d.peers {
		out[i] = string(p)
	}
	return out
}

// VerifRLock / VerifRUnlock take and release peerLock's read lock, exactly as an in-flight
// WhichShard does.
func (d *DeterministicSharder) VerifRLock()   { d.peerLock.RLock() }
func (d *DeterministicSharder) VerifRUnlock() { d.peerLock.RUnlock() }

// VerifWriterPending reports whether a writer holds or waits for peerLock (a new reader would
// block).  Safe to call while holding the read lock.
func (d *DeterministicSharder) VerifWriterPending() bool {
	if d.peerLock.TryRLock() {
		d.peerLock.RUnlock()
		return false
	}
	return true
}
