//go:build verif

package health

import "time"

// VerifDump returns copies of the per-subsystem countdowns and ready flags (verification
// harness only; compiled in through `go build -tags verif -overlay`, never part of /repo).
// Unexported names touched: mut, timeLeft, readies.
func (h *Health) VerifDump() (map[string]time.Duration, map[string]bool) {
	h.mut.RLock()
	defer h.mut.RUnlock()
	tl := make(map[string]time.Duration, len(h.timeLeft))
	for k, v := range h.timeLeft {
		tl[k] = v
	}
	rd := make(map[string]bool, len(h.readies))
	for k, v := range h.readies {
		rd[k] = v
	}
	return tl, rd
}
