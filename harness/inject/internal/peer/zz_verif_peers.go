//go:build verif

package peer

import (
	"github.com/jonboulle/clockwork"
)

// Verification accessors for RedisPubsubPeers (property C18); compiled in through
// `go build -tags verif -overlay`, never part of /repo.
// Unexported names touched: RedisPubsubPeers.peers, newPeerCommand, peerAction, peerCommand
// (marshal, unmarshal, action, address, id), refreshCacheInterval.

// VerifPeersUseClock gives the peer map a (fake) clock.  Start() has no way to inject one and has
// already stamped the entries it wrote (the node's own) with the wall clock, so whatever the map
// holds at this point is written again, through the real Set, under the new clock.
func (p *RedisPubsubPeers) VerifPeersUseClock(c clockwork.Clock) {
	p.peers.Clock = c
	for k, it := range p.peers.Items {
		p.peers.Set(k, it.Value)
	}
}

// VerifPeersConsts returns PeerEntryTimeout, refreshCacheInterval and the exclusive upper bound of
// the refresh jitter (the argument Ready() passes to rand.Int63n), in nanoseconds.
func VerifPeersConsts() (ttl, refresh, jitter int64) {
	return int64(PeerEntryTimeout), int64(refreshCacheInterval), int64(refreshCacheInterval / 5)
}

// VerifPeersMarshal is newPeerCommand(action, address, id).marshal().
func VerifPeersMarshal(action, address, id string) string {
	return newPeerCommand(peerAction(action), address, id).marshal()
}

// VerifPeersUnmarshal is (&peerCommand{}).unmarshal(msg) and the fields it filled in.
func VerifPeersUnmarshal(msg string) (ok bool, action, address, id string) {
	cmd := &peerCommand{}
	ok = cmd.unmarshal(msg)
	return ok, string(cmd.action), cmd.address, cmd.id
}
