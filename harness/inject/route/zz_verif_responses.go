//go:build verif

package route

import (
	"context"
	"fmt"
	"net/http"
	"time"
)

// Accessors for the `responses` harness (property C23).
// Unexported names touched: Router.server, Router.event, Router.batch, Router.environmentCache,
// newEnvironmentCache, Router.lookupEnvironment, customTraceExportHandler, handlerError.status.

// VerifResponsesHandler is the handler LnS installed on the HTTP server: the real mux with the real
// middleware chain, sub-routers and the otelhttp wrappers.
func VerifResponsesHandler(r *Router) http.Handler { return r.server.Handler }

// VerifResponsesEvent calls the /1/events handler function itself (as the repo's unit tests do with
// mux.SetURLVars), without the mux in front of it.
func VerifResponsesEvent(r *Router, w http.ResponseWriter, req *http.Request) { r.event(w, req) }

// VerifResponsesBatch calls the /1/batch handler function itself.
func VerifResponsesBatch(r *Router, w http.ResponseWriter, req *http.Request) { r.batch(w, req) }

// VerifResponsesRealEnvCache reinstalls what LnS installs: an environment cache in front of the
// router's own lookupEnvironment (a GET of <HoneycombAPI>/1/auth through proxyClient).
func VerifResponsesRealEnvCache(r *Router) {
	r.environmentCache = newEnvironmentCache(time.Hour, r.lookupEnvironment)
}

// VerifResponsesTraceExport calls the gRPC trace Export method handler (customTraceExportHandler, the
// function registered in the service descriptor) the way grpc-go does: ctx carries the incoming
// metadata, dec hands the request bytes to the message's Unmarshal method.
func VerifResponsesTraceExport(srv *TraceServer, ctx context.Context, data []byte) (any, error) {
	dec := func(m any) error {
		u, ok := m.(interface{ Unmarshal([]byte) error })
		if !ok {
			return fmt.Errorf("request message %T has no Unmarshal", m)
		}
		return u.Unmarshal(data)
	}
	return customTraceExportHandler(srv, ctx, dec, nil)
}

// VerifResponsesStatuses are the HTTP statuses of the handlerError values the ingestion handlers
// answer with.
func VerifResponsesStatuses() map[string]int {
	return map[string]int{
		"stPostBody":     ErrPostBody.status,
		"stReqToEvent":   ErrReqToEvent.status,
		"stBatchToEvent": ErrBatchToEvent.status,
		"stAuthInvalid":  ErrAuthInvalid.status,
	}
}
