//go:build verif

package route

import (
	"context"
	"net/http"
	"time"

	huskyotlp "github.com/honeycombio/husky/otlp"
)

// Accessors for the `samplersel` harness (property C14).
// Unexported names touched: Router.iopLogger, Router.registerMetricNames, Router.zstdDecoder,
// makeDecoders, Router.batch, Router.processOTLPRequestBatchMsgp, Router.proxyClient,
// Router.environmentCache, newEnvironmentCache, Router.lookupEnvironment.

// VerifSamplerselInit does the part of LnS that the handlers rely on, without opening a listener.
func VerifSamplerselInit(r *Router) error {
	r.iopLogger = iopLogger{Logger: r.Logger, incomingOrPeer: r.routerType.String()}
	var err error
	r.zstdDecoder, err = makeDecoders(0)
	if err != nil {
		return err
	}
	r.registerMetricNames()
	r.proxyClient = &http.Client{Timeout: 10 * time.Second, Transport: r.HTTPTransport}
	VerifSamplerselResetEnvCache(r)
	return nil
}

// VerifSamplerselResetEnvCache installs a fresh environment cache over the router's real
// lookupEnvironment (the GET /1/auth call against Config.GetHoneycombAPI()), exactly as LnS does.
func VerifSamplerselResetEnvCache(r *Router) {
	r.environmentCache = newEnvironmentCache(r.Config.GetEnvironmentCacheTTL(), r.lookupEnvironment)
}

// VerifSamplerselBatch is the /1/batch/{datasetName} handler itself.
func VerifSamplerselBatch(r *Router, w http.ResponseWriter, req *http.Request) { r.batch(w, req) }

// VerifSamplerselOTLP is the msgpack OTLP ingestion path (after husky's translation).
func VerifSamplerselOTLP(r *Router, batches []huskyotlp.BatchMsgp, apiKey string) error {
	return r.processOTLPRequestBatchMsgp(context.Background(), batches, apiKey, "")
}
