//go:build verif

package route

import (
	"context"
	"net/http"

	huskyotlp "github.com/honeycombio/husky/otlp"
)

// Accessors for the `samplersel` harness (property C14).
// Unexported names touched: Router.iopLogger, Router.registerMetricNames, Router.zstdDecoder,
// makeDecoders, Router.batch, Router.processOTLPRequestBatchMsgp.

// VerifSamplerselInit does the part of LnS that the handlers rely on, without opening a listener.
// The environment cache is installed by the caller with the exported SetEnvironmentCache.
func VerifSamplerselInit(r *Router) error {
	r.iopLogger = iopLogger{Logger: r.Logger, incomingOrPeer: r.routerType.String()}
	var err error
	r.zstdDecoder, err = makeDecoders(0)
	if err != nil {
		return err
	}
	r.registerMetricNames()
	return nil
}

// VerifSamplerselBatch is the /1/batch/{datasetName} handler itself.
func VerifSamplerselBatch(r *Router, w http.ResponseWriter, req *http.Request) { r.batch(w, req) }

// VerifSamplerselOTLP is the msgpack OTLP ingestion path (after husky's translation).
func VerifSamplerselOTLP(r *Router, batches []huskyotlp.BatchMsgp, apiKey string) error {
	return r.processOTLPRequestBatchMsgp(context.Background(), batches, apiKey, "")
}
