//go:build verif

package route

import (
	"github.com/honeycombio/refinery/collect"
	"github.com/honeycombio/refinery/config"
	"github.com/honeycombio/refinery/logger"
	"github.com/honeycombio/refinery/metrics"
	"github.com/honeycombio/refinery/sharder"
	"github.com/honeycombio/refinery/transmit"
	"github.com/honeycombio/refinery/types"
)

// Accessors for the C16 harness (vh_stressroute).  Unexported names touched:
// Router.{routerType, iopLogger}, registerMetricNames, processEvent.

// VerifStressrouteNew builds a Router as far as processEvent needs it (no listeners are started).
func VerifStressrouteNew(cfg config.Config, lg logger.Logger, met metrics.Metrics,
	upstream, peer transmit.Transmission, coll collect.Collector, sh sharder.Sharder,
	rt types.RouterType) *Router {
	r := &Router{
		Config:               cfg,
		Logger:               lg,
		Metrics:              met,
		UpstreamTransmission: upstream,
		PeerTransmission:     peer,
		Collector:            coll,
		Sharder:              sh,
		routerType:           rt,
		iopLogger:            iopLogger{Logger: lg, incomingOrPeer: rt.String()},
	}
	r.registerMetricNames()
	return r
}

// VerifStressrouteProcessEvent is the router's per-event routing (what every handler calls for
// each event of a request).
func (r *Router) VerifStressrouteProcessEvent(ev *types.Event) error {
	return r.processEvent(ev, "verif")
}
