//go:build verif

package route

import (
	"context"
	"net/http"

	huskyotlp "github.com/honeycombio/husky/otlp"

	"github.com/honeycombio/refinery/collect"
	"github.com/honeycombio/refinery/config"
	"github.com/honeycombio/refinery/logger"
	"github.com/honeycombio/refinery/metrics"
	"github.com/honeycombio/refinery/sharder"
	"github.com/honeycombio/refinery/transmit"
	"github.com/honeycombio/refinery/types"
)

// Accessors for the `encoding` harness (property C09).
// Unexported names touched: Router.{routerType,iopLogger}, registerMetricNames, Router.batch,
// Router.event, Router.processOTLPRequestBatchMsgp.

// VerifEncodingNewRouter builds a Router the way the package's own tests do (no listeners).
func VerifEncodingNewRouter(cfg config.Config, lg logger.Logger, met metrics.Metrics,
	upstream, peer transmit.Transmission, coll collect.Collector, sh sharder.Sharder,
	rt types.RouterType) *Router {
	r := &Router{
		Config:               cfg,
		Logger:               lg,
		Metrics:              met,
		UpstreamTransmission: upstream,
		PeerTransmission:     peer,
		Collector:            coll,
		Sharder:              sh,
		routerType:           rt,
		iopLogger:            iopLogger{Logger: lg, incomingOrPeer: rt.String()},
	}
	r.registerMetricNames()
	return r
}

// VerifEncodingBatch is the /1/batch/{datasetName} handler.
func (r *Router) VerifEncodingBatch(w http.ResponseWriter, req *http.Request) { r.batch(w, req) }

// VerifEncodingEvent is the /1/events/{datasetName} handler.
func (r *Router) VerifEncodingEvent(w http.ResponseWriter, req *http.Request) { r.event(w, req) }

// VerifEncodingOTLP is what postOTLPTrace / the gRPC trace server do with husky's translation of
// an OTLP trace request.
func (r *Router) VerifEncodingOTLP(ctx context.Context, batches []huskyotlp.BatchMsgp, apiKey, userAgent string) error {
	return r.processOTLPRequestBatchMsgp(ctx, batches, apiKey, userAgent)
}
