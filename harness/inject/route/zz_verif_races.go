//go:build verif

package route

// VerifRacesEnvName exposes the environment-cache lookup used by the API-key middleware
// (harness/cmd/races, property C35).
func VerifRacesEnvName(r *Router, apiKey string) (string, error) {
	a, err := r.environmentCache.get(apiKey)
	return a.environment, err
}
