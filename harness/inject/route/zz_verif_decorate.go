//go:build verif

package route

// Accessor for the `decorate` verification harness (property C04, client sample rates).
// Unexported names touched: batchedEvent.getSampleRate.

// VerifDecorateBatchRate is the sample rate the batch endpoint gives an event whose
// `samplerate` field decoded to i.
func VerifDecorateBatchRate(i int64) uint { return (&batchedEvent{SampleRate: i}).getSampleRate() }
