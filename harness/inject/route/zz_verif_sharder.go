//go:build verif

package route

import (
	"github.com/honeycombio/refinery/collect"
	"github.com/honeycombio/refinery/config"
	"github.com/honeycombio/refinery/logger"
	"github.com/honeycombio/refinery/metrics"
	"github.com/honeycombio/refinery/sharder"
	"github.com/honeycombio/refinery/transmit"
	"github.com/honeycombio/refinery/types"
)

// VerifSharderNewRouter builds a Router the way the package's own tests do (no listeners started),
// for the C17 harness.  Unexported names touched: Router.{routerType,iopLogger},
// registerMetricNames, processEvent.
func VerifSharderNewRouter(cfg config.Config, lg logger.Logger, met metrics.Metrics,
	upstream, peer transmit.Transmission, coll collect.Collector, sh sharder.Sharder,
	rt types.RouterType) *Router {
	r := &Router{
		Config:               cfg,
		Logger:               lg,
		Metrics:              met,
		UpstreamTransmission: upstream,
		PeerTransmission:     peer,
		Collector:            coll,
		Sharder:              sh,
		routerType:           rt,
		iopLogger:            iopLogger{Logger: lg, incomingOrPeer: rt.String()},
	}
	r.registerMetricNames()
	return r
}

// VerifSharderProcessEvent runs the router's per-event routing on ev.
func (r *Router) VerifSharderProcessEvent(ev *types.Event) error {
	return r.processEvent(ev, "verif")
}
