//go:build verif

package route

import (
	"net/http"

	"github.com/honeycombio/refinery/collect"
	"github.com/honeycombio/refinery/config"
	"github.com/honeycombio/refinery/logger"
	"github.com/honeycombio/refinery/metrics"
	"github.com/honeycombio/refinery/sharder"
	"github.com/honeycombio/refinery/transmit"
	"github.com/honeycombio/refinery/types"
)

// Accessors for the `payload` harness (properties C21, C20).
// Unexported names touched: Router.{routerType,iopLogger}, registerMetricNames, Router.batch,
// Router.event, Router.processEvent.

// VerifPayloadNewRouter builds a Router the way the package's own tests do (no listeners).
func VerifPayloadNewRouter(cfg config.Config, lg logger.Logger, met metrics.Metrics,
	upstream, peer transmit.Transmission, coll collect.Collector, sh sharder.Sharder,
	rt types.RouterType) *Router {
	r := &Router{
		Config:               cfg,
		Logger:               lg,
		Metrics:              met,
		UpstreamTransmission: upstream,
		PeerTransmission:     peer,
		Collector:            coll,
		Sharder:              sh,
		routerType:           rt,
		iopLogger:            iopLogger{Logger: lg, incomingOrPeer: rt.String()},
	}
	r.registerMetricNames()
	return r
}

// VerifPayloadBatch is the /1/batch/{datasetName} handler.
func (r *Router) VerifPayloadBatch(w http.ResponseWriter, req *http.Request) { r.batch(w, req) }

// VerifPayloadEvent is the /1/events/{datasetName} handler.
func (r *Router) VerifPayloadEvent(w http.ResponseWriter, req *http.Request) { r.event(w, req) }

// VerifPayloadProcessEvent is what processOTLPRequestBatchMsgp does with an unmarshalled event:
// addIncomingUserAgent, then the per-event routing step every ingestion path ends in.
func (r *Router) VerifPayloadProcessEvent(ev *types.Event, userAgent string) error {
	addIncomingUserAgent(ev, userAgent)
	return r.processEvent(ev, "verif")
}
