//go:build verif

package route

import (
	"context"
	"fmt"
	"net/http"
)

// Accessors for the `nocrash` harness (property C28, request fuzzing).
// Unexported names touched: Router.server, customTraceExportHandler.

// VerifNocrashHandler is the handler LnS installed on the HTTP server: the real mux with the real
// middleware chain (panicCatcher included), sub-routers and the otelhttp wrappers.
func VerifNocrashHandler(r *Router) http.Handler { return r.server.Handler }

// VerifNocrashTraceExport calls the gRPC trace Export method handler (the function registered in
// the service descriptor) the way grpc-go does: ctx carries the incoming metadata, dec hands the
// raw request bytes to the message's Unmarshal method.  No recover in between, as in grpc-go.
func VerifNocrashTraceExport(srv *TraceServer, ctx context.Context, data []byte) (any, error) {
	dec := func(m any) error {
		u, ok := m.(interface{ Unmarshal([]byte) error })
		if !ok {
			return fmt.Errorf("request message %T has no Unmarshal", m)
		}
		return u.Unmarshal(data)
	}
	return customTraceExportHandler(srv, ctx, dec, nil)
}
