//go:build verif

package route

import (
	"context"
	"fmt"
	"net/http"
	"time"

	"github.com/gorilla/mux"
)

// Accessors for the `auth` (C24) and `queryauth` (C25) harnesses.
// Unexported names touched: Router.server, Router.environmentCache, newEnvironmentCache, authData,
// customTraceExportHandler, handlerError (fields of ErrAuthNeeded / ErrAuthInvalid).

// VerifAuthHandler is the handler LnS installed on the HTTP server: the real mux with the real
// middleware chain and sub-routers.
func VerifAuthHandler(r *Router) http.Handler { return r.server.Handler }

// VerifAuthMux is the same handler as a *mux.Router so that its routes can be walked.
func VerifAuthMux(r *Router) (*mux.Router, error) {
	m, ok := r.server.Handler.(*mux.Router)
	if !ok {
		return nil, fmt.Errorf("server handler is %T, not *mux.Router", r.server.Handler)
	}
	return m, nil
}

// VerifAuthSetEnvLookup replaces the /1/auth lookup (a network call to Honeycomb) by fn; the real
// environmentCache, getEnvironmentName and getKeyID stay in place.
func VerifAuthSetEnvLookup(r *Router, fn func(key string) (env, keyID string, err error)) {
	r.environmentCache = newEnvironmentCache(time.Hour, func(k string) (authData, error) {
		e, id, err := fn(k)
		return authData{environment: e, keyID: id}, err
	})
}

// VerifAuthTraceExport calls the gRPC trace Export method handler (customTraceExportHandler, the
// function registered in the service descriptor) the way grpc-go does: ctx carries the incoming
// metadata, dec hands the request bytes to the message's Unmarshal method.
func VerifAuthTraceExport(srv *TraceServer, ctx context.Context, data []byte) (any, error) {
	dec := func(m any) error {
		u, ok := m.(interface{ Unmarshal([]byte) error })
		if !ok {
			return fmt.Errorf("request message %T has no Unmarshal", m)
		}
		return u.Unmarshal(data)
	}
	return customTraceExportHandler(srv, ctx, dec, nil)
}

// VerifAuthErrAuthNeeded exposes message and status of the error queryTokenChecker answers with.
func VerifAuthErrAuthNeeded() (string, int) { return ErrAuthNeeded.msg, ErrAuthNeeded.status }

// VerifAuthErrAuthInvalid exposes message and status of the error apiKeyProcessor answers with.
func VerifAuthErrAuthInvalid() (string, int) { return ErrAuthInvalid.msg, ErrAuthInvalid.status }

// VerifAuthQueryChecker builds ONE instance of the query token middleware around next, the way any
// net/http middleware user (and the repo's own TestRouter_queryTokenChecker) does.  gorilla/mux
// happens to call the constructor again for every matched request; an instance that is kept must
// still follow the configuration in force at request time.
func VerifAuthQueryChecker(r *Router, next http.Handler) http.Handler { return r.queryTokenChecker(next) }

// VerifAuthAPIKeyProcessor builds ONE instance of the /1/ API-key middleware around next (kept across
// configuration changes by the harness).
func VerifAuthAPIKeyProcessor(r *Router, next http.Handler) http.Handler { return r.apiKeyProcessor(next) }
