//go:build verif

package route

import (
	"time"

	"github.com/honeycombio/refinery/config"
	"github.com/honeycombio/refinery/types"
)

// VerifEvtimeHeader is getEventTime as the single-event handler calls it.
func VerifEvtimeHeader(s string) time.Time { return getEventTime(s) }

func verifEvtimeBatch(cfg config.Config) *batchedEvents {
	return newBatchedEvents(types.CoreFieldsUnmarshalerOptions{Config: cfg, APIKey: "k", Env: "e", Dataset: "d"})
}

// VerifEvtimeBatchJSON parses a JSON batch body with the real unmarshaller and returns each event's time.
func VerifEvtimeBatchJSON(cfg config.Config, body []byte) ([]time.Time, error) {
	b := verifEvtimeBatch(cfg)
	if err := b.UnmarshalJSON(body); err != nil {
		return nil, err
	}
	out := make([]time.Time, len(b.events))
	for i := range b.events {
		out[i] = b.events[i].getEventTime()
	}
	return out, nil
}

// VerifEvtimeBatchMsgp does the same for a msgpack batch body.
func VerifEvtimeBatchMsgp(cfg config.Config, body []byte) ([]time.Time, error) {
	b := verifEvtimeBatch(cfg)
	if _, err := b.UnmarshalMsg(body); err != nil {
		return nil, err
	}
	out := make([]time.Time, len(b.events))
	for i := range b.events {
		out[i] = b.events[i].getEventTime()
	}
	return out, nil
}

// VerifEvtimeBatchJSONInterleaved parses body A, then body B (another request taking the pooled
// parser), and only then reads A's event times, as Router.batch does lazily in its event loop.
func VerifEvtimeBatchJSONInterleaved(cfg config.Config, bodyA, bodyB []byte) ([]time.Time, error) {
	a := verifEvtimeBatch(cfg)
	if err := a.UnmarshalJSON(bodyA); err != nil {
		return nil, err
	}
	b := verifEvtimeBatch(cfg)
	if err := b.UnmarshalJSON(bodyB); err != nil {
		return nil, err
	}
	out := make([]time.Time, len(a.events))
	for i := range a.events {
		out[i] = a.events[i].getEventTime()
	}
	return out, nil
}
