//go:build verif

package route

import (
	"net/http"
	"net/http/httptest"
)

// Accessors for the `proxy` harness (C37).
// Unexported names touched: Router.server, Router.proxyClient, Router.setResponseHeaders.

// VerifProxyHandler is the handler LnS installed on the HTTP server: the real mux with the real
// middleware chain, whose last route is Router.proxy.
func VerifProxyHandler(r *Router) http.Handler { return r.server.Handler }

// VerifProxyFollowsRedirects reports whether the http.Client that LnS built for the proxy follows
// redirects by itself (net/http does unless CheckRedirect says otherwise).
func VerifProxyFollowsRedirects(r *Router) bool { return r.proxyClient.CheckRedirect == nil }

// VerifProxyMountDefaults runs the real setResponseHeaders middleware in front of an empty handler
// and returns the response headers it presets.
func VerifProxyMountDefaults(r *Router) http.Header {
	rec := httptest.NewRecorder()
	req := httptest.NewRequest("GET", "/", nil)
	r.setResponseHeaders(http.HandlerFunc(func(http.ResponseWriter, *http.Request) {})).ServeHTTP(rec, req)
	return rec.Header().Clone()
}
