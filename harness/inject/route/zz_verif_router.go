//go:build verif

package route

import (
	"net/http"

	"github.com/honeycombio/refinery/collect"
	"github.com/honeycombio/refinery/config"
	"github.com/honeycombio/refinery/logger"
	"github.com/honeycombio/refinery/metrics"
	"github.com/honeycombio/refinery/sharder"
	"github.com/honeycombio/refinery/transmit"
	"github.com/honeycombio/refinery/types"
)

// VerifRouterNew builds a Router the way LnS leaves it as far as processEvent is concerned (no
// listeners started), for the C19 harness.  Unexported names touched:
// Router.{routerType,iopLogger}, registerMetricNames, processEvent, getDatasetFromRequest.
func VerifRouterNew(cfg config.Config, lg logger.Logger, met metrics.Metrics,
	upstream, peer transmit.Transmission, coll collect.Collector, sh sharder.Sharder,
	rt types.RouterType) *Router {
	r := &Router{
		Config:               cfg,
		Logger:               lg,
		Metrics:              met,
		UpstreamTransmission: upstream,
		PeerTransmission:     peer,
		Collector:            coll,
		Sharder:              sh,
		routerType:           rt,
		iopLogger:            iopLogger{Logger: lg, incomingOrPeer: rt.String()},
	}
	r.registerMetricNames()
	return r
}

// VerifRouterProcessEvent runs the router's per-event routing on ev and returns its error.
func (r *Router) VerifRouterProcessEvent(ev *types.Event) error {
	return r.processEvent(ev, "verif")
}

// VerifRouterDataset is getDatasetFromRequest: the dataset name the event and batch handlers
// read from the request's mux variables.
func VerifRouterDataset(req *http.Request) (string, error) { return getDatasetFromRequest(req) }
