//go:build verif

// Accessors for the verification harness of the usage tracker and the agent's usage send loop
// (property C34).  Unexported names touched: Agent{ctx,cancel,clock,logger,agentType,agentVersion,
// hostname,opampClient,usageTracker}, newUsageTracker, usageTracker{Add,NewReport,completeSend,
// lastUsageData,currentDataPoints,lastDataPoints,mut}, sendUsageReport, errNoData, usageSignal,
// signal_*, sendAgentTelemetryCapability, serviceName, reportUsageInterval, defaultReportUsageInterval,
// reportUsagePeriodically.
package agent

import (
	"context"
	"errors"
	"time"

	"github.com/honeycombio/refinery/logger"
	"github.com/jonboulle/clockwork"
	"github.com/open-telemetry/opamp-go/client"
)

// VerifUsage wraps an Agent that has only the fields sendUsageReport needs; no OpAMP connection
// is made and no goroutine is started.
type VerifUsage struct{ a *Agent }

func VerifNewUsage(c client.OpAMPClient, clock clockwork.Clock) *VerifUsage {
	ctx, cancel := context.WithCancel(context.Background())
	return &VerifUsage{a: &Agent{
		ctx:          ctx,
		cancel:       cancel,
		clock:        clock,
		logger:       Logger{Logger: &logger.NullLogger{}},
		agentType:    serviceName,
		agentVersion: "v0",
		hostname:     "verif-host",
		opampClient:  c,
		usageTracker: newUsageTracker(),

		reportUsageInterval: defaultReportUsageInterval,
	}}
}

func (v *VerifUsage) Close() { v.a.cancel() }

// StartUsageLoop starts the real reporting loop exactly as Agent.connect does.
func (v *VerifUsage) StartUsageLoop() { go v.a.reportUsagePeriodically() }

// ReportInterval is the loop's ticker period.
func (v *VerifUsage) ReportInterval() time.Duration { return v.a.reportUsageInterval }

// Add is usageTracker.Add as the agent's health-check loop calls it.
func (v *VerifUsage) Add(signal string, reading float64) {
	v.a.usageTracker.Add(usageSignal(signal), reading)
}

// NewReport is usageTracker.NewReport with the agent's own identity arguments.
func (v *VerifUsage) NewReport(now time.Time) ([]byte, error) {
	return v.a.usageTracker.NewReport(v.a.agentType, v.a.agentVersion, v.a.hostname, now)
}

func (v *VerifUsage) CompleteSend() { v.a.usageTracker.completeSend() }

// SendUsageReport is one iteration of the agent's usage loop (reportUsagePeriodically's body).
func (v *VerifUsage) SendUsageReport() error { return v.a.sendUsageReport() }

// State returns copies of the tracker's three maps.
func (v *VerifUsage) State() (lastUsage, current, pending map[string]float64) {
	t := v.a.usageTracker
	t.mut.Lock()
	defer t.mut.Unlock()
	cp := func(m map[usageSignal]float64) map[string]float64 {
		o := make(map[string]float64, len(m))
		for k, x := range m {
			o[string(k)] = x
		}
		return o
	}
	return cp(t.lastUsageData), cp(t.currentDataPoints), cp(t.lastDataPoints)
}

func VerifIsNoData(err error) bool { return errors.Is(err, errNoData) }

// VerifSignals lists the signals the agent reports, in the order the health check adds them.
func VerifSignals() []string {
	return []string{string(signal_traces), string(signal_logs), string(signal_events_received), string(signal_events_dropped)}
}

// VerifSignalMetric returns (metric name, value of the "signal" attribute) a signal is reported under.
func VerifSignalMetric(signal string) (string, string) {
	m := signalToMetric[usageSignal(signal)]
	return m.metricName, m.signal
}

func VerifCapability() string { return sendAgentTelemetryCapability }
