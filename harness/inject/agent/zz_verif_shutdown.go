//go:build verif

package agent

import (
	"context"
	"time"

	"github.com/jonboulle/clockwork"
	"github.com/open-telemetry/opamp-go/client"

	"github.com/honeycombio/refinery/logger"
)

// Accessors for the `shutdown` verification harness (property C36).  Unexported names touched:
// Agent.{ctx, cancel, clock, logger, agentType, agentVersion, hostname, opampClient, usageTracker,
// healthCheckInterval, reportUsageInterval, healthCheck, reportUsagePeriodically}, newUsageTracker,
// usageTracker.{Add, mut, currentDataPoints, lastDataPoints}, signal_traces, serviceName.

type VerifShutdownAgent struct{ a *Agent }

const (
	VerifShutdownHealthInterval = time.Hour
	VerifShutdownUsageInterval  = 15 * time.Second
)

// VerifShutdownNewAgent builds an Agent as NewAgent does, minus the network connection, and starts
// its two background loops exactly as connect() does.  The health-check interval is an hour and the
// usage interval 15 s; the harness only ever fires the usage ticker.
func VerifShutdownNewAgent(c client.OpAMPClient, clock clockwork.Clock) *VerifShutdownAgent {
	ctx, cancel := context.WithCancel(context.Background())
	a := &Agent{
		ctx:                 ctx,
		cancel:              cancel,
		clock:               clock,
		logger:              Logger{Logger: &logger.NullLogger{}},
		agentType:           serviceName,
		agentVersion:        "v0",
		hostname:            "verif-host",
		opampClient:         c,
		usageTracker:        newUsageTracker(),
		healthCheckInterval: VerifShutdownHealthInterval,
		reportUsageInterval: VerifShutdownUsageInterval,
	}
	go a.healthCheck()
	go a.reportUsagePeriodically()
	return &VerifShutdownAgent{a: a}
}

// Stop is the exported Agent.Stop.
func (v *VerifShutdownAgent) Stop() { v.a.Stop(context.Background()) }

// Quiesce is harness clean-up after the observation has been made: a healthCheck goroutine that is
// still going round its loop would burn a CPU for the rest of the process, so the context it polls
// is replaced by one (of the same dynamic type) that is never cancelled and the loop blocks in its
// select.  Not part of what is observed.
func (v *VerifShutdownAgent) Quiesce() {
	ctx, _ := context.WithCancel(context.Background())
	v.a.ctx = ctx
}

// Add records cumulative trace usage, as the health-check loop does.
func (v *VerifShutdownAgent) Add(total float64) { v.a.usageTracker.Add(signal_traces, total) }

// HasData: are the tracker's current / last data points non-empty.
func (v *VerifShutdownAgent) HasData() (cur, last bool) {
	t := v.a.usageTracker
	t.mut.Lock()
	defer t.mut.Unlock()
	return len(t.currentDataPoints) > 0, len(t.lastDataPoints) > 0
}
