//go:build verif

package transmit

// Accessors for the `shutdown` verification harness (property C36).  Unexported names touched:
// DirectTransmission.{eventBatches, batchMutex}, eventBatch.{mutex, events}.

// VerifShutdownLockHeld: is batchMutex write-locked right now.  The harness asks only when no
// EnqueueEvent is running, so a held lock is one that was never released.
func VerifShutdownLockHeld(d *DirectTransmission) bool {
	if d.batchMutex.TryRLock() {
		d.batchMutex.RUnlock()
		return false
	}
	return true
}

// VerifShutdownPending is the number of events waiting in pending batches (-1: batchMutex is held).
func VerifShutdownPending(d *DirectTransmission) int {
	if !d.batchMutex.TryRLock() {
		return -1
	}
	defer d.batchMutex.RUnlock()
	n := 0
	for _, b := range d.eventBatches {
		b.mutex.Lock()
		n += len(b.events)
		b.mutex.Unlock()
	}
	return n
}

// VerifShutdownStopped: has Stop run (it sets eventBatches to nil); -1: batchMutex is held.
func VerifShutdownStopped(d *DirectTransmission) int {
	if !d.batchMutex.TryRLock() {
		return -1
	}
	defer d.batchMutex.RUnlock()
	if d.eventBatches == nil {
		return 1
	}
	return 0
}
