//go:build verif

package transmit

// VerifRouterBuildURL is buildRequestURL: the URL a batch for (apiHost, dataset) is POSTed to —
// to Honeycomb or, for forwarded spans, to the owning peer (C19 harness, dataset across a hop).
func VerifRouterBuildURL(apiHost, dataset string) (string, error) {
	return buildRequestURL(apiHost, dataset)
}
