//go:build verif

package transmit

import (
	"time"

	"github.com/honeycombio/refinery/types"
)

// VerifEvtimeMarshal serialises one outgoing batch event exactly as sendBatch does.
func VerifEvtimeMarshal(t time.Time, data types.Payload) ([]byte, error) {
	ev := batchedEvent{time: t, sampleRate: 1, data: data}
	return ev.MarshalMsg(nil)
}
