//go:build verif

package transmit

import (
	"github.com/tinylib/msgp/msgp"

	"github.com/honeycombio/refinery/types"
)

// VerifEncodingPackBatch is the body DirectTransmission.sendBatch posts to a peer's /1/batch for
// a batch holding just ev: array header + the real batchedEvent.MarshalMsg (which uses the real
// Payload.MarshalMsg).  Unexported names touched: batchedEvent (+ its fields and MarshalMsg).
func VerifEncodingPackBatch(ev *types.Event) ([]byte, error) {
	be := batchedEvent{time: ev.Timestamp, sampleRate: int64(ev.SampleRate), data: ev.Data}
	return be.MarshalMsg(msgp.AppendArrayHeader(nil, 1))
}
