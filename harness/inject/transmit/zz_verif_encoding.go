//go:build verif

package transmit

import (
	"github.com/honeycombio/refinery/types"
)

// VerifEncodingPackBatch is the body DirectTransmission.sendBatch posts to a peer's /1/batch for
// a batch holding just ev: array header + the real batchedEvent.MarshalMsg (which uses the real
// Payload.MarshalMsg).  It is taken from sendBatch itself (VerifTransmitPackOne), so that neither
// batchedEvent nor its fields are named here.
func VerifEncodingPackBatch(ev *types.Event) ([]byte, error) {
	return VerifTransmitPackOne(ev)
}
