//go:build verif

package transmit

import (
	"strconv"

	"github.com/sourcegraph/conc/pool"

	"github.com/honeycombio/refinery/types"
)

// Accessors for the C26 harness (vh_transmit).  Unexported names touched: apiMaxBatchSize,
// apiMaxEventSize, batchedEvent, buildRequestURL, DirectTransmission.dispatchPool,
// maxConcurrentBatches, DirectTransmission.batchMutex, DirectTransmission.eventBatches, eventBatch (not transmitKey).

// VerifTransmitFacts returns the size limits compiled into the package.
func VerifTransmitFacts() map[string]string {
	return map[string]string{
		"apiMaxBatchSize": strconv.Itoa(apiMaxBatchSize),
		"apiMaxEventSize": strconv.Itoa(apiMaxEventSize),
	}
}

// VerifTransmitMarshalSize is the number of bytes sendBatch's MarshalMsg appends for this event
// (what it compares with apiMaxEventSize), or the marshalling error.
func VerifTransmitMarshalSize(ev *types.Event) (int, error) {
	pe := batchedEvent{time: ev.Timestamp, sampleRate: int64(ev.SampleRate), data: ev.Data}
	b, err := pe.MarshalMsg(nil)
	if err != nil {
		return 0, err
	}
	return len(b), nil
}

// VerifTransmitBuildURL exposes buildRequestURL.
func VerifTransmitBuildURL(apiHost, dataset string) (string, error) {
	return buildRequestURL(apiHost, dataset)
}

// VerifTransmitDrain waits until every sendBatch that has been handed to the dispatch pool has
// returned.  conc's Pool cannot be reused after Wait, so a fresh pool with the same limit is
// installed first.  Must only be called while neither EnqueueEvent nor the ticker loop is
// running (the harness calls it between operations / after a tick has been processed).
func VerifTransmitDrain(d *DirectTransmission) {
	old := d.dispatchPool
	if old == nil {
		return
	}
	d.dispatchPool = pool.New().WithMaxGoroutines(maxConcurrentBatches)
	old.Wait()
}

// VerifTransmitDrainStart is VerifTransmitDrain in two steps: the fresh pool is installed before it
// returns, the returned function waits for the sends handed to the old pool.  It lets the harness
// call EnqueueEvent while a send is still in flight (held by the scripted upstream).
func VerifTransmitDrainStart(d *DirectTransmission) (wait func()) {
	old := d.dispatchPool
	if old == nil {
		return func() {}
	}
	d.dispatchPool = pool.New().WithMaxGoroutines(maxConcurrentBatches)
	return old.Wait
}

// VerifTransmitHoldMap takes the write lock of the batch map and returns its release.  The harness
// uses it to let several EnqueueEvent calls arrive at the map lookup together: a legitimate
// schedule (some other enqueue was inserting a batch at that moment).
func VerifTransmitHoldMap(d *DirectTransmission) (release func()) {
	d.batchMutex.Lock()
	return d.batchMutex.Unlock
}

// VerifTransmitPending returns the waiting events that carry this destination, in batch order.  The
// batch map is scanned by value (its key type is not named): an event counts by its own APIHost,
// APIKey and Dataset, whichever batch it sits in.
func VerifTransmitPending(d *DirectTransmission, apiHost, apiKey, dataset string) []*types.Event {
	var out []*types.Event
	d.batchMutex.RLock()
	defer d.batchMutex.RUnlock()
	for _, b := range d.eventBatches {
		b.mutex.Lock()
		for _, e := range b.events {
			if e.APIHost == apiHost && e.APIKey == apiKey && e.Dataset == dataset {
				out = append(out, e)
			}
		}
		b.mutex.Unlock()
	}
	return out
}
