//go:build verif

package transmit

import (
	"bytes"
	"errors"
	"io"
	"net/http"
	"net/url"
	"strconv"
	"sync"

	"github.com/jonboulle/clockwork"
	"github.com/sourcegraph/conc/pool"

	"github.com/honeycombio/refinery/logger"
	"github.com/honeycombio/refinery/metrics"
	"github.com/honeycombio/refinery/types"
)

// Accessors for the C26 harness (vh_transmit).  Unexported names touched: apiMaxBatchSize,
// apiMaxEventSize, buildRequestURL, sendBatch (batchedEvent and its fields are NOT named), DirectTransmission.dispatchPool,
// maxConcurrentBatches, DirectTransmission.batchMutex, DirectTransmission.eventBatches, eventBatch (not transmitKey).

// VerifTransmitFacts returns the size limits compiled into the package.
func VerifTransmitFacts() map[string]string {
	return map[string]string{
		"apiMaxBatchSize": strconv.Itoa(apiMaxBatchSize),
		"apiMaxEventSize": strconv.Itoa(apiMaxEventSize),
	}
}

// A scratch transmission whose transport records the request body and fails: whatever sendBatch
// would post is obtained from sendBatch itself, without naming the per-event struct or its fields.
var (
	probeMu   sync.Mutex
	probeBody []byte
	probeDT   *DirectTransmission
	probeLen  = map[[2]int64]int{} // (timestamp ns, sample rate) -> bytes in front of the payload
)

func probeSend(ev *types.Event) []byte {
	if probeDT == nil {
		tr := &http.Transport{Proxy: func(req *http.Request) (*url.URL, error) {
			if req.GetBody != nil {
				if rc, err := req.GetBody(); err == nil {
					probeBody, _ = io.ReadAll(rc)
					rc.Close()
				}
			}
			return nil, errors.New("verif probe: not sent")
		}}
		probeDT = NewDirectTransmission(types.TransmitTypePeer, tr, 1, 0, 0, false, nil)
		probeDT.Logger = &logger.NullLogger{}
		probeDT.Metrics = &metrics.NullMetrics{}
		probeDT.Clock = clockwork.NewRealClock()
		probeDT.httpClient = &http.Client{Transport: tr}
	}
	pe := *ev
	pe.APIHost, pe.APIKey, pe.Dataset = "http://probe.invalid", "probe", "probe"
	probeBody = nil
	probeDT.sendBatch([]*types.Event{&pe})
	return probeBody
}

// verifPrefix returns the bytes sendBatch puts in front of an event's payload in a batch of one
// (array header, time, sample rate, the "data" key), measured with a tiny payload.
func verifPrefix(ev *types.Event) ([]byte, error) {
	pe := *ev
	pe.Data = types.NewPayload(nil, map[string]any{"p": int64(1)})
	small, err := pe.Data.MarshalMsg(nil)
	if err != nil {
		return nil, err
	}
	body := probeSend(&pe)
	if body == nil || !bytes.HasSuffix(body, small) {
		return nil, errors.New("verif probe: the payload is not the tail of the posted event")
	}
	return body[:len(body)-len(small)], nil
}

// VerifTransmitPackOne is the (uncompressed) body sendBatch posts for a batch holding just ev, taken
// from sendBatch itself.  An event sendBatch refuses (over apiMaxEventSize) is composed from the
// prefix sendBatch writes for the same time and sample rate and the event's own payload bytes.
func VerifTransmitPackOne(ev *types.Event) ([]byte, error) {
	probeMu.Lock()
	defer probeMu.Unlock()
	payload, err := ev.Data.MarshalMsg(nil)
	if err != nil {
		return nil, err
	}
	if len(payload) < apiMaxEventSize/2 {
		if body := probeSend(ev); body != nil {
			return body, nil
		}
	}
	prefix, err := verifPrefix(ev)
	if err != nil {
		return nil, err
	}
	return append(append([]byte(nil), prefix...), payload...), nil
}

// VerifTransmitMarshalSize is the number of bytes sendBatch's MarshalMsg appends for this event
// (what it compares with apiMaxEventSize), or the marshalling error: the event's payload plus what
// sendBatch writes in front of it for this time and sample rate (measured once per pair, through
// sendBatch), minus the one-byte array header of a batch of one.
func VerifTransmitMarshalSize(ev *types.Event) (int, error) {
	probeMu.Lock()
	defer probeMu.Unlock()
	payload, err := ev.Data.MarshalMsg(nil)
	if err != nil {
		return 0, err
	}
	k := [2]int64{ev.Timestamp.UnixNano(), int64(ev.SampleRate)}
	n, ok := probeLen[k]
	if !ok {
		prefix, err := verifPrefix(ev)
		if err != nil {
			return 0, err
		}
		n = len(prefix) - 1
		probeLen[k] = n
	}
	return n + len(payload), nil
}

// VerifTransmitBuildURL exposes buildRequestURL.
func VerifTransmitBuildURL(apiHost, dataset string) (string, error) {
	return buildRequestURL(apiHost, dataset)
}

// VerifTransmitDrain waits until every sendBatch that has been handed to the dispatch pool has
// returned.  conc's Pool cannot be reused after Wait, so a fresh pool with the same limit is
// installed first.  Must only be called while neither EnqueueEvent nor the ticker loop is
// running (the harness calls it between operations / after a tick has been processed).
func VerifTransmitDrain(d *DirectTransmission) {
	old := d.dispatchPool
	if old == nil {
		return
	}
	d.dispatchPool = pool.New().WithMaxGoroutines(maxConcurrentBatches)
	old.Wait()
}

// VerifTransmitDrainStart is VerifTransmitDrain in two steps: the fresh pool is installed before it
// returns, the returned function waits for the sends handed to the old pool.  It lets the harness
// call EnqueueEvent while a send is still in flight (held by the scripted upstream).
func VerifTransmitDrainStart(d *DirectTransmission) (wait func()) {
	old := d.dispatchPool
	if old == nil {
		return func() {}
	}
	d.dispatchPool = pool.New().WithMaxGoroutines(maxConcurrentBatches)
	return old.Wait
}

// VerifTransmitHoldMap takes the write lock of the batch map and returns its release.  The harness
// uses it to let several EnqueueEvent calls arrive at the map lookup together: a legitimate
// schedule (some other enqueue was inserting a batch at that moment).
func VerifTransmitHoldMap(d *DirectTransmission) (release func()) {
	d.batchMutex.Lock()
	return d.batchMutex.Unlock
}

// VerifTransmitPending returns the waiting events that carry this destination, in batch order.  The
// batch map is scanned by value (its key type is not named): an event counts by its own APIHost,
// APIKey and Dataset, whichever batch it sits in.
func VerifTransmitPending(d *DirectTransmission, apiHost, apiKey, dataset string) []*types.Event {
	var out []*types.Event
	d.batchMutex.RLock()
	defer d.batchMutex.RUnlock()
	for _, b := range d.eventBatches {
		b.mutex.Lock()
		for _, e := range b.events {
			if e.APIHost == apiHost && e.APIKey == apiKey && e.Dataset == dataset {
				out = append(out, e)
			}
		}
		b.mutex.Unlock()
	}
	return out
}
